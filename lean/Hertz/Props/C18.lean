import Hertz.Proofs.Shutdown
import Hertz.Proofs.ShutdownSpecRefine
import Hertz.Proofs.ShutdownSpecFull
import Hertz.Proofs.ShutdownSpecBounded
import Hertz.Proofs.ShutdownSpecPrompt
import Hertz.Gen.Shutdown
import Hertz.Proofs.ShutdownSpin
import Hertz.Spec.ShutdownArriving
import Hertz.Gen.ShutdownSpin
/-!
# C18 — graceful shutdown lets in-flight requests finish and bounds the wait

Theorems about the interleaving model `Hertz.Shutdown` (one `step` = one atomic operation or lock
region of `Engine.Run/Shutdown`, `standard.transport.serve/Shutdown`, `http1.Server.Serve`), for
every action sequence (`run`), every number of connections, callers and hooks, every exit-wait
time.  The model is held to the Go code by `model_matches_gen` (constants and call order regenerated
from the source) and by trace validation against real servers (`harness/c18.go`).
-/
namespace Hertz.Props.C18
open Hertz.Shutdown

/-- The constants and the order of the atomic steps the model assumes are the ones in the source:
status iota block, the CAS operands, `Load` → `CAS` → `WithTimeout` → `go hooks` → `transport.Shutdown`
in `Engine.Shutdown`, `Init` → `MarkAsRunning` → deferred `Store(closed)` → `listenAndServe` in `Run`,
`Listener` → `Close` → `NewTicker` → `updateActive(0)` … in `transport.Shutdown`, `Accept` →
`updateActive(1)` → `go { handler; updateActive(-1) }` in `serve`, and in `Serve`:
`ServeHTTP` → `IsRunning` (exit check, sets `connectionClose = true`, no else) → `writeResponse` → `Flush`. -/
theorem model_matches_gen :
    Hertz.Gen.Shutdown.statusNames = ["_", "statusInitialized", "statusRunning", "statusShutdown", "statusClosed"] ∧
    stInitialized = Hertz.Gen.Shutdown.statusInitialized ∧ stRunning = Hertz.Gen.Shutdown.statusRunning ∧
    stShutdown = Hertz.Gen.Shutdown.statusShutdown ∧ stClosed = Hertz.Gen.Shutdown.statusClosed ∧
    ({ exitWait := 0 } : Cfg).tick = Hertz.Gen.Shutdown.shutdownTickerMs ∧
    ({ exitWait := 0 } : Cfg).maxWait = Hertz.Gen.Shutdown.shutdownTimeoutMs ∧
    Hertz.Gen.Shutdown.defaultWaitExitTimeoutMs = 5000 ∧
    Hertz.Gen.Shutdown.engineShutdownCalls = ["atomic.LoadUint32", "atomic.CompareAndSwapUint32", "engine.GetOptions",
      "context.WithTimeout", "cancel", "make", "func", "close", "engine.executeOnShutdownHooks", "func", "ctx.Done",
      "ctx.Err", "opt.Registry.Deregister", "engine.transport.Shutdown", "ctx.Err"] ∧
    Hertz.Gen.Shutdown.engineShutdownAtomics = ["atomic.LoadUint32(&engine.status)",
      "atomic.CompareAndSwapUint32(&engine.status, statusRunning, statusShutdown)"] ∧
    Hertz.Gen.Shutdown.engineShutdownGuards = ["if atomic.LoadUint32(&engine.status) != statusRunning",
      "return errStatusNotRunning",
      "if !atomic.CompareAndSwapUint32(&engine.status, statusRunning, statusShutdown)", "return errStatusNotRunning"] ∧
    Hertz.Gen.Shutdown.engineRunCalls = ["engine.Init()", "context.Background()", "engine.MarkAsRunning()",
      "atomic.StoreUint32(&engine.status, statusClosed)", "engine.listenAndServe()"] ∧
    Hertz.Gen.Shutdown.markAsRunningAtomics = ["atomic.CompareAndSwapUint32(&engine.status, statusInitialized, statusRunning)"] ∧
    Hertz.Gen.Shutdown.initAtomics = ["atomic.CompareAndSwapUint32(&engine.status, 0, statusInitialized)"] ∧
    Hertz.Gen.Shutdown.isRunningCalls = ["atomic.LoadUint32(&engine.status)", "v.Listener()"] ∧
    Hertz.Gen.Shutdown.hooksCalls = ["wg.Add", "func", "wg.Done", "engine.OnShutdown[index]", "wg.Wait"] ∧
    Hertz.Gen.Shutdown.transportShutdownCalls = ["func", "t.Listener()", "ln.Close()", "time.NewTicker(shutdownTicker)",
      "tk.Stop()", "t.updateActive(0)", "time.Now()", "t.updateActive(0)", "now.Sub(t0)", "ctx.Done()", "ctx.Err()"] ∧
    Hertz.Gen.Shutdown.transportServeCalls = ["ln.Accept()", "t.updateActive(1)", "func", "t.handler(ctx, conn)",
      "t.handler(ctx, conn)", "t.updateActive(-1)"] ∧
    Hertz.Gen.Shutdown.updateActiveCalls = ["atomic.AddInt32(&t.active, delta)"] ∧
    Hertz.Gen.Shutdown.serveCalls = ["zw.Flush", "ctx.Request.Header.ConnectionClose", "s.Core.ServeHTTP",
      "s.Core.IsRunning", "ctx.Response.ConnectionClose", "writeResponse", "zw.Flush"] ∧
    Hertz.Gen.Shutdown.exitCheck = ["if !s.Core.IsRunning()", "connectionClose = true"] := by
  decide +kernel

/-! ## status machine -/

/-- **status_monotone.** Along every execution the engine status never decreases
(0 → initialized → running → shutdown → closed; it may skip values, it never goes back). -/
theorem status_monotone (cfg : Cfg) (n : Nat) (acts₁ acts₂ : List Act) (s₁ s₂ : State)
    (h₁ : run cfg (init n) acts₁ = some s₁) (h₂ : run cfg s₁ acts₂ = some s₂) : s₁.status ≤ s₂.status :=
  run_status_le cfg acts₂ (reachable_inv ⟨acts₁, h₁⟩) h₂

example : (run { exitWait := 5 } (init 0) [.init, .markRunning, .listen, .shutCall, .shutLoad 0, .shutCas 0]).map (·.status) = some 3 := by
  decide

/-- **second_shutdown_errors.** In every reachable state, EVERY caller of `Shutdown` other than the one
that won the CAS (index `winK` once `win ≠ none`; nobody while `win = none`) is either still on its
way to its load / CAS (`called`, `loaded`: two non-blocking steps, see `caller_never_blocks`) or has
returned `errStatusNotRunning`.  No such caller ever returns `nil`, and none ever enters a waiting
phase: sequential second calls, calls racing with the winner, calls on an engine that never ran or
has already closed. -/
theorem second_shutdown_errors (cfg : Cfg) (n : Nat) (acts : List Act) (s : State)
    (hr : run cfg (init n) acts = some s) (k : Nat) (p : CallerPh) (hk : s.callers[k]? = some p)
    (hnw : s.win = .none ∨ k ≠ s.winK) :
    p = .called ∨ p = .loaded ∨ p = .returned .notRunning ∨ p = .finished .notRunning := by
  have := run_callersOk cfg acts (inv_init n) (callersOk_init n) hr k p hk hnw
  cases p <;> simp_all [pendOrErr]
  all_goals (rename_i e; cases e <;> simp_all)

/-- the load of a call made after a won CAS, or on a non-running engine, goes straight to
`returned notRunning` -/
theorem second_shutdown_immediate (cfg : Cfg) (n : Nat) (acts : List Act) (s : State)
    (hr : run cfg (init n) acts = some s) (hw : s.win ≠ .none ∨ s.status ≠ stRunning)
    (k : Nat) (hk : s.callers[k]? = some .called) :
    step cfg s (.shutLoad k) = some { s with callers := s.callers.set k (.returned .notRunning) } := by
  have inv := reachable_inv ⟨acts, hr⟩
  have hne : s.status ≠ stRunning := by
    rcases hw with hw | hw
    · have := inv.winSt hw
      simp [stShutdown, stRunning] at this ⊢; omega
    · exact hw
  simp [step, updCaller, hk, hne]

/-- non-vacuity: second call after a completed shutdown; a call on an engine that never ran; and the
regression schedule of the repaired defect (commit "fix: the loser of two concurrent Shutdown calls
reported success"): both callers load before either CAS — the loser now reports the error -/
example : (run { exitWait := 5 } (init 0) [.init, .markRunning, .listen, .shutCall, .shutLoad 0, .shutCas 0, .shutSpawn,
    .shutCloseLn, .advance 10, .shutTick1, .shutFinish, .callerRet 0 .nil, .shutCall, .shutLoad 1]).map (·.callers) =
    some [.finished .nil, .returned .notRunning] := by decide
example : (run { exitWait := 5 } (init 0) [.shutCall, .shutLoad 0]).map (·.callers) = some [.returned .notRunning] := by decide
example : (run { exitWait := 5 } (init 0) [.init, .markRunning, .listen, .shutCall, .shutCall, .shutLoad 0, .shutLoad 1,
    .shutCas 0, .shutCas 1]).map (fun s => (s.callers, s.winK)) = some ([.winner, .returned .notRunning], 0) := by decide

/-- A caller is never stuck: from `called` the load is enabled, from `loaded` the CAS is enabled,
whatever the rest of the system does (no lock, no wait). -/
theorem caller_never_blocks (cfg : Cfg) (s : State) (k : Nat) :
    (s.callers[k]? = some .called → (step cfg s (.shutLoad k)).isSome) ∧
    (s.callers[k]? = some .loaded → (step cfg s (.shutCas k)).isSome) := by
  constructor
  · intro h; simp [step, updCaller, h]
  · intro h; simp only [step, h]; split <;> simp

example : (step { exitWait := 5 } { (init 0) with callers := [.called] } (.shutLoad 0)).isSome = true := by decide

/-! ## in-flight requests -/

/-- **inflight_complete (counting).** In every reachable state, on every connection, every request
whose handler has started has either been answered by a complete response or is still in flight
(at most one per connection): no action of the model — in particular none of the shutdown steps —
drops a started request. -/
theorem inflight_complete (cfg : Cfg) (n : Nat) (acts : List Act) (s : State) (hr : run cfg (init n) acts = some s)
    (cn : Conn) (hc : cn ∈ s.conns) : cn.started = cn.resps.length + inflight cn.ph :=
  ((reachable_inv ⟨acts, hr⟩).conns cn hc).count

/-- **inflight_complete (progress).** Whatever the state of the shutdown, an in-flight request can
always take its next step: the handler may return, the exit check may run, the response may be
written.  Nothing in `Shutdown` disables these steps. -/
theorem inflight_progress (cfg : Cfg) (s : State) (c : Nat) (cn : Conn) (hc : s.conns[c]? = some cn) :
    (∀ rc, cn.ph = .handling rc → ∀ b, (step cfg s (.handlerRet c b)).isSome) ∧
    (∀ cl g, cn.ph = .returned cl g → (step cfg s (.exitCheck c)).isSome) ∧
    (∀ cl g, cn.ph = .checked cl g → (step cfg s (.writeResp c)).isSome) := by
  refine ⟨?_, ?_, ?_⟩
  · intro rc h b; simp [step, updConn, hc, cHandlerRet, h]
  · intro cl g h; simp [step, updConn, hc, cExitCheck, h]
  · intro cl g h; simp [step, updConn, hc, cWriteResp, h]

/-- non-vacuity: a request in flight across a whole shutdown that hits the deadline is answered
afterwards, completely, with `Connection: close` -/
example : (run { exitWait := 20 } (init 0) [.init, .markRunning, .listen, .accept, .reqArrive 0 false, .shutCall, .shutLoad 0,
    .shutCas 0, .shutSpawn, .shutCloseLn, .advance 10, .shutTick1, .advance 10, .shutCtxDone, .shutFinish, .callerRet 0 .nil,
    .handlerRet 0 false, .exitCheck 0, .writeResp 0, .clientRead 0 true, .connGone 0]).map
      (fun s => (s.conns.map (fun c => (c.started, c.resps)), s.active)) = some ([(1, [⟨true, true⟩])], 0) := by decide

/-- **close_after_shutdown.** In every reachable state, every response whose handler returned when the
status had already left `running` (ghost flag `flipped`, set by `handlerRet` to `status ≥ shutdown`)
carries `Connection: close`. -/
theorem close_after_shutdown (cfg : Cfg) (n : Nat) (acts : List Act) (s : State) (hr : run cfg (init n) acts = some s)
    (cn : Conn) (hc : cn ∈ s.conns) (r : Resp) (hm : r ∈ cn.resps) (hf : r.flipped = true) : r.close = true :=
  ((reachable_inv ⟨acts, hr⟩).conns cn hc).resps r hm hf

/-- the ghost flag is what it is said to be: `handlerRet` records `status ≥ shutdown` of that instant -/
theorem flipped_is_status (cfg : Cfg) (s s' : State) (c : Nat) (b : Bool) (h : step cfg s (.handlerRet c b) = some s') :
    ∃ cl, (s'.conns[c]?).map (·.ph) = some (.returned cl (decide (stShutdown ≤ s.status))) := by
  simp only [step] at h
  obtain ⟨cn, cn', hc, hf, rfl⟩ := updConn_some h
  unfold cHandlerRet at hf
  split at hf <;> simp at hf
  subst hf
  have : c < s.conns.length := by
    rcases Nat.lt_or_ge c s.conns.length with h | h
    · exact h
    · simp [List.getElem?_eq_none h] at hc
  rename_i rc _
  exact ⟨rc || b, by simp [this]⟩

/-- **close_after_shutdown (trace form, no ghost).**  Take any execution; at a moment when the status
has left `running` (`stShutdown ≤ status`: a `Shutdown` won its CAS, or `Run` has returned) let the
handler of the request in flight on connection `c` return; continue with any execution whatsoever.
Whenever the response to that request exists (it is response number `cn₁.resps.length` of the
connection), it carries `Connection: close`. -/
theorem close_after_shutdown_trace (cfg : Cfg) (n : Nat) (acts₁ acts₂ : List Act) (s₁ s₁' s₂ : State) (c : Nat) (b : Bool)
    (h₁ : run cfg (init n) acts₁ = some s₁) (hflip : stShutdown ≤ s₁.status)
    (hs : step cfg s₁ (.handlerRet c b) = some s₁') (h₂ : run cfg s₁' acts₂ = some s₂)
    (cn₁ cn₂ : Conn) (hc₁ : s₁.conns[c]? = some cn₁) (hc₂ : s₂.conns[c]? = some cn₂)
    (r : Resp) (hr : cn₂.resps[cn₁.resps.length]? = some r) : r.close = true := by
  -- after the handler return the request is pending with the ghost set
  have hp : PendAt c cn₁.resps.length s₁' := by
    simp only [step] at hs
    obtain ⟨cn, cn', hc, hf, rfl⟩ := updConn_some hs
    rw [hc₁] at hc; cases hc
    unfold cHandlerRet at hf
    split at hf <;> simp at hf
    subst hf
    have hlt : c < s₁.conns.length := by
      rcases Nat.lt_or_ge c s₁.conns.length with h | h
      · exact h
      · simp [List.getElem?_eq_none h] at hc₁
    rename_i rc _
    refine ⟨{ cn₁ with ph := .returned (rc || b) (decide (stShutdown ≤ s₁.status)) }, by simp [hlt], Or.inl ⟨rfl, ?_⟩⟩
    simpa [pendPh] using hflip
  obtain ⟨cn, hcn, hpend⟩ := run_pendAt cfg acts₂ hp h₂
  rw [hc₂] at hcn; cases hcn
  have inv₁' : Inv s₁' := step_inv cfg (reachable_inv ⟨acts₁, h₁⟩) hs
  have inv₂ : Inv s₂ := run_inv cfg acts₂ inv₁' h₂
  have hok := inv₂.conns cn₂ (List.mem_of_getElem? hc₂)
  rcases hpend with ⟨hl, _⟩ | ⟨r', hr', hfl⟩
  · have : cn₂.resps[cn₁.resps.length]? = none := by simp [← hl]
    simp [this] at hr
  · rw [hr] at hr'; cases hr'
    exact hok.resps r (List.mem_of_getElem? hr) hfl

/-- non-vacuity: shutdown begins, the handler returns, other connections come and go, the response follows -/
example : (run { exitWait := 20 } (init 0) [.init, .markRunning, .listen, .accept, .accept, .reqArrive 0 false, .shutCall, .shutLoad 0,
    .shutCas 0, .handlerRet 0 false, .reqArrive 1 true, .shutSpawn, .exitCheck 0, .handlerRet 1 false, .writeResp 0]).map
      (fun s => s.conns.map (·.resps)) = some [[⟨true, true⟩], []] := by decide

/-- and the converse direction on a concrete run: a handler that returns before the CAS but is
checked after it also gets `Connection: close` (the check, not the return, decides) -/
example : (run { exitWait := 20 } (init 0) [.init, .markRunning, .listen, .accept, .reqArrive 0 false, .handlerRet 0 false,
    .shutCall, .shutLoad 0, .shutCas 0, .exitCheck 0, .writeResp 0]).map (fun s => s.conns.map (·.resps)) =
    some [[⟨true, false⟩]] := by decide
example : (run { exitWait := 20 } (init 0) [.init, .markRunning, .listen, .accept, .reqArrive 0 false, .handlerRet 0 false,
    .exitCheck 0, .shutCall, .shutLoad 0, .shutCas 0, .writeResp 0]).map (fun s => s.conns.map (·.resps)) =
    some [[⟨false, false⟩]] := by decide

/-! ## hooks -/

/-- **hooks_started.** Once the winning caller is past the `go executeOnShutdownHooks` step, every
registered hook has been spawned; in particular when `Shutdown` has returned. -/
theorem hooks_started (cfg : Cfg) (n : Nat) (acts : List Act) (s : State) (hr : run cfg (init n) acts = some s)
    (h1 : s.win ≠ .none) (h2 : s.win ≠ .pre) : ∀ h ∈ s.hooks, h ≠ .unspawned :=
  (reachable_inv ⟨acts, hr⟩).spawned h1 h2

/-- **hooks_waited.** If `Shutdown` returned before the deadline of its context, all hooks had finished. -/
theorem hooks_waited (cfg : Cfg) (n : Nat) (acts : List Act) (s : State) (hr : run cfg (init n) acts = some s)
    (e : Err) (t : Nat) (hw : s.win = .returned e t) (ht : t < s.dl) : hooksDone s = true :=
  (reachable_inv ⟨acts, hr⟩).retHooks e t hw ht

example : (run { exitWait := 50 } (init 2) [.init, .markRunning, .listen, .shutCall, .shutLoad 0, .shutCas 0, .shutSpawn,
    .hookStart 1, .shutCloseLn, .hookStart 0, .hookEnd 1, .advance 10, .shutTick1, .advance 5, .hookEnd 0, .shutFinish]).map
      (fun s => (s.win, s.dl, s.hooks)) = some (.returned .nil 15, 50, [.done, .done]) := by decide

/-! ## no accept after shutdown -/

/-- The full statement "after the listener-closing step of `Shutdown` no connection is accepted" is
FALSE of the code: `Engine.Run` marks the engine running *before* `transport.serve` creates the
listener; a `Shutdown` in that window wins the CAS, finds `t.ln == nil`, closes nothing, returns
`nil`, and `serve` then listens and accepts for ever.  (Reproduced on the real server by
`c18race` in `harness/c18.go`.) -/
theorem no_accept_after_shutdown_fails_at :
    ¬ (∀ s, run { exitWait := 100 } (init 0) [.init, .markRunning, .shutCall, .shutLoad 0, .shutCas 0, .shutSpawn, .shutCloseLn,
          .advance 10, .shutTick1, .shutFinish, .callerRet 0 .nil, .listen, .accept] = some s → s.lateAccepts = 0) := by
  intro h
  have hrun : (run { exitWait := 100 } (init 0) [.init, .markRunning, .shutCall, .shutLoad 0, .shutCas 0, .shutSpawn, .shutCloseLn,
      .advance 10, .shutTick1, .shutFinish, .callerRet 0 .nil, .listen, .accept]).map (fun s => (s.lateAccepts, s.callers, s.lnOpen)) =
      some (1, [.finished .nil], true) := by decide
  cases hs : run { exitWait := 100 } (init 0) [.init, .markRunning, .shutCall, .shutLoad 0, .shutCas 0, .shutSpawn, .shutCloseLn,
      .advance 10, .shutTick1, .shutFinish, .callerRet 0 .nil, .listen, .accept] with
  | none => simp [hs] at hrun
  | some s =>
    simp [hs] at hrun
    have := h s hs
    omega

/-- **no_accept_after_shutdown (partial).** If `transport.Shutdown` found the listener
(`lnSkipped = false`: `serve` had listened before the shutdown reached the transport), then no
connection has been accepted after that step, the listener stays closed and `accept` stays disabled. -/
theorem no_accept_after_shutdown_partial (cfg : Cfg) (n : Nat) (acts : List Act) (s : State)
    (hr : run cfg (init n) acts = some s) (hs : s.lnSkipped = false) :
    s.lateAccepts = 0 ∧ (postClose s.win = true → s.lnOpen = false ∧ step cfg s .accept = none) := by
  have inv := reachable_inv ⟨acts, hr⟩
  refine ⟨inv.late1 hs, fun hp => ?_⟩
  have := (inv.closed hp hs).1
  exact ⟨this, by simp [step, this]⟩

example : (run { exitWait := 100 } (init 0) [.init, .markRunning, .listen, .accept, .shutCall, .shutLoad 0, .shutCas 0, .shutSpawn,
    .shutCloseLn]).map (fun s => (s.lnSkipped, s.lnOpen, postClose s.win)) = some (false, false, true) := by decide

/-! ## the wait is bounded -/

/-- **shutdown_bounded.** Along every execution in which the shutdown goroutine is scheduled
promptly (`runPrompt`: the clock advances only while that goroutine is blocked, and not past the
instant that wakes it), `Shutdown` returns no later than `ExitWaitTimeout` plus one ticker period
after its CAS — whatever connections, handlers and hooks do (busy for ever, idle keep-alive that never
closes, hooks that never end). -/
theorem shutdown_bounded (cfg : Cfg) (n : Nat) (acts : List Act) (s : State)
    (hr : runPrompt cfg (init n) acts = some s) (e : Err) (t : Nat) (hw : s.win = .returned e t) :
    t ≤ s.tcas + cfg.exitWait + cfg.tick := by
  have := (runPrompt_inv cfg acts (inv_init n) (by simp [TimeInv, init]) hr).2
  simpa [TimeInv, hw] using this

/-- non-vacuity: an idle keep-alive connection that never closes and a hook that never ends — the call
returns exactly at the deadline; with an exit wait below one tick it returns after one tick -/
example : (runPrompt { exitWait := 30 } (init 1) [.init, .markRunning, .listen, .accept, .advance 7, .shutCall, .shutLoad 0, .shutCas 0,
    .shutSpawn, .hookStart 0, .shutCloseLn, .advance 10, .shutTick1, .advance 10, .shutTickLoop, .advance 10, .shutCtxDone,
    .shutFinish]).map (fun s => (s.win, s.tcas)) = some (.returned .nil 37, 7) := by decide
example : (runPrompt { exitWait := 3 } (init 0) [.init, .markRunning, .listen, .shutCall, .shutLoad 0, .shutCas 0,
    .shutSpawn, .shutCloseLn, .advance 10, .shutTick1, .shutFinish]).map (fun s => (s.win, s.tcas)) = some (.returned .nil 10, 0) := by decide
/-- the discipline is needed: without it the clock may run while the goroutine is runnable -/
example : (runPrompt { exitWait := 3 } (init 0) [.init, .markRunning, .listen, .shutCall, .shutLoad 0, .shutCas 0, .advance 1]) = none := by decide

/-- The winning caller always has an enabled step once the time it waits for has come: no phase of
`Shutdown` can block for ever (no hang). -/
theorem shutdown_never_stuck (cfg : Cfg) (s : State) :
    (s.win = .pre → (step cfg s .shutSpawn).isSome) ∧
    (s.win = .closeLn → (step cfg s .shutCloseLn).isSome) ∧
    (s.win = .wait1 → s.nextTick ≤ s.now → (step cfg s .shutTick1).isSome) ∧
    (∀ t0, s.win = .loop t0 → s.dl ≤ s.now → (step cfg s .shutCtxDone).isSome) ∧
    (∀ e, s.win = .deferred e → s.dl ≤ s.now → (step cfg s .shutFinish).isSome) := by
  refine ⟨?_, ?_, ?_, ?_, ?_⟩
  · intro h; simp [step, h]
  · intro h; simp [step, h]
  · intro h h'; simp [step, h, h']
  · intro t0 h h'; simp [step, h, h']
  · intro e h h'; simp [step, h, h']

example : (step { exitWait := 5 } { (init 0) with win := .deferred .nil, dl := 5, now := 5 } .shutFinish).isSome = true := by decide

/-! ## the trace specification holds of the observable projection of every run

`obsRun cfg (init n) acts` is the event sequence a harness records around a run of the model (the
inverse of the driver's `obsActs`: `listen ↦ L`, `accept ↦ A c`, `reqArrive ↦ Q c k rc`,
`handlerRet ↦ X c k b`, `clientRead ↦ R c k cl true`, `shutCall ↦ S k`, `callerRet ↦ T k err`,
`hookStart/End ↦ HS/HE j`, dials, `B/C/E`; every other step is unobservable; time stamp = model clock).
`allOk okWin` is the environment discipline "no CAS of a `Shutdown` caller succeeds in the window between
`MarkAsRunning` and the creation of the listener": it excludes exactly the known finding *Shutdown before
Listen* (and implies `lnSkipped = false`, the hypothesis of `no_accept_after_shutdown_partial`).  `Shutdown` may
be called at any time, in particular on an engine that has not been started and is started later.  The former
discipline `okListen` ("`Shutdown` is only called once the listener exists", what the harness does) is a
special case (`okListen_okWin`).  The theorems below are about the very functions of `Hertz.ShutdownSpec` the
driver evaluates on the REAL server's events. -/
section spec
open Hertz.ShutdownSpec

/-- a run that respects `okListen` respects `okWin` -/
theorem okListen_okWin (cfg : Cfg) (n : Nat) (acts : List Act) (s : State)
    (hr : run cfg (init n) acts = some s) (hok : allOk okListen cfg (init n) acts = true) :
    allOk okWin cfg (init n) acts = true :=
  allOk_okListen_okWin cfg acts (inv_init n) (si1_init n) (callGuard_init n) hr hok

example : allOk okListen { exitWait := 5 } (init 0) [.init, .markRunning, .listen, .shutCall, .shutLoad 0, .shutCas 0] = true ∧
    allOk okWin { exitWait := 5 } (init 0) [.shutCall, .init, .markRunning, .listen, .shutLoad 0, .shutCas 0] = true ∧
    allOk okWin { exitWait := 5 } (init 0) [.init, .markRunning, .shutCall, .shutLoad 0, .shutCas 0] = false := by decide

/-- **close_after_shutdown, trace form without ghosts.**  After the first flip witness (`HS`, a `T` other than
`errStatusNotRunning`, or an `errStatusNotRunning` given to a call made after `L`) no handler exit
`X c k` is followed by a complete response `R c k` lacking `Connection: close` — for every run, every
schedule, any number of connections / callers / hooks. -/
theorem obs_close_after_shutdown (cfg : Cfg) (n : Nat) (acts : List Act) (s : State)
    (hr : run cfg (init n) acts = some s) (hok : allOk okWin cfg (init n) acts = true) :
    closeAfterShutdown (obsRun cfg (init n) acts).toArray = [] :=
  obs_closeAfterShutdown (fun _ _ h => h) hr hok

/-- **no_accept_after_shutdown, trace form.** -/
theorem obs_no_accept_after_shutdown (cfg : Cfg) (n : Nat) (acts : List Act) (s : State)
    (hr : run cfg (init n) acts = some s) (hok : allOk okWin cfg (init n) acts = true) :
    noAcceptAfter (obsRun cfg (init n) acts).toArray = [] :=
  obs_noAcceptAfter (fun _ _ h => h) hr hok

/-- **second_shutdown_errors, trace form**: a call that returns before the listener answered, or that was
made after a return showing that the status had flipped, gets `errStatusNotRunning`; a call made on the
listening engine that is alone until it returns gets `nil` — or `errShutdownTimeout`, but
only when it has lasted longer than the 30 s cap of `transport.Shutdown` (the clause was repaired for
that case, see `spec_accepts_cap_timeout`; the former hypothesis "no timeout is observed" is gone). -/
theorem obs_second_shutdown_errors (p : Params) (cfg : Cfg) (n : Nat) (acts : List Act) (s : State)
    (hr : run cfg (init n) acts = some s) (hok : allOk okWin cfg (init n) acts = true) (hp : ParamsOk p cfg n) :
    errorsReported p (obsRun cfg (init n) acts).toArray = [] :=
  obs_errorsReported (fun _ _ h => h) hr hok p (obs_timeout_late (fun _ _ h => h) hr hok hp)

/-- **inflight_complete, trace form**: if at the end every client has read the responses to the
requests that reached a handler (`Settled`: the run is complete on the client side), every `Q c k` is
followed by a complete `R c k`, and no truncated response is ever observed — whatever `Shutdown` did
in between (no `okListen` needed). -/
theorem obs_inflight_complete (cfg : Cfg) (n : Nat) (acts : List Act) (s : State)
    (hr : run cfg (init n) acts = some s) (hset : Settled s) :
    inflightComplete (obsRun cfg (init n) acts).toArray = [] :=
  obs_inflightComplete hr hset

/-- **no spurious close, trace form**: a response read before any `Shutdown` call carries
`Connection: close` only if its request (`Q c k true`) or its handler (`X c k true`) asked for it. -/
theorem obs_no_spurious_close (cfg : Cfg) (n : Nat) (acts : List Act) (s : State)
    (hr : run cfg (init n) acts = some s) (hok : allOk okWin cfg (init n) acts = true) :
    noSpuriousClose (obsRun cfg (init n) acts).toArray = [] :=
  obs_noSpuriousClose (fun _ _ h => h) hr hok

/-- **hooks_started / hooks_waited / inflight_waited, trace form**: once a call returned `nil`, every
registered hook has an `HS` event (for runs that leave no hook goroutine unscheduled, `HooksStarted`);
and if that call returned more than 2 ms before `ExitWaitTimeout` had elapsed, every hook had ended
(`HE`) and every entered handler had returned (`X`) before the return.  No scheduling discipline. -/
theorem obs_hooks_run (p : Params) (cfg : Cfg) (n : Nat) (acts : List Act) (s : State)
    (hr : run cfg (init n) acts = some s) (hok : allOk okWin cfg (init n) acts = true) (hp : ParamsOk p cfg n)
    (hst : HooksStarted s) : hooksRun p (obsRun cfg (init n) acts).toArray = [] :=
  obs_hooksRun (fun _ _ h => h) hr hok hp hst

/-- **conns_waited, trace form** (new clause): after a `nil` return more than 2 ms before the deadline no
request enters a handler any more — every connection was gone when the call returned (`active = 0`),
and none is accepted afterwards. -/
theorem obs_conns_waited (p : Params) (cfg : Cfg) (n : Nat) (acts : List Act) (s : State)
    (hr : run cfg (init n) acts = some s) (hok : allOk okWin cfg (init n) acts = true) (hp : ParamsOk p cfg n) :
    connsWaited p (obsRun cfg (init n) acts).toArray = [] :=
  obs_connsWaited (fun _ _ h => h) hr hok hp

/-- **shutdown_bounded, trace form**: under the scheduling discipline `okSched` (the clock advances only
while the winner of the CAS is blocked and not beyond the instant that wakes it, no other caller is
between its call and its return, no connection goroutine has an internal step to take), in a run in
which every call has returned (`CallersDone`), every `S k` is followed by a `T k`, and every such return
comes at most `ExitWaitTimeout + tick` (+ slack) after the call. -/
theorem obs_shutdown_bounded (p : Params) (cfg : Cfg) (n : Nat) (acts : List Act) (s : State)
    (hr : run cfg (init n) acts = some s) (hok : allOk okSched cfg (init n) acts = true) (hp : ParamsOk p cfg n)
    (hfin : CallersDone s) : bounded p (obsRun cfg (init n) acts).toArray = [] :=
  obs_bounded hp hr hok hfin

/-- **run_satisfies_spec (without scheduling discipline).**  For every run of the model that respects
`okWin`, ends client-complete (`Settled`) and leaves no hook goroutine unscheduled, every clause of
`ShutdownSpec.violations` that does not bound a duration is empty; what remains are the two wall-clock
clauses, which need the discipline `okSched` (`run_satisfies_spec`). -/
theorem run_satisfies_spec_partial (p : Params) (cfg : Cfg) (n : Nat) (acts : List Act) (s : State)
    (hr : run cfg (init n) acts = some s) (hok : allOk okWin cfg (init n) acts = true) (hp : ParamsOk p cfg n)
    (hset : Settled s) (hst : HooksStarted s) :
    violations p (obsRun cfg (init n) acts).toArray =
      bounded p (obsRun cfg (init n) acts).toArray ++ prompt p (obsRun cfg (init n) acts).toArray := by
  unfold violations
  rw [obs_inflight_complete cfg n acts s hr hset, obs_close_after_shutdown cfg n acts s hr hok,
    obs_no_spurious_close cfg n acts s hr hok, obs_no_accept_after_shutdown cfg n acts s hr hok,
    obs_second_shutdown_errors p cfg n acts s hr hok hp, obs_hooks_run p cfg n acts s hr hok hp hst,
    obs_conns_waited p cfg n acts s hr hok hp]
  simp

theorem allOk_okSched_okWin (cfg : Cfg) : ∀ (acts : List Act) (s : State), allOk okSched cfg s acts = true →
    allOk okWin cfg s acts = true
  | [], _, _ => rfl
  | a :: t, s, h => by
    simp only [allOk, Bool.and_eq_true] at h ⊢
    refine ⟨okSched_okWin s a h.1, ?_⟩
    cases hs : step cfg s a with
    | none => rfl
    | some s' => simp only [hs] at h; exact allOk_okSched_okWin cfg t s' h.2

/-- **prompt, trace form**: under the scheduling discipline `okSched`, if the call that returned `nil` did not
return early, then it returned at most one ticker period after the last of: its own call, the end of the last
hook, the end of the last connection (client saw EOF, or closed the idle connection) — provided all of these
ended at all.  Nothing left to wait for ⇒ `Shutdown` does not sit out the exit wait. -/
theorem obs_shutdown_prompt (p : Params) (cfg : Cfg) (n : Nat) (acts : List Act) (s : State)
    (hr : run cfg (init n) acts = some s) (hok : allOk okSched cfg (init n) acts = true) (hp : ParamsOk p cfg n) :
    prompt p (obsRun cfg (init n) acts).toArray = [] :=
  obs_prompt hp hr hok

/-- **run_satisfies_spec.**  The whole trace specification that the driver evaluates on the event sequence of
the REAL server holds of the observable projection of EVERY run of the interleaving model — any number of
connections, callers, hooks, any exit wait, every interleaving — that
* respects `okSched`: no CAS is won before the listener exists (`okWin`; excludes exactly the known finding), and
  the clock advances only while no goroutine can move on its own (needed by the two wall-clock clauses only, see
  `run_satisfies_spec_partial`),
* is complete: every client has read its responses (`Settled`), every hook goroutine has been scheduled
  (`HooksStarted`), every `Shutdown` call has returned (`CallersDone`),
and for parameters that describe the model's configuration (`ParamsOk`). -/
theorem run_satisfies_spec (p : Params) (cfg : Cfg) (n : Nat) (acts : List Act) (s : State)
    (hr : run cfg (init n) acts = some s) (hok : allOk okSched cfg (init n) acts = true) (hp : ParamsOk p cfg n)
    (hset : Settled s) (hst : HooksStarted s) (hfin : CallersDone s) :
    violations p (obsRun cfg (init n) acts).toArray = [] := by
  rw [run_satisfies_spec_partial p cfg n acts s hr (allOk_okSched_okWin cfg acts _ hok) hp hset hst,
    obs_shutdown_bounded p cfg n acts s hr hok hp hfin, obs_shutdown_prompt p cfg n acts s hr hok hp]
  rfl

/-- non-vacuity: a request in flight across a shutdown with a hook, the clock advancing while the
handler runs / while the winner waits for its first tick / between the calls, a second call, a late dial;
the run respects `okSched`, ends `Settled` with all callers returned and all hooks started, and its
projection has 14 events -/
def specDemo : List Act := [.init, .markRunning, .listen, .accept, .reqArrive 0 false, .advance 5, .shutCall, .shutLoad 0, .shutCas 0,
  .shutSpawn, .hookStart 0, .shutCloseLn, .handlerRet 0 false, .exitCheck 0, .writeResp 0, .clientRead 0 true, .connGone 0,
  .clientEof 0, .hookEnd 0, .advance 10, .shutTick1, .shutFinish, .callerRet 0 .nil, .advance 3, .shutCall, .shutLoad 1,
  .callerRet 1 .notRunning, .dialStart, .dialProbe 0, .dialEnd 0 false]

def specDemoParams : Params := { exitWait := 50, tick := 10, slack := 0, nHooks := 1, maxWait := 30000 }

example : allOk okSched { exitWait := 50 } (init 1) specDemo = true ∧
    (run { exitWait := 50 } (init 1) specDemo).map (fun s => decide (∀ cn ∈ s.conns, cn.acked = cn.started)) = some true ∧
    (run { exitWait := 50 } (init 1) specDemo).map (fun s => (s.callers, s.hooks)) = some ([.finished .nil, .finished .notRunning], [.done]) ∧
    (obsRun { exitWait := 50 } (init 1) specDemo).length = 14 ∧
    ((obsRun { exitWait := 50 } (init 1) specDemo).map (·.t)).getLast? = some 18 := by
  decide
example : ParamsOk specDemoParams { exitWait := 50 } 1 := ⟨rfl, by decide, rfl, by decide⟩
example : violations specDemoParams (obsRun { exitWait := 50 } (init 1) specDemo).toArray = [] := by decide

/-- non-vacuity for the situation the former discipline excluded: `Shutdown` on an engine that has not been
started (returns `errStatusNotRunning`), then `Run`, a keep-alive exchange, and a real shutdown; and a call made
before `Run` whose status check is delayed until the engine listens (it wins) -/
def earlyDemo : List Act := [.shutCall, .shutLoad 0, .callerRet 0 .notRunning, .advance 2, .init, .markRunning, .listen, .accept,
  .reqArrive 0 false, .advance 3, .handlerRet 0 false, .exitCheck 0, .writeResp 0, .clientRead 0 false, .advance 4,
  .shutCall, .shutLoad 1, .shutCas 1, .shutSpawn, .shutCloseLn, .peerClose 0, .connDrop 0, .connGone 0, .advance 10,
  .shutTick1, .shutFinish, .callerRet 1 .nil]

example : allOk okSched { exitWait := 50 } (init 0) earlyDemo = true ∧
    (run { exitWait := 50 } (init 0) earlyDemo).map (fun s => decide (∀ cn ∈ s.conns, cn.acked = cn.started)) = some true ∧
    (run { exitWait := 50 } (init 0) earlyDemo).map (fun s => (s.callers, s.hooks)) = some ([.finished .notRunning, .finished .nil], []) ∧
    violations { exitWait := 50, tick := 10, slack := 0, nHooks := 0 } (obsRun { exitWait := 50 } (init 0) earlyDemo).toArray = [] := by
  decide

example : allOk okSched { exitWait := 50 } (init 0) [.shutCall, .init, .markRunning, .listen, .shutLoad 0, .shutCas 0, .shutSpawn,
      .shutCloseLn, .advance 10, .shutTick1, .shutFinish, .callerRet 0 .nil] = true ∧
    violations { exitWait := 50, tick := 10, slack := 0, nHooks := 0 } (obsRun { exitWait := 50 } (init 0) [.shutCall, .init,
      .markRunning, .listen, .shutLoad 0, .shutCas 0, .shutSpawn, .shutCloseLn, .advance 10, .shutTick1, .shutFinish,
      .callerRet 0 .nil]).toArray = [] := by
  decide

/-! ### the three repairs of the spec predicate (it rejected legitimate behaviour), and what it still rejects -/

/-- Repair 1 (`retFlipAt` / `flipAt`): a `Shutdown` on an engine that has not started returns
`errStatusNotRunning`; that `T` event is no longer taken as proof that the status has left `running`.
The run that the former predicate rejected (early call, then `Run`, then a keep-alive response) is accepted
by the whole predicate; so is the same run followed by a real shutdown. -/
theorem spec_accepts_early_shutdown :
    violations { exitWait := 5, tick := 10, slack := 0, nHooks := 0 }
      (obsRun { exitWait := 5 } (init 0) [.shutCall, .shutLoad 0, .callerRet 0 .notRunning, .init, .markRunning,
        .listen, .accept, .reqArrive 0 false, .handlerRet 0 false, .exitCheck 0, .writeResp 0, .clientRead 0 false]).toArray = [] ∧
    violations { exitWait := 5, tick := 10, slack := 0, nHooks := 0 }
      (obsRun { exitWait := 5 } (init 0) [.shutCall, .shutLoad 0, .callerRet 0 .notRunning, .init, .markRunning,
        .listen, .accept, .reqArrive 0 false, .handlerRet 0 false, .exitCheck 0, .writeResp 0, .clientRead 0 false,
        .shutCall, .shutLoad 1, .shutCas 1, .shutSpawn, .shutCloseLn, .peerClose 0, .connDrop 0, .connGone 0, .advance 10,
        .shutTick1, .shutFinish, .callerRet 1 .nil]).toArray = [] := by
  decide

/-- … and it still rejects what the clauses are meant to catch, also after an early `errStatusNotRunning`:
a keep-alive response without `Connection: close` whose handler returned after a call returned `nil`, after
a hook started, or after a call made on the listening engine got `errStatusNotRunning`; a second `nil`; a `nil`
from an engine whose listener had not answered when the call returned. -/
theorem spec_still_rejects_keepalive_after_flip :
    closeAfterShutdown #[⟨.S 0, 0⟩, ⟨.T 0 "notrunning", 1⟩, ⟨.L, 2⟩, ⟨.A 0, 3⟩, ⟨.Q 0 0 false, 4⟩, ⟨.S 1, 5⟩, ⟨.T 1 "nil", 6⟩,
      ⟨.X 0 0 false, 7⟩, ⟨.R 0 0 false true, 8⟩] ≠ [] ∧
    closeAfterShutdown #[⟨.L, 2⟩, ⟨.A 0, 3⟩, ⟨.Q 0 0 false, 4⟩, ⟨.S 0, 5⟩, ⟨.HS 0, 6⟩, ⟨.X 0 0 false, 7⟩, ⟨.R 0 0 false true, 8⟩] ≠ [] ∧
    closeAfterShutdown #[⟨.L, 2⟩, ⟨.A 0, 3⟩, ⟨.Q 0 0 false, 4⟩, ⟨.S 0, 5⟩, ⟨.S 1, 5⟩, ⟨.T 1 "notrunning", 6⟩, ⟨.X 0 0 false, 7⟩,
      ⟨.R 0 0 false true, 8⟩] ≠ [] ∧
    errorsReported { exitWait := 5, tick := 10, slack := 0, nHooks := 0 }
      #[⟨.S 0, 0⟩, ⟨.T 0 "notrunning", 1⟩, ⟨.L, 2⟩, ⟨.S 1, 5⟩, ⟨.T 1 "nil", 6⟩, ⟨.S 2, 7⟩, ⟨.T 2 "nil", 8⟩] ≠ [] ∧
    errorsReported { exitWait := 5, tick := 10, slack := 0, nHooks := 0 }
      #[⟨.L, 2⟩, ⟨.S 0, 5⟩, ⟨.T 0 "nil", 6⟩, ⟨.S 1, 7⟩, ⟨.T 1 "nil", 8⟩] ≠ [] ∧
    errorsReported { exitWait := 5, tick := 10, slack := 0, nHooks := 0 } #[⟨.S 0, 5⟩, ⟨.T 0 "nil", 6⟩] ≠ [] ∧
    errorsReported { exitWait := 5, tick := 10, slack := 0, nHooks := 0 } #[⟨.S 0, 5⟩, ⟨.T 0 "nil", 6⟩, ⟨.L, 7⟩] ≠ [] := by
  decide

/-- Repair 2 (`errorsReported`): the first `Shutdown` of a running server may return `errShutdownTimeout`
when it has lasted longer than the transport's cap (`ExitWaitTimeout` > 30 s and a connection that stays
busy; here `maxWait := 30`, `exitWait := 100` clock units).  The run the former predicate rejected is
accepted … -/
theorem spec_accepts_cap_timeout :
    errorsReported { exitWait := 100, tick := 10, slack := 0, nHooks := 0, maxWait := 30 }
      (obsRun { exitWait := 100, maxWait := 30 } (init 0) [.init, .markRunning, .listen, .accept, .reqArrive 0 false,
        .shutCall, .shutLoad 0, .shutCas 0, .shutSpawn, .shutCloseLn, .advance 10, .shutTick1, .advance 40, .shutTickLoop,
        .shutFinish, .callerRet 0 .timeout]).toArray = [] := by
  decide

/-- … while a timeout (or any other error) from a first call that did not last that long is still rejected -/
theorem spec_still_rejects_early_timeout :
    errorsReported { exitWait := 100000000, tick := 10000, slack := 0, nHooks := 0 }
      #[⟨.L, 0⟩, ⟨.S 0, 1000⟩, ⟨.T 0 "timeout", 5000000⟩] ≠ [] ∧
    errorsReported { exitWait := 100000000, tick := 10000, slack := 0, nHooks := 0 }
      #[⟨.L, 0⟩, ⟨.S 0, 1000⟩, ⟨.T 0 "other", 40000000⟩] ≠ [] := by
  decide

/-- Repair 3 (`prompt`, `idleClose`): a client that hangs up while its request is in the handler does not end
the connection for the server; `Shutdown` rightly waits for the handler (here: to the deadline).  The run the
former predicate rejected is accepted … -/
theorem spec_accepts_close_while_handling :
    prompt { exitWait := 1000, tick := 10, slack := 0, nHooks := 0 }
      (obsRun { exitWait := 1000 } (init 0) [.init, .markRunning, .listen, .accept, .reqArrive 0 false, .peerClose 0,
        .shutCall, .shutLoad 0, .shutCas 0, .shutSpawn, .shutCloseLn, .advance 10, .shutTick1, .advance 990, .shutCtxDone,
        .shutFinish, .callerRet 0 .nil]).toArray = [] := by
  decide

/-- … while a `Shutdown` that sits out the exit wait although the only connection was idle and had been closed by
its client long before (or had been closed by the server, `E`) is still rejected -/
theorem spec_still_rejects_idle_wait :
    prompt { exitWait := 1000000, tick := 10000, slack := 1000, nHooks := 0 }
      #[⟨.L, 0⟩, ⟨.A 0, 10⟩, ⟨.Q 0 0 false, 20⟩, ⟨.X 0 0 false, 30⟩, ⟨.R 0 0 false true, 40⟩, ⟨.S 0, 1000⟩, ⟨.C 0, 2000⟩,
        ⟨.T 0 "nil", 1001000⟩] ≠ [] ∧
    prompt { exitWait := 1000000, tick := 10000, slack := 1000, nHooks := 0 }
      #[⟨.L, 0⟩, ⟨.A 0, 10⟩, ⟨.S 0, 1000⟩, ⟨.E 0, 2000⟩, ⟨.T 0 "nil", 1001000⟩] ≠ [] := by
  decide

/-- the other clauses are untouched: an accept after `Shutdown` returned, a truncated response to an in-flight
request, a spurious close, a hook that never started, a return that is too late are rejected as before; the new
clause rejects a request served after an early return -/
theorem spec_still_rejects_others :
    noAcceptAfter #[⟨.L, 0⟩, ⟨.S 0, 1⟩, ⟨.T 0 "nil", 2⟩, ⟨.A 0, 3⟩] ≠ [] ∧
    inflightComplete #[⟨.L, 0⟩, ⟨.A 0, 1⟩, ⟨.Q 0 0 false, 2⟩, ⟨.S 0, 3⟩, ⟨.X 0 0 false, 4⟩, ⟨.R 0 0 true false, 5⟩, ⟨.T 0 "nil", 6⟩] ≠ [] ∧
    noSpuriousClose #[⟨.L, 0⟩, ⟨.A 0, 1⟩, ⟨.Q 0 0 false, 2⟩, ⟨.X 0 0 false, 4⟩, ⟨.R 0 0 true true, 5⟩] ≠ [] ∧
    hooksRun { exitWait := 1000000, tick := 10000, slack := 1000, nHooks := 1 } #[⟨.L, 0⟩, ⟨.S 0, 1⟩, ⟨.T 0 "nil", 20000⟩] ≠ [] ∧
    bounded { exitWait := 1000000, tick := 10000, slack := 1000, nHooks := 0 } #[⟨.L, 0⟩, ⟨.S 0, 1⟩, ⟨.T 0 "nil", 2000000⟩] ≠ [] ∧
    connsWaited { exitWait := 1000000, tick := 10000, slack := 1000, nHooks := 0 }
      #[⟨.L, 0⟩, ⟨.A 0, 1⟩, ⟨.S 0, 10⟩, ⟨.T 0 "nil", 20000⟩, ⟨.Q 0 0 false, 30000⟩] ≠ [] := by
  decide

end spec


/-! ## X18 — the caller's side (`Hertz.Spin`) and requests that are still arriving (`Hertz.Arrive`) -/

section X18
open Hertz.ShutdownSpec

/-- What the two models of `Model/ShutdownSpin.lean` assume about the source is what the source says (regenerated on
every run): `Spin` does nothing after the `h.Shutdown(...)` statement and contains no channel receive of its own
(`Spin.Code.current.waitsRun = false`); the early returns of `Engine.Shutdown` that leave the transport untouched are the
two `errStatusNotRunning` and the `Deregister` error; `standard.transport.Shutdown` calls no method of the transport but
`Listener` and `updateActive`, and nothing in `standard/transport.go` sets a deadline or timeout on a connection
(`Arrive.Code.current.wakeAll = false`); the netpoll transporter hands over to the event loop's `Shutdown`. -/
theorem spin_model_matches_gen :
    Hertz.Gen.ShutdownSpin.spinCalls = ["make", "h.initOnRunHooks", "func", "h.Run", "signalWaiter", "h.Engine.Close",
      "h.Shutdown", "context.Background"] ∧
    Hertz.Gen.ShutdownSpin.spinReceives = [] ∧
    Hertz.Gen.ShutdownSpin.spinAfterShutdown = [] ∧
    Hertz.Spin.Code.current.waitsRun = !Hertz.Gen.ShutdownSpin.spinAfterShutdown.isEmpty ∧
    Hertz.Gen.ShutdownSpin.spinShutdownStmt = ["if err := h.Shutdown(context.Background()); err != nil",
      "hlog.SystemLogger().Errorf", "hlog.SystemLogger"] ∧
    Hertz.Gen.ShutdownSpin.engineShutdownEarlyReturns = [
      "return errStatusNotRunning @ atomic.LoadUint32(&engine.status) != statusRunning",
      "return errStatusNotRunning @ !atomic.CompareAndSwapUint32(&engine.status, statusRunning, statusShutdown)",
      "return err @ err = opt.Registry.Deregister(opt.RegistryInfo); err != nil"] ∧
    Hertz.Gen.ShutdownSpin.stdShutdownOwnMethods = ["t.Listener", "t.updateActive", "t.updateActive"] ∧
    Hertz.Gen.ShutdownSpin.stdShutdownConnCalls = [] ∧
    Hertz.Arrive.Code.current.wakeAll = !Hertz.Gen.ShutdownSpin.stdShutdownConnCalls.isEmpty ∧
    Hertz.Gen.ShutdownSpin.stdTransportFields = ["readBufferSize", "network", "addr", "keepAliveTimeout",
      "senseClientDisconnection", "readTimeout", "handler", "tls", "listenConfig", "OnAccept", "OnConnect", "active", "mu", "ln"] ∧
    Hertz.Gen.ShutdownSpin.npShutdownCalls = ["func", "t.mu.RUnlock", "t.mu.RLock", "t.el.Shutdown"] := by
  decide +kernel

/-- **spin_returns_bounded.** Every prompt run of `Hertz.Spin` (the main goroutine is not delayed when it can move; the
`Run` goroutine, its `OnRun` hooks, connections and shutdown hooks are scheduled arbitrarily): once the stop signal has been
delivered at `sigAt`, `Spin` returns - and the process ends - no later than `sigAt + ExitWaitTimeout`, in EVERY outcome of
`Shutdown`: nil after the drain, nil at the deadline, the registry's `Deregister` error (returned early, transport not
closed), `errStatusNotRunning` (signal before `MarkAsRunning`, e.g. during a slow `OnRun` hook).  (The ticker period of
`transport.Shutdown` is added by `shutdown_bounded`.) -/
theorem spin_returns_bounded (cfg : Hertz.Spin.Cfg) (acts : List Hertz.Spin.Act) (s : Hertz.Spin.State)
    (hr : Hertz.Spin.runPrompt .current cfg {} acts = some s) :
    (∀ t, s.spin = .returned t → t ≤ s.sigAt + cfg.exitWait) ∧ (∀ t, s.spin = .exited t → t ≤ s.sigAt + cfg.exitWait) :=
  Hertz.Spin.returned_bounded hr

/-- non-vacuity: drain of one connection; failing registry with a connection still in its handler (Spin returns at once,
listener still open, one connection in its handler: the known finding); signal during the `OnRun` hooks -/
example : (Hertz.Spin.runPrompt .current { exitWait := 50 } {} [.runInit, .markRunning, .listen, .accept, .advance 7, .signal,
    .shutEnter, .hooksEnd, .advance 20, .connDone, .drainDone, .shutReturn, .spinPost, .procExit]).map
    (fun s => (s.spin, s.sigAt, s.lnOpen)) = some (.exited 27, 7, false) := by decide
example : (Hertz.Spin.runPrompt .current { exitWait := 50, deregFails := true } {} [.runInit, .markRunning, .listen, .accept,
    .advance 7, .signal, .shutEnter, .hooksEnd, .shutReturn, .spinPost, .procExit]).map
    (fun s => (s.spin, s.lnOpen, s.active)) = some (.exited 7, true, 1) := by decide
example : (Hertz.Spin.runPrompt .current { exitWait := 50 } {} [.runInit, .advance 3, .signal, .shutEnter, .spinPost,
    .procExit, .advance 100]).map (fun s => (s.spin, s.status)) = some (.exited 3, 1) := by decide

/-- … and no phase of `Spin` after the signal can block for ever: each has an enabled step once its timer has fired. -/
theorem spin_never_stuck (cfg : Hertz.Spin.Cfg) (s : Hertz.Spin.State) :
    (s.spin = .signalled → (Hertz.Spin.step .current cfg s .shutEnter).isSome) ∧
    (s.spin = .draining → s.dl ≤ s.now → (Hertz.Spin.step .current cfg s .drainDeadline).isSome) ∧
    (∀ e, s.spin = .deferred e → s.dl ≤ s.now → (Hertz.Spin.step .current cfg s .shutReturn).isSome) ∧
    (∀ e, s.spin = .after e → (Hertz.Spin.step .current cfg s .spinPost).isSome) ∧
    (∀ t, s.spin = .returned t → (Hertz.Spin.step .current cfg s .procExit).isSome) :=
  Hertz.Spin.never_stuck cfg s

/-- The statement is about the source as it stands: a `Spin` that waits for the result of `Run` after `Shutdown` returned
(`waitsRun`) is stuck for ever when `Shutdown` returned early without closing the transport - `Run` never returns, the clock
may run on, the listener stays open and connections are accepted long after the signal (failing registry); after a signal
during the `OnRun` hooks the server even STARTS to listen and to serve. -/
theorem spin_waiting_for_run_hangs :
    (Hertz.Spin.runPrompt { waitsRun := true } { exitWait := 50, deregFails := true } {} [.runInit, .markRunning, .listen,
      .advance 7, .signal, .shutEnter, .hooksEnd, .shutReturn, .advance 1000000, .accept]).map
      (fun s => (s.spin, s.lateAccept, (Hertz.Spin.step { waitsRun := true } { exitWait := 50, deregFails := true } s .spinPost).isSome))
      = some (.after .dereg, some 1000007, false) ∧
    (Hertz.Spin.runPrompt { waitsRun := true } { exitWait := 50 } {} [.runInit, .advance 3, .signal, .shutEnter,
      .advance 500, .markRunning, .listen, .advance 1000000, .accept]).map
      (fun s => (s.spin, s.lateAccept, (Hertz.Spin.step { waitsRun := true } { exitWait := 50 } s .spinPost).isSome))
      = some (.after .notRunning, some 1000503, false) := by decide

/-- **spin_never_serves_after_signal.** In every prompt run, a connection can be accepted after the stop signal only within
the exit wait (`now ≤ sigAt + ExitWaitTimeout`: while `Shutdown` drains, or - failing registry - until `Spin` has returned);
when `Shutdown` found the engine not running (signal before `MarkAsRunning`) no time passes at all between the signal and
the end of the process, so a server that was not serving at the signal never starts to.  Once the process has exited no
step but the clock is enabled. -/
theorem spin_never_serves_after_signal (cfg : Hertz.Spin.Cfg) (acts : List Hertz.Spin.Act) (s : Hertz.Spin.State)
    (hr : Hertz.Spin.runPrompt .current cfg {} acts = some s) (hsig : s.spin ≠ .waiting)
    (hacc : (Hertz.Spin.step .current cfg s .accept).isSome = true) :
    s.now ≤ s.sigAt + cfg.exitWait ∧ (s.ranAtShut = false → s.now = s.sigAt) :=
  Hertz.Spin.alive_bounded hr hsig (Hertz.Spin.accept_alive hacc)

theorem spin_exit_is_final (code : Hertz.Spin.Code) (cfg : Hertz.Spin.Cfg) (s : Hertz.Spin.State) (t : Nat)
    (h : s.spin = .exited t) (a : Hertz.Spin.Act) : (∃ d, a = .advance d) ∨ Hertz.Spin.step code cfg s a = none :=
  Hertz.Spin.exited_final code cfg s t h a

/-- non-vacuity: an accept during the drain is possible for the Run goroutine only before the listener is closed: here the
signal is delivered, and the accept loop takes one more connection before `Shutdown` is entered -/
example : (Hertz.Spin.runPrompt .current { exitWait := 50 } {} [.runInit, .markRunning, .listen, .advance 7, .signal, .accept]).map
    (fun s => (s.spin, s.lateAccept, (Hertz.Spin.step .current { exitWait := 50 } s .accept).isSome)) =
    some (.signalled, some 7, true) := by decide

/-- **partly_received_request_completes.** Every run of `Hertz.Arrive` for the source as it stands, either transport, any
number of connections, any interleaving of arrivals, handlers, the shutdown and (netpoll) the closing of idle connections:
no connection ever has a read deadline set by the shutdown, no request is answered by an error response and none is cut by
the shutdown (`Good`); and for a connection that has received `k` of the `n` bytes of a request (`reading k n`), as long as
the process lives (i.e. until the deadline), the rest can arrive, the handler runs and exactly one more complete response is
written, carrying `Connection: close` iff shutdown has begun, with no error response - whatever the shutdown did before.  If
the peer never sends the rest, the connection ends with the process (`procExit`, enabled only at the deadline or when every
connection is closed). -/
theorem partly_received_request_completes (np : Bool) (W : Nat) (acts : List Hertz.Arrive.Act) (s : Hertz.Arrive.State)
    (hr : Hertz.Arrive.run .current np W {} acts = some s) (c : Nat) (cn : Hertz.Arrive.Conn) (hc : s.conns[c]? = some cn) :
    (cn.deadline = none ∧ cn.errs = 0 ∧ cn.cut = false) ∧
    (∀ k n, cn.ph = .reading k n → k < n → s.exited = false →
      ∃ s', Hertz.Arrive.run .current np W s [.arrive c (n - k) n, .handlerRet c] = some s' ∧
        (s'.conns[c]?).map (·.resps) = some (cn.resps ++ [s.shut]) ∧ (s'.conns[c]?).map (·.errs) = some cn.errs) :=
  ⟨Hertz.Arrive.run_good acts (by simp) hr cn (List.mem_of_getElem? hc),
   fun k n hp hkn hx => Hertz.Arrive.reading_completes .current np W s c k n cn hc hp hkn hx⟩

/-- non-vacuity: 100 of 4196 bytes received, shutdown begins, the rest arrives, the response is complete and carries close;
netpoll closes the idle neighbour and leaves the arriving request alone; a peer that never sends the rest is closed with the
process at the deadline -/
example : (Hertz.Arrive.run .current true 400 {} [.accept, .accept, .arrive 0 100 4196, .advance 30, .shutBegin, .npCloseIdle 1,
    .advance 50, .arrive 0 4096 4196, .handlerRet 0]).map (fun s => s.conns) =
    some [{ ph := .closed, resps := [true] }, { ph := .closed }] := by decide
example : (Hertz.Arrive.run .current false 400 {} [.accept, .arrive 0 100 4196, .shutBegin, .advance 400, .procExit]).map
    (fun s => (s.exited, s.conns)) = some (true, [{ ph := .closed }]) := by decide
example : Hertz.Arrive.run .current false 400 {} [.accept, .arrive 0 100 4196, .shutBegin, .advance 399, .procExit] = none := by decide

/-- The statement is about the source as it stands: a `transport.Shutdown` that sets a read deadline "now" on every tracked
connection (to wake the idle ones) makes the blocked read of a partly received request fail - 408 instead of the response. -/
theorem wake_all_breaks_arriving_request :
    (Hertz.Arrive.run { wakeAll := true } false 400 {} [.accept, .arrive 0 100 4196, .advance 30, .shutBegin, .readTimeout 0]).map
      (fun s => s.conns) = some [{ ph := .closed, deadline := some 30, errs := 1, cut := true }] := by decide

/-! ### clause ten of the trace specification and the clauses for the process under `Spin` -/

/-- accepted: the rest arrives during the wait and the complete response (with close) is read; the peer never sends the
rest and the connection stays open until the deadline; a request sent in two parts long before the call -/
theorem spec_accepts_arriving_request :
    partlyReceived { exitWait := 400000, tick := 10000, slack := 0, nHooks := 0 }
      #[⟨.base .L, 0⟩, ⟨.base (.A 0), 5000⟩, ⟨.P 0 0 196 4096, 40000⟩, ⟨.base (.S 0), 70000⟩, ⟨.PZ 0 0, 120000⟩,
        ⟨.base (.Q 0 0 false), 120100⟩, ⟨.base (.X 0 0 false), 125000⟩, ⟨.base (.R 0 0 true true), 126000⟩, ⟨.base (.E 0), 126100⟩,
        ⟨.base (.T 0 "nil"), 131000⟩] = [] ∧
    partlyReceived { exitWait := 250000, tick := 10000, slack := 0, nHooks := 0 }
      #[⟨.base .L, 0⟩, ⟨.base (.A 0), 5000⟩, ⟨.P 0 0 104 594, 40000⟩, ⟨.base (.S 0), 70000⟩, ⟨.base (.T 0 "nil"), 320000⟩,
        ⟨.base (.C 0), 372000⟩] = [] ∧
    partlyReceived { exitWait := 250000, tick := 10000, slack := 0, nHooks := 0 }
      #[⟨.base .L, 0⟩, ⟨.base (.A 0), 5000⟩, ⟨.P 0 0 104 594, 10000⟩, ⟨.PZ 0 0, 15000⟩, ⟨.base (.Q 0 0 false), 15100⟩,
        ⟨.base (.X 0 0 false), 15200⟩, ⟨.base (.R 0 0 false true), 15300⟩, ⟨.base (.S 0), 70000⟩, ⟨.base (.T 0 "nil"), 320000⟩] = [] := by
  decide

/-- still rejected: a 408 / truncated response to the partly received request; no response although the peer completed it
in time; the server closing the connection before the deadline -/
theorem spec_still_rejects_cut_arriving_request :
    partlyReceived { exitWait := 400000, tick := 10000, slack := 0, nHooks := 0 }
      #[⟨.base .L, 0⟩, ⟨.base (.A 0), 5000⟩, ⟨.P 0 0 196 4096, 40000⟩, ⟨.base (.S 0), 70000⟩, ⟨.base (.T 0 "nil"), 81000⟩,
        ⟨.PZ 0 0, 120000⟩, ⟨.base (.R 0 0 true false), 120100⟩, ⟨.base (.E 0), 120200⟩] ≠ [] ∧
    partlyReceived { exitWait := 400000, tick := 10000, slack := 0, nHooks := 0 }
      #[⟨.base .L, 0⟩, ⟨.base (.A 0), 5000⟩, ⟨.P 0 0 196 4096, 40000⟩, ⟨.base (.S 0), 70000⟩, ⟨.PZ 0 0, 120000⟩,
        ⟨.base (.F 0 0), 121000⟩] ≠ [] ∧
    partlyReceived { exitWait := 400000, tick := 10000, slack := 0, nHooks := 0 }
      #[⟨.base .L, 0⟩, ⟨.base (.A 0), 5000⟩, ⟨.P 0 0 196 4096, 40000⟩, ⟨.base (.S 0), 70000⟩, ⟨.base (.E 0), 71000⟩] ≠ [] := by
  decide

/-- accepted: drain, failing registry (no request in progress), signal before the engine runs -/
theorem spec_accepts_spin_outcomes :
    spinViolations { exitWait := 600000, running := true } [⟨.SIG, 150000⟩, ⟨.R 0 "full", 273000⟩, ⟨.R 1 "full", 274000⟩, ⟨.EXIT "0", 275000⟩] = [] ∧
    spinViolations { exitWait := 500000, running := true } [⟨.SIG, 120000⟩, ⟨.EXIT "0", 121000⟩] = [] ∧
    spinViolations { exitWait := 300000, running := false } [⟨.SIG, 80000⟩, ⟨.EXIT "0", 81000⟩] = [] := by
  decide

/-- still rejected: `Spin` does not return; the process ends late; it is killed by the signal; a request in progress is
lost; something is served after a signal that came before the engine ran -/
theorem spec_still_rejects_spin_hang :
    spinViolations { exitWait := 500000, running := true } [⟨.SIG, 120000⟩, ⟨.LS, 241000⟩, ⟨.EXIT "timeout", 4620000⟩] ≠ [] ∧
    spinViolations { exitWait := 500000, running := true } [⟨.SIG, 120000⟩, ⟨.EXIT "0", 1700000⟩] ≠ [] ∧
    spinViolations { exitWait := 500000, running := true } [⟨.SIG, 120000⟩, ⟨.EXIT "signal:terminated", 121000⟩] ≠ [] ∧
    spinViolations { exitWait := 500000, running := true } [⟨.SIG, 120000⟩, ⟨.EXIT "0", 121000⟩, ⟨.R 0 "none", 121100⟩] ≠ [] ∧
    spinViolations { exitWait := 300000, running := false } [⟨.SIG, 80000⟩, ⟨.LS, 726000⟩, ⟨.EXIT "0", 900000⟩] ≠ [] := by
  decide

end X18

/-
TODO-OPEN (what is proved now, what remains):
 * PROVED (Proofs/ShutdownSpecBase, …Inv, …Refine, …Sched, …Full, …Bounded, …Prompt): `run_satisfies_spec` —
   `Hertz.ShutdownSpec.violations p (obsRun …) = []`, ALL NINE clauses (`inflightComplete`, `closeAfterShutdown`,
   `noSpuriousClose`, `noAcceptAfter`, `bounded`, `errorsReported`, `hooksRun`, the new `connsWaited`, `prompt`),
   for the observable projection of every run of the model, under these explicit hypotheses (all satisfied by
   `specDemo` and `earlyDemo`):
     - `allOk okSched`: (a) `okWin` — no CAS of a `Shutdown` caller succeeds between `MarkAsRunning` and `Listen`
       (the known finding; needed by `noAcceptAfter`, `hooksRun`, `connsWaited`, `errorsReported`, `prompt`);
       (b) `canTick` — the clock advances only while the winner is blocked and not beyond its wake-up, no caller is
       between call and return, no connection goroutine has an internal step pending (needed ONLY by the two
       wall-clock clauses `bounded` and `prompt`; `run_satisfies_spec_partial` is the statement without (b));
     - completeness of the run: `Settled` (clients have read their responses; `inflightComplete`), `HooksStarted`
       (no hook goroutine left unscheduled; `hooksRun`), `CallersDone` (every call has returned; `bounded`);
     - `ParamsOk p cfg n` (the spec's parameters are the model's).
 * The three places where the spec predicate rejected legitimate model runs are repaired in Spec/Shutdown.lean
   (`retFlipAt`/`flipAt`, the `errShutdownTimeout` exception of `errorsReported` + `runningAtRet`, `idleClose` in
   `prompt`); `spec_accepts_*` / `spec_still_rejects_*` show acceptance of the former witnesses and rejection of
   bad traces of each kind; the universal theorem now covers calls made before the engine runs (`okWin` instead of
   `okListen`) and the 30 s cap (no `hto` hypothesis any more).
 * STILL OPEN
   - the gap between the driver's acceptance and the theorem: the projection never contains `F`, `FN`, truncated
     `R`, `RR` (the driver maps them to no model step), and stamps events with the model clock, whereas the driver
     only forces `now ≥ e.t` when it replays a real trace; "driver accepts the trace ⇒ some run has exactly this
     projection (with these time stamps)" is not a theorem.  The time-free clauses do not depend on stamps.
   - real schedules do not satisfy `canTick` literally (goroutines are delayed by the Go scheduler); the 1 s `slack`
     of the driver's `Params` stands for that and is not modelled (`bounded`/`prompt` are proved with slack 0).
   - remaining imprecision of the spec predicate, harmless for the harness: `errorsReported` gives no verdict on a
     call that overlaps another call (`otherCalled`); `prompt` gives no verdict when a client hung up on a
     connection with an unanswered request (`idleClose`), or when some connection never ended.
   - liveness under fairness: `shutdown_never_stuck` + `caller_never_blocks` say every phase of every `Shutdown`
     call has an enabled step once its timer has fired; `CallersDone`/`HooksStarted`/`Settled` are hypotheses here.
     Not proved: "every maximal finite run (whose clock passes `dl`) ends with all callers finished", which needs a
     maximality predicate over `run`.

X18 (caller's side, arriving requests) - TODO-OPEN:
 * PROVED: `spin_returns_bounded`, `spin_never_stuck`, `spin_never_serves_after_signal`, `spin_exit_is_final`
   (model `Hertz.Spin`, every prompt run, every outcome of `Shutdown`), `partly_received_request_completes` (model
   `Hertz.Arrive`, every run, both transports), the two witnesses for the changed code (`spin_waiting_for_run_hangs`,
   `wake_all_breaks_arriving_request`), `spin_model_matches_gen`, and accept/reject examples for clause ten
   (`partlyReceived`) and for `spinViolations`.
 * OPEN
   - `Hertz.Spin` takes `Engine.Shutdown` at the granularity of its outcomes; it is not proved to be an abstraction of
     `Hertz.Shutdown.step` (the two models share no state); in particular the bound here is `ExitWaitTimeout`, the
     ticker period comes from `shutdown_bounded`.
   - `Hertz.Arrive` is a separate small model too (phases of ONE request per connection by bytes received); the
     keep-alive loop of `Hertz.Shutdown` is not refined by it.  netpoll's `isIdle` window (bytes in the kernel, poller
     not yet dispatched) is not modelled: clause ten only judges requests written 10 ms before the call.
   - "model run of `Hertz.Arrive` / `Hertz.Spin` => clause ten / `spinViolations` empty" is not a theorem (the
     clauses are evaluated per case on the real server and process).
   - in-flight requests are LOST when `Deregister` fails (Spin returns with connections in their handlers, see the
     second non-vacuity example of `spin_returns_bounded`): known finding `dereg-error-skips-drain`.
-/

end Hertz.Props.C18
