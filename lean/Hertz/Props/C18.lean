import Hertz.Proofs.Shutdown
import Hertz.Gen.Shutdown
/-!
# C18 — graceful shutdown lets in-flight requests finish and bounds the wait

Theorems about the interleaving model `Hertz.Shutdown` (one `step` = one atomic operation or lock
region of `Engine.Run/Shutdown`, `standard.transport.serve/Shutdown`, `http1.Server.Serve`), for
every action sequence (`run`), every number of connections, callers and hooks, every exit-wait
time.  The model is held to the Go code by `model_matches_gen` (constants and call order regenerated
from the source) and by trace validation against real servers (`harness/c18.go`).
-/
namespace Hertz.Props.C18
open Hertz.Shutdown

/-- The constants and the order of the atomic steps the model assumes are the ones in the source:
status iota block, the CAS operands, `Load` → `CAS` → `WithTimeout` → `go hooks` → `transport.Shutdown`
in `Engine.Shutdown`, `Init` → `MarkAsRunning` → deferred `Store(closed)` → `listenAndServe` in `Run`,
`Listener` → `Close` → `NewTicker` → `updateActive(0)` … in `transport.Shutdown`, `Accept` →
`updateActive(1)` → `go { handler; updateActive(-1) }` in `serve`, and in `Serve`:
`ServeHTTP` → `IsRunning` (exit check, sets `connectionClose = true`, no else) → `writeResponse` → `Flush`. -/
theorem model_matches_gen :
    Hertz.Gen.Shutdown.statusNames = ["_", "statusInitialized", "statusRunning", "statusShutdown", "statusClosed"] ∧
    stInitialized = Hertz.Gen.Shutdown.statusInitialized ∧ stRunning = Hertz.Gen.Shutdown.statusRunning ∧
    stShutdown = Hertz.Gen.Shutdown.statusShutdown ∧ stClosed = Hertz.Gen.Shutdown.statusClosed ∧
    ({ exitWait := 0 } : Cfg).tick = Hertz.Gen.Shutdown.shutdownTickerMs ∧
    ({ exitWait := 0 } : Cfg).maxWait = Hertz.Gen.Shutdown.shutdownTimeoutMs ∧
    Hertz.Gen.Shutdown.defaultWaitExitTimeoutMs = 5000 ∧
    Hertz.Gen.Shutdown.engineShutdownCalls = ["atomic.LoadUint32", "atomic.CompareAndSwapUint32", "engine.GetOptions",
      "context.WithTimeout", "cancel", "make", "func", "close", "engine.executeOnShutdownHooks", "func", "ctx.Done",
      "ctx.Err", "opt.Registry.Deregister", "engine.transport.Shutdown", "ctx.Err"] ∧
    Hertz.Gen.Shutdown.engineShutdownAtomics = ["atomic.LoadUint32(&engine.status)",
      "atomic.CompareAndSwapUint32(&engine.status, statusRunning, statusShutdown)"] ∧
    Hertz.Gen.Shutdown.engineShutdownGuards = ["if atomic.LoadUint32(&engine.status) != statusRunning",
      "return errStatusNotRunning",
      "if !atomic.CompareAndSwapUint32(&engine.status, statusRunning, statusShutdown)", "return errStatusNotRunning"] ∧
    Hertz.Gen.Shutdown.engineRunCalls = ["engine.Init()", "context.Background()", "engine.MarkAsRunning()",
      "atomic.StoreUint32(&engine.status, statusClosed)", "engine.listenAndServe()"] ∧
    Hertz.Gen.Shutdown.markAsRunningAtomics = ["atomic.CompareAndSwapUint32(&engine.status, statusInitialized, statusRunning)"] ∧
    Hertz.Gen.Shutdown.initAtomics = ["atomic.CompareAndSwapUint32(&engine.status, 0, statusInitialized)"] ∧
    Hertz.Gen.Shutdown.isRunningCalls = ["atomic.LoadUint32(&engine.status)", "v.Listener()"] ∧
    Hertz.Gen.Shutdown.hooksCalls = ["wg.Add", "func", "wg.Done", "engine.OnShutdown[index]", "wg.Wait"] ∧
    Hertz.Gen.Shutdown.transportShutdownCalls = ["func", "t.Listener()", "ln.Close()", "time.NewTicker(shutdownTicker)",
      "tk.Stop()", "t.updateActive(0)", "time.Now()", "t.updateActive(0)", "now.Sub(t0)", "ctx.Done()", "ctx.Err()"] ∧
    Hertz.Gen.Shutdown.transportServeCalls = ["ln.Accept()", "t.updateActive(1)", "func", "t.handler(ctx, conn)",
      "t.handler(ctx, conn)", "t.updateActive(-1)"] ∧
    Hertz.Gen.Shutdown.updateActiveCalls = ["atomic.AddInt32(&t.active, delta)"] ∧
    Hertz.Gen.Shutdown.serveCalls = ["zw.Flush", "ctx.Request.Header.ConnectionClose", "s.Core.ServeHTTP",
      "s.Core.IsRunning", "ctx.Response.ConnectionClose", "writeResponse", "zw.Flush"] ∧
    Hertz.Gen.Shutdown.exitCheck = ["if !s.Core.IsRunning()", "connectionClose = true"] := by
  decide +kernel

/-! ## status machine -/

/-- **status_monotone.** Along every execution the engine status never decreases
(0 → initialized → running → shutdown → closed; it may skip values, it never goes back). -/
theorem status_monotone (cfg : Cfg) (n : Nat) (acts₁ acts₂ : List Act) (s₁ s₂ : State)
    (h₁ : run cfg (init n) acts₁ = some s₁) (h₂ : run cfg s₁ acts₂ = some s₂) : s₁.status ≤ s₂.status :=
  run_status_le cfg acts₂ (reachable_inv ⟨acts₁, h₁⟩) h₂

example : (run { exitWait := 5 } (init 0) [.init, .markRunning, .listen, .shutCall, .shutLoad 0, .shutCas 0]).map (·.status) = some 3 := by
  decide

/-- **second_shutdown_errors.** In every reachable state, EVERY caller of `Shutdown` other than the one
that won the CAS (index `winK` once `win ≠ none`; nobody while `win = none`) is either still on its
way to its load / CAS (`called`, `loaded`: two non-blocking steps, see `caller_never_blocks`) or has
returned `errStatusNotRunning`.  No such caller ever returns `nil`, and none ever enters a waiting
phase: sequential second calls, calls racing with the winner, calls on an engine that never ran or
has already closed. -/
theorem second_shutdown_errors (cfg : Cfg) (n : Nat) (acts : List Act) (s : State)
    (hr : run cfg (init n) acts = some s) (k : Nat) (p : CallerPh) (hk : s.callers[k]? = some p)
    (hnw : s.win = .none ∨ k ≠ s.winK) :
    p = .called ∨ p = .loaded ∨ p = .returned .notRunning ∨ p = .finished .notRunning := by
  have := run_callersOk cfg acts (inv_init n) (callersOk_init n) hr k p hk hnw
  cases p <;> simp_all [pendOrErr]
  all_goals (rename_i e; cases e <;> simp_all)

/-- the load of a call made after a won CAS, or on a non-running engine, goes straight to
`returned notRunning` -/
theorem second_shutdown_immediate (cfg : Cfg) (n : Nat) (acts : List Act) (s : State)
    (hr : run cfg (init n) acts = some s) (hw : s.win ≠ .none ∨ s.status ≠ stRunning)
    (k : Nat) (hk : s.callers[k]? = some .called) :
    step cfg s (.shutLoad k) = some { s with callers := s.callers.set k (.returned .notRunning) } := by
  have inv := reachable_inv ⟨acts, hr⟩
  have hne : s.status ≠ stRunning := by
    rcases hw with hw | hw
    · have := inv.winSt hw
      simp [stShutdown, stRunning] at this ⊢; omega
    · exact hw
  simp [step, updCaller, hk, hne]

/-- non-vacuity: second call after a completed shutdown; a call on an engine that never ran; and the
regression schedule of the repaired defect (commit "fix: the loser of two concurrent Shutdown calls
reported success"): both callers load before either CAS — the loser now reports the error -/
example : (run { exitWait := 5 } (init 0) [.init, .markRunning, .listen, .shutCall, .shutLoad 0, .shutCas 0, .shutSpawn,
    .shutCloseLn, .advance 10, .shutTick1, .shutFinish, .callerRet 0 .nil, .shutCall, .shutLoad 1]).map (·.callers) =
    some [.finished .nil, .returned .notRunning] := by decide
example : (run { exitWait := 5 } (init 0) [.shutCall, .shutLoad 0]).map (·.callers) = some [.returned .notRunning] := by decide
example : (run { exitWait := 5 } (init 0) [.init, .markRunning, .listen, .shutCall, .shutCall, .shutLoad 0, .shutLoad 1,
    .shutCas 0, .shutCas 1]).map (fun s => (s.callers, s.winK)) = some ([.winner, .returned .notRunning], 0) := by decide

/-- A caller is never stuck: from `called` the load is enabled, from `loaded` the CAS is enabled,
whatever the rest of the system does (no lock, no wait). -/
theorem caller_never_blocks (cfg : Cfg) (s : State) (k : Nat) :
    (s.callers[k]? = some .called → (step cfg s (.shutLoad k)).isSome) ∧
    (s.callers[k]? = some .loaded → (step cfg s (.shutCas k)).isSome) := by
  constructor
  · intro h; simp [step, updCaller, h]
  · intro h; simp only [step, h]; split <;> simp

example : (step { exitWait := 5 } { (init 0) with callers := [.called] } (.shutLoad 0)).isSome = true := by decide

/-! ## in-flight requests -/

/-- **inflight_complete (counting).** In every reachable state, on every connection, every request
whose handler has started has either been answered by a complete response or is still in flight
(at most one per connection): no action of the model — in particular none of the shutdown steps —
drops a started request. -/
theorem inflight_complete (cfg : Cfg) (n : Nat) (acts : List Act) (s : State) (hr : run cfg (init n) acts = some s)
    (cn : Conn) (hc : cn ∈ s.conns) : cn.started = cn.resps.length + inflight cn.ph :=
  ((reachable_inv ⟨acts, hr⟩).conns cn hc).count

/-- **inflight_complete (progress).** Whatever the state of the shutdown, an in-flight request can
always take its next step: the handler may return, the exit check may run, the response may be
written.  Nothing in `Shutdown` disables these steps. -/
theorem inflight_progress (cfg : Cfg) (s : State) (c : Nat) (cn : Conn) (hc : s.conns[c]? = some cn) :
    (∀ rc, cn.ph = .handling rc → ∀ b, (step cfg s (.handlerRet c b)).isSome) ∧
    (∀ cl g, cn.ph = .returned cl g → (step cfg s (.exitCheck c)).isSome) ∧
    (∀ cl g, cn.ph = .checked cl g → (step cfg s (.writeResp c)).isSome) := by
  refine ⟨?_, ?_, ?_⟩
  · intro rc h b; simp [step, updConn, hc, cHandlerRet, h]
  · intro cl g h; simp [step, updConn, hc, cExitCheck, h]
  · intro cl g h; simp [step, updConn, hc, cWriteResp, h]

/-- non-vacuity: a request in flight across a whole shutdown that hits the deadline is answered
afterwards, completely, with `Connection: close` -/
example : (run { exitWait := 20 } (init 0) [.init, .markRunning, .listen, .accept, .reqArrive 0 false, .shutCall, .shutLoad 0,
    .shutCas 0, .shutSpawn, .shutCloseLn, .advance 10, .shutTick1, .advance 10, .shutCtxDone, .shutFinish, .callerRet 0 .nil,
    .handlerRet 0 false, .exitCheck 0, .writeResp 0, .clientRead 0 true, .connGone 0]).map
      (fun s => (s.conns.map (fun c => (c.started, c.resps)), s.active)) = some ([(1, [⟨true, true⟩])], 0) := by decide

/-- **close_after_shutdown.** In every reachable state, every response whose handler returned when the
status had already left `running` (ghost flag `flipped`, set by `handlerRet` to `status ≥ shutdown`)
carries `Connection: close`. -/
theorem close_after_shutdown (cfg : Cfg) (n : Nat) (acts : List Act) (s : State) (hr : run cfg (init n) acts = some s)
    (cn : Conn) (hc : cn ∈ s.conns) (r : Resp) (hm : r ∈ cn.resps) (hf : r.flipped = true) : r.close = true :=
  ((reachable_inv ⟨acts, hr⟩).conns cn hc).resps r hm hf

/-- the ghost flag is what it is said to be: `handlerRet` records `status ≥ shutdown` of that instant -/
theorem flipped_is_status (cfg : Cfg) (s s' : State) (c : Nat) (b : Bool) (h : step cfg s (.handlerRet c b) = some s') :
    ∃ cl, (s'.conns[c]?).map (·.ph) = some (.returned cl (decide (stShutdown ≤ s.status))) := by
  simp only [step] at h
  obtain ⟨cn, cn', hc, hf, rfl⟩ := updConn_some h
  unfold cHandlerRet at hf
  split at hf <;> simp at hf
  subst hf
  have : c < s.conns.length := by
    rcases Nat.lt_or_ge c s.conns.length with h | h
    · exact h
    · simp [List.getElem?_eq_none h] at hc
  rename_i rc _
  exact ⟨rc || b, by simp [this]⟩

/-- **close_after_shutdown (trace form, no ghost).**  Take any execution; at a moment when the status
has left `running` (`stShutdown ≤ status`: a `Shutdown` won its CAS, or `Run` has returned) let the
handler of the request in flight on connection `c` return; continue with any execution whatsoever.
Whenever the response to that request exists (it is response number `cn₁.resps.length` of the
connection), it carries `Connection: close`. -/
theorem close_after_shutdown_trace (cfg : Cfg) (n : Nat) (acts₁ acts₂ : List Act) (s₁ s₁' s₂ : State) (c : Nat) (b : Bool)
    (h₁ : run cfg (init n) acts₁ = some s₁) (hflip : stShutdown ≤ s₁.status)
    (hs : step cfg s₁ (.handlerRet c b) = some s₁') (h₂ : run cfg s₁' acts₂ = some s₂)
    (cn₁ cn₂ : Conn) (hc₁ : s₁.conns[c]? = some cn₁) (hc₂ : s₂.conns[c]? = some cn₂)
    (r : Resp) (hr : cn₂.resps[cn₁.resps.length]? = some r) : r.close = true := by
  -- after the handler return the request is pending with the ghost set
  have hp : PendAt c cn₁.resps.length s₁' := by
    simp only [step] at hs
    obtain ⟨cn, cn', hc, hf, rfl⟩ := updConn_some hs
    rw [hc₁] at hc; cases hc
    unfold cHandlerRet at hf
    split at hf <;> simp at hf
    subst hf
    have hlt : c < s₁.conns.length := by
      rcases Nat.lt_or_ge c s₁.conns.length with h | h
      · exact h
      · simp [List.getElem?_eq_none h] at hc₁
    rename_i rc _
    refine ⟨{ cn₁ with ph := .returned (rc || b) (decide (stShutdown ≤ s₁.status)) }, by simp [hlt], Or.inl ⟨rfl, ?_⟩⟩
    simpa [pendPh] using hflip
  obtain ⟨cn, hcn, hpend⟩ := run_pendAt cfg acts₂ hp h₂
  rw [hc₂] at hcn; cases hcn
  have inv₁' : Inv s₁' := step_inv cfg (reachable_inv ⟨acts₁, h₁⟩) hs
  have inv₂ : Inv s₂ := run_inv cfg acts₂ inv₁' h₂
  have hok := inv₂.conns cn₂ (List.mem_of_getElem? hc₂)
  rcases hpend with ⟨hl, _⟩ | ⟨r', hr', hfl⟩
  · have : cn₂.resps[cn₁.resps.length]? = none := by simp [← hl]
    simp [this] at hr
  · rw [hr] at hr'; cases hr'
    exact hok.resps r (List.mem_of_getElem? hr) hfl

/-- non-vacuity: shutdown begins, the handler returns, other connections come and go, the response follows -/
example : (run { exitWait := 20 } (init 0) [.init, .markRunning, .listen, .accept, .accept, .reqArrive 0 false, .shutCall, .shutLoad 0,
    .shutCas 0, .handlerRet 0 false, .reqArrive 1 true, .shutSpawn, .exitCheck 0, .handlerRet 1 false, .writeResp 0]).map
      (fun s => s.conns.map (·.resps)) = some [[⟨true, true⟩], []] := by decide

/-- and the converse direction on a concrete run: a handler that returns before the CAS but is
checked after it also gets `Connection: close` (the check, not the return, decides) -/
example : (run { exitWait := 20 } (init 0) [.init, .markRunning, .listen, .accept, .reqArrive 0 false, .handlerRet 0 false,
    .shutCall, .shutLoad 0, .shutCas 0, .exitCheck 0, .writeResp 0]).map (fun s => s.conns.map (·.resps)) =
    some [[⟨true, false⟩]] := by decide
example : (run { exitWait := 20 } (init 0) [.init, .markRunning, .listen, .accept, .reqArrive 0 false, .handlerRet 0 false,
    .exitCheck 0, .shutCall, .shutLoad 0, .shutCas 0, .writeResp 0]).map (fun s => s.conns.map (·.resps)) =
    some [[⟨false, false⟩]] := by decide

/-! ## hooks -/

/-- **hooks_started.** Once the winning caller is past the `go executeOnShutdownHooks` step, every
registered hook has been spawned; in particular when `Shutdown` has returned. -/
theorem hooks_started (cfg : Cfg) (n : Nat) (acts : List Act) (s : State) (hr : run cfg (init n) acts = some s)
    (h1 : s.win ≠ .none) (h2 : s.win ≠ .pre) : ∀ h ∈ s.hooks, h ≠ .unspawned :=
  (reachable_inv ⟨acts, hr⟩).spawned h1 h2

/-- **hooks_waited.** If `Shutdown` returned before the deadline of its context, all hooks had finished. -/
theorem hooks_waited (cfg : Cfg) (n : Nat) (acts : List Act) (s : State) (hr : run cfg (init n) acts = some s)
    (e : Err) (t : Nat) (hw : s.win = .returned e t) (ht : t < s.dl) : hooksDone s = true :=
  (reachable_inv ⟨acts, hr⟩).retHooks e t hw ht

example : (run { exitWait := 50 } (init 2) [.init, .markRunning, .listen, .shutCall, .shutLoad 0, .shutCas 0, .shutSpawn,
    .hookStart 1, .shutCloseLn, .hookStart 0, .hookEnd 1, .advance 10, .shutTick1, .advance 5, .hookEnd 0, .shutFinish]).map
      (fun s => (s.win, s.dl, s.hooks)) = some (.returned .nil 15, 50, [.done, .done]) := by decide

/-! ## no accept after shutdown -/

/-- The full statement "after the listener-closing step of `Shutdown` no connection is accepted" is
FALSE of the code: `Engine.Run` marks the engine running *before* `transport.serve` creates the
listener; a `Shutdown` in that window wins the CAS, finds `t.ln == nil`, closes nothing, returns
`nil`, and `serve` then listens and accepts for ever.  (Reproduced on the real server by
`c18race` in `harness/c18.go`.) -/
theorem no_accept_after_shutdown_fails_at :
    ¬ (∀ s, run { exitWait := 100 } (init 0) [.init, .markRunning, .shutCall, .shutLoad 0, .shutCas 0, .shutSpawn, .shutCloseLn,
          .advance 10, .shutTick1, .shutFinish, .callerRet 0 .nil, .listen, .accept] = some s → s.lateAccepts = 0) := by
  intro h
  have hrun : (run { exitWait := 100 } (init 0) [.init, .markRunning, .shutCall, .shutLoad 0, .shutCas 0, .shutSpawn, .shutCloseLn,
      .advance 10, .shutTick1, .shutFinish, .callerRet 0 .nil, .listen, .accept]).map (fun s => (s.lateAccepts, s.callers, s.lnOpen)) =
      some (1, [.finished .nil], true) := by decide
  cases hs : run { exitWait := 100 } (init 0) [.init, .markRunning, .shutCall, .shutLoad 0, .shutCas 0, .shutSpawn, .shutCloseLn,
      .advance 10, .shutTick1, .shutFinish, .callerRet 0 .nil, .listen, .accept] with
  | none => simp [hs] at hrun
  | some s =>
    simp [hs] at hrun
    have := h s hs
    omega

/-- **no_accept_after_shutdown (partial).** If `transport.Shutdown` found the listener
(`lnSkipped = false`: `serve` had listened before the shutdown reached the transport), then no
connection has been accepted after that step, the listener stays closed and `accept` stays disabled. -/
theorem no_accept_after_shutdown_partial (cfg : Cfg) (n : Nat) (acts : List Act) (s : State)
    (hr : run cfg (init n) acts = some s) (hs : s.lnSkipped = false) :
    s.lateAccepts = 0 ∧ (postClose s.win = true → s.lnOpen = false ∧ step cfg s .accept = none) := by
  have inv := reachable_inv ⟨acts, hr⟩
  refine ⟨inv.late1 hs, fun hp => ?_⟩
  have := (inv.closed hp hs).1
  exact ⟨this, by simp [step, this]⟩

example : (run { exitWait := 100 } (init 0) [.init, .markRunning, .listen, .accept, .shutCall, .shutLoad 0, .shutCas 0, .shutSpawn,
    .shutCloseLn]).map (fun s => (s.lnSkipped, s.lnOpen, postClose s.win)) = some (false, false, true) := by decide

/-! ## the wait is bounded -/

/-- **shutdown_bounded.** Along every execution in which the shutdown goroutine is scheduled
promptly (`runPrompt`: the clock advances only while that goroutine is blocked, and not past the
instant that wakes it), `Shutdown` returns no later than `ExitWaitTimeout` plus one ticker period
after its CAS — whatever connections, handlers and hooks do (busy for ever, idle keep-alive that never
closes, hooks that never end). -/
theorem shutdown_bounded (cfg : Cfg) (n : Nat) (acts : List Act) (s : State)
    (hr : runPrompt cfg (init n) acts = some s) (e : Err) (t : Nat) (hw : s.win = .returned e t) :
    t ≤ s.tcas + cfg.exitWait + cfg.tick := by
  have := (runPrompt_inv cfg acts (inv_init n) (by simp [TimeInv, init]) hr).2
  simpa [TimeInv, hw] using this

/-- non-vacuity: an idle keep-alive connection that never closes and a hook that never ends — the call
returns exactly at the deadline; with an exit wait below one tick it returns after one tick -/
example : (runPrompt { exitWait := 30 } (init 1) [.init, .markRunning, .listen, .accept, .advance 7, .shutCall, .shutLoad 0, .shutCas 0,
    .shutSpawn, .hookStart 0, .shutCloseLn, .advance 10, .shutTick1, .advance 10, .shutTickLoop, .advance 10, .shutCtxDone,
    .shutFinish]).map (fun s => (s.win, s.tcas)) = some (.returned .nil 37, 7) := by decide
example : (runPrompt { exitWait := 3 } (init 0) [.init, .markRunning, .listen, .shutCall, .shutLoad 0, .shutCas 0,
    .shutSpawn, .shutCloseLn, .advance 10, .shutTick1, .shutFinish]).map (fun s => (s.win, s.tcas)) = some (.returned .nil 10, 0) := by decide
/-- the discipline is needed: without it the clock may run while the goroutine is runnable -/
example : (runPrompt { exitWait := 3 } (init 0) [.init, .markRunning, .listen, .shutCall, .shutLoad 0, .shutCas 0, .advance 1]) = none := by decide

/-- The winning caller always has an enabled step once the time it waits for has come: no phase of
`Shutdown` can block for ever (no hang). -/
theorem shutdown_never_stuck (cfg : Cfg) (s : State) :
    (s.win = .pre → (step cfg s .shutSpawn).isSome) ∧
    (s.win = .closeLn → (step cfg s .shutCloseLn).isSome) ∧
    (s.win = .wait1 → s.nextTick ≤ s.now → (step cfg s .shutTick1).isSome) ∧
    (∀ t0, s.win = .loop t0 → s.dl ≤ s.now → (step cfg s .shutCtxDone).isSome) ∧
    (∀ e, s.win = .deferred e → s.dl ≤ s.now → (step cfg s .shutFinish).isSome) := by
  refine ⟨?_, ?_, ?_, ?_, ?_⟩
  · intro h; simp [step, h]
  · intro h; simp [step, h]
  · intro h h'; simp [step, h, h']
  · intro t0 h h'; simp [step, h, h']
  · intro e h h'; simp [step, h, h']

example : (step { exitWait := 5 } { (init 0) with win := .deferred .nil, dl := 5, now := 5 } .shutFinish).isSome = true := by decide

/-
TODO-OPEN (not proved; checked per case by the correspondence harness):
 * the spec predicate `Hertz.ShutdownSpec.violations` holds of the observable projection of every
   `run` of the model (would make "model accepts the trace" imply "spec holds of the trace").
 * liveness under fairness (every enabled step of a goroutine is eventually taken) — outside the
   safety/enabledness fragment proved here.
-/

end Hertz.Props.C18
