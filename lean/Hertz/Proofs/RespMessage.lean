import Hertz.Proofs.Resp
import Hertz.Model.Fs
import Hertz.Model.Http1.RespMsg
import Hertz.Proofs.Fs
/-!
Lemmas for the end-to-end statement of C04: the whole response (header block of the C05 model with
the framing fields `ResponseHeader.SetContentLength` puts in, followed by the body bytes of
`H1.Resp.frame`) is read by the strict reader `Spec.Resp.decodeOne` as exactly one message.

Parts:
* the string literals of the specification (`"content-length".toUTF8.toList` …) as byte lists;
* `AppendUint` round trip (`parseDec (decimal n) = some n`);
* the status line `HTTP/1.1 NNN reason`;
* `withFraming`: the header state after `SetContentLength`, and what the reader makes of its fields;
* `decodeOne` restated as a chain of binds; the message theorem per body kind.
-/
namespace Hertz.H1.Resp
open Hertz Hertz.Gen.Str Hertz.Spec.Resp Hertz.Spec.Head Hertz.HW

/-! ### string literals of the specification -/

theorem ba_size (bs : ByteArray) : bs.size = bs.data.toList.length := by
  cases bs; simp [ByteArray.size]

theorem ba_loop (bs : ByteArray) : ∀ (k i : Nat) (r : List UInt8), k = bs.size - i →
    ByteArray.toList.loop bs i r = r.reverse ++ bs.data.toList.drop i
  | 0, i, r, h => by
    rw [ByteArray.toList.loop.eq_1]
    have : ¬ i < bs.size := by omega
    have h2 : bs.data.toList.length ≤ i := by rw [← ba_size]; omega
    simp [this, List.drop_eq_nil_of_le h2]
  | k + 1, i, r, h => by
    rw [ByteArray.toList.loop.eq_1]
    have hi : i < bs.size := by omega
    have hi2 : i < bs.data.toList.length := by rw [← ba_size]; exact hi
    rw [if_pos hi, ba_loop bs k (i + 1) _ (by omega)]
    rw [List.drop_eq_getElem_cons hi2]
    have : bs.get! i = bs.data.toList[i] := by
      cases bs with
      | mk d =>
        simp [ByteArray.get!]
        exact getElem!_pos d i (by simpa using hi2)
    simp [this]

/-- `ByteArray.toList` (well-founded, hence opaque to `decide`) gives back the list -/
theorem toList_toByteArray (l : List UInt8) : l.toByteArray.toList = l := by
  unfold ByteArray.toList
  rw [ba_loop _ _ 0 [] rfl]
  simp [List.data_toByteArray]

theorem sCL_eq : sCL = [99, 111, 110, 116, 101, 110, 116, 45, 108, 101, 110, 103, 116, 104] := by
  unfold sCL
  rw [show "content-length" = String.ofList ['c','o','n','t','e','n','t','-','l','e','n','g','t','h'] from rfl]
  rw [String.toUTF8, String.toByteArray_ofList, List.utf8Encode, toList_toByteArray]
  decide

theorem sTE_eq : sTE = [116, 114, 97, 110, 115, 102, 101, 114, 45, 101, 110, 99, 111, 100, 105, 110, 103] := by
  unfold sTE
  rw [show "transfer-encoding" =
    String.ofList ['t','r','a','n','s','f','e','r','-','e','n','c','o','d','i','n','g'] from rfl]
  rw [String.toUTF8, String.toByteArray_ofList, List.utf8Encode, toList_toByteArray]
  decide

theorem sChunked_eq : sChunked = [99, 104, 117, 110, 107, 101, 100] := by
  unfold sChunked
  rw [show "chunked" = String.ofList ['c','h','u','n','k','e','d'] from rfl]
  rw [String.toUTF8, String.toByteArray_ofList, List.utf8Encode, toList_toByteArray]
  decide

/-! ### decimal numbers: `bytesconv.AppendUint` against the reader's `parseDec` -/

def isDig (c : UInt8) : Bool := 48 ≤ c && c ≤ 57
def decStep (n : Nat) (c : UInt8) : Nat := n * 10 + (c - 48).toNat

theorem parseDec_eq (b : Bytes) :
    parseDec b = if b.isEmpty || !b.all isDig then none else some (b.foldl decStep 0) := rfl

theorem small_digit : ∀ k, k < 10 → isDig (48 + k).toUInt8 = true ∧ ((48 + k).toUInt8 - 48).toNat = k := by
  decide

theorem decDigits_spec : ∀ (f n : Nat), n < 10 ^ (f + 1) →
    ∃ d, FS.decDigits (f + 1) n = some d ∧ d ≠ [] ∧ d.all isDig = true ∧ d.foldl decStep 0 = n ∧ d.length ≤ f + 1
  | f, n, h => by
    by_cases h10 : n < 10
    · have := small_digit n h10
      refine ⟨[(48 + n).toUInt8], ?_, List.cons_ne_nil _ _, ?_, ?_, ?_⟩
      · simp only [FS.decDigits, h10, if_true]
      · simp only [List.all_cons, List.all_nil, this.1, Bool.and_self]
      · simp only [List.foldl, decStep, this.2]; omega
      · simp
    · match f, h with
      | 0, h => exact absurd (by simpa using h) h10
      | f + 1, h =>
        have hq : n / 10 < 10 ^ (f + 1) := by
          rw [Nat.pow_succ] at h
          omega
        obtain ⟨d, hd, hne, hall, hval, hlen⟩ := decDigits_spec f (n / 10) hq
        have hm := small_digit (n % 10) (by omega)
        refine ⟨d ++ [(48 + n % 10).toUInt8], ?_, ?_, ?_, ?_, ?_⟩
        · rw [FS.decDigits]; simp only [h10, if_false, hd, Option.map_some]
        · intro e; exact hne (List.append_eq_nil_iff.1 e).1
        · simp only [List.all_append, hall, List.all_cons, List.all_nil, hm.1, Bool.and_self]
        · simp only [List.foldl_append, hval, List.foldl, decStep, hm.2]; omega
        · simp; omega

theorem decimal_spec (n : Nat) (h : n < 10 ^ 20) :
    FS.decDigits 20 n = some (decimal n) ∧ decimal n ≠ [] ∧ (decimal n).all isDig = true ∧
      (decimal n).foldl decStep 0 = n := by
  obtain ⟨d, hd, hne, hall, hval, _⟩ := decDigits_spec 19 n h
  have : decimal n = d := by simp [decimal, hd]
  rw [this]
  exact ⟨hd, hne, hall, hval⟩

/-- (a) the decimal number `AppendUint` writes is read back by the strict reader as the same number -/
theorem parseDec_decimal (n : Nat) (h : n < 10 ^ 20) : parseDec (decimal n) = some n := by
  obtain ⟨_, hne, hall, hval⟩ := decimal_spec n h
  rw [parseDec_eq]
  have : (decimal n).isEmpty = false := by simpa using hne
  simp [this, hall, hval]

theorem two63_lt : (2 : Nat) ^ 63 < 10 ^ 20 := by decide

/-- the same about the model of `bytesconv.AppendUint` used by C08 (`FS.appendUint`, with its panics) -/
theorem appendUint_decimal (n : Nat) (h : n < 10 ^ 20) : FS.appendUint (n : Int) = .ok (decimal n) := by
  unfold FS.appendUint
  have : ¬ ((n : Int) < 0) := by omega
  simp [this, (decimal_spec n h).1]

theorem isDig_clean {c : UInt8} (h : isDig c = true) : c ≠ 13 ∧ c ≠ 10 := by
  have := allBytes_spec (p := fun c => !isDig c || (c != 13 && c != 10)) (by decide +kernel) c
  simpa [h] using this

set_option maxRecDepth 100000 in
theorem tbl_digit_kept : allBytes (fun c => !isDig c || tget Gen.newlineToSpaceTable c == c) = true := by
  decide +kernel

theorem newlineToSpace_digits (d : Bytes) (h : d.all isDig = true) : newlineToSpace d = d := by
  induction d with
  | nil => rfl
  | cons c t ih =>
    simp only [List.all_cons, Bool.and_eq_true] at h
    have := allBytes_spec tbl_digit_kept c
    simp only [h.1, Bool.not_true, Bool.false_or, beq_iff_eq] at this
    simp only [newlineToSpace, List.map_cons, this] at ih ⊢
    rw [ih h.2]

theorem newlineToSpace_decimal (n : Nat) (h : n < 10 ^ 20) : newlineToSpace (decimal n) = decimal n :=
  newlineToSpace_digits _ (decimal_spec n h).2.2.1

/-! ### the status line -/

def NoCRLF (b : Bytes) : Prop := ∀ x ∈ b, x ≠ 13 ∧ x ≠ 10

theorem decimal_three (n : Nat) (h1 : 100 ≤ n) (h2 : n < 1000) : ∃ a b c, decimal n = [a, b, c] := by
  have a1 : ¬ n < 10 := by omega
  have a2 : ¬ n / 10 < 10 := by omega
  have a3 : n / 10 / 10 < 10 := by omega
  refine ⟨(48 + n / 10 / 10).toUInt8, (48 + n / 10 % 10).toUInt8, (48 + n % 10).toUInt8, ?_⟩
  unfold decimal
  rw [show (20 : Nat) = 17 + 1 + 1 + 1 from rfl]
  simp only [FS.decDigits, a1, a2, a3, if_true, if_false, Option.map_some, Option.getD_some, List.cons_append,
    List.nil_append]

theorem statusOf_statusLineOf (n : Nat) (reason : Bytes) (h1 : 100 ≤ n) (h2 : n < 1000) :
    statusOf (statusLineOf n reason) = some n := by
  obtain ⟨a, b, c, habc⟩ := decimal_three n h1 h2
  have hp := parseDec_decimal n (by omega)
  rw [habc] at hp
  unfold statusLineOf
  rw [habc]
  simp [statusOf, strHTTP11Sp, hp]

theorem statusLineOf_clean (n : Nat) (reason : Bytes) (hn : n < 10 ^ 20) (hr : NoCRLF reason) :
    NoCRLF (statusLineOf n reason) := by
  intro x hx
  simp only [statusLineOf, List.mem_append, List.mem_cons] at hx
  rcases hx with (hx | hx) | hx | hx
  · revert x; decide
  · exact isDig_clean (List.all_eq_true.mp (decimal_spec n hn).2.2.1 x hx)
  · subst hx; decide
  · exact hr x hx

/-! ### what the reader makes of the framing fields -/

/-- the values of the kept fields called `name` (case-insensitively) -/
def named (name : Bytes) (fs : List (Bytes × Bytes)) : List Bytes :=
  ((kept fs).filter (fun kv => lowerAll kv.1 == name)).map (·.2)

theorem kept_append (a b : List (Bytes × Bytes)) : kept (a ++ b) = kept a ++ kept b := by
  simp [kept]

theorem named_append (name : Bytes) (a b : List (Bytes × Bytes)) :
    named name (a ++ b) = named name a ++ named name b := by
  simp [named, kept_append]

theorem named_nil (name : Bytes) : named name [] = [] := rfl

theorem named_of_forall_ne (name : Bytes) (fs : List (Bytes × Bytes))
    (h : ∀ kv ∈ fs, lowerAll kv.1 ≠ name) : named name fs = [] := by
  simp only [named, kept, List.map_eq_nil_iff, List.filter_eq_nil_iff, List.mem_map, List.mem_filter]
  rintro kv ⟨a, ⟨ha, _⟩, rfl⟩
  simpa using h a ha

theorem named_single_ne (name k v : Bytes) (h : lowerAll k ≠ name) : named name [(k, v)] = [] :=
  named_of_forall_ne name _ (by simpa using h)

theorem named_single_eq (name k v : Bytes) (hv : validName k = true) (h : lowerAll k = name) :
    named name [(k, v)] = [newlineToSpace v] := by
  simp [named, kept, hv, h]

theorem named_ite_ne (name k v : Bytes) (c : Prop) [Decidable c] (h : lowerAll k ≠ name) :
    named name (if c then [] else [(k, v)]) = [] := by
  split
  · rfl
  · exact named_single_ne name k v h

theorem named_filter_ne (name : Bytes) (fs : List (Bytes × Bytes)) (p : Bytes × Bytes → Bool)
    (h : ∀ kv ∈ fs, lowerAll kv.1 ≠ name) : named name (fs.filter p) = [] :=
  named_of_forall_ne name _ (fun kv hkv => h kv (List.mem_filter.mp hkv).1)

/-- the only fields of a serialised response header that can be called Content-Length or
Transfer-Encoding are the `contentLengthBytes` line and the generic fields `h` -/
theorem named_fields (r : RespHdr) (name : Bytes) (hn : name = sCL ∨ name = sTE) :
    named name r.fields =
      named name (if r.clBytes.isEmpty then [] else [(strContentLength, r.clBytes)]) ++
      named name (r.h.filter (fun kv => r.date.isNone || kv.1 != strDate)) := by
  have c1 : lowerAll strServer ≠ name := by rcases hn with rfl | rfl <;> simp only [sCL_eq, sTE_eq] <;> decide
  have c2 : lowerAll strDate ≠ name := by rcases hn with rfl | rfl <;> simp only [sCL_eq, sTE_eq] <;> decide
  have c3 : lowerAll strContentType ≠ name := by rcases hn with rfl | rfl <;> simp only [sCL_eq, sTE_eq] <;> decide
  have c4 : lowerAll strContentEncoding ≠ name := by rcases hn with rfl | rfl <;> simp only [sCL_eq, sTE_eq] <;> decide
  have c5 : lowerAll strTrailer ≠ name := by rcases hn with rfl | rfl <;> simp only [sCL_eq, sTE_eq] <;> decide
  have c6 : lowerAll strSetCookie ≠ name := by rcases hn with rfl | rfl <;> simp only [sCL_eq, sTE_eq] <;> decide
  have c7 : lowerAll strConnection ≠ name := by rcases hn with rfl | rfl <;> simp only [sCL_eq, sTE_eq] <;> decide
  have ck : named name (r.cookies.map (fun c => (strSetCookie, c))) = [] :=
    named_of_forall_ne name _ (by
      intro kv hkv
      simp only [List.mem_map] at hkv
      obtain ⟨c, _, rfl⟩ := hkv
      exact c6)
  have cn : named name (if r.connClose then [(strConnection, strClose)] else []) = [] := by
    split
    · exact named_single_ne name _ _ c7
    · rfl
  have ct : named name (if ((r.contentLength != 0 || !r.contentType.isEmpty) && !r.contentType.isEmpty) = true
      then [(strContentType, r.contentType)] else []) = [] := by
    split
    · exact named_single_ne name _ _ c3
    · rfl
  unfold RespHdr.fields
  simp only [named_append, named_ite_ne name _ _ _ c1, named_ite_ne name _ _ _ c4,
    named_ite_ne name _ _ _ c5, ct, ck, cn, List.append_nil, List.nil_append]
  cases r.date <;> simp only [named_nil, named_single_ne name _ _ c2, List.nil_append]

/-! ### `decodeOne` as a chain of binds -/

/-- the framing decision of `decodeOne` -/
def framingOf (fs : List (Bytes × Bytes)) : Option Spec.Resp.Framing :=
  match (fs.filter (fun kv => lowerAll kv.1 == sCL)).map (·.2), (fs.filter (fun kv => lowerAll kv.1 == sTE)).map (·.2) with
  | [], [] => some Spec.Resp.Framing.none
  | [c], [] => (parseDec c).map Spec.Resp.Framing.cl
  | [], [t] => if lowerAll t == sChunked then some Spec.Resp.Framing.chunked else none
  | _, _ => none

/-- the body step of `decodeOne` -/
def bodyOf (isHead : Bool) (status : Nat) (fs : List (Bytes × Bytes)) (framing : Spec.Resp.Framing) (rest : Bytes) :
    Option (Msg × Bytes) :=
  if isHead || noBodyStatus status then
    some ({ status, fields := fs, framing, raw := [], body := [], trailers := [] }, rest)
  else match framing with
    | .none => some ({ status, fields := fs, framing, raw := [], body := [], trailers := [] }, rest)
    | .cl n =>
      if rest.length < n then none
      else some ({ status, fields := fs, framing, raw := rest.take n, body := rest.take n, trailers := [] }, rest.drop n)
    | .chunked =>
      (chunks (rest.length + 1) rest []).bind fun r =>
        some ({ status, fields := fs, framing, raw := rest.take (rest.length - r.2.2.length), body := r.1, trailers := r.2.1 }, r.2.2)

theorem decodeOne_of (isHead : Bool) (s start rest : Bytes) (fs : List (Bytes × Bytes)) (st : Nat)
    (fr : Spec.Resp.Framing) (h1 : parseHead s = some (start, fs, rest)) (h2 : statusOf start = some st)
    (h3 : framingOf fs = some fr) : decodeOne isHead s = bodyOf isHead st fs fr rest := by
  unfold framingOf at h3
  unfold decodeOne bodyOf
  simp only [h1, h2, Option.bind_eq_bind, Option.bind_some, Option.pure_def]
  generalize (fs.filter (fun kv => lowerAll kv.1 == sCL)).map (·.2) = cls at h3 ⊢
  generalize (fs.filter (fun kv => lowerAll kv.1 == sTE)).map (·.2) = tes at h3 ⊢
  rcases cls with _ | ⟨c, _ | ⟨c2, cs⟩⟩ <;> rcases tes with _ | ⟨t, _ | ⟨t2, ts⟩⟩ <;>
    simp only [reduceCtorEq] at h3 <;> try (simp only [Option.some.injEq] at h3; subst h3; rfl)
  · split at h3
    · simp only [Option.some.injEq] at h3; subst h3; simp [*]
    · simp at h3
  · cases hp : parseDec c with
    | none => simp [hp] at h3
    | some n => simp only [hp, Option.map_some, Option.some.injEq] at h3; subst h3; simp [hp]

theorem bodyOf_bodiless (isHead : Bool) (st : Nat) (fs : List (Bytes × Bytes)) (fr : Spec.Resp.Framing) (rest : Bytes)
    (hb : (isHead || noBodyStatus st) = true) :
    bodyOf isHead st fs fr rest =
      some ({ status := st, fields := fs, framing := fr, raw := [], body := [], trailers := [] }, rest) := by
  simp only [bodyOf, hb, if_true]

theorem bodyOf_cl (isHead : Bool) (st : Nat) (fs : List (Bytes × Bytes)) (n : Nat) (wire rest : Bytes)
    (hb : (isHead || noBodyStatus st) = false) (hl : wire.length = n) :
    bodyOf isHead st fs (.cl n) (wire ++ rest) =
      some ({ status := st, fields := fs, framing := .cl n, raw := wire, body := wire, trailers := [] }, rest) := by
  have h1 : ¬ (wire ++ rest).length < n := by simp [hl]
  simp only [bodyOf, hb, Bool.false_eq_true, if_false, h1]
  subst hl
  simp

theorem bodyOf_chunked (isHead : Bool) (st : Nat) (fs : List (Bytes × Bytes)) (wire rest body : Bytes)
    (tr : List (Bytes × Bytes)) (hb : (isHead || noBodyStatus st) = false)
    (hc : chunks ((wire ++ rest).length + 1) (wire ++ rest) [] = some (body, tr, rest)) :
    bodyOf isHead st fs .chunked (wire ++ rest) =
      some ({ status := st, fields := fs, framing := .chunked, raw := wire, body := body, trailers := tr }, rest) := by
  simp only [bodyOf, hb, Bool.false_eq_true, if_false, hc, Option.bind_some]
  simp

/-! ### the header state the writer leaves behind -/

-- `setArgKV`, `withFraming`, `toSpec` (and `decimal`, `statusLineOf`, `effFraming`, `message`) live in
-- `Hertz/Model/Http1/RespMsg.lean` so that the driver can evaluate them

/-- the response header before the writer touches it: a status line `HTTP/1.1 NNN reason`, no
Content-Length yet, and no generic field called Content-Length or Transfer-Encoding (the setters route
both names to `setSpecialHeader`, which never stores them in `h`) -/
def HeadOK (r : RespHdr) (status : Nat) : Prop :=
  100 ≤ status ∧ status < 1000 ∧ (∃ reason, NoCRLF reason ∧ r.statusLine = statusLineOf status reason) ∧
  r.clBytes = [] ∧ ∀ kv ∈ r.h, lowerAll kv.1 ≠ sCL ∧ lowerAll kv.1 ≠ sTE

theorem setArgKV_absent : ∀ (h : List (Bytes × Bytes)) (k v : Bytes), (∀ kv ∈ h, kv.1 ≠ k) →
    setArgKV h k v = h ++ [(k, v)]
  | [], _, _, _ => rfl
  | (k', v') :: t, k, v, hh => by
    have h1 : k' ≠ k := hh (k', v') (by simp)
    simp only [setArgKV, h1, if_false, List.cons_append]
    rw [setArgKV_absent t k v (fun kv hkv => hh kv (by simp [hkv]))]

theorem lowerAll_TE : lowerAll strTransferEncoding = sTE := by rw [sTE_eq]; decide
theorem lowerAll_CL : lowerAll strContentLength = sCL := by rw [sCL_eq]; decide

theorem framingOf_kept (fs : List (Bytes × Bytes)) :
    framingOf (kept fs) = (match named sCL fs, named sTE fs with
      | [], [] => some Spec.Resp.Framing.none
      | [c], [] => (parseDec c).map Spec.Resp.Framing.cl
      | [], [t] => if lowerAll t == sChunked then some Spec.Resp.Framing.chunked else none
      | _, _ => none) := rfl

/-- the strict reader's framing decision on the header the writer produced is the writer's framing -/
theorem framingOf_withFraming (r : RespHdr) (st : Nat) (f : Framing) (hr : HeadOK r st)
    (hn : ∀ n, f = .cl n → n < 10 ^ 20) :
    framingOf (kept (withFraming r f).fields) = some (toSpec f) := by
  obtain ⟨_, _, _, hcl, hh⟩ := hr
  rw [framingOf_kept, named_fields _ sCL (Or.inl rfl), named_fields _ sTE (Or.inr rfl)]
  have cte : lowerAll strContentLength ≠ sTE := by rw [sTE_eq]; decide
  cases f with
  | none =>
    simp only [withFraming, hcl, List.isEmpty_nil, if_true, named_nil, List.nil_append,
      named_filter_ne sCL r.h _ (fun kv hkv => (hh kv hkv).1),
      named_filter_ne sTE r.h _ (fun kv hkv => (hh kv hkv).2), toSpec]
  | cl n =>
    have hn' := hn n rfl
    have hne : (decimal n).isEmpty = false := by simpa using (decimal_spec n hn').2.1
    have hf : ∀ kv ∈ r.h.filter (fun kv => kv.1 != strTransferEncoding), lowerAll kv.1 ≠ sCL ∧ lowerAll kv.1 ≠ sTE :=
      fun kv hkv => hh kv (List.mem_filter.mp hkv).1
    simp only [withFraming, hne, Bool.false_eq_true, if_false,
      named_filter_ne sCL _ _ (fun kv hkv => (hf kv hkv).1),
      named_filter_ne sTE _ _ (fun kv hkv => (hf kv hkv).2),
      named_single_eq sCL strContentLength _ (by decide +kernel) lowerAll_CL,
      named_single_ne sTE strContentLength _ cte, newlineToSpace_decimal n hn', List.append_nil,
      parseDec_decimal n hn', Option.map_some, toSpec]
  | chunked =>
    have hab : ∀ kv ∈ r.h, kv.1 ≠ strTransferEncoding := by
      intro kv hkv e
      exact (hh kv hkv).2 (by rw [e]; exact lowerAll_TE)
    have hd : (strTransferEncoding != strDate) = true := by decide
    have hte : lowerAll strTransferEncoding ≠ sCL := by rw [sCL_eq]; decide
    have hch : (lowerAll (newlineToSpace strChunked) == sChunked) = true := by rw [sChunked_eq]; decide +kernel
    simp only [withFraming, List.isEmpty_nil, if_true, named_nil, List.nil_append, setArgKV_absent _ _ _ hab,
      List.filter_append, named_append, named_filter_ne sCL r.h _ (fun kv hkv => (hh kv hkv).1),
      named_filter_ne sTE r.h _ (fun kv hkv => (hh kv hkv).2), List.filter_cons, List.filter_nil, hd,
      Bool.or_true, named_single_ne sCL strTransferEncoding _ hte,
      named_single_eq sTE strTransferEncoding _ (by decide +kernel) lowerAll_TE, hch, toSpec]

theorem withFraming_statusLine (r : RespHdr) (f : Framing) : (withFraming r f).statusLine = r.statusLine := by
  cases f <;> rfl

/-- head + anything: the reader gets the status, exactly the kept fields, the writer's framing, and
goes on to the body step with what follows the header block -/
theorem decode_message (r : RespHdr) (st : Nat) (f : Framing) (isHead : Bool) (tail : Bytes)
    (hr : HeadOK r st) (hn : ∀ n, f = .cl n → n < 10 ^ 20) :
    decodeOne isHead ((withFraming r f).bytes ++ tail) =
      bodyOf isHead st (kept (withFraming r f).fields) (toSpec f) tail := by
  obtain ⟨h1, h2, ⟨reason, hre, hsl⟩, _, _⟩ := id hr
  have hclean : ∀ x ∈ (withFraming r f).statusLine, x ≠ 13 ∧ x ≠ 10 := by
    rw [withFraming_statusLine, hsl]
    exact statusLineOf_clean st reason (by omega) hre
  have hp := parseHead_block (withFraming r f).statusLine (withFraming r f).fields tail hclean
  refine decodeOne_of isHead _ _ _ _ st (toSpec f) (by unfold RespHdr.bytes; exact hp) ?_
    (framingOf_withFraming r st f hr hn)
  rw [withFraming_statusLine, hsl]
  exact statusOf_statusLineOf st reason h1 h2

/-! ### the whole message -/

/-- bytes written through the hijacked writer, in order -/
def writtenBytes (script : List WOp) : Bytes :=
  (script.filterMap (fun o => match o with | .write b => some b | .flush => none)).flatten

/-- the body the handler produced, as the peer must see it -/
def payload (p : Prog) (isHead : Bool) : Bytes :=
  if isHead || noBodyStatus p.status then [] else
  match p.body with
  | .bytes b => b
  | .stream d reads => if d ≥ 0 then takeStream d.toNat reads else reads.flatten
  | .limited l reads => takeStream l reads
  | .writer s => writtenBytes s

/-- the one message a strict reader must see -/
def expected (r : RespHdr) (p : Prog) (isHead : Bool) : Msg :=
  { status := p.status,
    fields := kept (withFraming r (frame p isHead).framing).fields,
    framing := toSpec (frame p isHead).framing,
    raw := (frame p isHead).wire,
    body := payload p isHead,
    trailers := if isHead || noBodyStatus p.status then [] else
      match (frame p isHead).framing with
      | .chunked => kept p.trailers
      | _ => [] }

/-- lengths are Go `int`s -/
def SizesFit (p : Prog) : Prop :=
  match p.body with
  | .bytes b => b.length < 2 ^ 63
  | .stream d reads => d < 2 ^ 63 ∧ ∀ r ∈ reads, r.length < 2 ^ 63
  | .limited l reads => l < 2 ^ 63 ∧ ∀ r ∈ reads, r.length < 2 ^ 63
  | .writer s => ∀ o ∈ s, ∀ b, o = .write b → b.length < 2 ^ 63

/-- the documented exclusion: the hijacked writer is only used on a response that may have a body -/
def WriterHasBody (p : Prog) (isHead : Bool) : Prop :=
  ∀ s, p.body = .writer s → isHead = false ∧ noBodyStatus p.status = false

theorem two63_lt16 : (2 : Nat) ^ 63 < 16 ^ 16 := by decide

theorem frame_cl_bound (p : Prog) (isHead : Bool) (hs : SizesFit p) (n : Nat)
    (hf : (frame p isHead).framing = .cl n) : n < 10 ^ 20 := by
  have := two63_lt
  obtain ⟨st, body, tr⟩ := p
  unfold frame at hf
  cases body with
  | bytes b =>
    simp only [SizesFit] at hs
    simp only at hf
    split at hf
    · simp only [Framing.cl.injEq] at hf; omega
    · simp at hf
  | stream d reads =>
    simp only [SizesFit] at hs
    simp only at hf
    split at hf
    · simp at hf
    · split at hf
      · simp only [Framing.cl.injEq] at hf; omega
      · simp at hf
  | limited l reads =>
    simp only [SizesFit] at hs
    simp only at hf
    split at hf
    · simp at hf
    · simp only [Framing.cl.injEq] at hf; omega
  | writer s =>
    simp only at hf
    split at hf <;> simp at hf

theorem frame_wire_bodiless (p : Prog) (isHead : Bool) (hw : WriterHasBody p isHead)
    (hb : (isHead || noBodyStatus p.status) = true) : (frame p isHead).wire = [] := by
  unfold frame
  rw [mustSkipCL_eq]
  have hs : (!(isHead || noBodyStatus p.status)) = false := by simp [hb]
  cases hbody : p.body with
  | bytes b => simp [hs]
  | stream d reads => simp only; split <;> (try split) <;> simp [hs]
  | limited l reads => simp only; split <;> simp [hs]
  | writer s =>
    have := hw s hbody
    simp [this.1, this.2] at hb

/-- (d) HEAD, 1xx, 204, 304: header block only -/
theorem message_bodiless (r : RespHdr) (p : Prog) (isHead : Bool) (rest : Bytes)
    (hr : HeadOK r p.status) (hs : SizesFit p) (hw : WriterHasBody p isHead)
    (hb : (isHead || noBodyStatus p.status) = true) :
    decodeOne isHead (message r p isHead ++ rest) = some (expected r p isHead, rest) := by
  have hwire := frame_wire_bodiless p isHead hw hb
  unfold message expected payload
  rw [List.append_assoc, decode_message r p.status _ isHead _ hr (frame_cl_bound p isHead hs)]
  rw [bodyOf_bodiless _ _ _ _ _ hb]
  simp only [hwire, hb, if_true, List.nil_append]

theorem writeChunk_length_pos (c : Bytes) : 0 < (writeChunk c).length := by
  have := hexDigits_ne_nil 16 c.length (by decide)
  have : 0 < (writeHexInt c.length).length := List.length_pos_iff.mpr this
  simp only [writeChunk, List.length_append]
  omega

theorem encodeChunks_length : ∀ cs : List Bytes, cs.length ≤ (encodeChunks cs).length
  | [] => by simp
  | c :: cs => by
    have := encodeChunks_length cs
    have := writeChunk_length_pos c
    simp only [encodeChunks, List.flatMap_cons, List.length_append, List.length_cons] at *
    omega

/-- `chunks_encode` with the fuel `decodeOne` uses -/
theorem chunks_encode_len (cs : List Bytes) (tr : List (Bytes × Bytes)) (rest : Bytes)
    (h : ∀ c ∈ cs, c ≠ [] ∧ c.length < 16 ^ 16) :
    chunks ((encodeChunks cs ++ writeChunk [] ++ trailerBlock tr ++ rest).length + 1)
      (encodeChunks cs ++ writeChunk [] ++ trailerBlock tr ++ rest) [] = some (cs.flatten, kept tr, rest) := by
  have := chunks_encode cs tr rest [] ((encodeChunks cs ++ writeChunk [] ++ trailerBlock tr ++ rest).length + 1) h
    (by have := encodeChunks_length cs; simp only [List.length_append]; omega)
  simpa using this

theorem flatten_filter_nonempty' (l : List Bytes) : (l.filter (fun r => !r.isEmpty)).flatten = l.flatten := by
  induction l with
  | nil => rfl
  | cons a t ih =>
    cases a with
    | nil => simpa using ih
    | cons x xs => simp [ih]

theorem chunkedWire_decodes (reads : List Bytes) (tr : List (Bytes × Bytes)) (rest : Bytes)
    (h : ∀ r ∈ reads, r.length < 2 ^ 63) :
    chunks ((chunkedWire reads tr ++ rest).length + 1) (chunkedWire reads tr ++ rest) [] =
      some (reads.flatten, kept tr, rest) := by
  have := chunks_encode_len (reads.filter (fun r => !r.isEmpty)) tr rest (by
    intro c hc
    simp only [List.mem_filter] at hc
    exact ⟨by intro e; simp [e] at hc, Nat.lt_trans (h c hc.1) two63_lt16⟩)
  rw [flatten_filter_nonempty'] at this
  exact this

/-- the chunks the hijacked writer emits: one per non-empty write -/
def wchunks' (script : List WOp) : List Bytes :=
  script.filterMap (fun o => match o with | .write b => if b.isEmpty then none else some b | .flush => none)

theorem wchunks_flatten (script : List WOp) : (wchunks' script).flatten = writtenBytes script := by
  induction script with
  | nil => rfl
  | cons o t ih =>
    cases o with
    | flush => simpa [wchunks', writtenBytes] using ih
    | write b =>
      cases b with
      | nil => simpa [wchunks', writtenBytes] using ih
      | cons x xs => simp [wchunks', writtenBytes] at ih ⊢; rw [ih]

theorem writerWire_decodes (script : List WOp) (tr : List (Bytes × Bytes)) (rest : Bytes)
    (h : ∀ o ∈ script, ∀ b, o = .write b → b.length < 2 ^ 63) :
    chunks ((writerWire script tr ++ rest).length + 1) (writerWire script tr ++ rest) [] =
      some (writtenBytes script, kept tr, rest) := by
  have hw : writerWire script tr = encodeChunks (wchunks' script) ++ writeChunk [] ++ trailerBlock tr := rfl
  rw [hw]
  have := chunks_encode_len (wchunks' script) tr rest (by
    intro c hc
    simp only [wchunks', List.mem_filterMap] at hc
    obtain ⟨o, ho, hoc⟩ := hc
    cases o with
    | flush => simp at hoc
    | write b =>
      have hoc' : (if b.isEmpty then none else some b) = some c := hoc
      by_cases hb : b.isEmpty = true
      · rw [if_pos hb] at hoc'; exact absurd hoc' (by simp)
      · rw [if_neg hb] at hoc'
        have e : b = c := by simpa using hoc'
        subst e
        exact ⟨by intro e; apply hb; simp [e], Nat.lt_trans (h _ ho b rfl) two63_lt16⟩)
  rw [wchunks_flatten] at this
  exact this

/-- (b), (c): a response that carries a body (not HEAD, not 1xx/204/304) -/
theorem message_with_body_core (r : RespHdr) (p : Prog) (rest : Bytes)
    (hdm : ∀ tail, decodeOne false ((withFraming r (frame p false).framing).bytes ++ tail) =
      bodyOf false p.status (kept (withFraming r (frame p false).framing).fields) (toSpec (frame p false).framing) tail)
    (hs : SizesFit p) (hok : (frame p false).failed = false)
    (hb : noBodyStatus p.status = false) :
    decodeOne false (message r p false ++ rest) = some (expected r p false, rest) := by
  have hb' : (false || noBodyStatus p.status) = false := by simp [hb]
  unfold message
  rw [List.append_assoc, hdm]
  obtain ⟨st, body, tr⟩ := p
  have hsk : mustSkipCL st = false := by rw [mustSkipCL_eq]; exact hb
  cases body with
  | bytes b =>
    have hf : frame ⟨st, .bytes b, tr⟩ false = { framing := .cl b.length, wire := b } := by
      simp [frame, hsk]
    simp only [expected, payload, hf, hb', toSpec, Bool.false_eq_true, if_false]
    exact bodyOf_cl _ _ _ _ _ _ hb' rfl
  | stream d reads =>
    by_cases hd : d ≥ 0
    · have hf : frame ⟨st, .stream d reads, tr⟩ false =
          { framing := .cl d.toNat, wire := takeStream d.toNat reads,
            failed := (takeStream d.toNat reads).length != d.toNat } := by
        simp [frame, hsk, hd]
      rw [hf] at hok
      simp only [expected, payload, hf, hb', toSpec, Bool.false_eq_true, if_false, hd, if_true]
      exact bodyOf_cl _ _ _ _ _ _ hb' (by simpa using hok)
    · have hf : frame ⟨st, .stream d reads, tr⟩ false =
          { framing := .chunked, wire := chunkedWire reads tr } := by
        simp [frame, hsk, hd]
      simp only [expected, payload, hf, hb', toSpec, Bool.false_eq_true, if_false, hd]
      exact bodyOf_chunked _ _ _ _ _ _ _ hb' (chunkedWire_decodes reads tr rest hs.2)
  | limited l reads =>
    have hf : frame ⟨st, .limited l reads, tr⟩ false =
        { framing := .cl l, wire := takeStream l reads, failed := (takeStream l reads).length != l } := by
      simp [frame, hsk]
    rw [hf] at hok
    simp only [expected, payload, hf, hb', toSpec, Bool.false_eq_true, if_false]
    exact bodyOf_cl _ _ _ _ _ _ hb' (by simpa using hok)
  | writer s =>
    have hf : frame ⟨st, .writer s, tr⟩ false = { framing := .chunked, wire := writerWire s tr } := by
      simp [frame, hsk]
    simp only [expected, payload, hf, hb', toSpec, Bool.false_eq_true, if_false]
    exact bodyOf_chunked _ _ _ _ _ _ _ hb' (writerWire_decodes s tr rest hs)

theorem message_with_body (r : RespHdr) (p : Prog) (rest : Bytes)
    (hr : HeadOK r p.status) (hs : SizesFit p) (hok : (frame p false).failed = false)
    (hb : noBodyStatus p.status = false) :
    decodeOne false (message r p false ++ rest) = some (expected r p false, rest) :=
  message_with_body_core r p rest
    (fun tail => decode_message r p.status (frame p false).framing false tail hr (frame_cl_bound p false hs)) hs hok hb

/-- (e) every response: exactly one message, correctly framed, nothing left over, nothing swallowed -/
theorem message_decodes (r : RespHdr) (p : Prog) (isHead : Bool) (rest : Bytes)
    (hr : HeadOK r p.status) (hs : SizesFit p) (hw : WriterHasBody p isHead)
    (hok : (frame p isHead).failed = false) :
    decodeOne isHead (message r p isHead ++ rest) = some (expected r p isHead, rest) := by
  by_cases hb : (isHead || noBodyStatus p.status) = true
  · exact message_bodiless r p isHead rest hr hs hw hb
  · have hb' : isHead = false ∧ noBodyStatus p.status = false := by
      simpa using hb
    obtain ⟨h1, h2⟩ := hb'
    subst h1
    exact message_with_body r p rest hr hs hok h2

/-! ### any header state the setters can produce

`HeadOK` describes the header before anything touched its framing fields.  A handler can get further:
`SetBodyStream(r, n)` already calls `SetContentLength`, `Header.Set("Content-Length", "5")` stores the
value (if it parses), and a later change of status can turn the writer's own call into a no-op.
`Declares r d` says what such a state announces by itself; the writer overrides it when it sets a
framing and leaves it alone when it does not (HEAD, 1xx, 204, 304 without a call). -/

def NoName (name : Bytes) (h : List (Bytes × Bytes)) : Prop := ∀ kv ∈ h, lowerAll kv.1 ≠ name

inductive Declares (r : RespHdr) : Spec.Resp.Framing → Prop
  | none : r.clBytes = [] → NoName sTE r.h → Declares r .none
  | cl : r.clBytes ≠ [] → r.clBytes.all isDig = true → NoName sTE r.h →
      Declares r (.cl (r.clBytes.foldl decStep 0))
  | chunked (a b : List (Bytes × Bytes)) : r.clBytes = [] → r.h = a ++ (strTransferEncoding, strChunked) :: b →
      NoName sTE a → NoName sTE b → Declares r .chunked

def HeadInv (r : RespHdr) (status : Nat) (d : Spec.Resp.Framing) : Prop :=
  100 ≤ status ∧ status < 1000 ∧ (∃ reason, NoCRLF reason ∧ r.statusLine = statusLineOf status reason) ∧
  NoName sCL r.h ∧ Declares r d

theorem HeadOK.inv {r : RespHdr} {st : Nat} (h : HeadOK r st) : HeadInv r st .none :=
  ⟨h.1, h.2.1, h.2.2.1, fun kv hkv => (h.2.2.2.2 kv hkv).1, .none h.2.2.2.1 (fun kv hkv => (h.2.2.2.2 kv hkv).2)⟩

theorem effFraming_of_ne_none (d : Spec.Resp.Framing) (f : Framing) (h : f ≠ .none) : effFraming d f = toSpec f := by
  cases f <;> simp_all [effFraming, toSpec]

theorem framingOf_declared (r : RespHdr) (d : Spec.Resp.Framing) (hcl : NoName sCL r.h) (hd : Declares r d) :
    framingOf (kept r.fields) = some d := by
  rw [framingOf_kept, named_fields _ sCL (Or.inl rfl), named_fields _ sTE (Or.inr rfl)]
  have cte : lowerAll strContentLength ≠ sTE := by rw [sTE_eq]; decide
  cases hd with
  | none h0 hte =>
    simp only [h0, List.isEmpty_nil, if_true, named_nil, List.nil_append,
      named_filter_ne sCL r.h _ hcl, named_filter_ne sTE r.h _ hte]
  | cl hne hall hte =>
    have he : r.clBytes.isEmpty = false := by simpa using hne
    have hp : parseDec r.clBytes = some (r.clBytes.foldl decStep 0) := by
      rw [parseDec_eq]; simp [he, hall]
    simp only [he, Bool.false_eq_true, if_false, named_filter_ne sCL r.h _ hcl, named_filter_ne sTE r.h _ hte,
      named_single_eq sCL strContentLength _ (by decide +kernel) lowerAll_CL,
      named_single_ne sTE strContentLength _ cte, newlineToSpace_digits _ hall, List.append_nil, hp, Option.map_some]
  | chunked a b h0 hh ha hb =>
    have hcla : NoName sCL a := fun kv hkv => hcl kv (by rw [hh]; simp [hkv])
    have hclb : NoName sCL b := fun kv hkv => hcl kv (by rw [hh]; simp [hkv])
    have hd : (strTransferEncoding != strDate) = true := by decide
    have hte : lowerAll strTransferEncoding ≠ sCL := by rw [sCL_eq]; decide
    have hch : (lowerAll (newlineToSpace strChunked) == sChunked) = true := by rw [sChunked_eq]; decide +kernel
    have e : a ++ (strTransferEncoding, strChunked) :: b = a ++ ([(strTransferEncoding, strChunked)] ++ b) := rfl
    rw [hh, e]
    simp only [h0, List.isEmpty_nil, if_true, named_nil, List.nil_append,
      List.filter_append, named_append, named_filter_ne sCL a _ hcla, named_filter_ne sCL b _ hclb,
      named_filter_ne sTE a _ ha, named_filter_ne sTE b _ hb, List.filter_cons, List.filter_nil, hd,
      Bool.or_true, if_true, named_single_ne sCL strTransferEncoding _ hte,
      named_single_eq sTE strTransferEncoding _ (by decide +kernel) lowerAll_TE, List.append_nil, hch]

theorem mem_setArgKV : ∀ (h : List (Bytes × Bytes)) (k v : Bytes) (kv : Bytes × Bytes),
    kv ∈ setArgKV h k v → kv ∈ h ∨ kv = (k, v)
  | [], k, v, kv, hm => by simp [setArgKV] at hm; exact Or.inr hm
  | (k', v') :: t, k, v, kv, hm => by
    simp only [setArgKV] at hm
    split at hm
    · simp only [List.mem_cons] at hm ⊢
      rcases hm with hm | hm
      · exact Or.inr hm
      · exact Or.inl (Or.inr hm)
    · simp only [List.mem_cons] at hm ⊢
      rcases hm with hm | hm
      · exact Or.inl (Or.inl hm)
      · rcases mem_setArgKV t k v kv hm with h1 | h1
        · exact Or.inl (Or.inr h1)
        · exact Or.inr h1

theorem setArgKV_present : ∀ (a b : List (Bytes × Bytes)) (k v0 v : Bytes), (∀ kv ∈ a, kv.1 ≠ k) →
    setArgKV (a ++ (k, v0) :: b) k v = a ++ (k, v) :: b
  | [], b, k, v0, v, _ => by simp [setArgKV]
  | (k', v') :: t, b, k, v0, v, hh => by
    have h1 : k' ≠ k := hh (k', v') (by simp)
    simp only [List.cons_append, setArgKV, h1, if_false]
    rw [setArgKV_present t b k v0 v (fun kv hkv => hh kv (by simp [hkv]))]

theorem noName_TE_key {h : List (Bytes × Bytes)} (hh : NoName sTE h) : ∀ kv ∈ h, kv.1 ≠ strTransferEncoding := by
  intro kv hkv e
  exact hh kv hkv (by rw [e]; exact lowerAll_TE)

/-- `SetContentLength` keeps the invariant and makes the header declare the writer's framing -/
theorem declares_withFraming (r : RespHdr) (d : Spec.Resp.Framing) (f : Framing) (hcl : NoName sCL r.h)
    (hd : Declares r d) (hn : ∀ n, f = .cl n → n < 10 ^ 20) :
    NoName sCL (withFraming r f).h ∧ Declares (withFraming r f) (effFraming d f) := by
  have hteCL : lowerAll strTransferEncoding ≠ sCL := by rw [sCL_eq]; decide
  cases f with
  | none => exact ⟨hcl, hd⟩
  | cl n =>
    obtain ⟨_, hne, hall, hval⟩ := decimal_spec n (hn n rfl)
    refine ⟨fun kv hkv => hcl kv (List.mem_filter.mp hkv).1, ?_⟩
    have hte : NoName sTE (r.h.filter (fun kv => kv.1 != strTransferEncoding)) := by
      intro kv hkv
      obtain ⟨hm, hk⟩ := List.mem_filter.mp hkv
      cases hd with
      | none _ h1 => exact h1 kv hm
      | cl _ _ h1 => exact h1 kv hm
      | chunked a b _ hh ha hb =>
        rw [hh] at hm
        simp only [List.mem_append, List.mem_cons] at hm
        rcases hm with hm | hm | hm
        · exact ha kv hm
        · subst hm; simp at hk
        · exact hb kv hm
    have := Declares.cl (r := withFraming r (.cl n)) hne hall hte
    simp only [withFraming] at this ⊢
    rw [hval] at this
    exact this
  | chunked =>
    have key : ∃ a b, setArgKV r.h strTransferEncoding strChunked = a ++ (strTransferEncoding, strChunked) :: b ∧
        NoName sTE a ∧ NoName sTE b := by
      cases hd with
      | none _ h1 => exact ⟨r.h, [], by rw [setArgKV_absent _ _ _ (noName_TE_key h1)], h1, fun _ h => by cases h⟩
      | cl _ _ h1 => exact ⟨r.h, [], by rw [setArgKV_absent _ _ _ (noName_TE_key h1)], h1, fun _ h => by cases h⟩
      | chunked a b _ hh ha hb => exact ⟨a, b, by rw [hh, setArgKV_present _ _ _ _ _ (noName_TE_key ha)], ha, hb⟩
    obtain ⟨a, b, hab, ha, hb⟩ := key
    refine ⟨?_, Declares.chunked a b rfl hab ha hb⟩
    intro kv hkv
    rcases mem_setArgKV _ _ _ _ hkv with h1 | h1
    · exact hcl kv h1
    · subst h1; exact hteCL

theorem decode_message_inv (r : RespHdr) (st : Nat) (d : Spec.Resp.Framing) (f : Framing) (isHead : Bool)
    (tail : Bytes) (hr : HeadInv r st d) (hn : ∀ n, f = .cl n → n < 10 ^ 20) :
    decodeOne isHead ((withFraming r f).bytes ++ tail) =
      bodyOf isHead st (kept (withFraming r f).fields) (effFraming d f) tail := by
  obtain ⟨h1, h2, ⟨reason, hre, hsl⟩, hcl, hd⟩ := hr
  have hclean : ∀ x ∈ (withFraming r f).statusLine, x ≠ 13 ∧ x ≠ 10 := by
    rw [withFraming_statusLine, hsl]
    exact statusLineOf_clean st reason (by omega) hre
  have hp := parseHead_block (withFraming r f).statusLine (withFraming r f).fields tail hclean
  obtain ⟨hcl', hd'⟩ := declares_withFraming r d f hcl hd hn
  refine decodeOne_of isHead _ _ _ _ st (effFraming d f) (by unfold RespHdr.bytes; exact hp) ?_
    (framingOf_declared _ _ hcl' hd')
  rw [withFraming_statusLine, hsl]
  exact statusOf_statusLineOf st reason h1 h2

theorem frame_framing_ne_none (p : Prog) (hb : noBodyStatus p.status = false) : (frame p false).framing ≠ .none := by
  obtain ⟨st, body, tr⟩ := p
  have hsk : mustSkipCL st = false := by rw [mustSkipCL_eq]; exact hb
  cases body with
  | bytes b => simp [frame, hsk]
  | stream d reads => by_cases hd : d ≥ 0 <;> simp [frame, hsk, hd]
  | limited l reads => simp [frame, hsk]
  | writer s => simp [frame, hsk]

/-- the one message a strict reader must see, for a header state that declares `d` by itself -/
def expectedInv (d : Spec.Resp.Framing) (r : RespHdr) (p : Prog) (isHead : Bool) : Msg :=
  { expected r p isHead with framing := effFraming d (frame p isHead).framing }

/-- (e), for every header state the setters can produce -/
theorem message_decodes_inv (r : RespHdr) (d : Spec.Resp.Framing) (p : Prog) (isHead : Bool) (rest : Bytes)
    (hr : HeadInv r p.status d) (hs : SizesFit p) (hw : WriterHasBody p isHead)
    (hok : (frame p isHead).failed = false) :
    decodeOne isHead (message r p isHead ++ rest) = some (expectedInv d r p isHead, rest) := by
  by_cases hb : (isHead || noBodyStatus p.status) = true
  · have hwire := frame_wire_bodiless p isHead hw hb
    unfold message expectedInv expected payload
    rw [List.append_assoc, decode_message_inv r p.status d _ isHead _ hr (frame_cl_bound p isHead hs)]
    rw [bodyOf_bodiless _ _ _ _ _ hb]
    simp only [hwire, hb, if_true, List.nil_append]
  · have hb' : isHead = false ∧ noBodyStatus p.status = false := by simpa using hb
    obtain ⟨h1, h2⟩ := hb'
    subst h1
    have hne := frame_framing_ne_none p h2
    have := message_with_body_core r p rest (fun tail => by
      rw [decode_message_inv r p.status d _ false tail hr (frame_cl_bound p false hs),
        effFraming_of_ne_none d _ hne]) hs hok h2
    rw [this]
    simp only [expectedInv, effFraming_of_ne_none d _ hne]
    rfl

theorem decodeOne_none_of_framing (isHead : Bool) (s start rest : Bytes) (fs : List (Bytes × Bytes)) (st : Nat)
    (h1 : parseHead s = some (start, fs, rest)) (h2 : statusOf start = some st)
    (h3 : framingOf fs = none) : decodeOne isHead s = none := by
  unfold framingOf at h3
  unfold decodeOne
  simp only [h1, h2, Option.bind_eq_bind, Option.bind_some, Option.pure_def]
  generalize (fs.filter (fun kv => lowerAll kv.1 == sCL)).map (·.2) = cls at h3 ⊢
  generalize (fs.filter (fun kv => lowerAll kv.1 == sTE)).map (·.2) = tes at h3 ⊢
  rcases cls with _ | ⟨c, _ | ⟨c2, cs⟩⟩ <;> rcases tes with _ | ⟨t, _ | ⟨t2, ts⟩⟩ <;>
    simp only [reduceCtorEq] at h3 <;> try rfl
  · split at h3
    · simp at h3
    · simp [*]
  · cases hp : parseDec c with
    | none => simp [hp]
    | some n => simp [hp] at h3

/-! ### where the statement stops -/

theorem decodeOne_none_of_status (isHead : Bool) (s start rest : Bytes) (fs : List (Bytes × Bytes))
    (h1 : parseHead s = some (start, fs, rest)) (h2 : statusOf start = none) : decodeOne isHead s = none := by
  unfold decodeOne
  simp only [h1, h2, Option.bind_eq_bind, Option.bind_some, Option.bind_none]

/-- the bytes a bodiless response leaves behind are exactly the body bytes the writer sent anyway -/
theorem message_bodiless_leftover (r : RespHdr) (p : Prog) (isHead : Bool) (rest : Bytes)
    (hr : HeadOK r p.status) (hs : SizesFit p) (hb : (isHead || noBodyStatus p.status) = true) :
    decodeOne isHead (message r p isHead ++ rest) =
      some ({ status := p.status, fields := kept (withFraming r (frame p isHead).framing).fields,
              framing := toSpec (frame p isHead).framing, raw := [], body := [], trailers := [] },
            (frame p isHead).wire ++ rest) := by
  unfold message
  rw [List.append_assoc, decode_message r p.status _ isHead _ hr (frame_cl_bound p isHead hs)]
  exact bodyOf_bodiless _ _ _ _ _ hb

/-! ### the repaired `Content-Length` setter (`setSpecialHeader`, /repo db53447) -/

theorem foldl_decStep_eq_decAcc : ∀ (t : Bytes) (acc : Nat), t.all isDig = true →
    t.foldl decStep acc = FS.Spec.decAcc t acc
  | [], _, _ => rfl
  | c :: t, acc, h => by
    simp only [List.all_cons, Bool.and_eq_true] at h
    have hv := (FS.digit_val (c := c) h.1).1
    simp only [List.foldl, FS.Spec.decAcc, decStep, hv]
    rw [foldl_decStep_eq_decAcc t _ h.2, Nat.mul_comm]

/-- what `protocol.ParseContentLength` accepting a value means for the strict reader -/
theorem parseUint_digits {v : Bytes} {n : Int} (h : FS.parseUint v = .ok n) :
    v ≠ [] ∧ v.all isDig = true ∧ ((v.foldl decStep 0 : Nat) : Int) = n ∧ v.foldl decStep 0 < 2 ^ 63 := by
  obtain ⟨hd, hfit, hn⟩ := FS.parseUint_ok h
  unfold FS.Spec.isDigits at hd
  simp only [Bool.and_eq_true, Bool.not_eq_true', List.isEmpty_eq_false_iff] at hd
  have hall : v.all isDig = true := hd.2
  have he := foldl_decStep_eq_decAcc v 0 hall
  refine ⟨hd.1, hall, ?_, ?_⟩
  · rw [he, hn]; rfl
  · rw [he]; unfold FS.Spec.decVal at hfit; omega

/-- the accepting branch of `setLengthHeader` -/
def setLenOk (r : RespHdr) (v : Bytes) (n : Int) : RespHdr :=
  { r with contentLength := n, clBytes := v, h := r.h.filter (fun kv => kv.1 != strTransferEncoding) }

theorem declares_setLengthHeader (r : RespHdr) (d : Spec.Resp.Framing) (v : Bytes) (n : Int)
    (hcl : NoName sCL r.h) (hd : Declares r d) (hp : FS.parseUint v = .ok n) :
    NoName sCL (setLengthHeader r v).h ∧ Declares (setLengthHeader r v) (.cl n.toNat) := by
  obtain ⟨hne, hall, hval, _⟩ := parseUint_digits hp
  have hte : NoName sTE (r.h.filter (fun kv => kv.1 != strTransferEncoding)) := by
    intro kv hkv
    obtain ⟨hm, hk⟩ := List.mem_filter.mp hkv
    cases hd with
    | none _ h1 => exact h1 kv hm
    | cl _ _ h1 => exact h1 kv hm
    | chunked a b _ hh ha hb =>
      rw [hh] at hm
      simp only [List.mem_append, List.mem_cons] at hm
      rcases hm with hm | hm | hm
      · exact ha kv hm
      · subst hm; simp at hk
      · exact hb kv hm
  have e : setLengthHeader r v = setLenOk r v n := by
    simp only [setLengthHeader, hp, setLenOk]
  rw [e]
  refine ⟨fun kv hkv => hcl kv (List.mem_filter.mp hkv).1, ?_⟩
  have hn : n.toNat = v.foldl decStep 0 := by omega
  rw [hn]
  exact Declares.cl (r := setLenOk r v n) hne hall hte

theorem setLengthHeader_statusLine (r : RespHdr) (v : Bytes) : (setLengthHeader r v).statusLine = r.statusLine := by
  unfold setLengthHeader; split <;> rfl

theorem setLengthHeader_error (r : RespHdr) (v : Bytes) (e : FS.UErr) (h : FS.parseUint v = .error e) :
    setLengthHeader r v = r := by
  simp only [setLengthHeader, h]

end Hertz.H1.Resp
