import Hertz.Model.GroupPath
/-!
C06 (X06 part 2): registrations through nested `RouterGroup`s are registrations of the flat list of
their absolute patterns; `joinPaths` / `groupBase` / `absPattern` never fault (`lastChar` is only
applied to non-empty strings); one `joinPaths` call is `path.Clean` of `abs + "/" + rel` plus the
trailing-slash rule.
-/
namespace Hertz.Route.GroupPath
open Hertz.Route

theorem pathClean_ne_nil (p : Bytes) : pathClean p ≠ [] := by
  unfold pathClean
  cases p with
  | nil => simp
  | cons c r =>
    simp only
    generalize (List.foldl (cleanStep (c == 47)) (if (c == 47) = true then ({ rout := [47], dd := 1 } : CS) else { rout := [], dd := 0 })
      (elems (c :: r))) = st
    cases hr : st.rout with
    | nil => simp
    | cons a b => simp

theorem lastChar_ok (s : Bytes) (h : s ≠ []) : ∃ c, lastChar s = .ok c ∧ s.getLast? = some c := by
  unfold lastChar
  cases hl : s.getLast? with
  | none => simp at hl; exact absurd hl h
  | some c => exact ⟨c, rfl, rfl⟩

/-- `path.Join(abs, rel)` for a non-empty `abs` and `rel` -/
theorem pathJoin2_ne (abs rel : Bytes) (ha : abs ≠ []) :
    pathJoin2 abs rel = pathClean (abs ++ 47 :: rel) := by
  unfold pathJoin2
  have hl : ¬ (abs.length + rel.length = 0) := by
    cases abs with
    | nil => exact absurd rfl ha
    | cons a r => simp
  have hl2 : abs.length > 0 := by
    cases abs with
    | nil => exact absurd rfl ha
    | cons a r => simp
  simp [hl, ha, hl2]

/-- **one `joinPaths` call**: the base unchanged for an empty relative path, else `path.Clean(abs + "/" + rel)`
with one `/` appended iff `rel` ends in `/` and the cleaned path does not; never a fault. -/
theorem joinPaths_spec (abs rel : Bytes) (ha : abs ≠ []) :
    joinPaths abs rel = .ok (if rel = [] then abs else
      if rel.getLast? = some 47 ∧ (pathClean (abs ++ 47 :: rel)).getLast? ≠ some 47
      then pathClean (abs ++ 47 :: rel) ++ [47] else pathClean (abs ++ 47 :: rel)) := by
  unfold joinPaths
  by_cases hr : rel = []
  · simp [hr]
  · simp only [hr, if_false]
    rw [pathJoin2_ne abs rel ha]
    obtain ⟨a, ha1, ha2⟩ := lastChar_ok rel hr
    obtain ⟨b, hb1, hb2⟩ := lastChar_ok _ (pathClean_ne_nil (abs ++ 47 :: rel))
    rw [ha1, hb1, ha2, hb2]
    simp only [Option.some.injEq]
    by_cases h1 : a = 47 <;> by_cases h2 : b = 47 <;> simp [h1, h2]

theorem joinPaths_ne_nil (abs rel p : Bytes) (ha : abs ≠ []) (h : joinPaths abs rel = .ok p) : p ≠ [] := by
  rw [joinPaths_spec abs rel ha] at h
  injection h with h
  subst h
  by_cases hr : rel = []
  · simp [hr, ha]
  · simp only [hr, if_false]
    split
    · simp
    · exact pathClean_ne_nil _

theorem groupBase_ok : ∀ (pre : List Bytes) (base : Bytes), base ≠ [] → ∃ b, groupBase base pre = .ok b ∧ b ≠ []
  | [], base, hb => ⟨base, rfl, hb⟩
  | p :: r, base, hb => by
    have h := joinPaths_spec base p hb
    simp only [groupBase, h]
    exact groupBase_ok r _ (joinPaths_ne_nil base p _ hb h)

/-- `RouterGroup.handle` never panics while computing the absolute path (`lastChar` never sees "") -/
theorem absPattern_ok (pre : List Bytes) (rel : Bytes) : ∃ p, absPattern pre rel = .ok p ∧ p ≠ [] := by
  obtain ⟨b, hb, hne⟩ := groupBase_ok pre [47] (by simp)
  have h := joinPaths_spec b rel hne
  exact ⟨_, by simp only [absPattern, hb, h], joinPaths_ne_nil b rel _ hne h⟩

/-- the flat list always exists -/
theorem flatten_some : ∀ rs, ∃ l, flatten rs = some l
  | [] => ⟨[], rfl⟩
  | (pre, m, rel, h) :: r => by
    obtain ⟨p, hp, _⟩ := absPattern_ok pre rel
    obtain ⟨l, hl⟩ := flatten_some r
    exact ⟨(m, p, h) :: l, by simp [flatten, hp, hl]⟩

/-- registering through groups = registering the flat list of absolute patterns -/
theorem addGroupRoutes_flat : ∀ (rs : List (List Bytes × Bytes × Bytes × Nat)) (e : Engine) (l : List (Bytes × Bytes × Nat)),
    flatten rs = some l → addGroupRoutes e rs = Engine.addRoutes e l
  | [], e, l, h => by simp [flatten] at h; subst h; rfl
  | (pre, m, rel, hh) :: r, e, l, h => by
    obtain ⟨p, hp, _⟩ := absPattern_ok pre rel
    obtain ⟨l', hl'⟩ := flatten_some r
    simp only [flatten, hp, hl'] at h
    injection h with h
    subst h
    simp only [addGroupRoutes, hp, Engine.addRoutes]
    cases ha : e.addRoute m p hh with
    | error f => rfl
    | ok e' => exact addGroupRoutes_flat r e' l' hl'

theorem popGo_last : ∀ (r : Bytes) (dd : Nat) (last : UInt8), r ≠ [] → 1 ≤ dd →
    popGo r dd last ≠ [] ∧ (popGo r dd last).getLast? = r.getLast?
  | [], _, _, h, _ => absurd rfl h
  | c :: r', dd, last, _, hdd => by
    simp only [popGo]
    by_cases hc : ((c :: r').length > dd && last != 47) = true
    · rw [if_pos hc]
      simp only [Bool.and_eq_true, decide_eq_true_eq] at hc
      have hne : r' ≠ [] := by
        intro h; subst h; simp at hc; omega
      obtain ⟨h1, h2⟩ := popGo_last r' dd c hne hdd
      refine ⟨h1, ?_⟩
      rw [h2]
      cases r' with
      | nil => exact absurd rfl hne
      | cons a b => simp [List.getLast?_cons_cons]
    · rw [if_neg hc]
      exact ⟨by simp, rfl⟩

/-- invariant of the `path.Clean` loop on a rooted path: `out` starts with `/`, `dotdot = 1` -/
def Rooted (st : CS) : Prop := st.dd = 1 ∧ st.rout.getLast? = some 47

theorem getLast_append_ne (a b : Bytes) (hb : b ≠ []) : (a ++ b).getLast? = b.getLast? := by
  induction a with
  | nil => rfl
  | cons x a ih =>
    have : a ++ b ≠ [] := by simp [hb]
    cases hab : a ++ b with
    | nil => exact absurd hab this
    | cons y z => rw [List.cons_append, hab, List.getLast?_cons_cons, ← hab, ih]

theorem cleanStep_rooted (st : CS) (e : Bytes) (h : Rooted st) : Rooted (cleanStep true st e) := by
  obtain ⟨hdd, hl⟩ := h
  have hne : st.rout ≠ [] := by intro h0; rw [h0] at hl; simp at hl
  unfold cleanStep
  by_cases h1 : e = [46]
  · rw [if_pos h1]; exact ⟨hdd, hl⟩
  · rw [if_neg h1]
    by_cases h2 : e = [46, 46]
    · rw [if_pos h2]
      by_cases h3 : st.rout.length > st.dd
      · rw [if_pos h3]
        refine ⟨hdd, ?_⟩
        cases hr : st.rout with
        | nil => exact absurd hr hne
        | cons c r =>
          have hr' : r ≠ [] := by
            intro h0; rw [hr, h0, hdd] at h3; simp at h3
          simp only [pop]
          rw [(popGo_last r st.dd c hr' (by omega)).2]
          rw [hr] at hl
          cases r with
          | nil => exact absurd rfl hr'
          | cons a b => simpa [List.getLast?_cons_cons] using hl
      · rw [if_neg h3]
        simp
        exact ⟨hdd, hl⟩
    · rw [if_neg h2]
      refine ⟨hdd, ?_⟩
      simp only
      split
      · rw [getLast_append_ne _ _ (by simp)]
        exact (getLast_append_ne [47] st.rout hne).trans hl
      · rw [getLast_append_ne _ _ hne]; exact hl

theorem foldl_rooted : ∀ (es : List Bytes) (st : CS), Rooted st → Rooted (es.foldl (cleanStep true) st)
  | [], st, h => h
  | e :: r, st, h => foldl_rooted r _ (cleanStep_rooted st e h)

/-- `path.Clean` of a rooted path is rooted -/
theorem pathClean_rooted (p : Bytes) : (pathClean (47 :: p)).head? = some 47 := by
  unfold pathClean
  simp only [beq_self_eq_true, if_true]
  have h := foldl_rooted (elems (47 :: p)) ⟨[47], 1⟩ ⟨rfl, rfl⟩
  generalize (List.foldl (cleanStep true) ({ rout := [47], dd := 1 } : CS) (elems (47 :: p))) = st at h
  obtain ⟨_, hl⟩ := h
  cases hr : st.rout with
  | nil => rw [hr] at hl; simp at hl
  | cons a b =>
    rw [hr] at hl
    simp only [List.isEmpty_cons, Bool.false_eq_true, if_false]
    rw [List.head?_reverse]
    exact hl

theorem joinPaths_rooted (abs rel p : Bytes) (ha : abs.head? = some 47) (h : joinPaths abs rel = .ok p) : p.head? = some 47 := by
  have hne : abs ≠ [] := by intro h0; rw [h0] at ha; simp at ha
  rw [joinPaths_spec abs rel hne] at h
  injection h with h
  subst h
  obtain ⟨a', rfl⟩ : ∃ a', abs = 47 :: a' := by
    cases abs with
    | nil => exact absurd rfl hne
    | cons c r => simp at ha; exact ⟨r, by rw [ha]⟩
  have hc := pathClean_rooted (a' ++ 47 :: rel)
  simp only [List.cons_append]
  by_cases hr : rel = []
  · simp [hr]
  · simp only [hr, if_false]
    split
    · cases hpc : pathClean (47 :: (a' ++ 47 :: rel)) with
      | nil => exact absurd hpc (pathClean_ne_nil _)
      | cons x y =>
        rw [hpc] at hc
        simpa using hc
    · exact hc

theorem groupBase_rooted : ∀ (pre : List Bytes) (base b : Bytes), base.head? = some 47 → groupBase base pre = .ok b → b.head? = some 47
  | [], base, b, hb, h => by simp only [groupBase] at h; injection h with h; subst h; exact hb
  | p :: r, base, b, hb, h => by
    simp only [groupBase] at h
    cases hj : joinPaths base p with
    | error f => rw [hj] at h; cases h
    | ok b' =>
      rw [hj] at h
      exact groupBase_rooted r b' b (joinPaths_rooted base p b' hb hj) h

/-- every absolute pattern computed for a route registered through groups starts with `/` -/
theorem absPattern_rooted (pre : List Bytes) (rel p : Bytes) (h : absPattern pre rel = .ok p) : p.head? = some 47 := by
  simp only [absPattern] at h
  cases hb : groupBase [47] pre with
  | error f => rw [hb] at h; cases h
  | ok b =>
    rw [hb] at h
    exact joinPaths_rooted b rel p (groupBase_rooted pre [47] b rfl hb) h


end Hertz.Route.GroupPath
