import Hertz.Proofs.RouteDefs
/-!
Bridge between the two formulations of route-pattern matching: token lists of `Spec.Route`
(`matchToks`, `prefer`) and keys (`matchS`, `preferS`; a key is a pattern with the parameter names
removed).
-/
namespace Hertz.Route
open Hertz.Spec.Route

/-- key of a token list -/
def strip : List Tok → Bytes
  | [] => []
  | .lit c :: t => c :: strip t
  | .param _ :: t => 58 :: strip t
  | .any _ :: _ => [42]

/-- parameter names of a token list, in order (a catch-all ends the pattern) -/
def names : List Tok → List Bytes
  | [] => []
  | .lit _ :: t => names t
  | .param n :: t => n :: names t
  | .any n :: _ => [n]

/-- all literal tokens are real literals -/
def LitOK : List Tok → Prop
  | [] => True
  | .lit c :: t => c ≠ 58 ∧ c ≠ 42 ∧ LitOK t
  | .param _ :: t => LitOK t
  | .any _ :: _ => True

/-- a catch-all token is the last token -/
def AnyLast : List Tok → Prop
  | [] => True
  | .lit _ :: t => AnyLast t
  | .param _ :: t => AnyLast t
  | .any _ :: t => t = []

/-! ## the two spellings of "up to the next slash" -/

theorem seg_eq (p : Bytes) : seg p = segValue p := rfl
theorem afterSeg_eq (p : Bytes) : afterSeg p = segRest p := rfl

theorem seg_append_afterSeg (p : Bytes) : seg p ++ afterSeg p = p := by
  unfold seg afterSeg; exact List.takeWhile_append_dropWhile

/-! ## parsing -/

theorem parseGo_litOK (nm : Option Bytes) (p : Bytes) : LitOK (parseGo nm p) := by
  induction p generalizing nm with
  | nil => cases nm <;> simp [parseGo, LitOK]
  | cons c r ih =>
    cases nm with
    | none =>
      by_cases h1 : c = 58
      · simp [parseGo, h1]; exact ih _
      · by_cases h2 : c = 42
        · simp [parseGo, h2, LitOK]
        · simp [parseGo, h1, h2, LitOK]; exact ih _
    | some nm =>
      by_cases h1 : c = 47
      · simp [parseGo, h1, LitOK]; exact ih _
      · simp [parseGo, h1]; exact ih _

theorem parse_litOK (p : Bytes) : LitOK (parsePattern p) := parseGo_litOK none p

theorem parseGo_anyLast (nm : Option Bytes) (p : Bytes) : AnyLast (parseGo nm p) := by
  induction p generalizing nm with
  | nil => cases nm <;> simp [parseGo, AnyLast]
  | cons c r ih =>
    cases nm with
    | none =>
      by_cases h1 : c = 58
      · simp [parseGo, h1]; exact ih _
      · by_cases h2 : c = 42
        · simp [parseGo, h2, AnyLast]
        · simp [parseGo, h1, h2, AnyLast]; exact ih _
    | some nm =>
      by_cases h1 : c = 47
      · simp [parseGo, h1, AnyLast]; exact ih _
      · simp [parseGo, h1]; exact ih _

theorem parse_anyLast (p : Bytes) : AnyLast (parsePattern p) := parseGo_anyLast none p

/-! ## literal prefixes of keys -/

theorem matchS_lit_cons (c : UInt8) (k s : Bytes) (h1 : c ≠ 58) (h2 : c ≠ 42) :
    matchS (c :: k) s = match s with
      | [] => none
      | d :: s' => if c = d then matchS k s' else none := by
  cases s <;> simp [matchS, h1, h2]

theorem matchS_lit_prefix (pfx k s : Bytes) (h : Lit pfx) :
    matchS (pfx ++ k) s = if pfx.isPrefixOf s then matchS k (s.drop pfx.length) else none := by
  induction pfx generalizing s with
  | nil => simp
  | cons c pfx ih =>
    have hc := h c (by simp)
    have hl : Lit pfx := fun x hx => h x (by simp [hx])
    rw [List.cons_append, matchS_lit_cons _ _ _ hc.1 hc.2]
    cases s with
    | nil => simp
    | cons d s' =>
      by_cases e : c = d
      · subst e; simp [ih s' hl]
      · simp [e]

/-- the same with the path split explicitly -/
theorem matchS_lit_append (pfx k s : Bytes) (h : Lit pfx) :
    matchS (pfx ++ k) (pfx ++ s) = matchS k s := by
  rw [matchS_lit_prefix _ _ _ h]; simp

theorem preferS_append (pfx a b : Bytes) : preferS (pfx ++ a) (pfx ++ b) = preferS a b := by
  induction pfx with
  | nil => rfl
  | cons c pfx ih => simp [preferS, ih]

/-! ## matching -/

theorem matchS_strip (ts : List Tok) (p : Bytes) (h : LitOK ts) :
    matchS (strip ts) p = (matchToks ts p).map (fun ps => ps.map Prod.snd) := by
  induction ts generalizing p with
  | nil => cases p <;> simp [strip, matchS, matchToks]
  | cons t ts ih =>
    cases t with
    | lit c =>
      obtain ⟨h1, h2, h3⟩ := h
      rw [strip, matchS_lit_cons _ _ _ h1 h2]
      cases p with
      | nil => simp [matchToks]
      | cons d p' =>
        by_cases e : c = d
        · simp [matchToks, e, ih p' h3]
        · simp [matchToks, e]
    | param nm =>
      have h3 : LitOK ts := h
      simp only [strip, matchS, matchToks]
      by_cases e : p.isEmpty = true
      · simp [e]
      · simp only [e, if_true, if_false, Bool.false_eq_true]
        rw [ih _ h3, ← afterSeg_eq, ← seg_eq]
        cases matchToks ts (afterSeg p) <;> simp
    | any nm => simp [strip, matchS, matchToks]

theorem matchToks_names (ts : List Tok) (p : Bytes) (ps : List (Bytes × Bytes))
    (h : matchToks ts p = some ps) : ps.map Prod.fst = names ts := by
  induction ts generalizing p ps with
  | nil => cases p <;> simp [matchToks] at h; subst h; simp [names]
  | cons t ts ih =>
    cases t with
    | lit c =>
      cases p with
      | nil => simp [matchToks] at h
      | cons d p' =>
        by_cases e : c = d
        · simp [matchToks, e] at h; simpa [names] using ih _ _ h
        · simp [matchToks, e] at h
    | param nm =>
      simp only [matchToks] at h
      by_cases e : p.isEmpty = true
      · simp [e] at h
      · simp only [e, if_false, Bool.false_eq_true] at h
        cases hm : matchToks ts (afterSeg p) with
        | none => simp [hm] at h
        | some r =>
          simp [hm] at h; subst h
          simp [names, ih _ _ hm]
    | any nm => simp [matchToks] at h; subst h; simp [names]

theorem matchToks_zip (ts : List Tok) (p : Bytes) (ps : List (Bytes × Bytes))
    (h : matchToks ts p = some ps) : zipKeys (names ts) (ps.map Prod.snd) = ps := by
  induction ts generalizing p ps with
  | nil => cases p <;> simp [matchToks] at h; subst h; simp [names, zipKeys]
  | cons t ts ih =>
    cases t with
    | lit c =>
      cases p with
      | nil => simp [matchToks] at h
      | cons d p' =>
        by_cases e : c = d
        · simp [matchToks, e] at h; simpa [names] using ih _ _ h
        · simp [matchToks, e] at h
    | param nm =>
      simp only [matchToks] at h
      by_cases e : p.isEmpty = true
      · simp [e] at h
      · simp only [e, if_false, Bool.false_eq_true] at h
        cases hm : matchToks ts (afterSeg p) with
        | none => simp [hm] at h
        | some r =>
          simp [hm] at h; subst h
          simp [names, zipKeys, ih _ _ hm]
    | any nm => simp [matchToks] at h; subst h; simp [names, zipKeys]

/-- substituting the matched values back into the pattern gives the path: parameters are the
substrings they matched -/
theorem instantiate_match (ts : List Tok) (p : Bytes) (ps : List (Bytes × Bytes))
    (h : matchToks ts p = some ps) : instantiate ts ps = p := by
  induction ts generalizing p ps with
  | nil => cases p <;> simp [matchToks] at h; subst h; simp [instantiate]
  | cons t ts ih =>
    cases t with
    | lit c =>
      cases p with
      | nil => simp [matchToks] at h
      | cons d p' =>
        by_cases e : c = d
        · simp [matchToks, e] at h; simp [instantiate, e, ih _ _ h]
        · simp [matchToks, e] at h
    | param nm =>
      simp only [matchToks] at h
      by_cases e : p.isEmpty = true
      · simp [e] at h
      · simp only [e, if_false, Bool.false_eq_true] at h
        cases hm : matchToks ts (afterSeg p) with
        | none => simp [hm] at h
        | some r =>
          simp [hm] at h; subst h
          simp [instantiate, ih _ _ hm, seg_append_afterSeg]
    | any nm => simp [matchToks] at h; subst h; simp [instantiate]

/-- the count of wildcard bytes of a key is the number of names -/
theorem wild_strip (ts : List Tok) (h : LitOK ts) : wild (strip ts) = (names ts).length := by
  induction ts with
  | nil => simp [strip, names, wild]
  | cons t ts ih =>
    cases t with
    | lit c =>
      obtain ⟨h1, h2, h3⟩ := h
      have := ih h3
      unfold wild at this ⊢
      simp [strip, names, h1, h2, this]
    | param nm =>
      have := ih (show LitOK ts from h)
      unfold wild at this ⊢
      simp [strip, names, ← this]
      omega
    | any nm => simp [strip, names, wild]

/-! ## preference -/

theorem rankB_lit (c : UInt8) (h1 : c ≠ 58) (h2 : c ≠ 42) : rankB c = 1 := by simp [rankB, h1, h2]
theorem rankB_param : rankB 58 = 2 := by decide
theorem rankB_any : rankB 42 = 3 := by decide

theorem strip_ne_nil (t : Tok) (ts : List Tok) : strip (t :: ts) ≠ [] := by
  cases t <;> simp [strip]

/-- Needs `AnyLast a` (tokens after a catch-all are invisible to `strip` but not to `prefer`);
holds for every parsed pattern (`parse_anyLast`). -/
theorem preferS_strip (a b : List Tok) (ha : LitOK a) (hb : LitOK b) (hl : AnyLast a) :
    preferS (strip a) (strip b) = prefer a b := by
  induction a generalizing b with
  | nil => simp [strip, preferS, prefer]
  | cons x a ih =>
    cases b with
    | nil => cases x <;> simp [strip, preferS, prefer]
    | cons y b =>
      cases x with
      | lit c =>
        obtain ⟨c1, c2, ha⟩ := ha
        cases y with
        | lit d =>
          obtain ⟨d1, d2, hb⟩ := hb
          by_cases e : c = d
          · simp [strip, preferS, prefer, sameShape, e, ih b ha hb hl]
          · simp [strip, preferS, prefer, sameShape, e, rank, rankB_lit, c1, c2, d1, d2]
        | param n => simp [strip, preferS, prefer, sameShape, rank, rankB_lit, c1, c2, rankB_param]
        | any n => simp [strip, preferS, prefer, sameShape, rank, rankB_lit, c1, c2, rankB_any]
      | param m =>
        cases y with
        | lit d =>
          obtain ⟨d1, d2, hb⟩ := hb
          simp [strip, preferS, prefer, sameShape, rank, rankB_lit, d1, d2, rankB_param, Ne.symm d1]
        | param n => simp [strip, preferS, prefer, sameShape, ih b ha hb hl]
        | any n => simp [strip, preferS, prefer, sameShape, rank, rankB_param, rankB_any]
      | any m =>
        cases y with
        | lit d =>
          obtain ⟨d1, d2, hb⟩ := hb
          simp [strip, preferS, prefer, sameShape, rank, rankB_lit, d1, d2, rankB_any, Ne.symm d2]
        | param n => simp [strip, preferS, prefer, sameShape, rank, rankB_param, rankB_any]
        | any n =>
          have : a = [] := hl
          subst this
          simp [strip, preferS, prefer, sameShape]

theorem preferS_strip_parse (p q : Bytes) :
    preferS (strip (parsePattern p)) (strip (parsePattern q)) = prefer (parsePattern p) (parsePattern q) :=
  preferS_strip _ _ (parse_litOK p) (parse_litOK q) (parse_anyLast p)

theorem preferS_refl (a : Bytes) : preferS a a = true := by
  induction a with
  | nil => rfl
  | cons x a ih => simp [preferS, ih]

theorem preferS_antisymm (a b : Bytes) : preferS a b = true → preferS b a = true → a = b := by
  induction a generalizing b with
  | nil => cases b <;> simp [preferS]
  | cons x a ih =>
    cases b with
    | nil => simp [preferS]
    | cons y b =>
      by_cases e : x = y
      · subst e; simp only [preferS, if_true]; intro h1 h2; rw [ih b h1 h2]
      · have e' : ¬ y = x := fun h => e h.symm
        simp only [preferS, e, e', if_false, decide_eq_true_eq]; intro h1 h2; omega

theorem preferS_trans (a b c : Bytes) : preferS a b = true → preferS b c = true → preferS a c = true := by
  induction a generalizing b c with
  | nil => simp [preferS]
  | cons x a ih =>
    cases b with
    | nil => simp [preferS]
    | cons y b =>
      cases c with
      | nil => simp [preferS]
      | cons z c =>
        by_cases e1 : x = y
        · subst e1
          by_cases e2 : x = z
          · subst e2; simp only [preferS, if_true]; exact ih b c
          · simp only [preferS, e2, if_true, if_false]; intro _ h; exact h
        · by_cases e2 : y = z
          · subst e2; simp only [preferS, e1, if_true, if_false]; intro h _; exact h
          · simp only [preferS, e1, e2, if_false, decide_eq_true_eq]
            intro h1 h2
            have e3 : x ≠ z := by intro h; subst h; omega
            simp only [e3, if_false, decide_eq_true_eq]; omega

theorem prefer_refl (a : List Tok) : prefer a a = true := by
  induction a with
  | nil => rfl
  | cons x a ih => cases x <;> simp [prefer, sameShape, ih]


/-- a catch-all marker is the last byte of the key -/
def StarLast : Bytes → Prop
  | [] => True
  | c :: k => (c = 42 → k = []) ∧ StarLast k

theorem strip_starLast (ts : List Tok) (h : LitOK ts) (hl : AnyLast ts) : StarLast (strip ts) := by
  induction ts with
  | nil => simp [strip, StarLast]
  | cons t ts ih =>
    cases t with
    | lit c =>
      obtain ⟨_, h2, h3⟩ := h
      exact ⟨fun e => absurd e h2, ih h3 hl⟩
    | param n => exact ⟨fun e => by simp at e, ih h hl⟩
    | any n => simp [strip, StarLast]

theorem rankB_eq (x y : UInt8) (h : rankB x = rankB y) (e : x ≠ y) :
    (x ≠ 58 ∧ x ≠ 42) ∧ (y ≠ 58 ∧ y ≠ 42) := by
  unfold rankB at h
  by_cases x1 : x = 58 <;> by_cases x2 : x = 42 <;> by_cases y1 : y = 58 <;> by_cases y2 : y = 42 <;>
    simp_all

/-- two keys that match the same path are comparable (keys with the catch-all marker last; without
that restriction `[42,1]` and `[42,2]` both match everything and are incomparable) -/
theorem preferS_total (a b p : Bytes) (ha : StarLast a) (hb : StarLast b)
    (ma : matchS a p ≠ none) (mb : matchS b p ≠ none) : preferS a b = true ∨ preferS b a = true := by
  induction a generalizing b p with
  | nil => simp [preferS]
  | cons x a ih =>
    cases b with
    | nil => simp [preferS]
    | cons y b =>
      by_cases e : x = y
      · subst e
        simp only [preferS, if_true]
        by_cases x1 : x = 58
        · subst x1
          simp only [matchS, if_true] at ma mb
          by_cases pe : p.isEmpty = true
          · simp [pe] at ma
          · simp only [pe, if_false, Bool.false_eq_true] at ma mb
            apply ih b (segRest p) ha.2 hb.2
            · intro h; simp [h] at ma
            · intro h; simp [h] at mb
        · by_cases x2 : x = 42
          · have : a = [] := ha.1 x2
            subst this; simp [preferS]
          · rw [matchS_lit_cons _ _ _ x1 x2] at ma mb
            cases p with
            | nil => simp at ma
            | cons d p' =>
              by_cases xd : x = d
              · simp only [xd, if_true] at ma mb
                exact ih b p' ha.2 hb.2 ma mb
              · simp [xd] at ma
      · have e' : ¬ y = x := fun h => e h.symm
        simp only [preferS, e, e', if_false, decide_eq_true_eq]
        by_cases hr : rankB x = rankB y
        · exfalso
          obtain ⟨⟨x1, x2⟩, ⟨y1, y2⟩⟩ := rankB_eq x y hr e
          rw [matchS_lit_cons _ _ _ x1 x2] at ma
          rw [matchS_lit_cons _ _ _ y1 y2] at mb
          cases p with
          | nil => simp at ma
          | cons d p' =>
            by_cases xd : x = d
            · by_cases yd : y = d
              · exact e (xd.trans yd.symm)
              · simp [yd] at mb
            · simp [xd] at ma
        · omega

/-! ## the same on parsed patterns -/

theorem prefer_trans_parse (q1 q2 q3 : Bytes)
    (h1 : prefer (parsePattern q1) (parsePattern q2) = true)
    (h2 : prefer (parsePattern q2) (parsePattern q3) = true) :
    prefer (parsePattern q1) (parsePattern q3) = true := by
  rw [← preferS_strip_parse] at h1 h2 ⊢
  exact preferS_trans _ _ _ h1 h2

theorem prefer_total_parse (q1 q2 p : Bytes)
    (h1 : (matchToks (parsePattern q1) p).isSome = true)
    (h2 : (matchToks (parsePattern q2) p).isSome = true) :
    prefer (parsePattern q1) (parsePattern q2) = true ∨ prefer (parsePattern q2) (parsePattern q1) = true := by
  rw [← preferS_strip_parse, ← preferS_strip_parse]
  apply preferS_total _ _ p (strip_starLast _ (parse_litOK _) (parse_anyLast _))
    (strip_starLast _ (parse_litOK _) (parse_anyLast _))
  · rw [matchS_strip _ _ (parse_litOK _)]
    cases hm : matchToks (parsePattern q1) p <;> simp [hm] at h1 ⊢
  · rw [matchS_strip _ _ (parse_litOK _)]
    cases hm : matchToks (parsePattern q2) p <;> simp [hm] at h2 ⊢

theorem matches_isSome {r : Route} {m p : Bytes} (h : (r.matches m p).isSome = true) :
    (matchToks (parsePattern r.pattern) p).isSome = true := by
  unfold Route.matches at h
  by_cases e : r.method = m
  · simpa [e] using h
  · simp [e] at h

/-! ## selection -/

/-- uniqueness: two routes that are both selected have the same key -/
theorem selected_unique (rs : List Route) (m p : Bytes) (r r' : Route) (ps ps' : List (Bytes × Bytes))
    (h : Selected rs m p r ps) (h' : Selected rs m p r' ps') :
    strip (parsePattern r.pattern) = strip (parsePattern r'.pattern) := by
  obtain ⟨hin, hm, hb⟩ := h
  obtain ⟨hin', hm', hb'⟩ := h'
  have a := hb r' hin' (by simp [hm'])
  have b := hb' r hin (by simp [hm])
  rw [← preferS_strip_parse] at a b
  exact preferS_antisymm _ _ a b

/-- `Selected` and `NoMatch` only depend on the set of routes -/
theorem selected_perm (rs rs' : List Route) (hp : ∀ x, x ∈ rs ↔ x ∈ rs') (m p : Bytes) (r : Route)
    (ps : List (Bytes × Bytes)) : Selected rs m p r ps ↔ Selected rs' m p r ps := by
  unfold Selected
  constructor
  · rintro ⟨a, b, c⟩; exact ⟨(hp r).1 a, b, fun r' hr' => c r' ((hp r').2 hr')⟩
  · rintro ⟨a, b, c⟩; exact ⟨(hp r).2 a, b, fun r' hr' => c r' ((hp r').1 hr')⟩

theorem noMatch_perm (rs rs' : List Route) (hp : ∀ x, x ∈ rs ↔ x ∈ rs') (m p : Bytes) :
    NoMatch rs m p ↔ NoMatch rs' m p := by
  unfold NoMatch
  constructor
  · intro h r hr; exact h r ((hp r).2 hr)
  · intro h r hr; exact h r ((hp r).1 hr)

theorem selected_noMatch_excl (rs : List Route) (m p : Bytes) (r : Route) (ps : List (Bytes × Bytes)) :
    Selected rs m p r ps → ¬ NoMatch rs m p := by
  rintro ⟨hin, hm, _⟩ hn
  rw [hn r hin] at hm
  cases hm

/-- invariant of `selectGo`: `best` is the selection among the routes seen so far (`S`) -/
def SelInv (m p : Bytes) (S : Route → Prop) : Option (Route × List (Bytes × Bytes)) → Prop
  | none => ∀ r, S r → r.matches m p = none
  | some (b, bps) => S b ∧ b.matches m p = some bps ∧
      ∀ r', S r' → (r'.matches m p).isSome = true → prefer (parsePattern b.pattern) (parsePattern r'.pattern) = true

theorem SelInv_congr (m p : Bytes) (S S' : Route → Prop) (h : ∀ x, S x ↔ S' x) (best) :
    SelInv m p S best → SelInv m p S' best := by
  have : S = S' := funext fun x => propext (h x)
  subst this; exact id

theorem selectGo_inv (m p : Bytes) (rs : List Route) : ∀ (S : Route → Prop) best, SelInv m p S best →
    SelInv m p (fun x => S x ∨ x ∈ rs) (selectGo m p best rs) := by
  induction rs with
  | nil =>
    intro S best h
    exact SelInv_congr m p S _ (by simp) _ h
  | cons r rs ih =>
    intro S best h
    have step : ∀ best', SelInv m p (fun x => S x ∨ x = r) best' →
        SelInv m p (fun x => S x ∨ x ∈ r :: rs) (selectGo m p best' rs) := by
      intro best' h'
      refine SelInv_congr m p _ _ ?_ _ (ih _ best' h')
      intro x; simp [or_assoc]
    unfold selectGo
    cases hm : r.matches m p with
    | none =>
      simp only
      apply step
      cases best with
      | none =>
        intro x hx
        rcases hx with hx | hx
        · exact h x hx
        · subst hx; exact hm
      | some bb =>
        obtain ⟨b, bps⟩ := bb
        obtain ⟨h1, h2, h3⟩ := h
        refine ⟨Or.inl h1, h2, ?_⟩
        intro x hx hs
        rcases hx with hx | hx
        · exact h3 x hx hs
        · subst hx; simp [hm] at hs
    | some ps =>
      simp only
      cases best with
      | none =>
        simp only
        apply step
        refine ⟨Or.inr rfl, hm, ?_⟩
        intro x hx hs
        rcases hx with hx | hx
        · simp [h x hx] at hs
        · subst hx; exact prefer_refl _
      | some bb =>
        obtain ⟨b, bps⟩ := bb
        obtain ⟨h1, h2, h3⟩ := h
        simp only
        by_cases hpf : prefer (parsePattern b.pattern) (parsePattern r.pattern) = true
        · simp only [hpf, if_true]
          apply step
          refine ⟨Or.inl h1, h2, ?_⟩
          intro x hx hs
          rcases hx with hx | hx
          · exact h3 x hx hs
          · subst hx; exact hpf
        · simp only [hpf, if_false, Bool.false_eq_true]
          apply step
          have hrb : prefer (parsePattern r.pattern) (parsePattern b.pattern) = true := by
            rcases prefer_total_parse b.pattern r.pattern p
              (matches_isSome (m := m) (by rw [h2]; rfl)) (matches_isSome (m := m) (by rw [hm]; rfl)) with t | t
            · exact absurd t hpf
            · exact t
          refine ⟨Or.inr rfl, hm, ?_⟩
          intro x hx hs
          rcases hx with hx | hx
          · exact prefer_trans_parse _ _ _ hrb (h3 x hx hs)
          · subst hx; exact prefer_refl _

theorem select_inv (rs : List Route) (m p : Bytes) :
    SelInv m p (fun x => x ∈ rs) (select rs m p) := by
  refine SelInv_congr m p _ _ ?_ _ (selectGo_inv m p rs (fun _ => False) none ?_)
  · intro x; simp
  · intro r hr; exact hr.elim

/-- the executable selection computes the declarative one (no hypothesis on the route list) -/
theorem select_some (rs : List Route) (m p : Bytes) (r : Route) (ps : List (Bytes × Bytes))
    (h : select rs m p = some (r, ps)) : Selected rs m p r ps := by
  have := select_inv rs m p
  rw [h] at this
  exact this

theorem select_none (rs : List Route) (m p : Bytes) (h : select rs m p = none) : NoMatch rs m p := by
  have := select_inv rs m p
  rw [h] at this
  exact this


end Hertz.Route
