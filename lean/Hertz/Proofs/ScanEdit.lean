import Hertz.Proofs.PrefixStableResp
import Hertz.Model.Http1.ScanEdit
set_option linter.unusedSimpArgs false
/-!
# The header scanner's in-place edits (C02 extension)
-/
namespace Hertz.H1.ScanEdit
open Hertz Hertz.H1

/-- the answer component of the editing scanner is the pure scanner of `Scan.lean` -/
theorem scanValueE_fst (dn : Bool) (B : Bytes) (n : Nat) : (scanValueE dn B n).1 = scanValue dn B n := by
  unfold scanValueE scanValue
  simp only []
  cases indexByte 10 (List.drop (List.takeWhile isOWS (List.drop (n + 1) B)).length (List.drop (n + 1) B)) <;> rfl

theorem scanLineE_fst (dn : Bool) (B : Bytes) : (scanLineE dn B).1 = scanLine dn B := by
  unfold scanLineE scanLine
  cases indexByte 10 B <;> cases indexByte 58 B <;> simp only []
  split
  · rfl
  · exact scanValueE_fst dn B _

theorem scanNextE_fst (dn : Bool) (B : Bytes) : (scanNextE dn B).1 = scanNext dn B := by
  rcases scanNext_shape dn B with ⟨h, hl⟩ | ⟨t, rfl, h⟩ | ⟨t, rfl, h⟩ | ⟨c, d, t, rfl, h1, h2, h⟩
  · match B, hl with
    | [], _ => simp [scanNextE, scanLineE, indexByte, h]
    | [c], _ =>
      by_cases hc : c = 10
      · subst hc; simp [scanNext] at h
      · rw [h]; unfold scanNextE; split
        · rename_i heq; simp at heq
        · rename_i heq; simp at heq; exact absurd heq.1 hc
        · simp [scanLineE, indexByte, hc]
  · rw [h]; rfl
  · rw [h]; rfl
  · rw [h, ← scanLineE_fst]
    unfold scanNextE
    split
    · rename_i heq; simp at heq; exact absurd ⟨heq.1, heq.2.1⟩ h1
    · rename_i heq; simp at heq; exact absurd heq.1 h2
    · rfl

/-! ### lengths -/

theorem normKeyAux_len : ∀ (up : Bool) (k : Bytes), (normKeyAux up k).length = k.length
  | _, [] => by simp [normKeyAux]
  | true, c :: t => by simp [normKeyAux, normKeyAux_len false t]
  | false, c :: t => by
    simp only [normKeyAux]
    split <;> simp [normKeyAux_len]

theorem normalizeKey_len (dn : Bool) (k : Bytes) : (normalizeKey dn k).length = k.length := by
  unfold normalizeKey; split
  · rfl
  · exact normKeyAux_len true k

theorem normValAux_len : ∀ (ls : Bool) (b : Bytes), (normValAux ls b).length ≤ b.length
  | _, [] => by simp [normValAux]
  | ls, c :: t => by
    simp only [normValAux]
    have h1 := normValAux_len ls t
    have h2 := normValAux_len true t
    have h3 := normValAux_len false t
    split
    · simp; omega
    · split
      · simp; omega
      · split <;> simp <;> omega

theorem trimEnd_prefix (p : UInt8 → Bool) (l : Bytes) : (l.reverse.dropWhile p).reverse <+: l := by
  have := List.dropWhile_suffix p (l := l.reverse)
  have := List.reverse_prefix.mpr this
  simpa using this

theorem foldedValue_len (r : Bytes) : (foldedValue r).length ≤ r.length := by
  unfold foldedValue
  have h1 := (trimEnd_prefix isOWS ((normValAux false r).dropWhile isOWS)).length_le
  have h2 := (List.dropWhile_suffix isOWS (l := normValAux false r)).length_le
  have h3 := normValAux_len false r
  omega

theorem normValueEdit_len (r : Bytes) : (normValueEdit r).length = r.length := by
  unfold normValueEdit
  have := foldedValue_len r
  simp; omega

theorem trimValue_prefix (r : Bytes) : trimValue r <+: r := by
  unfold trimValue
  simp only []
  split
  · exact (trimEnd_prefix isOWS _).trans (List.dropLast_prefix r)
  · exact trimEnd_prefix isOWS r

theorem trimValue_split (r : Bytes) : trimValue r ++ r.drop (trimValue r).length = r :=
  List.prefix_iff_eq_append.mp (trimValue_prefix r)

/-! ### one editing step, in named parts -/

/-- the edited bytes of a `kv` step, given the positions: canonical key, colon, the blanks, the (compacted) value
region, what was trimmed from it, and the line feed -/
def editedPrefix (dn : Bool) (B : Bytes) (n sp : Nat) (B1 : Bytes) (n1 extra : Nat) : Bytes :=
  let nEnd := n1 + extra
  let raw := B1.take nEnd
  let region := trimValue raw
  normalizeKey dn (B.take n) ++ 58 :: ((B.drop (n + 1)).take sp ++
    ((if extra > 0 then normValueEdit region else region) ++ (raw.drop region.length ++ (B1.drop nEnd).take 1)))

theorem scanValueE_eq (dn : Bool) (B : Bytes) (n sp : Nat) (B1 : Bytes) (n1 : Nat) (p : ValuePos B n sp B1 n1) :
    scanValueE dn B n = (scanKV dn B n sp B1 n1 (contExtra (B1.drop (n1 + 1))),
      editedPrefix dn B n sp B1 n1 (contExtra (B1.drop (n1 + 1))) ++
        B1.drop (n1 + contExtra (B1.drop (n1 + 1)) + 1)) := by
  obtain ⟨h1, h2, h3⟩ := p
  subst h1; subst h2
  simp only [scanValueE, h3, scanKV, editedPrefix, List.append_assoc, List.cons_append, Prod.mk.injEq, true_and,
    List.append_cancel_left_eq, List.cons.injEq]
  generalize List.drop (List.takeWhile isOWS (List.drop (n + 1) B)).length (List.drop (n + 1) B) = X
  generalize contExtra (List.drop (n1 + 1) X) = e
  have : List.drop (n1 + e + 1) X = List.drop 1 (List.drop (n1 + e) X) := by rw [List.drop_drop]
  rw [this, List.take_append_drop]

theorem editedPrefix_len (dn : Bool) (B : Bytes) (n sp : Nat) (B1 : Bytes) (n1 extra : Nat)
    (hlen : B1.length + n + 1 + sp = B.length) (he : n1 + extra + 1 ≤ B1.length) :
    (editedPrefix dn B n sp B1 n1 extra).length = n + 1 + sp + (n1 + extra) + 1 := by
  unfold editedPrefix
  simp only []
  have hs := congrArg List.length (trimValue_split (B1.take (n1 + extra)))
  have hr : (if extra > 0 then normValueEdit (trimValue (B1.take (n1 + extra))) else trimValue (B1.take (n1 + extra))).length =
      (trimValue (B1.take (n1 + extra))).length := by
    split
    · exact normValueEdit_len _
    · rfl
  simp only [List.length_append, List.length_cons, List.length_take, List.length_drop, normalizeKey_len] at hs ⊢
  rw [hr]
  omega

/-- the positions of a header line whose colon lies before its line feed -/
structure LinePos (B : Bytes) (n xi sp : Nat) (B1 : Bytes) (n1 : Nat) : Prop where
  colon : indexByte 58 B = some n
  lf : indexByte 10 B = some xi
  lt : n < xi
  pos : ValuePos B n sp B1 n1
  len : B1.length + n + 1 + sp = B.length
  fits : n1 + contExtra (B1.drop (n1 + 1)) + 1 ≤ B1.length

theorem scanLineE_cases (dn : Bool) (B : Bytes) :
    (scanLineE dn B = (scanLine dn B, B) ∧ ∀ k v r m, scanLine dn B ≠ .kv k v r m) ∨
    (∃ n xi sp B1 n1, LinePos B n xi sp B1 n1 ∧ scanLineE dn B = scanValueE dn B n ∧
      scanLine dn B = scanValue dn B n) := by
  unfold scanLineE scanLine
  cases hx : indexByte 10 B with
  | none => left; simp
  | some xi =>
    cases hn : indexByte 58 B with
    | none => left; simp
    | some n =>
      by_cases hlt : xi < n
      · left; simp [hlt]
      · right
        have h1 := indexByte_get 58 B n hn
        have h2 := indexByte_get 10 B xi hx
        have hne : n ≠ xi := by
          intro he; subst he; rw [h1] at h2; exact absurd h2 (by decide)
        have hlt' : n < xi := by omega
        obtain ⟨sp, B1, n1, p, _, _, hlen, _⟩ := valuePos_exists B [] n xi hn hx hlt'
        have hn1 := indexByte_lt 10 B1 n1 p.n1_eq
        obtain ⟨_, hle, _⟩ := contExtra_spec (B1.drop (n1 + 1))
        simp only [List.length_drop] at hle
        exact ⟨n, xi, sp, B1, n1, ⟨hn, hx, hlt', p, hlen, by omega⟩, by simp [hlt], by simp [hlt]⟩

theorem scanNextE_line (dn : Bool) (c d : UInt8) (t : Bytes) (h1 : ¬ (c = 13 ∧ d = 10)) (h2 : c ≠ 10) :
    scanNextE dn (c :: d :: t) = scanLineE dn (c :: d :: t) := by
  unfold scanNextE
  split
  · rename_i heq; simp at heq; exact absurd ⟨heq.1, heq.2.1⟩ h1
  · rename_i heq; simp at heq; exact absurd heq.1 h2
  · rfl

/-- **One step.** Either the call hands out no field and the buffer is untouched, or it hands out a field,
consumed `m` bytes, rewrote only those, and the rest of the buffer is what it was. -/
theorem scanNextE_step (dn : Bool) (B : Bytes) :
    (scanNextE dn B = (scanNext dn B, B) ∧ ∀ k v r m, scanNext dn B ≠ .kv k v r m) ∨
    (∃ k v rest m pre, scanNextE dn B = (.kv k v rest m, pre ++ rest) ∧ scanNext dn B = .kv k v rest m ∧
      pre.length = m ∧ B.drop m = rest ∧ m + rest.length = B.length) := by
  rcases scanNext_shape dn B with ⟨h, hl⟩ | ⟨t, rfl, h⟩ | ⟨t, rfl, h⟩ | ⟨c, d, t, rfl, h1, h2, h⟩
  · left
    refine ⟨?_, by rw [h]; simp⟩
    have := scanNextE_fst dn B
    match B, hl with
    | [], _ => simp [scanNextE, scanLineE, indexByte, h]
    | [c], _ =>
      by_cases hc : c = 10
      · subst hc; simp [scanNext] at h
      · rw [h]; unfold scanNextE; split
        · rename_i heq; simp at heq
        · rename_i heq; simp at heq; exact absurd heq.1 hc
        · simp [scanLineE, indexByte, hc]
  · left; rw [h]; exact ⟨rfl, by simp⟩
  · left; rw [h]; exact ⟨rfl, by simp⟩
  · rw [h, scanNextE_line dn c d t h1 h2]
    rcases scanLineE_cases dn (c :: d :: t) with h' | ⟨n, xi, sp, B1, n1, lp, he, hs⟩
    · exact Or.inl h'
    · right
      rw [he, hs, scanValueE_eq dn _ n sp B1 n1 lp.pos, scanValue_eq dn _ n sp B1 n1 lp.pos]
      refine ⟨_, _, _, _, _, rfl, rfl, ?_, ?_, ?_⟩
      · exact editedPrefix_len dn _ n sp B1 n1 _ lp.len lp.fits
      · have hd : ∀ k, B1.drop k = (c :: d :: t).drop (n + 1 + sp + k) := by
          intro k; rw [lp.pos.b1_eq, List.drop_drop, List.drop_drop]; congr 1; omega
        exact ((hd _).trans (by congr 1)).symm
      · have := lp.len; have := lp.fits
        simp only [List.length_drop]; omega

/-! ### a header block -/

theorem scanBlockE_kv (dn : Bool) (fuel : Nat) (B k v rest B' : Bytes) (m : Nat)
    (h : scanNextE dn B = (.kv k v rest m, B')) :
    scanBlockE dn (fuel + 1) B =
      ⟨(k, v) :: (scanBlockE dn fuel rest).fields,
       (match (scanBlockE dn fuel rest).stop with | .fin h => .fin (m + h) | s => s),
       m + (scanBlockE dn fuel rest).consumed, B'.take m ++ (scanBlockE dn fuel rest).buf⟩ := by
  rw [scanBlockE, h]; rfl

theorem scanBlockE_stop (dn : Bool) (fuel : Nat) (B : Bytes) (h : scanNextE dn B = (scanNext dn B, B))
    (hk : ∀ k v r m, scanNext dn B ≠ .kv k v r m) :
    (scanBlockE dn (fuel + 1) B).buf = B ∧ (scanBlockE dn (fuel + 1) B).consumed = 0 ∧
      (scanBlockE dn (fuel + 1) B).fields = [] := by
  simp only [scanBlockE, h]
  cases hs : scanNext dn B with
  | kv k v r m => exact absurd hs (hk k v r m)
  | fin n => simp
  | needMore => simp
  | invalidName => simp

/-- **The edits are local.** After a scan of `B` the buffer has the length of `B`, the scan consumed at most
`B.length` bytes, and behind the consumed bytes the buffer is `B` byte for byte. -/
theorem scanBlockE_local (dn : Bool) : ∀ (fuel : Nat) (B : Bytes),
    (scanBlockE dn fuel B).buf.length = B.length ∧ (scanBlockE dn fuel B).consumed ≤ B.length ∧
      (scanBlockE dn fuel B).buf.drop (scanBlockE dn fuel B).consumed = B.drop (scanBlockE dn fuel B).consumed
  | 0, B => by simp [scanBlockE]
  | fuel + 1, B => by
    rcases scanNextE_step dn B with ⟨h, hk⟩ | ⟨k, v, rest, m, pre, h, _, hpre, hdrop, hlen⟩
    · obtain ⟨h1, h2, _⟩ := scanBlockE_stop dn fuel B h hk
      rw [h1, h2]; simp
    · obtain ⟨ih1, ih2, ih3⟩ := scanBlockE_local dn fuel rest
      rw [scanBlockE_kv dn fuel B k v rest _ m h]
      simp only []
      have ht : (pre ++ rest).take m = pre := by rw [← hpre]; exact List.take_left
      rw [ht]
      refine ⟨by simp [ih1]; omega, by omega, ?_⟩
      rw [← hpre, List.drop_append, List.drop_of_length_le (by omega)]
      simp only [List.nil_append, Nat.add_sub_cancel_left]
      rw [ih3, ← hdrop, List.drop_drop, hpre]

/-- the reading component of the editing block scanner is the pure reading -/
theorem scanBlockE_reading (dn : Bool) : ∀ (fuel : Nat) (B : Bytes),
    (scanBlockE dn fuel B).reading = readBlock dn fuel B
  | 0, B => by simp [scanBlockE, readBlock, Block.reading]
  | fuel + 1, B => by
    have hf := scanNextE_fst dn B
    have ih := fun r => scanBlockE_reading dn fuel r
    simp only [Block.reading, Prod.ext_iff] at ih
    cases hs : scanNextE dn B with
    | mk s B' =>
      rw [hs] at hf; simp only [] at hf
      cases s with
      | kv k v rest m => simp [scanBlockE, readBlock, Block.reading, hs, ← hf, (ih rest).1, (ih rest).2]
      | fin n => simp [scanBlockE, readBlock, Block.reading, hs, ← hf]
      | needMore => simp [scanBlockE, readBlock, Block.reading, hs, ← hf]
      | invalidName => simp [scanBlockE, readBlock, Block.reading, hs, ← hf]


/-! ### key canonicalisation is idempotent -/

set_option maxRecDepth 100000 in
theorem tbl_case : allBytes (fun c => toUpper (toUpper c) == toUpper c && toLower (toLower c) == toLower c &&
    (toLower c != 45 || c == 45) &&
    ((toUpper c == 10) == (c == 10)) && ((toLower c == 10) == (c == 10)) &&
    ((toUpper c == 58) == (c == 58)) && ((toLower c == 58) == (c == 58)) &&
    ((toUpper c == 13) == (c == 13)) && ((toLower c == 13) == (c == 13))) = true := by decide +kernel

theorem toUpper_idem (c : UInt8) : toUpper (toUpper c) = toUpper c := by
  have := allBytes_spec tbl_case c; simp at this; exact this.1.1.1.1.1.1.1.1
theorem toLower_idem (c : UInt8) : toLower (toLower c) = toLower c := by
  have := allBytes_spec tbl_case c; simp at this; exact this.1.1.1.1.1.1.1.2
theorem toLower_dash (c : UInt8) (h : toLower c = 45) : c = 45 := by
  have := allBytes_spec tbl_case c; simp at this
  rcases this.1.1.1.1.1.1.2 with h' | h'
  · exact absurd h h'
  · exact h'

theorem normKeyAux_idem : ∀ (up : Bool) (k : Bytes), normKeyAux up (normKeyAux up k) = normKeyAux up k
  | _, [] => by cases ‹Bool› <;> simp [normKeyAux]
  | true, c :: t => by simp [normKeyAux, toUpper_idem, normKeyAux_idem false t]
  | false, c :: t => by
    by_cases hc : c = 45
    · subst hc; simp [normKeyAux, normKeyAux_idem true t]
    · have : toLower c ≠ 45 := fun h => hc (toLower_dash c h)
      simp [normKeyAux, hc, this, toLower_idem, normKeyAux_idem false t]

/-- `utils.NormalizeHeaderKey` applied to its own output changes nothing -/
theorem normalizeKey_idem (dn : Bool) (k : Bytes) : normalizeKey dn (normalizeKey dn k) = normalizeKey dn k := by
  unfold normalizeKey; split
  · rfl
  · exact normKeyAux_idem true k


/-! ### scanning a line whose parts are known -/

theorem take_len_takeWhile (p : UInt8 → Bool) : ∀ l : Bytes, l.take (l.takeWhile p).length = l.takeWhile p
  | [] => by simp
  | c :: t => by
    cases h : p c <;> simp [List.takeWhile_cons, h, take_len_takeWhile p t]

theorem drop_len_takeWhile (p : UInt8 → Bool) : ∀ l : Bytes, l.drop (l.takeWhile p).length = l.dropWhile p
  | [] => by simp
  | c :: t => by
    cases h : p c <;> simp [List.takeWhile_cons, List.dropWhile_cons, h, drop_len_takeWhile p t]

theorem takeWhile_all_append (p : UInt8 → Bool) : ∀ (a b : Bytes), (∀ x ∈ a, p x = true) →
    List.takeWhile p (a ++ b) = a ++ List.takeWhile p b
  | [], b, _ => by simp
  | c :: t, b, h => by
    have hc : p c = true := h c (by simp)
    simp [List.takeWhile_cons, hc, takeWhile_all_append p t b (fun x hx => h x (by simp [hx]))]

theorem dropWhile_all_append (p : UInt8 → Bool) : ∀ (a b : Bytes), (∀ x ∈ a, p x = true) →
    List.dropWhile p (a ++ b) = List.dropWhile p b
  | [], b, _ => by simp
  | c :: t, b, h => by
    have hc : p c = true := h c (by simp)
    simp [List.dropWhile_cons, hc, dropWhile_all_append p t b (fun x hx => h x (by simp [hx]))]

theorem indexByte_append_notin (c : UInt8) : ∀ (V r : Bytes), (∀ y ∈ V, y ≠ c) → indexByte c (V ++ c :: r) = some V.length
  | [], r, _ => by simp [indexByte]
  | y :: t, r, h => by
    have hy : y ≠ c := h y (by simp)
    simp [indexByte, hy, indexByte_append_notin c t r (fun z hz => h z (by simp [hz]))]

/-- a line whose parts are known: canonical key `K`, blanks `W`, a value line `V` that does not start with a blank,
and nothing behind the line feed that continues the value -/
theorem scanValueE_explicit (dn : Bool) (K W V rest : Bytes) (hW : ∀ x ∈ W, isOWS x = true)
    (hV : ∀ y ∈ V, y ≠ 10) (hV0 : ∀ c t, V = c :: t → isOWS c = false) (hc : contExtra rest = 0) :
    scanValueE dn (K ++ 58 :: (W ++ (V ++ 10 :: rest))) K.length =
      (.kv (normalizeKey dn K) (trimValue V) rest (K.length + 1 + W.length + V.length + 1),
       normalizeKey dn K ++ 58 :: (W ++ (V ++ 10 :: rest))) := by
  have htake : (K ++ 58 :: (W ++ (V ++ 10 :: rest))).take K.length = K := List.take_left
  have hdrop1 : (K ++ 58 :: (W ++ (V ++ 10 :: rest))).drop (K.length + 1) = W ++ (V ++ 10 :: rest) := by
    rw [show K ++ 58 :: (W ++ (V ++ 10 :: rest)) = (K ++ [58]) ++ (W ++ (V ++ 10 :: rest)) by simp]
    exact List.drop_left' (by simp)
  have htw : List.takeWhile isOWS (W ++ (V ++ 10 :: rest)) = W := by
    rw [takeWhile_all_append isOWS W _ hW]
    match V, hV0 with
    | [], _ => simp [List.takeWhile_cons, isOWS]
    | c :: t, h => simp [List.takeWhile_cons, h c t rfl]
  have hidx : indexByte 10 (V ++ 10 :: rest) = some V.length := indexByte_append_notin 10 V rest hV
  unfold scanValueE
  simp only [htake, hdrop1, htw, List.drop_left, hidx]
  have hd2 : List.drop (V.length + 1) (V ++ 10 :: rest) = rest := by
    rw [show V ++ 10 :: rest = (V ++ [10]) ++ rest by simp]; exact List.drop_left' (by simp)
  simp only [hd2, hc, Nat.add_zero, Nat.lt_irrefl, if_false, List.take_left, List.drop_left]
  have hs := trimValue_split V
  rw [← List.append_assoc (trimValue V), hs]


theorem contAux_add : ∀ (S : Bytes) (cm cur : Nat) (b : Bool), contAux cm cur b S = cm + contAux 0 cur b S
  | [], cm, cur, b => by simp [contAux]
  | c :: t, cm, cur, b => by
    cases b with
    | false =>
      simp only [contAux, Bool.not_false, if_true]
      split
      · exact contAux_add t cm 1 true
      · simp
    | true =>
      simp only [contAux, Bool.not_true, Bool.false_eq_true, if_false]
      split
      · simp
      · split
        · rw [contAux_add t (cm + cur + 1) 0 false, contAux_add t (0 + cur + 1) 0 false]; omega
        · exact contAux_add t cm (cur + 1) true

theorem contAux_fix : ∀ (S : Bytes),
    (contExtra S ≤ S.length ∧ contExtra (S.drop (contExtra S)) = 0) ∧
    (∀ cur, contAux 0 cur true S = 0 ∨
      ∃ e, contAux 0 cur true S = cur + e ∧ 0 < e ∧ e ≤ S.length ∧ contExtra (S.drop e) = 0)
  | [] => by simp [contExtra, contAux]
  | c :: t => by
    obtain ⟨⟨ihl, ih1⟩, ih2⟩ := contAux_fix t
    have h2 : ∀ cur, contAux 0 cur true (c :: t) = 0 ∨
        ∃ e, contAux 0 cur true (c :: t) = cur + e ∧ 0 < e ∧ e ≤ (c :: t).length ∧ contExtra ((c :: t).drop e) = 0 := by
      intro cur
      simp only [contAux, Bool.not_true, Bool.false_eq_true, if_false]
      by_cases h58 : c = 58
      · simp [h58]
      · simp only [h58, if_false]
        by_cases h10 : c = 10
        · simp only [h10, if_true]
          right
          refine ⟨1 + contExtra t, ?_, by omega, by simp; omega, ?_⟩
          · rw [contAux_add t (0 + cur + 1) 0 false]; simp [contExtra]; omega
          · rw [Nat.add_comm 1, List.drop_succ_cons]; exact ih1
        · simp only [h10, if_false]
          rcases ih2 (cur + 1) with h | ⟨e, he, hpos, hle, hz⟩
          · exact Or.inl h
          · exact Or.inr ⟨e + 1, by rw [he]; omega, by omega, by simp; omega, by simpa using hz⟩
    refine ⟨?_, h2⟩
    unfold contExtra
    simp only [contAux, Bool.not_false, if_true]
    by_cases hc : c = 32 ∨ c = 9
    · simp only [hc, if_true]
      rcases ih2 1 with h | ⟨e, he, hpos, hle, hz⟩
      · rw [h]; simp [contAux, hc, h]
      · rw [he]
        refine ⟨by simp; omega, ?_⟩
        rw [Nat.add_comm 1, List.drop_succ_cons]; exact hz
    · simp [hc, contAux]

theorem contExtra_drop_self (S : Bytes) : contExtra (S.drop (contExtra S)) = 0 := (contAux_fix S).1.2

theorem getElem_split (X : Bytes) (k : Nat) (h : X[k]? = some 10) : X = X.take k ++ 10 :: X.drop (k + 1) := by
  have hk : k < X.length := by
    rcases Nat.lt_or_ge k X.length with h' | h'
    · exact h'
    · rw [List.getElem?_eq_none h'] at h; simp at h
  rw [List.getElem?_eq_getElem hk] at h
  injection h with h
  conv => lhs; rw [← List.take_append_drop k X]
  rw [List.drop_eq_getElem_cons hk, h]

/-- the value region ends at a line feed -/
theorem lf_at_end (B1 : Bytes) (n1 : Nat) (h : indexByte 10 B1 = some n1) :
    B1 = B1.take (n1 + contExtra (B1.drop (n1 + 1))) ++ 10 :: B1.drop (n1 + contExtra (B1.drop (n1 + 1)) + 1) := by
  apply getElem_split
  rcases (contExtra_spec (B1.drop (n1 + 1))).1 with h0 | hlf
  · rw [h0]; exact indexByte_get 10 B1 n1 h
  · obtain ⟨P, hP, he⟩ := LFBefore_drop _ _ hlf
    have : (B1.drop (n1 + 1))[P.length]? = some 10 := by
      rw [hP]; simp
    rw [List.getElem?_drop] at this
    rw [he, ← this]; congr 1; omega

theorem scanNextE_of_pos (dn : Bool) (X : Bytes) (n xi : Nat) (hn : indexByte 58 X = some n)
    (hx : indexByte 10 X = some xi) (hlt : n < xi) : scanNextE dn X = scanValueE dn X n := by
  have hxl := indexByte_lt 10 X xi hx
  match X, hn, hx, hxl with
  | [], _, _, hl => simp at hl
  | [c], _, _, hl => simp at hl; omega
  | c :: d :: t, hn, hx, _ =>
    have h2 : c ≠ 10 := by
      intro hc; subst hc; simp [indexByte] at hx; omega
    have h1 : ¬ (c = 13 ∧ d = 10) := by
      rintro ⟨rfl, rfl⟩
      simp [indexByte] at hx hn
      subst hx
      have : n = 0 := by omega
      subst this
      obtain ⟨a, _, ha⟩ := hn; omega
    rw [scanNextE_line dn c d t h1 h2]
    unfold scanLineE
    simp only [hn, hx]
    rw [if_neg (by omega)]


theorem dropWhile_all_append' (p : UInt8 → Bool) : ∀ (a b : Bytes), (∀ x ∈ a, p x = true) →
    List.dropWhile p (a ++ b) = List.dropWhile p b
  | [], b, _ => by simp
  | c :: t, b, h => by
    have hc : p c = true := h c (by simp)
    simp [List.dropWhile_cons, hc, dropWhile_all_append' p t b (fun x hx => h x (by simp [hx]))]

/-- `strip p l`: `l` without its trailing bytes that satisfy `p` -/
def strip (p : UInt8 → Bool) (l : Bytes) : Bytes := (l.reverse.dropWhile p).reverse

theorem strip_split (p : UInt8 → Bool) (l : Bytes) :
    l = strip p l ++ (l.reverse.takeWhile p).reverse ∧ (∀ x ∈ (l.reverse.takeWhile p).reverse, p x = true) ∧
      (∀ c, (strip p l).getLast? = some c → p c = false) := by
  refine ⟨?_, ?_, ?_⟩
  · have := List.takeWhile_append_dropWhile (p := p) (l := l.reverse)
    have h2 := congrArg List.reverse this
    simp only [List.reverse_append, List.reverse_reverse] at h2
    exact h2.symm
  · intro x hx
    rw [List.mem_reverse] at hx
    exact List.all_eq_true.mp (List.all_takeWhile (p := p) (l := l.reverse)) x hx
  · intro c hc
    unfold strip at hc
    rw [List.getLast?_reverse] at hc
    have := List.head?_dropWhile_not p l.reverse
    rw [hc] at this
    simpa using this

theorem strip_append_all (p : UInt8 → Bool) (a ws : Bytes) (hws : ∀ x ∈ ws, p x = true)
    (hlast : ∀ c, a.getLast? = some c → p c = false) : strip p (a ++ ws) = a := by
  unfold strip
  rw [List.reverse_append, dropWhile_all_append' p _ _ (by intro x hx; exact hws x (List.mem_reverse.mp hx))]
  have : List.dropWhile p a.reverse = a.reverse := by
    cases h : a.reverse with
    | nil => simp
    | cons c t =>
      have hc : a.getLast? = some c := by rw [← List.head?_reverse, h]; rfl
      simp [List.dropWhile_cons, hlast c hc]
  rw [this, List.reverse_reverse]

theorem trimValue_eq (r : Bytes) :
    trimValue r = strip isOWS (if r.getLast? = some 13 then r.dropLast else r) := rfl

/-- what `trimValue` cuts off: blanks, then at most one `\r` -/
theorem trimValue_tail (r : Bytes) : ∃ ws cr, r = trimValue r ++ (ws ++ cr) ∧ (∀ x ∈ ws, isOWS x = true) ∧
    (cr = [] ∨ cr = [13]) ∧ (∀ c, (trimValue r).getLast? = some c → isOWS c = false) := by
  rw [trimValue_eq]
  by_cases h : r.getLast? = some 13
  · simp only [h, if_true]
    obtain ⟨h1, h2, h3⟩ := strip_split isOWS r.dropLast
    refine ⟨_, [13], ?_, h2, Or.inr rfl, h3⟩
    rw [← List.append_assoc, ← h1]
    have hne : r ≠ [] := by intro h0; subst h0; simp at h
    have hl : r.getLast hne = 13 := by
      have := List.getLast?_eq_some_getLast hne
      rw [h] at this; injection this with this; exact this.symm
    rw [← hl]; exact (List.dropLast_concat_getLast hne).symm
  · simp only [h, if_false]
    obtain ⟨h1, h2, h3⟩ := strip_split isOWS r
    exact ⟨_, [], by simpa using h1, h2, Or.inl rfl, h3⟩

theorem trimValue_append_tail (a ws cr : Bytes) (hws : ∀ x ∈ ws, isOWS x = true) (hcr : cr = [] ∨ cr = [13])
    (hlast : ∀ c, a.getLast? = some c → isOWS c = false) (h13 : ∀ y ∈ a, y ≠ 13) :
    trimValue (a ++ (ws ++ cr)) = a := by
  rw [trimValue_eq]
  rcases hcr with rfl | rfl
  · have hne : (a ++ (ws ++ [])).getLast? ≠ some 13 := by
      simp only [List.append_nil]
      intro h
      rcases List.eq_nil_or_concat ws with rfl | ⟨ws', x, rfl⟩
      · simp at h
        exact h13 13 (List.mem_of_getLast? h) rfl
      · simp at h
        have := hws x (by simp)
        rw [h] at this; simp [isOWS] at this
    simp only [List.append_nil] at hne ⊢
    rw [if_neg hne]
    exact strip_append_all isOWS a ws hws hlast
  · have he : (a ++ (ws ++ [13])).getLast? = some 13 := by simp
    have hd : (a ++ (ws ++ [13])).dropLast = a ++ ws := by
      rw [← List.append_assoc, List.dropLast_concat]
    simp only [he, if_true, hd]
    exact strip_append_all isOWS a ws hws hlast

theorem normValAux_nocrlf : ∀ (ls : Bool) (b : Bytes), ∀ y ∈ normValAux ls b, y ≠ 10 ∧ y ≠ 13
  | _, [] => by simp [normValAux]
  | ls, c :: t => by
    intro y hy
    simp only [normValAux] at hy
    split at hy
    · exact normValAux_nocrlf ls t y hy
    · split at hy
      · exact normValAux_nocrlf true t y hy
      · rename_i h13 h10
        split at hy
        · rcases List.mem_cons.mp hy with rfl | hy
          · decide
          · exact normValAux_nocrlf true t y hy
        · rcases List.mem_cons.mp hy with rfl | hy
          · exact ⟨h10, h13⟩
          · exact normValAux_nocrlf false t y hy

theorem foldedValue_eq (r : Bytes) : foldedValue r = strip isOWS ((normValAux false r).dropWhile isOWS) := rfl

theorem foldedValue_facts (r : Bytes) :
    (∀ y ∈ foldedValue r, y ≠ 10 ∧ y ≠ 13) ∧ (∀ c t, foldedValue r = c :: t → isOWS c = false) ∧
      (∀ c, (foldedValue r).getLast? = some c → isOWS c = false) := by
  rw [foldedValue_eq]
  have hpre : strip isOWS ((normValAux false r).dropWhile isOWS) <+: (normValAux false r).dropWhile isOWS :=
    trimEnd_prefix isOWS _
  refine ⟨fun y hy => ?_, fun c t h => ?_, (strip_split isOWS _).2.2⟩
  · exact normValAux_nocrlf false r y ((List.dropWhile_suffix isOWS).subset (hpre.subset hy))
  · rw [h] at hpre
    obtain ⟨s, hs⟩ := hpre
    have := List.head?_dropWhile_not isOWS (normValAux false r)
    rw [← hs] at this
    simpa using this


theorem beq_congr_iff {a b c d : UInt8} (h : (a == b) = (c == d)) : a = b ↔ c = d := by
  constructor
  · intro e
    have h1 : (a == b) = true := by simp [e]
    rw [h] at h1; simpa using h1
  · intro e
    have h1 : (c == d) = true := by simp [e]
    rw [← h] at h1; simpa using h1

theorem case_keeps (c x : UInt8) (hc : c = 10 ∨ c = 58) : (toUpper x = c ↔ x = c) ∧ (toLower x = c ↔ x = c) := by
  have := allBytes_spec tbl_case x
  simp at this
  obtain ⟨⟨⟨⟨⟨⟨_, hu10⟩, hl10⟩, hu58⟩, hl58⟩, _⟩, _⟩ := this
  rcases hc with rfl | rfl
  · exact ⟨beq_congr_iff hu10, beq_congr_iff hl10⟩
  · exact ⟨beq_congr_iff hu58, beq_congr_iff hl58⟩

theorem normKeyAux_notin (c : UInt8) (hc : c = 10 ∨ c = 58) : ∀ (up : Bool) (k : Bytes), (∀ y ∈ k, y ≠ c) →
    ∀ y ∈ normKeyAux up k, y ≠ c
  | _, [], _ => by intro y hy; cases ‹Bool› <;> simp [normKeyAux] at hy
  | true, x :: t, h => by
    intro y hy
    simp only [normKeyAux, List.mem_cons] at hy
    rcases hy with hy | hy
    · rw [hy]; exact fun he => h x List.mem_cons_self ((case_keeps c x hc).1.mp he)
    · exact normKeyAux_notin c hc false t (fun z hz => h z (List.mem_cons_of_mem _ hz)) y hy
  | false, x :: t, h => by
    intro y hy
    simp only [normKeyAux] at hy
    split at hy
    · rcases List.mem_cons.mp hy with rfl | hy
      · exact h y List.mem_cons_self
      · exact normKeyAux_notin c hc true t (fun z hz => h z (List.mem_cons_of_mem _ hz)) y hy
    · rcases List.mem_cons.mp hy with hy | hy
      · rw [hy]; exact fun he => h x List.mem_cons_self ((case_keeps c x hc).2.mp he)
      · exact normKeyAux_notin c hc false t (fun z hz => h z (List.mem_cons_of_mem _ hz)) y hy

theorem normalizeKey_notin (dn : Bool) (c : UInt8) (hc : c = 10 ∨ c = 58) (k : Bytes) (h : ∀ y ∈ k, y ≠ c) :
    ∀ y ∈ normalizeKey dn k, y ≠ c := by
  unfold normalizeKey; split
  · exact h
  · exact normKeyAux_notin c hc true k h

/-- a line `K : W V \n rest` with known parts, scanned by `Next` -/
theorem scanNextE_explicit (dn : Bool) (K W V rest : Bytes) (hK58 : ∀ y ∈ K, y ≠ 58) (hK10 : ∀ y ∈ K, y ≠ 10)
    (hW : ∀ x ∈ W, isOWS x = true)
    (hV : ∀ y ∈ V, y ≠ 10) (hV0 : ∀ c t, V = c :: t → isOWS c = false) (hc : contExtra rest = 0) :
    scanNextE dn (K ++ 58 :: (W ++ (V ++ 10 :: rest))) =
      (.kv (normalizeKey dn K) (trimValue V) rest (K.length + 1 + W.length + V.length + 1),
       normalizeKey dn K ++ 58 :: (W ++ (V ++ 10 :: rest))) := by
  rw [← scanValueE_explicit dn K W V rest hW hV hV0 hc]
  apply scanNextE_of_pos dn _ K.length (K.length + 1 + W.length + V.length)
  · exact indexByte_append_notin 58 K _ hK58
  · have : K ++ 58 :: (W ++ (V ++ 10 :: rest)) = (K ++ 58 :: (W ++ V)) ++ 10 :: rest := by simp
    rw [this]
    have hl : (K ++ 58 :: (W ++ V)).length = K.length + 1 + W.length + V.length := by simp; omega
    rw [← hl]
    apply indexByte_append_notin 10
    intro y hy
    simp only [List.mem_append, List.mem_cons] at hy
    rcases hy with hy | rfl | hy | hy
    · exact hK10 y hy
    · decide
    · exact isOWS_ne_lf y (hW y hy)
    · exact hV y hy
  · omega


theorem trimValue_cr (cr : Bytes) (h : cr = [] ∨ cr = [13]) : trimValue cr = [] := by
  rcases h with rfl | rfl <;> decide

/-- the bytes a `kv` step leaves behind, scanned again: same answer, nothing new written -/
theorem idem_parts (dn : Bool) (K0 W raw rest : Bytes) (fold : Bool)
    (hK58 : ∀ y ∈ K0, y ≠ 58) (hK10 : ∀ y ∈ K0, y ≠ 10) (hW : ∀ x ∈ W, isOWS x = true)
    (hrest : contExtra rest = 0)
    (hraw : fold = false → (∀ y ∈ raw, y ≠ 10) ∧ (∀ c t, raw = c :: t → isOWS c = false)) :
    scanNextE dn (normalizeKey dn K0 ++ 58 :: (W ++ ((if fold then normValueEdit (trimValue raw) else trimValue raw) ++
        (raw.drop (trimValue raw).length ++ [10]))) ++ rest) =
      (.kv (normalizeKey dn K0) (if fold then foldedValue (trimValue raw) else trimValue raw) rest
          (K0.length + 1 + W.length + raw.length + 1),
       normalizeKey dn K0 ++ 58 :: (W ++ ((if fold then normValueEdit (trimValue raw) else trimValue raw) ++
        (raw.drop (trimValue raw).length ++ [10]))) ++ rest) := by
  have hk58 := normalizeKey_notin dn 58 (Or.inr rfl) K0 hK58
  have hk10 := normalizeKey_notin dn 10 (Or.inl rfl) K0 hK10
  have hkl := normalizeKey_len dn K0
  have hki := normalizeKey_idem dn K0
  cases fold with
  | false =>
    obtain ⟨h10, hhead⟩ := hraw rfl
    simp only [Bool.false_eq_true, if_false]
    have hb : normalizeKey dn K0 ++ 58 :: (W ++ (trimValue raw ++ (raw.drop (trimValue raw).length ++ [10]))) ++ rest =
        normalizeKey dn K0 ++ 58 :: (W ++ (raw ++ 10 :: rest)) := by
      rw [← List.append_assoc (trimValue raw), trimValue_split]; simp
    rw [hb, scanNextE_explicit dn _ W raw rest hk58 hk10 hW h10 hhead hrest, hki, hkl]
  | true =>
    simp only [if_true]
    obtain ⟨ws, cr, hsplit, hws, hcr, _⟩ := trimValue_tail raw
    have hT : raw.drop (trimValue raw).length = ws ++ cr :=
      List.append_cancel_left ((trimValue_split raw).trans hsplit)
    have hrl : raw.length = (trimValue raw).length + (ws.length + cr.length) := by
      have := congrArg List.length hsplit; simpa using this
    obtain ⟨hf1, hf2, hf3⟩ := foldedValue_facts (trimValue raw)
    have hfl := foldedValue_len (trimValue raw)
    have hws10 : ∀ y ∈ ws, y ≠ 10 := fun y hy => isOWS_ne_lf y (hws y hy)
    have hcr10 : ∀ y ∈ cr, y ≠ 10 := by
      rcases hcr with rfl | rfl <;> simp
    rw [hT]
    unfold normValueEdit
    simp only []
    generalize hG : List.replicate ((trimValue raw).length - (foldedValue (trimValue raw)).length) (32 : UInt8) = G
    have hGall : ∀ x ∈ G, isOWS x = true := by
      rw [← hG]; intro x hx; rw [List.eq_of_mem_replicate hx]; rfl
    have hGl : G.length = (trimValue raw).length - (foldedValue (trimValue raw)).length := by rw [← hG]; simp
    cases hfv : foldedValue (trimValue raw) with
    | nil =>
      rw [hfv] at hGl
      have hb : normalizeKey dn K0 ++ 58 :: (W ++ ((G ++ []) ++ ((ws ++ cr) ++ [10]))) ++ rest =
          normalizeKey dn K0 ++ 58 :: ((W ++ (G ++ ws)) ++ (cr ++ 10 :: rest)) := by simp
      have hcr0 : ∀ c t, cr = c :: t → isOWS c = false := by
        rcases hcr with rfl | rfl
        · intro c t h; cases h
        · intro c t h; injection h with h _; subst h; rfl
      rw [hb, scanNextE_explicit dn _ (W ++ (G ++ ws)) cr rest hk58 hk10
        (by intro x hx; simp only [List.mem_append] at hx; rcases hx with hx | hx | hx
            · exact hW x hx
            · exact hGall x hx
            · exact hws x hx) hcr10 hcr0 hrest, hki, hkl, trimValue_cr cr hcr]
      simp only [Prod.mk.injEq, Scan.kv.injEq, true_and, and_true, List.length_append]
      simp at hGl
      omega
    | cons f ft =>
      rw [← hfv]
      have hb : normalizeKey dn K0 ++ 58 :: (W ++ ((G ++ foldedValue (trimValue raw)) ++ ((ws ++ cr) ++ [10]))) ++ rest =
          normalizeKey dn K0 ++ 58 :: ((W ++ G) ++ ((foldedValue (trimValue raw) ++ (ws ++ cr)) ++ 10 :: rest)) := by simp
      rw [hb, scanNextE_explicit dn _ (W ++ G) (foldedValue (trimValue raw) ++ (ws ++ cr)) rest hk58 hk10
        (by intro x hx; simp only [List.mem_append] at hx; rcases hx with hx | hx
            · exact hW x hx
            · exact hGall x hx)
        (by intro y hy; simp only [List.mem_append] at hy; rcases hy with hy | hy | hy
            · exact (hf1 y hy).1
            · exact hws10 y hy
            · exact hcr10 y hy)
        (by intro c t h; rw [hfv] at h; simp only [List.cons_append] at h; injection h with h _
            subst h; exact hf2 f ft hfv) hrest, hki, hkl,
        trimValue_append_tail _ ws cr hws hcr hf3 (fun y hy => (hf1 y hy).2)]
      simp only [Prod.mk.injEq, Scan.kv.injEq, true_and, and_true, List.length_append]
      omega


theorem mem_take_of_le (B : Bytes) (n m : Nat) (h : n ≤ m) : ∀ y ∈ B.take n, y ∈ B.take m := by
  intro y hy
  have : B.take n = (B.take m).take n := by rw [List.take_take, Nat.min_eq_left h]
  rw [this] at hy
  exact List.mem_of_mem_take hy

theorem take1_of_split (X : Bytes) (k : Nat) (h : X = X.take k ++ 10 :: X.drop (k + 1)) (hk : k < X.length) :
    (X.drop k).take 1 = [10] := by
  have h2 := congrArg (List.drop k) h
  rw [List.drop_left' (by simp; omega)] at h2
  rw [h2]; rfl


/-- nothing continues a value in front of a header line: the look-ahead stops at the colon -/
theorem contAux_key (X : Bytes) : ∀ (K : Bytes) (cur : Nat), (∀ y ∈ K, y ≠ 10) → contAux 0 cur true (K ++ 58 :: X) = 0
  | [], cur, _ => by simp [contAux]
  | c :: t, cur, h => by
    have hc : c ≠ 10 := h c List.mem_cons_self
    simp only [List.cons_append, contAux, Bool.not_true, Bool.false_eq_true, if_false, hc]
    split
    · rfl
    · exact contAux_key X t (cur + 1) (fun y hy => h y (List.mem_cons_of_mem _ hy))

theorem contExtra_key (K X : Bytes) (h : ∀ y ∈ K, y ≠ 10) : contExtra (K ++ 58 :: X) = 0 := by
  unfold contExtra
  match K, h with
  | [], _ => simp [contAux]
  | c :: t, h =>
    simp only [List.cons_append, contAux, Bool.not_false, if_true]
    split
    · exact contAux_key X t 1 (fun y hy => h y (List.mem_cons_of_mem _ hy))
    · rfl

/-- the answer with another unconsumed rest -/
def setRest : Scan → Bytes → Scan
  | .kv k v _ n, r => .kv k v r n
  | s, _ => s

/-- **One step is idempotent and preserves its reading** — also when the bytes behind the consumed ones are
replaced by any bytes that do not continue the value (e.g. the edited rest of the block). -/
theorem scanValueE_idem (dn : Bool) (B : Bytes) (n xi sp : Nat) (B1 : Bytes) (n1 : Nat)
    (lp : LinePos B n xi sp B1 n1) :
    contExtra (B1.drop (n1 + contExtra (B1.drop (n1 + 1)) + 1)) = 0 ∧
    (∀ y ∈ normalizeKey dn (B.take n), y ≠ 10) ∧
    ∀ rest', contExtra rest' = 0 →
      scanNextE dn (editedPrefix dn B n sp B1 n1 (contExtra (B1.drop (n1 + 1))) ++ rest') =
        (setRest (scanValueE dn B n).1 rest', editedPrefix dn B n sp B1 n1 (contExtra (B1.drop (n1 + 1))) ++ rest') := by
  have hB1 := lf_at_end B1 n1 lp.pos.n1_eq
  have hfit := lp.fits
  have hlen := lp.len
  have hself := contExtra_drop_self (B1.drop (n1 + 1))
  rw [scanValueE_eq dn B n sp B1 n1 lp.pos]
  generalize contExtra (B1.drop (n1 + 1)) = e at hB1 hfit hself ⊢
  have hrest0 : contExtra (B1.drop (n1 + e + 1)) = 0 := by
    rw [List.drop_drop] at hself
    rw [← hself]; congr 2; omega
  have hK58 : ∀ y ∈ B.take n, y ≠ 58 := indexByte_take_ne 58 B n lp.colon
  have hK10 : ∀ y ∈ B.take n, y ≠ 10 :=
    fun y hy => indexByte_take_ne 10 B xi lp.lf y (mem_take_of_le B n xi (Nat.le_of_lt lp.lt) y hy)
  refine ⟨hrest0, normalizeKey_notin dn 10 (Or.inl rfl) _ hK10, fun rest' hrest' => ?_⟩
  have hKlen : (B.take n).length = n := by
    simp; have := indexByte_lt 58 B n lp.colon; omega
  have hW : (B.drop (n + 1)).take sp = (B.drop (n + 1)).takeWhile isOWS := by
    rw [lp.pos.sp_eq]; exact take_len_takeWhile isOWS _
  have hWall : ∀ x ∈ (B.drop (n + 1)).take sp, isOWS x = true := by
    rw [hW]; exact fun x hx => List.all_eq_true.mp List.all_takeWhile x hx
  have hWlen : ((B.drop (n + 1)).take sp).length = sp := by
    rw [hW, lp.pos.sp_eq]
  have hB1d : B1 = (B.drop (n + 1)).dropWhile isOWS := by
    rw [lp.pos.b1_eq, lp.pos.sp_eq]; exact drop_len_takeWhile isOWS _
  have hB1head : ∀ c t, B1 = c :: t → isOWS c = false := by
    intro c t h
    have := List.head?_dropWhile_not isOWS (B.drop (n + 1))
    rw [← hB1d, h] at this
    simpa using this
  have htake1 : (B1.drop (n1 + e)).take 1 = [10] := take1_of_split B1 (n1 + e) hB1 (by omega)
  have hrawlen : (B1.take (n1 + e)).length = n1 + e := by simp; omega
  have hraw : decide (e > 0) = false → (∀ y ∈ B1.take (n1 + e), y ≠ 10) ∧
      (∀ c t, B1.take (n1 + e) = c :: t → isOWS c = false) := by
    intro h0
    have he0 : e = 0 := by simpa using h0
    subst he0
    refine ⟨indexByte_take_ne 10 B1 n1 lp.pos.n1_eq, fun c t h => ?_⟩
    have h2 := congrArg (fun l => l ++ B1.drop (n1 + 0)) h
    simp only [List.take_append_drop, List.cons_append] at h2
    exact hB1head c _ h2
  have H := idem_parts dn (B.take n) ((B.drop (n + 1)).take sp) (B1.take (n1 + e)) rest'
    (decide (e > 0)) hK58 hK10 hWall hrest' hraw
  have hEP : editedPrefix dn B n sp B1 n1 e ++ rest' =
      normalizeKey dn (B.take n) ++ 58 :: ((B.drop (n + 1)).take sp ++
        ((if decide (e > 0) = true then normValueEdit (trimValue (B1.take (n1 + e))) else trimValue (B1.take (n1 + e))) ++
        ((B1.take (n1 + e)).drop (trimValue (B1.take (n1 + e))).length ++ [10]))) ++ rest' := by
    unfold editedPrefix
    simp only [htake1, decide_eq_true_eq]
  have hKV : setRest (scanKV dn B n sp B1 n1 e) rest' =
      .kv (normalizeKey dn (B.take n))
        (if decide (e > 0) = true then foldedValue (trimValue (B1.take (n1 + e))) else trimValue (B1.take (n1 + e)))
        rest'
        ((B.take n).length + 1 + ((B.drop (n + 1)).take sp).length + (B1.take (n1 + e)).length + 1) := by
    unfold scanKV setRest
    simp only [decide_eq_true_eq, hKlen, hWlen, hrawlen]
  simp only []
  rw [hEP, hKV]
  exact H


/-- what a `kv` step leaves behind can be scanned again, with any non-continuing bytes behind it -/
def Rescannable (dn : Bool) (k v : Bytes) (m : Nat) (pre : Bytes) : Prop :=
  (∃ K X, pre = K ++ 58 :: X ∧ ∀ y ∈ K, y ≠ 10) ∧
  ∀ rest', contExtra rest' = 0 → scanNextE dn (pre ++ rest') = (.kv k v rest' m, pre ++ rest')

theorem scanNextE_step2 (dn : Bool) (B : Bytes) :
    (scanNextE dn B = (scanNext dn B, B) ∧ ∀ k v r m, scanNext dn B ≠ .kv k v r m) ∨
    (∃ k v rest m pre, scanNextE dn B = (.kv k v rest m, pre ++ rest) ∧ pre.length = m ∧
      contExtra rest = 0 ∧ Rescannable dn k v m pre) := by
  rcases scanNextE_step dn B with l | ⟨k, v, rest, m, pre, hs, hk, hpre, _, _⟩
  · exact Or.inl l
  · right
    rcases scanNext_shape dn B with ⟨h, _⟩ | ⟨t, rfl, h⟩ | ⟨t, rfl, h⟩ | ⟨c, d, t, rfl, h1, h2, h⟩
    · rw [h] at hk; cases hk
    · rw [h] at hk; cases hk
    · rw [h] at hk; cases hk
    · rcases scanLineE_cases dn (c :: d :: t) with ⟨_, hno⟩ | ⟨n, xi, sp, B1, n1, lp, he, hsl⟩
      · rw [h] at hk; exact absurd hk (hno k v rest m)
      · obtain ⟨h0, hK, hI⟩ := scanValueE_idem dn _ n xi sp B1 n1 lp
        have hv := scanValueE_eq dn _ n sp B1 n1 lp.pos
        rw [scanNextE_line dn c d t h1 h2, he, hv]
        rw [hv] at hI
        refine ⟨_, _, _, _, _, rfl, ?_, h0, ⟨_, _, rfl, hK⟩, fun rest' hr => ?_⟩
        · exact editedPrefix_len dn _ n sp B1 n1 _ lp.len lp.fits
        · exact hI rest' hr

theorem contExtra_blockbuf (dn : Bool) (fuel : Nat) (rest : Bytes) (h : contExtra rest = 0) :
    contExtra (scanBlockE dn fuel rest).buf = 0 := by
  cases fuel with
  | zero => simpa [scanBlockE] using h
  | succ f =>
    rcases scanNextE_step2 dn rest with ⟨hs, hk⟩ | ⟨k, v, r, m, pre, hs, hpre, _, ⟨K, X, hKX, hK⟩, _⟩
    · rw [(scanBlockE_stop dn f rest hs hk).1]; exact h
    · rw [scanBlockE_kv dn f rest k v r _ m hs]
      simp only []
      have ht : (pre ++ r).take m = pre := by rw [← hpre]; exact List.take_left
      rw [ht, hKX, List.append_assoc, List.cons_append]
      exact contExtra_key K _ hK

/-- **Scanning the edited buffer again changes nothing**: same fields, same stop, same consumed count, and the
buffer stays as it is (`edit ∘ edit = edit`, and the edit preserves the reading). -/
theorem scanBlockE_idem (dn : Bool) : ∀ (fuel : Nat) (B : Bytes),
    scanBlockE dn fuel (scanBlockE dn fuel B).buf = scanBlockE dn fuel B
  | 0, B => by simp [scanBlockE]
  | fuel + 1, B => by
    rcases scanNextE_step2 dn B with ⟨hs, hk⟩ | ⟨k, v, rest, m, pre, hs, hpre, h0, _, hI⟩
    · rw [(scanBlockE_stop dn fuel B hs hk).1]
    · have ih := scanBlockE_idem dn fuel rest
      have ht : (pre ++ rest).take m = pre := by rw [← hpre]; exact List.take_left
      rw [scanBlockE_kv dn fuel B k v rest _ m hs]
      simp only [ht]
      have hs2 := hI _ (contExtra_blockbuf dn fuel rest h0)
      rw [scanBlockE_kv dn fuel _ k v _ _ m hs2]
      have ht2 : (pre ++ (scanBlockE dn fuel rest).buf).take m = pre := by rw [← hpre]; exact List.take_left
      rw [ht2, ih]


/-! ### rescan after edit, with more bytes -/

theorem scanNext_eq_fst (dn : Bool) (B : Bytes) (s : Scan) (B' : Bytes) (h : scanNextE dn B = (s, B')) :
    scanNext dn B = s := by
  rw [← scanNextE_fst, h]

/-- replacing a key by its canonical form does not change what `Next` answers -/
theorem scanNext_keysub (dn : Bool) (K0 Y : Bytes) (h58 : ∀ y ∈ K0, y ≠ 58) (h10 : ∀ y ∈ K0, y ≠ 10) :
    scanNext dn (normalizeKey dn K0 ++ 58 :: Y) = scanNext dn (K0 ++ 58 :: Y) := by
  have hk58 := normalizeKey_notin dn 58 (Or.inr rfl) K0 h58
  have hk10 := normalizeKey_notin dn 10 (Or.inl rfl) K0 h10
  have hkl := normalizeKey_len dn K0
  cases hj : indexByte 10 Y with
  | none =>
    have hn : ∀ (K : Bytes), (∀ y ∈ K, y ≠ 10) → indexByte 10 (K ++ 58 :: Y) = none := by
      intro K hK
      apply indexByte_append_none 10 K _ hK
      simp [indexByte, hj]
    rw [scanNext_no_lf dn _ (hn _ hk10), scanNext_no_lf dn _ (hn _ h10)]
  | some j =>
    have hpos : ∀ (K : Bytes), (∀ y ∈ K, y ≠ 58) → (∀ y ∈ K, y ≠ 10) →
        scanNext dn (K ++ 58 :: Y) = scanValue dn (K ++ 58 :: Y) K.length := by
      intro K hK58 hK10
      have h1 : indexByte 58 (K ++ 58 :: Y) = some K.length := indexByte_append_notin 58 K Y hK58
      have hsp := indexByte_split 10 Y j hj
      have h2 : indexByte 10 (K ++ 58 :: Y) = some (K.length + 1 + j) := by
        have : K ++ 58 :: Y = (K ++ 58 :: Y.take j) ++ 10 :: Y.drop (j + 1) := by
          conv => lhs; rw [hsp]
          simp
        rw [this]
        have hl : (K ++ 58 :: Y.take j).length = K.length + 1 + j := by
          have := indexByte_lt 10 Y j hj
          simp; omega
        rw [← hl]
        apply indexByte_append_notin 10
        intro y hy
        simp only [List.mem_append, List.mem_cons] at hy
        rcases hy with hy | rfl | hy
        · exact hK10 y hy
        · decide
        · exact indexByte_take_ne 10 Y j hj y hy
      rw [← scanNextE_fst, scanNextE_of_pos dn _ _ _ h1 h2 (by omega), scanValueE_fst]
    rw [hpos _ hk58 hk10, hpos _ h58 h10, hkl]
    have hd : ∀ (K : Bytes), K.length = K0.length → (K ++ 58 :: Y).drop (K0.length + 1) = Y := by
      intro K hK
      rw [show K ++ 58 :: Y = (K ++ [58]) ++ Y by simp]
      exact List.drop_left' (by simp [hK])
    have ht : ∀ (K : Bytes), K.length = K0.length → (K ++ 58 :: Y).take K0.length = K := by
      intro K hK; rw [← hK]; exact List.take_left
    unfold scanValue
    simp only [hd _ hkl, hd _ rfl]
    cases indexByte 10 (List.drop (List.takeWhile isOWS Y).length Y) with
    | none => rfl
    | some n1 =>
      simp only [scanKV, ht _ hkl, ht _ rfl, normalizeKey_idem]

theorem readBlock_congr (dn : Bool) (f : Nat) (X X' : Bytes) (h : scanNext dn X = scanNext dn X') :
    readBlock dn f X = readBlock dn f X' := by
  cases f with
  | zero => rfl
  | succ f => simp only [readBlock, h]

theorem contExtra_blockbuf_app (dn : Bool) (fuel : Nat) (rest more : Bytes) (h : contExtra (rest ++ more) = 0) :
    contExtra ((scanBlockE dn fuel rest).buf ++ more) = 0 := by
  cases fuel with
  | zero => simpa [scanBlockE] using h
  | succ f =>
    rcases scanNextE_step2 dn rest with ⟨hs, hk⟩ | ⟨k, v, r, m, pre, hs, hpre, _, ⟨K, X, hKX, hK⟩, _⟩
    · rw [(scanBlockE_stop dn f rest hs hk).1]; exact h
    · rw [scanBlockE_kv dn f rest k v r _ m hs]
      simp only []
      have ht : (pre ++ r).take m = pre := by rw [← hpre]; exact List.take_left
      rw [ht, hKX, List.append_assoc, List.append_assoc, List.cons_append]
      exact contExtra_key K _ hK


/-- a `kv` step that ran dry without compacting a value has rewritten the key only -/
theorem dry_nofold_buf (dn : Bool) (B k v rest : Bytes) (m : Nat) (hk : scanNext dn B = .kv k v rest m)
    (hd : indexByte 10 rest = none) (hf : dryFold dn B = false) :
    ∃ K0 Y, B = K0 ++ 58 :: Y ∧ (∀ y ∈ K0, y ≠ 58) ∧ (∀ y ∈ K0, y ≠ 10) ∧
      (scanNextE dn B).2 = normalizeKey dn K0 ++ 58 :: Y := by
  rcases scanNext_shape dn B with ⟨h, _⟩ | ⟨t, rfl, h⟩ | ⟨t, rfl, h⟩ | ⟨c, d, t, rfl, h1, h2, h⟩
  · rw [h] at hk; cases hk
  · rw [h] at hk; cases hk
  · rw [h] at hk; cases hk
  · rcases scanLineE_cases dn (c :: d :: t) with ⟨_, hno⟩ | ⟨n, xi, sp, B1, n1, lp, he, hsl⟩
    · rw [h] at hk; exact absurd hk (hno k v rest m)
    · generalize hB : c :: d :: t = B at *
      have hv := scanValueE_eq dn B n sp B1 n1 lp.pos
      have hB1 := lf_at_end B1 n1 lp.pos.n1_eq
      -- the look-ahead found nothing
      have he0 : contExtra (B1.drop (n1 + 1)) = 0 := by
        unfold dryFold at hf
        rw [hk] at hf
        simp only [lp.colon, ← lp.pos.sp_eq, ← lp.pos.b1_eq, lp.pos.n1_eq, hd, Option.isNone_none, Bool.and_true,
          decide_eq_false_iff_not, Nat.not_lt, Nat.le_zero_eq] at hf
        exact hf
      refine ⟨B.take n, B.drop (n + 1), indexByte_split 58 B n lp.colon, indexByte_take_ne 58 B n lp.colon,
        fun y hy => indexByte_take_ne 10 B xi lp.lf y (mem_take_of_le B n xi (Nat.le_of_lt lp.lt) y hy), ?_⟩
      have hline : scanNextE dn B = scanLineE dn B := by rw [← hB]; exact scanNextE_line dn c d t h1 h2
      rw [hline, he, hv, he0]
      simp only [editedPrefix, Nat.add_zero, Nat.lt_irrefl, gt_iff_lt, if_false, List.append_assoc, List.cons_append]
      congr 2
      rw [he0, Nat.add_zero] at hB1
      have h3 : (B1.drop n1).take 1 ++ B1.drop (n1 + 1) = B1.drop n1 := by
        have : B1.drop (n1 + 1) = (B1.drop n1).drop 1 := by rw [List.drop_drop]
        rw [this, List.take_append_drop]
      rw [← List.append_assoc (trimValue (B1.take n1)), trimValue_split, h3, List.take_append_drop, lp.pos.b1_eq,
        List.take_append_drop]

/-- **Rescan after edit = whole, when no value was compacted before it was complete.**  `f`, `f'`: enough fuel. -/
theorem rescan_partial (dn : Bool) : ∀ (f : Nat) (B more : Bytes) (f' : Nat), B.length + 1 ≤ f →
    (B ++ more).length + 1 ≤ f' → anyDryFold dn f B = false →
    readBlock dn f' ((scanBlockE dn f B).buf ++ more) = readBlock dn f' (B ++ more)
  | 0, B, more, f', hf, _, _ => by omega
  | f + 1, B, more, f', hf, hf', hdry => by
    rcases scanNextE_step2 dn B with ⟨hs, hk⟩ | ⟨k, v, rest, m, pre, hs, hpre, h0, ⟨⟨K, X, hKX, hK⟩, hI⟩⟩
    · rw [(scanBlockE_stop dn f B hs hk).1]
    · have hk := scanNext_eq_fst dn B _ _ hs
      have hlen : m + rest.length = B.length := by
        rcases scanNextE_step dn B with ⟨_, hno⟩ | ⟨k2, v2, rest2, m2, pre2, _, hk2, _, _, hl2⟩
        · exact absurd hk (hno k v rest m)
        · rw [hk] at hk2; injection hk2 with _ _ e3 e4; subst e3; subst e4; exact hl2
      have hmpos : 0 < m := by rw [← hpre, hKX]; simp; omega
      have hdry2 : dryFold dn B = false ∧ anyDryFold dn f rest = false := by
        simp only [anyDryFold, hk, Bool.or_eq_false_iff] at hdry; exact hdry
      have ht : (pre ++ rest).take m = pre := by rw [← hpre]; exact List.take_left
      rw [scanBlockE_kv dn f B k v rest _ m hs]
      simp only [ht]
      obtain ⟨f'', rfl⟩ : ∃ f'', f' = f'' + 1 := ⟨f' - 1, by omega⟩
      rcases scanNext_append_or_dry dn B (by rw [hk]; simp) with hst | ⟨k', v', rest', m', hk', hd⟩
      · -- the answer is stable: same first field, then induction on the rest
        have hkm : scanNext dn (B ++ more) = .kv k v (rest ++ more) m := by rw [hst more, hk]; rfl
        have h0m : contExtra (rest ++ more) = 0 := by
          rcases scanNextE_step2 dn (B ++ more) with ⟨_, hno⟩ | ⟨k2, v2, rest2, m2, pre2, hs2, _, h02, _⟩
          · exact absurd hkm (hno _ _ _ _)
          · have := scanNext_eq_fst dn _ _ _ hs2
            rw [hkm] at this; injection this with _ _ e3 _; rw [e3]; exact h02
        have hRm := contExtra_blockbuf_app dn f rest more h0m
        have hs3 := scanNext_eq_fst dn _ _ _ (hI _ hRm)
        have ih := rescan_partial dn f rest more f'' (by omega) (by simp at hf' ⊢; omega) hdry2.2
        rw [List.append_assoc]
        simp only [readBlock, hs3, hkm, ih]
      · -- the look-ahead ran dry but nothing was compacted: only the key was rewritten
        rw [hk] at hk'; injection hk' with _ _ e3 _; subst e3
        obtain ⟨K0, Y, hB, h58, h10, hbuf⟩ := dry_nofold_buf dn B k v rest m hk hd hdry2.1
        have hR : (scanBlockE dn f rest).buf = rest := by
          cases f with
          | zero => rfl
          | succ f0 =>
            have hn := scanNext_no_lf dn rest hd
            rcases scanNextE_step dn rest with ⟨hs4, hk4⟩ | ⟨k4, v4, r4, m4, p4, _, hk4, _⟩
            · exact (scanBlockE_stop dn f0 rest hs4 hk4).1
            · rw [hn] at hk4; cases hk4
        rw [hR]
        have : pre ++ rest = normalizeKey dn K0 ++ 58 :: Y := by rw [← hbuf, hs]
        rw [this]
        conv => rhs; rw [hB]
        simp only [List.append_assoc, List.cons_append]
        exact readBlock_congr dn _ _ _ (scanNext_keysub dn K0 (Y ++ more) h58 h10)


/-- a block scan that did not end in need-more reads the same from every extension of the buffer -/
theorem readBlock_stable (dn : Bool) (x : Bytes) : ∀ (f f' : Nat) (B : Bytes), f ≤ f' →
    (readBlock dn f B).2 ≠ .needMore → readBlock dn f' (B ++ x) = readBlock dn f B
  | 0, _, B, _, h => by simp [readBlock] at h
  | f + 1, f', B, hle, h => by
    obtain ⟨f'', rfl⟩ : ∃ f'', f' = f'' + 1 := ⟨f' - 1, by omega⟩
    have hne : scanNext dn B ≠ .needMore := by
      intro hn; simp [readBlock, hn] at h
    rcases scanNext_append_or_dry dn B hne with hst | ⟨k, v, rest, m, hk, hd⟩
    · cases hk : scanNext dn B with
      | needMore => exact absurd hk hne
      | fin n => simp [readBlock, hst x, hk, Scan.app]
      | invalidName => simp [readBlock, hst x, hk, Scan.app]
      | kv k v rest m =>
        have h2 : (readBlock dn f rest).2 ≠ .needMore := by
          intro hn; simp [readBlock, hk, hn] at h
        have ih := readBlock_stable dn x f f'' rest (by omega) h2
        simp [readBlock, hst x, hk, Scan.app, ih]
    · exfalso
      have hn := scanNext_no_lf dn rest hd
      cases f with
      | zero => simp [readBlock, hk] at h
      | succ f0 => simp [readBlock, hk, hn] at h


/-! ### the callers' loops are functions of the block reading -/

/-- `resp.parseHeaders`' loop as a function of the block reading -/
def respFold (dn : Bool) (st : RespRead.HState) (hl : Nat) (r : List (Bytes × Bytes) × Stop) :
    Except HeadErr (RespRead.HState × Nat) :=
  match r.2 with
  | .fin h => .ok (r.1.foldl (fun s kv => RespRead.applyHeader dn s kv.1 kv.2) st, hl + h)
  | .needMore => .error .needMore
  | .invalidName => .error .bad

theorem headersLoop_eq_fold (dn : Bool) : ∀ (f : Nat) (X : Bytes) (st : RespRead.HState) (hl : Nat),
    RespRead.headersLoop dn f X st hl = respFold dn st hl (readBlock dn f X)
  | 0, X, st, hl => by simp [RespRead.headersLoop, readBlock, respFold]
  | f + 1, X, st, hl => by
    cases hs : scanNext dn X with
    | fin n => simp [RespRead.headersLoop, readBlock, respFold, hs]
    | needMore => simp [RespRead.headersLoop, readBlock, respFold, hs]
    | invalidName => simp [RespRead.headersLoop, readBlock, respFold, hs]
    | kv k v rest n =>
      have ih := headersLoop_eq_fold dn f rest (RespRead.applyHeader dn st k v) (hl + n)
      simp only [RespRead.headersLoop, readBlock, hs, ih, respFold]
      cases (readBlock dn f rest).2 with
      | fin h => simp [Nat.add_assoc]
      | needMore => simp
      | invalidName => simp

/-- `ext.parseTrailer`'s loop as a function of the block reading -/
def trailerStep (tr : List (Bytes × Option Bytes) × Bool) (kv : Bytes × Bytes) : List (Bytes × Option Bytes) × Bool :=
  if kv.1.isEmpty then tr
  else if kv.1.contains 32 || kv.1.contains 9 then (tr.1, true)
  else if isBadTrailer kv.1 then (tr.1, true)
  else (updateTrailer tr.1 kv.1 kv.2, false)

def trailerFold (tr : List (Bytes × Option Bytes)) (err : Bool) (hl : Nat) (r : List (Bytes × Bytes) × Stop) :
    Except TrErr (List (Bytes × Option Bytes) × Nat) :=
  match r.2 with
  | .fin h =>
    let s := r.1.foldl trailerStep (tr, err)
    if s.2 then .error .bad else .ok (s.1, hl + h)
  | .needMore => .error .needMore
  | .invalidName => .error .bad

theorem parseTrailerLoop_eq_fold (dn : Bool) : ∀ (f : Nat) (X : Bytes) (tr : List (Bytes × Option Bytes)) (err : Bool)
    (hl : Nat), parseTrailerLoop dn f X tr err hl = trailerFold tr err hl (readBlock dn f X)
  | 0, X, tr, err, hl => by simp [parseTrailerLoop, readBlock, trailerFold]
  | f + 1, X, tr, err, hl => by
    cases hs : scanNext dn X with
    | fin n => simp [parseTrailerLoop, readBlock, trailerFold, hs]
    | needMore => simp [parseTrailerLoop, readBlock, trailerFold, hs]
    | invalidName => simp [parseTrailerLoop, readBlock, trailerFold, hs]
    | kv k v rest n =>
      have ih := fun tr' err' => parseTrailerLoop_eq_fold dn f rest tr' err' (hl + n)
      simp only [parseTrailerLoop, readBlock, hs, trailerFold]
      have hstep : ∀ (P : List (Bytes × Option Bytes) → Bool → Except TrErr (List (Bytes × Option Bytes) × Nat)),
          (if k.isEmpty then P tr err
           else if k.contains 32 || k.contains 9 then P tr true
           else if isBadTrailer k then P tr true
           else P (updateTrailer tr k v) false) = P (trailerStep (tr, err) (k, v)).1 (trailerStep (tr, err) (k, v)).2 := by
        intro P; unfold trailerStep; simp only []
        split
        · rfl
        · split
          · rfl
          · split <;> rfl
      rw [hstep (fun t e => parseTrailerLoop dn f rest t e (hl + n)), ih, trailerFold]
      cases (readBlock dn f rest).2 with
      | fin h => simp only [Nat.add_assoc, List.foldl_cons]; rfl
      | needMore => simp
      | invalidName => simp


/-! ### the first line is outside the edits -/

theorem indexByte_take_succ (c : UInt8) : ∀ (b : Bytes) (n : Nat), indexByte c b = some n →
    indexByte c (b.take (n + 1)) = some n
  | [], _, h => by simp [indexByte] at h
  | y :: t, n, h => by
    simp only [indexByte] at h
    split at h
    · rename_i hy; simp at h; subst h; simp [indexByte, hy]
    · rename_i hy
      cases hi : indexByte c t with
      | none => simp [hi] at h
      | some k =>
        simp [hi] at h; subst h
        simp [indexByte, hy, indexByte_take_succ c t k hi]

/-- `NextLine` looks at the line and its line feed only -/
theorem nextLine_trunc (b line rest : Bytes) (h : nextLine b = some (line, rest)) :
    nextLine (b.take (b.length - rest.length)) = some (line, []) ∧ rest.length < b.length ∧
      b = b.take (b.length - rest.length) ++ rest := by
  unfold nextLine at h ⊢
  cases hi : indexByte 10 b with
  | none => simp [hi] at h
  | some n =>
    have hlt := indexByte_lt 10 b n hi
    simp only [hi, Option.some.injEq, Prod.mk.injEq] at h
    obtain ⟨h1, h2⟩ := h
    have hd : b.length - rest.length = n + 1 := by rw [← h2]; simp; omega
    rw [hd, indexByte_take_succ 10 b n hi]
    simp only [Option.some.injEq, Prod.mk.injEq]
    refine ⟨⟨?_, ?_⟩, by rw [← h2]; simp; omega, by rw [← h2]; exact (List.take_append_drop _ _).symm⟩
    · rw [List.take_take, Nat.min_eq_left (by omega)]; exact h1
    · rw [List.drop_eq_nil_iff]; simp; omega

theorem take_add_of_split (P rest : Bytes) (k : Nat) : (P ++ rest).take (P.length + k) = P ++ rest.take k := by
  rw [List.take_append, List.take_of_length_le (by omega)]; simp

/-- `parseFirstLine`'s loop looks at the bytes it consumes only -/
theorem parseFirstLineAux_trunc : ∀ (fuel : Nat) (b : Bytes) (c : Nat) (line : Bytes) (m : Nat),
    parseFirstLineAux fuel b c = .ok (line, m) →
    c ≤ m ∧ m - c ≤ b.length ∧ parseFirstLineAux fuel (b.take (m - c)) c = .ok (line, m)
  | 0, _, _, _, _, h => by simp [parseFirstLineAux] at h
  | fuel + 1, b, c, line, m, h => by
    unfold parseFirstLineAux at h ⊢
    cases hn : nextLine b with
    | none => simp [hn] at h
    | some p =>
      obtain ⟨l, rest⟩ := p
      obtain ⟨ht, hlt, hsplit⟩ := nextLine_trunc b l rest hn
      simp only [hn] at h
      generalize hP : b.take (b.length - rest.length) = P at ht hsplit
      have hPl : P.length = b.length - rest.length := by rw [← hP]; simp
      by_cases he : l.isEmpty = true
      · simp only [he, if_true] at h
        obtain ⟨ih1, ih2, ih3⟩ := parseFirstLineAux_trunc fuel rest _ line m h
        have htk : b.take (m - c) = P ++ rest.take (m - (c + (b.length - rest.length))) := by
          have : m - c = P.length + (m - (c + (b.length - rest.length))) := by omega
          rw [this, ← take_add_of_split, ← hsplit]
        refine ⟨by omega, by omega, ?_⟩
        rw [htk]
        obtain ⟨h1, _, h3⟩ := nextLine_append P (rest.take (m - (c + (b.length - rest.length)))) l [] ht
        simp only [List.nil_append] at h1 h3
        simp only [h1, he, if_true]
        have hc : (P ++ rest.take (m - (c + (b.length - rest.length)))).length -
            (rest.take (m - (c + (b.length - rest.length)))).length = b.length - rest.length := by
          simp; omega
        rw [hc]; exact ih3
      · simp only [he, if_false, Except.ok.injEq, Prod.mk.injEq] at h
        obtain ⟨rfl, rfl⟩ := h
        have hmc : c + (b.length - rest.length) - c = b.length - rest.length := by omega
        refine ⟨by omega, by omega, ?_⟩
        rw [hmc, hP, ht]
        simp [he, hPl]

/-- the client's `parseFirstLine` looks at the bytes it consumes only -/
theorem respFirstLine_local (X Z : Bytes) (hd : RespRead.RespHead) (m : Nat)
    (h : RespRead.parseFirstLine X = .ok (hd, m)) (hZ : X.length ≤ (X.take m ++ Z).length) :
    RespRead.parseFirstLine (X.take m ++ Z) = .ok (hd, m) := by
  unfold RespRead.parseFirstLine at h ⊢
  cases ha : parseFirstLineAux (X.length + 1) X 0 with
  | error e => simp [ha, bind, Except.bind] at h
  | ok p =>
    obtain ⟨line, c⟩ := p
    have hcm : c = m := by
      simp only [ha, bind, Except.bind] at h
      split at h
      · cases h
      · split at h
        · cases h
        · split at h
          · cases h
          · simp only [Except.ok.injEq, Prod.mk.injEq] at h; exact h.2
    subst hcm
    obtain ⟨_, _, ht⟩ := parseFirstLineAux_trunc _ X 0 line c ha
    simp only [Nat.sub_zero] at ht
    have := parseFirstLineAux_append (X.length + 1) ((X.take c ++ Z).length + 1) (X.take c) Z 0 (line, c) ht (by omega)
    rw [this]
    rw [ha] at h
    exact h


/-! ### the trailer section -/

theorem kv_positions (dn : Bool) (X k v r : Bytes) (m : Nat) (h : scanNext dn X = .kv k v r m) :
    ∃ n xi, indexByte 58 X = some n ∧ indexByte 10 X = some xi ∧ n < xi := by
  rcases scanNext_shape dn X with ⟨h', _⟩ | ⟨t, rfl, h'⟩ | ⟨t, rfl, h'⟩ | ⟨c, d, t, rfl, h1, h2, h'⟩
  · rw [h] at h'; cases h'
  · rw [h] at h'; cases h'
  · rw [h] at h'; cases h'
  · rw [h'] at h
    obtain ⟨n, xi, hn, hx, hc⟩ := scanLine_cases dn _ (by rw [h]; simp)
    rcases hc with ⟨_, hi⟩ | ⟨hlt, _⟩
    · rw [h] at hi; cases hi
    · exact ⟨n, xi, hn, hx, hlt⟩

/-- a section that starts with a header line does not start with a `0\r\n` line -/
theorem parseTrailer_of_pos (dn : Bool) (tr : List (Bytes × Option Bytes)) (X : Bytes) (n xi : Nat)
    (hn : indexByte 58 X = some n) (hx : indexByte 10 X = some xi) (hlt : n < xi) :
    parseTrailer dn tr X = parseTrailerLoop dn (X.length + 1) X tr false 0 := by
  unfold parseTrailer
  match X, hn, hx with
  | [], hn, _ => simp [indexByte] at hn
  | [c], hn, hx =>
    simp only [indexByte] at hn hx
    split at hn <;> split at hx <;> simp_all
  | [c, d], hn, hx =>
    by_cases hc : c = 48
    · subst hc
      simp only [indexByte] at hn hx
      exfalso
      simp at hn hx
      omega
    · split
      · rename_i heq; simp at heq; exact absurd heq.1 hc
      · rfl
  | c :: d :: e :: t, hn, hx =>
    by_cases hc : c = 48
    · subst hc
      simp only []
      have hlen : ¬ ((48 :: d :: e :: t : Bytes).length < 3) := by simp
      rw [if_neg hlen]
      have hne : ¬ ((d :: e :: t).take 2 = Gen.Str.strCRLF) := by
        intro heq
        have hde : d = 13 ∧ e = 10 := by
          have : (d :: e :: t).take 2 = [d, e] := rfl
          rw [this] at heq
          have h2 : Gen.Str.strCRLF = [13, 10] := by decide
          rw [h2] at heq
          simpa using heq
        obtain ⟨rfl, rfl⟩ := hde
        simp [indexByte] at hn hx
        subst hx
        obtain ⟨a, _, ha⟩ := hn
        omega
      rw [if_neg hne]
    · split
      · rename_i heq; simp at heq; exact absurd heq.1 hc
      · rfl


theorem indexByte_of_mem (c : UInt8) : ∀ (l : Bytes), c ∈ l → ∃ i, indexByte c l = some i ∧ i < l.length
  | [], h => by simp at h
  | y :: t, h => by
    by_cases hy : y = c
    · exact ⟨0, by simp [indexByte, hy], by simp⟩
    · have ht : c ∈ t := by
        rcases List.mem_cons.mp h with h' | h'
        · exact absurd h'.symm hy
        · exact h'
      obtain ⟨i, hi, hl⟩ := indexByte_of_mem c t ht
      exact ⟨i + 1, by simp [indexByte, hy, hi], by simp; omega⟩

theorem indexByte_of_append_lt (c : UInt8) : ∀ (a b : Bytes) (i : Nat), indexByte c (a ++ b) = some i → i < a.length →
    indexByte c a = some i
  | [], _, _, _, hl => by simp at hl
  | y :: t, b, i, h, hl => by
    simp only [List.cons_append, indexByte] at h ⊢
    split
    · rename_i hy; simp [hy] at h; exact congrArg some h
    · rename_i hy
      simp only [hy, if_false] at h
      cases hj : indexByte c (t ++ b) with
      | none => simp [hj] at h
      | some j =>
        simp [hj] at h; subst h
        have := indexByte_of_append_lt c t b j hj (by simp at hl; omega)
        simp [this]

/-- the bytes a `kv` step leaves behind start with a header line, whatever follows them -/
theorem pre_positions (dn : Bool) (pre rest k v : Bytes) (m : Nat)
    (h : scanNext dn (pre ++ rest) = .kv k v rest m) :
    ∃ n xi, n < xi ∧ ∀ Z, indexByte 58 (pre ++ Z) = some n ∧ indexByte 10 (pre ++ Z) = some xi := by
  obtain ⟨n, xi, hn, hx, hlt⟩ := kv_positions dn _ k v rest m h
  obtain ⟨⟨P, hP⟩, _, _, _⟩ := scanNext_rest dn _ k v rest m h
  have hpre : pre = P ++ [10] := by
    have : pre ++ rest = (P ++ [10]) ++ rest := by rw [hP]; simp
    exact List.append_cancel_right this
  obtain ⟨j, hj, hjl⟩ := indexByte_of_mem 10 pre (by rw [hpre]; simp)
  have hxj : xi = j := by
    have := indexByte_append 10 pre rest j hj
    rw [hx] at this; injection this
  subst hxj
  have hn' := indexByte_of_append_lt 58 pre rest n hn (by omega)
  exact ⟨n, xi, hlt, fun Z => ⟨indexByte_append 58 pre Z n hn', indexByte_append 10 pre Z xi hj⟩⟩

/-- **Trailer section without the `0\r\n` question**: `ext.parseTrailer` on the edited section followed by more bytes -/
theorem parseTrailer_rescan (dn : Bool) (tr : List (Bytes × Option Bytes)) (B more : Bytes)
    (hc : anyDryFold dn (B.length + 1) B = false) :
    parseTrailer dn tr (editBlock dn B ++ more) = parseTrailer dn tr (B ++ more) := by
  have hlen : (editBlock dn B ++ more).length = (B ++ more).length := by
    simp [editBlock, scanBlock, (scanBlockE_local dn (B.length + 1) B).1]
  rcases scanNextE_step2 dn B with ⟨hs, hk⟩ | ⟨k, v, rest, m, pre, hs, hpre, h0, ⟨_, hI⟩⟩
  · have : editBlock dn B = B := (scanBlockE_stop dn B.length B hs hk).1
    rw [this]
  · have hkv := scanNext_eq_fst dn B _ _ hs
    obtain ⟨n, xi, hn, hx, hlt⟩ := kv_positions dn B k v rest m hkv
    have hR : parseTrailer dn tr (B ++ more) = parseTrailerLoop dn ((B ++ more).length + 1) (B ++ more) tr false 0 :=
      parseTrailer_of_pos dn tr _ n xi (indexByte_append 58 B more n hn) (indexByte_append 10 B more xi hx) hlt
    have hE : editBlock dn B = pre ++ (scanBlockE dn B.length rest).buf := by
      unfold editBlock scanBlock
      rw [scanBlockE_kv dn B.length B k v rest _ m hs]
      simp only []
      rw [← hpre, List.take_left]
    obtain ⟨n', xi', hlt', hpos⟩ := pre_positions dn pre rest k v m (scanNext_eq_fst dn _ _ _ (hI rest h0))
    have hL : parseTrailer dn tr (editBlock dn B ++ more) =
        parseTrailerLoop dn ((editBlock dn B ++ more).length + 1) (editBlock dn B ++ more) tr false 0 := by
      have hp := hpos ((scanBlockE dn B.length rest).buf ++ more)
      rw [← List.append_assoc, ← hE] at hp
      exact parseTrailer_of_pos dn tr _ n' xi' hp.1 hp.2 hlt'
    rw [hL, hR, hlen, parseTrailerLoop_eq_fold, parseTrailerLoop_eq_fold]
    unfold editBlock scanBlock
    rw [rescan_partial dn _ B more _ (Nat.le_refl _) (Nat.le_refl _) hc]


theorem editTrailer_eq (dn : Bool) (B : Bytes) : editTrailer dn B = editBlock dn B := by
  unfold editTrailer editBlock
  simp only []
  split
  · unfold scanBlock
    rw [(scanBlockE_local dn (B.length + 1) B).1, scanBlockE_idem]
  · rfl

/-- **`ext.parseTrailer`, whole buffer (with the optional `0\r\n` in front), rescan after edit** -/
theorem trailerParse_rescan (dn : Bool) (tr : List (Bytes × Option Bytes)) (buf more : Bytes)
    (hc : anyDryFold dn ((trailerSection buf).length + 1) (trailerSection buf) = false) :
    parseTrailer dn tr ((trailerParseE dn tr buf).2 ++ more) = parseTrailer dn tr (buf ++ more) := by
  unfold trailerParseE
  split
  · rename_i rest
    by_cases hlen : (48 :: rest : Bytes).length < 3
    · simp only [hlen, if_true]
    · simp only [hlen, if_false]
      by_cases hcr : rest.take 2 = Gen.Str.strCRLF
      · simp only [hcr, if_true]
        rw [editTrailer_eq]
        have hsec : trailerSection (48 :: rest) = (48 :: rest : Bytes).drop 3 := by
          simp only [trailerSection, hlen, if_false, hcr, if_true]
        rw [hsec] at hc
        match rest, hcr, hc with
        | [], hcr, _ => exact absurd hcr (by decide)
        | [a], hcr, _ =>
          exfalso
          have h2 : Gen.Str.strCRLF = [13, 10] := by decide
          rw [h2] at hcr; simp at hcr
        | a :: b :: r3, hcr, hc =>
          have h2 : Gen.Str.strCRLF = [13, 10] := by decide
          have hab : a = 13 ∧ b = 10 := by
            rw [h2] at hcr
            have : (a :: b :: r3).take 2 = [a, b] := rfl
            rw [this] at hcr; simpa using hcr
          obtain ⟨rfl, rfl⟩ := hab
          have hd3 : (48 :: 13 :: 10 :: r3 : Bytes).drop 3 = r3 := rfl
          have ht3 : (48 :: 13 :: 10 :: r3 : Bytes).take 3 = [48, 13, 10] := rfl
          rw [hd3] at hc ⊢
          rw [ht3]
          have hel : (editBlock dn r3).length = r3.length := by
            simp [editBlock, scanBlock, (scanBlockE_local dn (r3.length + 1) r3).1]
          have hz : ∀ (X : Bytes), parseTrailer dn tr (48 :: 13 :: 10 :: X) =
              match parseTrailerLoop dn (X.length + 4) X tr false 0 with
              | .ok (t, n) => .ok (t, n + 3)
              | .error x => .error x := by
            intro X
            rw [parseTrailer_zero]
            have h1 : ¬ ((48 :: 13 :: 10 :: X : Bytes).length < 3) := by simp
            have h3 : (13 :: 10 :: X : Bytes).take 2 = Gen.Str.strCRLF := by
              have : (13 :: 10 :: X : Bytes).take 2 = [13, 10] := rfl
              rw [this]; decide
            rw [if_neg h1, if_pos h3]
            rfl
          have e1 : [48, 13, 10] ++ editBlock dn r3 ++ more = 48 :: 13 :: 10 :: (editBlock dn r3 ++ more) := by simp
          have e2 : (48 :: 13 :: 10 :: r3) ++ more = 48 :: 13 :: 10 :: (r3 ++ more) := by simp
          rw [e1, e2, hz, hz]
          have hl2 : (editBlock dn r3 ++ more).length = (r3 ++ more).length := by simp [hel]
          rw [hl2, parseTrailerLoop_eq_fold, parseTrailerLoop_eq_fold]
          unfold editBlock scanBlock
          rw [rescan_partial dn _ r3 more _ (Nat.le_refl _) (by omega) hc]
      · simp only [hcr, if_false]
        rw [editTrailer_eq]
        have hsec : trailerSection (48 :: rest) = 48 :: rest := by
          simp only [trailerSection, hlen, if_false, hcr]
        rw [hsec] at hc
        exact parseTrailer_rescan dn tr _ more hc
  · rename_i hne
    rw [editTrailer_eq]
    have hsec : trailerSection buf = buf := by
      unfold trailerSection
      split
      · rename_i rest; exact absurd rfl (hne rest)
      · rfl
    rw [hsec] at hc
    exact parseTrailer_rescan dn tr _ more hc


end Hertz.H1.ScanEdit
