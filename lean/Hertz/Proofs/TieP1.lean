import Hertz.Proofs.Tie
import Hertz.Model.Fs
import Hertz.Model.Http1.Scan
/-!
Tie lemmas, part 1: `bytesconv.ParseUintBuf`, `ParseUint` against the models of `Hertz.FS` (C08) and `Hertz.H1` (C01/C03).
-/
open Hertz

namespace Hertz.Tie

/-- the Go error variable a model error stands for -/
def errName : FS.UErr → String
  | .empty => "errEmptyInt"
  | .firstChar => "errUnexpectedFirstChar"
  | .tooLong => "errTooLongInt"
  | .trailing => "errUnexpectedTrailingChar"

/-- `(v, n, err)` of the model as the Go triple -/
def viewBuf (r : Int × Nat × Option FS.UErr) : Int × Int × Option String := (r.1, (r.2.1 : Int), r.2.2.map errName)

theorem guard_eq (k : UInt8) : Go.quo (Go.sub Go.maxInt (Go.intOfByte k)) 10 = (FS.maxInt - (k.toNat : Int)) / 10 := by
  have hk : k.toNat < 256 := k.toNat_lt
  unfold Go.quo Go.sub Go.intOfByte Go.maxInt FS.maxInt
  rw [wrap_id (x := 9223372036854775807 - (k.toNat : Int)) (by omega) (by omega)]
  rw [Int.tdiv_eq_ediv_of_nonneg (by omega)]
  rw [wrap_id (by omega) (by omega)]

theorem step_eq (v : Int) (k : UInt8) : Go.add (Go.mul 10 v) (Go.intOfByte k) = FS.wrap64 (10 * v + (k.toNat : Int)) := by
  unfold Go.add Go.mul Go.intOfByte Go.wrap FS.wrap64; omega

theorem parseUint_loop (b : Bytes) (cond : Int × Int → Go.G Bool) (body : Int × Int → Go.G (Go.Ctl (Int × Int) (Int × Int × Option String)))
    (post : Int × Int → Go.G (Int × Int))
    (hc : ∀ i v, cond (i, v) = .ok (decide (i < Go.len b)))
    (hb : ∀ i v, body (i, v) = Except.bind (Go.idx b i) (fun t_1 =>
          let c : UInt8 := t_1
          let k : UInt8 := (c - (48 : UInt8))
          (if (decide (k > (9 : UInt8))) then
            (if (i == (0 : Int)) then
              (Except.ok (Go.Ctl.ret ((-1 : Int), i, (some "errUnexpectedFirstChar" : Option String))))
              else
              (Except.ok (Go.Ctl.ret (v, i, (none : Option String)))))
            else
            (if (decide (v > (Go.quo (Go.sub Go.maxInt (Go.intOfByte k)) (10 : Int)))) then
              (Except.ok (Go.Ctl.ret ((-1 : Int), i, (some "errTooLongInt" : Option String))))
              else
              let v : Int := (Go.add (Go.mul (10 : Int) v) (Go.intOfByte k))
              (Except.ok (Go.Ctl.next (i, v)))))))
    (hp : ∀ i v, post (i, v) = .ok (Go.add i 1, v))
    (hlen : b.length < 2^63) :
    ∀ (t p : Bytes) (fuel : Nat) (v : Int), b = p ++ t → t.length < fuel →
      Except.bind (Go.forLoop cond body post fuel ((p.length : Int), v)) (fun r =>
        match r with
        | Go.Ctl.ret x => Except.ok x
        | Go.Ctl.next (_, v) | Go.Ctl.brk (_, v) => Except.ok (v, Go.len b, (none : Option String)))
      = .ok (viewBuf (FS.parseUintLoop t v p.length)) := by
  intro t
  induction t with
  | nil =>
    intro p fuel v hb' hf
    cases fuel with
    | zero => omega
    | succ f =>
      subst hb'
      simp [Go.forLoop, hc, Go.len, FS.parseUintLoop, viewBuf, Except.bind]
  | cons c t ih =>
    intro p fuel v hb' hf
    cases fuel with
    | zero => omega
    | succ f =>
      have h1 : cond ((p.length : Int), v) = .ok true := by
        rw [hc, hb']; simp [Go.len]; omega
      have hpa : (p.length : Int) + 1 < 9223372036854775808 := by subst hb'; simp at hlen; omega
      have h3 : Go.add (p.length : Int) 1 = ((p ++ [c]).length : Int) := by
        unfold Go.add; rw [wrap_id (by omega) hpa]; simp
      have hidx : Go.idx b (p.length : Int) = .ok c := by rw [hb', idx_append]
      simp only [Go.forLoop, h1, hb, hidx, Except.bind, FS.parseUintLoop, guard_eq, step_eq]
      by_cases hk : c - 48 > 9
      · by_cases hp0 : p.length = 0
        · simp [hk, hp0, viewBuf, errName]
        · have : ¬ ((p.length : Int) = 0) := by omega
          simp [hk, hp0, viewBuf]
      · by_cases hg : v > (FS.maxInt - ((c - 48).toNat : Int)) / 10
        · simp [hk, hg, viewBuf, errName]
        · simp only [hk, hg, decide_false, Bool.false_eq_true, if_false, hp, h3]
          have := ih (p ++ [c]) f (FS.wrap64 (10 * v + ((c - 48).toNat : Int))) (by simp [hb']) (by simp at hf; omega)
          simp only [Except.bind] at this
          simpa using this

theorem parseUintBuf_eq (b : Bytes) (hlen : b.length < 2^63) :
    Gen.Funcs.parseUintBuf b = .ok (viewBuf (FS.parseUintBuf b)) := by
  unfold Gen.Funcs.parseUintBuf FS.parseUintBuf
  by_cases h0 : b.length = 0
  · simp [Go.len, h0, viewBuf, errName]
  · have hne : ((Go.len b == (0 : Int)) = true) = False := by simp [Go.len]; intro h; exact h0 (by simp [h])
    simp only [hne, h0, if_false]
    refine (parseUint_loop b _ _ _ ?_ ?_ ?_ hlen b [] _ 0 rfl ?_)
    · intro i v; rfl
    · intro i v; rfl
    · intro i v; rfl
    · simp [Go.fuelOf, Go.len]

/-- every error return of the model loop carries the value `-1` (as the Go code does) -/
theorem loop_err_val : ∀ (t : Bytes) (v : Int) (i : Nat) (e : FS.UErr), (FS.parseUintLoop t v i).2.2 = some e →
    (FS.parseUintLoop t v i).1 = -1
  | [], v, i, e, h => by simp [FS.parseUintLoop] at h
  | c :: t, v, i, e, h => by
    unfold FS.parseUintLoop at h ⊢
    by_cases hk : c - 48 > 9
    · by_cases hi : i = 0 <;> simp_all
    · by_cases hg : v > (FS.maxInt - ((c - 48).toNat : Int)) / 10
      · simp only [hk, hg, if_false, if_true]
      · simp only [hk, hg, if_false] at h ⊢
        exact loop_err_val t _ _ e h

/-- the Go pair `(value, err)` a model result of `ParseUint` stands for -/
def viewU : Except FS.UErr Int → Int × Option String
  | .ok v => (v, none)
  | .error e => (-1, some (errName e))

theorem parseUint_eq (b : Bytes) (hlen : b.length < 2^63) :
    Gen.Funcs.parseUint b = .ok (viewU (FS.parseUint b)) := by
  unfold Gen.Funcs.parseUint FS.parseUint
  rw [parseUintBuf_eq b hlen]
  have hv : ∀ e, (FS.parseUintBuf b).2.2 = some e → (FS.parseUintBuf b).1 = -1 := by
    intro e; unfold FS.parseUintBuf
    by_cases h0 : b.length = 0
    · simp [h0]
    · simp only [h0, if_false]; exact loop_err_val b 0 0 e
  rcases hr : FS.parseUintBuf b with ⟨v, n, err⟩
  rw [hr] at hv
  simp only [Except.bind, viewBuf, Go.len]
  by_cases hn : n = b.length
  · subst hn
    cases err with
    | none => simp [viewU]
    | some e => have := hv e rfl; simp at this; simp [viewU, this]
  · have : ¬ ((n : Int) = (b.length : Int)) := by omega
    simp [hn, this, viewU, errName]

/-! ### the second hand model of the same function (`Hertz.H1`, natural numbers, used by C01/C03) -/

def toH1 : Int × Nat × Option FS.UErr → Except H1.UintErr (Nat × Nat)
  | (v, n, none) => .ok (v.toNat, n)
  | (_, _, some .firstChar) => .error .firstChar
  | (_, _, some .tooLong) => .error .tooLong
  | (_, _, some _) => .error .empty

theorem two63 : (2 : Nat) ^ 63 = 9223372036854775808 := by rfl

theorem h1_loop (t : Bytes) : ∀ (v i : Nat), (v : Int) < 9223372036854775808 →
    toH1 (FS.parseUintLoop t (v : Int) i) = H1.parseUintAux v i t := by
  induction t with
  | nil => intro v i _; simp [FS.parseUintLoop, H1.parseUintAux, toH1]
  | cons c t ih =>
    intro v i hv
    unfold FS.parseUintLoop H1.parseUintAux
    rw [two63]
    have hk : (c - 48).toNat < 256 := (c - 48).toNat_lt
    by_cases h9 : c - 48 > 9
    · by_cases hi : i = 0 <;> simp [h9, hi, toH1]
    · have hg : ((v : Int) > (FS.maxInt - ((c - 48).toNat : Int)) / 10) ↔
          (v > (9223372036854775808 - 1 - (c - 48).toNat) / 10) := by
        unfold FS.maxInt; omega
      by_cases hgg : v > (9223372036854775808 - 1 - (c - 48).toNat) / 10
      · have := hg.mpr hgg
        simp [h9, hgg, this, toH1]
      · have hng : ¬ ((v : Int) > (FS.maxInt - ((c - 48).toNat : Int)) / 10) := fun h => hgg (hg.mp h)
        have hfit : ((10 * v + (c - 48).toNat : Nat) : Int) < 9223372036854775808 := by omega
        have hw : FS.wrap64 (10 * (v : Int) + ((c - 48).toNat : Int)) = ((10 * v + (c - 48).toNat : Nat) : Int) := by
          unfold FS.wrap64; omega
        simp only [h9, hgg, hng, if_false, hw]
        exact ih _ _ hfit

theorem h1_buf (b : Bytes) : toH1 (FS.parseUintBuf b) = H1.parseUintBuf b := by
  unfold FS.parseUintBuf H1.parseUintBuf
  cases b with
  | nil => simp [toH1]
  | cons c t => simpa using h1_loop (c :: t) 0 0 (by decide)

/-- `ParseUint` read as "value or rejected" -/
def viewOpt (r : Int × Option String) : Option Nat := if r.2.isNone then some r.1.toNat else none

theorem parseUint_eq_h1 (b : Bytes) (hlen : b.length < 2^63) :
    (Gen.Funcs.parseUint b).map viewOpt = .ok (H1.parseUint b) := by
  rw [parseUint_eq b hlen]
  unfold H1.parseUint FS.parseUint
  rw [← h1_buf]
  rcases FS.parseUintBuf b with ⟨v, n, err⟩
  cases err with
  | none => by_cases hn : n = b.length <;> simp [toH1, viewU, viewOpt, Except.map, hn]
  | some e => by_cases hn : n = b.length <;> cases e <;> simp [toH1, viewU, viewOpt, Except.map, hn]

end Hertz.Tie
