import Hertz.Gen.Funcs
import Hertz.Model.Bytesconv
import Hertz.Model.Http1.Scan
/-!
Lemmas for `Hertz.Props.Tie`: the mechanically translated Go functions of `Hertz.Gen.Funcs` are equal to the hand
models.  Common part (arithmetic, indexing, the two loop shapes) + the first functions; `TieP*.lean` hold the rest.

Proof pattern for a `Go.forLoop`: state the loop lemma for ARBITRARY `cond body post` characterised pointwise
(`hc hb hp`), so that `simp` cannot rewrite inside the lambdas and the induction hypothesis keeps matching; the
generated lambdas are plugged in with `fun _ => rfl`.
-/
open Hertz

namespace Hertz.Tie

instance instDecEqExcept {ε α : Type} [DecidableEq ε] [DecidableEq α] : DecidableEq (Except ε α)
  | .ok a, .ok b => if h : a = b then isTrue (by rw [h]) else isFalse (fun h' => h (Except.ok.inj h'))
  | .error a, .error b => if h : a = b then isTrue (by rw [h]) else isFalse (fun h' => h (Except.error.inj h'))
  | .ok _, .error _ => isFalse (fun h => by cases h)
  | .error _, .ok _ => isFalse (fun h => by cases h)

/-! ### arithmetic and indexing -/

theorem wrap_id {x : Int} (h1 : -9223372036854775808 ≤ x) (h2 : x < 9223372036854775808) : Go.wrap x = x := by
  unfold Go.wrap; omega

theorem idx_append (p : Bytes) (c : UInt8) (t : Bytes) : Go.idx (p ++ c :: t) (p.length : Int) = .ok c := by
  simp [Go.idx]

set_option maxRecDepth 100000 in
theorem hexHi_tbl : allBytes (fun c => decide (Go.idx Gen.upperhex.toList (Go.intOfByte (c >>> 4)) = .ok (upperhex (c >>> 4)))) = true := by decide +kernel
set_option maxRecDepth 100000 in
theorem hexLo_tbl : allBytes (fun c => decide (Go.idx Gen.upperhex.toList (Go.intOfByte (c &&& 15)) = .ok (upperhex (c &&& 15)))) = true := by decide +kernel

/-- `upperhex[c>>4]` never panics -/
theorem hexHi (c : UInt8) : Go.idx Gen.upperhex.toList (Go.intOfByte (c >>> 4)) = .ok (upperhex (c >>> 4)) := by
  simpa using allBytes_spec hexHi_tbl c
/-- `upperhex[c&15]` never panics -/
theorem hexLo (c : UInt8) : Go.idx Gen.upperhex.toList (Go.intOfByte (c &&& 15)) = .ok (upperhex (c &&& 15)) := by
  simpa using allBytes_spec hexLo_tbl c

/-! ### `for _, c := range src` whose body only appends to the carried slice -/

theorem rangeLoop_append {ρ : Type} (body : UInt8 → Bytes → Go.G (Go.Ctl Bytes ρ)) (enc : UInt8 → Bytes)
    (h : ∀ c dst, body c dst = .ok (.next (dst ++ enc c))) :
    ∀ (src dst : Bytes), Go.rangeLoop body src dst = .ok (.next (dst ++ src.flatMap enc)) := by
  intro src
  induction src with
  | nil => intro dst; simp [Go.rangeLoop]
  | cons c t ih => intro dst; simp [Go.rangeLoop, h, ih]

/-! ### `bytesconv.AppendQuotedArg` -/

def encArg (c : UInt8) : Bytes := if c = 32 then [43] else if argShouldEscape c then pctEnc c else [c]

theorem quoteArg_flatMap (src : Bytes) : quoteArg src = src.flatMap encArg := by
  induction src with
  | nil => rfl
  | cons c t ih => simp [quoteArg, encArg, ih]

theorem appendQuotedArg_eq (dst src : Bytes) :
    Gen.Funcs.appendQuotedArg dst src = .ok (dst ++ quoteArg src) := by
  unfold Gen.Funcs.appendQuotedArg
  rw [rangeLoop_append _ encArg, quoteArg_flatMap]; rfl
  intro c dst
  simp only [hexHi, hexLo, Except.bind, encArg, argShouldEscape, pctEnc]
  by_cases h1 : c = 32
  · simp [h1]
  · by_cases h2 : tget Gen.quotedArgShouldEscapeTable c = 0 <;> simp [h1, h2]

/-! ### `utils.CaseInsensitiveCompare` -/

theorem ci_loop (a b : Bytes) (cond : Int → Go.G Bool) (body : Int → Go.G (Go.Ctl Int Bool)) (post : Int → Go.G Int)
    (hc : ∀ i, cond i = .ok (decide (i < Go.len a)))
    (hb : ∀ i, body i = Except.bind (Go.idx a i) (fun t_1 => Except.bind (Go.idx b i) (fun t_2 =>
            if ((tget Gen.toLowerTable t_1) != (tget Gen.toLowerTable t_2)) then (Except.ok (Go.Ctl.ret false))
            else (Except.ok (Go.Ctl.next i)))))
    (hp : ∀ i, post i = .ok (Go.add i 1))
    (hlen : a.length < 2^63) :
    ∀ (ta tb pa pb : Bytes) (fuel : Nat), a = pa ++ ta → b = pb ++ tb → pa.length = pb.length → ta.length = tb.length →
      ta.length < fuel →
      Go.forLoop cond body post fuel (pa.length : Int) =
        .ok (if H1.ciEq ta tb then .next (Go.len a) else .ret false) := by
  intro ta
  induction ta with
  | nil =>
    intro tb pa pb fuel ha hb' hl hl2 hf
    cases tb with
    | cons _ _ => simp at hl2
    | nil =>
      cases fuel with
      | zero => omega
      | succ f =>
        subst ha
        simp [Go.forLoop, hc, Go.len, H1.ciEq]
  | cons c t ih =>
    intro tb pa pb fuel ha hb' hl hl2 hf
    cases tb with
    | nil => simp at hl2
    | cons d u =>
      cases fuel with
      | zero => omega
      | succ f =>
        have h1 : cond (pa.length : Int) = .ok true := by
          rw [hc, ha]; simp [Go.len]; omega
        have h2 : body (pa.length : Int) = if toLower c != toLower d then .ok (.ret false) else .ok (.next (pa.length : Int)) := by
          rw [hb]; conv => lhs; rw [ha, hb', idx_append, hl, idx_append]
          simp [Except.bind, toLower, hl]
        have hpa : (pa.length : Int) + 1 < 9223372036854775808 := by subst ha; simp at hlen; omega
        have h3 : Go.add (pa.length : Int) 1 = ((pa ++ [c]).length : Int) := by
          unfold Go.add; rw [wrap_id (by omega) hpa]; simp
        simp only [Go.forLoop, h1, h2, H1.ciEq]
        by_cases hcd : toLower c = toLower d
        · simp only [hcd, bne_self_eq_false, Bool.false_eq_true, if_false, hp, h3]
          rw [ih u (pa ++ [c]) (pb ++ [d]) f (by simp [ha]) (by simp [hb']) (by simp [hl]) (by simpa using hl2) (by simp at hf; omega)]
          simp
        · simp [hcd]

theorem ciEq_len_ne : ∀ (a b : Bytes), a.length ≠ b.length → H1.ciEq a b = false
  | [], [], h => by simp at h
  | [], _ :: _, _ => rfl
  | _ :: _, [], _ => rfl
  | x :: s, y :: t, h => by simp [H1.ciEq, ciEq_len_ne s t (by simpa using h)]

theorem caseInsensitiveCompare_eq (a b : Bytes) (hlen : a.length < 2^63) :
    Gen.Funcs.caseInsensitiveCompare a b = .ok (H1.ciEq a b) := by
  unfold Gen.Funcs.caseInsensitiveCompare
  by_cases hl : a.length = b.length
  · have := ci_loop a b _ _ _ (fun _ => rfl) (fun _ => rfl) (fun _ => rfl) hlen a b [] [] (Go.fuelOf (Go.len a - 0)) rfl rfl rfl hl (by simp [Go.fuelOf, Go.len])
    simp only [List.length_nil, Int.natCast_zero] at this
    simp only [Go.len, hl, bne_self_eq_false, Bool.false_eq_true, if_false]
    simp only [Go.len, hl] at this
    rw [this]
    cases H1.ciEq a b <;> rfl
  · have : H1.ciEq a b = false := ciEq_len_ne a b hl
    simp [Go.len, this]; intro h; omega

end Hertz.Tie
