import Hertz.Proofs.ShutdownSpecInv
/-!
The observable projection (`obsRun`) of every run of the interleaving model `Hertz.Shutdown`
satisfies the clauses of the trace specification `Hertz.ShutdownSpec` — the predicate the C18 driver
evaluates on the event sequence recorded around the REAL server.
-/
namespace Hertz.Shutdown
open Hertz.ShutdownSpec

/-! ### which step produced an event -/

theorem obsAct_X {s : State} {a : Act} {c k : Nat} {b : Bool} (h : obsAct s a = some (.X c k b)) :
    a = .handlerRet c b ∧ ∃ cn, s.conns[c]? = some cn ∧ k = cn.started - 1 := by
  cases a <;> simp [obsAct] at h
  obtain ⟨cn, hc, rfl, rfl, rfl⟩ := h
  exact ⟨rfl, cn, hc, rfl⟩

theorem obsAct_R {s : State} {a : Act} {c k : Nat} {cl co : Bool} (h : obsAct s a = some (.R c k cl co)) :
    a = .clientRead c cl ∧ co = true ∧ ∃ cn, s.conns[c]? = some cn ∧ k = cn.acked := by
  cases a <;> simp [obsAct] at h
  obtain ⟨cn, hc, rfl, rfl, rfl, rfl⟩ := h
  exact ⟨rfl, rfl, cn, hc, rfl⟩

theorem obsAct_Q {s : State} {a : Act} {c k : Nat} {rc : Bool} (h : obsAct s a = some (.Q c k rc)) :
    a = .reqArrive c rc ∧ ∃ cn, s.conns[c]? = some cn ∧ k = cn.started := by
  cases a <;> simp [obsAct] at h
  obtain ⟨cn, hc, rfl, rfl, rfl⟩ := h
  exact ⟨rfl, cn, hc, rfl⟩

theorem errStr_inj {e e' : Err} (h : errStr e = errStr e') : e = e' := by
  cases e <;> cases e' <;> first | rfl | (revert h; decide)

theorem obsAct_T {s : State} {a : Act} {k : Nat} {err : String} (h : obsAct s a = some (.T k err)) :
    ∃ e, a = .callerRet k e ∧ err = errStr e := by
  cases a <;> simp [obsAct] at h
  obtain ⟨rfl, rfl⟩ := h
  exact ⟨_, rfl, rfl⟩

theorem obsAct_HS {s : State} {a : Act} {j : Nat} (h : obsAct s a = some (.HS j)) : a = .hookStart j := by
  cases a <;> simp [obsAct] at h
  subst h; rfl

theorem obsAct_S {s : State} {a : Act} {k : Nat} (h : obsAct s a = some (.S k)) : a = .shutCall ∧ k = s.callers.length := by
  cases a <;> simp [obsAct] at h
  exact ⟨rfl, h.symm⟩

theorem obsAct_A {s : State} {a : Act} {c : Nat} (h : obsAct s a = some (.A c)) : a = .accept := by
  cases a <;> simp [obsAct] at h
  rfl

theorem obsAct_Ds {s : State} {a : Act} {d : Nat} (h : obsAct s a = some (.Ds d)) : a = .dialStart ∧ d = s.dials.length := by
  cases a <;> simp [obsAct] at h
  exact ⟨rfl, h.symm⟩

theorem obsAct_De {s : State} {a : Act} {d : Nat} {ok : Bool} (h : obsAct s a = some (.De d ok)) : a = .dialEnd d ok := by
  cases a <;> simp [obsAct] at h
  obtain ⟨rfl, rfl⟩ := h; rfl

/-! ### positions before / after a cut -/

theorem SplitAt.before {cfg ok s sF acts i e acts1 a acts2 s1 s1'} (sp : SplitAt cfg ok s sF acts i e acts1 a acts2 s1 s1')
    {f : Nat} (hf : f < i) : (obsRun cfg s acts)[f]? = (obsRun cfg s acts1)[f]? := by
  rw [sp.tr, List.getElem?_append_left (by rw [sp.len]; exact hf)]

theorem SplitAt.after {cfg ok s sF acts i e acts1 a acts2 s1 s1'} (sp : SplitAt cfg ok s sF acts i e acts1 a acts2 s1 s1')
    {j : Nat} (hj : i < j) : (obsRun cfg s acts)[j]? = (obsRun cfg s1' acts2)[j - i - 1]? := by
  rw [sp.tr, List.getElem?_append_right (by rw [sp.len]; omega), sp.len]
  obtain ⟨m, hm⟩ : ∃ m, j - i = m + 1 := ⟨j - i - 1, by omega⟩
  rw [hm, List.getElem?_cons_succ]
  congr 1

theorem SplitAt.prefixEq {cfg ok s sF acts i e acts1 a acts2 s1 s1'} (sp : SplitAt cfg ok s sF acts i e acts1 a acts2 s1 s1') :
    (obsRun cfg s acts)[i]? = some e := by
  rw [sp.tr, List.getElem?_append_right (by rw [sp.len]; omega), sp.len]; simp

theorem obsStep_of_ev {s : State} {a : Act} {e : TEv} (hev : obsAct s a = some e.ev) (htm : e.t = s.now) : obsStep s a = [e] := by
  unfold obsStep; rw [hev]; simp only; rw [← htm]

/-- a cut of the remaining run, seen as a cut of the whole run -/
theorem SplitAt.nest {cfg ok s sF acts i e acts1 a acts2 s1 s1' m e3 acts3 a3 acts4 s3 s3'}
    (sp : SplitAt cfg ok s sF acts i e acts1 a acts2 s1 s1') (sp3 : SplitAt cfg ok s1' sF acts2 m e3 acts3 a3 acts4 s3 s3') :
    SplitAt cfg ok s sF acts (i + 1 + m) e3 (acts1 ++ a :: acts3) a3 acts4 s3 s3' := by
  have hrun : run cfg s1 (a :: acts3) = some s3 := by simp [run, sp.st, sp3.run1]
  have hobs : obsRun cfg s1 (a :: acts3) = e :: obsRun cfg s1' acts3 := by
    simp [obsRun, sp.st, obsStep_of_ev sp.ev sp.tm]
  have hobs' : obsRun cfg s (acts1 ++ a :: acts3) = obsRun cfg s acts1 ++ e :: obsRun cfg s1' acts3 := by
    rw [obsRun_append cfg acts1 (a :: acts3) sp.run1, hobs]
  refine ⟨by rw [sp.eq, sp3.eq]; simp, ?_, ?_, sp3.oka, sp3.st, sp3.run2, sp3.ok2, sp3.ev, sp3.tm, ?_, ?_⟩
  · rw [run_append, sp.run1]; exact hrun
  · rw [allOk_append ok cfg acts1 (a :: acts3) sp.run1]
    simp [allOk, sp.ok1, sp.oka, sp.st, sp3.ok1]
  · rw [hobs']; simp [sp.len, sp3.len]; omega
  · rw [hobs', sp.tr, sp3.tr]; simp

theorem mi1_init (n : Nat) : MI1 (init n) [] := by
  have key : ∀ (j : Nat) (p : HookPh), p ≠ .unspawned → (List.replicate n HookPh.unspawned)[j]? ≠ some p := by
    intro j p hp h
    have := List.mem_of_getElem? h
    simp at this
    exact hp this.2
  constructor <;> simp [init]
  · intro j; exact ⟨key j _ (by simp), key j _ (by simp)⟩
  · intro j; exact key j _ (by simp)

theorem run_MI1 (cfg : Cfg) (n : Nat) {acts : List Act} {s : State} (hr : run cfg (init n) acts = some s) :
    MI1 s (obsRun cfg (init n) acts) := by
  have := run_traceInv cfg (fun _ _ => true) MI1 (fun s tr a s' hJ _ hs => step_MI1 cfg hJ (step_Step cfg hs)) acts
    (mi1_init n) hr (by
      clear hr
      generalize init n = s0
      induction acts generalizing s0 with
      | nil => rfl
      | cons a t ih => simp only [allOk, Bool.true_and]; split <;> simp [ih])
  simpa using this

theorem has_idx {l : List TEv} {ev : Ev} (h : Has l ev) : ∃ j, j < l.length ∧ holdsAt l (· == ev) j := by
  obtain ⟨t, ht⟩ := h
  obtain ⟨j, hj⟩ := List.mem_iff_getElem?.1 ht
  exact ⟨j, getElem?_lt hj, holdsAt_eq.2 ⟨t, hj⟩⟩

theorem has_of_getElem? {l : List TEv} {ev : Ev} {t j : Nat} (h : l[j]? = some (TEv.mk ev t)) : Has l ev :=
  ⟨t, List.mem_of_getElem? h⟩

/-- a flip witness (`HS` or any `T`) is only observed once the status has left `running` -/
theorem flip_status (cfg : Cfg) (n : Nat) {s s' : State} {a : Act} {ev : Ev} (ai : AllInv n s) (hs : step cfg s a = some s')
    (ho : obsAct s a = some ev) (hw : isFlipWitness ev = true) : stShutdown ≤ s.status := by
  cases ev <;> simp [isFlipWitness] at hw
  case T k err =>
    obtain ⟨e, rfl, rfl⟩ := obsAct_T ho
    simp only [step] at hs
    obtain ⟨p, p', hk, hf, _⟩ := updCaller_some hs
    split at hf <;> try (simp at hf; done)
    rename_i e'
    split at hf <;> simp at hf
    rename_i hee; subst hee
    by_cases hn : e' = .notRunning
    · subst hn; exact ai.cg.2 k _ hk (Or.inl rfl)
    · by_cases hwn : s.win = .none
      · have := ai.co k _ hk (Or.inl hwn)
        cases e' <;> simp_all [pendOrErr]
      · exact ai.inv.winSt hwn
  case HS j =>
    have := obsAct_HS ho; subst this
    simp only [step] at hs
    obtain ⟨p, p', hj, hf, _⟩ := updHook_some hs
    split at hf <;> simp at hf
    exact ai.inv.winSt (ai.hk.1 _ (List.mem_of_getElem? hj) (by simp)).1

/-- `handlerRet` after the flip leaves the request pending with the ghost set (as in
`Hertz.Props.C18.close_after_shutdown_trace`) -/
theorem handlerRet_pendAt (cfg : Cfg) {s s' : State} {c : Nat} {b : Bool} {cn : Conn} (hflip : stShutdown ≤ s.status)
    (hs : step cfg s (.handlerRet c b) = some s') (hc : s.conns[c]? = some cn) : PendAt c cn.resps.length s' := by
  simp only [step] at hs
  obtain ⟨cn0, cn', hc0, hf, rfl⟩ := updConn_some hs
  rw [hc] at hc0; cases hc0
  unfold cHandlerRet at hf
  split at hf <;> simp at hf
  subst hf
  rename_i rc _
  refine ⟨{ cn with ph := .returned (rc || b) (decide (stShutdown ≤ s.status)) }, by simp [getElem?_lt hc], Or.inl ⟨rfl, ?_⟩⟩
  simpa [pendPh] using hflip

section clauses
variable {cfg : Cfg} {n : Nat} {ok : State → Act → Bool} {acts : List Act} {sF : State}

/-- **close_after_shutdown, on the observed sequence (no ghost).**  In the observable projection of
every run in which `Shutdown` is only called once the listener exists: after the first `HS` / `T`
event, no handler exit `X c k` is followed by a complete response `R c k` without `Connection: close`. -/
theorem obs_closeAfterShutdown (hle : ∀ s a, ok s a = true → okListen s a = true)
    (hr : run cfg (init n) acts = some sF) (hok : allOk ok cfg (init n) acts = true) :
    closeAfterShutdown (obsRun cfg (init n) acts).toArray = [] := by
  apply closeAfterShutdown_nil
  intro f i j c k b t t' hfi hij hf hi hj
  -- the step that produced `X c k b`
  obtain ⟨acts1, a, acts2, s1, s1', sp⟩ := obsRun_split cfg ok acts hr hok hi
  obtain ⟨rfl, cn1, hc1, hk1⟩ := obsAct_X sp.ev
  have ai1 := run_allInv cfg n ok hle acts1 (allInv_init n) sp.run1 sp.ok1
  -- the flip witness before it
  obtain ⟨ef, hef, hwf⟩ := hf
  rw [sp.before hfi] at hef
  obtain ⟨acts0, a0, acts0', s0, s0', sp0⟩ := obsRun_split cfg ok acts1 sp.run1 sp.ok1 hef
  have ai0 := run_allInv cfg n ok hle acts0 (allInv_init n) sp0.run1 sp0.ok1
  have hst0 := flip_status cfg n ai0 sp0.st sp0.ev hwf
  have hst1 : stShutdown ≤ s1.status :=
    Nat.le_trans (Nat.le_trans hst0 (step_status_le cfg ai0.inv.st4 sp0.st))
      (run_status_le cfg acts0' (step_inv cfg ai0.inv sp0.st) sp0.run2)
  -- the response read after it
  rw [sp.after hij] at hj
  obtain ⟨acts3, a3, acts4, s3, s3', sp3⟩ := obsRun_split cfg ok acts2 sp.run2 sp.ok2 hj
  obtain ⟨rfl, _, cn3, hc3, hk3⟩ := obsAct_R sp3.ev
  have hp := run_pendAt cfg acts3 (handlerRet_pendAt cfg hst1 sp.st hc1) sp3.run1
  obtain ⟨cn3', hc3', hpend⟩ := hp
  rw [hc3] at hc3'; cases hc3'
  have inv3 : Inv s3 := run_inv cfg acts3 (step_inv cfg ai1.inv sp.st) sp3.run1
  -- `k` is the number of responses written when the handler returned
  have hcount := (ai1.inv.conns cn1 (List.mem_of_getElem? hc1)).count
  have hk : k = cn1.resps.length := by
    have hst := sp.st
    simp only [step] at hst
    obtain ⟨cn0, cn', hc0, hf0, _⟩ := updConn_some hst
    rw [hc1] at hc0; cases hc0
    unfold cHandlerRet at hf0
    split at hf0 <;> simp at hf0
    rename_i rc hph
    simp [hph, inflight] at hcount
    omega
  -- the read returned response `k` with close = false
  have hst3 := sp3.st
  simp only [step] at hst3
  obtain ⟨cn0, cn', hc0, hf0, _⟩ := updConn_some hst3
  rw [hc3] at hc0; cases hc0
  unfold cClientRead at hf0
  split at hf0 <;> simp at hf0
  rename_i r hr3
  rw [← hk3, hk] at hr3
  rcases hpend with ⟨hl, _⟩ | ⟨r', hr', hfl⟩
  · rw [← hl] at hr3; simp at hr3
  · rw [hr3] at hr'; cases hr'
    have := (inv3.conns cn3 (List.mem_of_getElem? hc3)).resps r (List.mem_of_getElem? hr3) hfl
    simp [this] at hf0

/-- a caller that returns `nil` is the winner, and the winner has been through the listener-closing step -/
theorem tnil_postClose {s s' : State} {a : Act} {k : Nat} (ai : AllInv n s) (hs : step cfg s a = some s')
    (ho : obsAct s a = some (.T k "nil")) : postClose s.win = true := by
  obtain ⟨e, rfl, he⟩ := obsAct_T ho
  have : e = .nil := errStr_inj (e' := .nil) he.symm
  subst this
  simp only [step] at hs
  obtain ⟨p, p', hk, hf, _⟩ := updCaller_some hs
  split at hf <;> try (simp at hf; done)
  rename_i e'
  split at hf <;> simp at hf
  rename_i hee; subst hee
  by_cases hwn : s.win = .none
  · have := ai.co k _ hk (Or.inl hwn)
    simp [pendOrErr] at this
  · by_cases hkk : k = s.winK
    · subst hkk
      obtain ⟨p, hp, hok⟩ := ai.wc hwn
      rw [hk] at hp; cases hp
      obtain ⟨t, ht⟩ := (winCallerOk_ne hwn hok).2.2 _ rfl
      simp [ht, postClose]
    · have := ai.co k _ hk (Or.inr hkk)
      simp [pendOrErr] at this

/-- **no_accept_after_shutdown, on the observed sequence.**  After the first `T nil` no connection is
accepted and no dial started afterwards succeeds. -/
theorem obs_noAcceptAfter (hle : ∀ s a, ok s a = true → okListen s a = true)
    (hr : run cfg (init n) acts = some sF) (hok : allOk ok cfg (init n) acts = true) :
    noAcceptAfter (obsRun cfg (init n) acts).toArray = [] := by
  apply noAcceptAfter_nil
  · intro w i c t hwi hw hi
    obtain ⟨k, tw, hw⟩ := holdsAt_isTnil.1 hw
    obtain ⟨acts1, a, acts2, s1, s1', sp⟩ := obsRun_split cfg ok acts hr hok hw
    have ai1 := run_allInv cfg n ok hle acts1 (allInv_init n) sp.run1 sp.ok1
    have hp1 := tnil_postClose ai1 sp.st sp.ev
    have ai1' := step_allInv cfg n ai1 (hle _ _ sp.oka) sp.st
    have hp1' := step_postClose cfg ai1.inv hp1 (step_Step cfg sp.st)
    rw [sp.after hwi] at hi
    obtain ⟨acts3, a3, acts4, s3, s3', sp3⟩ := obsRun_split cfg ok acts2 sp.run2 sp.ok2 hi
    have ai3 := run_allInv cfg n ok hle acts3 ai1' sp3.run1 sp3.ok1
    have hp3 := run_with_allInv cfg n ok hle (fun s => postClose s.win = true)
      (fun s a s' ai hp _ hS => step_postClose cfg ai.inv hp hS) acts3 ai1' hp1' sp3.run1 sp3.ok1
    have := obsAct_A sp3.ev; subst this
    have hcl := (ai3.inv.closed hp3 ai3.ns).1
    have hst := sp3.st
    simp [step, hcl] at hst
  · intro w sd i d t t' hw hwsd hsdi hsd hi
    obtain ⟨k, tw, hw⟩ := holdsAt_isTnil.1 hw
    obtain ⟨acts1, a, acts2, s1, s1', sp⟩ := obsRun_split cfg ok acts hr hok hw
    have ai1 := run_allInv cfg n ok hle acts1 (allInv_init n) sp.run1 sp.ok1
    have hp1 := tnil_postClose ai1 sp.st sp.ev
    have ai1' := step_allInv cfg n ai1 (hle _ _ sp.oka) sp.st
    have hp1' := step_postClose cfg ai1.inv hp1 (step_Step cfg sp.st)
    -- the dial start
    rw [sp.after hwsd] at hsd
    obtain ⟨acts3, a3, acts4, s3, s3', sp3⟩ := obsRun_split cfg ok acts2 sp.run2 sp.ok2 hsd
    have ai3 := run_allInv cfg n ok hle acts3 ai1' sp3.run1 sp3.ok1
    have hp3 := run_with_allInv cfg n ok hle (fun s => postClose s.win = true)
      (fun s a s' ai hp _ hS => step_postClose cfg ai.inv hp hS) acts3 ai1' hp1' sp3.run1 sp3.ok1
    obtain ⟨rfl, hd⟩ := obsAct_Ds sp3.ev
    have ai3' := step_allInv cfg n ai3 (hle _ _ sp3.oka) sp3.st
    have hdc : DialClosed d s3' := by
      have hst := sp3.st
      simp [step] at hst
      subst hst
      exact ⟨hp3, ai3.ns, Or.inl (by simp [hd])⟩
    -- the dial end
    have hi' : (obsRun cfg s3' acts4)[i - w - 1 - (sd - w - 1) - 1]? = some (TEv.mk (.De d true) t) := by
      rw [sp.after (by omega)] at hi
      rw [sp3.after (by omega)] at hi
      exact hi
    obtain ⟨acts5, a5, acts6, s5, s5', sp5⟩ := obsRun_split cfg ok acts4 sp3.run2 sp3.ok2 hi'
    have hdc5 := run_with_allInv cfg n ok hle (DialClosed d)
      (fun s a s' ai hp _ hS => step_dialClosed cfg d ai.inv ai.wc ai.cg hp hS) acts5 ai3' hdc sp5.run1 sp5.ok1
    have := obsAct_De sp5.ev; subst this
    have hst := sp5.st
    simp only [step] at hst
    rcases hdc5.2.2 with h | h <;> simp [h] at hst

theorem step_callerRet_ret {s s' : State} {k : Nat} {e : Err} (hs : step cfg s (.callerRet k e) = some s') :
    s.callers[k]? = some (.returned e) := by
  simp only [step] at hs
  obtain ⟨p, p', hk, hf, _⟩ := updCaller_some hs
  split at hf <;> try (simp at hf; done)
  rename_i e'
  split at hf <;> simp at hf
  rename_i hee; subst hee; exact hk

/-- **second_shutdown_errors / first call succeeds, on the observed sequence.**  A `Shutdown` call made
after some call has returned gets `errStatusNotRunning`; a call that is alone until it returns gets
`nil` (provided no caller is seen returning `errShutdownTimeout`, see `timeout_possible`). -/
theorem obs_errorsReported (hle : ∀ s a, ok s a = true → okListen s a = true)
    (hr : run cfg (init n) acts = some sF) (hok : allOk ok cfg (init n) acts = true)
    (hto : ∀ k, ¬ Has (obsRun cfg (init n) acts) (.T k "timeout")) :
    errorsReported (obsRun cfg (init n) acts).toArray = [] := by
  apply errorsReported_nil
  intro i k ts hi r err tr' hrr hmin
  obtain ⟨acts1, a, acts2, s1, s1', sp⟩ := obsRun_split cfg ok acts hr hok hi
  obtain ⟨rfl, hk⟩ := obsAct_S sp.ev
  have ai1 := run_allInv cfg n ok hle acts1 (allInv_init n) sp.run1 sp.ok1
  have mi1 := run_MI1 cfg n sp.run1
  have hln : s1.lnSet = true := by simpa [okListen] using hle _ _ sp.oka
  have hL : ∃ j, j < i ∧ holdsAt (obsRun cfg (init n) acts) (· == .L) j := by
    obtain ⟨j, hj, hh⟩ := has_idx (mi1.mL hln)
    rw [sp.len] at hj
    obtain ⟨t, ht⟩ := holdsAt_eq.1 hh
    exact ⟨j, hj, holdsAt_eq.2 ⟨t, by rw [sp.before hj]; exact ht⟩⟩
  -- the return comes after the call
  have hir : i < r := by
    rcases Nat.lt_trichotomy r i with h | h | h
    · rw [sp.before h] at hrr
      obtain ⟨e, he⟩ := mi1.mT k err (has_of_getElem? hrr)
      have := getElem?_lt he
      omega
    · subst h; rw [hi] at hrr; cases hrr
    · exact h
  rw [sp.after hir] at hrr
  obtain ⟨acts3, a3, acts4, s3, s3', sp3⟩ := obsRun_split cfg ok acts2 sp.run2 sp.ok2 hrr
  obtain ⟨e, rfl, rfl⟩ := obsAct_T sp3.ev
  have hret := step_callerRet_ret sp3.st
  have ai1' := step_allInv cfg n ai1 (hle _ _ sp.oka) sp.st
  have hs1' : s1' = { s1 with callers := s1.callers ++ [.called] } := by
    have := sp.st; simp [step] at this; exact this.symm
  constructor
  · -- some call has returned before this one was made
    rintro (hnl | ⟨j, hji, e', hje', hT⟩)
    · exact absurd hL hnl
    · rw [sp.before hji] at hje'
      obtain ⟨ev', t'⟩ := e'
      cases ev' <;> simp [isT] at hT
      rename_i k' err'
      obtain ⟨e'', he''⟩ := mi1.mT k' err' (has_of_getElem? hje')
      have hst : stShutdown ≤ s1.status := by
        by_cases hn : e'' = .notRunning
        · subst hn; exact ai1.cg.2 k' _ he'' (Or.inr rfl)
        · by_cases hwn : s1.win = .none
          · have := ai1.co k' _ he'' (Or.inl hwn)
            cases e'' <;> simp_all [pendOrErr]
          · exact ai1.inv.winSt hwn
      have hla : LoserAt k s1' := by
        rw [hs1']
        exact ⟨hst, .called, by simp [hk], Or.inl rfl⟩
      obtain ⟨_, p, hp, hpp⟩ := run_with_allInv cfg n ok hle (LoserAt k)
        (fun s a s' ai hp _ hS => step_loserAt cfg k ai.inv hp hS) acts3 ai1' hla sp3.run1 sp3.ok1
      rw [hret] at hp; cases hp
      rcases hpp with h | h | h <;> simp at h
      subst h; rfl
  · -- the call is alone until it returns
    intro _ _ hnoS
    have spr := sp.nest sp3
    have mi3 := run_MI1 cfg n spr.run1
    have hlen : s3.callers.length = 1 ∧ k = 0 := by
      have hklt := getElem?_lt hret
      have hall : ∀ k', k' < s3.callers.length → k' = k := by
        intro k' hk'
        obtain ⟨j, hj, hh⟩ := has_idx (mi3.mS k' hk')
        rw [spr.len] at hj
        obtain ⟨t, ht⟩ := holdsAt_eq.1 hh
        apply Classical.byContradiction
        intro hne
        have hir' : i + 1 + (r - i - 1) = r := by omega
        exact hnoS ⟨j, k', t, by omega, hne, by rw [spr.before hj]; exact ht⟩
      have h0 := hall 0 (by omega)
      constructor
      · rcases Nat.lt_or_ge 1 s3.callers.length with h | h
        · have := hall 1 h; omega
        · omega
      · exact h0.symm
    obtain ⟨hl3, hk0⟩ := hlen
    have hds := run_with_allInv cfg n ok hle (fun s => DefErr s ∧ Sole s)
      (fun s a s' ai hp _ hS => ⟨step_defErr cfg hp.1 hS, step_sole cfg ai hp.1 hp.2 hS⟩)
      (acts1 ++ Act.shutCall :: acts3) (allInv_init n)
      ⟨⟨by simp [init], by simp [init]⟩, by intro h; simp [init] at h⟩ spr.run1 spr.ok1
    rw [hk0] at hret
    have hne := hds.2 hl3 _ hret
    cases e
    · rfl
    · exact absurd (Or.inl rfl) hne
    · exfalso
      apply hto k
      exact has_of_getElem? (sp.nest sp3).prefixEq

theorem allOk_true (cfg : Cfg) : ∀ (acts : List Act) (s : State), allOk (fun _ _ => true) cfg s acts = true
  | [], _ => rfl
  | a :: t, s => by simp only [allOk, Bool.true_and]; split <;> simp [allOk_true cfg t]

theorem run_MI2 (cfg : Cfg) (n : Nat) {acts : List Act} {s : State} (hr : run cfg (init n) acts = some s) :
    MI2 s (obsRun cfg (init n) acts) := by
  have := run_traceInv cfg (fun _ _ => true) MI2 (fun s tr a s' hJ _ hs => step_MI2 cfg hJ (step_Step cfg hs)) acts
    (s := init n) (tr := []) (by constructor <;> simp [init]) hr (allOk_true cfg acts _)
  simpa using this

/-- every connection's client has read all responses to the requests that reached a handler -/
def Settled (s : State) : Prop := ∀ cn ∈ s.conns, cn.acked = cn.started

/-- **inflight_complete, on the observed sequence.**  In the observable projection of every run that
ends with all clients having read their responses (`Settled`): every request that entered its handler
(`Q c k`) — before, during or after `Shutdown` — is followed by a complete response `R c k`, and no
truncated response is ever observed. -/
theorem obs_inflightComplete (hr : run cfg (init n) acts = some sF) (hset : Settled sF) :
    inflightComplete (obsRun cfg (init n) acts).toArray = [] := by
  have hok := allOk_true cfg acts (init n)
  have hle : ∀ s a, (fun (_ : State) (_ : Act) => true) s a = true → okListen s a = true → True := fun _ _ _ _ => trivial
  apply inflightComplete_nil
  · intro i c k rc t hi
    obtain ⟨acts1, a, acts2, s1, s1', sp⟩ := obsRun_split cfg _ acts hr hok hi
    obtain ⟨rfl, cn1, hc1, hk⟩ := obsAct_Q sp.ev
    have mi1 := run_MI2 cfg n sp.run1
    have miF := run_MI2 cfg n hr
    obtain ⟨cnF, hcF, hkF⟩ := miF.mQ c k rc (has_of_getElem? hi)
    have hsetF := hset cnF (List.mem_of_getElem? hcF)
    obtain ⟨cl, hcl⟩ := miF.mR' c cnF hcF k (by omega)
    obtain ⟨j, _, hh⟩ := has_idx hcl
    obtain ⟨t', ht'⟩ := holdsAt_eq.1 hh
    refine ⟨j, cl, t', ?_, ht'⟩
    rcases Nat.lt_trichotomy j i with h | h | h
    · exfalso
      rw [sp.before h] at ht'
      obtain ⟨cn, hcn, hlt⟩ := mi1.mR c k cl true (has_of_getElem? ht')
      rw [hc1] at hcn; cases hcn
      have inv1 : Inv s1 := run_inv cfg acts1 (inv_init n) sp.run1
      have hcount := (inv1.conns cn1 (List.mem_of_getElem? hc1)).count
      have hcc : ConnCount s1 := by
        have := run_traceInv cfg (fun _ _ => true) (fun s _ => ConnCount s)
          (fun s tr a s' hJ _ hs => step_connCount cfg hJ (step_Step cfg hs)) acts1
          (s := init n) (tr := []) (by constructor <;> simp [init, liveCount]) sp.run1 (allOk_true cfg acts1 _)
        exact this
      have := hcc.2 cn1 (List.mem_of_getElem? hc1)
      omega
    · subst h; rw [hi] at ht'; cases ht'
    · exact h
  · intro i c k cl t hi
    obtain ⟨acts1, a, acts2, s1, s1', sp⟩ := obsRun_split cfg _ acts hr hok hi
    have := (obsAct_R sp.ev).2.1
    simp at this

end clauses

end Hertz.Shutdown
