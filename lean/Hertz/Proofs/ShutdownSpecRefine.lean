import Hertz.Proofs.ShutdownSpecInv
/-!
The observable projection (`obsRun`) of every run of the interleaving model `Hertz.Shutdown`
satisfies the clauses of the trace specification `Hertz.ShutdownSpec` — the predicate the C18 driver
evaluates on the event sequence recorded around the REAL server.
-/
namespace Hertz.Shutdown
open Hertz.ShutdownSpec

/-! ### which step produced an event -/

theorem obsAct_X {s : State} {a : Act} {c k : Nat} {b : Bool} (h : obsAct s a = some (.X c k b)) :
    a = .handlerRet c b ∧ ∃ cn, s.conns[c]? = some cn ∧ k = cn.started - 1 := by
  cases a <;> simp [obsAct] at h
  obtain ⟨cn, hc, rfl, rfl, rfl⟩ := h
  exact ⟨rfl, cn, hc, rfl⟩

theorem obsAct_R {s : State} {a : Act} {c k : Nat} {cl co : Bool} (h : obsAct s a = some (.R c k cl co)) :
    a = .clientRead c cl ∧ co = true ∧ ∃ cn, s.conns[c]? = some cn ∧ k = cn.acked := by
  cases a <;> simp [obsAct] at h
  obtain ⟨cn, hc, rfl, rfl, rfl, rfl⟩ := h
  exact ⟨rfl, rfl, cn, hc, rfl⟩

theorem obsAct_Q {s : State} {a : Act} {c k : Nat} {rc : Bool} (h : obsAct s a = some (.Q c k rc)) :
    a = .reqArrive c rc ∧ ∃ cn, s.conns[c]? = some cn ∧ k = cn.started := by
  cases a <;> simp [obsAct] at h
  obtain ⟨cn, hc, rfl, rfl, rfl⟩ := h
  exact ⟨rfl, cn, hc, rfl⟩

theorem errStr_inj {e e' : Err} (h : errStr e = errStr e') : e = e' := by
  cases e <;> cases e' <;> first | rfl | (revert h; decide)

theorem obsAct_T {s : State} {a : Act} {k : Nat} {err : String} (h : obsAct s a = some (.T k err)) :
    ∃ e, a = .callerRet k e ∧ err = errStr e := by
  cases a <;> simp [obsAct] at h
  obtain ⟨rfl, rfl⟩ := h
  exact ⟨_, rfl, rfl⟩

theorem obsAct_HS {s : State} {a : Act} {j : Nat} (h : obsAct s a = some (.HS j)) : a = .hookStart j := by
  cases a <;> simp [obsAct] at h
  subst h; rfl

theorem obsAct_S {s : State} {a : Act} {k : Nat} (h : obsAct s a = some (.S k)) : a = .shutCall ∧ k = s.callers.length := by
  cases a <;> simp [obsAct] at h
  exact ⟨rfl, h.symm⟩

theorem obsAct_A {s : State} {a : Act} {c : Nat} (h : obsAct s a = some (.A c)) : a = .accept := by
  cases a <;> simp [obsAct] at h
  rfl

theorem obsAct_Ds {s : State} {a : Act} {d : Nat} (h : obsAct s a = some (.Ds d)) : a = .dialStart ∧ d = s.dials.length := by
  cases a <;> simp [obsAct] at h
  exact ⟨rfl, h.symm⟩

theorem obsAct_De {s : State} {a : Act} {d : Nat} {ok : Bool} (h : obsAct s a = some (.De d ok)) : a = .dialEnd d ok := by
  cases a <;> simp [obsAct] at h
  obtain ⟨rfl, rfl⟩ := h; rfl

/-! ### positions before / after a cut -/

theorem SplitAt.before {cfg ok s sF acts i e acts1 a acts2 s1 s1'} (sp : SplitAt cfg ok s sF acts i e acts1 a acts2 s1 s1')
    {f : Nat} (hf : f < i) : (obsRun cfg s acts)[f]? = (obsRun cfg s acts1)[f]? := by
  rw [sp.tr, List.getElem?_append_left (by rw [sp.len]; exact hf)]

theorem SplitAt.after {cfg ok s sF acts i e acts1 a acts2 s1 s1'} (sp : SplitAt cfg ok s sF acts i e acts1 a acts2 s1 s1')
    {j : Nat} (hj : i < j) : (obsRun cfg s acts)[j]? = (obsRun cfg s1' acts2)[j - i - 1]? := by
  rw [sp.tr, List.getElem?_append_right (by rw [sp.len]; omega), sp.len]
  obtain ⟨m, hm⟩ : ∃ m, j - i = m + 1 := ⟨j - i - 1, by omega⟩
  rw [hm, List.getElem?_cons_succ]
  congr 1

theorem SplitAt.prefixEq {cfg ok s sF acts i e acts1 a acts2 s1 s1'} (sp : SplitAt cfg ok s sF acts i e acts1 a acts2 s1 s1') :
    (obsRun cfg s acts)[i]? = some e := by
  rw [sp.tr, List.getElem?_append_right (by rw [sp.len]; omega), sp.len]; simp

theorem obsStep_of_ev {s : State} {a : Act} {e : TEv} (hev : obsAct s a = some e.ev) (htm : e.t = s.now) : obsStep s a = [e] := by
  unfold obsStep; rw [hev]; simp only; rw [← htm]

/-- a cut of the remaining run, seen as a cut of the whole run -/
theorem SplitAt.nest {cfg ok s sF acts i e acts1 a acts2 s1 s1' m e3 acts3 a3 acts4 s3 s3'}
    (sp : SplitAt cfg ok s sF acts i e acts1 a acts2 s1 s1') (sp3 : SplitAt cfg ok s1' sF acts2 m e3 acts3 a3 acts4 s3 s3') :
    SplitAt cfg ok s sF acts (i + 1 + m) e3 (acts1 ++ a :: acts3) a3 acts4 s3 s3' := by
  have hrun : run cfg s1 (a :: acts3) = some s3 := by simp [run, sp.st, sp3.run1]
  have hobs : obsRun cfg s1 (a :: acts3) = e :: obsRun cfg s1' acts3 := by
    simp [obsRun, sp.st, obsStep_of_ev sp.ev sp.tm]
  have hobs' : obsRun cfg s (acts1 ++ a :: acts3) = obsRun cfg s acts1 ++ e :: obsRun cfg s1' acts3 := by
    rw [obsRun_append cfg acts1 (a :: acts3) sp.run1, hobs]
  refine ⟨by rw [sp.eq, sp3.eq]; simp, ?_, ?_, sp3.oka, sp3.st, sp3.run2, sp3.ok2, sp3.ev, sp3.tm, ?_, ?_⟩
  · rw [run_append, sp.run1]; exact hrun
  · rw [allOk_append ok cfg acts1 (a :: acts3) sp.run1]
    simp [allOk, sp.ok1, sp.oka, sp.st, sp3.ok1]
  · rw [hobs']; simp [sp.len, sp3.len]; omega
  · rw [hobs', sp.tr, sp3.tr]; simp

theorem mi1_init (n : Nat) : MI1 (init n) [] := by
  have key : ∀ (j : Nat) (p : HookPh), p ≠ .unspawned → (List.replicate n HookPh.unspawned)[j]? ≠ some p := by
    intro j p hp h
    have := List.mem_of_getElem? h
    simp at this
    exact hp this.2
  constructor <;> simp [init]
  · intro j; exact ⟨key j _ (by simp), key j _ (by simp)⟩
  · intro j; exact key j _ (by simp)

theorem run_MI1 (cfg : Cfg) (n : Nat) {acts : List Act} {s : State} (hr : run cfg (init n) acts = some s) :
    MI1 s (obsRun cfg (init n) acts) := by
  have := run_traceInv cfg (fun _ _ => true) MI1 (fun s tr a s' hJ _ hs => step_MI1 cfg hJ (step_Step cfg hs)) acts
    (mi1_init n) hr (by
      clear hr
      generalize init n = s0
      induction acts generalizing s0 with
      | nil => rfl
      | cons a t ih => simp only [allOk, Bool.true_and]; split <;> simp [ih])
  simpa using this

theorem has_idx {l : List TEv} {ev : Ev} (h : Has l ev) : ∃ j, j < l.length ∧ holdsAt l (· == ev) j := by
  obtain ⟨t, ht⟩ := h
  obtain ⟨j, hj⟩ := List.mem_iff_getElem?.1 ht
  exact ⟨j, getElem?_lt hj, holdsAt_eq.2 ⟨t, hj⟩⟩

theorem has_of_getElem? {l : List TEv} {ev : Ev} {t j : Nat} (h : l[j]? = some (TEv.mk ev t)) : Has l ev :=
  ⟨t, List.mem_of_getElem? h⟩

theorem SplitAt.has_before {cfg ok s sF acts i e acts1 a acts2 s1 s1'} (sp : SplitAt cfg ok s sF acts i e acts1 a acts2 s1 s1')
    {ev : Ev} (h : Has (obsRun cfg s acts1) ev) : ∃ j t, j < i ∧ (obsRun cfg s acts)[j]? = some (TEv.mk ev t) := by
  obtain ⟨j, hj, hh⟩ := has_idx h
  rw [sp.len] at hj
  obtain ⟨t, ht⟩ := holdsAt_eq.1 hh
  exact ⟨j, t, hj, by rw [sp.before hj]; exact ht⟩

/-- `handlerRet` after the flip leaves the request pending with the ghost set (as in
`Hertz.Props.C18.close_after_shutdown_trace`) -/
theorem handlerRet_pendAt (cfg : Cfg) {s s' : State} {c : Nat} {b : Bool} {cn : Conn} (hflip : stShutdown ≤ s.status)
    (hs : step cfg s (.handlerRet c b) = some s') (hc : s.conns[c]? = some cn) : PendAt c cn.resps.length s' := by
  simp only [step] at hs
  obtain ⟨cn0, cn', hc0, hf, rfl⟩ := updConn_some hs
  rw [hc] at hc0; cases hc0
  unfold cHandlerRet at hf
  split at hf <;> simp at hf
  subst hf
  rename_i rc _
  refine ⟨{ cn with ph := .returned (rc || b) (decide (stShutdown ≤ s.status)) }, by simp [getElem?_lt hc], Or.inl ⟨rfl, ?_⟩⟩
  simpa [pendPh] using hflip

section clauses
variable {cfg : Cfg} {n : Nat} {ok : State → Act → Bool} {acts : List Act} {sF : State}

theorem step_callerRet_ret {s s' : State} {k : Nat} {e : Err} (hs : step cfg s (.callerRet k e) = some s') :
    s.callers[k]? = some (.returned e) := by
  simp only [step] at hs
  obtain ⟨p, p', hk, hf, _⟩ := updCaller_some hs
  split at hf <;> try (simp at hf; done)
  rename_i e'
  split at hf <;> simp at hf
  rename_i hee; subst hee; exact hk

/-- the caller that returns `e ≠ errStatusNotRunning` is the winner of the CAS, and the winner has returned `e` -/
theorem ret_winner {s : State} {k : Nat} {e : Err} (ai : AllInv n s) (hk : s.callers[k]? = some (.returned e)) (he : e ≠ .notRunning) :
    s.win ≠ .none ∧ k = s.winK ∧ ∃ t, s.win = .returned e t := by
  have hwn : s.win ≠ .none := by
    intro hwn
    have := ai.co k _ hk (Or.inl hwn)
    cases e <;> simp_all [pendOrErr]
  have hkk : k = s.winK := by
    apply Classical.byContradiction
    intro hkk
    have := ai.co k _ hk (Or.inr hkk)
    cases e <;> simp_all [pendOrErr]
  subst hkk
  obtain ⟨p, hp, hok⟩ := ai.wc hwn
  rw [hk] at hp; cases hp
  exact ⟨hwn, rfl, (winCallerOk_ne hwn hok).2.2 _ rfl⟩

/-- a `T k err` event comes after the `S k` event; the run cut at the `T`, with the `S` in the prefix -/
theorem split_ST (hr : run cfg (init n) acts = some sF) (hok : allOk ok cfg (init n) acts = true)
    {i r k ts tt : Nat} {err : String} (hi : (obsRun cfg (init n) acts)[i]? = some (TEv.mk (.S k) ts))
    (hrr : (obsRun cfg (init n) acts)[r]? = some (TEv.mk (.T k err) tt)) :
    i < r ∧ ∃ acts1 acts2 s1 s1' e, SplitAt cfg ok (init n) sF acts r (TEv.mk (.T k err) tt) acts1 (.callerRet k e) acts2 s1 s1' ∧
      err = errStr e ∧ s1.callers[k]? = some (.returned e) ∧ TEv.mk (.S k) ts ∈ obsRun cfg (init n) acts1 := by
  obtain ⟨acts1, a, acts2, s1, s1', sp⟩ := obsRun_split cfg ok acts hr hok hi
  obtain ⟨rfl, hk⟩ := obsAct_S sp.ev
  have mi1 := run_MI1 cfg n sp.run1
  have hir : i < r := by
    rcases Nat.lt_trichotomy r i with h | h | h
    · rw [sp.before h] at hrr
      obtain ⟨e, he⟩ := mi1.mT k err (has_of_getElem? hrr)
      have := getElem?_lt he
      omega
    · subst h; rw [hi] at hrr; cases hrr
    · exact h
  refine ⟨hir, ?_⟩
  rw [sp.after hir] at hrr
  obtain ⟨acts3, a3, acts4, s3, s3', sp3⟩ := obsRun_split cfg ok acts2 sp.run2 sp.ok2 hrr
  obtain ⟨e, rfl, rfl⟩ := obsAct_T sp3.ev
  have spr := sp.nest sp3
  have hidx : i + 1 + (r - i - 1) = r := by omega
  rw [hidx] at spr
  refine ⟨_, _, _, _, e, spr, rfl, step_callerRet_ret sp3.st, ?_⟩
  have := spr.before hir
  rw [hi] at this
  exact List.mem_of_getElem? this.symm

/-! ### calls made before / after the listener answered -/

/-- the listener answered before caller `k` made its call -/
def LBS (tr : List TEv) (k : Nat) : Prop :=
  ∃ (i s t t' : Nat), i < s ∧ tr[i]? = some (TEv.mk .L t) ∧ tr[s]? = some (TEv.mk (.S k) t')

theorem mem_obsStep_S {s : State} {a : Act} {k t : Nat} (h : TEv.mk (.S k) t ∈ obsStep s a) :
    a = .shutCall ∧ k = s.callers.length := by
  unfold obsStep at h
  split at h
  · rename_i e he
    simp at h
    exact obsAct_S (by rw [he, h.1])
  · simp at h

theorem obsAct_L {s : State} {a : Act} (h : obsAct s a = some .L) : a = .listen := by
  cases a <;> simp [obsAct] at h
  rfl

theorem has_obsStep_L {s : State} {a : Act} (h : Has (obsStep s a) .L) : a = .listen := by
  obtain ⟨t, h⟩ := h
  unfold obsStep at h
  split at h
  · rename_i e he
    simp at h
    exact obsAct_L (by rw [he, h.1])
  · simp at h

theorem LBS.mono {tr : List TEv} {k : Nat} (l : List TEv) (h : LBS tr k) : LBS (tr ++ l) k := by
  obtain ⟨i, s, t, t', his, hi, hs⟩ := h
  exact ⟨i, s, t, t', his, by rw [List.getElem?_append_left (getElem?_lt hi)]; exact hi,
    by rw [List.getElem?_append_left (getElem?_lt hs)]; exact hs⟩

theorem LBS_of_append {tr l : List TEv} {k : Nat} (h : LBS (tr ++ l) k) (hne : ∀ t, TEv.mk (.S k) t ∉ l) : LBS tr k := by
  obtain ⟨i, s, t, t', his, hi, hs⟩ := h
  by_cases hlt : s < tr.length
  · rw [List.getElem?_append_left hlt] at hs
    rw [List.getElem?_append_left (by omega)] at hi
    exact ⟨i, s, t, t', his, hi, hs⟩
  · rw [List.getElem?_append_right (by omega)] at hs
    exact absurd (List.mem_of_getElem? hs) (hne t')

theorem LBS_step {s : State} {a : Act} {tr : List TEv} {k : Nat} (h : LBS (tr ++ obsStep s a) k)
    (hne : ¬ (a = .shutCall ∧ k = s.callers.length)) : LBS tr k :=
  LBS_of_append h (fun _ hm => hne (mem_obsStep_S hm))

theorem step_lnSet (cfg : Cfg) {s s' : State} {a : Act} (h : Step cfg s a s') (hl : s.lnSet = true) : s'.lnSet = true := by
  cases h <;> simp_all

/-- `L` is only observed once the listener exists; an `errStatusNotRunning` given to a call that was made after
`L` means that the status had already been flipped; `transport.Shutdown` never yields that error; and a call
made on a listening engine that is the only call so far does not get it -/
structure MI3 (s : State) (tr : List TEv) : Prop where
  mL' : Has tr .L → s.lnSet = true
  late : ∀ k p, s.callers[k]? = some p → isNotRunningRet p → LBS tr k → stShutdown ≤ s.status
  de : DefErr s
  sole : s.callers.length = 1 → LBS tr 0 → ∀ p, s.callers[0]? = some p → ¬ isNotRunningRet p

theorem mi3_init (n : Nat) : MI3 (init n) [] := by
  refine ⟨by simp, by intro k p hk; simp [init] at hk, ⟨by simp [init], by simp [init]⟩, by intro h; simp [init] at h⟩

theorem sole_running {s : State} (ai : AllInv n s) (hln : s.lnSet = true) (hl : s.callers.length = 1)
    (hp : s.callers[0]? = some .called ∨ s.callers[0]? = some .loaded) : s.status = stRunning := by
  have hwn : s.win = .none := by
    by_cases hwn : s.win = .none
    · exact hwn
    · obtain ⟨p, hp', hok⟩ := ai.wc hwn
      have h0 : s.winK = 0 := by have := getElem?_lt hp'; omega
      rw [h0] at hp'
      have := winCallerOk_ne hwn hok
      rcases hp with hp | hp <;> (rw [hp] at hp'; cases hp'; simp_all)
  have := ai.si.winNone hwn
  exact (this.2.2.1 (this.2.2.2 hln)).1

theorem lbs_lnSet {s : State} {tr : List TEv} {k : Nat} (mi : MI3 s tr) (h : LBS tr k) : s.lnSet = true := by
  obtain ⟨i, _, t, _, _, hi, _⟩ := h
  exact mi.mL' (has_of_getElem? hi)

set_option maxHeartbeats 1000000 in
theorem step_MI3 (cfg : Cfg) {s s' : State} {a : Act} {tr : List TEv} (ai : AllInv n s) (mi : MI3 s tr)
    (hs : step cfg s a = some s') : MI3 s' (tr ++ obsStep s a) := by
  have hS := step_Step cfg hs
  have hle := step_status_le cfg ai.inv.st4 hs
  have hL : Has (tr ++ obsStep s a) .L → s'.lnSet = true := by
    intro h
    rw [has_append] at h
    rcases h with h | h
    · exact step_lnSet cfg hS (mi.mL' h)
    · have := has_obsStep_L h
      subst this
      cases hS <;> simp_all [connAct]
  have hde := step_defErr cfg mi.de hS
  -- `late` for the callers the step does not touch
  have keep : ∀ k p, s.callers[k]? = some p → isNotRunningRet p → LBS (tr ++ obsStep s a) k →
      ¬ (a = .shutCall ∧ k = s.callers.length) → stShutdown ≤ s'.status :=
    fun k p hk hp hl hne => Nat.le_trans (mi.late k p hk hp (LBS_step hl hne)) hle
  obtain ⟨m1, m2, m3, m4⟩ := mi
  cases hS
  case shutCall =>
    refine ⟨hL, ?_, hde, ?_⟩
    · intro k p hk hp hl
      rcases Nat.lt_or_ge k s.callers.length with hlt | hge
      · simp [List.getElem?_append_left hlt] at hk
        exact keep k p hk hp hl (by omega)
      · rcases Nat.eq_or_lt_of_le hge with heq | hgt
        · subst heq; simp at hk; subst hk; simp [isNotRunningRet] at hp
        · simp [List.getElem?_eq_none (show (s.callers ++ [CallerPh.called]).length ≤ k by simp; omega)] at hk
    · intro hl _ p hp
      have h0 : s.callers = [] := by simpa using hl
      simp [h0] at hp; subst hp; simp [isNotRunningRet]
  case shutLoad k0 hk0 =>
    refine ⟨hL, ?_, hde, ?_⟩
    · intro k p hk hp hl
      by_cases hkk : k0 = k
      · subst hkk
        simp [List.getElem?_set, getElem?_lt hk0] at hk
        subst hk
        have hln := lbs_lnSet ⟨m1, m2, m3, m4⟩ (LBS_step hl (by simp))
        have h2 := ai.si.lnStatus hln
        by_cases hst : s.status = stRunning
        · simp [hst, isNotRunningRet] at hp
        · simp [stRunning, stShutdown] at hst h2 ⊢; omega
      · simp [List.getElem?_set_ne hkk] at hk
        exact keep k p hk hp hl (by simp)
    · intro hl hlbs p hp
      have hl' : s.callers.length = 1 := by simpa using hl
      have hk00 : k0 = 0 := by have := getElem?_lt hk0; omega
      subst hk00
      have hlbs' := LBS_step hlbs (by simp)
      have := sole_running ai (lbs_lnSet ⟨m1, m2, m3, m4⟩ hlbs') hl' (Or.inl hk0)
      simp [this, hl'] at hp
      subst hp; simp [isNotRunningRet]
  case casWin k0 hk0 hst =>
    refine ⟨hL, fun _ _ _ _ _ => Nat.le_refl _, hde, ?_⟩
    intro hl _ p hp
    have hl' : s.callers.length = 1 := by simpa using hl
    have hk00 : k0 = 0 := by have := getElem?_lt hk0; omega
    subst hk00
    simp [hl'] at hp
    subst hp; simp [isNotRunningRet]
  case casLose k0 hk0 hst =>
    refine ⟨hL, ?_, hde, ?_⟩
    · intro k p hk hp hl
      by_cases hkk : k0 = k
      · subst hkk
        have hln := lbs_lnSet ⟨m1, m2, m3, m4⟩ (LBS_step hl (by simp))
        have h2 := ai.si.lnStatus hln
        simp [stRunning, stShutdown] at hst h2 ⊢; omega
      · simp [List.getElem?_set_ne hkk] at hk
        exact keep k p hk hp hl (by simp)
    · intro hl hlbs p hp
      have hl' : s.callers.length = 1 := by simpa using hl
      have hk00 : k0 = 0 := by have := getElem?_lt hk0; omega
      subst hk00
      have hlbs' := LBS_step hlbs (by simp)
      exact absurd (sole_running ai (lbs_lnSet ⟨m1, m2, m3, m4⟩ hlbs') hl' (Or.inr hk0)) hst
  case finish e hwin hc =>
    have h3 := ai.inv.winSt (by simp [hwin])
    refine ⟨hL, fun _ _ _ _ _ => h3, hde, ?_⟩
    intro hl hlbs p hp
    have hl' : s.callers.length = 1 := by simpa using hl
    simp at hp
    obtain ⟨q, hq, rfl⟩ := hp
    have := m4 hl' (LBS_step hlbs (by simp)) q hq
    have hne := m3.1 e hwin
    cases q <;> simp_all [winnerRet, isNotRunningRet]
  case callerRet k0 e hk0 =>
    refine ⟨hL, ?_, hde, ?_⟩
    · intro k p hk hp hl
      by_cases hkk : k0 = k
      · subst hkk
        simp [List.getElem?_set, getElem?_lt hk0] at hk
        subst hk
        simp [isNotRunningRet] at hp
        subst hp
        exact keep k0 _ hk0 (Or.inl rfl) hl (by simp)
      · simp [List.getElem?_set_ne hkk] at hk
        exact keep k p hk hp hl (by simp)
    · intro hl hlbs p hp
      have hl' : s.callers.length = 1 := by simpa using hl
      have hk00 : k0 = 0 := by have := getElem?_lt hk0; omega
      subst hk00
      have := m4 hl' (LBS_step hlbs (by simp)) _ hk0
      simp [hl'] at hp
      subst hp
      simp_all [isNotRunningRet]
  case conn c f cn cn' hc hf hca _ =>
    have hne : ∀ k, ¬ (a = .shutCall ∧ k = s.callers.length) := by
      rintro k ⟨rfl, _⟩; simp [connAct] at hca
    exact ⟨hL, fun k p hk hp hl => keep k p hk hp hl (hne k), hde,
      fun hl hlbs p hp => m4 hl (LBS_step hlbs (hne 0)) p hp⟩
  all_goals
    exact ⟨hL, fun k p hk hp hl => keep k p hk hp hl (by simp), hde,
      fun hl hlbs p hp => m4 hl (LBS_step hlbs (by simp)) p hp⟩

/-- the invariants used by the clause proofs, along a run that respects `okWin` -/
structure TInv (n : Nat) (s : State) (tr : List TEv) : Prop where
  ai : AllInv n s
  m1 : MI1 s tr
  m3 : MI3 s tr

theorem run_tinv (hle : ∀ s a, ok s a = true → okWin s a = true)
    (hr : run cfg (init n) acts = some sF) (hok : allOk ok cfg (init n) acts = true) :
    TInv n sF (obsRun cfg (init n) acts) := by
  have := run_traceInv cfg ok (TInv n)
    (fun s tr a s' hJ ho hs => ⟨step_allInv cfg n hJ.ai (hle _ _ ho) hs, step_MI1 cfg hJ.m1 (step_Step cfg hs),
      step_MI3 cfg hJ.ai hJ.m3 hs⟩) acts (s := init n) (tr := []) ⟨allInv_init n, mi1_init n, mi3_init n⟩ hr hok
  simpa using this

/-- position `j` of the sequence proves that the status has left `running` (`flipAt`, as a proposition) -/
def FlipL (l : List TEv) (j : Nat) : Prop :=
  (∃ h t, l[j]? = some (TEv.mk (.HS h) t)) ∨
  (∃ k err t, l[j]? = some (TEv.mk (.T k err) t) ∧ (err ≠ "notrunning" ∨ LBS l k))

theorem retFlipAt_FlipL {l : List TEv} {j : Nat} (h : retFlipAt l.toArray j = true) : FlipL l j := by
  unfold retFlipAt at h
  rw [evAt_list] at h
  split at h
  · rename_i k err t heq
    right
    refine ⟨k, err, t, heq, ?_⟩
    rw [Bool.or_eq_true] at h
    rcases h with h | h
    · left; simpa using h
    · right
      split at h
      · rename_i s hs
        obtain ⟨t', hs'⟩ := holdsAt_eq.1 (idxOf?_some hs).1
        obtain ⟨i, his, hi⟩ := (existsBefore_iff _ _ _).1 h
        obtain ⟨t'', hi'⟩ := holdsAt_eq.1 hi
        exact ⟨i, s, t'', t', his, hi', hs'⟩
      · simp at h
  · simp at h

theorem flipAt_FlipL {l : List TEv} {j : Nat} (h : flipAt l.toArray j = true) : FlipL l j := by
  unfold flipAt at h
  rw [Bool.or_eq_true] at h
  rcases h with h | h
  · rw [evAt_list] at h
    split at h
    · rename_i hh t heq; exact Or.inl ⟨hh, t, heq⟩
    · simp at h
  · exact retFlipAt_FlipL h

/-- a flip witness of the whole sequence is one of every prefix that contains it -/
theorem FlipL_prefix (hr : run cfg (init n) acts = some sF) (hok : allOk ok cfg (init n) acts = true)
    {i e acts1 a acts2 s1 s1'} (sp : SplitAt cfg ok (init n) sF acts i e acts1 a acts2 s1 s1') {j : Nat} (hj : j < i)
    (h : FlipL (obsRun cfg (init n) acts) j) : FlipL (obsRun cfg (init n) acts1) j := by
  rcases h with ⟨hh, t, he⟩ | ⟨k, err, t, he, hor⟩
  · exact Or.inl ⟨hh, t, by rw [← sp.before hj]; exact he⟩
  · refine Or.inr ⟨k, err, t, by rw [← sp.before hj]; exact he, hor.imp id ?_⟩
    rintro ⟨i0, s0, t0, t0', his, hi0, hs0⟩
    have hlt := (split_ST hr hok hs0 he).1
    exact ⟨i0, s0, t0, t0', his, by rw [← sp.before (by omega)]; exact hi0, by rw [← sp.before (by omega)]; exact hs0⟩

/-- at a flip witness the status has left `running` -/
theorem flip_status (hle : ∀ s a, ok s a = true → okWin s a = true)
    (hr : run cfg (init n) acts = some sF) (hok : allOk ok cfg (init n) acts = true) {j : Nat}
    (h : FlipL (obsRun cfg (init n) acts) j) :
    ∃ e acts1 a acts2 s1 s1', SplitAt cfg ok (init n) sF acts j e acts1 a acts2 s1 s1' ∧ stShutdown ≤ s1.status := by
  rcases h with ⟨hh, t, he⟩ | ⟨k, err, t, he, hor⟩
  · obtain ⟨acts1, a, acts2, s1, s1', sp⟩ := obsRun_split cfg ok acts hr hok he
    refine ⟨_, _, _, _, _, _, sp, ?_⟩
    have ti := run_tinv hle sp.run1 sp.ok1
    have := obsAct_HS sp.ev; subst this
    have hs := sp.st
    simp only [step] at hs
    obtain ⟨p, p', hj, hf, _⟩ := updHook_some hs
    split at hf <;> simp at hf
    exact ti.ai.inv.winSt (ti.ai.hk.1 _ (List.mem_of_getElem? hj) (by simp)).1
  · obtain ⟨acts1, a, acts2, s1, s1', sp⟩ := obsRun_split cfg ok acts hr hok he
    refine ⟨_, _, _, _, _, _, sp, ?_⟩
    have ti := run_tinv hle sp.run1 sp.ok1
    obtain ⟨e, rfl, rfl⟩ := obsAct_T sp.ev
    have hret := step_callerRet_ret sp.st
    by_cases hn : e = .notRunning
    · subst hn
      rcases hor with hor | hor
      · exact absurd rfl hor
      · obtain ⟨i0, s0, t0, t0', his, hi0, hs0⟩ := hor
        have hlt := (split_ST hr hok hs0 he).1
        refine ti.m3.late k _ hret (Or.inl rfl) ⟨i0, s0, t0, t0', his, ?_, ?_⟩
        · rw [← sp.before (by omega)]; exact hi0
        · rw [← sp.before (by omega)]; exact hs0
    · exact ti.ai.inv.winSt (ret_winner ti.ai hret hn).1

/-- the status at a cut that lies behind a flip witness -/
theorem flip_status_before (hle : ∀ s a, ok s a = true → okWin s a = true)
    (hr : run cfg (init n) acts = some sF) (hok : allOk ok cfg (init n) acts = true)
    {i e acts1 a acts2 s1 s1'} (sp : SplitAt cfg ok (init n) sF acts i e acts1 a acts2 s1 s1') {j : Nat} (hj : j < i)
    (h : FlipL (obsRun cfg (init n) acts) j) : stShutdown ≤ s1.status := by
  obtain ⟨e0, acts0, a0, acts0', s0, s0', sp0, hst0⟩ := flip_status hle sp.run1 sp.ok1 (FlipL_prefix hr hok sp hj h)
  have inv0 : Inv s0 := (run_allInv cfg n ok hle acts0 (allInv_init n) sp0.run1 sp0.ok1).inv
  exact Nat.le_trans (Nat.le_trans hst0 (step_status_le cfg inv0.st4 sp0.st))
    (run_status_le cfg acts0' (step_inv cfg inv0 sp0.st) sp0.run2)

/-- **close_after_shutdown, on the observed sequence (no ghost).**  In the observable projection of
every run in which no CAS is won before the listener exists: after the first flip witness (`HS`, a `T` other
than `errStatusNotRunning`, or an `errStatusNotRunning` given to a call made after `L`), no handler exit
`X c k` is followed by a complete response `R c k` without `Connection: close`. -/
theorem obs_closeAfterShutdown (hle : ∀ s a, ok s a = true → okWin s a = true)
    (hr : run cfg (init n) acts = some sF) (hok : allOk ok cfg (init n) acts = true) :
    closeAfterShutdown (obsRun cfg (init n) acts).toArray = [] := by
  apply closeAfterShutdown_nil
  intro f i j c k b t t' hfi hij hf hi hj
  -- the step that produced `X c k b`
  obtain ⟨acts1, a, acts2, s1, s1', sp⟩ := obsRun_split cfg ok acts hr hok hi
  obtain ⟨rfl, cn1, hc1, hk1⟩ := obsAct_X sp.ev
  have ai1 := run_allInv cfg n ok hle acts1 (allInv_init n) sp.run1 sp.ok1
  -- the flip witness before it
  have hst1 : stShutdown ≤ s1.status := flip_status_before hle hr hok sp hfi (flipAt_FlipL hf)
  -- the response read after it
  rw [sp.after hij] at hj
  obtain ⟨acts3, a3, acts4, s3, s3', sp3⟩ := obsRun_split cfg ok acts2 sp.run2 sp.ok2 hj
  obtain ⟨rfl, _, cn3, hc3, hk3⟩ := obsAct_R sp3.ev
  have hp := run_pendAt cfg acts3 (handlerRet_pendAt cfg hst1 sp.st hc1) sp3.run1
  obtain ⟨cn3', hc3', hpend⟩ := hp
  rw [hc3] at hc3'; cases hc3'
  have inv3 : Inv s3 := run_inv cfg acts3 (step_inv cfg ai1.inv sp.st) sp3.run1
  -- `k` is the number of responses written when the handler returned
  have hcount := (ai1.inv.conns cn1 (List.mem_of_getElem? hc1)).count
  have hk : k = cn1.resps.length := by
    have hst := sp.st
    simp only [step] at hst
    obtain ⟨cn0, cn', hc0, hf0, _⟩ := updConn_some hst
    rw [hc1] at hc0; cases hc0
    unfold cHandlerRet at hf0
    split at hf0 <;> simp at hf0
    rename_i rc hph
    simp [hph, inflight] at hcount
    omega
  -- the read returned response `k` with close = false
  have hst3 := sp3.st
  simp only [step] at hst3
  obtain ⟨cn0, cn', hc0, hf0, _⟩ := updConn_some hst3
  rw [hc3] at hc0; cases hc0
  unfold cClientRead at hf0
  split at hf0 <;> simp at hf0
  rename_i r hr3
  rw [← hk3, hk] at hr3
  rcases hpend with ⟨hl, _⟩ | ⟨r', hr', hfl⟩
  · rw [← hl] at hr3; simp at hr3
  · rw [hr3] at hr'; cases hr'
    have := (inv3.conns cn3 (List.mem_of_getElem? hc3)).resps r (List.mem_of_getElem? hr3) hfl
    simp [this] at hf0

/-- a caller that returns `nil` is the winner, and the winner has been through the listener-closing step -/
theorem tnil_postClose {s s' : State} {a : Act} {k : Nat} (ai : AllInv n s) (hs : step cfg s a = some s')
    (ho : obsAct s a = some (.T k "nil")) : postClose s.win = true := by
  obtain ⟨e, rfl, he⟩ := obsAct_T ho
  have : e = .nil := errStr_inj (e' := .nil) he.symm
  subst this
  simp only [step] at hs
  obtain ⟨p, p', hk, hf, _⟩ := updCaller_some hs
  split at hf <;> try (simp at hf; done)
  rename_i e'
  split at hf <;> simp at hf
  rename_i hee; subst hee
  by_cases hwn : s.win = .none
  · have := ai.co k _ hk (Or.inl hwn)
    simp [pendOrErr] at this
  · by_cases hkk : k = s.winK
    · subst hkk
      obtain ⟨p, hp, hok⟩ := ai.wc hwn
      rw [hk] at hp; cases hp
      obtain ⟨t, ht⟩ := (winCallerOk_ne hwn hok).2.2 _ rfl
      simp [ht, postClose]
    · have := ai.co k _ hk (Or.inr hkk)
      simp [pendOrErr] at this

/-- **no_accept_after_shutdown, on the observed sequence.**  After the first `T nil` no connection is
accepted and no dial started afterwards succeeds. -/
theorem obs_noAcceptAfter (hle : ∀ s a, ok s a = true → okWin s a = true)
    (hr : run cfg (init n) acts = some sF) (hok : allOk ok cfg (init n) acts = true) :
    noAcceptAfter (obsRun cfg (init n) acts).toArray = [] := by
  apply noAcceptAfter_nil
  · intro w i c t hwi hw hi
    obtain ⟨k, tw, hw⟩ := holdsAt_isTnil.1 hw
    obtain ⟨acts1, a, acts2, s1, s1', sp⟩ := obsRun_split cfg ok acts hr hok hw
    have ai1 := run_allInv cfg n ok hle acts1 (allInv_init n) sp.run1 sp.ok1
    have hp1 := tnil_postClose ai1 sp.st sp.ev
    have ai1' := step_allInv cfg n ai1 (hle _ _ sp.oka) sp.st
    have hp1' := step_postClose cfg ai1.inv hp1 (step_Step cfg sp.st)
    rw [sp.after hwi] at hi
    obtain ⟨acts3, a3, acts4, s3, s3', sp3⟩ := obsRun_split cfg ok acts2 sp.run2 sp.ok2 hi
    have ai3 := run_allInv cfg n ok hle acts3 ai1' sp3.run1 sp3.ok1
    have hp3 := run_with_allInv cfg n ok hle (fun s => postClose s.win = true)
      (fun s a s' ai hp _ hS => step_postClose cfg ai.inv hp hS) acts3 ai1' hp1' sp3.run1 sp3.ok1
    have := obsAct_A sp3.ev; subst this
    have hcl := (ai3.inv.closed hp3 ai3.ns).1
    have hst := sp3.st
    simp [step, hcl] at hst
  · intro w sd i d t t' hw hwsd hsdi hsd hi
    obtain ⟨k, tw, hw⟩ := holdsAt_isTnil.1 hw
    obtain ⟨acts1, a, acts2, s1, s1', sp⟩ := obsRun_split cfg ok acts hr hok hw
    have ai1 := run_allInv cfg n ok hle acts1 (allInv_init n) sp.run1 sp.ok1
    have hp1 := tnil_postClose ai1 sp.st sp.ev
    have ai1' := step_allInv cfg n ai1 (hle _ _ sp.oka) sp.st
    have hp1' := step_postClose cfg ai1.inv hp1 (step_Step cfg sp.st)
    -- the dial start
    rw [sp.after hwsd] at hsd
    obtain ⟨acts3, a3, acts4, s3, s3', sp3⟩ := obsRun_split cfg ok acts2 sp.run2 sp.ok2 hsd
    have ai3 := run_allInv cfg n ok hle acts3 ai1' sp3.run1 sp3.ok1
    have hp3 := run_with_allInv cfg n ok hle (fun s => postClose s.win = true)
      (fun s a s' ai hp _ hS => step_postClose cfg ai.inv hp hS) acts3 ai1' hp1' sp3.run1 sp3.ok1
    obtain ⟨rfl, hd⟩ := obsAct_Ds sp3.ev
    have ai3' := step_allInv cfg n ai3 (hle _ _ sp3.oka) sp3.st
    have hdc : DialClosed d s3' := by
      have hst := sp3.st
      simp [step] at hst
      subst hst
      exact ⟨hp3, ai3.ns, Or.inl (by simp [hd])⟩
    -- the dial end
    have hi' : (obsRun cfg s3' acts4)[i - w - 1 - (sd - w - 1) - 1]? = some (TEv.mk (.De d true) t) := by
      rw [sp.after (by omega)] at hi
      rw [sp3.after (by omega)] at hi
      exact hi
    obtain ⟨acts5, a5, acts6, s5, s5', sp5⟩ := obsRun_split cfg ok acts4 sp3.run2 sp3.ok2 hi'
    have hdc5 := run_with_allInv cfg n ok hle (DialClosed d)
      (fun s a s' ai hp _ hS => step_dialClosed cfg d ai.inv ai.wl hp hS) acts5 ai3' hdc sp5.run1 sp5.ok1
    have := obsAct_De sp5.ev; subst this
    have hst := sp5.st
    simp only [step] at hst
    rcases hdc5.2.2 with h | h <;> simp [h] at hst

/-- **second_shutdown_errors / first call succeeds, on the observed sequence.**  A `Shutdown` call that
returns before the listener answered, or that was made after a return that shows the status flipped, gets
`errStatusNotRunning`; a call made on the listening engine that is alone until it returns gets `nil` (or
`errShutdownTimeout`, under the condition `hto`). -/
theorem obs_errorsReported (hle : ∀ s a, ok s a = true → okWin s a = true)
    (hr : run cfg (init n) acts = some sF) (hok : allOk ok cfg (init n) acts = true)
    (p : Params)
    (hto : ∀ (i k ts r tt : Nat), (obsRun cfg (init n) acts)[i]? = some (TEv.mk (.S k) ts) →
      (obsRun cfg (init n) acts)[r]? = some (TEv.mk (.T k "timeout") tt) → p.maxWait < tt - ts) :
    errorsReported p (obsRun cfg (init n) acts).toArray = [] := by
  apply errorsReported_nil
  intro i k ts hi r err tr' hrr hmin
  obtain ⟨acts1, a, acts2, s1, s1', sp⟩ := obsRun_split cfg ok acts hr hok hi
  obtain ⟨rfl, hk⟩ := obsAct_S sp.ev
  have ai1 := run_allInv cfg n ok hle acts1 (allInv_init n) sp.run1 sp.ok1
  have mi1 := run_MI1 cfg n sp.run1
  -- the return comes after the call
  have hir : i < r := (split_ST hr hok hi hrr).1
  have hrr0 := hrr
  rw [sp.after hir] at hrr
  obtain ⟨acts3, a3, acts4, s3, s3', sp3⟩ := obsRun_split cfg ok acts2 sp.run2 sp.ok2 hrr
  obtain ⟨e, rfl, rfl⟩ := obsAct_T sp3.ev
  have hret := step_callerRet_ret sp3.st
  have ai1' := step_allInv cfg n ai1 (hle _ _ sp.oka) sp.st
  have hs1' : s1' = { s1 with callers := s1.callers ++ [.called] } := by
    have := sp.st; simp [step] at this; exact this.symm
  have spr := sp.nest sp3
  have hidx : i + 1 + (r - i - 1) = r := by omega
  rw [hidx] at spr
  have ti3 := run_tinv hle spr.run1 spr.ok1
  constructor
  · rintro (hnl | ⟨j, hji, hfl⟩)
    · -- the call returned before the listener answered
      cases e with
      | notRunning => rfl
      | nil =>
        exfalso
        obtain ⟨hwn, _, t, hw⟩ := ret_winner ti3.ai hret (by simp)
        have hln := (ti3.ai.inv.closed (by simp [hw, postClose]) ti3.ai.ns).2
        obtain ⟨j, t', hj, he⟩ := spr.has_before (ti3.m1.mL hln)
        exact hnl ⟨j, hj, holdsAt_eq.2 ⟨t', he⟩⟩
      | timeout =>
        exfalso
        obtain ⟨hwn, _, t, hw⟩ := ret_winner ti3.ai hret (by simp)
        have hln := (ti3.ai.inv.closed (by simp [hw, postClose]) ti3.ai.ns).2
        obtain ⟨j, t', hj, he⟩ := spr.has_before (ti3.m1.mL hln)
        exact hnl ⟨j, hj, holdsAt_eq.2 ⟨t', he⟩⟩
    · -- some call has returned before this one was made, showing that the status had flipped
      have hst : stShutdown ≤ s1.status := flip_status_before hle hr hok sp hji (retFlipAt_FlipL hfl)
      have hla : LoserAt k s1' := by
        rw [hs1']
        exact ⟨hst, .called, by simp [hk], Or.inl rfl⟩
      obtain ⟨_, p, hp, hpp⟩ := run_with_allInv cfg n ok hle (LoserAt k)
        (fun s a s' ai hp _ hS => step_loserAt cfg k ai.inv hp hS) acts3 ai1' hla sp3.run1 sp3.ok1
      rw [hret] at hp; cases hp
      rcases hpp with h | h | h <;> simp at h
      subst h; rfl
  · -- the call was made on the listening engine and is alone until it returns
    rintro ⟨jl, hjl, hl⟩ _ hnoS
    have mi3 := ti3.m1
    have hlen : s3.callers.length = 1 ∧ k = 0 := by
      have hklt := getElem?_lt hret
      have hall : ∀ k', k' < s3.callers.length → k' = k := by
        intro k' hk'
        obtain ⟨j, t, hj, ht⟩ := spr.has_before (mi3.mS k' hk')
        apply Classical.byContradiction
        intro hne
        exact hnoS ⟨j, k', t, hj, hne, ht⟩
      have h0 := hall 0 (by omega)
      constructor
      · rcases Nat.lt_or_ge 1 s3.callers.length with h | h
        · have := hall 1 h; omega
        · omega
      · exact h0.symm
    obtain ⟨hl3, hk0⟩ := hlen
    obtain ⟨tl, hl⟩ := holdsAt_eq.1 hl
    have hlbs : LBS (obsRun cfg (init n) (acts1 ++ Act.shutCall :: acts3)) 0 := by
      refine ⟨jl, i, tl, ts, hjl, ?_, ?_⟩
      · rw [← spr.before (by omega)]; exact hl
      · rw [← spr.before hir, ← hk0]; exact hi
    rw [hk0] at hret
    have hne := ti3.m3.sole hl3 hlbs _ hret
    cases e
    · exact Or.inl rfl
    · exact absurd (Or.inl rfl) hne
    · exact Or.inr ⟨rfl, hto i k ts r tr' hi hrr0⟩

theorem allOk_true (cfg : Cfg) : ∀ (acts : List Act) (s : State), allOk (fun _ _ => true) cfg s acts = true
  | [], _ => rfl
  | a :: t, s => by simp only [allOk, Bool.true_and]; split <;> simp [allOk_true cfg t]

theorem run_MI2 (cfg : Cfg) (n : Nat) {acts : List Act} {s : State} (hr : run cfg (init n) acts = some s) :
    MI2 s (obsRun cfg (init n) acts) := by
  have := run_traceInv cfg (fun _ _ => true) MI2 (fun s tr a s' hJ _ hs => step_MI2 cfg hJ (step_Step cfg hs)) acts
    (s := init n) (tr := []) (by constructor <;> simp [init]) hr (allOk_true cfg acts _)
  simpa using this

/-- every connection's client has read all responses to the requests that reached a handler -/
def Settled (s : State) : Prop := ∀ cn ∈ s.conns, cn.acked = cn.started

/-- **inflight_complete, on the observed sequence.**  In the observable projection of every run that
ends with all clients having read their responses (`Settled`): every request that entered its handler
(`Q c k`) — before, during or after `Shutdown` — is followed by a complete response `R c k`, and no
truncated response is ever observed. -/
theorem obs_inflightComplete (hr : run cfg (init n) acts = some sF) (hset : Settled sF) :
    inflightComplete (obsRun cfg (init n) acts).toArray = [] := by
  have hok := allOk_true cfg acts (init n)
  have hle : ∀ s a, (fun (_ : State) (_ : Act) => true) s a = true → okListen s a = true → True := fun _ _ _ _ => trivial
  apply inflightComplete_nil
  · intro i c k rc t hi
    obtain ⟨acts1, a, acts2, s1, s1', sp⟩ := obsRun_split cfg _ acts hr hok hi
    obtain ⟨rfl, cn1, hc1, hk⟩ := obsAct_Q sp.ev
    have mi1 := run_MI2 cfg n sp.run1
    have miF := run_MI2 cfg n hr
    obtain ⟨cnF, hcF, hkF⟩ := miF.mQ c k rc (has_of_getElem? hi)
    have hsetF := hset cnF (List.mem_of_getElem? hcF)
    obtain ⟨cl, hcl⟩ := miF.mR' c cnF hcF k (by omega)
    obtain ⟨j, _, hh⟩ := has_idx hcl
    obtain ⟨t', ht'⟩ := holdsAt_eq.1 hh
    refine ⟨j, cl, t', ?_, ht'⟩
    rcases Nat.lt_trichotomy j i with h | h | h
    · exfalso
      rw [sp.before h] at ht'
      obtain ⟨cn, hcn, hlt⟩ := mi1.mR c k cl true (has_of_getElem? ht')
      rw [hc1] at hcn; cases hcn
      have inv1 : Inv s1 := run_inv cfg acts1 (inv_init n) sp.run1
      have hcount := (inv1.conns cn1 (List.mem_of_getElem? hc1)).count
      have hcc : ConnCount s1 := by
        have := run_traceInv cfg (fun _ _ => true) (fun s _ => ConnCount s)
          (fun s tr a s' hJ _ hs => step_connCount cfg hJ (step_Step cfg hs)) acts1
          (s := init n) (tr := []) (by constructor <;> simp [init, liveCount]) sp.run1 (allOk_true cfg acts1 _)
        exact this
      have := hcc.2 cn1 (List.mem_of_getElem? hc1)
      omega
    · subst h; rw [hi] at ht'; cases ht'
    · exact h
  · intro i c k cl t hi
    obtain ⟨acts1, a, acts2, s1, s1', sp⟩ := obsRun_split cfg _ acts hr hok hi
    have := (obsAct_R sp.ev).2.1
    simp at this

end clauses

end Hertz.Shutdown
