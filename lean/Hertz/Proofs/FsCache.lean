import Hertz.Model.FsCache
import Hertz.Proofs.Fs
/-!
Lemmas for the cache / reference-count part of C08 (`Hertz/Model/FsCache.lean`).  Core Lean only.

The invariant `G s sl` is stated with a *slack*: `sl = some id` means "`ff.readersCount` of file `id` has
been incremented for the request that is being handled and the reader is not handed out yet".  Every
primitive of the model moves the slack exactly like the Go statement it mirrors (`readersCount++` :
none → some, `decReadersCount` / handing the reader to the response : some → none), so a second
decrement on the same path has no lemma to use.
-/
set_option linter.unusedSimpArgs false
set_option linter.unusedVariables false

namespace Hertz.FsCache
open Hertz

def slackOf (sl : Option Nat) (id : Nat) : Int := if sl = some id then 1 else 0

@[simp] theorem slackOf_none (id : Nat) : slackOf none id = 0 := by simp [slackOf]
@[simp] theorem slackOf_self (id : Nat) : slackOf (some id) id = 1 := by simp [slackOf]
theorem slackOf_ne {id j : Nat} (h : j ≠ id) : slackOf (some id) j = 0 := by
  simp [slackOf]; intro h'; exact h h'.symm

structure G (s : State) (sl : Option Nat) : Prop where
  cnt : ∀ o ∈ s.objs, o.rc = (countFid o.id s.live : Int) + slackOf sl o.id
  lt : ∀ o ∈ s.objs, o.id < s.next
  uniq : ∀ o₁ ∈ s.objs, ∀ o₂ ∈ s.objs, o₁.id = o₂.id → o₁ = o₂
  closed : ∀ o ∈ s.objs, o.fileOpen = false →
    o.cached = false ∧ o.pending = false ∧ countFid o.id s.live = 0 ∧ sl ≠ some o.id
  ref : ∀ r ∈ s.live, ∃ o ∈ s.objs, o.id = r.fid
  excl : ∀ o ∈ s.objs, o.pending = true → o.cached = false
  tgt : ∀ f, sl = some f → ∃ o ∈ s.objs, o.id = f

theorem G_init : G {} none :=
  ⟨by simp, by simp, by simp, by simp, by simp, by simp, by simp⟩

/-! ### updates of every `fsFile` that keep identity and the open/cached/pending flags -/

theorem G_map {s : State} {sl sl' : Option Nat} (g : Obj → Obj) (h : G s sl)
    (hid : ∀ o, (g o).id = o.id) (hfo : ∀ o, (g o).fileOpen = o.fileOpen)
    (hca : ∀ o, (g o).cached = o.cached) (hpe : ∀ o, (g o).pending = o.pending)
    (hrc : ∀ o ∈ s.objs, (g o).rc = (countFid o.id s.live : Int) + slackOf sl' o.id)
    (hsl : ∀ o ∈ s.objs, o.fileOpen = false → sl' ≠ some o.id)
    (htg : ∀ f, sl' = some f → ∃ o ∈ s.objs, o.id = f) :
    G { s with objs := s.objs.map g } sl' := by
  refine ⟨?_, ?_, ?_, ?_, ?_, ?_, ?_⟩
  · intro o' ho'
    obtain ⟨o, ho, rfl⟩ := List.mem_map.1 ho'
    rw [hid]; exact hrc o ho
  · intro o' ho'
    obtain ⟨o, ho, rfl⟩ := List.mem_map.1 ho'
    rw [hid]; exact h.lt o ho
  · intro a ha b hb hab
    obtain ⟨o₁, h₁, rfl⟩ := List.mem_map.1 ha
    obtain ⟨o₂, h₂, rfl⟩ := List.mem_map.1 hb
    rw [hid, hid] at hab
    rw [h.uniq o₁ h₁ o₂ h₂ hab]
  · intro o' ho' hf
    obtain ⟨o, ho, rfl⟩ := List.mem_map.1 ho'
    rw [hfo] at hf
    obtain ⟨a, b, c, _⟩ := h.closed o ho hf
    rw [hca, hpe, hid]
    exact ⟨a, b, c, hsl o ho hf⟩
  · intro r hr
    obtain ⟨o, ho, e⟩ := h.ref r hr
    exact ⟨g o, List.mem_map.2 ⟨o, ho, rfl⟩, by rw [hid]; exact e⟩
  · intro o' ho' hp
    obtain ⟨o, ho, rfl⟩ := List.mem_map.1 ho'
    rw [hpe] at hp; rw [hca]; exact h.excl o ho hp
  · intro f hf
    obtain ⟨o, ho, e⟩ := htg f hf
    exact ⟨g o, List.mem_map.2 ⟨o, ho, rfl⟩, by rw [hid]; exact e⟩

theorem findObj_some {s : State} {id : Nat} {o : Obj} (h : findObj s id = some o) : o ∈ s.objs ∧ o.id = id := by
  unfold findObj at h
  exact ⟨List.mem_of_find?_eq_some h, by simpa using List.find?_some h⟩

theorem findObj_of_mem {s : State} {id : Nat} (h : ∃ o ∈ s.objs, o.id = id) : ∃ o, findObj s id = some o := by
  obtain ⟨o, ho, e⟩ := h
  cases hf : findObj s id with
  | some o' => exact ⟨o', rfl⟩
  | none =>
    unfold findObj at hf
    have := List.find?_eq_none.1 hf o ho
    simp [e] at this

/-- `ff.readersCount++` for a request that has just found or created `id` -/
theorem G_incRc {s : State} {id : Nat} (h : G s none) (hex : ∃ o ∈ s.objs, o.id = id)
    (hop : ∀ o ∈ s.objs, o.id = id → o.fileOpen = true) : G (incRc id s) (some id) := by
  unfold incRc modObj
  refine G_map _ h ?_ ?_ ?_ ?_ ?_ ?_ ?_
  · intro o; by_cases e : o.id = id <;> simp [e]
  · intro o; by_cases e : o.id = id <;> simp [e]
  · intro o; by_cases e : o.id = id <;> simp [e]
  · intro o; by_cases e : o.id = id <;> simp [e]
  · intro o ho
    have := h.cnt o ho
    by_cases e : o.id = id
    · simp [e] at this ⊢; rw [this, ← e]
    · simp [e, slackOf_ne e] at this ⊢; exact this
  · intro o ho hf e
    have : o.id = id := by simpa using e.symm
    rw [hop o ho this] at hf; cases hf
  · intro f hf
    have : f = id := by simpa using hf.symm
    subst this; exact hex

/-- `decReadersCount` on the path that owns the slack: never the panic, and the slack is used up -/
theorem G_dec {s : State} {id : Nat} (h : G s (some id)) :
    ∃ s', decReadersCount id s = .ok s' ∧ G s' none ∧ s'.live = s.live ∧ s'.next = s.next ∧ s'.disk = s.disk := by
  obtain ⟨o, hfo⟩ := findObj_of_mem (h.tgt id rfl)
  obtain ⟨ho, hid⟩ := findObj_some hfo
  have hc := h.cnt o ho
  rw [hid] at hc; simp at hc
  have hge : ¬ (o.rc - 1 < 0) := by omega
  refine ⟨modObj id (fun o => { o with rc := o.rc - 1 }) s, by simp [decReadersCount, hfo, hge], ?_, rfl, rfl, rfl⟩
  unfold modObj
  refine G_map _ h ?_ ?_ ?_ ?_ ?_ ?_ ?_
  · intro o; by_cases e : o.id = id <;> simp [e]
  · intro o; by_cases e : o.id = id <;> simp [e]
  · intro o; by_cases e : o.id = id <;> simp [e]
  · intro o; by_cases e : o.id = id <;> simp [e]
  · intro o' ho'
    have := h.cnt o' ho'
    by_cases e : o'.id = id
    · simp [e] at this ⊢; rw [this]; omega
    · simp [e, slackOf_ne e] at this ⊢; exact this
  · intro o ho hf; simp
  · intro f hf; cases hf

/-- a change of one `fsFile` that touches neither the count nor the flags (the reader pool) -/
theorem G_modPool {s : State} {sl : Option Nat} {id : Nat} (f : Obj → Obj) (h : G s sl)
    (hid : ∀ o, (f o).id = o.id) (hfo : ∀ o, (f o).fileOpen = o.fileOpen)
    (hca : ∀ o, (f o).cached = o.cached) (hpe : ∀ o, (f o).pending = o.pending) (hrc : ∀ o, (f o).rc = o.rc) :
    G (modObj id f s) sl := by
  unfold modObj
  refine G_map _ h ?_ ?_ ?_ ?_ ?_ ?_ ?_
  · intro o; by_cases e : o.id = id <;> simp [e, hid]
  · intro o; by_cases e : o.id = id <;> simp [e, hfo]
  · intro o; by_cases e : o.id = id <;> simp [e, hca]
  · intro o; by_cases e : o.id = id <;> simp [e, hpe]
  · intro o ho
    have := h.cnt o ho
    by_cases e : o.id = id <;> simp [e, hrc] <;> simpa [e] using this
  · intro o ho hf; exact (h.closed o ho hf).2.2.2
  · exact h.tgt

theorem G_next {s : State} {sl : Option Nat} (h : G s sl) : G { s with next := s.next + 1 } sl :=
  ⟨h.cnt, fun o ho => Nat.lt_succ_of_lt (h.lt o ho), h.uniq, h.closed, h.ref, h.excl, h.tgt⟩

theorem G_disk {s : State} {sl : Option Nat} (d : Disk) (h : G s sl) : G { s with disk := d } sl :=
  ⟨h.cnt, h.lt, h.uniq, h.closed, h.ref, h.excl, h.tgt⟩

/-- the reader goes to the response: the slack becomes a live reader -/
theorem G_addLive {s : State} {id : Nat} (r : Reader) (h : G s (some id)) (hr : r.fid = id) :
    G { s with live := r :: s.live } none := by
  refine ⟨?_, h.lt, h.uniq, ?_, ?_, h.excl, ?_⟩
  · intro o ho
    have := h.cnt o ho
    by_cases e : o.id = id
    · simp [countFid, hr, e] at this ⊢; rw [this]; omega
    · have e' : ¬ id = o.id := fun x => e x.symm
      simp [countFid, hr, e', slackOf_ne e] at this ⊢; exact this
  · intro o ho hf
    obtain ⟨a, b, c, d⟩ := h.closed o ho hf
    have e : ¬ id = o.id := fun x => d (by rw [x])
    refine ⟨a, b, ?_, by simp⟩
    simp [countFid, hr, e, c]
  · intro r' hr'
    cases List.mem_cons.1 hr' with
    | inl e => subst e; rw [hr]; exact h.tgt id rfl
    | inr m => exact h.ref r' m
  · intro f hf; cases hf

theorem countFid_take {rid : Nat} {l rest : List Reader} {r : Reader} (h : takeReader rid l = some (r, rest)) (fid : Nat) :
    countFid fid l = countFid fid rest + (if r.fid = fid then 1 else 0) ∧ r ∈ l ∧ (∀ x ∈ rest, x ∈ l) := by
  induction l generalizing rest with
  | nil => simp [takeReader] at h
  | cons a t ih =>
    unfold takeReader at h
    by_cases e : a.rid = rid
    · simp [e] at h
      obtain ⟨rfl, rfl⟩ := h
      refine ⟨by simp [countFid]; omega, by simp, fun x hx => List.mem_cons_of_mem _ hx⟩
    · simp [e] at h
      obtain ⟨x, l', hx, rfl, rfl⟩ := h
      obtain ⟨c, m, sub⟩ := ih hx
      refine ⟨by simp [countFid, c]; omega, List.mem_cons_of_mem _ m, ?_⟩
      intro y hy
      cases List.mem_cons.1 hy with
      | inl e => subst e; simp
      | inr m' => exact List.mem_cons_of_mem _ (sub y m')

/-- taking a reader out of the live list gives its file one unit of slack -/
theorem G_take {s : State} {rid : Nat} {r : Reader} {rest : List Reader} (h : G s none)
    (ht : takeReader rid s.live = some (r, rest)) : G { s with live := rest } (some r.fid) := by
  have key := fun fid => countFid_take ht fid
  refine ⟨?_, h.lt, h.uniq, ?_, ?_, h.excl, ?_⟩
  · intro o ho
    have := h.cnt o ho
    have k := (key o.id).1
    by_cases e : r.fid = o.id
    · simp [e] at k this ⊢; rw [this, k, ← e]; simp
    · have e' : o.id ≠ r.fid := fun x => e x.symm
      simp [e, slackOf_ne e'] at k this ⊢; rw [this, k]
  · intro o ho hf
    obtain ⟨a, b, c, _⟩ := h.closed o ho hf
    have k := (key o.id).1
    have hle : countFid o.id rest ≤ countFid o.id s.live := by rw [k]; exact Nat.le_add_right _ _
    refine ⟨a, b, ?_, ?_⟩
    · show countFid o.id rest = 0
      omega
    · intro e
      have e' : r.fid = o.id := by simpa using e
      simp [e'] at k; omega
  · intro x hx; exact h.ref x ((key 0).2.2 x hx)
  · intro f hf
    have : f = r.fid := by simpa using hf.symm
    subst this; exact h.ref r (key 0).2.1

theorem countFid_zero {fid : Nat} {l : List Reader} (h : ∀ r ∈ l, r.fid ≠ fid) : countFid fid l = 0 := by
  induction l with
  | nil => rfl
  | cons a t ih =>
    have := h a (by simp)
    simp [countFid, this, ih (fun r hr => h r (List.mem_cons_of_mem _ hr))]

theorem countFid_pos_of_mem {r : Reader} {l : List Reader} (h : r ∈ l) : 0 < countFid r.fid l := by
  induction l with
  | nil => cases h
  | cons a t ih =>
    cases List.mem_cons.1 h with
    | inl e => subst e; simp [countFid]; omega
    | inr m => have := ih m; simp [countFid]; omega

/-- a freshly opened `fsFile` enters the state with count 0 -/
theorem G_newObj {s : State} (h : G s none) (o : Obj) (hid : o.id = s.next) (hrc : o.rc = 0)
    (hfo : o.fileOpen = true) (hpe : o.pending = false) :
    G { s with objs := o :: s.objs, next := s.next + 1 } none := by
  have fresh : countFid s.next s.live = 0 := by
    apply countFid_zero
    intro r hr e
    obtain ⟨o', ho', e'⟩ := h.ref r hr
    have := h.lt o' ho'
    omega
  refine ⟨?_, ?_, ?_, ?_, ?_, ?_, ?_⟩
  · intro x hx
    cases List.mem_cons.1 hx with
    | inl e => subst e; simp [hrc, hid, fresh]
    | inr m => exact h.cnt x m
  · intro x hx
    cases List.mem_cons.1 hx with
    | inl e => subst e; show x.id < s.next + 1; omega
    | inr m => have := h.lt x m; show x.id < s.next + 1; omega
  · intro a ha b hb hab
    cases List.mem_cons.1 ha with
    | inl ea =>
      cases List.mem_cons.1 hb with
      | inl eb => rw [ea, eb]
      | inr mb => have := h.lt b mb; subst ea; omega
    | inr ma =>
      cases List.mem_cons.1 hb with
      | inl eb => have := h.lt a ma; subst eb; omega
      | inr mb => exact h.uniq a ma b mb hab
  · intro x hx hf
    cases List.mem_cons.1 hx with
    | inl e => subst e; rw [hfo] at hf; cases hf
    | inr m => exact h.closed x m hf
  · intro r hr
    obtain ⟨o', ho', e'⟩ := h.ref r hr
    exact ⟨o', List.mem_cons_of_mem _ ho', e'⟩
  · intro x hx hp
    cases List.mem_cons.1 hx with
    | inl e => subst e; rw [hpe] at hp; cases hp
    | inr m => exact h.excl x m hp
  · intro f hf; cases hf

theorem tickObj_id (o : Obj) : (tickObj o).id = o.id := by
  unfold tickObj Obj.release; repeat' split
  all_goals rfl
theorem tickObj_rc (o : Obj) : (tickObj o).rc = o.rc := by
  unfold tickObj Obj.release; repeat' split
  all_goals rfl

/-- one round of `cleanCache`: a file is released only when it is out of the cache and its count is 0 -/
theorem G_tick {s : State} (h : G s none) : G (tick s) none := by
  unfold tick
  refine ⟨?_, ?_, ?_, ?_, ?_, ?_, ?_⟩
  · intro o' ho'
    obtain ⟨o, ho, rfl⟩ := List.mem_map.1 ho'
    rw [tickObj_id, tickObj_rc]; exact h.cnt o ho
  · intro o' ho'
    obtain ⟨o, ho, rfl⟩ := List.mem_map.1 ho'
    rw [tickObj_id]; exact h.lt o ho
  · intro a ha b hb hab
    obtain ⟨o₁, h₁, rfl⟩ := List.mem_map.1 ha
    obtain ⟨o₂, h₂, rfl⟩ := List.mem_map.1 hb
    rw [tickObj_id, tickObj_id] at hab
    rw [h.uniq o₁ h₁ o₂ h₂ hab]
  · intro o' ho' hf
    obtain ⟨o, ho, rfl⟩ := List.mem_map.1 ho'
    have hc := h.cnt o ho
    simp at hc
    have hex := h.excl o ho
    have hcl := h.closed o ho
    rw [tickObj_id]
    unfold tickObj Obj.release at hf ⊢
    by_cases hp : o.pending = true
    · by_cases hr : o.rc > 0
      · simp [hp, hr] at hf ⊢
        have := (hcl hf).2.1; rw [hp] at this; cases this
      · simp [hp, hr] at hf ⊢
        exact ⟨hex hp, by omega⟩
    · by_cases hx : (o.cached && o.expired) = true
      · by_cases hr : o.rc > 0
        · simp [hp, hx, hr] at hf ⊢
          have := (hcl hf).1
          simp at hx; rw [hx.1] at this; cases this
        · simp [hp, hx, hr] at hf ⊢
          omega
      · simp [hp, hx] at hf ⊢
        obtain ⟨a, b, c, _⟩ := hcl hf
        exact ⟨a, c⟩
  · intro r hr
    obtain ⟨o, ho, e⟩ := h.ref r hr
    exact ⟨tickObj o, List.mem_map.2 ⟨o, ho, rfl⟩, by rw [tickObj_id]; exact e⟩
  · intro o' ho' hp'
    obtain ⟨o, ho, rfl⟩ := List.mem_map.1 ho'
    have hex := h.excl o ho
    unfold tickObj Obj.release at hp' ⊢
    by_cases hp : o.pending = true
    · by_cases hr : o.rc > 0
      · simp [hp, hr] at hp' ⊢; exact hex hp
      · simp [hp, hr] at hp' ⊢
    · by_cases hx : (o.cached && o.expired) = true
      · by_cases hr : o.rc > 0
        · simp [hp, hx, hr] at hp' ⊢
        · simp [hp, hx, hr] at hp' ⊢
      · simp [hp, hx] at hp' ⊢
  · intro f hf; cases hf

theorem G_expire {s : State} (h : G s none) : G (expireAll s) none := by
  unfold expireAll
  refine G_map _ h (fun _ => rfl) (fun _ => rfl) (fun _ => rfl) (fun _ => rfl) ?_ ?_ ?_
  · intro o ho; exact h.cnt o ho
  · intro o ho hf; simp
  · intro f hf; cases hf

/-! ### the Go functions -/

theorem G_closeReader {s : State} {r : Reader} (h : G s (some r.fid)) :
    ∃ s', closeReader r s = .ok s' ∧ G s' none ∧ s'.live = s.live := by
  unfold closeReader
  by_cases hb : r.big = true
  · simp only [hb, if_true]
    have h' := G_modPool (id := r.fid) (fun o => { o with pool := { rid := r.rid, src := r.src } :: o.pool }) h
      (fun _ => rfl) (fun _ => rfl) (fun _ => rfl) (fun _ => rfl) (fun _ => rfl)
    obtain ⟨s', e, g, l, _⟩ := G_dec h'
    exact ⟨s', e, g, l⟩
  · simp only [hb, if_false]
    obtain ⟨s', e, g, l, _⟩ := G_dec h
    exact ⟨s', e, g, l⟩

theorem G_finish {s : State} {r : Reader} (head : Bool) (status : Nat) (cr : Option (Nat × Nat × Nat))
    (h : G s (some r.fid)) :
    ∃ s' a, finish head s status r cr = .ok (s', a) ∧ G s' none ∧ (a.rid = none → s'.live = s.live) := by
  unfold finish
  cases head with
  | true =>
    obtain ⟨s', e, g, l⟩ := G_closeReader h
    exact ⟨s', _, by rw [e]; rfl, g, fun _ => l⟩
  | false =>
    exact ⟨_, _, rfl, G_addLive r h rfl, by simp⟩

theorem G_withReader {s : State} {r : Reader} (accept head : Bool) (range : Bytes) (o : Obj)
    (h : G s (some r.fid)) :
    ∃ s' a, withReader accept head range o r s = .ok (s', a) ∧ G s' none ∧ (a.rid = none → s'.live = s.live) := by
  unfold withReader
  by_cases hc : (accept && !range.isEmpty) = true
  · simp only [hc, if_true]
    rcases FS.parseByteRange_no_panic range o.c.len with ⟨⟨a, b⟩, hp⟩ | hp
    · rw [hp]
      exact G_finish (r := { r with lo := a.toNat, cl := (b - a + 1).toNat }) head 206 _ h
    · rw [hp]
      obtain ⟨s', e, g, l⟩ := G_closeReader h
      exact ⟨s', _, by rw [e]; rfl, g, fun _ => l⟩
  · simp only [hc, if_false]
    exact G_finish head 200 none h

theorem G_serve {s : State} {id : Nat} (accept head : Bool) (ims : Option Nat) (range : Bytes) (h : G s (some id)) :
    ∃ s' a, serve accept head ims range id s = .ok (s', a) ∧ G s' none ∧ (a.rid = none → s'.live = s.live) := by
  unfold serve
  obtain ⟨o, hfo⟩ := findObj_of_mem (h.tgt id rfl)
  simp only [hfo]
  by_cases hn : notModified ims o = true
  · simp only [hn, if_true]
    obtain ⟨s', e, g, l, _⟩ := G_dec h
    exact ⟨s', _, by rw [e]; rfl, g, fun _ => l⟩
  · simp only [hn, if_false]
    by_cases hb : o.isBig = true
    · simp only [hb, if_true]
      cases hpool : o.pool with
      | cons p rest =>
        simp only []
        have h' := G_modPool (id := id) (fun o => { o with pool := rest }) h
          (fun _ => rfl) (fun _ => rfl) (fun _ => rfl) (fun _ => rfl) (fun _ => rfl)
        exact G_withReader (r := { rid := p.rid, fid := id, big := true, src := p.src, lo := 0, cl := o.c.len }) accept head range o h'
      | nil =>
        simp only []
        cases hre : reopen s.disk o with
        | none =>
          simp only []
          obtain ⟨s', e, g, l, _⟩ := G_dec h
          exact ⟨s', _, by rw [e]; rfl, g, fun _ => l⟩
        | some src =>
          simp only []
          exact G_withReader (r := { rid := s.next, fid := id, big := true, src := src, lo := 0, cl := o.c.len }) accept head range o (G_next h)
    · simp only [hb, if_false]
      exact G_withReader (r := { rid := s.next, fid := id, big := false, src := .content o.c, lo := 0, cl := o.c.len }) accept head range o (G_next h)

theorem lookup_some {s : State} {key : Nat} {o : Obj} (h : lookup s key = some o) : o ∈ s.objs ∧ o.cached = true := by
  unfold lookup at h
  have := List.find?_some h
  simp at this
  exact ⟨List.mem_of_find?_eq_some h, this.1⟩

theorem G_handleRequest {s : State} (accept : Bool) (key : Nat) (head : Bool) (ims : Option Nat) (range : Bytes)
    (h : G s none) :
    ∃ s' a, handleRequest accept key head ims range s = .ok (s', a) ∧ G s' none ∧ (a.rid = none → s'.live = s.live) := by
  unfold handleRequest
  cases hl : lookup s key with
  | some o =>
    simp only []
    obtain ⟨ho, hc⟩ := lookup_some hl
    have hop : ∀ o' ∈ s.objs, o'.id = o.id → o'.fileOpen = true := by
      intro o' ho' e
      rw [h.uniq o' ho' o ho e]
      cases hf : o.fileOpen with
      | true => rfl
      | false => have := (h.closed o ho hf).1; rw [hc] at this; cases this
    exact G_serve accept head ims range (G_incRc h ⟨o, ho, rfl⟩ hop)
  | none =>
    simp only []
    cases ho : openPath s.disk key with
    | notFound => exact ⟨s, _, rfl, h, fun _ => rfl⟩
    | forbidden => exact ⟨s, _, rfl, h, fun _ => rfl⟩
    | ok vi c mt =>
      simp only []
      have hn := G_newObj h { id := s.next, key := key, viaIndex := vi, c := c, mt := mt, rc := 0, pool := [],
                               fileOpen := true, cached := true, pending := false, expired := false } rfl rfl rfl rfl
      refine G_serve accept head ims range (G_incRc hn ⟨_, List.mem_cons_self, rfl⟩ ?_)
      intro o' ho' e
      cases List.mem_cons.1 ho' with
      | inl e' => subst e'; rfl
      | inr m =>
        have := h.lt o' m
        have e2 : o'.id = s.next := e
        omega

theorem G_closeOp {s : State} (rid : Nat) (h : G s none) :
    ∃ s' a, closeOp rid s = .ok (s', a) ∧ G s' none := by
  unfold closeOp
  cases ht : takeReader rid s.live with
  | none => exact ⟨s, _, rfl, h⟩
  | some p =>
    obtain ⟨r, rest⟩ := p
    simp only []
    obtain ⟨s', e, g, _⟩ := G_closeReader (G_take h ht)
    exact ⟨s', _, by rw [e]; rfl, g⟩

theorem G_step {s : State} (accept : Bool) (op : Op) (h : G s none) :
    ∃ s' a, step accept s op = .ok (s', a) ∧ G s' none := by
  cases op with
  | req key head ims range =>
    obtain ⟨s', a, e, g, _⟩ := G_handleRequest accept key head ims range h
    exact ⟨s', a, e, g⟩
  | close rid => exact G_closeOp rid h
  | setNode key n => exact ⟨_, _, rfl, G_disk _ h⟩
  | expire => exact ⟨_, _, rfl, G_expire h⟩
  | tick => exact ⟨_, _, rfl, G_tick h⟩

theorem G_run (accept : Bool) (ops : List Op) : ∀ {s : State}, G s none → ∃ s', run accept s ops = .ok s' ∧ G s' none := by
  induction ops with
  | nil => intro s h; exact ⟨s, rfl, h⟩
  | cons op ops ih =>
    intro s h
    obtain ⟨s1, a, e, g⟩ := G_step accept op h
    obtain ⟨s2, e2, g2⟩ := ih g
    exact ⟨s2, by simp [run, e, e2], g2⟩

end Hertz.FsCache
