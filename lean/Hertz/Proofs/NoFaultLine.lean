import Hertz.Proofs.NoFaultPath
import Hertz.Model.NoFaultLine
/-! C03: `utils.NextLine` and the request-line parser never reach a fault, for every buffer. -/
namespace Hertz.NF
open Hertz Hertz.Gen.Str

theorem nextLine_spec (b : Bytes) : ∃ r, nextLine b = some r ∧ ∀ lr, r = some lr → len lr.2 < len b := by
  unfold nextLine
  dsimp only
  have h0 := indexByte_ge 10 b
  have h1 := indexByte_lt 10 b
  by_cases hn : indexByte 10 b < 0
  · rw [if_pos hn]; exact ⟨_, rfl, fun lr h => by cases h⟩
  · rw [if_neg hn]
    have hm : ∃ n, (if indexByte 10 b > 0 then (ix b (indexByte 10 b - 1)).bind fun c => some (if c = 13 then indexByte 10 b - 1 else indexByte 10 b)
        else some (indexByte 10 b)) = some n ∧ 0 ≤ n ∧ n ≤ indexByte 10 b := by
      by_cases hp : indexByte 10 b > 0
      · rw [if_pos hp]
        obtain ⟨c, hc⟩ := ix_spec (b := b) (i := indexByte 10 b - 1) (by omega) (by omega)
        rw [hc, Option.bind_some]
        by_cases h13 : c = 13
        · rw [if_pos h13]; exact ⟨_, rfl, by omega, by omega⟩
        · rw [if_neg h13]; exact ⟨_, rfl, by omega, by omega⟩
      · rw [if_neg hp]; exact ⟨_, rfl, by omega, by omega⟩
    obtain ⟨n, hn', hn0, hn1⟩ := hm
    rw [hn', Option.bind_some]
    obtain ⟨line, hl, _⟩ := slTo_spec (b := b) (hi := n) hn0 (by omega)
    obtain ⟨rest, hr, hlr, _⟩ := slFrom_spec (b := b) (lo := indexByte 10 b + 1) (by omega) (by omega)
    rw [hl, Option.bind_some, hr, Option.bind_some]
    refine ⟨_, rfl, fun lr h => ?_⟩
    cases h
    show len rest < len b
    omega

theorem firstLineLoop_total : ∀ (f : Nat) (b : Bytes), b.length < f → ∃ r, firstLineLoop f b = some r
  | 0, _, h => by omega
  | f + 1, b, hf => by
    unfold firstLineLoop
    obtain ⟨r, hr, hlt⟩ := nextLine_spec b
    rw [hr, Option.bind_some]
    cases r with
    | none => exact ⟨_, rfl⟩
    | some lr =>
      dsimp only
      refine ite_ex (fun _ => ?_) (fun _ => ⟨_, rfl⟩)
      have := hlt lr rfl
      exact firstLineLoop_total f lr.2 (by unfold len at *; omega)

/-- the request-line parser (with `utils.NextLine`) never indexes or slices out of range -/
theorem parseFirstLine_total (buf : Bytes) : ∃ r, parseFirstLine buf = some r := by
  unfold parseFirstLine
  obtain ⟨r, hr⟩ := firstLineLoop_total (buf.length + 1) buf (by omega)
  rw [hr, Option.bind_some]
  cases r with
  | none => exact ⟨_, rfl⟩
  | some lr =>
    dsimp only
    have h1 := indexByte_lt 32 lr.1
    refine ite_ex (fun _ => ⟨_, rfl⟩) (fun hn => ?_)
    obtain ⟨method, hm, _⟩ := slTo_spec (b := lr.1) (hi := indexByte 32 lr.1) (by omega) (by omega)
    obtain ⟨b, hb, _⟩ := slFrom_spec (b := lr.1) (lo := indexByte 32 lr.1 + 1) (by omega) (by omega)
    rw [hm, Option.bind_some, hb, Option.bind_some]
    have hl := lastIndexByte_bounds 32 b
    refine ite_ex (fun _ => ?_) (fun _ => ?_)
    · obtain ⟨uri, hu, _⟩ := slTo_spec (b := b) (hi := len b) (len_nonneg b) (by omega)
      rw [hu, Option.bind_some]; exact ⟨_, rfl⟩
    refine ite_ex (fun _ => ⟨_, rfl⟩) (fun _ => ?_)
    obtain ⟨proto, hp, _⟩ := slFrom_spec (b := b) (lo := lastIndexByte 32 b + 1) (by omega) (by omega)
    obtain ⟨uri, hu, _⟩ := slTo_spec (b := b) (hi := lastIndexByte 32 b) (by omega) (by omega)
    rw [hp, Option.bind_some, hu, Option.bind_some]; exact ⟨_, rfl⟩

/-- the response status-line parser never indexes or slices out of range -/
theorem parseStatusLine_total (buf : Bytes) : ∃ r, parseStatusLine buf = some r := by
  unfold parseStatusLine
  obtain ⟨r, hr⟩ := firstLineLoop_total (buf.length + 1) buf (by omega)
  rw [hr, Option.bind_some]
  cases r with
  | none => exact ⟨_, rfl⟩
  | some lr =>
    dsimp only
    have h1 := indexByte_lt 32 lr.1
    refine ite_ex (fun _ => ⟨_, rfl⟩) (fun hn => ?_)
    obtain ⟨proto, hm, _⟩ := slTo_spec (b := lr.1) (hi := indexByte 32 lr.1) (by omega) (by omega)
    obtain ⟨b, hb, _⟩ := slFrom_spec (b := lr.1) (lo := indexByte 32 lr.1 + 1) (by omega) (by omega)
    rw [hm, Option.bind_some, hb, Option.bind_some]
    refine ite_ex (fun _ => ⟨_, rfl⟩) (fun _ => ?_)
    refine ite_ex (fun hgt => ?_) (fun _ => ⟨_, rfl⟩)
    obtain ⟨c, hc⟩ := ix_spec (b := b) (i := ((FS.parseUintBuf b).2.1 : Int)) (by omega) hgt
    rw [hc, Option.bind_some]
    exact ite_ex (fun _ => ⟨_, rfl⟩) (fun _ => ⟨_, rfl⟩)

end Hertz.NF
