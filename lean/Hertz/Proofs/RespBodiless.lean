import Hertz.Proofs.RespRoundtrip
/-!
C11 `response_roundtrip`, the cases without a length-delimited body:

* responses whose status forbids a body (1xx other than 100, 204, 304): head only, what follows untouched;
* answers to HEAD: the head as for GET (`Content-Length` of the body that was not sent, resp.
  `Transfer-Encoding: chunked`), no body bytes; the client reads the head and - `resp.SkipBody` - stops;
* read-until-close framing (no `Content-Length`, no chunking): the body is everything up to EOF.

The writer side is, as in `RespRoundtrip`, the C05 header model on the header object after the
`SetContentLength` call that `resp.Write` makes for the framing `Resp.frame` decides (`WResp.hdrFor`; none
for a bodiless status or an empty HEAD answer), followed by `Resp.frame … .wire`.
-/
namespace Hertz.H1.RT
open Hertz Hertz.H1 Hertz.H1.Resp Hertz.H1.RespRead Hertz.Gen.Str

/-! ### the writer's header for each framing -/

/-- the header object when the writer makes no `SetContentLength` call or the call is a no-op
(1xx/204/304; HEAD answer with an empty body; a server that frames by closing the connection) -/
def WResp.hdrNone (r : WResp) : HW.RespHdr :=
  { statusLine := statusLine r.status r.reason, server := r.server, date := r.date, contentType := r.contentType,
    contentEncoding := r.contentEncoding, contentLength := 0, clBytes := [], h := r.h,
    trailer := [], cookies := r.cookies, connClose := r.connClose }

/-- after `SetContentLength(n)` -/
def WResp.hdrCl (r : WResp) (n : Nat) : HW.RespHdr :=
  { statusLine := statusLine r.status r.reason, server := r.server, date := r.date, contentType := r.contentType,
    contentEncoding := r.contentEncoding, contentLength := n, clBytes := appendUintDec n,
    h := r.h.filter (fun kv => kv.1 != strTransferEncoding),
    trailer := [], cookies := r.cookies, connClose := r.connClose }

/-- after `SetContentLength(-1)` -/
def WResp.hdrChunked (r : WResp) : HW.RespHdr :=
  { statusLine := statusLine r.status r.reason, server := r.server, date := r.date, contentType := r.contentType,
    contentEncoding := r.contentEncoding, contentLength := -1, clBytes := [],
    h := setArg r.h strTransferEncoding strChunked,
    trailer := [], cookies := r.cookies, connClose := r.connClose }

/-- the header object at the moment `resp.Write` serialises it, for the framing `f` the writer decided -/
def WResp.hdrFor (r : WResp) : Framing → HW.RespHdr
  | .none => r.hdrNone
  | .cl n => r.hdrCl n
  | .chunked => r.hdrChunked

/-- all bytes `resp.Write` puts on the wire for `r`, answering a HEAD request or not -/
def respWireH (r : WResp) (isHead : Bool) : Bytes :=
  (r.hdrFor (frame r.prog isHead).framing).bytes ++ (frame r.prog isHead).wire

/-- for a status that may carry a body and a non-HEAD request this is `respWire` -/
theorem respWireH_false (r : WResp) (hs : RespRead.mustSkipCL r.status = false) : respWireH r false = respWire r := by
  obtain ⟨status, reason, server, date, ct, ce, h, cookies, cc, body⟩ := r
  simp only at hs
  cases body with
  | fixed b => simp [respWireH, respWire, frame, WResp.prog, WResp.hdrFor, WResp.hdrCl, WResp.hdr, mustSkip_same, hs]
  | chunked rs => simp [respWireH, respWire, frame, WResp.prog, WResp.hdrFor, WResp.hdrChunked, WResp.hdr, mustSkip_same, hs]

/-! ### well-formedness of everything but status class and body -/

def wfHeadB (dn : Bool) (r : WResp) : Bool :=
  decide (r.status < 2 ^ 63) &&
  r.reason.all (fun c => c != 13 && c != 10) &&
  cleanVal r.server && cleanVal r.contentType && cleanVal r.contentEncoding &&
  (match r.date with | some d => cleanVal d | none => true) &&
  r.h.all (fun kv => wfField dn kv && kindOf kv.1 == .other) &&
  r.cookies.all cleanVal

structure HeadParts (dn : Bool) (r : WResp) : Prop where
  st : r.status < 2 ^ 63
  reason : ∀ x ∈ r.reason, x ≠ 13 ∧ x ≠ 10
  server : cleanVal r.server = true
  ctype : cleanVal r.contentType = true
  cenc : cleanVal r.contentEncoding = true
  date : ∀ d, r.date = some d → cleanVal d = true
  h : ∀ kv ∈ r.h, wfField dn kv = true ∧ kindOf kv.1 = .other
  cookies : ∀ c ∈ r.cookies, cleanVal c = true

theorem wfHeadB_parts {dn : Bool} {r : WResp} (h : wfHeadB dn r = true) : HeadParts dn r := by
  simp only [wfHeadB, Bool.and_eq_true, decide_eq_true_eq, List.all_eq_true, beq_iff_eq] at h
  obtain ⟨⟨⟨⟨⟨⟨⟨h2, h3⟩, h4⟩, h5⟩, h6⟩, h7⟩, h8⟩, h9⟩ := h
  refine ⟨h2, ?_, h4, h5, h6, ?_, ?_, h9⟩
  · intro x hx; have := h3 x hx; simpa [and_comm] using this
  · intro d hd; rw [hd] at h7; exact h7
  · intro kv hkv; exact h8 kv hkv

theorem WfParts.toHead {dn : Bool} {r : WResp} (p : WfParts dn r) : HeadParts dn r :=
  ⟨p.st, p.reason, p.server, p.ctype, p.cenc, p.date, p.h, p.cookies⟩

namespace HeadParts
variable {dn : Bool} {r : WResp}

theorem filter_te_id (p : HeadParts dn r) : r.h.filter (fun kv => kv.1 != strTransferEncoding) = r.h := by
  rw [List.filter_eq_self]
  intro kv hkv
  have := kind_other_ne kv.1 (p.h kv hkv).2
  simpa using this

theorem seen_other (p : HeadParts dn r) :
    ∀ kv ∈ r.h.filter (fun kv => r.date.isNone || kv.1 != strDate), kv.1 ≠ [] ∧ kindOf kv.1 = .other := by
  intro kv hkv
  have hm := (List.mem_filter.mp hkv).1
  exact ⟨(wfField_parts (p.h kv hm).1).1, (p.h kv hm).2⟩

theorem seen_kind (p : HeadParts dn r) : ∀ kv ∈ r.seenFields, kindOf kv.1 = .other := by
  intro kv hkv
  simp only [WResp.seenFields, List.mem_append] at hkv
  rcases hkv with hkv | hkv
  · cases hd : r.date with
    | none => rw [hd] at hkv; simp at hkv
    | some d =>
      rw [hd] at hkv; simp only [List.mem_singleton] at hkv; subst hkv
      exact kind_date
  · exact (p.seen_other kv hkv).2

theorem seen_ne_te (p : HeadParts dn r) : ∀ kv ∈ r.seenFields, kv.1 ≠ strTransferEncoding :=
  fun kv hkv => kind_other_ne kv.1 (p.seen_kind kv hkv)

theorem seen_ne_conn (p : HeadParts dn r) : ∀ kv ∈ r.seenFields, kv.1 ≠ strConnection := by
  intro kv hkv e
  have := p.seen_kind kv hkv
  rw [e, kind_conn] at this
  exact absurd this (by decide)

theorem seen_filter (p : HeadParts dn r) : r.seenFields.filter (fun kv => kv.1 != strTransferEncoding) = r.seenFields := by
  rw [List.filter_eq_self]
  intro kv hkv
  simpa using p.seen_ne_te kv hkv

end HeadParts

/-! ### the reader's state after the head, per framing -/

theorem scannedFor_none (dn : Bool) (r : WResp) (p : HeadParts dn r) :
    scanned dn r.status r.hdrNone.fields =
      mk r.status r.server r.contentType r.contentEncoding (-2) [] r.connClose r.seenFields r.cookies := by
  have hoth := p.seen_other
  obtain ⟨status, reason, server, date, ct, ce, h, cookies, cc, body⟩ := r
  simp only at hoth ⊢
  have h0 : scanned dn status (WResp.hdrNone ⟨status, reason, server, date, ct, ce, h, cookies, cc, body⟩).fields =
      applyAll dn (mk status [] [] [] (-2) [] false [] []) (WResp.hdrNone ⟨status, reason, server, date, ct, ce, h, cookies, cc, body⟩).fields := rfl
  rw [h0]
  simp only [WResp.hdrNone]
  simp only [HW.RespHdr.fields, List.isEmpty_nil, if_true, List.append_nil, applyAll_append]
  rw [a_server]
  cases date with
  | none =>
    simp only [applyAll_nil]
    rw [a_ctype, a_cenc, a_other dn _ _ _ _ _ _ _ _ _ _ hoth, a_cookies, a_conn]
    rfl
  | some d =>
    simp only
    rw [a_date, a_ctype, a_cenc, a_other dn _ _ _ _ _ _ _ _ _ _ hoth, a_cookies, a_conn]
    rfl

theorem scannedFor_cl (dn : Bool) (r : WResp) (n : Nat) (p : HeadParts dn r) (hn : n < 2 ^ 63) :
    scanned dn r.status (r.hdrCl n).fields =
      mk r.status r.server r.contentType r.contentEncoding n (appendUintDec n) r.connClose r.seenFields r.cookies := by
  have hfil := p.filter_te_id
  have hoth := p.seen_other
  obtain ⟨status, reason, server, date, ct, ce, h, cookies, cc, body⟩ := r
  simp only at hfil hoth ⊢
  have h0 : scanned dn status (WResp.hdrCl ⟨status, reason, server, date, ct, ce, h, cookies, cc, body⟩ n).fields =
      applyAll dn (mk status [] [] [] (-2) [] false [] []) (WResp.hdrCl ⟨status, reason, server, date, ct, ce, h, cookies, cc, body⟩ n).fields := rfl
  rw [h0]
  simp only [WResp.hdrCl]
  simp only [HW.RespHdr.fields, hfil, List.isEmpty_nil, if_true, List.append_nil, applyAll_append]
  rw [a_server]
  cases date with
  | none =>
    simp only [applyAll_nil]
    rw [a_ctype, a_cenc, a_clen dn _ _ _ _ _ _ _ _ hn, a_other dn _ _ _ _ _ _ _ _ _ _ hoth, a_cookies, a_conn]
    rfl
  | some d =>
    simp only
    rw [a_date, a_ctype, a_cenc, a_clen dn _ _ _ _ _ _ _ _ hn, a_other dn _ _ _ _ _ _ _ _ _ _ hoth, a_cookies, a_conn]
    rfl

theorem scannedFor_chunked (dn : Bool) (r : WResp) (p : HeadParts dn r) :
    scanned dn r.status r.hdrChunked.fields =
      mk r.status r.server r.contentType r.contentEncoding (-1) [] r.connClose
        (r.seenFields ++ [(strTransferEncoding, strChunked)]) r.cookies := by
  have hset : setArg r.h strTransferEncoding strChunked = r.h ++ [(strTransferEncoding, strChunked)] :=
    setArg_absent r.h _ _ (fun kv hkv => kind_other_ne kv.1 (p.h kv hkv).2)
  have hoth := p.seen_other
  have hte := p.seen_ne_te
  obtain ⟨status, reason, server, date, ct, ce, h, cookies, cc, body⟩ := r
  simp only at hset hoth hte ⊢
  have h0 : scanned dn status (WResp.hdrChunked ⟨status, reason, server, date, ct, ce, h, cookies, cc, body⟩).fields =
      applyAll dn (mk status [] [] [] (-2) [] false [] []) (WResp.hdrChunked ⟨status, reason, server, date, ct, ce, h, cookies, cc, body⟩).fields := rfl
  have hfd : List.filter (fun kv => date.isNone || kv.1 != strDate) (h ++ [(strTransferEncoding, strChunked)]) =
      List.filter (fun kv => date.isNone || kv.1 != strDate) h ++ [(strTransferEncoding, strChunked)] := by
    rw [List.filter_append]
    congr 1
    have : (strTransferEncoding != strDate) = true := by decide
    simp [this]
  rw [h0]
  simp only [WResp.hdrChunked]
  simp only [HW.RespHdr.fields, hset, hfd, List.isEmpty_nil, if_true, List.append_nil, applyAll_append]
  rw [a_server]
  simp only [WResp.seenFields] at hte ⊢
  cases date with
  | none =>
    simp only [applyAll_nil, List.nil_append] at hte ⊢
    rw [a_ctype, a_cenc, a_other dn _ _ _ _ _ _ _ _ _ _ hoth, a_te dn _ _ _ _ _ _ _ _ _ (by simpa using hte), a_cookies, a_conn]
    simp
  | some d =>
    simp only at hte ⊢
    rw [a_date, a_ctype, a_cenc, a_other dn _ _ _ _ _ _ _ _ _ _ hoth, a_te dn _ _ _ _ _ _ _ _ _ hte, a_cookies, a_conn]

/-! ### every field the writer emits is one the scanner returns unchanged -/

theorem respHdr_fields_wf (dn : Bool) (x : HW.RespHdr)
    (hs : cleanVal x.server = true) (hd : ∀ d, x.date = some d → cleanVal d = true)
    (hct : cleanVal x.contentType = true) (hce : cleanVal x.contentEncoding = true)
    (hcl : cleanVal x.clBytes = true) (hh : ∀ kv ∈ x.h, wfField dn kv = true) (htr : x.trailer = [])
    (hck : ∀ c ∈ x.cookies, cleanVal c = true) : wfFields dn x.fields = true := by
  simp only [wfFields, List.all_eq_true]
  intro kv hkv
  simp only [HW.RespHdr.fields, List.mem_append] at hkv
  rw [htr] at hkv
  rcases hkv with (((((((hkv | hkv) | hkv) | hkv) | hkv) | hkv) | hkv) | hkv) | hkv
  · split at hkv
    · simp at hkv
    · simp only [List.mem_singleton] at hkv; subst hkv
      exact wfField_special dn _ _ (by simp) hs
  · cases hd' : x.date with
    | none => rw [hd'] at hkv; simp at hkv
    | some d =>
      rw [hd'] at hkv; simp only [List.mem_singleton] at hkv; subst hkv
      exact wfField_special dn _ _ (by simp) (hd d hd')
  · split at hkv
    · simp only [List.mem_singleton] at hkv; subst hkv
      exact wfField_special dn _ _ (by simp) hct
    · simp at hkv
  · split at hkv
    · simp at hkv
    · simp only [List.mem_singleton] at hkv; subst hkv
      exact wfField_special dn _ _ (by simp) hce
  · split at hkv
    · simp at hkv
    · simp only [List.mem_singleton] at hkv; subst hkv
      exact wfField_special dn _ _ (by simp) hcl
  · exact hh kv (List.mem_filter.mp hkv).1
  · simp at hkv
  · simp only [List.mem_map] at hkv
    obtain ⟨c, hc, rfl⟩ := hkv
    exact wfField_special dn _ _ (by simp) (hck c hc)
  · split at hkv
    · simp only [List.mem_singleton] at hkv; subst hkv
      exact wfField_special dn _ _ (by simp) cleanVal_const.2
    · simp at hkv

theorem hdrFor_fields_wf (dn : Bool) (r : WResp) (f : Framing) (p : HeadParts dn r) :
    wfFields dn (r.hdrFor f).fields = true := by
  cases f with
  | none =>
    exact respHdr_fields_wf dn r.hdrNone p.server p.date p.ctype p.cenc rfl (fun kv hkv => (p.h kv hkv).1) rfl p.cookies
  | cl n =>
    exact respHdr_fields_wf dn (r.hdrCl n) p.server p.date p.ctype p.cenc (cleanVal_digits n)
      (fun kv hkv => (p.h kv (List.mem_filter.mp hkv).1).1) rfl p.cookies
  | chunked =>
    refine respHdr_fields_wf dn r.hdrChunked p.server p.date p.ctype p.cenc rfl ?_ rfl p.cookies
    intro kv hkv
    simp only [WResp.hdrChunked] at hkv
    rw [setArg_absent r.h _ _ (fun kv hkv => kind_other_ne kv.1 (p.h kv hkv).2), List.mem_append] at hkv
    rcases hkv with hkv | hkv
    · exact (p.h kv hkv).1
    · simp only [List.mem_singleton] at hkv; subst hkv
      exact wfField_special dn _ _ (by simp) cleanVal_const.1

/-! ### `parseHeaders`' framing fix-ups when no framing field was seen -/

theorem peekArg_absent (h : List (Bytes × Bytes)) (k : Bytes) (hh : ∀ kv ∈ h, kv.1 ≠ k) : peekArg h k = [] := by
  unfold peekArg
  have : h.find? (fun kv => kv.1 == k) = none := by
    rw [List.find?_eq_none]
    intro kv hkv
    simpa using hh kv hkv
  rw [this]

theorem hasHeaderValue_nil (v : Bytes) : hasHeaderValue [] v = false := by simp [hasHeaderValue]

theorem close_not_keepalive : hasHeaderValue strClose strKeepAlive = false := by decide +kernel

theorem connectionUpgrade_mk (st : Nat) (sv ct ce : Bytes) (cl : Int) (clb : Bytes) (cc : Bool) (h : List (Bytes × Bytes))
    (ck : List Bytes) (hconn : ∀ kv ∈ h, kv.1 ≠ strConnection) :
    connectionUpgrade (mk st sv ct ce cl clb cc h ck).head = false := by
  unfold connectionUpgrade
  cases cc with
  | true => simp only [mk, if_true]; exact close_not_keepalive
  | false => simp only [mk, Bool.false_eq_true, if_false, peekArg_absent h _ hconn, hasHeaderValue_nil]

/-- no `Content-Length`, no `Transfer-Encoding`, a status that forbids a body: nothing to fix up -/
theorem finish_none_skip (st : Nat) (sv ct ce : Bytes) (cc : Bool) (h : List (Bytes × Bytes)) (ck : List Bytes)
    (hs : RespRead.mustSkipCL st = true) :
    finishHead (mk st sv ct ce (-2) [] cc h ck).head = (mk st sv ct ce (-2) [] cc h ck).head := by
  simp [finishHead, mk, hs]

/-- no `Content-Length`, no `Transfer-Encoding`, a status that may carry a body: the reader records
"identity until close" (`Transfer-Encoding: identity` among the fields, `Connection: close`) -/
theorem finish_none_body (st : Nat) (sv ct ce : Bytes) (cc : Bool) (h : List (Bytes × Bytes)) (ck : List Bytes)
    (hs : RespRead.mustSkipCL st = false) (hconn : ∀ kv ∈ h, kv.1 ≠ strConnection)
    (hte : ∀ kv ∈ h, kv.1 ≠ strTransferEncoding) :
    finishHead (mk st sv ct ce (-2) [] cc h ck).head =
      (mk st sv ct ce (-2) [] true (h ++ [(strTransferEncoding, strIdentity)]) ck).head := by
  have hu := connectionUpgrade_mk st sv ct ce (-2) [] cc h ck hconn
  have hset := setArg_absent h strTransferEncoding strIdentity hte
  simp only [mk] at hu
  simp [finishHead, mk, hs, hu, hset]

/-! ### `ReadHeaders` on the writer's head, for each framing -/

/-- a reader-side header object with every component explicit -/
def headOf (r : WResp) (cl : Int) (clb : Bytes) (cc : Bool) (h : List (Bytes × Bytes)) : RespHead :=
  { status := r.status, http11 := true, contentType := r.contentType, contentEncoding := r.contentEncoding,
    server := r.server, cl := cl, clBytes := clb, connClose := cc, h := h, cookies := r.cookies, trailer := [] }

/-- the header object the client holds after `ReadHeaders`, before any body is read:
* `Content-Length: n` → `cl = n`;
* `Transfer-Encoding: chunked` → `cl = -1`, the field is kept among the generic fields;
* neither, status forbids a body → `cl = -2`, nothing else;
* neither, status may carry a body → `cl = -2`, "identity until close": `Transfer-Encoding: identity`
  appended to the generic fields and `Connection: close` assumed. -/
def WResp.seenHeadFor (r : WResp) : Framing → RespHead
  | .none =>
    if RespRead.mustSkipCL r.status then headOf r (-2) [] r.connClose r.seenFields
    else headOf r (-2) [] true (r.seenFields ++ [(strTransferEncoding, strIdentity)])
  | .cl n => headOf r n (appendUintDec n) r.connClose r.seenFields
  | .chunked => headOf r (-1) [] r.connClose (r.seenFields ++ [(strTransferEncoding, strChunked)])

theorem hdrFor_statusLine (r : WResp) (f : Framing) : (r.hdrFor f).statusLine = statusLine r.status r.reason := by
  cases f <;> rfl

/-- **Head round trip for every framing**: `ReadHeaders` on the head `resp.Write` produces returns the
status, the dedicated fields, the generic fields in order, the cookies and the framing as
`seenHeadFor` says, and stops exactly at the end of the head. -/
theorem readHeaders_hdrFor (dn : Bool) (e : End) (r : WResp) (f : Framing) (rest : Bytes) (p : HeadParts dn r)
    (h100 : isInterim r.status = false) (hn : ∀ n, f = .cl n → n < 2 ^ 63) :
    readHeaders dn e ((r.hdrFor f).bytes ++ rest) = .ok (r.seenHeadFor f, rest) := by
  have hwire : (r.hdrFor f).bytes ++ rest =
      statusLine r.status r.reason ++ strCRLF ++ HW.block (r.hdrFor f).fields ++ rest := by
    simp only [HW.RespHdr.bytes, hdrFor_statusLine]
  have hwf := hdrFor_fields_wf dn r f p
  rw [hwire]
  cases f with
  | none =>
    have hsc := scannedFor_none dn r p
    have herr : (scanned dn r.status (r.hdrFor .none).fields).err = false := by
      show (scanned dn r.status r.hdrNone.fields).err = false
      rw [hsc]; rfl
    rw [readHeaders_written dn e r.status r.reason _ rest p.st h100 p.reason hwf herr]
    show Except.ok (finishHead (scanned dn r.status r.hdrNone.fields).head, rest) = _
    rw [hsc]
    cases hs : RespRead.mustSkipCL r.status with
    | true => rw [finish_none_skip _ _ _ _ _ _ _ hs]; simp only [WResp.seenHeadFor, hs, if_true]; rfl
    | false =>
      rw [finish_none_body _ _ _ _ _ _ _ hs p.seen_ne_conn p.seen_ne_te]
      simp only [WResp.seenHeadFor, hs, Bool.false_eq_true, if_false]; rfl
  | cl n =>
    have hsc := scannedFor_cl dn r n p (hn n rfl)
    have herr : (scanned dn r.status (r.hdrFor (.cl n)).fields).err = false := by
      show (scanned dn r.status (r.hdrCl n).fields).err = false
      rw [hsc]; rfl
    rw [readHeaders_written dn e r.status r.reason _ rest p.st h100 p.reason hwf herr]
    show Except.ok (finishHead (scanned dn r.status (r.hdrCl n).fields).head, rest) = _
    rw [hsc, finish_fixed]; rfl
  | chunked =>
    have hsc := scannedFor_chunked dn r p
    have herr : (scanned dn r.status (r.hdrFor .chunked).fields).err = false := by
      show (scanned dn r.status r.hdrChunked.fields).err = false
      rw [hsc]; rfl
    rw [readHeaders_written dn e r.status r.reason _ rest p.st h100 p.reason hwf herr]
    show Except.ok (finishHead (scanned dn r.status r.hdrChunked.fields).head, rest) = _
    rw [hsc, finish_chunked]; rfl

/-! ### (1) statuses that forbid a body: 1xx other than 100, 204, 304 -/

/-- well-formed bodiless response: a status for which `MustSkipContentLength` holds, other than the
interim `100` / `102` / `103` (which `ReadHeaders` skips), and a well-formed head; the body the handler may have set
is arbitrary - it is not sent -/
def wfBodiless (dn : Bool) (r : WResp) : Bool :=
  RespRead.mustSkipCL r.status && !isInterim r.status && wfHeadB dn r

theorem frame_bodiless (r : WResp) (isHead : Bool) (hs : RespRead.mustSkipCL r.status = true) :
    frame r.prog isHead = { framing := .none, wire := [] } := by
  obtain ⟨status, reason, server, date, ct, ce, h, cookies, cc, body⟩ := r
  simp only at hs
  cases body with
  | fixed b => simp [frame, WResp.prog, mustSkip_same, hs]
  | chunked rs => simp [frame, WResp.prog, mustSkip_same, hs]

/-- the header object the client ends up with for a bodiless response -/
def WResp.seenHeadBodiless (r : WResp) : RespHead := headOf r (-2) [] r.connClose r.seenFields

/-- **Round trip, bodiless statuses**: whatever body the handler set, whether the request was HEAD or
not, the reader returns the head, an empty body, and leaves the bytes that follow untouched. -/
theorem response_roundtrip_bodiless (dn : Bool) (maxBody : Nat) (e : End) (r : WResp) (isHead : Bool) (rest : Bytes)
    (hw : wfBodiless dn r = true) :
    readResponse dn maxBody e (respWireH r isHead ++ rest) =
      .ok { head := r.seenHeadBodiless, body := [], trailers := [], rest := rest } := by
  simp only [wfBodiless, Bool.and_eq_true, Bool.not_eq_true'] at hw
  obtain ⟨⟨hs, h100⟩, hh⟩ := hw
  have p := wfHeadB_parts hh
  unfold readResponse
  rw [respWireH, frame_bodiless r isHead hs, List.append_nil,
    readHeaders_hdrFor dn e r .none rest p h100 (by intro n hn; cases hn)]
  simp only [WResp.seenHeadFor, hs, if_true]
  simp only [readBodyPart, headOf, hs, if_true, List.map_nil, WResp.seenHeadBodiless]

theorem seenHeadFor_trailer (r : WResp) (f : Framing) : (r.seenHeadFor f).trailer = [] := by
  unfold WResp.seenHeadFor
  split
  · split <;> rfl
  · rfl
  · rfl

theorem seenHeadFor_status (r : WResp) (f : Framing) : (r.seenHeadFor f).status = r.status := by
  unfold WResp.seenHeadFor
  split
  · split <;> rfl
  · rfl
  · rfl

/-- the same when the head still announces a framing (the handler called `SetBodyStream` and changed the
status to 1xx/204/304 afterwards: the header keeps `Content-Length: n` resp. `Transfer-Encoding:
chunked`, `resp.Write` sends no body): the reader ignores the announcement - no body byte is consumed. -/
theorem response_roundtrip_bodiless_declared (dn : Bool) (maxBody : Nat) (e : End) (r : WResp) (f : Framing) (rest : Bytes)
    (hw : wfBodiless dn r = true) (hn : ∀ n, f = .cl n → n < 2 ^ 63) :
    readResponse dn maxBody e ((r.hdrFor f).bytes ++ rest) =
      .ok { head := r.seenHeadFor f, body := [], trailers := [], rest := rest } := by
  simp only [wfBodiless, Bool.and_eq_true, Bool.not_eq_true'] at hw
  obtain ⟨⟨hs, h100⟩, hh⟩ := hw
  have p := wfHeadB_parts hh
  unfold readResponse
  rw [readHeaders_hdrFor dn e r f rest p h100 hn]
  simp only [readBodyPart, seenHeadFor_status, hs, if_true, seenHeadFor_trailer, List.map_nil]

/-! ### (2) answers to HEAD -/

theorem readResponseSkip_false (dn : Bool) (maxBody : Nat) (e : End) (s : Bytes) :
    readResponseSkip false dn maxBody e s = readResponse dn maxBody e s := by
  unfold readResponseSkip readResponse
  cases readHeaders dn e s with
  | error x => rfl
  | ok v => rfl

/-- for a status that forbids a body the flag changes nothing -/
theorem readResponseSkip_bodiless (skipBody : Bool) (dn : Bool) (maxBody : Nat) (e : End) (s : Bytes) (hd : RespHead) (s1 : Bytes)
    (hr : readHeaders dn e s = .ok (hd, s1)) (hs : RespRead.mustSkipCL hd.status = true) :
    readResponseSkip skipBody dn maxBody e s = readResponse dn maxBody e s := by
  unfold readResponseSkip readResponse
  rw [hr]
  cases skipBody with
  | false => rfl
  | true => simp only [if_true, readBodyPart, hs]

/-- the framing `resp.Write` announces in the answer to a HEAD request: that of the body the handler
set (the `Content-Length` of a non-empty body, `chunked` for a stream of unknown length), nothing for an
empty body or a status that forbids one -/
def WResp.headFraming (r : WResp) : Framing :=
  if RespRead.mustSkipCL r.status then .none else
  match r.body with
  | .fixed b => if b.isEmpty then .none else .cl b.length
  | .chunked _ => .chunked

theorem frame_head (r : WResp) : frame r.prog true = { framing := r.headFraming, wire := [] } := by
  obtain ⟨status, reason, server, date, ct, ce, h, cookies, cc, body⟩ := r
  cases hs : RespRead.mustSkipCL status with
  | true => rw [frame_bodiless _ true hs]; simp [WResp.headFraming, hs]
  | false =>
    cases body with
    | fixed b =>
      cases b with
      | nil => simp [frame, WResp.prog, mustSkip_same, hs, WResp.headFraming]
      | cons x t => simp [frame, WResp.prog, mustSkip_same, hs, WResp.headFraming]
    | chunked rs => simp [frame, WResp.prog, mustSkip_same, hs, WResp.headFraming]

/-- well-formed answer to HEAD: any status but the interim `100` / `102` / `103`, a well-formed head, a body length
that fits an `int` (sizes of stream pieces do not matter: nothing of the body is sent) -/
def wfRespH (dn : Bool) (r : WResp) : Bool :=
  !isInterim r.status && wfHeadB dn r &&
  (match r.body with
   | .fixed b => decide (b.length < 2 ^ 63)
   | .chunked _ => true)

theorem headFraming_bound {dn : Bool} {r : WResp} (hw : wfRespH dn r = true) : ∀ n, r.headFraming = .cl n → n < 2 ^ 63 := by
  intro n hn
  simp only [wfRespH, Bool.and_eq_true] at hw
  unfold WResp.headFraming at hn
  split at hn
  · cases hn
  · cases hb : r.body with
    | fixed b =>
      rw [hb] at hn hw
      simp only at hn
      split at hn
      · cases hn
      · simp only [Framing.cl.injEq] at hn
        subst hn
        simpa using hw.2
    | chunked rs => rw [hb] at hn; cases hn

/-- **Head of an answer to HEAD**: `ReadHeaders` returns the head - with the framing fields of the body
that was not sent - and stops exactly at its end: no body byte is on the wire, what follows is untouched. -/
theorem response_head_HEAD (dn : Bool) (e : End) (r : WResp) (rest : Bytes) (hw : wfRespH dn r = true) :
    readHeaders dn e (respWireH r true ++ rest) = .ok (r.seenHeadFor r.headFraming, rest) := by
  have hb := headFraming_bound hw
  simp only [wfRespH, Bool.and_eq_true, Bool.not_eq_true'] at hw
  have p := wfHeadB_parts hw.1.2
  rw [respWireH, frame_head r, List.append_nil]
  exact readHeaders_hdrFor dn e r r.headFraming rest p hw.1.1 hb

/-- **Round trip, answer to HEAD** (reader with `SkipBody`): the head, no body, the rest untouched. -/
theorem response_roundtrip_HEAD (dn : Bool) (maxBody : Nat) (e : End) (r : WResp) (rest : Bytes) (hw : wfRespH dn r = true) :
    readResponseSkip true dn maxBody e (respWireH r true ++ rest) =
      .ok { head := r.seenHeadFor r.headFraming, body := [], trailers := [], rest := rest } := by
  unfold readResponseSkip
  rw [response_head_HEAD dn e r rest hw]
  simp only [if_true, seenHeadFor_trailer, List.map_nil]

/-! ### (3) read-until-close framing -/

/-- a response framed by closing the connection: the head without `Content-Length` and without
`Transfer-Encoding`, then the body, then EOF (hertz's own server never writes this; other servers and
HTTP/1.0 peers do) -/
def closeWire (r : WResp) : Bytes := r.hdrNone.bytes ++ r.body.content

/-- well-formed for that framing: a status that may carry a body, a well-formed head -/
def wfRespC (dn : Bool) (r : WResp) : Bool := !RespRead.mustSkipCL r.status && wfHeadB dn r

/-- **Round trip, read until close**: at EOF the body is every byte after the head; the reader records
`Connection: close` and, as `ReadRespBody` does, the length it found (`SetContentLength(len(body))`, which
also removes the `Transfer-Encoding: identity` marker again). -/
theorem response_roundtrip_until_close (dn : Bool) (maxBody : Nat) (e : End) (r : WResp) (hw : wfRespC dn r = true)
    (hmax : maxBody = 0 ∨ r.body.content.length ≤ maxBody) :
    readResponse dn maxBody e (closeWire r) =
      .ok { head := { r.seenHead with connClose := true }, body := r.body.content, trailers := [], rest := [] } := by
  simp only [wfRespC, Bool.and_eq_true, Bool.not_eq_true'] at hw
  obtain ⟨hs, hh⟩ := hw
  have p := wfHeadB_parts hh
  have h100 : isInterim r.status = false := notInterim_of_notSkip r.status hs
  have hlim : ¬ (maxBody > 0 ∧ r.body.content.length > maxBody) := by omega
  unfold readResponse
  rw [closeWire, show r.hdrNone = r.hdrFor .none from rfl,
    readHeaders_hdrFor dn e r .none _ p h100 (by intro n hn; cases hn)]
  simp only [WResp.seenHeadFor, hs, Bool.false_eq_true, if_false]
  have h1 : ¬ ((-2 : Int) ≥ 0) := by omega
  have h2 : ¬ ((-2 : Int) = -1) := by omega
  simp only [readBodyPart, headOf, hs, Bool.false_eq_true, if_false, h1, h2, readIdentity, hlim, List.map_nil,
    RespRead.setContentLength, WResp.seenHead]
  rw [List.filter_append, p.seen_filter]
  simp [strTransferEncoding]

/-! ### examples -/

/-- `204 No Content`, Server `hz`, `X-Id: 7`, a cookie; the handler also set a body `hello`, which must not be sent -/
def exNoContent : WResp :=
  { status := 204, reason := [78, 111, 32, 67, 111, 110, 116, 101, 110, 116], server := [104, 122],
    h := [([88, 45, 73, 100], [55])], cookies := [[97, 61, 98]], body := .fixed [104, 101, 108, 108, 111] }

/-- `304 Not Modified` with an `Etag`, body stream of unknown length set by the handler -/
def exNotModified : WResp :=
  { status := 304, reason := [78, 77], h := [([69, 116, 97, 103], [34, 120, 34])], body := .chunked [[104, 105]] }

/-- a close-delimited `200 OK` (HTTP/1.0 style peer): `X-Id: 7`, body `hello` up to EOF -/
def exUntilClose : WResp :=
  { status := 200, reason := [79, 75], h := [([88, 45, 73, 100], [55])], body := .fixed [104, 101, 108, 108, 111] }

end Hertz.H1.RT
