/-
C10 — `seq_program_accepted`: the caller's program of Model/ClientSim.lean (`simDo`, run
sequentially by `simSeq`) only ever emits events that `Pool.step` accepts, for every script, every
configuration and every caller id below `auxBase`; the fuel of `simLoop` never runs out; and the
state it ends in is reachable by an accepted schedule (so every theorem of Proofs/ClientPool.lean
applies to it).

Skeleton: `Ph cfg inDo held slots owed sim` describes the simulator between two events of the one
running caller (who is in `Do`, what it holds, that nobody waits, that connection and waiter
numbers handed out so far are below `nextConn` / `nextW`).  One lemma per sub-program
(`simDec`, `simClose`, `simRelease`, `simAcquire`, `simAttempt`, `simLoop`, `simDo`, `simSeq`).
-/
import Hertz.Model.ClientSim
import Hertz.Proofs.ClientPool
namespace Hertz.Pool
set_option linter.unusedSimpArgs false
set_option linter.unusedVariables false

/-! ### reachability, and what `emit` does -/

/-- `s` is the result of a schedule accepted by `step` from the empty pool -/
def Reach (cfg : Cfg) (s : State) : Prop := ∃ evs, run cfg init evs = some s

theorem run_snoc {cfg : Cfg} : ∀ {evs : List Ev} {s s1 s2 : State} {e : Ev},
    run cfg s evs = some s1 → step cfg s1 e = some s2 → run cfg s (evs ++ [e]) = some s2
  | [], s, s1, s2, e, h1, h2 => by
    simp only [run] at h1; injection h1 with h1; subst h1
    simp [run, h2]
  | e' :: es, s, s1, s2, e, h1, h2 => by
    simp only [run, List.cons_append] at h1 ⊢
    split at h1
    · rename_i s' hs'
      exact run_snoc h1 h2
    · contradiction

theorem Reach.init (cfg : Cfg) : Reach cfg init := ⟨[], rfl⟩

theorem Reach.step {cfg : Cfg} {s s' : State} {e : Ev} (h : Reach cfg s) (hs : step cfg s e = some s') :
    Reach cfg s' := by
  obtain ⟨evs, he⟩ := h
  exact ⟨evs ++ [e], run_snoc he hs⟩

theorem emit_of_step {cfg : Cfg} {sim : Sim} {e : Ev} {s' : State} (h : step cfg sim.st e = some s') :
    emit cfg sim e = { sim with st := s', trace := tok e s' :: sim.trace } := by
  simp [emit, h]

/-- the meaning of the flag: `emit` keeps `ok` exactly when `step` accepts the event -/
theorem emit_ok_iff (cfg : Cfg) (sim : Sim) (e : Ev) :
    (emit cfg sim e).ok = true ↔ (sim.ok = true ∧ (step cfg sim.st e).isSome = true) := by
  unfold emit
  cases h : step cfg sim.st e <;> simp

/-! ### the invariant between two events of a sequential run -/

structure Ph (cfg : Cfg) (a : Nat) (D H S O : List Nat) (sim : Sim) : Prop where
  ok : sim.ok = true
  reach : Reach cfg sim.st
  lt : a < auxBase
  inDo : sim.st.inDo = D
  held : sim.st.held = H
  holder : ∀ c ∈ H, sim.st.holder c = a
  slots : sim.st.slots = S
  owed : sim.st.owed = O
  live : sim.st.live = []
  boxed : sim.st.boxed = []
  idleB : ∀ c ∈ sim.st.idle, c < sim.nextConn
  heldB : ∀ c ∈ H, c < sim.nextConn
  closedB : ∀ c ∈ sim.st.closed, c < sim.nextConn
  seenB : ∀ w ∈ sim.st.seenW, w < sim.nextW

theorem planPop_nil : ∀ (q : List Nat), planPop [] q = (q.length, none)
  | [] => rfl
  | w :: q => by simp [planPop, planPop_nil q]

theorem deadPrefix_nil : ∀ (q : List Nat), deadPrefix [] q = q.length
  | [] => rfl
  | w :: q => by simp [deadPrefix, deadPrefix_nil q]

theorem popOk_all {s : State} (h : s.live = []) : popOk s s.queue.length none = true := by
  simp [popOk, h]

theorem emit_st {cfg : Cfg} {sim : Sim} {e : Ev} {s' : State} (h : step cfg sim.st e = some s') :
    (emit cfg sim e).st = s' := by rw [emit_of_step h]

theorem emit_nextConn (cfg : Cfg) (sim : Sim) (e : Ev) : (emit cfg sim e).nextConn = sim.nextConn := by
  unfold emit; split <;> rfl

theorem emit_nextW (cfg : Cfg) (sim : Sim) (e : Ev) : (emit cfg sim e).nextW = sim.nextW := by
  unfold emit; split <;> rfl

theorem emit_peer (cfg : Cfg) (sim : Sim) (e : Ev) : (emit cfg sim e).peer = sim.peer := by
  unfold emit; split <;> rfl

theorem emit_dialTok (cfg : Cfg) (sim : Sim) (e : Ev) : (emit cfg sim e).dialTok = sim.dialTok := by
  unfold emit; split <;> rfl

theorem Ph.emit {cfg : Cfg} {a : Nat} {D H S O D' H' S' O' : List Nat} {sim : Sim} {e : Ev} {s' : State}
    (h : Ph cfg a D H S O sim) (hs : step cfg sim.st e = some s')
    (hD : s'.inDo = D') (hH : s'.held = H') (hho : ∀ c ∈ H', s'.holder c = a) (hS : s'.slots = S')
    (hO : s'.owed = O') (hl : s'.live = []) (hb : s'.boxed = [])
    (hi : ∀ c ∈ s'.idle, c < sim.nextConn) (hh : ∀ c ∈ H', c < sim.nextConn)
    (hc : ∀ c ∈ s'.closed, c < sim.nextConn) (hw : ∀ w ∈ s'.seenW, w < sim.nextW) :
    Ph cfg a D' H' S' O' (emit cfg sim e) := by
  rw [emit_of_step hs]
  exact ⟨h.ok, h.reach.step hs, h.lt, hD, hH, hho, hS, hO, hl, hb, hi, hh, hc, hw⟩

/-! ### `decConnsCount`, `closeConn`, `releaseConn` -/

theorem simDec_ph {cfg : Cfg} {a : Nat} {D : List Nat} {sim : Sim} (h : Ph cfg a D [] [] [a] sim) :
    Ph cfg a D [] [] [] (simDec cfg sim a) ∧ (simDec cfg sim a).st.idle = sim.st.idle := by
  unfold simDec
  cases hw : cfg.wait
  · have hs : step cfg sim.st (.dec a 0 none) =
        some { sim.st with owed := sim.st.owed.erase a, count := sim.st.count - 1 } := by
      simp [step, h.owed, hw]
    simp only [Bool.false_eq_true, if_false]
    refine ⟨h.emit hs h.inDo h.held (by simp) h.slots (by simp [h.owed]) h.live h.boxed h.idleB (by simp)
      h.closedB h.seenB, ?_⟩
    rw [emit_st hs]
  · have hs : step cfg sim.st (.dec a sim.st.queue.length none) =
        some { sim.st with owed := sim.st.owed.erase a, queue := sim.st.queue.drop sim.st.queue.length,
                           count := sim.st.count - 1 } := by
      simp [step, h.owed, hw, popOk_all h.live]
    simp only [if_true, h.live, planPop_nil]
    refine ⟨h.emit hs h.inDo h.held (by simp) h.slots (by simp [h.owed]) h.live h.boxed h.idleB (by simp)
      h.closedB h.seenB, ?_⟩
    rw [emit_st hs]

theorem simClose_ph {cfg : Cfg} {a c : Nat} {D : List Nat} {sim : Sim} (h : Ph cfg a D [c] [] [] sim) :
    Ph cfg a D [] [] [] (simClose cfg sim a c) ∧ (simClose cfg sim a c).st.idle = sim.st.idle := by
  unfold simClose
  have hs : step cfg sim.st (.close a c) =
      some { sim.st with held := sim.st.held.erase c, closed := c :: sim.st.closed, owed := a :: sim.st.owed } := by
    simp [step, h.held, h.holder c (by simp)]
  have h1 : Ph cfg a D [] [] [a] (emit cfg sim (.close a c)) :=
    h.emit hs h.inDo (by simp [h.held]) (by simp) h.slots (by simp [h.owed]) h.live h.boxed h.idleB (by simp)
      (by intro x hx; simp at hx; rcases hx with rfl | hx
          · exact h.heldB x (by simp)
          · exact h.closedB x hx) h.seenB
  have h2 := simDec_ph h1
  refine ⟨h2.1, ?_⟩
  rw [h2.2, emit_st hs]

theorem simRelease_ph {cfg : Cfg} {a c : Nat} {D : List Nat} {sim : Sim} (h : Ph cfg a D [c] [] [] sim) :
    Ph cfg a D [] [] [] (simRelease cfg sim a c) ∧ (simRelease cfg sim a c).st.idle = sim.st.idle ++ [c] := by
  unfold simRelease
  have hidle : ∀ x ∈ sim.st.idle ++ [c], x < sim.nextConn := by
    intro x hx; simp at hx; rcases hx with hx | rfl
    · exact h.idleB x hx
    · exact h.heldB x (by simp)
  cases hw : cfg.wait
  · have hs : step cfg sim.st (.rel a c 0 none false) =
        some { sim.st with held := sim.st.held.erase c, idle := sim.st.idle ++ [c] } := by
      simp [step, h.held, h.holder c (by simp), hw]
    simp only [Bool.false_eq_true, if_false]
    refine ⟨h.emit hs h.inDo (by simp [h.held]) (by simp) h.slots h.owed h.live h.boxed hidle (by simp)
      h.closedB h.seenB, ?_⟩
    rw [emit_st hs]
  · have hs : step cfg sim.st (.rel a c sim.st.queue.length none false) =
        some { sim.st with queue := sim.st.queue.drop sim.st.queue.length, held := sim.st.held.erase c,
                           idle := sim.st.idle ++ [c] } := by
      simp [step, h.held, h.holder c (by simp), hw, popOk_all h.live]
    simp only [if_true, h.live, planPop_nil]
    refine ⟨h.emit hs h.inDo (by simp [h.held]) (by simp) h.slots h.owed h.live h.boxed hidle (by simp)
      h.closedB h.seenB, ?_⟩
    rw [emit_st hs]

theorem Ph.mono {cfg : Cfg} {a : Nat} {D H S O : List Nat} {sim sim' : Sim} (h : Ph cfg a D H S O sim)
    (hok : sim'.ok = sim.ok) (hst : sim'.st = sim.st) (hc : sim.nextConn ≤ sim'.nextConn)
    (hw : sim.nextW ≤ sim'.nextW) : Ph cfg a D H S O sim' := by
  refine ⟨hok ▸ h.ok, hst ▸ h.reach, h.lt, hst ▸ h.inDo, hst ▸ h.held, hst ▸ h.holder, hst ▸ h.slots,
    hst ▸ h.owed, hst ▸ h.live, hst ▸ h.boxed, ?_, ?_, ?_, ?_⟩
  · intro c hc'; rw [hst] at hc'; exact Nat.lt_of_lt_of_le (h.idleB c hc') hc
  · intro c hc'; exact Nat.lt_of_lt_of_le (h.heldB c hc') hc
  · intro c hc'; rw [hst] at hc'; exact Nat.lt_of_lt_of_le (h.closedB c hc') hc
  · intro c hc'; rw [hst] at hc'; exact Nat.lt_of_lt_of_le (h.seenB c hc') hw

/-! ### `acquireConn` -/

/-- the state after `queueForIdle` when nobody is alive in the queue -/
def enqSt (s : State) (w a : Nat) : State :=
  { s with queue := s.queue.drop s.queue.length ++ [w], live := w :: s.live,
           wowner := upd s.wowner w a, seenW := w :: s.seenW }

theorem simAcquire_ph {cfg : Cfg} {a : Nat} {D : List Nat} {sim : Sim} (h : Ph cfg a D [] [] [] sim)
    (ha : a ∈ D) :
    (∃ sim' c inPool, simAcquire cfg sim a = (sim', .ok (c, inPool)) ∧ Ph cfg a D [c] [] [] sim' ∧
        sim'.peer = sim.peer ∧
        (inPool = true → sim'.st.idle.length + 1 = sim.st.idle.length)) ∨
    (∃ sim' e, simAcquire cfg sim a = (sim', .error e) ∧ Ph cfg a D [] [] [] sim') := by
  unfold simAcquire
  cases hg : sim.st.idle.getLast? with
  | some c =>
    left
    have hs : step cfg sim.st (.acqIdle a c) =
        some { sim.st with idle := sim.st.idle.dropLast, held := c :: sim.st.held,
                           holder := upd sim.st.holder c a } := by
      simp [step, h.inDo, ha, hg]
    have hcm : c ∈ sim.st.idle := List.mem_of_getLast? hg
    refine ⟨_, c, true, rfl, ?_, emit_peer _ _ _, ?_⟩
    · exact h.emit hs h.inDo (by simp [h.held]) (by simp [upd]) h.slots h.owed h.live h.boxed
        (fun x hx => h.idleB x (List.dropLast_subset _ hx))
        (by intro x hx; simp at hx; subst hx; exact h.idleB x hcm) h.closedB h.seenB
    · intro _
      rw [emit_st hs]
      exact len_dropLast' hg
  | none =>
    have hidle : sim.st.idle = [] := List.getLast?_eq_none_iff.mp hg
    simp only []
    by_cases hlt : sim.st.count < (cfg.maxConns : Int)
    · simp only [hlt, if_true]
      have hs1 : step cfg sim.st (.acqCreate a) =
          some { sim.st with count := sim.st.count + 1, slots := a :: sim.st.slots } := by
        simp [step, h.inDo, ha, hidle, hlt]
      have h1 : Ph cfg a D [] [a] [] (emit cfg sim (.acqCreate a)) :=
        h.emit hs1 h.inDo h.held (by simp) (by simp [h.slots]) h.owed h.live h.boxed h.idleB (by simp)
          h.closedB h.seenB
      have hp1 := emit_peer cfg sim (.acqCreate a)
      generalize emit cfg sim (.acqCreate a) = sim1 at h1 hp1 ⊢
      by_cases hd : sim1.dialTok > 0
      · right
        simp only [hd, if_true]
        have h1' : Ph cfg a D [] [a] [] { sim1 with dialTok := sim1.dialTok - 1 } :=
          h1.mono rfl rfl (Nat.le_refl _) (Nat.le_refl _)
        generalize ({ sim1 with dialTok := sim1.dialTok - 1 } : Sim) = sim2 at h1' ⊢
        have hs2 : step cfg sim2.st (.dialFail a) =
            some { sim2.st with slots := sim2.st.slots.erase a, owed := a :: sim2.st.owed } := by
          simp [step, h1'.slots, h1'.lt]
        have h2 : Ph cfg a D [] [] [a] (emit cfg sim2 (.dialFail a)) :=
          h1'.emit hs2 h1'.inDo h1'.held (by simp) (by simp [h1'.slots]) (by simp [h1'.owed]) h1'.live
            h1'.boxed h1'.idleB (by simp) h1'.closedB h1'.seenB
        exact ⟨_, _, rfl, (simDec_ph h2).1⟩
      · left
        simp only [hd, if_false]
        have h1' : Ph cfg a D [] [a] [] { sim1 with nextConn := sim1.nextConn + 1 } :=
          h1.mono rfl rfl (Nat.le_succ _) (Nat.le_refl _)
        have hfresh : fresh sim1.st sim1.nextConn = true := by
          have e1 : sim1.nextConn ∉ sim1.st.idle := fun hx => Nat.lt_irrefl _ (h1.idleB _ hx)
          have e2 : sim1.nextConn ∉ sim1.st.closed := fun hx => Nat.lt_irrefl _ (h1.closedB _ hx)
          simp [fresh, h1.held, h1.boxed, e1, e2]
        have hs2 : step cfg sim1.st (.dialOk a sim1.nextConn) =
            some { sim1.st with slots := sim1.st.slots.erase a, held := sim1.nextConn :: sim1.st.held,
                                holder := upd sim1.st.holder sim1.nextConn a } := by
          simp [step, hfresh, h1.slots, h1.lt]
        refine ⟨_, sim1.nextConn, false, rfl, ?_, ?_, by simp⟩
        · exact h1'.emit hs2 h1.inDo (by simp [h1.held]) (by simp [upd]) (by simp [h1.slots]) h1.owed
            h1.live h1.boxed h1'.idleB (by intro x hx; simp at hx; subst hx; exact Nat.lt_succ_self _)
            h1'.closedB h1.seenB
        · rw [emit_peer]; exact hp1
    · right
      simp only [hlt, if_false]
      have hs1 : step cfg sim.st (.acqFull a) = some sim.st := by
        simp [step, h.inDo, ha, hidle, hlt]
      have h1 : Ph cfg a D [] [] [] (emit cfg sim (.acqFull a)) :=
        h.emit hs1 h.inDo h.held (by simp) h.slots h.owed h.live h.boxed h.idleB (by simp) h.closedB h.seenB
      generalize emit cfg sim (.acqFull a) = sim1 at h1 ⊢
      cases hw : cfg.wait
      · exact ⟨_, _, rfl, h1⟩
      · simp only [if_true]
        have h1' : Ph cfg a D [] [] [] { sim1 with nextW := sim1.nextW + 1 } :=
          h1.mono rfl rfl (Nat.le_refl _) (Nat.le_succ _)
        have hnew : sim1.nextW ∉ sim1.st.seenW := fun hx => Nat.lt_irrefl _ (h1.seenB _ hx)
        have hs2 : step cfg sim1.st (.enq a sim1.nextW (deadPrefix sim1.st.live sim1.st.queue)) =
            some (enqSt sim1.st sim1.nextW a) := by
          simp [step, enqSt, hw, h1.inDo, ha, hnew, h1.live, deadPrefix_nil]
        have hs2' : step cfg ({ sim1 with nextW := sim1.nextW + 1 } : Sim).st
            (.enq a sim1.nextW (deadPrefix sim1.st.live sim1.st.queue)) = _ := hs2
        rw [emit_of_step hs2']
        have hs3 : step cfg (enqSt sim1.st sim1.nextW a) (.cancel a sim1.nextW none) =
            some { enqSt sim1.st sim1.nextW a with live := [] } := by
          simp [step, enqSt, upd, noBox, h1.boxed, h1.live]
        refine ⟨_, "nofree", rfl, ?_⟩
        rw [emit_of_step hs3]
        refine ⟨h1.ok, (h1.reach.step hs2).step hs3, h1.lt, h1.inDo, h1.held, by simp, h1.slots, h1.owed,
          rfl, h1.boxed, h1.idleB, by simp, h1.closedB, ?_⟩
        intro x hx
        simp [enqSt] at hx
        rcases hx with rfl | hx
        · exact Nat.lt_succ_self _
        · exact Nat.lt_succ_of_lt (h1.seenB x hx)

/-! ### one attempt (`doNonNilReqResp`) -/

/-- what the scripted peer and the wire make of the attempt (restated from `simAttempt`) -/
def attemptEx (ps fault : Nat) : Exch × Nat × String × Bool :=
  if ps = 2 then (Exch.writeClosedNoResp, ps, "other", false)
  else if ps = 1 then (Exch.peekEOF, ps, "closed", false)
  else let r := peerFault fault; (r.1, r.2.1, r.2.2, true)

def attemptCls (v : Verdict) (failTok : String) : String :=
  if v.err = .none then "ok" else if v.err = .badPool then "badpool" else failTok

/-- `simAttempt` after a successful `acquireConn` (restated) -/
def attemptTail (cfg : Cfg) (sim : Sim) (a c : Nat) (inPool : Bool) (t : Exch × Nat × String × Bool) : AttemptOut :=
  let v := verdict inPool t.1
  let sim := { sim with peer := upd sim.peer c t.2.1 }
  let sim := match v.act with
    | .close => simClose cfg sim a c
    | .release => simRelease cfg sim a c
    | .keep => sim
  { sim, canRetry := v.canRetry, cls := attemptCls v t.2.2.1, sent := t.2.2.2 }

theorem simAttempt_eq (cfg : Cfg) (sim : Sim) (a : Nat) (q : Req) :
    simAttempt cfg sim a q =
      match simAcquire cfg sim a with
      | (sim, .error e) => { sim, canRetry := false, cls := e, sent := false }
      | (sim, .ok (c, inPool)) => attemptTail cfg sim a c inPool (attemptEx (sim.peer c) q.fault) := by
  unfold simAttempt
  split
  · rename_i heq; rw [heq]
  · rename_i sim' c inPool heq
    rw [heq]
    simp only [attemptEx]
    by_cases h2 : sim'.peer c = 2
    · simp only [h2, if_true]; rfl
    · by_cases h1 : sim'.peer c = 1
      · simp only [h1, if_true]; rfl
      · simp only [h2, h1, if_false]; rfl

/-- the exchanges the scripted peer can produce never leave the connection with the caller
(`keep`), and the class `badpool` only arises on a pooled connection, which is then closed -/
theorem attemptEx_facts (ps f : Nat) (inPool : Bool) :
    (verdict inPool (attemptEx ps f).1).act ≠ .keep ∧
    (attemptCls (verdict inPool (attemptEx ps f).1) (attemptEx ps f).2.2.1 = "badpool" →
      inPool = true ∧ (verdict inPool (attemptEx ps f).1).act = .close) := by
  unfold attemptEx
  split
  · cases inPool <;> dsimp only <;> decide
  · split
    · cases inPool <;> dsimp only <;> decide
    · simp only []
      unfold peerFault
      split <;> cases inPool <;> decide

theorem attemptTail_ph {cfg : Cfg} {a c : Nat} {D : List Nat} {sim : Sim} (h : Ph cfg a D [c] [] [] sim)
    (inPool : Bool) (t : Exch × Nat × String × Bool) (hk : (verdict inPool t.1).act ≠ .keep) :
    Ph cfg a D [] [] [] (attemptTail cfg sim a c inPool t).sim ∧
    ((verdict inPool t.1).act = .close → (attemptTail cfg sim a c inPool t).sim.st.idle = sim.st.idle) := by
  have h' : Ph cfg a D [c] [] [] { sim with peer := upd sim.peer c t.2.1 } :=
    h.mono rfl rfl (Nat.le_refl _) (Nat.le_refl _)
  unfold attemptTail
  cases hv : (verdict inPool t.1).act with
  | keep => exact (hk hv).elim
  | close =>
    simp only [hv]
    exact ⟨(simClose_ph h').1, fun _ => (simClose_ph h').2⟩
  | release =>
    simp only [hv]
    exact ⟨(simRelease_ph h').1, fun hx => by cases hx⟩

theorem simAttempt_ph {cfg : Cfg} {a : Nat} {D : List Nat} {sim : Sim} (h : Ph cfg a D [] [] [] sim)
    (ha : a ∈ D) (q : Req) :
    Ph cfg a D [] [] [] (simAttempt cfg sim a q).sim ∧
    ((simAttempt cfg sim a q).canRetry = true → (simAttempt cfg sim a q).cls = "badpool" →
      (simAttempt cfg sim a q).sim.st.idle.length + 1 = sim.st.idle.length) := by
  rw [simAttempt_eq]
  rcases simAcquire_ph h ha with ⟨sim', c, inPool, he, hp, _, hlen⟩ | ⟨sim', e, he, hp⟩
  · rw [he]
    simp only []
    have hf := attemptEx_facts (sim'.peer c) q.fault inPool
    have ht := attemptTail_ph hp inPool (attemptEx (sim'.peer c) q.fault) hf.1
    refine ⟨ht.1, ?_⟩
    intro _ hcls
    have := hf.2 hcls
    rw [ht.2 this.2]
    exact hlen this.1
  · rw [he]
    simp only []
    exact ⟨hp, fun hx => by cases hx⟩

/-! ### `HostClient.Do` -/

theorem endd_ph {cfg : Cfg} {a : Nat} {sim : Sim} (h : Ph cfg a [a] [] [] [] sim) (id : Nat) (early : Bool) :
    Ph cfg a [] [] [] [] (emit cfg sim (.endd a id early)) := by
  have hs : step cfg sim.st (.endd a id early) =
      some { sim.st with inDo := sim.st.inDo.erase a, pending := sim.st.pending - 1 } := by
    simp [step, ownsNothing, h.inDo, h.held, h.slots, h.owed, h.live, h.boxed]
  exact h.emit hs (by simp [h.inDo]) h.held (by simp) h.slots h.owed h.live h.boxed h.idleB (by simp)
    h.closedB h.seenB

/-- the fuel `simDo` gives to `simLoop` is enough: every further round follows an attempt that took
a connection out of the idle list and closed it -/
theorem simLoop_ph {cfg : Cfg} {a id : Nat} {q : Req} : ∀ (fuel : Nat) (sim : Sim) (cancelled : Bool) (sends : Nat),
    Ph cfg a [a] [] [] [] sim → sim.st.idle.length + 1 ≤ fuel →
    Ph cfg a [] [] [] [] (simLoop cfg a id q fuel sim cancelled sends).1
  | 0, sim, _, _, _, hf => by omega
  | fuel + 1, sim, cancelled, sends, h, hf => by
    unfold simLoop
    cases cancelled with
    | true => simp only [if_true]; exact endd_ph h id true
    | false =>
      simp only [Bool.false_eq_true, if_false]
      have hat := simAttempt_ph h (by simp) q
      generalize simAttempt cfg sim a q = r at hat ⊢
      by_cases h1 : (r.cls == "ok") = true
      · simp only [h1, if_true]; exact endd_ph hat.1 id false
      · simp only [h1, if_false]
        by_cases hr : (r.canRetry && isIdem (if q.post then "POST" else "GET") && r.cls == "badpool") = true
        · simp only [hr, if_true]
          simp only [Bool.and_eq_true, beq_iff_eq] at hr
          have hl := hat.2 hr.1.1 hr.2
          exact simLoop_ph fuel _ _ _ hat.1 (by omega)
        · simp only [hr, if_false]; exact endd_ph hat.1 id false

theorem Ph.rest_any {cfg : Cfg} {a b : Nat} {sim : Sim} (h : Ph cfg a [] [] [] [] sim) (hb : b < auxBase) :
    Ph cfg b [] [] [] [] sim :=
  ⟨h.ok, h.reach, hb, h.inDo, h.held, by simp, h.slots, h.owed, h.live, h.boxed, h.idleB, by simp, h.closedB, h.seenB⟩

theorem simDo_ph {cfg : Cfg} {a : Nat} {sim : Sim} (h : Ph cfg a [] [] [] [] sim) (id : Nat) (q : Req) :
    Ph cfg a [] [] [] [] (simDo cfg sim a id q).1 := by
  unfold simDo
  have h0 : Ph cfg a [] [] [] [] { sim with dialTok := if q.dialFail then sim.dialTok + 1 else sim.dialTok } :=
    h.mono rfl rfl (Nat.le_refl _) (Nat.le_refl _)
  generalize ({ sim with dialTok := if q.dialFail then sim.dialTok + 1 else sim.dialTok } : Sim) = sim0 at h0 ⊢
  have hs : step cfg sim0.st (.begin a id) =
      some { sim0.st with inDo := a :: sim0.st.inDo, pending := sim0.st.pending + 1 } := by
    simp [step, h0.inDo, h0.lt]
  have h1 : Ph cfg a [a] [] [] [] (emit cfg sim0 (.begin a id)) :=
    h0.emit hs (by simp [h0.inDo]) h0.held (by simp) h0.slots h0.owed h0.live h0.boxed h0.idleB (by simp)
      h0.closedB h0.seenB
  exact simLoop_ph _ _ _ _ h1 (by omega)

theorem ph_init (cfg : Cfg) : Ph cfg 0 [] [] [] [] ({} : Sim) :=
  ⟨rfl, Reach.init cfg, by decide, rfl, rfl, by simp, rfl, rfl, rfl, rfl, by simp [init], by simp,
   by simp [init], by simp [init]⟩

theorem simSeq_ph {cfg : Cfg} : ∀ (qs : List Req) (sim : Sim) (id : Nat) (acc : List String),
    Ph cfg 0 [] [] [] [] sim → Ph cfg 0 [] [] [] [] (simSeq cfg sim id qs acc).1
  | [], sim, id, acc, h => by simpa [simSeq] using h
  | q :: qs, sim, id, acc, h => by
    simp only [simSeq]
    exact simSeq_ph qs _ _ _ (simDo_ph h id q)

/-! ### the statement -/

/-- `seq_program_accepted`: whatever the script, the sequential run of the caller's program from the
empty pool keeps `ok` (no event was rejected by `step` — `emit_ok_iff` — and the fuel of `simLoop`
was enough), ends at rest, and its final pool state is reachable by an accepted schedule. -/
theorem simSeq_accepted (cfg : Cfg) (qs : List Req) :
    (simSeq cfg {} 0 qs []).1.ok = true ∧ Reach cfg (simSeq cfg {} 0 qs []).1.st ∧
    (simSeq cfg {} 0 qs []).1.st.inDo = [] ∧ (simSeq cfg {} 0 qs []).1.st.held = [] :=
  have h := simSeq_ph qs {} 0 [] (ph_init cfg)
  ⟨h.ok, h.reach, h.inDo, h.held⟩

end Hertz.Pool
