import Hertz.Proofs.PrefixStable
import Hertz.Model.Http1.RespRead
/-!
# Prefix stability of the client's response-head parser (C02, client side)

`resp.parse` has no completeness pre-check, so the argument of `PrefixStable.lean` (the blank line is ahead)
is replaced by: a `kv` answer of the scanner is either stable under appended bytes, or its obs-fold
look-ahead ran into the end of the buffer — and then the unconsumed rest contains no line feed, so the
next call says "need more".
-/
namespace Hertz.H1
open Hertz

theorem indexByte_none_of_forall (c : UInt8) : ∀ (L : Bytes), (∀ y ∈ L, y ≠ c) → indexByte c L = none
  | [], _ => rfl
  | y :: t, h => by
    have hy : y ≠ c := h y (by simp)
    simp only [indexByte, hy, if_false]
    rw [indexByte_none_of_forall c t (fun z hz => h z (by simp [hz]))]; rfl

theorem indexByte_append_none (c : UInt8) : ∀ (L S : Bytes), (∀ y ∈ L, y ≠ c) → indexByte c S = none →
    indexByte c (L ++ S) = none
  | [], _, _, h => h
  | y :: t, S, hL, h => by
    have hy : y ≠ c := hL y (by simp)
    simp only [List.cons_append, indexByte, hy, if_false]
    rw [indexByte_append_none c t S (fun z hz => hL z (by simp [hz])) h]; rfl

theorem indexByte_cons_none (c y : UInt8) (t : Bytes) (h : indexByte c (y :: t) = none) :
    y ≠ c ∧ indexByte c t = none := by
  simp only [indexByte] at h
  by_cases hy : y = c
  · simp [hy] at h
  · simp only [hy, if_false] at h
    cases ht : indexByte c t with
    | none => exact ⟨hy, rfl⟩
    | some _ => simp [ht] at h

/-- the obs-fold look-ahead is either decided by bytes that are present (stable), or it ran into the end of
the text and what it leaves unconsumed contains no line feed -/
theorem contAux_dry : ∀ (S : Bytes) (cm cur : Nat),
    ((∀ x, contAux cm cur false (S ++ x) = contAux cm cur false S) ∨
      ∃ e, contAux cm cur false S = cm + e ∧ indexByte 10 (S.drop e) = none) ∧
    (∀ L : Bytes, (∀ y ∈ L, y ≠ 10) →
      ((∀ x, contAux cm cur true (S ++ x) = contAux cm cur true S) ∨
       (contAux cm cur true S = cm ∧ indexByte 10 (L ++ S) = none) ∨
       ∃ e, contAux cm cur true S = cm + cur + e ∧ indexByte 10 (S.drop e) = none))
  | [], cm, cur => by
    constructor
    · exact Or.inr ⟨0, by simp [contAux], rfl⟩
    · intro L hL
      exact Or.inr (Or.inl ⟨by simp [contAux], by simpa using indexByte_none_of_forall 10 L hL⟩)
  | c :: t, cm, cur => by
    constructor
    · by_cases hc : c = 32 ∨ c = 9
      · have h10 : c ≠ 10 := by rcases hc with rfl | rfl <;> decide
        have step : ∀ x, contAux cm cur false (c :: t ++ x) = contAux cm 1 true (t ++ x) := by
          intro x; simp only [List.cons_append, contAux, Bool.not_false, if_true, hc]
        have step0 : contAux cm cur false (c :: t) = contAux cm 1 true t := by simpa using step []
        rcases (contAux_dry t cm 1).2 [c] (by simpa using h10) with h | ⟨h1, h2⟩ | ⟨e, h1, h2⟩
        · left; intro x; rw [step, step0]; exact h x
        · right; exact ⟨0, by rw [step0, h1]; rfl, by simpa using h2⟩
        · right; exact ⟨e + 1, by rw [step0, h1]; omega, by simpa using h2⟩
      · left; intro x
        simp only [List.cons_append, contAux, Bool.not_false, if_true, hc, if_false]
    · intro L hL
      by_cases h58 : c = 58
      · left; intro x
        simp only [List.cons_append, contAux, Bool.not_true, Bool.false_eq_true, if_false, h58, if_true]
      · by_cases h10 : c = 10
        · subst h10
          have step : ∀ x, contAux cm cur true (10 :: t ++ x) = contAux (cm + cur + 1) 0 false (t ++ x) := by
            intro x
            simp only [List.cons_append, contAux, Bool.not_true, Bool.false_eq_true, if_false, h58, if_true]
          have step0 : contAux cm cur true (10 :: t) = contAux (cm + cur + 1) 0 false t := by simpa using step []
          rcases (contAux_dry t (cm + cur + 1) 0).1 with h | ⟨e, h1, h2⟩
          · left; intro x; rw [step, step0]; exact h x
          · right; right; exact ⟨e + 1, by rw [step0, h1]; omega, by simpa using h2⟩
        · have step : ∀ x, contAux cm cur true (c :: t ++ x) = contAux cm (cur + 1) true (t ++ x) := by
            intro x
            simp only [List.cons_append, contAux, Bool.not_true, Bool.false_eq_true, if_false, h58, h10]
          have step0 : contAux cm cur true (c :: t) = contAux cm (cur + 1) true t := by simpa using step []
          have hL' : ∀ y ∈ L ++ [c], y ≠ 10 := by
            intro y hy
            rcases List.mem_append.mp hy with hy | hy
            · exact hL y hy
            · simp at hy; subst hy; exact h10
          rcases (contAux_dry t cm (cur + 1)).2 (L ++ [c]) hL' with h | ⟨h1, h2⟩ | ⟨e, h1, h2⟩
          · left; intro x; rw [step, step0]; exact h x
          · right; left; exact ⟨by rw [step0, h1], by simpa using h2⟩
          · right; right; exact ⟨e + 1, by rw [step0, h1]; omega, by simpa using h2⟩

theorem contExtra_dry (S : Bytes) :
    (∀ x, contExtra (S ++ x) = contExtra S) ∨ indexByte 10 (S.drop (contExtra S)) = none := by
  rcases (contAux_dry S 0 0).1 with h | ⟨e, h1, h2⟩
  · exact Or.inl h
  · right
    have : contExtra S = e := by simpa [contExtra] using h1
    rw [this]; exact h2

theorem ValuePos.unique {B : Bytes} {n sp sp' : Nat} {B1 B1' : Bytes} {n1 n1' : Nat}
    (p : ValuePos B n sp B1 n1) (q : ValuePos B n sp' B1' n1') : sp = sp' ∧ B1 = B1' ∧ n1 = n1' := by
  have h1 : sp = sp' := p.sp_eq.trans q.sp_eq.symm
  subst h1
  have h2 : B1 = B1' := p.b1_eq.trans q.b1_eq.symm
  subst h2
  exact ⟨rfl, rfl, Option.some.inj (p.n1_eq.symm.trans q.n1_eq)⟩

/-- a `kv` answer whose unconsumed rest contains no line feed -/
def DryKV (s : Scan) : Prop := ∃ k v rest m, s = .kv k v rest m ∧ indexByte 10 rest = none

theorem scanValue_append_or_dry (dn : Bool) (B : Bytes) (n xi : Nat)
    (hn : indexByte 58 B = some n) (hx : indexByte 10 B = some xi) (hlt : n < xi) :
    (∀ x, scanValue dn (B ++ x) n = (scanValue dn B n).app x) ∨ DryKV (scanValue dn B n) := by
  obtain ⟨sp, B1, n1, p, _, _, hlen, _⟩ := valuePos_exists B [] n xi hn hx hlt
  have hn1 := indexByte_lt 10 B1 n1 p.n1_eq
  obtain ⟨_, hle, _⟩ := contExtra_spec (B1.drop (n1 + 1))
  simp only [List.length_drop] at hle
  rcases contExtra_dry (B1.drop (n1 + 1)) with hs | hd
  · left
    intro x
    obtain ⟨sp', B1', n1', p', px, _⟩ := valuePos_exists B x n xi hn hx hlt
    obtain ⟨rfl, rfl, rfl⟩ := p.unique p'
    rw [scanValue_eq dn B n sp B1 n1 p, scanValue_eq dn (B ++ x) n sp (B1 ++ x) n1 px,
      List.drop_append_of_le_length (by omega), hs x]
    exact scanKV_append dn B x n sp B1 n1 _ (by omega) (by omega)
  · right
    rw [scanValue_eq dn B n sp B1 n1 p]
    refine ⟨_, _, _, _, rfl, ?_⟩
    rw [List.drop_drop] at hd
    rw [show n1 + contExtra (List.drop (n1 + 1) B1) + 1 = n1 + 1 + contExtra (List.drop (n1 + 1) B1) by omega]
    exact hd

theorem scanLine_append_or_dry (dn : Bool) (B : Bytes) (hne : scanLine dn B ≠ .needMore) :
    (∀ x, scanLine dn (B ++ x) = (scanLine dn B).app x) ∨ DryKV (scanLine dn B) := by
  obtain ⟨n, xi, hn, hx, h⟩ := scanLine_cases dn B hne
  rcases h with ⟨hlt, h⟩ | ⟨hlt, h⟩
  · left; intro x
    rw [scanLine_of_pos dn (B ++ x) n xi (indexByte_append 58 B x n hn) (indexByte_append 10 B x xi hx), h]
    simp [hlt, Scan.app]
  · rw [h]
    rcases scanValue_append_or_dry dn B n xi hn hx hlt with hs | hd
    · left; intro x
      rw [scanLine_of_pos dn (B ++ x) n xi (indexByte_append 58 B x n hn) (indexByte_append 10 B x xi hx),
        if_neg (by omega)]
      exact hs x
    · exact Or.inr hd

theorem scanNext_append_or_dry (dn : Bool) (B : Bytes) (hne : scanNext dn B ≠ .needMore) :
    (∀ x, scanNext dn (B ++ x) = (scanNext dn B).app x) ∨ DryKV (scanNext dn B) := by
  rcases scanNext_shape dn B with ⟨h, _⟩ | ⟨t, rfl, h⟩ | ⟨t, rfl, h⟩ | ⟨c, d, t, rfl, h1, h2, h⟩
  · exact absurd h hne
  · left; intro x; rw [h]; exact scanNext_crlf dn (t ++ x)
  · left; intro x; rw [h]; exact scanNext_lf dn (t ++ x)
  · rw [h] at hne ⊢
    rcases scanLine_append_or_dry dn _ hne with hs | hd
    · left; intro x
      rw [← hs x]
      exact scanNext_line dn c d (t ++ x) h1 h2
    · exact Or.inr hd

/-- a text without a line feed makes the scanner ask for more -/
theorem scanNext_no_lf (dn : Bool) (B : Bytes) (h : indexByte 10 B = none) : scanNext dn B = .needMore := by
  rcases scanNext_shape dn B with ⟨h', _⟩ | ⟨t, rfl, _⟩ | ⟨t, rfl, _⟩ | ⟨c, d, t, rfl, h1, h2, h'⟩
  · exact h'
  · simp [indexByte] at h
  · simp [indexByte] at h
  · rw [h']; simp only [scanLine, h]

namespace RespRead

theorem headersLoop_append (dn : Bool) (x : Bytes) : ∀ (fuel fuel' : Nat) (B : Bytes) (st : HState) (hl : Nat)
    (r : Except HeadErr (HState × Nat)), headersLoop dn fuel B st hl = r → r ≠ .error .needMore →
    fuel ≤ fuel' → headersLoop dn fuel' (B ++ x) st hl = r
  | 0, _, _, _, _, _, h, hr, _ => by simp only [headersLoop] at h; exact absurd h.symm hr
  | _ + 1, 0, _, _, _, _, _, _, hf => by omega
  | fuel + 1, fuel' + 1, B, st, hl, r, h, hr, hf => by
    unfold headersLoop at h
    cases hs : scanNext dn B with
    | needMore => simp only [hs] at h; exact absurd h.symm hr
    | fin n =>
      have := scanNext_append_or_dry dn B (by rw [hs]; simp)
      rcases this with hst | ⟨_, _, _, _, hd, _⟩
      · unfold headersLoop; rw [hst x, hs]; simpa only [hs, Scan.app] using h
      · rw [hs] at hd; simp at hd
    | invalidName =>
      have := scanNext_append_or_dry dn B (by rw [hs]; simp)
      rcases this with hst | ⟨_, _, _, _, hd, _⟩
      · unfold headersLoop; rw [hst x, hs]; simpa only [hs, Scan.app] using h
      · rw [hs] at hd; simp at hd
    | kv k v rest n =>
      simp only [hs] at h
      have := scanNext_append_or_dry dn B (by rw [hs]; simp)
      rcases this with hst | ⟨k', v', rest', n', hd, hdry⟩
      · unfold headersLoop; rw [hst x, hs]
        simp only [Scan.app]
        exact headersLoop_append dn x fuel fuel' rest _ _ r h hr (by omega)
      · exfalso
        rw [hs] at hd
        simp only [Scan.kv.injEq] at hd
        obtain ⟨_, _, rfl, _⟩ := hd
        have hnm := scanNext_no_lf dn rest hdry
        cases fuel with
        | zero => simp only [headersLoop] at h; exact hr h.symm
        | succ f =>
          unfold headersLoop at h
          simp only [hnm] at h
          exact hr h.symm

theorem headersLoop_le (dn : Bool) : ∀ (fuel : Nat) (B : Bytes) (st st' : HState) (hl n : Nat),
    headersLoop dn fuel B st hl = .ok (st', n) → n ≤ hl + B.length
  | 0, _, _, _, _, _, h => by simp [headersLoop] at h
  | fuel + 1, B, st, st', hl, n, h => by
    unfold headersLoop at h
    cases hs : scanNext dn B with
    | needMore => simp [hs] at h
    | invalidName => simp [hs] at h
    | fin k =>
      simp only [hs, Except.ok.injEq, Prod.mk.injEq] at h
      have := (scanNext_fin dn B k hs).2
      omega
    | kv k v rest m =>
      simp only [hs] at h
      obtain ⟨_, _, _, hm⟩ := scanNext_rest dn B k v rest m hs
      have := headersLoop_le dn fuel rest _ st' _ n h
      omega

theorem parseHeaders_append (dn : Bool) (hd : RespHead) (B x : Bytes) (r : Except HeadErr (RespHead × Nat))
    (h : parseHeaders dn hd B = r) (hr : r ≠ .error .needMore) : parseHeaders dn hd (B ++ x) = r := by
  unfold parseHeaders at h ⊢
  cases hl : headersLoop dn (B.length + 1) B { head := { hd with cl := -2 } } 0 with
  | error e =>
    cases e with
    | needMore => simp [hl, bind, Except.bind] at h; exact absurd h.symm hr
    | bad =>
      rw [headersLoop_append dn x _ ((B ++ x).length + 1) B _ 0 _ hl (by simp) (by simp)]
      rw [hl] at h; exact h
  | ok p =>
    rw [headersLoop_append dn x _ ((B ++ x).length + 1) B _ 0 _ hl (by simp) (by simp)]
    rw [hl] at h; exact h

theorem parseHeaders_le (dn : Bool) (hd hd' : RespHead) (B : Bytes) (n : Nat)
    (h : parseHeaders dn hd B = .ok (hd', n)) : n ≤ B.length := by
  unfold parseHeaders at h
  cases hl : headersLoop dn (B.length + 1) B { head := { hd with cl := -2 } } 0 with
  | error e => simp [hl, bind, Except.bind] at h
  | ok p =>
    obtain ⟨st, k⟩ := p
    have := headersLoop_le dn _ _ _ _ _ _ hl
    simp only [hl, bind, Except.bind] at h
    split at h
    · simp at h
    · simp only [Except.ok.injEq, Prod.mk.injEq] at h; omega

theorem parseFirstLine_append (b x : Bytes) (r : Except HeadErr (RespHead × Nat))
    (h : parseFirstLine b = r) (hr : r ≠ .error .needMore) : parseFirstLine (b ++ x) = r := by
  unfold parseFirstLine at h ⊢
  cases ha : parseFirstLineAux (b.length + 1) b 0 with
  | error e =>
    have := parseFirstLineAux_err _ _ _ e ha
    subst this
    simp [ha, bind, Except.bind] at h
    exact absurd h.symm hr
  | ok p =>
    have := parseFirstLineAux_append (b.length + 1) ((b ++ x).length + 1) b x 0 p ha (by simp)
    rw [this]
    rw [ha] at h
    exact h

theorem parseFirstLine_le (b : Bytes) (hd : RespHead) (m : Nat) (h : parseFirstLine b = .ok (hd, m)) :
    m ≤ b.length := by
  unfold parseFirstLine at h
  cases ha : parseFirstLineAux (b.length + 1) b 0 with
  | error e => simp [ha, bind, Except.bind] at h
  | ok p =>
    obtain ⟨line, c⟩ := p
    have hle := parseFirstLineAux_le _ _ _ _ _ ha
    simp only [ha, bind, Except.bind] at h
    split at h
    · simp at h
    · split at h
      · simp at h
      · split at h
        · simp at h
        · simp only [Except.ok.injEq, Prod.mk.injEq] at h; omega

/-- **Prefix stability of the client's `resp.parse`.** -/
theorem parseRespHead_append (dn : Bool) (b x : Bytes) (r : Except HeadErr (RespHead × Nat))
    (h : parseRespHead dn b = r) (hr : r ≠ .error .needMore) : parseRespHead dn (b ++ x) = r := by
  unfold parseRespHead at h ⊢
  cases hf : parseFirstLine b with
  | error e =>
    cases e with
    | needMore => simp [hf, bind, Except.bind] at h; exact absurd h.symm hr
    | bad =>
      rw [parseFirstLine_append b x _ hf (by simp)]
      rw [hf] at h; exact h
  | ok p =>
    obtain ⟨hd, m⟩ := p
    rw [parseFirstLine_append b x _ hf (by simp)]
    rw [hf] at h
    simp only [bind, Except.bind] at h ⊢
    have hm := parseFirstLine_le b hd m hf
    rw [List.drop_append_of_le_length hm]
    cases hp : parseHeaders dn hd (List.drop m b) with
    | error e =>
      cases e with
      | needMore => simp [hp] at h; exact absurd h.symm hr
      | bad =>
        rw [parseHeaders_append dn hd _ x _ hp (by simp)]
        simpa only [hp] using h
    | ok q =>
      rw [parseHeaders_append dn hd _ x _ hp (by simp)]
      simpa only [hp] using h

theorem parseRespHead_le (dn : Bool) (b : Bytes) (hd : RespHead) (n : Nat)
    (h : parseRespHead dn b = .ok (hd, n)) : n ≤ b.length := by
  unfold parseRespHead at h
  cases hf : parseFirstLine b with
  | error e => simp [hf, bind, Except.bind] at h
  | ok p =>
    obtain ⟨hd0, m⟩ := p
    have hm := parseFirstLine_le b hd0 m hf
    simp only [hf, bind, Except.bind] at h
    cases hp : parseHeaders dn hd0 (List.drop m b) with
    | error e => simp [hp] at h
    | ok q =>
      obtain ⟨hd1, k1⟩ := q
      have := parseHeaders_le dn hd0 hd1 _ k1 hp
      simp only [hp, Except.ok.injEq, Prod.mk.injEq, List.length_drop] at h this
      omega

/-- the client's `resp.ReadHeader` retry loop over the segments still to arrive -/
def retryParse (dn : Bool) : Bytes → List Bytes → Except HeadErr (RespHead × Nat)
  | buf, [] => parseRespHead dn buf
  | buf, seg :: segs =>
    match parseRespHead dn buf with
    | .error .needMore => retryParse dn (buf ++ seg) segs
    | r => r

theorem retryParse_eq (dn : Bool) : ∀ (segs : List Bytes) (buf : Bytes),
    retryParse dn buf segs = parseRespHead dn (buf ++ segs.flatten)
  | [], buf => by simp [retryParse]
  | seg :: segs, buf => by
    unfold retryParse
    split
    · rw [retryParse_eq dn segs (buf ++ seg)]; simp
    · rename_i r hr
      simp only [List.flatten_cons]
      exact (parseRespHead_append dn buf _ _ rfl (fun h => hr h)).symm

/-! ### reading a whole response -/

theorem readHeader_append (dn : Bool) (e : End) (s x : Bytes) (hd : RespHead) (s0 : Bytes)
    (h : readHeader dn .stall s = .ok (hd, s0)) : readHeader dn e (s ++ x) = .ok (hd, s0 ++ x) := by
  unfold readHeader at h ⊢
  cases hp : parseRespHead dn s with
  | error err => rw [hp] at h; cases err <;> simp at h
  | ok p =>
    obtain ⟨hd', n⟩ := p
    rw [parseRespHead_append dn s x _ hp (by simp)]
    rw [hp] at h
    simp only [Except.ok.injEq, Prod.mk.injEq] at h ⊢
    have := parseRespHead_le dn s hd' n hp
    rw [List.drop_append_of_le_length this]
    exact ⟨h.1, by rw [h.2]⟩

theorem parseFirstLine_pos (b : Bytes) (hd : RespHead) (m : Nat) (h : parseFirstLine b = .ok (hd, m)) : 0 < m := by
  unfold parseFirstLine at h
  cases ha : parseFirstLineAux (b.length + 1) b 0 with
  | error e => simp [ha, bind, Except.bind] at h
  | ok p =>
    obtain ⟨line, c⟩ := p
    have hpos := parseFirstLineAux_pos _ _ _ _ _ ha
    simp only [ha, bind, Except.bind] at h
    split at h
    · simp at h
    · split at h
      · simp at h
      · split at h
        · simp at h
        · simp only [Except.ok.injEq, Prod.mk.injEq] at h
          omega

theorem parseRespHead_pos (dn : Bool) (b : Bytes) (hd : RespHead) (n : Nat)
    (h : parseRespHead dn b = .ok (hd, n)) : 0 < n := by
  unfold parseRespHead at h
  cases hf : parseFirstLine b with
  | error e => simp [hf, bind, Except.bind] at h
  | ok p =>
    obtain ⟨hd0, m⟩ := p
    have hm := parseFirstLine_pos b hd0 m hf
    simp only [hf, bind, Except.bind] at h
    cases hp : parseHeaders dn hd0 (List.drop m b) with
    | error e => simp [hp] at h
    | ok q =>
      obtain ⟨hd1, k1⟩ := q
      simp only [hp, Except.ok.injEq, Prod.mk.injEq] at h
      omega

/-- every head `resp.ReadHeader` accepts takes at least one byte -/
theorem readHeader_shrinks (dn : Bool) (e : End) (s : Bytes) (hd : RespHead) (s0 : Bytes)
    (h : readHeader dn e s = .ok (hd, s0)) : s0.length < s.length := by
  unfold readHeader at h
  cases hp : parseRespHead dn s with
  | error err => rw [hp] at h; cases err <;> cases e <;> simp at h
  | ok p =>
    obtain ⟨hd', n⟩ := p
    have h1 := parseRespHead_pos dn s hd' n hp
    have h2 := parseRespHead_le dn s hd' n hp
    rw [hp] at h
    simp only [Except.ok.injEq, Prod.mk.injEq] at h
    rw [← h.2, List.length_drop]
    omega

/-- the loop of `resp.ReadHeaders` never runs out of fuel: any two fuels above the length give the same result -/
theorem readHeadersLoop_fuel (dn : Bool) (e : End) : ∀ (f1 f2 : Nat) (s : Bytes), s.length < f1 → s.length < f2 →
    readHeadersLoop dn e f1 s = readHeadersLoop dn e f2 s
  | 0, _, _, h, _ => by omega
  | _ + 1, 0, _, _, h => by omega
  | f1 + 1, f2 + 1, s, h1, h2 => by
    unfold readHeadersLoop
    cases hh : readHeader dn e s with
    | error err => rfl
    | ok p =>
      obtain ⟨hd0, s0⟩ := p
      have := readHeader_shrinks dn e s hd0 s0 hh
      simp only
      split
      · exact readHeadersLoop_fuel dn e f1 f2 s0 (by omega) (by omega)
      · rfl

/-- one unfolding of `resp.ReadHeaders` -/
theorem readHeaders_step (dn : Bool) (e : End) (s : Bytes) :
    readHeaders dn e s =
      match readHeader dn e s with
      | .error x => .error x
      | .ok (hd0, s0) => if isInterim hd0.status then readHeaders dn e s0 else .ok (hd0, s0) := by
  unfold readHeaders
  rw [readHeadersLoop]
  cases hh : readHeader dn e s with
  | error err => rfl
  | ok p =>
    obtain ⟨hd0, s0⟩ := p
    have := readHeader_shrinks dn e s hd0 s0 hh
    simp only
    split
    · exact readHeadersLoop_fuel dn e _ _ s0 (by omega) (by omega)
    · rfl

theorem notInterim_of_notSkip (st : Nat) (h : mustSkipCL st = false) : isInterim st = false := by
  cases hi : isInterim st with
  | false => rfl
  | true =>
    simp only [isInterim, Bool.or_eq_true, beq_iff_eq] at hi
    rcases hi with (rfl | rfl) | rfl <;> simp [mustSkipCL] at h

theorem readHeadersLoop_append (dn : Bool) (e : End) (x : Bytes) : ∀ (fuel : Nat) (s : Bytes) (hd : RespHead) (s1 : Bytes),
    readHeadersLoop dn .stall fuel s = .ok (hd, s1) → readHeadersLoop dn e fuel (s ++ x) = .ok (hd, s1 ++ x)
  | 0, _, _, _, h => by simp [readHeadersLoop] at h
  | fuel + 1, s, hd, s1, h => by
    unfold readHeadersLoop at h ⊢
    cases hh : readHeader dn .stall s with
    | error err => rw [hh] at h; simp at h
    | ok p =>
      obtain ⟨hd0, s0⟩ := p
      rw [readHeader_append dn e s x hd0 s0 hh]
      rw [hh] at h
      simp only at h ⊢
      by_cases h100 : isInterim hd0.status = true
      · rw [if_pos h100] at h ⊢
        exact readHeadersLoop_append dn e x fuel s0 hd s1 h
      · rw [if_neg h100] at h ⊢
        simp only [Except.ok.injEq, Prod.mk.injEq] at h ⊢
        exact ⟨h.1, by rw [h.2]⟩

theorem readHeadersLoop_mono (dn : Bool) (e : End) : ∀ (f f' : Nat) (s : Bytes) (r : RespHead × Bytes),
    readHeadersLoop dn e f s = .ok r → f ≤ f' → readHeadersLoop dn e f' s = .ok r
  | 0, _, _, _, h, _ => by simp [readHeadersLoop] at h
  | _ + 1, 0, _, _, _, hf => by omega
  | f + 1, f' + 1, s, r, h, hf => by
    unfold readHeadersLoop at h ⊢
    cases hh : readHeader dn e s with
    | error err => rw [hh] at h; simp at h
    | ok p =>
      obtain ⟨hd0, s0⟩ := p
      rw [hh] at h
      simp only at h ⊢
      split
      · rename_i hi
        rw [if_pos hi] at h
        exact readHeadersLoop_mono dn e f f' s0 r h (by omega)
      · rename_i hi
        rw [if_neg hi] at h
        exact h

theorem readHeaders_append (dn : Bool) (e : End) (s x : Bytes) (hd : RespHead) (s1 : Bytes)
    (h : readHeaders dn .stall s = .ok (hd, s1)) : readHeaders dn e (s ++ x) = .ok (hd, s1 ++ x) := by
  unfold readHeaders at h ⊢
  have := readHeadersLoop_append dn e x _ s hd s1 h
  exact readHeadersLoop_mono dn e _ _ _ _ this (by simp)

/-- the response says where its body ends (it is not "read until the connection closes") -/
def Framed (hd : RespHead) : Prop := mustSkipCL hd.status = true ∨ hd.cl ≥ -1

theorem readBodyPart_append (dn : Bool) (mb : Nat) (e : End) (hd : RespHead) (s x : Bytes) (res : Result)
    (hf : Framed hd) (h : readBodyPart dn mb .stall hd s = .ok res) :
    readBodyPart dn mb e hd (s ++ x) = .ok { res with rest := res.rest ++ x } := by
  unfold readBodyPart at h ⊢
  simp only at h ⊢
  split
  · rename_i c1
    rw [if_pos c1] at h
    simp only [Except.ok.injEq] at h ⊢
    subst h; rfl
  · rename_i c1
    rw [if_neg c1] at h
    split
    · rename_i c2
      rw [if_pos c2] at h
      split
      · rename_i c3; rw [if_pos c3] at h; simp at h
      · rename_i c3
        rw [if_neg c3] at h
        cases ht : takeBody .stall hd.cl.toNat s with
        | error err => rw [ht] at h; simp at h
        | ok p =>
          obtain ⟨b, r⟩ := p
          rw [takeBody_append .stall e _ s x b r ht]
          rw [ht] at h
          simp only [Except.ok.injEq] at h ⊢
          subst h; rfl
    · rename_i c2
      rw [if_neg c2] at h
      split
      · rename_i c3
        rw [if_pos c3] at h
        cases hb : readBodyChunked .stall mb (s.length + 1) [] s with
        | error err => rw [hb] at h; simp at h
        | ok p =>
          obtain ⟨b, r⟩ := p
          rw [readBodyChunked_append .stall e mb x _ ((s ++ x).length + 1) [] s b r hb (by simp)]
          rw [hb] at h
          simp only at h ⊢
          cases hr : readTrailerReq { disableNorm := dn, maxBody := mb } .stall hd.trailer r with
          | error err => rw [hr] at h; simp at h
          | ok q =>
            obtain ⟨t, r'⟩ := q
            rw [readTrailerReq_append _ e hd.trailer r x t r' hr]
            rw [hr] at h
            cases t with
            | none => simp only [Except.ok.injEq] at h ⊢; subst h; rfl
            | some t => simp only [Except.ok.injEq] at h ⊢; subst h; rfl
      · rename_i c3
        exfalso
        rcases hf with hf | hf
        · exact c1 hf
        · omega

/-- **Client side, whole response.** If a framed response (head, optional `100 Continue` before it, body,
trailers) is read completely from `s` while the stream merely stalls after `s`, then on every extension
`s ++ x`, under either way the stream can end, the same response is read and exactly `x` more is left. -/
theorem readResponse_append (dn : Bool) (mb : Nat) (e : End) (s x : Bytes) (res : Result)
    (hf : ∀ hd s1, readHeaders dn .stall s = .ok (hd, s1) → Framed hd)
    (h : readResponse dn mb .stall s = .ok res) :
    readResponse dn mb e (s ++ x) = .ok { res with rest := res.rest ++ x } := by
  unfold readResponse at h ⊢
  cases hh : readHeaders dn .stall s with
  | error err => rw [hh] at h; simp at h
  | ok p =>
    obtain ⟨hd, s1⟩ := p
    rw [readHeaders_append dn e s x hd s1 hh]
    rw [hh] at h
    exact readBodyPart_append dn mb e hd s1 x res (hf hd s1 hh) h

end RespRead

end Hertz.H1
