import Hertz.Model.Shutdown
/-!
Invariants of the graceful-shutdown interleaving model (property C18), by induction over
arbitrary action sequences.
-/
namespace Hertz.Shutdown

/-! ### unfolding the record updates -/

theorem updConn_some {s s' : State} {c : Nat} {f : Conn → Option Conn} (h : updConn s c f = some s') :
    ∃ cn cn', s.conns[c]? = some cn ∧ f cn = some cn' ∧ s' = { s with conns := s.conns.set c cn' } := by
  unfold updConn at h
  split at h
  · simp at h
  · rename_i cn hc
    split at h
    · simp at h
    · rename_i cn' hf
      exact ⟨cn, cn', hc, hf, by simpa using h.symm⟩

theorem updCaller_some {s s' : State} {k : Nat} {f : CallerPh → Option CallerPh} (h : updCaller s k f = some s') :
    ∃ p p', s.callers[k]? = some p ∧ f p = some p' ∧ s' = { s with callers := s.callers.set k p' } := by
  unfold updCaller at h
  split at h
  · simp at h
  · rename_i p hc
    split at h
    · simp at h
    · rename_i p' hf
      exact ⟨p, p', hc, hf, by simpa using h.symm⟩

theorem updHook_some {s s' : State} {j : Nat} {f : HookPh → Option HookPh} (h : updHook s j f = some s') :
    ∃ p p', s.hooks[j]? = some p ∧ f p = some p' ∧ s' = { s with hooks := s.hooks.set j p' } := by
  unfold updHook at h
  split at h
  · simp at h
  · rename_i p hc
    split at h
    · simp at h
    · rename_i p' hf
      exact ⟨p, p', hc, hf, by simpa using h.symm⟩

/-! ### per-connection invariant -/

/-- phase-specific part: the ghost flag of a returned handler is backed by the status, and an exit
check made after the flip has set `connectionClose` -/
def phOk (status : Nat) : ConnPh → Prop
  | .returned _ g => g = true → stShutdown ≤ status
  | .checked cl g => g = true → cl = true
  | _ => True

structure ConnOk (status : Nat) (cn : Conn) : Prop where
  /-- every started request is either answered completely or still in flight -/
  count : cn.started = cn.resps.length + inflight cn.ph
  /-- a response whose handler returned after the status flip carries `Connection: close` -/
  resps : ∀ r ∈ cn.resps, r.flipped = true → r.close = true
  ph : phOk status cn.ph

theorem phOk_mono {st st' : Nat} (h : st ≤ st') {p : ConnPh} (hp : phOk st p) : phOk st' p := by
  cases p <;> simp_all [phOk]
  intro g; exact Nat.le_trans (hp g) h

theorem ConnOk.mono {st st' : Nat} (h : st ≤ st') {cn : Conn} (hc : ConnOk st cn) : ConnOk st' cn :=
  ⟨hc.count, hc.resps, phOk_mono h hc.ph⟩

theorem connOk_new (st : Nat) : ConnOk st {} := ⟨by simp [inflight], by simp, by simp [phOk]⟩

theorem cReqArrive_ok {st rc} {cn cn' : Conn} (h : cReqArrive rc cn = some cn') (hc : ConnOk st cn) : ConnOk st cn' := by
  unfold cReqArrive at h
  split at h <;> simp at h
  rename_i hp
  subst h
  have := hc.count
  refine ⟨?_, hc.resps, by simp [phOk]⟩
  simp [hp, inflight] at this ⊢; omega

theorem cHandlerRet_ok {st rcl fl} {cn cn' : Conn} (h : cHandlerRet rcl fl cn = some cn') (hf : fl = true → stShutdown ≤ st)
    (hc : ConnOk st cn) : ConnOk st cn' := by
  unfold cHandlerRet at h
  split at h <;> simp at h
  rename_i hp
  subst h
  have := hc.count
  refine ⟨?_, hc.resps, by simpa [phOk] using hf⟩
  simp [hp, inflight] at this ⊢; omega

theorem cExitCheck_ok {st run} {cn cn' : Conn} (h : cExitCheck run cn = some cn') (hr : stShutdown ≤ st → run = false)
    (hc : ConnOk st cn) : ConnOk st cn' := by
  unfold cExitCheck at h
  split at h <;> simp at h
  rename_i cl g hp
  subst h
  have := hc.count
  have hph := hc.ph
  refine ⟨?_, hc.resps, ?_⟩
  · simp [hp, inflight] at this ⊢; omega
  · simp [hp, phOk] at hph ⊢
    intro hg; right; exact hr (hph hg)

theorem cWriteResp_ok {st} {cn cn' : Conn} (h : cWriteResp cn = some cn') (hc : ConnOk st cn) : ConnOk st cn' := by
  unfold cWriteResp at h
  split at h <;> simp at h
  rename_i cl g hp
  subst h
  have := hc.count
  have hph := hc.ph
  simp [hp, phOk] at hph
  refine ⟨?_, ?_, ?_⟩
  · cases cl <;> simp [hp, inflight] at this ⊢ <;> omega
  · intro r hr
    simp at hr
    rcases hr with hr | rfl
    · exact hc.resps r hr
    · simpa using hph
  · cases cl <;> simp [phOk]

theorem cConnDrop_ok {st} {cn cn' : Conn} (h : cConnDrop cn = some cn') (hc : ConnOk st cn) : ConnOk st cn' := by
  unfold cConnDrop at h
  split at h <;> simp at h
  rename_i hp
  obtain ⟨_, rfl⟩ := h
  have := hc.count
  refine ⟨?_, hc.resps, by simp [phOk]⟩
  simp [hp, inflight] at this ⊢; omega

theorem cBadReq_ok {st} {cn cn' : Conn} (h : cBadReq cn = some cn') (hc : ConnOk st cn) : ConnOk st cn' := by
  unfold cBadReq at h
  split at h <;> simp at h
  rename_i hp
  subst h
  have := hc.count
  refine ⟨?_, hc.resps, by simp [phOk]⟩
  simp [hp, inflight] at this ⊢; omega

theorem cNpClose_ok {st} {cn cn' : Conn} (h : cNpClose cn = some cn') (hc : ConnOk st cn) : ConnOk st cn' := by
  unfold cNpClose at h
  split at h <;> simp at h
  rename_i hp
  obtain ⟨_, rfl⟩ := h
  have := hc.count
  refine ⟨?_, hc.resps, by simp [phOk]⟩
  simp [hp, inflight] at this ⊢; omega

theorem cGone_ok {st} {cn cn' : Conn} (h : cGone cn = some cn') (hc : ConnOk st cn) : ConnOk st cn' := by
  unfold cGone at h
  split at h <;> simp at h
  rename_i hp
  subst h
  have := hc.count
  refine ⟨?_, hc.resps, by simp [phOk]⟩
  simp [hp, inflight] at this ⊢; omega

theorem cPeerClose_ok {st} {cn cn' : Conn} (h : cPeerClose cn = some cn') (hc : ConnOk st cn) : ConnOk st cn' := by
  unfold cPeerClose at h
  simp at h; subst h
  exact ⟨hc.count, hc.resps, hc.ph⟩

theorem cClientRead_ok {st cl} {cn cn' : Conn} (h : cClientRead cl cn = some cn') (hc : ConnOk st cn) : ConnOk st cn' := by
  unfold cClientRead at h
  split at h <;> simp at h
  obtain ⟨_, rfl⟩ := h
  exact ⟨hc.count, hc.resps, hc.ph⟩

theorem cClientEof_ok {st} {cn cn' : Conn} (h : cClientEof cn = some cn') (hc : ConnOk st cn) : ConnOk st cn' := by
  unfold cClientEof at h
  split at h <;> simp at h
  all_goals (obtain ⟨_, rfl⟩ := h; exact hc)

theorem conns_set_ok {st : Nat} {l : List Conn} {c : Nat} {cn' : Conn} (h : ∀ cn ∈ l, ConnOk st cn) (h' : ConnOk st cn') :
    ∀ cn ∈ l.set c cn', ConnOk st cn := by
  intro cn hm
  rcases List.mem_or_eq_of_mem_set hm with hm | rfl
  · exact h cn hm
  · exact h'


/-! ### global invariant -/

theorem hooksDone_get {s : State} (h : hooksDone s = true) {j : Nat} {p : HookPh} (hj : s.hooks[j]? = some p) : p = .done := by
  unfold hooksDone at h
  rw [List.all_eq_true] at h
  have := h p (List.mem_of_getElem? hj)
  simpa using this

structure Inv (s : State) : Prop where
  st4 : s.status ≤ 4
  conns : ∀ cn ∈ s.conns, ConnOk s.status cn
  /-- once a caller has won the CAS the status is past `running` -/
  winSt : s.win ≠ .none → stShutdown ≤ s.status
  /-- the listener exists only once `serve` has listened -/
  lnRun : s.lnSet = true → (s.runPh = .serving ∨ s.runPh = .acceptFailed ∨ s.runPh = .exited)
  lnOpenSet : s.lnOpen = true → s.lnSet = true
  /-- if `transport.Shutdown` found a listener, it is closed from then on -/
  closed : postClose s.win = true → s.lnSkipped = false → s.lnOpen = false ∧ s.lnSet = true
  late0 : postClose s.win = false → s.lateAccepts = 0
  late1 : s.lnSkipped = false → s.lateAccepts = 0
  /-- past the `go executeOnShutdownHooks` step every hook has been spawned -/
  spawned : s.win ≠ .none → s.win ≠ .pre → ∀ h ∈ s.hooks, h ≠ .unspawned
  /-- a return before the deadline has waited for all hooks -/
  retHooks : ∀ e t, s.win = .returned e t → t < s.dl → hooksDone s = true

theorem inv_init (n : Nat) : Inv (init n) := by
  refine ⟨by simp [init], by simp [init], by simp [init], by simp [init], by simp [init], by simp [init, postClose],
    by simp [init], by simp [init], by simp [init], by simp [init]⟩

theorem spawnHook_ne (p : HookPh) : spawnHook p ≠ .unspawned := by
  cases p <;> simp [spawnHook]

set_option maxHeartbeats 1000000 in
theorem step_inv (cfg : Cfg) {s s' : State} {a : Act} (inv : Inv s) (h : step cfg s a = some s') : Inv s' := by
  have h4 := inv.st4
  cases a <;> simp only [step] at h
  case advance d =>
    simp at h; subst h
    exact ⟨inv.1, inv.2, inv.3, inv.4, inv.5, inv.6, inv.7, inv.8, inv.9, inv.10⟩
  case init =>
    split at h <;> try (simp at h; done)
    rename_i hr
    split at h <;> (simp at h; subst h)
    · rename_i h0
      refine ⟨by simp [stInitialized], fun cn hm => (inv.conns cn hm).mono (by simp [h0]), ?_, ?_, inv.5, inv.6, inv.7, inv.8, inv.9, inv.10⟩
      · intro hw; have := inv.winSt hw; simp [h0, stShutdown] at this
      · intro hl; have := inv.lnRun hl; simp [hr] at this
    · refine ⟨inv.1, inv.2, inv.3, fun _ => by simp, inv.5, inv.6, inv.7, inv.8, inv.9, inv.10⟩
  case markRunning =>
    split at h <;> try (simp at h; done)
    rename_i hr
    split at h <;> (simp at h; subst h)
    · rename_i h0
      refine ⟨by simp [stRunning], fun cn hm => (inv.conns cn hm).mono (by simp [h0, stInitialized, stRunning]), ?_, ?_, inv.5, inv.6, inv.7, inv.8, inv.9, inv.10⟩
      · intro hw; have := inv.winSt hw; simp [h0, stShutdown, stInitialized] at this
      · intro hl; have := inv.lnRun hl; simp [hr] at this
    · refine ⟨inv.1, inv.2, inv.3, fun _ => by simp, inv.5, inv.6, inv.7, inv.8, inv.9, inv.10⟩
  case listen =>
    split at h <;> simp at h
    rename_i hr
    subst h
    refine ⟨inv.1, inv.2, inv.3, fun _ => by simp, fun _ => rfl, ?_, inv.7, inv.8, inv.9, inv.10⟩
    intro hp hs
    have := (inv.closed hp hs).2
    have := inv.lnRun this
    simp [hr] at this
  case accept =>
    split at h <;> simp at h
    rename_i hr
    subst h
    refine ⟨inv.1, ?_, inv.3, inv.4, inv.5, inv.6, ?_, ?_, inv.9, inv.10⟩
    · intro cn hm
      simp at hm
      rcases hm with hm | rfl
      · exact inv.conns cn hm
      · exact connOk_new _
    · intro hp; simp [hp]; exact inv.late0 hp
    · intro hs
      simp only
      cases hp : postClose s.win
      · simp; exact inv.late1 hs
      · have := (inv.closed hp hs).1; simp [hr.2] at this
  case acceptFail =>
    split at h <;> simp at h
    subst h
    exact ⟨inv.1, inv.2, inv.3, fun _ => by simp, inv.5, inv.6, inv.7, inv.8, inv.9, inv.10⟩
  case runReturn =>
    split at h <;> simp at h
    subst h
    exact ⟨by simp [stClosed], fun cn hm => (inv.conns cn hm).mono (by simpa [stClosed] using h4),
      fun _ => by simp [stClosed, stShutdown], fun _ => by simp, inv.5, inv.6, inv.7, inv.8, inv.9, inv.10⟩
  case reqArrive c rc =>
    obtain ⟨cn, cn', hc, hf, rfl⟩ := updConn_some h
    exact ⟨inv.1, conns_set_ok inv.conns (cReqArrive_ok hf (inv.conns cn (List.mem_of_getElem? hc))), inv.3, inv.4, inv.5, inv.6, inv.7, inv.8, inv.9, inv.10⟩
  case handlerRet c rcl =>
    obtain ⟨cn, cn', hc, hf, rfl⟩ := updConn_some h
    exact ⟨inv.1, conns_set_ok inv.conns (cHandlerRet_ok hf (by simp) (inv.conns cn (List.mem_of_getElem? hc))), inv.3, inv.4, inv.5, inv.6, inv.7, inv.8, inv.9, inv.10⟩
  case exitCheck c =>
    obtain ⟨cn, cn', hc, hf, rfl⟩ := updConn_some h
    refine ⟨inv.1, conns_set_ok inv.conns (cExitCheck_ok hf ?_ (inv.conns cn (List.mem_of_getElem? hc))), inv.3, inv.4, inv.5, inv.6, inv.7, inv.8, inv.9, inv.10⟩
    intro hs
    simp [isRunning, stRunning, stShutdown] at hs ⊢
    intro h2; omega
  case writeResp c =>
    obtain ⟨cn, cn', hc, hf, rfl⟩ := updConn_some h
    exact ⟨inv.1, conns_set_ok inv.conns (cWriteResp_ok hf (inv.conns cn (List.mem_of_getElem? hc))), inv.3, inv.4, inv.5, inv.6, inv.7, inv.8, inv.9, inv.10⟩
  case connDrop c =>
    obtain ⟨cn, cn', hc, hf, rfl⟩ := updConn_some h
    exact ⟨inv.1, conns_set_ok inv.conns (cConnDrop_ok hf (inv.conns cn (List.mem_of_getElem? hc))), inv.3, inv.4, inv.5, inv.6, inv.7, inv.8, inv.9, inv.10⟩
  case badReq c =>
    obtain ⟨cn, cn', hc, hf, rfl⟩ := updConn_some h
    exact ⟨inv.1, conns_set_ok inv.conns (cBadReq_ok hf (inv.conns cn (List.mem_of_getElem? hc))), inv.3, inv.4, inv.5, inv.6, inv.7, inv.8, inv.9, inv.10⟩
  case connGone c =>
    simp only [Option.map_eq_some_iff] at h
    obtain ⟨s1, h1, rfl⟩ := h
    obtain ⟨cn, cn', hc, hf, rfl⟩ := updConn_some h1
    exact ⟨inv.1, conns_set_ok inv.conns (cGone_ok hf (inv.conns cn (List.mem_of_getElem? hc))), inv.3, inv.4, inv.5, inv.6, inv.7, inv.8, inv.9, inv.10⟩
  case peerClose c =>
    obtain ⟨cn, cn', hc, hf, rfl⟩ := updConn_some h
    exact ⟨inv.1, conns_set_ok inv.conns (cPeerClose_ok hf (inv.conns cn (List.mem_of_getElem? hc))), inv.3, inv.4, inv.5, inv.6, inv.7, inv.8, inv.9, inv.10⟩
  case clientRead c cl =>
    obtain ⟨cn, cn', hc, hf, rfl⟩ := updConn_some h
    exact ⟨inv.1, conns_set_ok inv.conns (cClientRead_ok hf (inv.conns cn (List.mem_of_getElem? hc))), inv.3, inv.4, inv.5, inv.6, inv.7, inv.8, inv.9, inv.10⟩
  case clientEof c =>
    obtain ⟨cn, cn', hc, hf, rfl⟩ := updConn_some h
    exact ⟨inv.1, conns_set_ok inv.conns (cClientEof_ok hf (inv.conns cn (List.mem_of_getElem? hc))), inv.3, inv.4, inv.5, inv.6, inv.7, inv.8, inv.9, inv.10⟩
  case npCloseIdle c =>
    split at h <;> try (simp at h; done)
    obtain ⟨cn, cn', hc, hf, rfl⟩ := updConn_some h
    exact ⟨inv.1, conns_set_ok inv.conns (cNpClose_ok hf (inv.conns cn (List.mem_of_getElem? hc))), inv.3, inv.4, inv.5, inv.6, inv.7, inv.8, inv.9, inv.10⟩
  case dialStart =>
    simp at h; subst h
    exact ⟨inv.1, inv.2, inv.3, inv.4, inv.5, inv.6, inv.7, inv.8, inv.9, inv.10⟩
  case dialProbe i =>
    split at h <;> simp at h
    subst h
    exact ⟨inv.1, inv.2, inv.3, inv.4, inv.5, inv.6, inv.7, inv.8, inv.9, inv.10⟩
  case dialEnd i ok =>
    split at h <;> try (simp at h; done)
    split at h <;> simp at h
    subst h; exact inv
  case shutCall =>
    simp at h; subst h
    exact ⟨inv.1, inv.2, inv.3, inv.4, inv.5, inv.6, inv.7, inv.8, inv.9, inv.10⟩
  case shutLoad k =>
    obtain ⟨_, _, _, _, rfl⟩ := updCaller_some h
    exact ⟨inv.1, inv.2, inv.3, inv.4, inv.5, inv.6, inv.7, inv.8, inv.9, inv.10⟩
  case callerRet k e =>
    obtain ⟨_, _, _, _, rfl⟩ := updCaller_some h
    exact ⟨inv.1, inv.2, inv.3, inv.4, inv.5, inv.6, inv.7, inv.8, inv.9, inv.10⟩
  case shutCas k =>
    split at h <;> try (simp at h; done)
    split at h <;> (simp at h; subst h)
    · rename_i h2
      have hnone : s.win = .none := by
        cases hw : s.win <;> first | rfl | (have := inv.winSt (by simp [hw]); simp [h2, stRunning, stShutdown] at this)
      refine ⟨by simp [stShutdown], fun cn hm => (inv.conns cn hm).mono (by simp [h2, stRunning, stShutdown]),
        fun _ => by simp, inv.4, inv.5, by simp [postClose], ?_, inv.8, by simp, by simp⟩
      intro _; exact inv.late0 (by simp [hnone, postClose])
    · exact ⟨inv.1, inv.2, inv.3, inv.4, inv.5, inv.6, inv.7, inv.8, inv.9, inv.10⟩
  case shutSpawn =>
    split at h <;> simp at h
    rename_i hw
    subst h
    refine ⟨inv.1, inv.2, fun _ => inv.winSt (by simp [hw]), inv.4, inv.5, by simp [postClose], ?_, inv.8, ?_, by simp⟩
    · intro _; exact inv.late0 (by simp [hw, postClose])
    · intro _ _ p hp
      simp at hp
      obtain ⟨q, _, rfl⟩ := hp
      exact spawnHook_ne q
  case shutCloseLn =>
    split at h <;> simp at h
    rename_i hw
    subst h
    have l0 := inv.late0 (by simp [hw, postClose])
    refine ⟨inv.1, inv.2, fun _ => inv.winSt (by simp [hw]), inv.4, ?_, ?_, by simp [postClose], fun _ => l0,
      fun _ _ => inv.spawned (by simp [hw]) (by simp [hw]), by simp⟩
    · cases hl : s.lnSet <;> simp
      cases ho : s.lnOpen
      · rfl
      · have := inv.lnOpenSet ho; simp [hl] at this
    · intro _ hs
      simp at hs
      simp [hs]
  case shutTick1 =>
    split at h <;> try (simp at h; done)
    rename_i hw
    split at h <;> simp at h
    subst h
    have hp : postClose s.win = true := by simp [hw, postClose]
    refine ⟨inv.1, inv.2, fun _ => inv.winSt (by simp [hw]), inv.4, inv.5, fun _ => inv.closed hp, ?_, inv.8,
      fun _ _ => inv.spawned (by simp [hw]) (by simp [hw]), ?_⟩
    · split <;> simp [postClose]
    · intro e t; split <;> simp
  case shutTickLoop =>
    split at h <;> try (simp at h; done)
    rename_i t0 hw
    split at h <;> simp at h
    subst h
    have hp : postClose s.win = true := by simp [hw, postClose]
    refine ⟨inv.1, inv.2, fun _ => inv.winSt (by simp [hw]), inv.4, inv.5, fun _ => inv.closed hp, ?_, inv.8,
      fun _ _ => inv.spawned (by simp [hw]) (by simp [hw]), ?_⟩
    · repeat' split
      all_goals simp [postClose]
    · intro e t; repeat' split
      all_goals simp
  case shutCtxDone =>
    split at h <;> try (simp at h; done)
    rename_i t0 hw
    split at h <;> simp at h
    subst h
    have hp : postClose s.win = true := by simp [hw, postClose]
    exact ⟨inv.1, inv.2, fun _ => inv.winSt (by simp [hw]), inv.4, inv.5, fun _ => inv.closed hp, by simp [postClose], inv.8,
      fun _ _ => inv.spawned (by simp [hw]) (by simp [hw]), by simp⟩
  case shutFinish =>
    split at h <;> try (simp at h; done)
    rename_i e hw
    split at h <;> simp at h
    rename_i hc
    subst h
    have hp : postClose s.win = true := by simp [hw, postClose]
    refine ⟨inv.1, inv.2, fun _ => inv.winSt (by simp [hw]), inv.4, inv.5, fun _ => inv.closed hp, by simp [postClose], inv.8,
      fun _ _ => inv.spawned (by simp [hw]) (by simp [hw]), ?_⟩
    intro e' t' he hlt
    simp at he
    obtain ⟨_, rfl⟩ := he
    rcases hc with hc | hc
    · simp at hlt; omega
    · simpa [hooksDone] using hc
  case hookStart j =>
    obtain ⟨p, p', hj, hf, rfl⟩ := updHook_some h
    split at hf <;> simp at hf
    subst hf
    refine ⟨inv.1, inv.2, inv.3, inv.4, inv.5, inv.6, inv.7, inv.8, ?_, ?_⟩
    · intro h1 h2 q hq
      rcases List.mem_or_eq_of_mem_set hq with hq | rfl
      · exact inv.spawned h1 h2 q hq
      · simp
    · intro e t he hlt
      have := hooksDone_get (inv.retHooks e t he hlt) hj
      simp at this
  case hookEnd j =>
    obtain ⟨p, p', hj, hf, rfl⟩ := updHook_some h
    split at hf <;> simp at hf
    subst hf
    refine ⟨inv.1, inv.2, inv.3, inv.4, inv.5, inv.6, inv.7, inv.8, ?_, ?_⟩
    · intro h1 h2 q hq
      rcases List.mem_or_eq_of_mem_set hq with hq | rfl
      · exact inv.spawned h1 h2 q hq
      · simp
    · intro e t he hlt
      have := hooksDone_get (inv.retHooks e t he hlt) hj
      simp at this

theorem step_status_le (cfg : Cfg) {s s' : State} {a : Act} (h4 : s.status ≤ 4) (h : step cfg s a = some s') :
    s.status ≤ s'.status := by
  cases a <;> simp only [step] at h
  case connGone c =>
    simp only [Option.map_eq_some_iff] at h
    obtain ⟨s1, h1, rfl⟩ := h
    obtain ⟨_, _, _, _, rfl⟩ := updConn_some h1
    exact Nat.le_refl _
  all_goals (repeat' split at h)
  all_goals first
    | (simp at h; done)
    | (obtain ⟨_, _, _, _, rfl⟩ := updConn_some h; exact Nat.le_refl _)
    | (obtain ⟨_, _, _, _, rfl⟩ := updCaller_some h; exact Nat.le_refl _)
    | (obtain ⟨_, _, _, _, rfl⟩ := updHook_some h; exact Nat.le_refl _)
    | (simp at h; subst h; (try simp only [stInitialized, stRunning, stShutdown, stClosed] at *); first | exact Nat.le_refl _ | omega)

theorem run_status_le (cfg : Cfg) : ∀ (acts : List Act) {s s' : State}, Inv s → run cfg s acts = some s' → s.status ≤ s'.status
  | [], s, s', _, h => by simp [run] at h; subst h; exact Nat.le_refl _
  | a :: t, s, s', inv, h => by
    simp only [run] at h
    split at h
    · simp at h
    · rename_i s1 h1
      exact Nat.le_trans (step_status_le cfg inv.st4 h1) (run_status_le cfg t (step_inv cfg inv h1) h)

theorem run_inv (cfg : Cfg) : ∀ (acts : List Act) {s s' : State}, Inv s → run cfg s acts = some s' → Inv s'
  | [], s, s', inv, h => by simp [run] at h; subst h; exact inv
  | a :: t, s, s', inv, h => by
    simp only [run] at h
    split at h
    · simp at h
    · rename_i s1 h1
      exact run_inv cfg t (step_inv cfg inv h1) h

theorem reachable_inv {cfg : Cfg} {n : Nat} {s : State} (h : Reachable cfg n s) : Inv s := by
  obtain ⟨acts, h⟩ := h
  exact run_inv cfg acts (inv_init n) h


/-! ### the time bound, for prompt schedules of the shutdown goroutine -/

def TimeInv (cfg : Cfg) (s : State) : Prop :=
  match s.win with
  | .none => True
  | .pre => s.now = s.tcas
  | .closeLn => s.now = s.tcas ∧ s.dl = s.tcas + cfg.exitWait
  | .wait1 => s.dl = s.tcas + cfg.exitWait ∧ s.nextTick = s.tcas + cfg.tick ∧ s.now ≤ s.nextTick
  | .loop _ => s.dl = s.tcas + cfg.exitWait ∧ s.now ≤ s.tcas + cfg.exitWait + cfg.tick
  | .deferred _ => s.dl = s.tcas + cfg.exitWait ∧ s.now ≤ s.tcas + cfg.exitWait + cfg.tick
  | .returned _ t => t ≤ s.tcas + cfg.exitWait + cfg.tick

theorem step_timeInv (cfg : Cfg) {s s' : State} {a : Act} (_inv : Inv s) (ti : TimeInv cfg s) (ok : actOk s a = true)
    (h : step cfg s a = some s') : TimeInv cfg s' := by
  cases a <;> simp only [step] at h
  case advance d =>
    simp at h; subst h
    simp only [actOk, canAdvance] at ok
    unfold TimeInv at ti ⊢
    simp only
    split <;> rename_i hw <;> simp only [hw] at ti ok <;> (try simp at ok)
    all_goals first
      | trivial
      | exact ti
      | omega
      | (rcases ok with ok | ok <;> omega)
  case shutCas k =>
    split at h <;> try (simp at h; done)
    split at h <;> (simp at h; subst h)
    · simp [TimeInv]
    · exact ti
  case shutSpawn =>
    split at h <;> simp at h
    rename_i hw
    subst h
    simp [TimeInv, hw] at ti ⊢
    omega
  case shutCloseLn =>
    split at h <;> simp at h
    rename_i hw
    subst h
    simp [TimeInv, hw] at ti ⊢
    omega
  case shutTick1 =>
    split at h <;> try (simp at h; done)
    rename_i hw
    split at h <;> simp at h
    subst h
    simp [TimeInv, hw] at ti
    by_cases ha : s.active ≤ 0 <;> simp [TimeInv, ha] <;> omega
  case shutTickLoop =>
    split at h <;> try (simp at h; done)
    rename_i t0 hw
    split at h <;> simp at h
    subst h
    simp [TimeInv, hw] at ti
    by_cases ha : s.active ≤ 0
    · simp [TimeInv, ha]; omega
    · by_cases hm : cfg.maxWait < s.now - t0 <;> simp [TimeInv, ha, hm] <;> omega
  case shutCtxDone =>
    split at h <;> try (simp at h; done)
    rename_i t0 hw
    split at h <;> simp at h
    subst h
    simp [TimeInv, hw] at ti ⊢
    omega
  case shutFinish =>
    split at h <;> try (simp at h; done)
    rename_i e hw
    split at h <;> simp at h
    subst h
    simp [TimeInv, hw] at ti ⊢
    omega
  case init =>
    split at h <;> try (simp at h; done)
    split at h <;> (simp at h; subst h; exact ti)
  case markRunning =>
    split at h <;> try (simp at h; done)
    split at h <;> (simp at h; subst h; exact ti)
  case listen => split at h <;> simp at h; subst h; exact ti
  case accept => split at h <;> simp at h; subst h; exact ti
  case acceptFail => split at h <;> simp at h; subst h; exact ti
  case runReturn => split at h <;> simp at h; subst h; exact ti
  case connGone c =>
    simp only [Option.map_eq_some_iff] at h
    obtain ⟨s1, h1, rfl⟩ := h
    obtain ⟨_, _, _, _, rfl⟩ := updConn_some h1
    exact ti
  case npCloseIdle c =>
    split at h <;> try (simp at h; done)
    obtain ⟨_, _, _, _, rfl⟩ := updConn_some h
    exact ti
  case dialStart => simp at h; subst h; exact ti
  case dialProbe i => split at h <;> simp at h; subst h; exact ti
  case dialEnd i ok' =>
    split at h <;> try (simp at h; done)
    split at h <;> simp at h
    subst h; exact ti
  case shutCall => simp at h; subst h; exact ti
  all_goals first
    | (obtain ⟨_, _, _, _, rfl⟩ := updConn_some h; exact ti)
    | (obtain ⟨_, _, _, _, rfl⟩ := updCaller_some h; exact ti)
    | (obtain ⟨_, _, _, _, rfl⟩ := updHook_some h; exact ti)

theorem runPrompt_inv (cfg : Cfg) : ∀ (acts : List Act) {s s' : State}, Inv s → TimeInv cfg s →
    runPrompt cfg s acts = some s' → Inv s' ∧ TimeInv cfg s'
  | [], s, s', inv, ti, h => by simp [runPrompt] at h; subst h; exact ⟨inv, ti⟩
  | a :: t, s, s', inv, ti, h => by
    simp only [runPrompt] at h
    split at h <;> try (simp at h; done)
    rename_i hok
    split at h
    · simp at h
    · rename_i s1 h1
      exact runPrompt_inv cfg t (step_inv cfg inv h1) (step_timeInv cfg inv ti hok h1) h

/-! ### following one request from its handler return to its response -/

def pendPh : ConnPh → Prop
  | .returned _ g => g = true
  | .checked _ g => g = true
  | _ => False

/-- the request that will produce response number `L` of this connection returned from its handler
after the flip and is still on its way, or response `L` exists and is marked accordingly -/
def Pend (L : Nat) (cn : Conn) : Prop :=
  (cn.resps.length = L ∧ pendPh cn.ph) ∨ (∃ r, cn.resps[L]? = some r ∧ r.flipped = true)

def PendAt (c L : Nat) (s : State) : Prop := ∃ cn, s.conns[c]? = some cn ∧ Pend L cn

theorem pend_of_same {L : Nat} {cn cn' : Conn} (hr : cn'.resps = cn.resps) (hp : cn'.ph = cn.ph) (h : Pend L cn) : Pend L cn' := by
  unfold Pend at *; rw [hr, hp]; exact h

theorem pend_of_notPend {L : Nat} {cn cn' : Conn} (hr : cn'.resps = cn.resps) (hn : ¬ pendPh cn.ph) (h : Pend L cn) : Pend L cn' := by
  unfold Pend at *
  rcases h with ⟨_, h⟩ | h
  · exact absurd h hn
  · right; rw [hr]; exact h

theorem cReqArrive_pend {L rc} {cn cn' : Conn} (hf : cReqArrive rc cn = some cn') (h : Pend L cn) : Pend L cn' := by
  unfold cReqArrive at hf
  split at hf <;> simp at hf
  rename_i hp; subst hf
  exact pend_of_notPend (cn := cn) rfl (by simp [hp, pendPh]) h

theorem cHandlerRet_pend {L b fl} {cn cn' : Conn} (hf : cHandlerRet b fl cn = some cn') (h : Pend L cn) : Pend L cn' := by
  unfold cHandlerRet at hf
  split at hf <;> simp at hf
  rename_i hp; subst hf
  exact pend_of_notPend (cn := cn) rfl (by simp [hp, pendPh]) h

theorem cExitCheck_pend {L run} {cn cn' : Conn} (hf : cExitCheck run cn = some cn') (h : Pend L cn) : Pend L cn' := by
  unfold cExitCheck at hf
  split at hf <;> simp at hf
  rename_i cl g hp; subst hf
  unfold Pend at *
  rcases h with ⟨hl, h⟩ | h
  · left; exact ⟨hl, by simpa [hp, pendPh] using h⟩
  · right; exact h

theorem cWriteResp_pend {L} {cn cn' : Conn} (hf : cWriteResp cn = some cn') (h : Pend L cn) : Pend L cn' := by
  unfold cWriteResp at hf
  split at hf <;> simp at hf
  rename_i cl g hp; subst hf
  unfold Pend at *
  right
  rcases h with ⟨hl, h⟩ | ⟨r, hr, hfl⟩
  · simp [hp, pendPh] at h
    exact ⟨⟨cl, g⟩, by simp [← hl], h⟩
  · refine ⟨r, ?_, hfl⟩
    have : L < cn.resps.length := by
      rcases Nat.lt_or_ge L cn.resps.length with h | h
      · exact h
      · simp [List.getElem?_eq_none h] at hr
    simp [List.getElem?_append_left this, hr]

theorem cConnDrop_pend {L} {cn cn' : Conn} (hf : cConnDrop cn = some cn') (h : Pend L cn) : Pend L cn' := by
  unfold cConnDrop at hf
  split at hf <;> simp at hf
  rename_i hp; obtain ⟨_, rfl⟩ := hf
  exact pend_of_notPend (cn := cn) rfl (by simp [hp, pendPh]) h

theorem cBadReq_pend {L} {cn cn' : Conn} (hf : cBadReq cn = some cn') (h : Pend L cn) : Pend L cn' := by
  unfold cBadReq at hf
  split at hf <;> simp at hf
  rename_i hp; subst hf
  exact pend_of_notPend (cn := cn) rfl (by simp [hp, pendPh]) h

theorem cNpClose_pend {L} {cn cn' : Conn} (hf : cNpClose cn = some cn') (h : Pend L cn) : Pend L cn' := by
  unfold cNpClose at hf
  split at hf <;> simp at hf
  rename_i hp; obtain ⟨_, rfl⟩ := hf
  exact pend_of_notPend (cn := cn) rfl (by simp [hp, pendPh]) h

theorem cGone_pend {L} {cn cn' : Conn} (hf : cGone cn = some cn') (h : Pend L cn) : Pend L cn' := by
  unfold cGone at hf
  split at hf <;> simp at hf
  rename_i hp; subst hf
  exact pend_of_notPend (cn := cn) rfl (by simp [hp, pendPh]) h

theorem cPeerClose_pend {L} {cn cn' : Conn} (hf : cPeerClose cn = some cn') (h : Pend L cn) : Pend L cn' := by
  unfold cPeerClose at hf
  simp at hf; subst hf
  exact pend_of_same (cn := cn) rfl rfl h

theorem cClientRead_pend {L cl} {cn cn' : Conn} (hf : cClientRead cl cn = some cn') (h : Pend L cn) : Pend L cn' := by
  unfold cClientRead at hf
  split at hf <;> simp at hf
  obtain ⟨_, rfl⟩ := hf
  exact pend_of_same (cn := cn) rfl rfl h

theorem cClientEof_pend {L} {cn cn' : Conn} (hf : cClientEof cn = some cn') (h : Pend L cn) : Pend L cn' := by
  unfold cClientEof at hf
  split at hf <;> simp at hf
  all_goals (obtain ⟨_, rfl⟩ := hf; exact h)

theorem pendAt_updConn {c L c' : Nat} {s s' : State} {f : Conn → Option Conn} (h : updConn s c' f = some s')
    (hp : PendAt c L s) (hf : ∀ cn cn', f cn = some cn' → Pend L cn → Pend L cn') : PendAt c L s' := by
  obtain ⟨cn0, cn1, hc, hfc, rfl⟩ := updConn_some h
  obtain ⟨cn, hcn, hpend⟩ := hp
  by_cases hcc : c' = c
  · subst hcc
    rw [hc] at hcn
    cases hcn
    have hlt : c' < s.conns.length := by
      rcases Nat.lt_or_ge c' s.conns.length with h | h
      · exact h
      · simp [List.getElem?_eq_none h] at hc
    exact ⟨cn1, by simp [hlt], hf _ _ hfc hpend⟩
  · exact ⟨cn, by simp [List.getElem?_set_ne hcc, hcn], hpend⟩

theorem step_pendAt (cfg : Cfg) {c L : Nat} {s s' : State} {a : Act} (hp : PendAt c L s) (h : step cfg s a = some s') :
    PendAt c L s' := by
  cases a <;> simp only [step] at h
  case reqArrive => exact pendAt_updConn h hp fun _ _ hf => cReqArrive_pend hf
  case handlerRet => exact pendAt_updConn h hp fun _ _ hf => cHandlerRet_pend hf
  case exitCheck => exact pendAt_updConn h hp fun _ _ hf => cExitCheck_pend hf
  case writeResp => exact pendAt_updConn h hp fun _ _ hf => cWriteResp_pend hf
  case connDrop => exact pendAt_updConn h hp fun _ _ hf => cConnDrop_pend hf
  case badReq => exact pendAt_updConn h hp fun _ _ hf => cBadReq_pend hf
  case peerClose => exact pendAt_updConn h hp fun _ _ hf => cPeerClose_pend hf
  case clientRead => exact pendAt_updConn h hp fun _ _ hf => cClientRead_pend hf
  case clientEof => exact pendAt_updConn h hp fun _ _ hf => cClientEof_pend hf
  case connGone =>
    simp only [Option.map_eq_some_iff] at h
    obtain ⟨s1, h1, rfl⟩ := h
    have := pendAt_updConn h1 hp fun _ _ hf => cGone_pend hf
    exact this
  case npCloseIdle =>
    split at h <;> try (simp at h; done)
    exact pendAt_updConn h hp fun _ _ hf => cNpClose_pend hf
  case accept =>
    split at h <;> simp at h
    subst h
    obtain ⟨cn, hcn, hpend⟩ := hp
    have hlt : c < s.conns.length := by
      rcases Nat.lt_or_ge c s.conns.length with h | h
      · exact h
      · simp [List.getElem?_eq_none h] at hcn
    exact ⟨cn, by simp [List.getElem?_append_left hlt, hcn], hpend⟩
  all_goals (repeat' split at h)
  all_goals first
    | (simp at h; done)
    | (obtain ⟨_, _, _, _, rfl⟩ := updCaller_some h; exact hp)
    | (obtain ⟨_, _, _, _, rfl⟩ := updHook_some h; exact hp)
    | (simp at h; subst h; exact hp)

theorem run_pendAt (cfg : Cfg) {c L : Nat} : ∀ (acts : List Act) {s s' : State}, PendAt c L s → run cfg s acts = some s' → PendAt c L s'
  | [], s, s', hp, h => by simp [run] at h; subst h; exact hp
  | a :: t, s, s', hp, h => by
    simp only [run] at h
    split at h
    · simp at h
    · rename_i s1 h1
      exact run_pendAt cfg t (step_pendAt cfg hp h1) h

/-! ### every caller but the CAS winner reports `errStatusNotRunning` -/

/-- a caller that has not returned yet, or has returned `errStatusNotRunning` -/
def pendOrErr : CallerPh → Prop
  | .called | .loaded | .returned .notRunning | .finished .notRunning => True
  | _ => False

/-- every caller other than the one that won the CAS (`winK`, once `win ≠ none`) -/
def CallersOk (s : State) : Prop :=
  ∀ k p, s.callers[k]? = some p → (s.win = .none ∨ k ≠ s.winK) → pendOrErr p

theorem callersOk_init (n : Nat) : CallersOk (init n) := by
  intro k p hk; simp [init] at hk

theorem callersOk_same {s s' : State} (hc : s'.callers = s.callers) (hk : s'.winK = s.winK) (hw : s'.win = s.win)
    (co : CallersOk s) : CallersOk s' := by
  intro k p hkp h
  rw [hc] at hkp; rw [hw, hk] at h
  exact co k p hkp h

theorem callersOk_winStep {s s' : State} (hc : s'.callers = s.callers) (hk : s'.winK = s.winK) (hw' : s'.win ≠ .none)
    (co : CallersOk s) : CallersOk s' := by
  intro k p hkp h
  rw [hc] at hkp
  rcases h with h | h
  · exact absurd h hw'
  · exact co k p hkp (Or.inr (hk ▸ h))

theorem callersOk_set {s : State} {k' : Nat} {q : CallerPh} (co : CallersOk s)
    (hq : (s.win = .none ∨ k' ≠ s.winK) → pendOrErr q) : CallersOk { s with callers := s.callers.set k' q } := by
  intro k p hkp h
  by_cases hkk : k' = k
  · subst hkk
    simp [List.getElem?_set] at hkp
    obtain ⟨_, rfl⟩ := hkp
    exact hq h
  · simp [List.getElem?_set_ne hkk] at hkp
    exact co k p hkp h

theorem step_callersOk (cfg : Cfg) {s s' : State} {a : Act} (inv : Inv s) (co : CallersOk s) (h : step cfg s a = some s') :
    CallersOk s' := by
  cases a <;> simp only [step] at h
  case shutCall =>
    simp at h; subst h
    intro k p hkp hw
    rcases Nat.lt_or_ge k s.callers.length with hlt | hge
    · simp [List.getElem?_append_left hlt] at hkp
      exact co k p hkp hw
    · rcases Nat.eq_or_lt_of_le hge with heq | hgt
      · subst heq; simp at hkp; subst hkp; trivial
      · simp [List.getElem?_eq_none (show (s.callers ++ [CallerPh.called]).length ≤ k by simp; omega)] at hkp
  case shutLoad k' =>
    obtain ⟨p0, p1, hk0, hf, rfl⟩ := updCaller_some h
    split at hf <;> simp at hf
    subst hf
    exact callersOk_set co (fun _ => by split <;> trivial)
  case callerRet k' e =>
    obtain ⟨p0, p1, hk0, hf, rfl⟩ := updCaller_some h
    split at hf <;> try (simp at hf; done)
    rename_i e'
    split at hf <;> simp at hf
    rename_i hee
    subst hf
    refine callersOk_set co (fun hw => ?_)
    have := co k' _ hk0 hw
    subst hee
    cases e' <;> simp_all [pendOrErr]
  case shutCas k' =>
    split at h <;> try (simp at h; done)
    split at h <;> (simp at h; subst h)
    · rename_i h2
      have hnone : s.win = .none := by
        cases hw : s.win <;> first | rfl | (have := inv.winSt (by simp [hw]); simp [h2, stRunning, stShutdown] at this)
      intro k p hkp hw
      simp at hw
      simp [List.getElem?_set_ne (Ne.symm hw)] at hkp
      exact co k p hkp (Or.inl hnone)
    · exact callersOk_set co (fun _ => trivial)
  case shutSpawn =>
    split at h <;> simp at h
    subst h; exact callersOk_winStep (s := s) rfl rfl (by simp) co
  case shutCloseLn =>
    split at h <;> simp at h
    subst h; exact callersOk_winStep (s := s) rfl rfl (by simp) co
  case shutTick1 =>
    split at h <;> try (simp at h; done)
    split at h <;> simp at h
    subst h; exact callersOk_winStep (s := s) rfl rfl (by simp only; split <;> simp) co
  case shutTickLoop =>
    split at h <;> try (simp at h; done)
    split at h <;> simp at h
    subst h
    refine callersOk_winStep (s := s) rfl rfl ?_ co
    simp only
    repeat' split
    all_goals simp
  case shutCtxDone =>
    split at h <;> try (simp at h; done)
    split at h <;> simp at h
    subst h; exact callersOk_winStep (s := s) rfl rfl (by simp) co
  case shutFinish =>
    split at h <;> try (simp at h; done)
    rename_i e hw
    split at h <;> simp at h
    subst h
    intro k p hkp hcond
    simp at hcond
    simp at hkp
    obtain ⟨q, hq, rfl⟩ := hkp
    have hq' := co k q hq (Or.inr hcond)
    cases q <;> simp_all [pendOrErr, winnerRet]
  case connGone c =>
    simp only [Option.map_eq_some_iff] at h
    obtain ⟨s1, h1, rfl⟩ := h
    obtain ⟨_, _, _, _, rfl⟩ := updConn_some h1
    exact callersOk_same (s := s) rfl rfl rfl co
  all_goals (repeat' split at h)
  all_goals first
    | (simp at h; done)
    | (obtain ⟨_, _, _, _, rfl⟩ := updConn_some h; exact callersOk_same (s := s) rfl rfl rfl co)
    | (obtain ⟨_, _, _, _, rfl⟩ := updHook_some h; exact callersOk_same (s := s) rfl rfl rfl co)
    | (simp at h; subst h; exact callersOk_same (s := s) rfl rfl rfl co)

theorem run_callersOk (cfg : Cfg) : ∀ (acts : List Act) {s s' : State}, Inv s → CallersOk s → run cfg s acts = some s' → CallersOk s'
  | [], s, s', _, co, h => by simp [run] at h; subst h; exact co
  | a :: t, s, s', inv, co, h => by
    simp only [run] at h
    split at h
    · simp at h
    · rename_i s1 h1
      exact run_callersOk cfg t (step_inv cfg inv h1) (step_callersOk cfg inv co h1) h

end Hertz.Shutdown
