import Hertz.Model.Http1.Exchange
/-!
Lemmas about the exchange-sequence model (`Hertz.H1.Exchange`), used by `Props/C11.lean`.
-/
namespace Hertz.H1.Exchange
open Hertz Hertz.H1 Hertz.H1.RespRead

/-- what `attempt` does once the bytes in front of the reader are known -/
theorem attempt_idle_of_not_ok (cfg : Cfg) (rq : Req) (sv : Srv) (c : Conn) (inPool : Bool)
    (h : (attempt cfg rq sv c inPool).2.isOk = false) : (attempt cfg rq sv c inPool).1 = none := by
  unfold attempt at h ⊢
  simp only at h ⊢
  split
  · split <;> rfl
  · rename_i b s hp
    simp only [hp] at h
    split
    · rfl
    · rename_i r hr
      simp only [hr] at h
      split
      · rfl
      · rename_i hcc
        simp [hcc, Outcome.isOk] at h

theorem exchange_idle_of_not_ok (cfg : Cfg) (st : St) (rq : Req) (sv : Srv)
    (h : (exchange cfg st rq sv).2.isOk = false) : (exchange cfg st rq sv).1.idle = none := by
  unfold exchange at h ⊢
  cases hi : st.idle with
  | none =>
    simp only [hi] at h ⊢
    exact attempt_idle_of_not_ok cfg rq sv {} false h
  | some c0 =>
    simp only [hi] at h ⊢
    split
    · rename_i x hb
      simp only [hb] at h
      by_cases hr : rq.retryable = true
      · simp only [hr, if_true] at h ⊢
        exact attempt_idle_of_not_ok cfg rq sv {} false h
      · simp [hr]
    · rename_i c o hne hb
      simp only [hb] at h ⊢
      have := attempt_idle_of_not_ok cfg rq sv c0 true (by rw [hb]; exact h)
      rw [hb] at this
      exact this

/-- on a connection without unread bytes whose peer is still there, the pooled attempt sees exactly the
bytes a new connection would see -/
theorem serve_clean (c : Conn) (sv : Srv) (hp : c.pending = []) (ha : c.peerClosed = false) :
    serve c sv = serve {} sv := by
  simp [serve, hp, ha]

/-- the two attempts differ only in how an immediate EOF is reported -/
theorem attempt_pool_irrelevant (cfg : Cfg) (rq : Req) (sv : Srv) (c : Conn)
    (h : (attempt cfg rq sv c true).2 ≠ .badPool) : attempt cfg rq sv c true = attempt cfg rq sv c false := by
  unfold attempt at h ⊢
  simp only at h ⊢
  split
  · rename_i hp
    simp only [hp] at h
    by_cases hc : (serve c sv).peerClosed = true
    · simp [hc] at h
    · simp [hc]
  · rfl

/-- the response bytes of an exchange are one message: reading them leaves nothing -/
def SelfDelimited (cfg : Cfg) (rq : Req) (sv : Srv) : Prop :=
  ∀ r, readResponseSkip rq.skipBody cfg.disableNorm cfg.maxBody (endOf (serve {} sv)) sv.resp = .ok r → r.rest = []

theorem attempt_fresh_clean (cfg : Cfg) (rq : Req) (sv : Srv) (inPool : Bool) (hs : SelfDelimited cfg rq sv) :
    ∀ c, (attempt cfg rq sv {} inPool).1 = some c → c.pending = [] := by
  intro c hc
  unfold attempt at hc
  simp only at hc
  split at hc
  · split at hc <;> simp at hc
  · rename_i b s hp
    have hp' : sv.resp = b :: s := by simpa [serve] using hp
    split at hc
    · simp at hc
    · rename_i r hr
      split at hc
      · simp at hc
      · simp only [Option.some.injEq] at hc
        rw [← hc]
        simp only
        apply hs r
        rw [hp']
        exact hr

theorem exchange_eq_alone (cfg : Cfg) (st : St) (rq : Req) (sv : Srv) (hc : Clean st)
    (h : rq.retryable = true ∨ (sv.resp ≠ [] ∧ ∀ c, st.idle = some c → c.peerClosed = false)) :
    (exchange cfg st rq sv).2 = alone cfg rq sv ∧
    (SelfDelimited cfg rq sv → Clean (exchange cfg st rq sv).1) := by
  unfold exchange alone
  cases hi : st.idle with
  | none =>
    refine ⟨rfl, ?_⟩
    intro hs c hcc
    exact attempt_fresh_clean cfg rq sv false hs c hcc
  | some c0 =>
    have hp0 : c0.pending = [] := hc c0 hi
    simp only
    by_cases hb : (attempt cfg rq sv c0 true).2 = .badPool
    · -- immediate EOF on the pooled connection
      have hbb : attempt cfg rq sv c0 true = ((attempt cfg rq sv c0 true).1, .badPool) := by
        rw [← hb]
      rw [hbb]
      simp only
      by_cases hr : rq.retryable = true
      · simp only [hr, if_true]
        refine ⟨by first | rfl | trivial, ?_⟩
        intro hs c hcc
        exact attempt_fresh_clean cfg rq sv false hs c hcc
      · -- not retryable: then the response is non-empty and the peer was there, so no immediate EOF
        rcases h with h | ⟨hne, hal⟩
        · exact absurd h hr
        · exfalso
          have ha := hal c0 hi
          unfold attempt at hb
          simp only [serve, hp0, ha, List.nil_append] at hb
          cases hresp : sv.resp with
          | nil => exact hne hresp
          | cons b s =>
            simp only [hresp] at hb
            split at hb
            · rename_i hq
              simp at hq
            · split at hb
              · simp at hb
              · split at hb <;> simp at hb
    · have heq := attempt_pool_irrelevant cfg rq sv c0 hb
      -- no badPool: the peer was there (a closed peer with nothing pending gives badPool)
      have ha : c0.peerClosed = false := by
        cases hpc : c0.peerClosed with
        | false => rfl
        | true =>
          exfalso; apply hb
          unfold attempt
          simp [serve, hpc, hp0]
      have hsv : attempt cfg rq sv c0 false = attempt cfg rq sv {} false := by
        unfold attempt
        rw [serve_clean c0 sv hp0 ha]
      split
      · rename_i x hbad
        rw [hbad] at hb
        exact absurd rfl hb
      · rename_i c o hne' hco
        rw [heq, hsv] at hco
        simp only [hco]
        refine ⟨by first | rfl | trivial, ?_⟩
        intro hs c' hcc
        apply attempt_fresh_clean cfg rq sv false hs c'
        rw [hco]
        exact hcc

theorem run_eq_alone (cfg : Cfg) : ∀ (xs : List (Req × Srv)) (st : St), Clean st →
    (∀ x ∈ xs, x.1.retryable = true ∧ SelfDelimited cfg x.1 x.2) →
    (run cfg st xs).map (·.2) = xs.map (fun x => alone cfg x.1 x.2)
  | [], _, _, _ => rfl
  | (rq, sv) :: t, st, hc, hx => by
    have hh := hx (rq, sv) (List.mem_cons_self ..)
    have h1 := exchange_eq_alone cfg st rq sv hc (Or.inl hh.1)
    simp only [run, List.map_cons]
    rw [h1.1, run_eq_alone cfg t _ (h1.2 hh.2) (fun x hm => hx x (List.mem_cons_of_mem _ hm))]

theorem clean_init : Clean {} := by
  intro c h; simp at h

end Hertz.H1.Exchange
