import Hertz.Model.Http1.Exchange
/-!
Lemmas about the exchange-sequence model (`Hertz.H1.Exchange`), used by `Props/C11.lean`.
-/
namespace Hertz.H1.Exchange
open Hertz Hertz.H1 Hertz.H1.RespRead

/-- what `attempt` does once the bytes in front of the reader are known -/
theorem attempt_idle_of_not_ok (cfg : Cfg) (rq : Req) (sv : Srv) (c : Conn) (inPool : Bool)
    (h : (attempt cfg rq sv c inPool).2.isOk = false) : (attempt cfg rq sv c inPool).1 = none := by
  unfold attempt at h ⊢
  simp only at h ⊢
  split
  · split <;> rfl
  · rename_i b s hp
    simp only [hp] at h
    split
    · rfl
    · rename_i r hr
      simp only [hr] at h
      split
      · rfl
      · rename_i hcc
        simp [hcc, Outcome.isOk] at h

theorem exchange_idle_of_not_ok (cfg : Cfg) (st : St) (rq : Req) (sv : Srv)
    (h : (exchange cfg st rq sv).2.isOk = false) : (exchange cfg st rq sv).1.idle = none := by
  unfold exchange at h ⊢
  cases hi : st.idle with
  | none =>
    simp only [hi] at h ⊢
    exact attempt_idle_of_not_ok cfg rq sv {} false h
  | some c0 =>
    simp only [hi] at h ⊢
    split
    · rename_i x hb
      simp only [hb] at h
      by_cases hr : rq.retryable = true
      · simp only [hr, if_true] at h ⊢
        exact attempt_idle_of_not_ok cfg rq sv {} false h
      · simp [hr]
    · rename_i c o hne hb
      simp only [hb] at h ⊢
      have := attempt_idle_of_not_ok cfg rq sv c0 true (by rw [hb]; exact h)
      rw [hb] at this
      exact this

/-- on a connection without unread bytes whose peer is still there, the pooled attempt sees exactly the
bytes a new connection would see -/
theorem serve_clean (c : Conn) (sv : Srv) (hp : c.pending = []) (ha : c.peerClosed = false) :
    serve c sv = serve {} sv := by
  simp [serve, hp, ha]

/-- the two attempts differ only in how an immediate EOF is reported -/
theorem attempt_pool_irrelevant (cfg : Cfg) (rq : Req) (sv : Srv) (c : Conn)
    (h : (attempt cfg rq sv c true).2 ≠ .badPool) : attempt cfg rq sv c true = attempt cfg rq sv c false := by
  unfold attempt at h ⊢
  simp only at h ⊢
  split
  · rename_i hp
    simp only [hp] at h
    by_cases hc : (serve c sv).peerClosed = true
    · simp [hc] at h
    · simp [hc]
  · rfl

/-- a skipped body that is no body (bodiless status, or `Content-Length: 0`): skipping leaves what reading leaves -/
theorem skip_rest_eq (dn : Bool) (maxBody : Nat) (e : End) (s : Bytes) (r : Result)
    (h : readResponseSkip true dn maxBody e s = .ok r)
    (hb : mustSkipCL r.head.status = true ∨ r.head.cl = 0) :
    ∃ r', readResponseSkip false dn maxBody e s = .ok r' ∧ r'.rest = r.rest := by
  unfold readResponseSkip at h ⊢
  cases hh : readHeaders dn e s with
  | error x => simp [hh] at h
  | ok p =>
    obtain ⟨hd, s1⟩ := p
    simp only [hh, if_true, Except.ok.injEq] at h
    subst h
    simp only at hb ⊢
    simp only [Bool.false_eq_true, if_false]
    unfold readBodyPart
    simp only
    rcases hb with hb | hb
    · simp [hb]
    · by_cases hm : mustSkipCL hd.status = true
      · simp [hm]
      · simp only [hm, if_false, hb]
        simp [takeBody, takeN]

/-- the response bytes of an exchange are one message: reading them (as the client does when the application has
not asked to skip the body) leaves nothing -/
def SelfDelimited (cfg : Cfg) (rq : Req) (sv : Srv) : Prop :=
  ∀ r, readResponseSkip rq.skipBody cfg.disableNorm cfg.maxBody (endOf (serve {} sv)) sv.resp = .ok r → r.rest = []

theorem attempt_fresh_clean (cfg : Cfg) (rq : Req) (sv : Srv) (inPool : Bool) (hs : SelfDelimited cfg rq sv) :
    ∀ c, (attempt cfg rq sv {} inPool).1 = some c → c.pending = [] := by
  intro c hc
  unfold attempt at hc
  simp only at hc
  split at hc
  · split at hc <;> simp at hc
  · rename_i b s hp
    have hp' : sv.resp = b :: s := by simpa [serve] using hp
    split at hc
    · simp at hc
    · rename_i r hr
      split at hc
      · simp at hc
      · rename_i hcl
        simp only [Option.some.injEq] at hc
        rw [← hc]
        simp only
        rw [← hp'] at hr
        cases ha : rq.appSkip with
        | false =>
          rw [ha, Bool.or_false] at hr
          exact hs r hr
        | true =>
          cases hk : rq.skipBody with
          | true =>
            rw [hk, Bool.true_or] at hr
            unfold SelfDelimited at hs
            rw [hk] at hs
            exact hs r hr
          | false =>
            rw [hk, ha] at hr
            -- pooled although the application skipped the body: there was no body
            have hnb : mustSkipCL r.head.status = true ∨ r.head.cl = 0 := by
              simp only [bodyUnread, ha, hk, Bool.not_false, Bool.true_and, Bool.or_eq_true, not_or,
                Bool.and_eq_true, Bool.not_eq_true', bne_iff_ne, ne_eq, not_and, Bool.not_eq_false,
                Decidable.not_not] at hcl
              by_cases hm : mustSkipCL r.head.status = true
              · exact Or.inl hm
              · exact Or.inr (hcl.2 (by simpa using hm))
            have hr2 : readResponseSkip true cfg.disableNorm cfg.maxBody (endOf (serve {} sv)) sv.resp = .ok r := hr
            obtain ⟨r', hr', hrest⟩ := skip_rest_eq _ _ _ _ r hr2 hnb
            unfold SelfDelimited at hs
            rw [hk] at hs
            rw [← hrest]
            exact hs r' hr'

theorem exchange_eq_alone (cfg : Cfg) (st : St) (rq : Req) (sv : Srv) (hc : Clean st)
    (h : rq.retryable = true ∨ (sv.resp ≠ [] ∧ ∀ c, st.idle = some c → c.peerClosed = false)) :
    (exchange cfg st rq sv).2 = alone cfg rq sv ∧
    (SelfDelimited cfg rq sv → Clean (exchange cfg st rq sv).1) := by
  unfold exchange alone
  cases hi : st.idle with
  | none =>
    refine ⟨rfl, ?_⟩
    intro hs c hcc
    exact attempt_fresh_clean cfg rq sv false hs c hcc
  | some c0 =>
    have hp0 : c0.pending = [] := hc c0 hi
    simp only
    by_cases hb : (attempt cfg rq sv c0 true).2 = .badPool
    · -- immediate EOF on the pooled connection
      have hbb : attempt cfg rq sv c0 true = ((attempt cfg rq sv c0 true).1, .badPool) := by
        rw [← hb]
      rw [hbb]
      simp only
      by_cases hr : rq.retryable = true
      · simp only [hr, if_true]
        refine ⟨by first | rfl | trivial, ?_⟩
        intro hs c hcc
        exact attempt_fresh_clean cfg rq sv false hs c hcc
      · -- not retryable: then the response is non-empty and the peer was there, so no immediate EOF
        rcases h with h | ⟨hne, hal⟩
        · exact absurd h hr
        · exfalso
          have ha := hal c0 hi
          unfold attempt at hb
          simp only [serve, hp0, ha, List.nil_append] at hb
          cases hresp : sv.resp with
          | nil => exact hne hresp
          | cons b s =>
            simp only [hresp] at hb
            split at hb
            · rename_i hq
              simp at hq
            · split at hb
              · simp at hb
              · split at hb <;> simp at hb
    · have heq := attempt_pool_irrelevant cfg rq sv c0 hb
      -- no badPool: the peer was there (a closed peer with nothing pending gives badPool)
      have ha : c0.peerClosed = false := by
        cases hpc : c0.peerClosed with
        | false => rfl
        | true =>
          exfalso; apply hb
          unfold attempt
          simp [serve, hpc, hp0]
      have hsv : attempt cfg rq sv c0 false = attempt cfg rq sv {} false := by
        unfold attempt
        rw [serve_clean c0 sv hp0 ha]
      split
      · rename_i x hbad
        rw [hbad] at hb
        exact absurd rfl hb
      · rename_i c o hne' hco
        rw [heq, hsv] at hco
        simp only [hco]
        refine ⟨by first | rfl | trivial, ?_⟩
        intro hs c' hcc
        apply attempt_fresh_clean cfg rq sv false hs c'
        rw [hco]
        exact hcc

/-- a response whose body the application had skipped never takes its connection back to the pool -/
theorem attempt_unread_closes (cfg : Cfg) (rq : Req) (sv : Srv) (c : Conn) (inPool : Bool) (r : Result)
    (h : (attempt cfg rq sv c inPool).2 = .ok r) (hb : bodyUnread rq r.head = true) :
    (attempt cfg rq sv c inPool).1 = none := by
  unfold attempt at h ⊢
  simp only at h ⊢
  split
  · split <;> rfl
  · rename_i b s hp
    simp only [hp] at h
    split
    · rfl
    · rename_i r0 hr
      simp only [hr] at h
      split
      · rfl
      · rename_i hcc
        have h' : r0 = r := by
          split at h <;> simpa using h
        subst h'
        simp [hb] at hcc

theorem run_eq_alone (cfg : Cfg) : ∀ (xs : List (Req × Srv)) (st : St), Clean st →
    (∀ x ∈ xs, x.1.retryable = true ∧ SelfDelimited cfg x.1 x.2) →
    (run cfg st xs).map (·.2) = xs.map (fun x => alone cfg x.1 x.2)
  | [], _, _, _ => rfl
  | (rq, sv) :: t, st, hc, hx => by
    have hh := hx (rq, sv) (List.mem_cons_self ..)
    have h1 := exchange_eq_alone cfg st rq sv hc (Or.inl hh.1)
    simp only [run, List.map_cons]
    rw [h1.1, run_eq_alone cfg t _ (h1.2 hh.2) (fun x hm => hx x (List.mem_cons_of_mem _ hm))]

/-- after `Do`, whatever the passes were (one or two, returning a response or failing), `resp.SkipBody` is what `Do`
found, i.e. what the application set -/
theorem skipAfterDo_eq (cfg : Cfg) (st : St) (rq : Req) (sv : Srv) : skipAfterDo cfg st rq sv = rq.appSkip := by
  unfold skipAfterDo
  cases st.idle with
  | none => rfl
  | some c0 =>
    simp only [skipAfterPass]
    split <;> rfl

/-- one Response object for a whole sequence: each call finds exactly what the application has set so far - never
a mark of the client, whatever the methods (HEAD included), the outcomes and the retries were -/
theorem foundFlags_eq (cfg : Cfg) : ∀ (xs : List (Bool × Req × Srv)) (st : St) (flag : Bool),
    foundFlags cfg st flag xs = setSoFar flag (xs.map (·.1))
  | [], _, _ => rfl
  | (set, rq, sv) :: t, st, flag => by
    simp only [foundFlags, List.map_cons, setSoFar]
    rw [skipAfterDo_eq, foundFlags_eq cfg t]

theorem clean_init : Clean {} := by
  intro c h; simp at h

end Hertz.H1.Exchange
