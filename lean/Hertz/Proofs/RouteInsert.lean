import Hertz.Proofs.RouteDefs
/-!
`insert` (model of `router.insert`) against the denotation `routes` / `bounds` and the invariants
`WF` / `PnOK` of `RouteDefs`.
-/
namespace Hertz.Route

/-! ## lcpLen -/

theorem lcpLen_le_left : ∀ (s p : Bytes), lcpLen s p ≤ s.length
  | [], _ => by simp [lcpLen]
  | _ :: _, [] => by simp [lcpLen]
  | a :: s, b :: p => by
    simp only [lcpLen]; split
    · have := lcpLen_le_left s p; simp; omega
    · simp

theorem lcpLen_le_right : ∀ (s p : Bytes), lcpLen s p ≤ p.length
  | [], _ => by simp [lcpLen]
  | _ :: _, [] => by simp [lcpLen]
  | a :: s, b :: p => by
    simp only [lcpLen]; split
    · have := lcpLen_le_right s p; simp; omega
    · simp

theorem lcpLen_take : ∀ (s p : Bytes), s.take (lcpLen s p) = p.take (lcpLen s p)
  | [], _ => by simp [lcpLen]
  | _ :: _, [] => by simp [lcpLen]
  | a :: s, b :: p => by
    simp only [lcpLen]; split
    · rename_i h; subst h; simp [lcpLen_take s p]
    · simp

theorem lcpLen_append : ∀ (p x : Bytes), lcpLen (p ++ x) p = p.length
  | [], x => by cases x <;> simp [lcpLen]
  | a :: p, x => by simp [lcpLen, lcpLen_append p x]

theorem lcpLen_differ : ∀ (s p : Bytes), lcpLen s p < s.length → lcpLen s p < p.length →
    (s.drop (lcpLen s p)).headD 0 ≠ (p.drop (lcpLen s p)).headD 0
  | [], _ => by simp [lcpLen]
  | _ :: _, [] => by simp [lcpLen]
  | a :: s, b :: p => by
    simp only [lcpLen]; split
    · intro h1 h2
      simp only [List.length_cons, Nat.add_lt_add_iff_right] at h1 h2
      simpa using lcpLen_differ s p h1 h2
    · intro _ _; simpa

theorem lcpLen_pos (s p : Bytes) (hp : p ≠ []) (hh : s.head? = p.head?) : lcpLen s p ≠ 0 := by
  cases p with
  | nil => exact absurd rfl hp
  | cons b p =>
    cases s with
    | nil => simp at hh
    | cons a s => simp at hh; simp [lcpLen, hh]

theorem eq_append_of_lcpLen (s p : Bytes) (h : lcpLen s p = p.length) : s = p ++ s.drop p.length := by
  have := lcpLen_take s p
  rw [h, List.take_length] at this
  conv => lhs; rw [← List.take_append_drop p.length s]
  rw [this]

/-! ## unfolding the denotation -/

def hsPart (hs : Option Nat) (ppath : Bytes) (pnames : List Bytes) : List (Bytes × Val) :=
  match hs with | some h => [(([] : Bytes), Val.mk h ppath pnames)] | none => []

def pref (p : Bytes) (kv : Bytes × Val) : Bytes × Val := (p ++ kv.1, kv.2)

theorem routes_mk (kind label pfx cs ppath pnames hs pc ac) :
    routes (.mk kind label pfx cs ppath pnames hs pc ac) =
      (hsPart hs ppath pnames ++ routesL cs ++ routesO pc ++ routesO ac).map (pref pfx) := by
  unfold routes; rfl

theorem bounds_mk (kind label pfx cs ppath pnames hs pc ac) :
    bounds (.mk kind label pfx cs ppath pnames hs pc ac) =
      (([] : Bytes) :: (boundsL cs ++ boundsO pc ++ boundsO ac)).map (fun k => pfx ++ k) := by
  unfold bounds; rfl

theorem WF_mk (kind label pfx cs ppath pnames hs pc ac pos) :
    WF (.mk kind label pfx cs ppath pnames hs pc ac) pos ↔
    (kind = pos ∧ label = pfx.headD 0 ∧
    (match pos with
      | .skind => pfx ≠ [] ∧ Lit pfx
      | .pkind => pfx = [58]
      | .akind => pfx = [42] ∧ cs = [] ∧ pc = none ∧ ac = none ∧ hs.isSome = true) ∧
    WFL cs ∧ (cs.map Node.label).Nodup ∧ WFO pc .pkind ∧ WFO ac .akind) := by
  unfold WF; exact Iff.rfl

theorem PnOK_mk (kind label pfx cs ppath pnames hs pc ac j cap) :
    PnOK (.mk kind label pfx cs ppath pnames hs pc ac) j cap ↔
    (depthAt kind j ≤ cap ∧ (hs.isSome = true → pnames.length = depthAt kind j) ∧
    PnOKL cs (depthAt kind j) cap ∧ PnOKO pc (depthAt kind j) cap ∧ PnOKO ac (depthAt kind j) cap) := by
  unfold PnOK; exact Iff.rfl

theorem routesL_append : ∀ (a b : List Node), routesL (a ++ b) = routesL a ++ routesL b
  | [], b => by simp [routesL]
  | c :: a, b => by simp [routesL, routesL_append a b]

theorem boundsL_append : ∀ (a b : List Node), boundsL (a ++ b) = boundsL a ++ boundsL b
  | [], b => by simp [boundsL]
  | c :: a, b => by simp [boundsL, boundsL_append a b]

theorem WFL_append : ∀ (a b : List Node), WFL (a ++ b) ↔ WFL a ∧ WFL b
  | [], b => by simp [WFL]
  | c :: a, b => by simp [WFL, WFL_append a b, and_assoc]

theorem PnOKL_append : ∀ (a b : List Node) j cap, PnOKL (a ++ b) j cap ↔ PnOKL a j cap ∧ PnOKL b j cap
  | [], b, j, cap => by simp [PnOKL]
  | c :: a, b, j, cap => by simp [PnOKL, PnOKL_append a b, and_assoc]

theorem mem_boundsL : ∀ (cs : List Node) (k : Bytes), k ∈ boundsL cs → ∃ c, c ∈ cs ∧ k ∈ bounds c
  | [], k => by simp [boundsL]
  | c :: r, k => by
    simp only [boundsL, List.mem_append]
    rintro (h | h)
    · exact ⟨c, by simp, h⟩
    · obtain ⟨c', h1, h2⟩ := mem_boundsL r k h
      exact ⟨c', by simp [h1], h2⟩

theorem WFL_mem : ∀ (cs : List Node) (c : Node), WFL cs → c ∈ cs → WF c .skind
  | [], c => by simp
  | c' :: r, c => by
    simp only [WFL, List.mem_cons]
    rintro ⟨h1, h2⟩ (h | h)
    · exact h ▸ h1
    · exact WFL_mem r c h2 h

/-- a well-formed node has a nonempty prefix that starts with its label -/
theorem WF_pfx (n : Node) (pos : Kind) (h : WF n pos) : n.pfx.head? = some n.label := by
  cases n with
  | mk kind label pfx cs ppath pnames hs pc ac =>
    rw [WF_mk] at h
    obtain ⟨-, hl, hp, -⟩ := h
    simp only [Node.pfx, Node.label]
    cases pos
    · cases pfx with
      | nil => exact absurd rfl hp.1
      | cons a p => simp [hl]
    · simp at hp; simp [hl, hp]
    · simp at hp; simp [hl, hp.1]

theorem WF_label (n : Node) (pos : Kind) (h : WF n pos) :
    match pos with
    | .skind => n.label ≠ 58 ∧ n.label ≠ 42
    | .pkind => n.label = 58
    | .akind => n.label = 42 := by
  cases n with
  | mk kind label pfx cs ppath pnames hs pc ac =>
    rw [WF_mk] at h
    obtain ⟨-, hl, hp, -⟩ := h
    simp only [Node.label]
    cases pos
    · cases pfx with
      | nil => exact absurd rfl hp.1
      | cons a p => simp at hl; subst hl; exact hp.2 _ (by simp)
    · simp at hp; simp [hl, hp]
    · simp at hp; simp [hl, hp.1]

theorem bounds_head (n : Node) (pos : Kind) (h : WF n pos) (k : Bytes) (hk : k ∈ bounds n) :
    k.head? = some n.label := by
  have := WF_pfx n pos h
  cases n with
  | mk kind label pfx cs ppath pnames hs pc ac =>
    rw [bounds_mk] at hk
    simp only [Node.pfx, Node.label] at this ⊢
    obtain ⟨x, -, rfl⟩ := List.mem_map.1 hk
    cases pfx with
    | nil => simp at this
    | cons a p => simpa using this

def keys (R : List (Bytes × Val)) : List Bytes := R.map (·.1)

mutual
theorem keys_sub_bounds : (n : Node) → ∀ k, k ∈ keys (routes n) → k ∈ bounds n
  | .mk kind label pfx cs ppath pnames hs pc ac => by
    intro k hk
    rw [routes_mk] at hk
    rw [bounds_mk]
    simp only [keys, List.map_map, List.mem_map, List.mem_append, Function.comp, pref] at hk
    obtain ⟨kv, hkv, rfl⟩ := hk
    apply List.mem_map.2
    refine ⟨kv.1, ?_, rfl⟩
    simp only [List.mem_cons, List.mem_append]
    rcases hkv with ((h | h) | h) | h
    · left; cases hs <;> simp [hsPart] at h; rw [h]
    · right; left; left; exact keys_sub_boundsL cs _ (List.mem_map.2 ⟨kv, h, rfl⟩)
    · right; left; right; exact keys_sub_boundsO pc _ (List.mem_map.2 ⟨kv, h, rfl⟩)
    · right; right; exact keys_sub_boundsO ac _ (List.mem_map.2 ⟨kv, h, rfl⟩)
theorem keys_sub_boundsL : (l : List Node) → ∀ k, k ∈ keys (routesL l) → k ∈ boundsL l
  | [] => by simp [routesL, keys]
  | c :: r => by
    intro k hk
    simp only [routesL, keys, List.map_append, List.mem_append] at hk
    simp only [boundsL, List.mem_append]
    rcases hk with h | h
    · left; exact keys_sub_bounds c k h
    · right; exact keys_sub_boundsL r k h
theorem keys_sub_boundsO : (o : Option Node) → ∀ k, k ∈ keys (routesO o) → k ∈ boundsO o
  | none => by simp [routesO, keys]
  | some c => by
    intro k hk
    simp only [routesO] at hk
    simp only [boundsO]
    exact keys_sub_bounds c k hk
end

/-! ## the branches of `insert` as equations -/

theorem insert_split (kind label pfx cs ppath pnames hs pc ac) (search : Bytes) (h t pp pn)
    (hl0 : lcpLen search pfx ≠ 0) (hlt : lcpLen search pfx < pfx.length) :
    Route.insert (.mk kind label pfx cs ppath pnames hs pc ac) search h t pp pn =
      if lcpLen search pfx = search.length then
        .ok (.mk t (pfx.headD 0) (pfx.take (lcpLen search pfx))
          [.mk kind ((pfx.drop (lcpLen search pfx)).headD 0) (pfx.drop (lcpLen search pfx)) cs ppath pnames hs pc ac]
          pp pn h none none)
      else
        .ok (.mk .skind (pfx.headD 0) (pfx.take (lcpLen search pfx))
          [.mk kind ((pfx.drop (lcpLen search pfx)).headD 0) (pfx.drop (lcpLen search pfx)) cs ppath pnames hs pc ac,
           .mk t ((search.drop (lcpLen search pfx)).headD 0) (search.drop (lcpLen search pfx)) [] pp pn h none none]
          [] [] none none none) := by
  unfold Route.insert
  simp only [hl0, hlt, if_true, if_false]

theorem insert_exists (kind label pfx cs ppath pnames hs pc ac) (h t pp pn) (hp : pfx ≠ []) :
    Route.insert (.mk kind label pfx cs ppath pnames hs pc ac) pfx h t pp pn =
      if hs.isSome && h.isSome then .error .conflict
      else match h with
        | some _ => .ok (.mk kind label pfx cs pp pn h pc ac)
        | none => .ok (.mk kind label pfx cs ppath pnames hs pc ac) := by
  have h1 : lcpLen pfx pfx = pfx.length := by simpa using lcpLen_append pfx []
  have h2 : pfx.length ≠ 0 := by simpa using hp
  unfold Route.insert
  simp only [h1, h2, Nat.lt_irrefl, if_false]
  rfl

theorem insert_descend (kind label pfx cs ppath pnames hs pc ac) (c0 : UInt8) (s' : Bytes) (h t pp pn) (hp : pfx ≠ []) :
    Route.insert (.mk kind label pfx cs ppath pnames hs pc ac) (pfx ++ c0 :: s') h t pp pn =
      match insertL cs c0 (c0 :: s') h t pp pn with
        | .error e => .error e
        | .ok (some cs') => .ok (.mk kind label pfx cs' ppath pnames hs pc ac)
        | .ok none =>
          if c0 = paramLabel && pc.isSome then
            match insertO pc (c0 :: s') h t pp pn with
            | .error e => .error e
            | .ok pc' => .ok (.mk kind label pfx cs ppath pnames hs pc' ac)
          else if c0 ≠ paramLabel && c0 = anyLabel && ac.isSome then
            match insertO ac (c0 :: s') h t pp pn with
            | .error e => .error e
            | .ok ac' => .ok (.mk kind label pfx cs ppath pnames hs pc ac')
          else
            match t with
            | .skind => .ok (.mk kind label pfx (cs ++ [.mk t c0 (c0 :: s') [] pp pn h none none]) ppath pnames hs pc ac)
            | .pkind => .ok (.mk kind label pfx cs ppath pnames hs (some (.mk t c0 (c0 :: s') [] pp pn h none none)) ac)
            | .akind => .ok (.mk kind label pfx cs ppath pnames hs pc (some (.mk t c0 (c0 :: s') [] pp pn h none none))) := by
  have h1 : lcpLen (pfx ++ c0 :: s') pfx = pfx.length := lcpLen_append pfx _
  have h2 : pfx.length ≠ 0 := by simpa using hp
  unfold Route.insert
  simp only [h1, h2, Nat.lt_irrefl, if_false, List.length_append, List.length_cons,
    List.drop_left, Nat.lt_add_right_iff_pos, Nat.succ_pos, if_true]
  rfl

/-! ## the precondition, relative to a node in any position -/

/-- what follows the last wildcard node boundary in the key that is inserted with kind `t` -/
def Rest : Kind → Bytes → Prop
  | .skind, r => Lit r
  | .pkind, r => r = [58]
  | .akind, r => r = [42]

/-- `search` continues a boundary `k` out of `B` (or starts here: `k = []`) -/
def Cont (B : List Bytes) (search : Bytes) (t : Kind) : Prop :=
  ∃ k rest, search = k ++ rest ∧ Rest t rest ∧ (k = [] ∨ (k ∈ B ∧ (42 : UInt8) ∉ k))

/-- precondition of `insert` at an inner node: `search` starts with the node's label -/
def Pre (n : Node) (search : Bytes) (t : Kind) : Prop :=
  search.head? = n.pfx.head? ∧ Cont (bounds n) search t

theorem Lit_append {a b : Bytes} : Lit (a ++ b) ↔ Lit a ∧ Lit b := by
  simp only [Lit, List.mem_append]
  constructor
  · intro h; exact ⟨fun c hc => h c (Or.inl hc), fun c hc => h c (Or.inr hc)⟩
  · rintro ⟨h1, h2⟩ c (hc | hc)
    · exact h1 c hc
    · exact h2 c hc

theorem Lit_take {a : Bytes} (n : Nat) (h : Lit a) : Lit (a.take n) := by
  rw [← List.take_append_drop n a] at h; exact (Lit_append.1 h).1

theorem Lit_drop {a : Bytes} (n : Nat) (h : Lit a) : Lit (a.drop n) := by
  rw [← List.take_append_drop n a] at h; exact (Lit_append.1 h).2

theorem head_of_append {k rest s' : Bytes} {c0 a : UInt8} (hk : k.head? = some a) (h : c0 :: s' = k ++ rest) :
    c0 = a := by
  cases k with
  | nil => simp at hk
  | cons x k => simp at hk h; rw [h.1, hk]

/-- split only happens for literal keys -/
theorem cont_split (kind label pfx cs ppath pnames hs pc ac) (search : Bytes) (t : Kind)
    (hc : Cont (bounds (.mk kind label pfx cs ppath pnames hs pc ac)) search t)
    (hhd : search.head? = pfx.head?) (hlit : Lit pfx) (hne : pfx ≠ [])
    (hlt : lcpLen search pfx < pfx.length) : t = .skind ∧ Lit search := by
  obtain ⟨k, rest, rfl, hr, hk⟩ := hc
  rcases hk with rfl | ⟨hk, -⟩
  · cases pfx with
    | nil => exact absurd rfl hne
    | cons a p =>
      have ha := hlit a (by simp)
      cases t
      · exact ⟨rfl, by simpa [Rest] using hr⟩
      · simp only [Rest] at hr; subst hr; simp at hhd; exact absurd hhd.symm ha.1
      · simp only [Rest] at hr; subst hr; simp at hhd; exact absurd hhd.symm ha.2
  · rw [bounds_mk] at hk
    obtain ⟨x, -, rfl⟩ := List.mem_map.1 hk
    rw [List.append_assoc, lcpLen_append] at hlt
    exact absurd hlt (Nat.lt_irrefl _)

/-- going below a node -/
theorem cont_descend (kind label pfx cs ppath pnames hs pc ac) (s2 : Bytes) (t : Kind)
    (hc : Cont (bounds (.mk kind label pfx cs ppath pnames hs pc ac)) (pfx ++ s2) t)
    (hne : pfx ≠ []) (h2 : s2 ≠ []) : Cont (boundsL cs ++ boundsO pc ++ boundsO ac) s2 t := by
  obtain ⟨k, rest, he, hr, hk⟩ := hc
  rcases hk with rfl | ⟨hk, h42⟩
  · simp only [List.nil_append] at he
    subst he
    have hlen : 2 ≤ (pfx ++ s2).length := by
      cases pfx with
      | nil => exact absurd rfl hne
      | cons a p => cases s2 with
        | nil => exact absurd rfl h2
        | cons b q => simp; omega
    cases t
    · exact ⟨[], s2, rfl, (Lit_append.1 hr).2, Or.inl rfl⟩
    · simp only [Rest] at hr; rw [hr] at hlen; simp at hlen
    · simp only [Rest] at hr; rw [hr] at hlen; simp at hlen
  · rw [bounds_mk] at hk
    obtain ⟨x, hx, rfl⟩ := List.mem_map.1 hk
    rw [List.append_assoc] at he
    have he' := List.append_cancel_left he
    refine ⟨x, rest, he', hr, ?_⟩
    rcases List.mem_cons.1 hx with rfl | hx
    · exact Or.inl rfl
    · exact Or.inr ⟨hx, fun h => h42 (List.mem_append_right _ h)⟩

theorem nodup_label_inj : ∀ (cs : List Node), (cs.map Node.label).Nodup → ∀ a b, a ∈ cs → b ∈ cs →
    a.label = b.label → a = b
  | [], _ => by simp
  | c :: r, hnd => by
    simp only [List.map_cons, List.nodup_cons, List.mem_map, not_exists, not_and] at hnd
    intro a b ha hb hl
    rcases List.mem_cons.1 ha with ha1 | ha1 <;> rcases List.mem_cons.1 hb with hb1 | hb1
    · rw [ha1, hb1]
    · subst ha1; exact absurd hl.symm (hnd.1 b hb1)
    · subst hb1; exact absurd hl (hnd.1 a ha1)
    · exact nodup_label_inj r hnd.2 a b ha1 hb1 hl

section children
set_option linter.unusedSectionVars false
variable {cs : List Node} {pc ac : Option Node} {c0 : UInt8} {s' : Bytes} {t : Kind}
  (hcs : WFL cs) (hnd : (cs.map Node.label).Nodup) (hpc : WFO pc .pkind) (hac : WFO ac .akind)
  (hc : Cont (boundsL cs ++ boundsO pc ++ boundsO ac) (c0 :: s') t)
include hcs hnd hpc hac hc

theorem pre_static (c : Node) (hm : c ∈ cs) (hl : c.label = c0) : Pre c (c0 :: s') t := by
  have hwc := WFL_mem cs c hcs hm
  refine ⟨by rw [WF_pfx c _ hwc, hl]; rfl, ?_⟩
  obtain ⟨k, rest, he, hr, hk⟩ := hc
  rcases hk with rfl | ⟨hk, h42⟩
  · exact ⟨[], rest, he, hr, Or.inl rfl⟩
  · refine ⟨k, rest, he, hr, Or.inr ⟨?_, h42⟩⟩
    simp only [List.mem_append] at hk
    rcases hk with (hk | hk) | hk
    · obtain ⟨c', hm', hk'⟩ := mem_boundsL cs k hk
      have h1 := bounds_head c' _ (WFL_mem cs c' hcs hm') k hk'
      have h2 := head_of_append h1 he
      have : c' = c := nodup_label_inj cs hnd c' c hm' hm (by rw [hl, h2])
      exact this ▸ hk'
    · cases pc with
      | none => simp [boundsO] at hk
      | some p =>
        simp only [boundsO] at hk; simp only [WFO] at hpc
        have h1 := bounds_head p _ hpc k hk
        have h2 := head_of_append h1 he
        have h3 := WF_label p _ hpc
        have h4 := WF_label c _ hwc
        simp only at h3 h4
        rw [hl, h2, h3] at h4; exact absurd rfl h4.1
    · cases ac with
      | none => simp [boundsO] at hk
      | some p =>
        simp only [boundsO] at hk; simp only [WFO] at hac
        have h1 := bounds_head p _ hac k hk
        have h2 := head_of_append h1 he
        have h3 := WF_label p _ hac
        have h4 := WF_label c _ hwc
        simp only at h3 h4
        rw [hl, h2, h3] at h4; exact absurd rfl h4.2

theorem pre_param (c : Node) (hm : pc = some c) (hl : c0 = 58) : Pre c (c0 :: s') t := by
  subst hm
  simp only [WFO] at hpc
  have h3 := WF_label c _ hpc
  simp only at h3
  refine ⟨by rw [WF_pfx c _ hpc, hl, h3]; rfl, ?_⟩
  obtain ⟨k, rest, he, hr, hk⟩ := hc
  rcases hk with rfl | ⟨hk, h42⟩
  · exact ⟨[], rest, he, hr, Or.inl rfl⟩
  · refine ⟨k, rest, he, hr, Or.inr ⟨?_, h42⟩⟩
    simp only [List.mem_append] at hk
    rcases hk with (hk | hk) | hk
    · obtain ⟨c', hm', hk'⟩ := mem_boundsL cs k hk
      have hw' := WFL_mem cs c' hcs hm'
      have h1 := bounds_head c' _ hw' k hk'
      have h2 := head_of_append h1 he
      have h4 := WF_label c' _ hw'
      simp only at h4
      rw [← h2, hl] at h4; exact absurd rfl h4.1
    · exact hk
    · cases ac with
      | none => simp [boundsO] at hk
      | some p =>
        simp only [boundsO] at hk; simp only [WFO] at hac
        have h1 := bounds_head p _ hac k hk
        have h2 := head_of_append h1 he
        have h5 := WF_label p _ hac
        simp only at h5
        rw [h5] at h2; rw [hl] at h2; exact absurd h2 (by decide)

theorem pre_any (c : Node) (hm : ac = some c) (hl : c0 = 42) : Pre c (c0 :: s') t := by
  subst hm
  simp only [WFO] at hac
  have h3 := WF_label c _ hac
  simp only at h3
  refine ⟨by rw [WF_pfx c _ hac, hl, h3]; rfl, ?_⟩
  obtain ⟨k, rest, he, hr, hk⟩ := hc
  rcases hk with rfl | ⟨hk, h42⟩
  · exact ⟨[], rest, he, hr, Or.inl rfl⟩
  · exfalso
    cases k with
    | nil => 
      simp only [List.mem_append] at hk
      rcases hk with (hk | hk) | hk
      · obtain ⟨c', hm', hk'⟩ := mem_boundsL cs [] hk
        have := bounds_head c' _ (WFL_mem cs c' hcs hm') [] hk'
        simp at this
      · cases pc with
        | none => simp [boundsO] at hk
        | some p =>
          simp only [boundsO] at hk; simp only [WFO] at hpc
          have := bounds_head p _ hpc [] hk
          simp at this
      · simp only [boundsO] at hk
        have := bounds_head c _ hac [] hk
        simp at this
    | cons x k =>
      simp at he
      rw [← he.1, hl] at h42
      exact h42 (by simp)

/-- no child carries the next byte: the rest of the key is the part after the last boundary -/
theorem rest_create (h1 : ∀ c ∈ cs, c.label ≠ c0) (h2 : ¬ (c0 = 58 ∧ pc.isSome = true))
    (h3 : ¬ (c0 = 42 ∧ ac.isSome = true)) : Rest t (c0 :: s') := by
  obtain ⟨k, rest, he, hr, hk⟩ := hc
  rcases hk with rfl | ⟨hk, h42⟩
  · simpa [he] using hr
  · exfalso
    simp only [List.mem_append] at hk
    rcases hk with (hk | hk) | hk
    · obtain ⟨c', hm', hk'⟩ := mem_boundsL cs k hk
      have h4 := bounds_head c' _ (WFL_mem cs c' hcs hm') k hk'
      exact h1 c' hm' (head_of_append h4 he).symm
    · cases pc with
      | none => simp [boundsO] at hk
      | some p =>
        simp only [boundsO] at hk; simp only [WFO] at hpc
        have h4 := bounds_head p _ hpc k hk
        have h5 := WF_label p _ hpc
        simp only at h5
        exact h2 ⟨by rw [head_of_append h4 he, h5], rfl⟩
    · cases ac with
      | none => simp [boundsO] at hk
      | some p =>
        simp only [boundsO] at hk; simp only [WFO] at hac
        have h4 := bounds_head p _ hac k hk
        have h5 := WF_label p _ hac
        simp only at h5
        exact h3 ⟨by rw [head_of_append h4 he, h5], rfl⟩
end children

/-! ## what a successful insertion does to the denotation -/

def newRoute (s : Bytes) (h : Option Nat) (pp : Bytes) (pn : List Bytes) (kv : Bytes × Val) : Prop :=
  ∃ x, h = some x ∧ kv = (s, Val.mk x pp pn)

/-- `R'` is `R` plus the new route; the boundaries `B` are kept and `s` is one of `B'` -/
def Upd (R R' : List (Bytes × Val)) (B B' : List Bytes) (s : Bytes) (h : Option Nat) (pp : Bytes)
    (pn : List Bytes) : Prop :=
  (∀ kv, kv ∈ R' ↔ (kv ∈ R ∨ newRoute s h pp pn kv)) ∧ (∀ b, b ∈ B → b ∈ B') ∧ s ∈ B'

/-- a handler is to be stored at a key that has one -/
def Conf (R : List (Bytes × Val)) (s : Bytes) (h : Option Nat) : Prop := h.isSome = true ∧ s ∈ keys R

theorem map_pref_pref (a b : Bytes) (R : List (Bytes × Val)) :
    (R.map (pref b)).map (pref a) = R.map (pref (a ++ b)) := by
  simp [pref, Function.comp_def, List.append_assoc]

theorem upd_lift {R R' B B' s h pp pn} (p : Bytes) (hu : Upd R R' B B' s h pp pn) :
    Upd (R.map (pref p)) (R'.map (pref p)) (B.map (fun k => p ++ k)) (B'.map (fun k => p ++ k)) (p ++ s) h pp pn := by
  obtain ⟨h1, h2, h3⟩ := hu
  refine ⟨fun kv => ?_, fun b hb => ?_, List.mem_map.2 ⟨s, h3, rfl⟩⟩
  · constructor
    · intro hkv
      obtain ⟨kv0, hm, rfl⟩ := List.mem_map.1 hkv
      rcases (h1 kv0).1 hm with hm | ⟨x, hx, rfl⟩
      · exact Or.inl (List.mem_map.2 ⟨kv0, hm, rfl⟩)
      · exact Or.inr ⟨x, hx, rfl⟩
    · rintro (hkv | ⟨x, hx, rfl⟩)
      · obtain ⟨kv0, hm, rfl⟩ := List.mem_map.1 hkv
        exact List.mem_map.2 ⟨kv0, (h1 kv0).2 (Or.inl hm), rfl⟩
      · exact List.mem_map.2 ⟨(s, Val.mk x pp pn), (h1 _).2 (Or.inr ⟨x, hx, rfl⟩), rfl⟩
  · obtain ⟨x, hx, rfl⟩ := List.mem_map.1 hb
    exact List.mem_map.2 ⟨x, h2 x hx, rfl⟩

theorem upd_L {H L L' P A : List (Bytes × Val)} {BL BL' BP BA : List Bytes} {s h pp pn}
    (hu : Upd L L' BL BL' s h pp pn) :
    Upd (H ++ L ++ P ++ A) (H ++ L' ++ P ++ A) ([] :: (BL ++ BP ++ BA)) ([] :: (BL' ++ BP ++ BA)) s h pp pn := by
  obtain ⟨h1, h2, h3⟩ := hu
  refine ⟨fun kv => ?_, fun b hb => ?_, ?_⟩
  · simp only [List.mem_append, h1 kv]
    simp only [or_assoc, or_comm, or_left_comm]
  · simp only [List.mem_cons, List.mem_append] at hb ⊢
    rcases hb with hb | (hb | hb) | hb
    · exact Or.inl hb
    · exact Or.inr (Or.inl (Or.inl (h2 b hb)))
    · exact Or.inr (Or.inl (Or.inr hb))
    · exact Or.inr (Or.inr hb)
  · simp only [List.mem_cons, List.mem_append]; exact Or.inr (Or.inl (Or.inl h3))

theorem upd_P {H L P P' A : List (Bytes × Val)} {BL BP BP' BA : List Bytes} {s h pp pn}
    (hu : Upd P P' BP BP' s h pp pn) :
    Upd (H ++ L ++ P ++ A) (H ++ L ++ P' ++ A) ([] :: (BL ++ BP ++ BA)) ([] :: (BL ++ BP' ++ BA)) s h pp pn := by
  obtain ⟨h1, h2, h3⟩ := hu
  refine ⟨fun kv => ?_, fun b hb => ?_, ?_⟩
  · simp only [List.mem_append, h1 kv]
    simp only [or_assoc, or_comm, or_left_comm]
  · simp only [List.mem_cons, List.mem_append] at hb ⊢
    rcases hb with hb | (hb | hb) | hb
    · exact Or.inl hb
    · exact Or.inr (Or.inl (Or.inl hb))
    · exact Or.inr (Or.inl (Or.inr (h2 b hb)))
    · exact Or.inr (Or.inr hb)
  · simp only [List.mem_cons, List.mem_append]; exact Or.inr (Or.inl (Or.inr h3))

theorem upd_A {H L P A A' : List (Bytes × Val)} {BL BP BA BA' : List Bytes} {s h pp pn}
    (hu : Upd A A' BA BA' s h pp pn) :
    Upd (H ++ L ++ P ++ A) (H ++ L ++ P ++ A') ([] :: (BL ++ BP ++ BA)) ([] :: (BL ++ BP ++ BA')) s h pp pn := by
  obtain ⟨h1, h2, h3⟩ := hu
  refine ⟨fun kv => ?_, fun b hb => ?_, ?_⟩
  · simp only [List.mem_append, h1 kv]
    simp only [or_assoc]
  · simp only [List.mem_cons, List.mem_append] at hb ⊢
    rcases hb with hb | (hb | hb) | hb
    · exact Or.inl hb
    · exact Or.inr (Or.inl (Or.inl hb))
    · exact Or.inr (Or.inl (Or.inr hb))
    · exact Or.inr (Or.inr (h2 b hb))
  · simp only [List.mem_cons, List.mem_append]; exact Or.inr (Or.inr h3)

/-- a fresh node with an empty body -/
theorem upd_new (t : Kind) (l : UInt8) (s : Bytes) (h : Option Nat) (pp : Bytes) (pn : List Bytes) :
    Upd [] (routes (.mk t l s [] pp pn h none none)) [] (bounds (.mk t l s [] pp pn h none none)) s h pp pn := by
  refine ⟨fun kv => ?_, by simp, by simp [bounds_mk]⟩
  cases h <;> simp [routes_mk, hsPart, routesL, routesO, pref, newRoute]

theorem conf_lift (R : List (Bytes × Val)) (p s : Bytes) (h : Option Nat) :
    Conf (R.map (pref p)) (p ++ s) h ↔ Conf R s h := by
  simp only [Conf, keys, List.map_map, List.mem_map, Function.comp, pref]
  constructor
  · rintro ⟨h1, kv, hm, he⟩
    exact ⟨h1, kv, hm, List.append_cancel_left he⟩
  · rintro ⟨h1, kv, hm, he⟩
    exact ⟨h1, kv, hm, by rw [he]⟩

theorem conf_append (R S : List (Bytes × Val)) (s : Bytes) (h : Option Nat) :
    Conf (R ++ S) s h ↔ Conf R s h ∨ Conf S s h := by
  simp only [Conf, keys, List.map_append, List.mem_append]
  constructor
  · rintro ⟨h1, h2 | h2⟩
    · exact Or.inl ⟨h1, h2⟩
    · exact Or.inr ⟨h1, h2⟩
  · rintro (⟨h1, h2⟩ | ⟨h1, h2⟩)
    · exact ⟨h1, Or.inl h2⟩
    · exact ⟨h1, Or.inr h2⟩

theorem keysL_head (cs : List Node) (hcs : WFL cs) (k : Bytes) (hk : k ∈ keys (routesL cs)) :
    ∃ c, c ∈ cs ∧ k.head? = some c.label := by
  obtain ⟨c, hm, hb⟩ := mem_boundsL cs k (keys_sub_boundsL cs k hk)
  exact ⟨c, hm, bounds_head c _ (WFL_mem cs c hcs hm) k hb⟩

theorem keysO_head (o : Option Node) (pos : Kind) (ho : WFO o pos) (k : Bytes) (hk : k ∈ keys (routesO o)) :
    ∃ c, o = some c ∧ k.head? = some c.label := by
  cases o with
  | none => simp [routesO, keys] at hk
  | some c =>
    simp only [WFO] at ho
    exact ⟨c, rfl, bounds_head c _ ho k (keys_sub_boundsO _ k hk)⟩

theorem wild_append (a b : Bytes) : wild (a ++ b) = wild a + wild b := by
  simp only [wild, List.count_append]; omega

theorem wild_lit (a : Bytes) (h : Lit a) : wild a = 0 := by
  have h1 : (58 : UInt8) ∉ a := fun hm => (h _ hm).1 rfl
  have h2 : (42 : UInt8) ∉ a := fun hm => (h _ hm).2 rfl
  simp [wild, List.count_eq_zero.2 h1, List.count_eq_zero.2 h2]

theorem wild_rest (t : Kind) (r : Bytes) (h : Rest t r) (j : Nat) : depthAt t j = j + wild r := by
  cases t
  · simp only [Rest] at h; simp [depthAt, wild_lit r h]
  · simp only [Rest] at h; subst h; simp [depthAt, wild]
  · simp only [Rest] at h; subst h; simp [depthAt, wild]

theorem wild_pfx {kind label pfx cs ppath pnames hs pc ac pos}
    (h : WF (.mk kind label pfx cs ppath pnames hs pc ac) pos) (j : Nat) : depthAt kind j = j + wild pfx := by
  rw [WF_mk] at h
  obtain ⟨rfl, -, hp, -⟩ := h
  cases kind
  · exact wild_rest .skind pfx hp.2 j
  · exact wild_rest .pkind pfx hp j
  · exact wild_rest .akind pfx hp.1 j

theorem WF_replace {kind label pfx cs ppath pnames hs pc ac pos} (cs' ppath' pnames' hs' pc' ac')
    (h : WF (.mk kind label pfx cs ppath pnames hs pc ac) pos) (hpos : pos ≠ .akind)
    (h1 : WFL cs') (h2 : (cs'.map Node.label).Nodup) (h3 : WFO pc' .pkind) (h4 : WFO ac' .akind) :
    WF (.mk kind label pfx cs' ppath' pnames' hs' pc' ac') pos := by
  rw [WF_mk] at h ⊢
  obtain ⟨hk, hl, hp, -⟩ := h
  refine ⟨hk, hl, ?_, h1, h2, h3, h4⟩
  cases pos
  · exact hp
  · exact hp
  · exact absurd rfl hpos

/-! ## specification of one call, for a node in position `pos` -/

def PnStep (P P' : Nat → Nat → Prop) (s : Bytes) (h : Option Nat) (pn : List Bytes) : Prop :=
  ∀ j cap, P j cap → (h.isSome = true → pn.length = j + wild s) → j + wild s ≤ cap → P' j cap

def Spec (n : Node) (pos : Kind) (s : Bytes) (h : Option Nat) (pp : Bytes) (pn : List Bytes)
    (r : Except Fault Node) : Prop :=
  (Conf (routes n) s h ∧ r = .error .conflict) ∨
  (¬ Conf (routes n) s h ∧ ∃ n', r = .ok n' ∧ WF n' pos ∧ n'.label = n.label ∧
    Upd (routes n) (routes n') (bounds n) (bounds n') s h pp pn ∧ PnStep (PnOK n) (PnOK n') s h pn)

def SpecL (cs : List Node) (c0 : UInt8) (s : Bytes) (h : Option Nat) (pp : Bytes) (pn : List Bytes)
    (r : Except Fault (Option (List Node))) : Prop :=
  ((∀ c ∈ cs, c.label ≠ c0) ∧ r = .ok none) ∨
  ((∃ c ∈ cs, c.label = c0) ∧
    ((Conf (routesL cs) s h ∧ r = .error .conflict) ∨
     (¬ Conf (routesL cs) s h ∧ ∃ cs', r = .ok (some cs') ∧ WFL cs' ∧ cs'.map Node.label = cs.map Node.label ∧
       Upd (routesL cs) (routesL cs') (boundsL cs) (boundsL cs') s h pp pn ∧
       PnStep (PnOKL cs) (PnOKL cs') s h pn)))

def SpecO (o : Option Node) (pos : Kind) (s : Bytes) (h : Option Nat) (pp : Bytes) (pn : List Bytes)
    (r : Except Fault (Option Node)) : Prop :=
  (o = none ∧ r = .ok none) ∨
  (Conf (routesO o) s h ∧ r = .error .conflict) ∨
  (¬ Conf (routesO o) s h ∧ ∃ o', r = .ok o' ∧ WFO o' pos ∧
    Upd (routesO o) (routesO o') (boundsO o) (boundsO o') s h pp pn ∧ PnStep (PnOKO o) (PnOKO o') s h pn)

theorem nil_not_keysL (cs : List Node) (hcs : WFL cs) (h : Option Nat) : ¬ Conf (routesL cs) [] h := by
  rintro ⟨-, hk⟩
  obtain ⟨c, -, hc⟩ := keysL_head cs hcs [] hk
  simp at hc

theorem nil_not_keysO (o : Option Node) (pos : Kind) (ho : WFO o pos) (h : Option Nat) : ¬ Conf (routesO o) [] h := by
  rintro ⟨-, hk⟩
  obtain ⟨c, -, hc⟩ := keysO_head o pos ho [] hk
  simp at hc

theorem conf_body (kind label pfx cs ppath pnames hs pc ac) (s : Bytes) (h : Option Nat) :
    Conf (routes (.mk kind label pfx cs ppath pnames hs pc ac)) (pfx ++ s) h ↔
      (Conf (hsPart hs ppath pnames) s h ∨ Conf (routesL cs) s h ∨ Conf (routesO pc) s h ∨ Conf (routesO ac) s h) := by
  rw [routes_mk, conf_lift, conf_append, conf_append, conf_append]
  simp only [or_assoc]

theorem conf_self {kind label pfx cs ppath pnames hs pc ac pos}
    (hwf : WF (.mk kind label pfx cs ppath pnames hs pc ac) pos) (h : Option Nat) :
    Conf (routes (.mk kind label pfx cs ppath pnames hs pc ac)) pfx h ↔ (h.isSome = true ∧ hs.isSome = true) := by
  have := conf_body kind label pfx cs ppath pnames hs pc ac [] h
  rw [List.append_nil] at this
  rw [this]
  rw [WF_mk] at hwf
  obtain ⟨-, -, -, hcs, -, hpc, hac⟩ := hwf
  have h1 := nil_not_keysL cs hcs h
  have h2 := nil_not_keysO pc _ hpc h
  have h3 := nil_not_keysO ac _ hac h
  simp only [h1, h2, h3, or_false]
  cases hs <;> simp [Conf, hsPart, keys]

theorem upd_refl (R : List (Bytes × Val)) (B : List Bytes) (s : Bytes) (pp : Bytes) (pn : List Bytes) (hs : s ∈ B) :
    Upd R R B B s none pp pn :=
  ⟨fun kv => by simp [newRoute], fun _ hb => hb, hs⟩

theorem pfx_ne {kind label pfx cs ppath pnames hs pc ac pos}
    (hwf : WF (.mk kind label pfx cs ppath pnames hs pc ac) pos) : pfx ≠ [] := by
  have := WF_pfx _ _ hwf
  intro h; subst h; simp [Node.pfx] at this

theorem spec_exists (kind label pfx cs ppath pnames hs pc ac pos h t pp pn)
    (hwf : WF (.mk kind label pfx cs ppath pnames hs pc ac) pos) :
    Spec (.mk kind label pfx cs ppath pnames hs pc ac) pos pfx h pp pn
      (Route.insert (.mk kind label pfx cs ppath pnames hs pc ac) pfx h t pp pn) := by
  have hne := pfx_ne hwf
  have hself : pfx ∈ bounds (.mk kind label pfx cs ppath pnames hs pc ac) := by simp [bounds_mk]
  rw [insert_exists _ _ _ _ _ _ _ _ _ _ _ _ _ hne]
  unfold Spec
  rw [conf_self hwf]
  cases h with
  | none =>
    right
    refine ⟨by simp, ?_⟩
    simp only [Option.isSome_none, Bool.and_false, Bool.false_eq_true, if_false]
    exact ⟨_, rfl, hwf, rfl, upd_refl _ _ _ _ _ hself, fun j cap hp _ _ => hp⟩
  | some x =>
    cases hs with
    | some a => left; simp
    | none =>
      right
      refine ⟨by simp, ?_⟩
      simp only [Option.isSome_none, Bool.false_and, Bool.false_eq_true, if_false]
      refine ⟨_, rfl, ?_, rfl, ?_, ?_⟩
      · have hpos : pos ≠ .akind := by
          intro hp; subst hp; rw [WF_mk] at hwf; simp at hwf
        have hwf' := hwf
        rw [WF_mk] at hwf'
        exact WF_replace cs pp pn (some x) pc ac hwf hpos hwf'.2.2.2.1 hwf'.2.2.2.2.1
          hwf'.2.2.2.2.2.1 hwf'.2.2.2.2.2.2
      · refine ⟨fun kv => ?_, ?_, ?_⟩
        · simp only [routes_mk, hsPart, List.map_append, List.mem_append, List.nil_append, List.map_nil,
            List.map_cons, List.mem_cons, List.not_mem_nil, or_false, pref, List.append_nil,
            newRoute, Option.some.injEq, exists_eq_left', or_assoc]
          grind
        · intro b hb; simpa [bounds_mk] using hb
        · simp [bounds_mk]
      · intro j cap hp hlen hcap
        rw [PnOK_mk] at hp ⊢
        refine ⟨hp.1, fun _ => ?_, hp.2.2⟩
        rw [hlen rfl, wild_pfx hwf]

/-! ## the split branches -/

theorem map_app_app (a b : Bytes) (B : List Bytes) :
    (B.map (fun k => b ++ k)).map (fun k => a ++ k) = B.map (fun k => (a ++ b) ++ k) := by
  simp [Function.comp_def, List.append_assoc]

theorem upd_split_parent (kind label pfx cs ppath pnames hs pc ac) (tk dr : Bytes) (l1 l2 : UInt8) (h pp pn)
    (hp : pfx = tk ++ dr) :
    Upd (routes (.mk kind label pfx cs ppath pnames hs pc ac))
      (routes (.mk .skind l1 tk [.mk kind l2 dr cs ppath pnames hs pc ac] pp pn h none none))
      (bounds (.mk kind label pfx cs ppath pnames hs pc ac))
      (bounds (.mk .skind l1 tk [.mk kind l2 dr cs ppath pnames hs pc ac] pp pn h none none)) tk h pp pn := by
  subst hp
  refine ⟨fun kv => ?_, fun b hb => ?_, by simp [bounds_mk]⟩
  · simp only [routes_mk, routesL, routesO, List.append_nil, List.map_append, map_pref_pref, List.mem_append]
    cases h <;> simp [hsPart, pref, newRoute] <;> grind
  · simp only [bounds_mk, boundsL, boundsO, List.append_nil, List.map_cons, List.map_append, map_app_app,
      List.mem_cons, List.mem_append] at hb ⊢
    right; exact hb

theorem upd_split_child (kind label pfx cs ppath pnames hs pc ac) (tk dr sr : Bytes) (l1 l2 l3 : UInt8) (h pp pn)
    (hp : pfx = tk ++ dr) :
    Upd (routes (.mk kind label pfx cs ppath pnames hs pc ac))
      (routes (.mk .skind l1 tk [.mk kind l2 dr cs ppath pnames hs pc ac, .mk .skind l3 sr [] pp pn h none none]
        [] [] none none none))
      (bounds (.mk kind label pfx cs ppath pnames hs pc ac))
      (bounds (.mk .skind l1 tk [.mk kind l2 dr cs ppath pnames hs pc ac, .mk .skind l3 sr [] pp pn h none none]
        [] [] none none none)) (tk ++ sr) h pp pn := by
  subst hp
  refine ⟨fun kv => ?_, fun b hb => ?_, by simp [bounds_mk, boundsL, boundsO]⟩
  · simp only [routes_mk, routesL, routesO, List.append_nil, List.map_append, map_pref_pref, List.mem_append]
    cases h <;> simp [hsPart, pref, newRoute] <;> grind
  · simp only [bounds_mk, boundsL, boundsO, List.append_nil, List.map_cons, List.map_append, map_app_app,
      List.mem_cons, List.mem_append] at hb ⊢
    right; left; exact hb

theorem keys_pfx (kind label pfx cs ppath pnames hs pc ac) (k : Bytes)
    (hk : k ∈ keys (routes (.mk kind label pfx cs ppath pnames hs pc ac))) : ∃ x, k = pfx ++ x := by
  rw [routes_mk] at hk
  simp only [keys, List.map_map, List.mem_map, Function.comp, pref] at hk
  obtain ⟨kv, -, rfl⟩ := hk
  exact ⟨_, rfl⟩

theorem headD_take (p : Bytes) (l : Nat) (hl : l ≠ 0) : (p.take l).headD 0 = p.headD 0 := by
  cases l with
  | zero => exact absurd rfl hl
  | succ l => cases p <;> simp

theorem spec_split (kind label pfx cs ppath pnames hs pc ac pos search h t pp pn)
    (hwf : WF (.mk kind label pfx cs ppath pnames hs pc ac) pos)
    (hpre : Pre (.mk kind label pfx cs ppath pnames hs pc ac) search t)
    (hlt : lcpLen search pfx < pfx.length) :
    Spec (.mk kind label pfx cs ppath pnames hs pc ac) pos search h pp pn
      (Route.insert (.mk kind label pfx cs ppath pnames hs pc ac) search h t pp pn) := by
  have hne := pfx_ne hwf
  obtain ⟨hhd, hcont⟩ := hpre
  simp only [Node.pfx] at hhd
  have hl0 : lcpLen search pfx ≠ 0 := lcpLen_pos search pfx hne hhd
  have hwf' := hwf
  rw [WF_mk] at hwf'
  obtain ⟨hk, hlab, hp, hcs, hnd, hpc, hac⟩ := hwf'
  have hpos : pos = .skind := by
    cases pos
    · rfl
    · simp only at hp; subst hp; simp at hlt; exact absurd hlt hl0
    · simp only at hp; rw [hp.1] at hlt hl0; simp at hlt; exact absurd hlt hl0
  subst hpos
  subst hk
  simp only at hp
  obtain ⟨ht, hlit⟩ := cont_split _ _ _ _ _ _ _ _ _ search t hcont hhd hp.2 hne hlt
  subst ht
  have hnc : ¬ Conf (routes (.mk .skind label pfx cs ppath pnames hs pc ac)) search h := by
    rintro ⟨-, hkk⟩
    obtain ⟨x, rfl⟩ := keys_pfx _ _ _ _ _ _ _ _ _ _ hkk
    rw [lcpLen_append] at hlt
    exact Nat.lt_irrefl _ hlt
  have htk := lcpLen_take search pfx
  have hle := lcpLen_le_left search pfx
  rw [insert_split _ _ _ _ _ _ _ _ _ _ _ _ _ _ hl0 hlt]
  generalize hll : lcpLen search pfx = l at *
  have hpfx : pfx = pfx.take l ++ pfx.drop l := (List.take_append_drop l pfx).symm
  have htkne : pfx.take l ≠ [] := by
    intro h0
    have := congrArg List.length h0
    rw [List.length_take, List.length_nil] at this; omega
  have hdrne : pfx.drop l ≠ [] := by
    intro h0
    have := congrArg List.length h0
    simp at this; omega
  have hwc : WF (.mk .skind ((pfx.drop l).headD 0) (pfx.drop l) cs ppath pnames hs pc ac) .skind := by
    rw [WF_mk]; exact ⟨rfl, rfl, ⟨hdrne, Lit_drop l hp.2⟩, hcs, hnd, hpc, hac⟩
  have hw0 : wild search = 0 := wild_lit _ hlit
  right
  refine ⟨hnc, ?_⟩
  by_cases hl : l = search.length
  · simp only [hl, if_true]
    have hs : search = pfx.take l := by rw [← htk, hl, List.take_length]
    rw [← hl]
    refine ⟨_, rfl, ?_, ?_, ?_, ?_⟩
    · rw [WF_mk]
      refine ⟨rfl, (headD_take pfx l hl0).symm, ⟨htkne, Lit_take l hp.2⟩, ⟨hwc, trivial⟩, by simp, trivial, trivial⟩
    · simp [Node.label, hlab]
    · rw [hs]; exact upd_split_parent _ _ _ _ _ _ _ _ _ _ _ _ _ _ _ _ hpfx
    · intro j cap hpn hlen hcap
      rw [PnOK_mk] at hpn ⊢
      simp only [depthAt, if_true] at hpn ⊢
      refine ⟨by omega, fun hh => by rw [hlen hh, hw0]; rfl, ⟨?_, trivial⟩, trivial, trivial⟩
      rw [PnOK_mk]; simp only [depthAt, if_true]; exact hpn
  · simp only [hl, if_false]
    have hs : search = pfx.take l ++ search.drop l := by rw [← htk, List.take_append_drop]
    have hlt2 : l < search.length := by omega
    refine ⟨_, rfl, ?_, ?_, ?_, ?_⟩
    · rw [WF_mk]
      refine ⟨rfl, (headD_take pfx l hl0).symm, ⟨htkne, Lit_take l hp.2⟩, ⟨hwc, ?_, trivial⟩, ?_, trivial, trivial⟩
      · rw [WF_mk]
        refine ⟨rfl, rfl, ⟨?_, Lit_drop l hlit⟩, trivial, by simp, trivial, trivial⟩
        intro h0
        have := congrArg List.length h0
        simp at this; omega
      · have := lcpLen_differ search pfx
        rw [hll] at this
        simpa [Node.label] using (this hlt2 hlt).symm
    · simp [Node.label, hlab]
    · conv => enter [5]; rw [hs]
      exact upd_split_child _ _ _ _ _ _ _ _ _ _ _ _ _ _ _ _ _ _ hpfx
    · intro j cap hpn hlen hcap
      rw [PnOK_mk] at hpn ⊢
      simp only [depthAt, if_true] at hpn ⊢
      refine ⟨by omega, fun hh => by simp at hh, ⟨?_, ?_, trivial⟩, trivial, trivial⟩
      · rw [PnOK_mk]; simp only [depthAt, if_true]; exact hpn
      · rw [PnOK_mk]; simp only [depthAt, if_true]
        exact ⟨by omega, fun hh => by rw [hlen hh, hw0]; rfl, trivial, trivial, trivial⟩

/-! ## the branches below a node -/

theorem conf_hs_cons (hs : Option Nat) (ppath pnames) (c0 : UInt8) (s' : Bytes) (h : Option Nat) :
    ¬ Conf (hsPart hs ppath pnames) (c0 :: s') h := by
  cases hs <;> simp [Conf, hsPart, keys]

theorem conf_L_label (cs : List Node) (hcs : WFL cs) (c0 : UInt8) (s' : Bytes) (h : Option Nat)
    (hc : Conf (routesL cs) (c0 :: s') h) : ∃ c, c ∈ cs ∧ c.label = c0 := by
  obtain ⟨c, hm, hh⟩ := keysL_head cs hcs _ hc.2
  exact ⟨c, hm, by simpa using hh.symm⟩

theorem conf_O_label (o : Option Node) (pos : Kind) (ho : WFO o pos) (c0 : UInt8) (s' : Bytes) (h : Option Nat)
    (hc : Conf (routesO o) (c0 :: s') h) : ∃ c, o = some c ∧ c.label = c0 := by
  obtain ⟨c, hm, hh⟩ := keysO_head o pos ho _ hc.2
  exact ⟨c, hm, by simpa using hh.symm⟩

theorem pre_not_akind {kind label pfx cs ppath pnames hs pc ac} (c0 : UInt8) (s' : Bytes) (t : Kind)
    (hwf : WF (.mk kind label pfx cs ppath pnames hs pc ac) .akind)
    (hpre : Pre (.mk kind label pfx cs ppath pnames hs pc ac) (pfx ++ c0 :: s') t) : False := by
  rw [WF_mk] at hwf
  obtain ⟨-, -, hp, -⟩ := hwf
  simp only at hp
  obtain ⟨rfl, -⟩ := hp
  obtain ⟨-, k, rest, he, hr, hk⟩ := hpre
  rcases hk with rfl | ⟨hk, h42⟩
  · simp only [List.nil_append] at he
    subst he
    cases t
    · exact (hr 42 (by simp)).2 rfl
    · simp [Rest] at hr
    · simp [Rest] at hr
  · rw [bounds_mk] at hk
    obtain ⟨x, -, rfl⟩ := List.mem_map.1 hk
    exact h42 (by simp)

theorem pn_descend {kind label pfx cs ppath pnames hs pc ac pos}
    (hwf : WF (.mk kind label pfx cs ppath pnames hs pc ac) pos) (s2 : Bytes) (h : Option Nat) (pn : List Bytes)
    (j cap : Nat) (hlen : h.isSome = true → pn.length = j + wild (pfx ++ s2)) (hcap : j + wild (pfx ++ s2) ≤ cap) :
    (h.isSome = true → pn.length = depthAt kind j + wild s2) ∧ depthAt kind j + wild s2 ≤ cap := by
  rw [wild_append] at hlen hcap
  rw [wild_pfx hwf j]
  exact ⟨fun hh => by rw [hlen hh]; omega, by omega⟩

theorem upd_append_new {L R' : List (Bytes × Val)} {BL B' : List Bytes} {s h pp pn}
    (hu : Upd [] R' [] B' s h pp pn) : Upd L (L ++ R') BL (BL ++ B') s h pp pn := by
  obtain ⟨h1, -, h3⟩ := hu
  refine ⟨fun kv => ?_, fun b hb => List.mem_append_left _ hb, List.mem_append_right _ h3⟩
  have := h1 kv
  simp only [List.not_mem_nil, false_or] at this
  simp only [List.mem_append, this]

theorem spec_descend (kind label pfx cs ppath pnames hs pc ac pos c0 s' h t pp pn)
    (hwf : WF (.mk kind label pfx cs ppath pnames hs pc ac) pos)
    (hpre : Pre (.mk kind label pfx cs ppath pnames hs pc ac) (pfx ++ c0 :: s') t)
    (hak : t = .akind → h.isSome = true)
    (hL : (∀ c ∈ cs, c.label = c0 → Pre c (c0 :: s') t) →
      SpecL cs c0 (c0 :: s') h pp pn (insertL cs c0 (c0 :: s') h t pp pn))
    (hP : (∀ c, pc = some c → Pre c (c0 :: s') t) →
      SpecO pc .pkind (c0 :: s') h pp pn (insertO pc (c0 :: s') h t pp pn))
    (hA : (∀ c, ac = some c → Pre c (c0 :: s') t) →
      SpecO ac .akind (c0 :: s') h pp pn (insertO ac (c0 :: s') h t pp pn)) :
    Spec (.mk kind label pfx cs ppath pnames hs pc ac) pos (pfx ++ c0 :: s') h pp pn
      (Route.insert (.mk kind label pfx cs ppath pnames hs pc ac) (pfx ++ c0 :: s') h t pp pn) := by
  have hne := pfx_ne hwf
  have hpos : pos ≠ .akind := by
    intro hp; subst hp; exact pre_not_akind c0 s' t hwf hpre
  have hwf' := hwf
  rw [WF_mk] at hwf'
  obtain ⟨hk, hlab, hp, hcs, hnd, hpc, hac⟩ := hwf'
  have hcont := cont_descend _ _ _ _ _ _ _ _ _ _ _ hpre.2 hne (List.cons_ne_nil c0 s')
  rw [insert_descend _ _ _ _ _ _ _ _ _ _ _ _ _ _ _ hne]
  unfold Spec
  rw [conf_body]
  have hnH := conf_hs_cons hs ppath pnames c0 s' h
  rcases hL (fun c hm hl => pre_static hcs hnd hpc hac hcont c hm hl) with
    ⟨hnone, hr⟩ | ⟨⟨c, hcm, hcl⟩, ⟨hconf, hr⟩ | ⟨hnconf, cs', hr, hwl, hlabs, hupd, hpn⟩⟩
  · -- no static child
    rw [hr]
    simp only
    have hnL : ¬ Conf (routesL cs) (c0 :: s') h := fun hc => by
      obtain ⟨c, hm, hl⟩ := conf_L_label cs hcs c0 s' h hc
      exact hnone c hm hl
    by_cases h58 : c0 = 58 ∧ pc.isSome = true
    · have hcond : (decide (c0 = paramLabel) && pc.isSome) = true := by simp [paramLabel, h58.1, h58.2]
      simp only [hcond, if_true]
      have hnA : ¬ Conf (routesO ac) (c0 :: s') h := fun hc => by
        obtain ⟨c, rfl, hl⟩ := conf_O_label ac _ hac c0 s' h hc
        have := WF_label c _ hac
        simp only at this
        rw [hl, h58.1] at this; exact absurd this (by decide)
      rcases hP (fun c hm => pre_param hcs hnd hpc hac hcont c hm h58.1) with
        ⟨h0, -⟩ | ⟨hconf, hr⟩ | ⟨hnconf, o', hr, hwo, hupd, hpn⟩
      · rw [h0] at h58; simp at h58
      · rw [hr]; left; exact ⟨Or.inr (Or.inr (Or.inl hconf)), rfl⟩
      · rw [hr]; right
        refine ⟨by simp [hnH, hnL, hnconf, hnA], _, rfl, ?_, rfl, ?_, ?_⟩
        · exact WF_replace cs ppath pnames hs o' ac hwf hpos hcs hnd hwo hac
        · rw [routes_mk, routes_mk, bounds_mk, bounds_mk]; exact upd_lift pfx (upd_P hupd)
        · intro j cap hpk hlen hcap
          obtain ⟨h1, h2⟩ := pn_descend hwf _ h pn j cap hlen hcap
          rw [PnOK_mk] at hpk ⊢
          exact ⟨hpk.1, hpk.2.1, hpk.2.2.1, hpn _ cap hpk.2.2.2.1 h1 h2, hpk.2.2.2.2⟩
    · have hcond : (decide (c0 = paramLabel) && pc.isSome) = false := by
        cases hh : pc.isSome
        · simp
        · have : c0 ≠ 58 := fun hx => h58 ⟨hx, hh⟩
          simp [paramLabel, this]
      simp only [hcond, Bool.false_eq_true, if_false]
      have hnP : ¬ Conf (routesO pc) (c0 :: s') h := fun hc => by
        obtain ⟨c, rfl, hl⟩ := conf_O_label pc _ hpc c0 s' h hc
        have := WF_label c _ hpc
        simp only at this
        exact h58 ⟨by rw [← hl, this], rfl⟩
      by_cases h42 : c0 = 42 ∧ ac.isSome = true
      · have hcond : (decide (c0 ≠ paramLabel) && decide (c0 = anyLabel) && ac.isSome) = true := by
          simp [paramLabel, anyLabel, h42.1, h42.2]
        simp only [hcond, if_true]
        rcases hA (fun c hm => pre_any hcs hnd hpc hac hcont c hm h42.1) with
          ⟨h0, -⟩ | ⟨hconf, hr⟩ | ⟨hnconf, o', hr, hwo, hupd, hpn⟩
        · rw [h0] at h42; simp at h42
        · rw [hr]; left; exact ⟨Or.inr (Or.inr (Or.inr hconf)), rfl⟩
        · rw [hr]; right
          refine ⟨by simp [hnH, hnL, hnconf, hnP], _, rfl, ?_, rfl, ?_, ?_⟩
          · exact WF_replace cs ppath pnames hs pc o' hwf hpos hcs hnd hpc hwo
          · rw [routes_mk, routes_mk, bounds_mk, bounds_mk]; exact upd_lift pfx (upd_A hupd)
          · intro j cap hpk hlen hcap
            obtain ⟨h1, h2⟩ := pn_descend hwf _ h pn j cap hlen hcap
            rw [PnOK_mk] at hpk ⊢
            exact ⟨hpk.1, hpk.2.1, hpk.2.2.1, hpk.2.2.2.1, hpn _ cap hpk.2.2.2.2 h1 h2⟩
      · have hcond : (decide (c0 ≠ paramLabel) && decide (c0 = anyLabel) && ac.isSome) = false := by
          cases hh : ac.isSome
          · simp
          · have : c0 ≠ 42 := fun hx => h42 ⟨hx, hh⟩
            simp [anyLabel, this]
        simp only [hcond, Bool.false_eq_true, if_false]
        have hnA : ¬ Conf (routesO ac) (c0 :: s') h := fun hc => by
          obtain ⟨c, rfl, hl⟩ := conf_O_label ac _ hac c0 s' h hc
          have := WF_label c _ hac
          simp only at this
          exact h42 ⟨by rw [← hl, this], rfl⟩
        have hrest := rest_create hcs hnd hpc hac hcont hnone h58 h42
        have hnew := upd_new t c0 (c0 :: s') h pp pn
        have hpnew : ∀ j cap, (h.isSome = true → pn.length = j + wild (pfx ++ c0 :: s')) →
            j + wild (pfx ++ c0 :: s') ≤ cap →
            PnOK (.mk t c0 (c0 :: s') [] pp pn h none none) (depthAt kind j) cap := by
          intro j cap hlen hcap
          obtain ⟨h1, h2⟩ := pn_descend hwf _ h pn j cap hlen hcap
          rw [PnOK_mk, wild_rest t _ hrest]
          exact ⟨h2, h1, trivial, trivial, trivial⟩
        right
        refine ⟨by simp [hnH, hnL, hnP, hnA], ?_⟩
        cases t with
        | skind =>
          simp only
          have hwn : WF (.mk .skind c0 (c0 :: s') [] pp pn h none none) .skind := by
            rw [WF_mk]; exact ⟨rfl, rfl, ⟨List.cons_ne_nil _ _, hrest⟩, trivial, by simp, trivial, trivial⟩
          refine ⟨_, rfl, ?_, rfl, ?_, ?_⟩
          · refine WF_replace _ ppath pnames hs pc ac hwf hpos ((WFL_append _ _).2 ⟨hcs, hwn, trivial⟩) ?_ hpc hac
            rw [List.map_append, List.nodup_append]
            refine ⟨hnd, by simp, ?_⟩
            intro a ha b hb
            simp [Node.label] at hb
            obtain ⟨c, hm, rfl⟩ := List.mem_map.1 ha
            rw [hb]; exact hnone c hm
          · rw [routes_mk, routes_mk, bounds_mk, bounds_mk]
            refine upd_lift pfx (upd_L ?_)
            rw [routesL_append, boundsL_append]
            simp only [routesL, boundsL, List.append_nil]
            exact upd_append_new hnew
          · intro j cap hpk hlen hcap
            rw [PnOK_mk] at hpk ⊢
            exact ⟨hpk.1, hpk.2.1, (PnOKL_append _ _ _ _).2 ⟨hpk.2.2.1, hpnew j cap hlen hcap, trivial⟩, hpk.2.2.2⟩
        | pkind =>
          simp only
          simp only [Rest, List.cons.injEq] at hrest
          obtain ⟨rfl, rfl⟩ := hrest
          have hpcn : pc = none := by
            cases pc with
            | none => rfl
            | some p => exact absurd ⟨rfl, rfl⟩ h58
          subst hpcn
          refine ⟨_, rfl, ?_, rfl, ?_, ?_⟩
          · refine WF_replace cs ppath pnames hs _ ac hwf hpos hcs hnd ?_ hac
            simp only [WFO]; rw [WF_mk]; exact ⟨rfl, rfl, rfl, trivial, by simp, trivial, trivial⟩
          · rw [routes_mk, routes_mk, bounds_mk, bounds_mk]
            refine upd_lift pfx (upd_P ?_)
            simpa only [routesO, boundsO] using hnew
          · intro j cap hpk hlen hcap
            rw [PnOK_mk] at hpk ⊢
            exact ⟨hpk.1, hpk.2.1, hpk.2.2.1, hpnew j cap hlen hcap, hpk.2.2.2.2⟩
        | akind =>
          simp only
          simp only [Rest, List.cons.injEq] at hrest
          obtain ⟨rfl, rfl⟩ := hrest
          have hacn : ac = none := by
            cases ac with
            | none => rfl
            | some p => exact absurd ⟨rfl, rfl⟩ h42
          subst hacn
          refine ⟨_, rfl, ?_, rfl, ?_, ?_⟩
          · refine WF_replace cs ppath pnames hs pc _ hwf hpos hcs hnd hpc ?_
            simp only [WFO]; rw [WF_mk]; exact ⟨rfl, rfl, ⟨rfl, rfl, rfl, rfl, hak rfl⟩, trivial, by simp, trivial, trivial⟩
          · rw [routes_mk, routes_mk, bounds_mk, bounds_mk]
            refine upd_lift pfx (upd_A ?_)
            simpa only [routesO, boundsO] using hnew
          · intro j cap hpk hlen hcap
            rw [PnOK_mk] at hpk ⊢
            exact ⟨hpk.1, hpk.2.1, hpk.2.2.1, hpk.2.2.2.1, hpnew j cap hlen hcap⟩
  · -- static child found, conflict below
    rw [hr]; left; exact ⟨Or.inr (Or.inl hconf), rfl⟩
  · -- static child found, inserted below
    rw [hr]; right
    have hlc := WF_label c _ (WFL_mem cs c hcs hcm)
    simp only at hlc
    have hnP : ¬ Conf (routesO pc) (c0 :: s') h := fun hc => by
      obtain ⟨p, rfl, hl⟩ := conf_O_label pc _ hpc c0 s' h hc
      have := WF_label p _ hpc
      simp only at this
      rw [hl, ← hcl] at this; exact hlc.1 this
    have hnA : ¬ Conf (routesO ac) (c0 :: s') h := fun hc => by
      obtain ⟨p, rfl, hl⟩ := conf_O_label ac _ hac c0 s' h hc
      have := WF_label p _ hac
      simp only at this
      rw [hl, ← hcl] at this; exact hlc.2 this
    refine ⟨by simp [hnH, hnconf, hnP, hnA], _, rfl, ?_, rfl, ?_, ?_⟩
    · exact WF_replace cs' ppath pnames hs pc ac hwf hpos hwl (hlabs ▸ hnd) hpc hac
    · rw [routes_mk, routes_mk, bounds_mk, bounds_mk]; exact upd_lift pfx (upd_L hupd)
    · intro j cap hpk hlen hcap
      obtain ⟨h1, h2⟩ := pn_descend hwf _ h pn j cap hlen hcap
      rw [PnOK_mk] at hpk ⊢
      exact ⟨hpk.1, hpk.2.1, hpn _ cap hpk.2.2.1 h1 h2, hpk.2.2.2⟩

/-! ## the recursion -/

theorem upd_app_left {R R' X : List (Bytes × Val)} {B B' Y : List Bytes} {s h pp pn}
    (hu : Upd R R' B B' s h pp pn) : Upd (R ++ X) (R' ++ X) (B ++ Y) (B' ++ Y) s h pp pn := by
  obtain ⟨h1, h2, h3⟩ := hu
  refine ⟨fun kv => ?_, fun b hb => ?_, List.mem_append_left _ h3⟩
  · simp only [List.mem_append, h1 kv]; grind
  · rcases List.mem_append.1 hb with hb | hb
    · exact List.mem_append_left _ (h2 b hb)
    · exact List.mem_append_right _ hb

theorem upd_app_right {R R' X : List (Bytes × Val)} {B B' Y : List Bytes} {s h pp pn}
    (hu : Upd R R' B B' s h pp pn) : Upd (X ++ R) (X ++ R') (Y ++ B) (Y ++ B') s h pp pn := by
  obtain ⟨h1, h2, h3⟩ := hu
  refine ⟨fun kv => ?_, fun b hb => ?_, List.mem_append_right _ h3⟩
  · simp only [List.mem_append, h1 kv]; grind
  · rcases List.mem_append.1 hb with hb | hb
    · exact List.mem_append_left _ hb
    · exact List.mem_append_right _ (h2 b hb)

mutual
theorem insert_gen : (n : Node) → (pos : Kind) → (search : Bytes) → (h : Option Nat) → (t : Kind) → (pp : Bytes) →
    (pn : List Bytes) → WF n pos → Pre n search t → (t = .akind → h.isSome = true) →
    Spec n pos search h pp pn (Route.insert n search h t pp pn)
  | .mk kind label pfx cs ppath pnames hs pc ac, pos, search, h, t, pp, pn, hwf, hpre, hak => by
    by_cases hlt : lcpLen search pfx < pfx.length
    · exact spec_split kind label pfx cs ppath pnames hs pc ac pos search h t pp pn hwf hpre hlt
    · have hle : lcpLen search pfx = pfx.length := by
        have := lcpLen_le_right search pfx; omega
      have hs := eq_append_of_lcpLen search pfx hle
      generalize search.drop pfx.length = s2 at hs
      subst hs
      cases s2 with
      | nil =>
        simp only [List.append_nil]
        exact spec_exists kind label pfx cs ppath pnames hs pc ac pos h t pp pn hwf
      | cons c0 s' =>
        have hwf' := (WF_mk ..).1 hwf
        exact spec_descend kind label pfx cs ppath pnames hs pc ac pos c0 s' h t pp pn hwf hpre hak
          (fun hp => insertL_gen cs c0 (c0 :: s') h t pp pn hwf'.2.2.2.1 hwf'.2.2.2.2.1 hp rfl hak)
          (fun hp => insertO_gen pc .pkind (c0 :: s') h t pp pn hwf'.2.2.2.2.2.1 hp hak)
          (fun hp => insertO_gen ac .akind (c0 :: s') h t pp pn hwf'.2.2.2.2.2.2 hp hak)
theorem insertL_gen : (cs : List Node) → (c0 : UInt8) → (s : Bytes) → (h : Option Nat) → (t : Kind) → (pp : Bytes) →
    (pn : List Bytes) → WFL cs → (cs.map Node.label).Nodup → (∀ c ∈ cs, c.label = c0 → Pre c s t) →
    s.head? = some c0 → (t = .akind → h.isSome = true) →
    SpecL cs c0 s h pp pn (insertL cs c0 s h t pp pn)
  | [], c0, s, h, t, pp, pn, _, _, _, _, _ => by
    left; simp [insertL]
  | c :: r, c0, s, h, t, pp, pn, hw, hnd, hpre, hhd, hak => by
    simp only [WFL] at hw
    simp only [List.map_cons, List.nodup_cons] at hnd
    rw [insertL]
    unfold SpecL
    simp only [routesL, boundsL]
    by_cases hl : c.label = c0
    · simp only [hl, if_true]
      right
      refine ⟨⟨c, by simp, hl⟩, ?_⟩
      have hnr : ¬ Conf (routesL r) s h := by
        rintro ⟨-, hk⟩
        obtain ⟨c', hm, hh⟩ := keysL_head r hw.2 s hk
        rw [hhd] at hh
        simp only [Option.some.injEq] at hh
        exact hnd.1 (List.mem_map.2 ⟨c', hm, by rw [← hh, hl]⟩)
      rcases insert_gen c .skind s h t pp pn hw.1 (hpre c (by simp) hl) hak with
        ⟨hconf, hr⟩ | ⟨hnconf, c', hr, hwc, hlab, hupd, hpn⟩
      · rw [hr]; left; exact ⟨(conf_append _ _ _ _).2 (Or.inl hconf), rfl⟩
      · rw [hr]; right
        refine ⟨fun hc => ?_, c' :: r, rfl, ⟨hwc, hw.2⟩, by simp [hlab], upd_app_left hupd, ?_⟩
        · rcases (conf_append _ _ _ _).1 hc with hc | hc
          · exact hnconf hc
          · exact hnr hc
        · intro j cap hpk hlen hcap
          simp only [PnOKL] at hpk ⊢
          exact ⟨hpn j cap hpk.1 hlen hcap, hpk.2⟩
    · simp only [hl, if_false]
      have hnc : ¬ Conf (routes c) s h := by
        rintro ⟨-, hk⟩
        have hh := bounds_head c _ hw.1 s (keys_sub_bounds c s hk)
        rw [hhd] at hh
        simp only [Option.some.injEq] at hh
        exact hl hh.symm
      rcases insertL_gen r c0 s h t pp pn hw.2 hnd.2 (fun c' hm => hpre c' (List.mem_cons_of_mem _ hm)) hhd hak with
        ⟨hnone, hr⟩ | ⟨⟨c', hm, hl'⟩, ⟨hconf, hr⟩ | ⟨hnconf, r', hr, hwr, hlabs, hupd, hpn⟩⟩
      · rw [hr]; left
        refine ⟨fun x hx => ?_, rfl⟩
        rcases List.mem_cons.1 hx with rfl | hx
        · exact hl
        · exact hnone x hx
      · rw [hr]; right
        exact ⟨⟨c', List.mem_cons_of_mem _ hm, hl'⟩, Or.inl ⟨(conf_append _ _ _ _).2 (Or.inr hconf), rfl⟩⟩
      · rw [hr]; right
        refine ⟨⟨c', List.mem_cons_of_mem _ hm, hl'⟩, Or.inr ⟨fun hc => ?_, c :: r', rfl, ⟨hw.1, hwr⟩, by simp [hlabs],
          upd_app_right hupd, ?_⟩⟩
        · rcases (conf_append _ _ _ _).1 hc with hc | hc
          · exact hnc hc
          · exact hnconf hc
        · intro j cap hpk hlen hcap
          simp only [PnOKL] at hpk ⊢
          exact ⟨hpk.1, hpn j cap hpk.2 hlen hcap⟩
theorem insertO_gen : (o : Option Node) → (pos : Kind) → (s : Bytes) → (h : Option Nat) → (t : Kind) → (pp : Bytes) →
    (pn : List Bytes) → WFO o pos → (∀ c, o = some c → Pre c s t) → (t = .akind → h.isSome = true) →
    SpecO o pos s h pp pn (insertO o s h t pp pn)
  | none, pos, s, h, t, pp, pn, _, _, _ => by
    left; exact ⟨rfl, by simp [insertO]⟩
  | some c, pos, s, h, t, pp, pn, hw, hpre, hak => by
    simp only [WFO] at hw
    rw [insertO]
    unfold SpecO
    simp only [routesO, boundsO]
    right
    rcases insert_gen c pos s h t pp pn hw (hpre c rfl) hak with
      ⟨hconf, hr⟩ | ⟨hnconf, c', hr, hwc, hlab, hupd, hpn⟩
    · rw [hr]; left; exact ⟨hconf, rfl⟩
    · rw [hr]; right
      refine ⟨hnconf, some c', rfl, hwc, hupd, ?_⟩
      intro j cap hpk hlen hcap
      simp only [PnOKO] at hpk ⊢
      exact hpn j cap hpk hlen hcap
end

/-! ## the statements used by the `addRoute` proofs -/

/-- precondition under which `router.addRoute` calls `insert` -/
def Ready (n : Node) (search : Bytes) (t : Kind) : Prop :=
  match t with
  | .skind => search ≠ [] ∧ ∃ b lit, search = b ++ lit ∧ Lit lit ∧ (b = [] ∨ (b ∈ bounds n ∧ (42 : UInt8) ∉ b))
  | .pkind => ∃ b, b ∈ bounds n ∧ (42 : UInt8) ∉ b ∧ search = b ++ [58]
  | .akind => ∃ b, b ∈ bounds n ∧ (42 : UInt8) ∉ b ∧ search = b ++ [42]

theorem head_of_bound (n : Node) (pos : Kind) (hwf : WF n pos) (b rest : Bytes) (hb : b ∈ bounds n) :
    (b ++ rest).head? = n.pfx.head? := by
  rw [WF_pfx n pos hwf]
  have := bounds_head n pos hwf b hb
  cases b with
  | nil => simp at this
  | cons x b => simpa using this

theorem ready_pre (n : Node) (search : Bytes) (t : Kind) (hwf : WF n .skind) (hr : Ready n search t)
    (hhd : t = .skind → search.head? = n.pfx.head?) : Pre n search t := by
  cases t with
  | skind =>
    obtain ⟨-, b, lit, he, hl, hb⟩ := hr
    exact ⟨hhd rfl, b, lit, he, hl, hb⟩
  | pkind =>
    obtain ⟨b, hb, h42, he⟩ := hr
    exact ⟨he ▸ head_of_bound n _ hwf b _ hb, b, [58], he, rfl, Or.inr ⟨hb, h42⟩⟩
  | akind =>
    obtain ⟨b, hb, h42, he⟩ := hr
    exact ⟨he ▸ head_of_bound n _ hwf b _ hb, b, [42], he, rfl, Or.inr ⟨hb, h42⟩⟩

/-- MAIN: on a well-formed tree `insert` either reports a conflict (exactly when a handler is to be
stored at a key that already has one) or returns a well-formed tree that denotes the old routes
plus the new one, keeps all node boundaries and makes `search` a boundary.

Two hypotheses are added to the statement that was asked for, because it is false without them
(see `insert_spec_needs_head`, `insert_spec_needs_handler` below): a literal key that does not
continue a boundary must start with the first byte of the root prefix (in `addRoute` both are `/`),
and a catch-all node is only ever created with handlers. -/
theorem insert_spec (n : Node) (search : Bytes) (h : Option Nat) (t : Kind) (pp : Bytes) (pn : List Bytes)
    (hwf : WF n .skind) (hr : Ready n search t)
    (hhd : t = .skind → search.head? = n.pfx.head?) (hak : t = .akind → h.isSome = true) :
    (h.isSome = true ∧ search ∈ keys (routes n) ∧ Route.insert n search h t pp pn = .error .conflict) ∨
    (¬ (h.isSome = true ∧ search ∈ keys (routes n)) ∧ ∃ n', Route.insert n search h t pp pn = .ok n' ∧ WF n' .skind ∧
      (∀ kv, kv ∈ routes n' ↔ (kv ∈ routes n ∨ ∃ x, h = some x ∧ kv = (search, Val.mk x pp pn))) ∧
      (∀ b, b ∈ bounds n → b ∈ bounds n') ∧ search ∈ bounds n') := by
  rcases insert_gen n .skind search h t pp pn hwf (ready_pre n search t hwf hr hhd) hak with
    ⟨hconf, hr⟩ | ⟨hnconf, n', hr, hwn, -, hupd, -⟩
  · exact Or.inl ⟨hconf.1, hconf.2, hr⟩
  · exact Or.inr ⟨hnconf, n', hr, hwn, hupd.1, hupd.2.1, hupd.2.2⟩

/-- the root keeps its label and the first byte of its prefix -/
theorem insert_head (n : Node) (search : Bytes) (h : Option Nat) (t : Kind) (pp : Bytes) (pn : List Bytes) (n' : Node)
    (hwf : WF n .skind) (hr : Ready n search t)
    (hhd : t = .skind → search.head? = n.pfx.head?) (hak : t = .akind → h.isSome = true)
    (hins : Route.insert n search h t pp pn = .ok n') : n'.label = n.label ∧ n'.pfx.head? = n.pfx.head? := by
  rcases insert_gen n .skind search h t pp pn hwf (ready_pre n search t hwf hr hhd) hak with
    ⟨-, hr⟩ | ⟨-, n'', hr, hwn, hl, -, -⟩
  · rw [hr] at hins; cases hins
  · rw [hr] at hins; cases hins
    exact ⟨hl, by rw [WF_pfx _ _ hwn, WF_pfx _ _ hwf, hl]⟩

theorem lcpLen_nil (s : Bytes) : lcpLen s [] = 0 := by cases s <;> simp [lcpLen]

/-- first insertion into the empty root (`Node.empty`), the "At root node" branch -/
theorem insert_empty (search : Bytes) (h : Option Nat) (pp : Bytes) (pn : List Bytes) (hs : search ≠ [])
    (hl : Lit search) :
    ∃ n', Route.insert Node.empty search h .skind pp pn = .ok n' ∧ WF n' .skind ∧
      (∀ kv, kv ∈ routes n' ↔ ∃ x, h = some x ∧ kv = (search, Val.mk x pp pn)) ∧ search ∈ bounds n' := by
  cases search with
  | nil => exact absurd rfl hs
  | cons c0 r =>
    cases h with
    | none =>
      refine ⟨.mk .skind c0 (c0 :: r) [] [] [] none none none, ?_, ?_, ?_, ?_⟩
      · simp [Node.empty, Route.insert, lcpLen_nil]
      · rw [WF_mk]; exact ⟨rfl, rfl, ⟨hs, hl⟩, trivial, by simp, trivial, trivial⟩
      · intro kv; simp [routes_mk, hsPart, routesL, routesO]
      · simp [bounds_mk]
    | some x =>
      refine ⟨.mk .skind c0 (c0 :: r) [] pp pn (some x) none none, ?_, ?_, ?_, ?_⟩
      · simp [Node.empty, Route.insert, lcpLen_nil]
      · rw [WF_mk]; exact ⟨rfl, rfl, ⟨hs, hl⟩, trivial, by simp, trivial, trivial⟩
      · intro kv; simp [routes_mk, hsPart, routesL, routesO, pref]
      · simp [bounds_mk]

/-- parameter-name bookkeeping is preserved -/
theorem insert_pnok (n : Node) (search : Bytes) (h : Option Nat) (t : Kind) (pp : Bytes) (pn : List Bytes) (cap : Nat)
    (n' : Node) (hwf : WF n .skind) (hr : Ready n search t)
    (hhd : t = .skind → search.head? = n.pfx.head?) (hak : t = .akind → h.isSome = true)
    (hp : PnOK n 0 cap)
    (hlen : h.isSome = true → pn.length = wild search) (hcap : wild search ≤ cap)
    (hins : Route.insert n search h t pp pn = .ok n') : PnOK n' 0 cap := by
  rcases insert_gen n .skind search h t pp pn hwf (ready_pre n search t hwf hr hhd) hak with
    ⟨-, hr⟩ | ⟨-, n'', hr, -, -, -, hpn⟩
  · rw [hr] at hins; cases hins
  · rw [hr] at hins; cases hins
    exact hpn 0 cap hp (fun hh => by rw [hlen hh]; omega) (by omega)

mutual
theorem pnok_mono : (n : Node) → ∀ j cap cap', PnOK n j cap → cap ≤ cap' → PnOK n j cap'
  | .mk kind label pfx cs ppath pnames hs pc ac => by
    intro j cap cap' hp hc
    rw [PnOK_mk] at hp ⊢
    exact ⟨by omega, hp.2.1, pnokL_mono cs _ _ _ hp.2.2.1 hc, pnokO_mono pc _ _ _ hp.2.2.2.1 hc,
      pnokO_mono ac _ _ _ hp.2.2.2.2 hc⟩
theorem pnokL_mono : (l : List Node) → ∀ j cap cap', PnOKL l j cap → cap ≤ cap' → PnOKL l j cap'
  | [] => by intros; trivial
  | c :: r => by
    intro j cap cap' hp hc
    simp only [PnOKL] at hp ⊢
    exact ⟨pnok_mono c _ _ _ hp.1 hc, pnokL_mono r _ _ _ hp.2 hc⟩
theorem pnokO_mono : (o : Option Node) → ∀ j cap cap', PnOKO o j cap → cap ≤ cap' → PnOKO o j cap'
  | none => by intros; trivial
  | some c => by
    intro j cap cap' hp hc
    simp only [PnOKO] at hp ⊢
    exact pnok_mono c _ _ _ hp hc
end

/-! ## why the two extra hypotheses of `insert_spec` are needed -/

/-- without `hhd`: root `/` (with a handler), key `a`: the "At root node" branch overwrites the prefix -/
theorem insert_spec_needs_head :
    let n : Node := .mk .skind 47 [47] [] [] [] (some 1) none none
    WF n .skind ∧ Ready n [97] .skind ∧
      Route.insert n [97] (some 2) .skind [] [] = .ok (.mk .skind 97 [97] [] [] [] (some 2) none none) ∧
      (([47] : Bytes), Val.mk 1 [] []) ∈ routes n ∧
      (([47] : Bytes), Val.mk 1 [] []) ∉ routes (.mk .skind 97 [97] [] [] [] (some 2) none none) := by
  refine ⟨?_, ?_, ?_, ?_, ?_⟩
  · rw [WF_mk]; refine ⟨rfl, rfl, ⟨by simp, ?_⟩, trivial, by simp, trivial, trivial⟩
    intro c hc; simp at hc; subst hc; decide
  · refine ⟨by simp, [], [97], rfl, ?_, Or.inl rfl⟩
    intro c hc; simp at hc; subst hc; decide
  · simp [Route.insert, lcpLen]
  · simp [routes_mk, hsPart, routesL, routesO, pref]
  · simp [routes_mk, hsPart, routesL, routesO, pref]

/-- without `hak`: a catch-all child created without handlers is not `WF` -/
theorem insert_spec_needs_handler :
    let n : Node := .mk .skind 47 [47] [] [] [] none none none
    WF n .skind ∧ Ready n [47, 42] .akind ∧
      Route.insert n [47, 42] none .akind [] [] =
        .ok (.mk .skind 47 [47] [] [] [] none none (some (.mk .akind 42 [42] [] [] [] none none none))) ∧
      ¬ WF (.mk .skind 47 [47] [] [] [] none none (some (.mk .akind 42 [42] [] [] [] none none none))) .skind := by
  refine ⟨?_, ?_, ?_, ?_⟩
  · rw [WF_mk]; refine ⟨rfl, rfl, ⟨by simp, ?_⟩, trivial, by simp, trivial, trivial⟩
    intro c hc; simp at hc; subst hc; decide
  · exact ⟨[47], by simp [bounds_mk], by simp, rfl⟩
  · simp [Route.insert, lcpLen, insertL, paramLabel, anyLabel]
  · rw [WF_mk]; simp only [WFO]; rw [WF_mk]; simp


end Hertz.Route
