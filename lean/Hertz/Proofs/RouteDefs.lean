import Hertz.Model.Route
import Hertz.Spec.Route
/-!
Shared definitions for the C06 proofs: what a tree *denotes* (`routes`: the registered keys with
their values, a key being the route pattern with parameter names removed, `:` = parameter, `*` =
catch-all), the tree invariant (`WF`, `PnOK`), and the priority rule on keys (`matchS`, `preferS`,
`Best`).  `Proofs/RouteFind.lean` relates `visit`/`find` to `routes`; `Proofs/RouteInsert.lean`
relates `insert` to `routes`; `Proofs/RouteBridge.lean` relates keys to the tokens of `Spec.Route`.
-/
namespace Hertz.Route

/-- what is stored at a node that carries handlers -/
structure Val where
  h : Nat
  ppath : Bytes
  pnames : List Bytes
  deriving DecidableEq, Repr

/-- literal text: no wildcard marker -/
def Lit (b : Bytes) : Prop := ∀ c ∈ b, c ≠ 58 ∧ c ≠ 42

mutual
/-- the routes below (and at) a node, keys relative to the node's parent (they start with `pfx`) -/
def routes : Node → List (Bytes × Val)
  | .mk _ _ pfx cs ppath pnames hs pc ac =>
    ((match hs with | some h => [(([] : Bytes), Val.mk h ppath pnames)] | none => [])
      ++ routesL cs ++ routesO pc ++ routesO ac).map (fun kv => (pfx ++ kv.1, kv.2))
def routesL : List Node → List (Bytes × Val)
  | [] => []
  | c :: r => routes c ++ routesL r
def routesO : Option Node → List (Bytes × Val)
  | none => []
  | some c => routes c
end

/-- routes of a node relative to the node itself (its own prefix already consumed) -/
def routesBody : Node → List (Bytes × Val)
  | .mk _ _ _ cs ppath pnames hs pc ac =>
    (match hs with | some h => [(([] : Bytes), Val.mk h ppath pnames)] | none => [])
      ++ routesL cs ++ routesO pc ++ routesO ac

mutual
/-- all node boundaries (keys at which a node ends), with or without handlers -/
def bounds : Node → List Bytes
  | .mk _ _ pfx cs _ _ _ pc ac =>
    (([] : Bytes) :: (boundsL cs ++ boundsO pc ++ boundsO ac)).map (fun k => pfx ++ k)
def boundsL : List Node → List Bytes
  | [] => []
  | c :: r => bounds c ++ boundsL r
def boundsO : Option Node → List Bytes
  | none => []
  | some c => bounds c
end

mutual
/-- `WF n pos`: `n` is well formed as a node in position `pos` (`skind`: root or member of
`children`; `pkind`: a `paramChild`; `akind`: an `anyChild`) -/
def WF : Node → Kind → Prop
  | .mk kind label pfx cs _ _ hs pc ac, pos =>
    kind = pos ∧ label = pfx.headD 0 ∧
    (match pos with
      | .skind => pfx ≠ [] ∧ Lit pfx
      | .pkind => pfx = [58]
      | .akind => pfx = [42] ∧ cs = [] ∧ pc = none ∧ ac = none ∧ hs.isSome = true) ∧
    WFL cs ∧ (cs.map Node.label).Nodup ∧ WFO pc .pkind ∧ WFO ac .akind
def WFL : List Node → Prop
  | [] => True
  | c :: r => WF c .skind ∧ WFL r
def WFO : Option Node → Kind → Prop
  | none, _ => True
  | some c, pos => WF c pos
end

/-- the root of a method tree: still empty, or a well-formed static node -/
def WFroot (n : Node) : Prop := n = Node.empty ∨ WF n .skind

/-- number of wildcard nodes down to and including a node of kind `k` below `j` wildcards -/
def depthAt (k : Kind) (j : Nat) : Nat := if k = .skind then j else j + 1

mutual
/-- `PnOK n j cap`: `j` wildcard nodes lie strictly above `n`; every node with handlers has as many
parameter names as there are wildcard nodes on its path, and no path has more than `cap` of them -/
def PnOK : Node → Nat → Nat → Prop
  | .mk kind _ _ cs _ pnames hs pc ac, j, cap =>
    depthAt kind j ≤ cap ∧ (hs.isSome = true → pnames.length = depthAt kind j) ∧
    PnOKL cs (depthAt kind j) cap ∧ PnOKO pc (depthAt kind j) cap ∧ PnOKO ac (depthAt kind j) cap
def PnOKL : List Node → Nat → Nat → Prop
  | [], _, _ => True
  | c :: r, j, cap => PnOK c j cap ∧ PnOKL r j cap
def PnOKO : Option Node → Nat → Nat → Prop
  | none, _, _ => True
  | some c, j, cap => PnOK c j cap
end

/-- a key (pattern with names removed) against a path: the parameter values, in order -/
def matchS : Bytes → Bytes → Option (List Bytes)
  | [], [] => some []
  | [], _ :: _ => none
  | c :: k, p =>
    if c = 58 then
      (if p.isEmpty then none else
        match matchS k (segRest p) with
        | none => none
        | some r => some (segValue p :: r))
    else if c = 42 then some [p]
    else match p with
      | [] => none
      | d :: p' => if c = d then matchS k p' else none

/-- rank of a key byte: literal < parameter < catch-all (end of key is below all of them) -/
def rankB (c : UInt8) : Nat := if c = 58 then 2 else if c = 42 then 3 else 1

/-- `preferS a b`: at the first position where the keys differ, `a` has the better byte -/
def preferS : Bytes → Bytes → Bool
  | [], _ => true
  | _ :: _, [] => false
  | x :: a, y :: b => if x = y then preferS a b else rankB x < rankB y

/-- `(k, v)` is the route the priority rule selects for the remaining path `s` among `R` -/
def Best (R : List (Bytes × Val)) (s : Bytes) (k : Bytes) (v : Val) (vals : List Bytes) : Prop :=
  (k, v) ∈ R ∧ matchS k s = some vals ∧ ∀ kv ∈ R, (matchS kv.1 s).isSome = true → preferS k kv.1 = true

def NoneMatch (R : List (Bytes × Val)) (s : Bytes) : Prop := ∀ kv ∈ R, matchS kv.1 s = none

/-- what the search below a node must return, given the routes `R` below it, the remaining path `s`
and the parameter values `ps` collected above -/
def SpecRes (R : List (Bytes × Val)) (s : Bytes) (ps : List Bytes) (r : Res) : Prop :=
  (∃ k v vals, Best R s k v vals ∧ r = .hit ⟨v.h, v.ppath, zipKeys v.pnames (ps ++ vals)⟩) ∨
  (NoneMatch R s ∧ r = .miss)

/-- number of wildcard markers in a key -/
def wild (k : Bytes) : Nat := k.count 58 + k.count 42

end Hertz.Route
