import Hertz.Proofs.Tie
import Hertz.Model.HeaderWrite
/-!
`Hertz.Props.Tie`, part 2: `IsBadTrailer`, `newlineToSpace`, `appendHeaderLine`, `LowercaseBytes`, `NextLine`.
-/
open Hertz

namespace Hertz.Tie

/-! ### slices -/

theorem sliceTo_ok (b : Bytes) (n : Nat) (h : n ≤ b.length) : Go.sliceTo b (n : Int) = .ok (b.take n) := by
  simp [Go.sliceTo, Go.slice, Go.len]; omega

theorem sliceFrom_ok (b : Bytes) (n : Nat) (h : n ≤ b.length) : Go.sliceFrom b (n : Int) = .ok (b.drop n) := by
  simp [Go.sliceFrom, Go.slice, Go.len]; omega

/-! ### `for i := 0; i < len(b); i++ { b[i] = f(b[i]) }` -/

theorem mapLoop (f : UInt8 → UInt8) (cond : Bytes × Int → Go.G Bool) (body : Bytes × Int → Go.G (Go.Ctl (Bytes × Int) Bytes))
    (post : Bytes × Int → Go.G (Bytes × Int))
    (hc : ∀ b i, cond (b, i) = .ok (decide (i < Go.len b)))
    (hb : ∀ (p : Bytes) c t, body (p ++ c :: t, (p.length : Int)) = .ok (.next (p ++ f c :: t, (p.length : Int))))
    (hp : ∀ b i, post (b, i) = .ok (b, Go.add i 1)) :
    ∀ (t p : Bytes) (fuel : Nat), (p ++ t).length < 2^63 → t.length < fuel →
      Go.forLoop cond body post fuel (p ++ t, (p.length : Int)) = .ok (.next (p ++ t.map f, ((p ++ t).length : Int))) := by
  intro t
  induction t with
  | nil =>
    intro p fuel _ hf
    cases fuel with
    | zero => omega
    | succ k => simp [Go.forLoop, hc, Go.len]
  | cons c t ih =>
    intro p fuel hl hf
    cases fuel with
    | zero => omega
    | succ k =>
      have h1 : cond (p ++ c :: t, (p.length : Int)) = .ok true := by
        rw [hc]; simp [Go.len]; omega
      have hpa : (p.length : Int) + 1 < 9223372036854775808 := by simp at hl; omega
      have h3 : Go.add (p.length : Int) 1 = ((p ++ [f c]).length : Int) := by
        unfold Go.add; rw [wrap_id (by omega) hpa]; simp
      have h4 : p ++ f c :: t = (p ++ [f c]) ++ t := by simp
      simp only [Go.forLoop, h1, hb, hp, h3]
      rw [h4, ih (p ++ [f c]) k (by simp at hl ⊢; omega) (by simp at hf; omega)]
      simp

theorem mapLoop0 (f : UInt8 → UInt8) (cond : Bytes × Int → Go.G Bool) (body : Bytes × Int → Go.G (Go.Ctl (Bytes × Int) Bytes))
    (post : Bytes × Int → Go.G (Bytes × Int))
    (hc : ∀ b i, cond (b, i) = .ok (decide (i < Go.len b)))
    (hb : ∀ (p : Bytes) c t, body (p ++ c :: t, (p.length : Int)) = .ok (.next (p ++ f c :: t, (p.length : Int))))
    (hp : ∀ b i, post (b, i) = .ok (b, Go.add i 1))
    (b : Bytes) (fuel : Nat) (hl : b.length < 2^63) (hf : b.length < fuel) :
    Go.forLoop cond body post fuel (b, (0 : Int)) = .ok (.next (b.map f, (b.length : Int))) := by
  simpa using mapLoop f cond body post hc hb hp b [] fuel (by simpa using hl) hf

theorem setIdx_append (p : Bytes) (c v : UInt8) (t : Bytes) :
    Go.setIdx (p ++ c :: t) (p.length : Int) v = .ok (p ++ v :: t) := by
  simp [Go.setIdx]

/-! ### `bytesconv.LowercaseBytes` -/

theorem lowercaseBytes_eq (b : Bytes) (hlen : b.length < 2^63) :
    Gen.Funcs.lowercaseBytes b = .ok (b.map toLower) := by
  unfold Gen.Funcs.lowercaseBytes
  dsimp only
  rw [mapLoop0 toLower _ _ _ (fun _ _ => rfl) ?hb (fun _ _ => rfl) b _ hlen (by simp [Go.fuelOf, Go.len])]
  · rfl
  · intro p c t
    simp only [idx_append, setIdx_append, Except.bind, toLower]

example : Gen.Funcs.lowercaseBytes [72, 111, 83, 84, 45, 90, 64, 91] = .ok [104, 111, 115, 116, 45, 122, 64, 91] := by
  decide +kernel

/-! ### `newlineToSpace` -/

theorem copy_make (val : Bytes) : Go.copy (List.replicate val.length 0) val = val := by
  simp [Go.copy]

theorem newlineToSpace_eq (val : Bytes) (hlen : val.length < 2^63) :
    Gen.Funcs.newlineToSpace val = .ok (HW.newlineToSpace val) := by
  unfold Gen.Funcs.newlineToSpace
  have hm : Go.make (Go.len val) = .ok (List.replicate val.length 0) := by
    have : ¬ ((val.length : Int) < 0) := by omega
    simp [Go.make, Go.len, this]
  rw [hm]
  simp only [Except.bind, copy_make]
  rw [mapLoop0 (fun c => tget Gen.newlineToSpaceTable c) _ _ _ (fun _ _ => rfl) ?hb (fun _ _ => rfl) val _ hlen
    (by simp [Go.fuelOf, Go.len])]
  · rfl
  · intro p c t
    simp only [idx_append, setIdx_append]

example : Gen.Funcs.newlineToSpace [97, 13, 10, 98] = .ok [97, 32, 32, 98] := by decide +kernel

/-! ### `appendHeaderLine` -/

theorem validLoop (dst : Bytes) (body : UInt8 → Unit → Go.G (Go.Ctl Unit Bytes))
    (hb : ∀ k u, body k u = if (tget Gen.validHeaderFieldNameTable k) == (0 : UInt8) then .ok (.ret dst) else .ok (.next ())) :
    ∀ key : Bytes, Go.rangeLoop body key () = .ok (if HW.validName key then .next () else .ret dst) := by
  intro key
  induction key with
  | nil => simp [Go.rangeLoop, HW.validName]
  | cons c t ih =>
    by_cases h : tget Gen.validHeaderFieldNameTable c = 0
    · simp [Go.rangeLoop, hb, h, HW.validName]
    · simp only [HW.validName] at ih
      simp [Go.rangeLoop, hb, h, HW.validName, ih]

theorem appendHeaderLine_eq (dst key value : Bytes) (hlen : value.length < 2^63) :
    Gen.Funcs.appendHeaderLine dst key value = .ok (dst ++ HW.headerLine (key, value)) := by
  unfold Gen.Funcs.appendHeaderLine
  rw [validLoop dst _ (fun _ _ => rfl) key, newlineToSpace_eq value hlen]
  by_cases h : HW.validName key <;> simp [h, Except.bind, HW.headerLine]

example : Gen.Funcs.appendHeaderLine [1] [72, 111] [97, 10, 98] = .ok [1, 72, 111, 58, 32, 97, 32, 98, 13, 10] := by
  decide +kernel
example : Gen.Funcs.appendHeaderLine [1] [72, 32] [97, 10, 98] = .ok [1] := by decide +kernel

/-! ### `utils.NextLine` -/

theorem indexByteNat_eq (c : UInt8) : ∀ b : Bytes, Go.indexByteNat c b = H1.indexByte c b
  | [] => rfl
  | x :: t => by simp [Go.indexByteNat, H1.indexByte, indexByteNat_eq c t]

theorem indexByte_lt (c : UInt8) : ∀ (b : Bytes) (n : Nat), H1.indexByte c b = some n → n < b.length
  | [], n, h => by simp [H1.indexByte] at h
  | x :: t, n, h => by
    simp only [H1.indexByte] at h
    by_cases hx : x = c
    · simp [hx] at h; subst h; simp
    · simp [hx] at h
      obtain ⟨m, hm, rfl⟩ := h
      have := indexByte_lt c t m hm
      simp; omega

theorem idx_ok (b : Bytes) (m : Nat) (h : m < b.length) : Go.idx b (m : Int) = .ok b[m] := by
  simp [Go.idx, h]

theorem nextLine_eq (b : Bytes) (hlen : b.length < 2^63) :
    Gen.Funcs.nextLine b = .ok (match H1.nextLine b with
      | some (line, rest) => (line, rest, none)
      | none => ([], [], some "errNeedMore")) := by
  unfold Gen.Funcs.nextLine H1.nextLine Go.indexByte
  rw [indexByteNat_eq]
  cases h : H1.indexByte 10 b with
  | none => simp
  | some n =>
    have hn := indexByte_lt 10 b n h
    have e1 : Go.add (n : Int) 1 = ((n + 1 : Nat) : Int) := by
      unfold Go.add; rw [wrap_id] <;> push_cast <;> omega
    have e3 := sliceFrom_ok b (n + 1) (by omega)
    dsimp only
    rw [e1, e3]
    cases n with
    | zero =>
      have e4 := sliceTo_ok b 0 (by omega)
      simp at e4
      simp [e4, Except.bind]
    | succ m =>
      have e2 : Go.sub ((m + 1 : Nat) : Int) 1 = (m : Int) := by
        unfold Go.sub; rw [wrap_id] <;> push_cast <;> omega
      have e4 := sliceTo_ok b m (by omega)
      have e5 := sliceTo_ok b (m + 1) (by omega)
      have e6 := idx_ok b m (by omega)
      have e7 : (List.take (m + 1) b).getLast? = some b[m] := by
        rw [List.getLast?_take]; simp [show m < b.length by omega]
      have e8 : (List.take (m + 1) b).dropLast = List.take m b := by
        rw [List.dropLast_take hn]; rfl
      have hpos : ((m + 1 : Nat) : Int) > 0 := by omega
      rw [e2, e4, e5, e6, e7]
      simp only [hpos, decide_true, if_true, Except.bind]
      by_cases h13 : b[m] = 13 <;> simp [h13, e8] <;> omega

example : Gen.Funcs.nextLine [97, 98, 13, 10, 99] = .ok ([97, 98], [99], none) := by decide +kernel
example : Gen.Funcs.nextLine [97, 98, 10, 99] = .ok ([97, 98], [99], none) := by decide +kernel
example : Gen.Funcs.nextLine [97, 98, 13] = .ok ([], [], some "errNeedMore") := by decide +kernel

/-! ### `protocol.IsBadTrailer` -/

theorem sliceTo_lit (b : Bytes) (n : Nat) (h : n ≤ b.length) : Go.sliceTo b (OfNat.ofNat n : Int) = .ok (b.take n) :=
  sliceTo_ok b n h
theorem sliceFrom_lit (b : Bytes) (n : Nat) (h : n ≤ b.length) : Go.sliceFrom b (OfNat.ofNat n : Int) = .ok (b.drop n) :=
  sliceFrom_ok b n h

open Hertz.Gen.Str in
theorem isBadTrailer_eq (key : Bytes) (hlen : key.length < 2^63) :
    Gen.Funcs.isBadTrailer key = .ok (H1.isBadTrailer key) := by
  cases key with
  | nil => simp [Gen.Funcs.isBadTrailer, H1.isBadTrailer, Go.len]
  | cons k0 t =>
    unfold Gen.Funcs.isBadTrailer H1.isBadTrailer
    have h0 : Go.idx (k0 :: t) 0 = .ok k0 := by simp [Go.idx]
    have hne : (Go.len (k0 :: t) == 0) = false := by simp [Go.len]; omega
    rw [h0]
    simp only [hne, Bool.false_eq_true, if_false, Except.bind]
    generalize k0 :: t = key at hlen ⊢
    have ciK : ∀ b, Gen.Funcs.caseInsensitiveCompare key b = .ok (H1.ciEq key b) :=
      fun b => caseInsensitiveCompare_eq key b hlen
    have ciT : ∀ n b, Gen.Funcs.caseInsensitiveCompare (key.take n) b = .ok (H1.ciEq (key.take n) b) :=
      fun n b => caseInsensitiveCompare_eq _ b (by simp; omega)
    have ciD : ∀ n b, Gen.Funcs.caseInsensitiveCompare (key.drop n) b = .ok (H1.ciEq (key.drop n) b) :=
      fun n b => caseInsensitiveCompare_eq _ b (by simp; omega)
    have c1 := sliceTo_lit strContentType 8 (by decide)
    have c2 := sliceFrom_lit strContentEncoding 8 (by decide)
    have c3 := sliceFrom_lit strContentLength 8 (by decide)
    have c4 := sliceFrom_lit strContentType 8 (by decide)
    have c5 := sliceFrom_lit strContentRange 8 (by decide)
    have c6 := sliceTo_lit strProxyConnection 6 (by decide)
    have c7 := sliceFrom_lit strProxyConnection 6 (by decide)
    have c8 := sliceFrom_lit strProxyAuthenticate 6 (by decide)
    have c9 := sliceFrom_lit strProxyAuthorization 6 (by decide)
    by_cases h97 : k0 ||| 32 = 97
    · simp [h97, ciK]
    by_cases h99 : k0 ||| 32 = 99
    · by_cases h12 : 12 ≤ key.length
      · have s1 := sliceTo_lit key 8 (by omega)
        have s2 := sliceFrom_lit key 8 (by omega)
        simp only [h99, ciK, ciT, ciD, c1, c2, c3, c4, c5, s1, s2, Go.len]
        generalize H1.ciEq (List.take 8 key) (List.take 8 strContentType) = x1
        generalize H1.ciEq (List.drop 8 key) (List.drop 8 strContentEncoding) = x2
        generalize H1.ciEq (List.drop 8 key) (List.drop 8 strContentLength) = x3
        generalize H1.ciEq (List.drop 8 key) (List.drop 8 strContentType) = x4
        generalize H1.ciEq (List.drop 8 key) (List.drop 8 strContentRange) = x5
        have h12' : (key.length : Int) ≥ 12 := by omega
        cases x1 <;> cases x2 <;> cases x3 <;> cases x4 <;> cases x5 <;> simp [h12, h12']
      · have h12' : ¬ (key.length : Int) ≥ 12 := by omega
        simp [h99, ciK, Go.len, h12, h12']
    by_cases h101 : k0 ||| 32 = 101
    · simp [h101, ciK]
    by_cases h104 : k0 ||| 32 = 104
    · simp [h104, ciK]
    by_cases h107 : k0 ||| 32 = 107
    · simp [h107, ciK]
    by_cases h109 : k0 ||| 32 = 109
    · simp [h109, ciK]
    by_cases h112 : k0 ||| 32 = 112
    · by_cases h16 : 16 ≤ key.length
      · have s1 := sliceTo_lit key 6 (by omega)
        have s2 := sliceFrom_lit key 6 (by omega)
        simp only [h112, ciK, ciT, ciD, c6, c7, c8, c9, s1, s2, Go.len]
        generalize H1.ciEq (List.take 6 key) (List.take 6 strProxyConnection) = x1
        generalize H1.ciEq (List.drop 6 key) (List.drop 6 strProxyConnection) = x2
        generalize H1.ciEq (List.drop 6 key) (List.drop 6 strProxyAuthenticate) = x3
        generalize H1.ciEq (List.drop 6 key) (List.drop 6 strProxyAuthorization) = x4
        have h16' : (key.length : Int) ≥ 16 := by omega
        cases x1 <;> cases x2 <;> cases x3 <;> cases x4 <;> simp [h16, h16']
      · have h16' : ¬ (key.length : Int) ≥ 16 := by omega
        simp [h112, Go.len, h16, h16']
    by_cases h114 : k0 ||| 32 = 114
    · simp [h114, ciK]
    by_cases h116 : k0 ||| 32 = 116
    · simp only [h116, ciK]
      generalize H1.ciEq key strTE = x1
      generalize H1.ciEq key strTrailer = x2
      generalize H1.ciEq key strTransferEncoding = x3
      cases x1 <;> cases x2 <;> cases x3 <;> simp
    by_cases h119 : k0 ||| 32 = 119
    · simp [h119, ciK]
    simp [h97, h99, h101, h104, h107, h109, h112, h114, h116, h119]

example : Gen.Funcs.isBadTrailer (str "content-LENGTH") = .ok true := by decide +kernel
example : Gen.Funcs.isBadTrailer (str "Proxy-Authenticate") = .ok true := by decide +kernel
example : Gen.Funcs.isBadTrailer (str "Proxy-Foo") = .ok false := by decide +kernel
example : Gen.Funcs.isBadTrailer (str "X-Checksum") = .ok false := by decide +kernel

end Hertz.Tie
