import Hertz.Proofs.Path
import Hertz.Spec.Path
/-!
Bridge between the byte-level facts proved about `normalizePath` and the segment-level
containment predicate `Spec.contained` used in the statement of C07.
-/
namespace Hertz
open Hertz.Spec

theorem splitSlash_ne_nil : ∀ b : Bytes, splitSlash b ≠ []
  | [] => by simp [splitSlash]
  | c :: t => by
    simp only [splitSlash]
    split
    · simp
    · split <;> simp

theorem render_cons (s : Bytes) (r : List Bytes) : render (s :: r) = 47 :: s ++ render r := by
  simp [render]

theorem render_splitSlash : ∀ b : Bytes, render (splitSlash b) = 47 :: b
  | [] => by simp [splitSlash, render]
  | c :: t => by
    have ih := render_splitSlash t
    simp only [splitSlash]
    split
    · rename_i hc; rw [render_cons, ih, hc]; rfl
    · split
      · rename_i h; exact absurd h (splitSlash_ne_nil t)
      · rename_i s r h
        rw [h, render_cons] at ih
        rw [render_cons]
        simp only [List.cons_append, List.cons.injEq, true_and] at ih ⊢
        rw [ih]

theorem render_head (s : Bytes) (r : List Bytes) : ∃ t, render (s :: r) = 47 :: t := ⟨_, render_cons s r⟩

theorem segsContained_of_render : ∀ segs : List Bytes, segs ≠ [] →
    ¬ SS <:+: render segs → ¬ SDS <:+: render segs → ¬ DDS <:+: render segs → ¬ SDD <:+ render segs →
    segsContained segs = true
  | [], h, _, _, _, _ => absurd rfl h
  | [last], _, _, _, _, h5 => by
    simp only [segsContained, bne_iff_ne, ne_eq]
    intro e; subst e
    exact h5 ⟨[], by simp [render, dotdot]⟩
  | s :: s2 :: rest, _, h2, h3, h4, h5 => by
    obtain ⟨t, ht⟩ := render_head s2 rest
    have hsuf : render (s2 :: rest) <:+ render (s :: s2 :: rest) := ⟨47 :: s, by rw [render_cons s]⟩
    have ih := segsContained_of_render (s2 :: rest) (by simp)
      (fun hi => h2 (hi.trans hsuf.isInfix)) (fun hi => h3 (hi.trans hsuf.isInfix))
      (fun hi => h4 (hi.trans hsuf.isInfix)) (fun hi => h5 (hi.trans hsuf))
    simp only [segsContained, ih, Bool.and_true, Bool.and_eq_true, bne_iff_ne, ne_eq, Bool.not_eq_true',
      List.isEmpty_eq_false_iff]
    refine ⟨⟨?_, ?_⟩, ?_⟩
    · intro e; subst e
      apply h4
      refine ⟨[], t, ?_⟩
      rw [render_cons, ht]; simp [dotdot]
    · intro e; subst e
      apply h3
      refine ⟨[], t, ?_⟩
      rw [render_cons, ht]; simp [dot]
    · intro e; subst e
      apply h2
      refine ⟨[], t, ?_⟩
      rw [render_cons, ht]; simp

/-- The five byte-level facts imply the property's segment-level containment predicate. -/
theorem contained_of_substrings (p : Bytes) (h1 : p.head? = some 47) (h2 : ¬ SS <:+: p) (h3 : ¬ SDS <:+: p)
    (h4 : ¬ DDS <:+: p) (h5 : ¬ SDD <:+ p) : contained p = true := by
  cases p with
  | nil => simp at h1
  | cons c body =>
    simp only [List.head?_cons, Option.some.injEq] at h1
    subst h1
    have e := render_splitSlash body
    simp only [contained, segsOf]
    rw [← e] at h2 h3 h4 h5
    exact segsContained_of_render _ (splitSlash_ne_nil body) h2 h3 h4 h5

/-- The stack-machine reference always yields a contained path. -/
theorem resolve_good : ∀ (st segs : List Bytes), segs ≠ [] →
    (∀ s ∈ st, s ≠ dotdot ∧ s ≠ dot ∧ s ≠ []) → segsContained (resolve st segs) = true
  | _, [], h, _ => absurd rfl h
  | st, [last], _, hst => by
    simp only [resolve]
    split
    · have hgood : ∀ s ∈ (st.drop 1).reverse, s ≠ dotdot ∧ s ≠ dot ∧ s ≠ [] :=
        fun s hs => hst s (List.mem_of_mem_drop (List.mem_reverse.mp hs))
      exact segsContained_append _ [] hgood (by decide)
    · rename_i hl
      have hgood : ∀ s ∈ st.reverse, s ≠ dotdot ∧ s ≠ dot ∧ s ≠ [] :=
        fun s hs => hst s (List.mem_reverse.mp hs)
      exact segsContained_append _ last hgood hl
  | st, s :: s2 :: rest, _, hst => by
    simp only [resolve]
    split
    · exact resolve_good st (s2 :: rest) (by simp) hst
    · rename_i h1
      split
      · exact resolve_good (st.drop 1) (s2 :: rest) (by simp) (fun x hx => hst x (List.mem_of_mem_drop hx))
      · rename_i h2
        refine resolve_good (s :: st) (s2 :: rest) (by simp) ?_
        intro x hx
        rcases List.mem_cons.mp hx with e | e
        · subst e
          refine ⟨h2, fun e => h1 (Or.inr e), fun e => h1 (Or.inl (by simp [e]))⟩
        · exact hst x e
where
  segsContained_append : ∀ (good : List Bytes) (last : Bytes),
      (∀ s ∈ good, s ≠ dotdot ∧ s ≠ dot ∧ s ≠ []) → last ≠ dotdot → segsContained (good ++ [last]) = true
    | [], last, _, hl => by simp [segsContained, hl]
    | g :: gs, last, hg, hl => by
      have ih := segsContained_append gs last (fun s hs => hg s (by simp [hs])) hl
      obtain ⟨a, b, c⟩ := hg g (by simp)
      cases hgs : gs ++ [last] with
      | nil => simp at hgs
      | cons x xs =>
        rw [hgs] at ih
        simp [segsContained, hgs, ih, a, b, c]

end Hertz
