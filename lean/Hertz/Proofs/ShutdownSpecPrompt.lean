import Hertz.Proofs.ShutdownSpecSched
/-!
The `prompt` clause of the trace specification `Hertz.ShutdownSpec` holds on the observable projection
of every run of the interleaving model that respects the scheduling discipline `okSched`.
-/
namespace Hertz.Shutdown
open Hertz.ShutdownSpec

/-! ### spec side: `prompt` as a statement about positions of the event list -/

/-- `idleClose`, as a proposition over the list -/
def IdleCloseL (l : List TEv) (c i : Nat) : Prop :=
  ∀ (j k : Nat) (rc : Bool) (t : Nat), l[j]? = some (TEv.mk (.Q c k rc) t) →
    j < i ∧ ∃ (j' : Nat) (cl : Bool) (t' : Nat), j' < i ∧ l[j']? = some (TEv.mk (.R c k cl true) t')

/-- position `i` (with time stamp `t`) ends connection `c` -/
def EndL (l : List TEv) (c i t : Nat) : Prop :=
  l[i]? = some (TEv.mk (.E c) t) ∨ (l[i]? = some (TEv.mk (.C c) t) ∧ IdleCloseL l c i)

theorem idleClose_iff (l : List TEv) (c i : Nat) : idleClose l.toArray c i = true ↔ IdleCloseL l c i := by
  unfold idleClose IdleCloseL
  rw [List.all_eq_true]
  constructor
  · intro h j k rc t hj
    have := h j (by simpa using getElem?_lt hj)
    rw [evAt_list, hj] at this
    simp only [bne_self_eq_false, Bool.false_or, Bool.and_eq_true, decide_eq_true_eq] at this
    refine ⟨this.1, ?_⟩
    obtain ⟨j', hj', e, he, hp⟩ := (existsBefore_iff _ _ _).1 this.2
    obtain ⟨ev, t'⟩ := e
    simp only [Bool.or_eq_true, beq_iff_eq] at hp
    rcases hp with rfl | rfl
    · exact ⟨j', true, t', hj', he⟩
    · exact ⟨j', false, t', hj', he⟩
  · intro h j _
    split
    · rename_i c' k rc t heq
      rw [evAt_list] at heq
      by_cases hcc : c' = c
      · subst hcc
        obtain ⟨h1, j', cl, t', hj', he⟩ := h j k rc t heq
        have : existsBefore l.toArray i (fun e => e == .R c' k true true || e == .R c' k false true) = true := by
          rw [existsBefore_iff]
          refine ⟨j', hj', _, he, ?_⟩
          cases cl <;> simp
        simp [h1, this]
      · simp [hcc]
    · rfl

theorem connEndAt_iff (l : List TEv) (c i : Nat) : connEndAt l.toArray c i = true ↔ ∃ t, EndL l c i t := by
  unfold connEndAt EndL
  rw [evAt_list]
  cases hi : l[i]? with
  | none => simp
  | some e =>
    obtain ⟨ev, t⟩ := e
    simp only [Bool.or_eq_true, beq_iff_eq, Bool.and_eq_true, idleClose_iff, Option.some.injEq, TEv.mk.injEq]
    constructor
    · rintro (h | ⟨h, h'⟩)
      · exact ⟨t, Or.inl ⟨h, rfl⟩⟩
      · exact ⟨t, Or.inr ⟨⟨h, rfl⟩, h'⟩⟩
    · rintro ⟨t', (⟨h, _⟩ | ⟨⟨h, _⟩, h'⟩)⟩
      · exact Or.inl h
      · exact Or.inr ⟨h, h'⟩

theorem endL_get {l : List TEv} {c i t : Nat} (h : EndL l c i t) :
    ∃ ev, l[i]? = some (TEv.mk ev t) ∧ (ev = .E c ∨ ev = .C c) := by
  rcases h with h | ⟨h, _⟩
  · exact ⟨_, h, Or.inl rfl⟩
  · exact ⟨_, h, Or.inr rfl⟩

/-- "at time `τ` something `Shutdown` has to wait for was still unfinished": the call of `k` itself, a
hook, or an accepted connection (an end that never comes counts as unfinished) -/
def BlockedL (l : List TEv) (nH k τ : Nat) : Prop :=
  (∀ t, TEv.mk (.S k) t ∈ l → τ ≤ t) ∨
  (∃ j, j < nH ∧ ∀ t, TEv.mk (.HE j) t ∈ l → τ ≤ t) ∨
  (∃ c, (∃ t, TEv.mk (.A c) t ∈ l) ∧ ∀ i t, EndL l c i t → τ ≤ t)

theorem le_foldl_max (xs : List Nat) (a : Nat) : a ≤ xs.foldl max a := by
  induction xs generalizing a with
  | nil => simp
  | cons x t ih => simp only [List.foldl_cons]; exact Nat.le_trans (Nat.le_max_left a x) (ih _)

theorem mem_le_foldl_max (xs : List Nat) (a x : Nat) (h : x ∈ xs) : x ≤ xs.foldl max a := by
  induction xs generalizing a with
  | nil => simp at h
  | cons y t ih =>
    simp only [List.foldl_cons]
    rcases List.mem_cons.1 h with rfl | h
    · exact Nat.le_trans (Nat.le_max_right a x) (le_foldl_max _ _)
    · exact ih _ h

theorem q_bound (all : List (Option Nat)) (ts τ : Nat) (hnone : ¬ (all.any (·.isNone) = true))
    (hsome : τ ≤ ts ∨ ∃ o ∈ all, ∀ x, o = some x → τ ≤ x) : τ ≤ (all.filterMap id).foldl max ts := by
  rcases hsome with h | ⟨o, ho, h⟩
  · exact Nat.le_trans h (le_foldl_max _ _)
  · cases o with
    | none => exact absurd (List.any_eq_true.2 ⟨none, ho, rfl⟩) hnone
    | some x =>
      exact Nat.le_trans (h x rfl) (mem_le_foldl_max _ _ _ (List.mem_filterMap.2 ⟨some x, ho, rfl⟩))

theorem prompt_nil (p : Params) (l : List TEv)
    (h : ∀ (w k tw s ts : Nat), l[w]? = some (TEv.mk (.T k "nil") tw) → l[s]? = some (TEv.mk (.S k) ts) →
      ∃ τ, tw ≤ τ + 10 * p.tick + p.slack ∧ BlockedL l p.nHooks k τ) : prompt p l.toArray = [] := by
  unfold prompt
  simp only
  split
  · rfl
  · rename_i w hw
    have hw' := lastIdxOf?_some hw
    obtain ⟨k, tw, hwk⟩ := holdsAt_isTnil.1 hw'
    split
    · rfl
    · rename_i s hs
      unfold winnerCall at hs
      rw [evAt_list, hwk] at hs
      simp only at hs
      obtain ⟨ts, hsk⟩ := holdsAt_eq.1 (idxOf?_some hs).1
      rw [timeAt_list hwk, timeAt_list hsk]
      obtain ⟨τ, hτ, hb⟩ := h w k tw s ts hwk hsk
      split
      · rfl
      · split
        · rfl
        · rename_i hall
          split
          · rename_i hlt
            exfalso
            have hq := q_bound _ ts τ hall ?_
            · simp only at hlt hq
              omega
            · rcases hb with hb | ⟨j, hj, hb⟩ | ⟨c, ⟨ta, hta⟩, hb⟩
              · exact Or.inl (hb ts (List.mem_of_getElem? hsk))
              · refine Or.inr ⟨_, List.mem_append_left _ (List.mem_map.2 ⟨j, List.mem_range.2 hj, rfl⟩), ?_⟩
                intro x hx
                rw [Option.map_eq_some_iff] at hx
                obtain ⟨i, hi, rfl⟩ := hx
                obtain ⟨t, ht⟩ := holdsAt_eq.1 (idxOf?_some hi).1
                rw [timeAt_list ht]
                exact hb t (List.mem_of_getElem? ht)
              · obtain ⟨ia, hia⟩ := List.mem_iff_getElem?.1 hta
                refine Or.inr ⟨_, List.mem_append_right _ (List.mem_map.2 ⟨c, List.mem_filterMap.2
                  ⟨ia, List.mem_range.2 (by simpa using getElem?_lt hia), ?_⟩, rfl⟩), ?_⟩
                · simp [evAt_list, hia]
                · intro x hx
                  rw [Option.map_eq_some_iff] at hx
                  obtain ⟨i, hi, rfl⟩ := hx
                  obtain ⟨t, ht⟩ := (connEndAt_iff l c i).1 (List.find?_some hi)
                  obtain ⟨ev, hev, _⟩ := endL_get ht
                  rw [timeAt_list hev]
                  exact hb i t ht
          · rfl

/-! ### events of one step -/

theorem mem_obsStep {s : State} {a : Act} {e : TEv} : e ∈ obsStep s a ↔ obsAct s a = some e.ev ∧ e.t = s.now := by
  unfold obsStep
  obtain ⟨ev', t⟩ := e
  cases h : obsAct s a with
  | none => simp
  | some ev =>
    simp only [List.mem_singleton, TEv.mk.injEq, Option.some.injEq]
    constructor
    · rintro ⟨rfl, rfl⟩; exact ⟨rfl, rfl⟩
    · rintro ⟨rfl, rfl⟩; exact ⟨rfl, rfl⟩

theorem has_obsStep {s : State} {a : Act} {ev : Ev} : Has (obsStep s a) ev ↔ obsAct s a = some ev := by
  unfold Has
  constructor
  · rintro ⟨t, h⟩; exact (mem_obsStep.1 h).1
  · intro h; exact ⟨s.now, mem_obsStep.2 ⟨h, rfl⟩⟩

theorem obsStep_cases (s : State) (a : Act) :
    obsStep s a = [] ∨ ∃ ev, obsAct s a = some ev ∧ obsStep s a = [TEv.mk ev s.now] := by
  unfold obsStep
  cases h : obsAct s a with
  | none => exact Or.inl rfl
  | some ev => exact Or.inr ⟨ev, rfl, rfl⟩

theorem obsAct_E {s : State} {a : Act} {c : Nat} (h : obsAct s a = some (.E c)) : a = .clientEof c := by
  cases a <;> simp [obsAct] at h
  subst h; rfl

theorem obsAct_C {s : State} {a : Act} {c : Nat} (h : obsAct s a = some (.C c)) : a = .peerClose c := by
  cases a <;> simp [obsAct] at h
  subst h; rfl

theorem obsAct_HE {s : State} {a : Act} {j : Nat} (h : obsAct s a = some (.HE j)) : a = .hookEnd j := by
  cases a <;> simp [obsAct] at h
  subst h; rfl

theorem obsAct_A' {s : State} {a : Act} {c : Nat} (h : obsAct s a = some (.A c)) : a = .accept ∧ c = s.conns.length := by
  cases a <;> simp [obsAct] at h
  exact ⟨rfl, h.symm⟩

/-! ### end positions when the sequence is extended -/

theorem idleCloseL_prefix {tr l : List TEv} {c i : Nat} (h : IdleCloseL (tr ++ l) c i) (hi : i ≤ tr.length) :
    IdleCloseL tr c i := by
  intro j k rc t hj
  have hjl := getElem?_lt hj
  obtain ⟨h1, j', cl, t', hj', he⟩ := h j k rc t (by rw [List.getElem?_append_left hjl]; exact hj)
  refine ⟨h1, j', cl, t', hj', ?_⟩
  rw [List.getElem?_append_left (by omega)] at he
  exact he

theorem endL_prefix {tr l : List TEv} {c i t : Nat} (h : EndL (tr ++ l) c i t) (hi : i < tr.length) : EndL tr c i t := by
  unfold EndL at *
  rw [List.getElem?_append_left hi] at h
  rcases h with h | ⟨h, h'⟩
  · exact Or.inl h
  · exact Or.inr ⟨h, idleCloseL_prefix h' (by omega)⟩

/-- every request of `c` seen so far has been answered completely -/
def AllAns (tr : List TEv) (c : Nat) : Prop := ∀ k rc, Has tr (.Q c k rc) → ∃ cl, Has tr (.R c k cl true)

theorem endL_snoc {tr : List TEv} {e : TEv} {c i t : Nat} (h : EndL (tr ++ [e]) c i t) :
    EndL tr c i t ∨ (i = tr.length ∧ e.t = t ∧ (e.ev = .E c ∨ (e.ev = .C c ∧ AllAns tr c))) := by
  by_cases hi : i < tr.length
  · exact Or.inl (endL_prefix h hi)
  · right
    have hi' : tr.length ≤ i := Nat.le_of_not_lt hi
    have key : ∀ ev, (tr ++ [e])[i]? = some (TEv.mk ev t) → i = tr.length ∧ e = TEv.mk ev t := by
      intro ev hev
      rw [List.getElem?_append_right hi'] at hev
      have := getElem?_lt hev
      simp at this
      have h0 : i - tr.length = 0 := by omega
      rw [h0] at hev
      simp at hev
      exact ⟨by omega, hev⟩
    rcases h with h | ⟨h, h'⟩
    · obtain ⟨h1, rfl⟩ := key _ h
      exact ⟨h1, rfl, Or.inl rfl⟩
    · obtain ⟨h1, rfl⟩ := key _ h
      refine ⟨h1, rfl, Or.inr ⟨rfl, ?_⟩⟩
      intro k rc ⟨tq, hq⟩
      obtain ⟨j, hj⟩ := List.mem_iff_getElem?.1 hq
      obtain ⟨_, j', cl, t', hj', he⟩ := h' j k rc tq (by rw [List.getElem?_append_left (getElem?_lt hj)]; exact hj)
      rw [List.getElem?_append_left (by omega)] at he
      exact ⟨cl, t', List.mem_of_getElem? he⟩

theorem endL_has {tr : List TEv} {c i t : Nat} (h : EndL tr c i t) : Has tr (.E c) ∨ (Has tr (.C c) ∧ AllAns tr c) := by
  rcases h with h | ⟨h, h'⟩
  · exact Or.inl ⟨t, List.mem_of_getElem? h⟩
  · refine Or.inr ⟨⟨t, List.mem_of_getElem? h⟩, ?_⟩
    intro k rc ⟨tq, hq⟩
    obtain ⟨j, hj⟩ := List.mem_iff_getElem?.1 hq
    obtain ⟨_, j', cl, t', _, he⟩ := h' j k rc tq hj
    exact ⟨cl, t', List.mem_of_getElem? he⟩

/-- a new request of `c` disqualifies every earlier close of the client; only `E c` positions remain -/
theorem endL_snoc_Q {tr : List TEv} {c k : Nat} {rc : Bool} {t0 i t : Nat}
    (h : EndL (tr ++ [TEv.mk (.Q c k rc) t0]) c i t) : Has tr (.E c) := by
  have hq : (tr ++ [TEv.mk (.Q c k rc) t0])[tr.length]? = some (TEv.mk (.Q c k rc) t0) := by simp
  rcases h with h | ⟨h, h'⟩
  · by_cases hi : i < tr.length
    · rw [List.getElem?_append_left hi] at h
      exact ⟨t, List.mem_of_getElem? h⟩
    · rw [List.getElem?_append_right (Nat.le_of_not_lt hi)] at h
      have := List.mem_of_getElem? h
      simp at this
  · have h1 := (h' _ k rc t0 hq).1
    rw [List.getElem?_append_right (by omega)] at h
    have := List.mem_of_getElem? h
    simp at this

theorem blockedL_mono {tr l : List TEv} {nH k τ : Nat} (h : BlockedL tr nH k τ) (hl : ∀ e ∈ l, τ ≤ e.t) :
    BlockedL (tr ++ l) nH k τ := by
  rcases h with h | ⟨j, hj, h⟩ | ⟨c, ⟨ta, hta⟩, h⟩
  · left
    intro t ht
    rcases List.mem_append.1 ht with ht | ht
    · exact h t ht
    · exact hl _ ht
  · right; left
    refine ⟨j, hj, ?_⟩
    intro t ht
    rcases List.mem_append.1 ht with ht | ht
    · exact h t ht
    · exact hl _ ht
  · right; right
    refine ⟨c, ⟨ta, List.mem_append_left _ hta⟩, ?_⟩
    intro i t he
    by_cases hi : i < tr.length
    · exact h i t (endL_prefix he hi)
    · obtain ⟨ev, hev, _⟩ := endL_get he
      rw [List.getElem?_append_right (Nat.le_of_not_lt hi)] at hev
      exact hl _ (List.mem_of_getElem? hev)

/-! ### how one step changes one connection record -/

inductive Evo (s : State) (a : Act) (c : Nat) (cn cn' : Conn) : Prop
  | step : ConnStep s a c cn cn' → Evo s a c cn cn'
  | gone : a = .connGone c → cn.ph = .closing → cn' = { cn with ph := .gone } → Evo s a c cn cn'
  | other : cn' = cn → (∀ f, connAct s a ≠ some (c, f)) → Evo s a c cn cn'

theorem step_conn_back {cfg : Cfg} {s s' : State} {a : Act} (h : Step cfg s a s') {c : Nat} {cn' : Conn}
    (hc' : s'.conns[c]? = some cn') :
    (∃ cn, s.conns[c]? = some cn ∧ Evo s a c cn cn') ∨ (a = .accept ∧ c = s.conns.length ∧ cn' = {}) := by
  cases h
  case conn c0 f cn0 cn0' hc0 hf hca _ =>
    left
    rcases set_cases hc' with ⟨hne, hx⟩ | ⟨rfl, rfl⟩
    · refine ⟨cn', hx, .other rfl ?_⟩
      intro f' hf'
      rw [hca] at hf'
      simp at hf'
      exact hne hf'.1
    · exact ⟨cn0, hc0, .step (connStep_of hca hf)⟩
  case connGone c0 cn0 cn0' hc0 hf =>
    left
    rcases set_cases hc' with ⟨hne, hx⟩ | ⟨rfl, rfl⟩
    · exact ⟨cn', hx, .other rfl (by simp [connAct])⟩
    · unfold cGone at hf
      split at hf <;> simp at hf
      exact ⟨cn0, hc0, .gone rfl ‹_› hf.symm⟩
  case accept =>
    rcases Nat.lt_or_ge c s.conns.length with hlt | hge
    · left
      simp [List.getElem?_append_left hlt] at hc'
      exact ⟨cn', hc', .other rfl (by simp [connAct])⟩
    · right
      rcases Nat.eq_or_lt_of_le hge with heq | hgt
      · subst heq; simp at hc'; exact ⟨rfl, rfl, hc'.symm⟩
      · simp [List.getElem?_eq_none (show (s.conns ++ [({} : Conn)]).length ≤ c by simp; omega)] at hc'
  all_goals exact Or.inl ⟨cn', hc', .other rfl (by simp [connAct])⟩

theorem step_now {cfg : Cfg} {s s' : State} {a : Act} (h : Step cfg s a s') : s'.now = s.now ∨ ∃ d, a = .advance d := by
  cases h <;> first | exact Or.inl rfl | exact Or.inr ⟨_, rfl⟩

theorem step_conns_len {cfg : Cfg} {s s' : State} {a : Act} (h : Step cfg s a s') : s.conns.length ≤ s'.conns.length := by
  cases h <;> simp

theorem step_callers_len {cfg : Cfg} {s s' : State} {a : Act} (h : Step cfg s a s') : s.callers.length ≤ s'.callers.length := by
  cases h <;> simp

theorem step_hook_done {cfg : Cfg} {s s' : State} {a : Act} (h : Step cfg s a s') {j : Nat} (hj : s.hooks[j]? = some .done) :
    s'.hooks[j]? = some .done := by
  cases h
  case spawn => simp [hj, spawnHook]
  case hookStart j0 hj0 =>
    have : j0 ≠ j := by rintro rfl; rw [hj] at hj0; cases hj0
    simp [List.getElem?_set_ne this, hj]
  case hookEnd j0 hj0 =>
    have : j0 ≠ j := by rintro rfl; rw [hj] at hj0; cases hj0
    simp [List.getElem?_set_ne this, hj]
  all_goals exact hj

/-! ### bookkeeping between the event sequence and the state -/

/-- what the events of connection `c` say about its record -/
structure CT (tr : List TEv) (c : Nat) (cn : Conn) : Prop where
  hQ : ∀ k, k < cn.started → ∃ rc, Has tr (.Q c k rc)
  hE : Has tr (.E c) → cn.ph = .closing ∨ cn.ph = .gone
  hC : Has tr (.C c) → cn.peerClosed = true

structure PB (s : State) (tr : List TEv) : Prop where
  hA : ∀ c, c < s.conns.length → Has tr (.A c)
  hS : ∀ k, Has tr (.S k) → k < s.callers.length
  hHE : ∀ j, Has tr (.HE j) → s.hooks[j]? = some .done
  hEC : ∀ c, Has tr (.E c) ∨ Has tr (.C c) → c < s.conns.length
  ct : ∀ c cn, s.conns[c]? = some cn → CT tr c cn

theorem step_hA {cfg : Cfg} {s s' : State} {a : Act} {tr : List TEv} (h : Step cfg s a s')
    (hA : ∀ c, c < s.conns.length → Has tr (.A c)) : ∀ c, c < s'.conns.length → Has (tr ++ obsStep s a) (.A c) := by
  intro c hc
  rw [has_append]
  cases h
  case accept =>
    simp at hc
    by_cases hlt : c < s.conns.length
    · exact Or.inl (hA c hlt)
    · right; simp [obsStep, obsAct]; omega
  all_goals (left; apply hA; simpa using hc)

theorem step_hS {cfg : Cfg} {s s' : State} {a : Act} {tr : List TEv} (h : Step cfg s a s')
    (hS : ∀ k, Has tr (.S k) → k < s.callers.length) : ∀ k, Has (tr ++ obsStep s a) (.S k) → k < s'.callers.length := by
  intro k hh
  rw [has_append] at hh
  rcases hh with hh | hh
  · exact Nat.lt_of_lt_of_le (hS k hh) (step_callers_len h)
  · obtain ⟨rfl, rfl⟩ := obsAct_S (has_obsStep.1 hh)
    cases h
    case conn hca _ => simp [connAct] at hca
    case shutCall => simp

theorem step_hHE {cfg : Cfg} {s s' : State} {a : Act} {tr : List TEv} (h : Step cfg s a s')
    (hHE : ∀ j, Has tr (.HE j) → s.hooks[j]? = some .done) : ∀ j, Has (tr ++ obsStep s a) (.HE j) → s'.hooks[j]? = some .done := by
  intro j hh
  rw [has_append] at hh
  rcases hh with hh | hh
  · exact step_hook_done h (hHE j hh)
  · have := obsAct_HE (has_obsStep.1 hh); subst this
    cases h
    case conn hca _ => simp [connAct] at hca
    case hookEnd hj => simp [getElem?_lt hj]

theorem step_hEC {cfg : Cfg} {s s' : State} {a : Act} {tr : List TEv} (h : Step cfg s a s')
    (hEC : ∀ c, Has tr (.E c) ∨ Has tr (.C c) → c < s.conns.length) :
    ∀ c, Has (tr ++ obsStep s a) (.E c) ∨ Has (tr ++ obsStep s a) (.C c) → c < s'.conns.length := by
  intro c hh
  rw [has_append, has_append] at hh
  have old : Has tr (.E c) ∨ Has tr (.C c) → c < s'.conns.length := fun h' =>
    Nat.lt_of_lt_of_le (hEC c h') (step_conns_len h)
  have new : ∀ f, connAct s a = some (c, f) → c < s'.conns.length := by
    intro f hf
    cases h
    case conn c0 f0 cn0 cn0' hc0 hf0 hca _ =>
      rw [hca] at hf
      simp at hf
      obtain ⟨rfl, _⟩ := hf
      simpa using getElem?_lt hc0
    all_goals simp [connAct] at hf
  rcases hh with (hh | hh) | (hh | hh)
  · exact old (Or.inl hh)
  · have := obsAct_E (has_obsStep.1 hh); subst this; exact new _ rfl
  · exact old (Or.inr hh)
  · have := obsAct_C (has_obsStep.1 hh); subst this; exact new _ rfl

theorem step_CT {cfg : Cfg} {s s' : State} {a : Act} {tr : List TEv} (h : Step cfg s a s') (pb : PB s tr)
    {c : Nat} {cn' : Conn} (hc' : s'.conns[c]? = some cn') : CT (tr ++ obsStep s a) c cn' := by
  rcases step_conn_back h hc' with ⟨cn, hc, ev⟩ | ⟨rfl, rfl, rfl⟩
  · have ct := pb.ct c cn hc
    cases ev with
    | other heq hna =>
      subst heq
      refine ⟨fun k hk => ?_, fun hh => ?_, fun hh => ?_⟩
      · obtain ⟨rc, hrc⟩ := ct.hQ k hk; exact ⟨rc, hrc.mono _⟩
      · rw [has_append] at hh
        rcases hh with hh | hh
        · exact ct.hE hh
        · have := obsAct_E (has_obsStep.1 hh); subst this
          exact absurd rfl (hna cClientEof)
      · rw [has_append] at hh
        rcases hh with hh | hh
        · exact ct.hC hh
        · have := obsAct_C (has_obsStep.1 hh); subst this
          exact absurd rfl (hna cPeerClose)
    | gone ha hph heq =>
      subst ha heq
      rw [show obsStep s (.connGone c) = [] by simp [obsStep, obsAct], List.append_nil]
      exact ⟨ct.hQ, fun _ => Or.inr rfl, ct.hC⟩
    | step hcs =>
      obtain ⟨h1, h2, h3⟩ := ct
      cases hcs <;> refine ⟨?_, ?_, ?_⟩ <;> simp [obsStep, obsAct, hc]
      case reqArrive.refine_1 rc _ =>
        intro k hk
        by_cases hks : k = cn.started
        · subst hks; cases rc <;> simp
        · obtain ⟨rc, hrc⟩ := h1 k (by omega); cases rc <;> simp [hrc]
      all_goals first
        | assumption
        | (intro hh; have := h2 hh; simp_all; done)
        | (intro k hk; obtain ⟨rc, hrc⟩ := h1 k hk; cases rc <;> simp [hrc]; done)
  · refine ⟨by simp, fun hh => ?_, fun hh => ?_⟩
    · simp [obsStep, obsAct] at hh
      exact absurd (pb.hEC _ (Or.inl hh)) (Nat.lt_irrefl _)
    · simp [obsStep, obsAct] at hh
      exact absurd (pb.hEC _ (Or.inr hh)) (Nat.lt_irrefl _)

theorem step_PB {cfg : Cfg} {s s' : State} {a : Act} {tr : List TEv} (h : Step cfg s a s') (pb : PB s tr) :
    PB s' (tr ++ obsStep s a) :=
  ⟨step_hA h pb.hA, step_hS h pb.hS, step_hHE h pb.hHE, step_hEC h pb.hEC, fun _ _ hc' => step_CT h pb hc'⟩

theorem pb_init (n : Nat) : PB (init n) [] := by
  constructor <;> simp [init]

/-! ### a connection that has an end position is gone, or about to go -/

theorem ans_inflight {n : Nat} {s : State} {tr : List TEv} {c : Nat} {cn : Conn} (ai : AllInv n s) (pb : PB s tr)
    (mi : MI2 s tr) (hc : s.conns[c]? = some cn) (ha : AllAns tr c) : inflight cn.ph = 0 := by
  have hcount := (ai.inv.conns cn (List.mem_of_getElem? hc)).count
  have hack := ai.cc.2 cn (List.mem_of_getElem? hc)
  apply Classical.byContradiction
  intro hne
  have h1 : inflight cn.ph = 1 := by cases hp : cn.ph <;> simp [inflight, hp] at hne ⊢
  obtain ⟨rc, hq⟩ := (pb.ct c cn hc).hQ (cn.started - 1) (by omega)
  obtain ⟨cl, hr⟩ := ha _ rc hq
  obtain ⟨cn2, hc2, hlt⟩ := mi.mR c _ cl true hr
  rw [hc] at hc2; cases hc2
  omega

theorem endL_inflight {n : Nat} {s : State} {tr : List TEv} {c i t : Nat} {cn : Conn} (ai : AllInv n s) (pb : PB s tr)
    (mi : MI2 s tr) (hc : s.conns[c]? = some cn) (he : EndL tr c i t) : inflight cn.ph = 0 := by
  rcases endL_has he with hh | ⟨_, hh⟩
  · rcases (pb.ct c cn hc).hE hh with hp | hp <;> simp [hp, inflight]
  · exact ans_inflight ai pb mi hc hh

def EG (s : State) (tr : List TEv) : Prop :=
  ∀ c cn i t, s.conns[c]? = some cn → EndL tr c i t → cn.ph = .gone ∨ (connBusy cn = true ∧ s.now ≤ t)

theorem step_EG {cfg : Cfg} {n : Nat} {s s' : State} {a : Act} {tr : List TEv} (h : Step cfg s a s')
    (hok : okSched s a = true) (ai : AllInv n s) (pb : PB s tr) (mi : MI2 s tr) (eg : EG s tr) :
    EG s' (tr ++ obsStep s a) := by
  intro c cn' i t hc' he
  rcases step_now h with hnow | ⟨d, rfl⟩
  rotate_left
  · cases h
    case conn hca _ => simp [connAct] at hca
    case advance =>
      rw [show obsStep s (.advance d) = [] by simp [obsStep, obsAct], List.append_nil] at he
      have hb : connBusy cn' = false := by
        simp only [okSched, canTick, Bool.and_eq_true, List.all_eq_true] at hok
        simpa using hok.2 cn' (List.mem_of_getElem? hc')
      rcases eg c cn' i t hc' he with hg | ⟨hb', _⟩
      · exact Or.inl hg
      · rw [hb] at hb'; cases hb'
  · rw [hnow]
    rcases step_conn_back h hc' with ⟨cn, hc, ev⟩ | ⟨rfl, rfl, rfl⟩
    · cases ev with
      | other heq hna =>
        subst heq
        have hold : EndL tr c i t := by
          rcases obsStep_cases s a with h0 | ⟨ev, hev, h1⟩
          · rw [h0, List.append_nil] at he; exact he
          · rw [h1] at he
            rcases endL_snoc he with he | ⟨_, _, hE | ⟨hC, _⟩⟩
            · exact he
            · simp at hE; subst hE
              have := obsAct_E hev; subst this; exact absurd rfl (hna cClientEof)
            · simp at hC; subst hC
              have := obsAct_C hev; subst this; exact absurd rfl (hna cPeerClose)
        exact eg c cn' i t hc hold
      | gone ha hph heq => subst heq; exact Or.inl rfl
      | step hcs =>
        have hinf : ∀ i t, EndL tr c i t → inflight cn.ph = 0 := fun i t he => endL_inflight ai pb mi hc he
        have hold := eg c cn
        cases hcs with
        | reqArrive _ rc _ hph =>
          rw [show obsStep s (.reqArrive c rc) = [⟨.Q c cn.started rc, s.now⟩] by simp [obsStep, obsAct, hc]] at he
          have := (pb.ct c cn hc).hE (endL_snoc_Q he)
          simp [hph] at this
        | handlerRet _ b _ rc hph =>
          rw [show obsStep s (.handlerRet c b) = [⟨.X c (cn.started - 1) b, s.now⟩] by simp [obsStep, obsAct, hc]] at he
          rcases endL_snoc he with he | ⟨_, _, hE | ⟨hC, _⟩⟩
          · have := hinf i t he; simp [hph, inflight] at this
          · simp at hE
          · simp at hC
        | exitCheck _ _ cl g hph =>
          rw [show obsStep s (.exitCheck c) = [] by simp [obsStep, obsAct], List.append_nil] at he
          have := hinf i t he; simp [hph, inflight] at this
        | writeResp _ _ cl g hph =>
          rw [show obsStep s (.writeResp c) = [] by simp [obsStep, obsAct], List.append_nil] at he
          have := hinf i t he; simp [hph, inflight] at this
        | connDrop _ _ hph hpc =>
          rw [show obsStep s (.connDrop c) = [] by simp [obsStep, obsAct], List.append_nil] at he
          rcases hold i t hc he with hg | ⟨_, hn⟩
          · simp [hph] at hg
          · exact Or.inr ⟨by simp [connBusy], hn⟩
        | badReq _ _ hph =>
          rw [show obsStep s (.badReq c) = [⟨.B c, s.now⟩] by simp [obsStep, obsAct]] at he
          rcases endL_snoc he with he | ⟨_, _, hE | ⟨hC, _⟩⟩
          · rcases hold i t hc he with hg | ⟨_, hn⟩
            · simp [hph] at hg
            · exact Or.inr ⟨by simp [connBusy], hn⟩
          · simp at hE
          · simp at hC
        | peerClose _ _ =>
          rw [show obsStep s (.peerClose c) = [⟨.C c, s.now⟩] by simp [obsStep, obsAct]] at he
          rcases endL_snoc he with he | ⟨_, ht, hE | ⟨_, hans⟩⟩
          · rcases hold i t hc he with hg | ⟨hb, hn⟩
            · exact Or.inl hg
            · refine Or.inr ⟨?_, hn⟩
              revert hb
              simp only [connBusy]
              cases cn.ph <;> simp
          · simp at hE
          · have h0 := ans_inflight ai pb mi hc hans
            simp at ht; subst ht
            cases hp : cn.ph <;> simp [hp, inflight, connBusy] at h0 ⊢
        | clientRead _ cl _ r hr hcl =>
          rw [show obsStep s (.clientRead c cl) = [⟨.R c cn.acked cl true, s.now⟩] by simp [obsStep, obsAct, hc]] at he
          rcases endL_snoc he with he | ⟨_, _, hE | ⟨hC, _⟩⟩
          · exact hold i t hc he
          · simp at hE
          · simp at hC
        | clientEof _ _ hph hack =>
          rw [show obsStep s (.clientEof c) = [⟨.E c, s.now⟩] by simp [obsStep, obsAct]] at he
          rcases endL_snoc he with he | ⟨_, ht, _⟩
          · exact hold i t hc he
          · simp at ht; subst ht
            rcases hph with hph | hph
            · exact Or.inr ⟨by simp [connBusy, hph], Nat.le_refl _⟩
            · exact Or.inl hph
        | npClose _ _ hph hst =>
          rw [show obsStep s (.npCloseIdle c) = [] by simp [obsStep, obsAct], List.append_nil] at he
          rcases hold i t hc he with hg | ⟨_, hn⟩
          · simp [hph] at hg
          · exact Or.inr ⟨by simp [connBusy], hn⟩
    · rw [show obsStep s .accept = [⟨.A s.conns.length, s.now⟩] by simp [obsStep, obsAct]] at he
      rcases endL_snoc he with he | ⟨_, _, hE | ⟨hC, _⟩⟩
      · rcases endL_has he with hh | ⟨hh, _⟩
        · exact absurd (pb.hEC _ (Or.inl hh)) (Nat.lt_irrefl _)
        · exact absurd (pb.hEC _ (Or.inr hh)) (Nat.lt_irrefl _)
      · simp at hE
      · simp at hC

/-! ### the winner's call is not older than the CAS -/

theorem mem_S_snoc {s : State} {a : Act} {tr : List TEv} {k t : Nat} (h : TEv.mk (.S k) t ∈ tr ++ obsStep s a) :
    TEv.mk (.S k) t ∈ tr ∨ (a = .shutCall ∧ k = s.callers.length ∧ t = s.now) := by
  rcases List.mem_append.1 h with h | h
  · exact Or.inl h
  · obtain ⟨h1, h2⟩ := mem_obsStep.1 h
    obtain ⟨ha, hk⟩ := obsAct_S h1
    exact Or.inr ⟨ha, hk, h2⟩

structure CS (s : State) (tr : List TEv) : Prop where
  callS : ∀ k ph, s.callers[k]? = some ph → (ph = .called ∨ ph = .loaded) → ∀ t, TEv.mk (.S k) t ∈ tr → s.now ≤ t
  tcasS : s.win ≠ .none → ∀ t, TEv.mk (.S s.winK) t ∈ tr → s.tcas ≤ t

theorem step_CS {cfg : Cfg} {n : Nat} {s s' : State} {a : Act} {tr : List TEv} (h : Step cfg s a s')
    (hok : okSched s a = true) (ai : AllInv n s) (pb : PB s tr) (cs : CS s tr) : CS s' (tr ++ obsStep s a) := by
  obtain ⟨c1, c2⟩ := cs
  by_cases hsc : a = .shutCall
  · subst hsc
    cases h
    case conn hca _ => simp [connAct] at hca
    case shutCall =>
      refine ⟨fun k ph hk hph t ht => ?_, fun hw t ht => ?_⟩
      · rcases mem_S_snoc ht with ht | ⟨_, rfl, rfl⟩
        · have hlt := pb.hS k ⟨t, ht⟩
          simp [List.getElem?_append_left hlt] at hk
          exact c1 k ph hk hph t ht
        · exact Nat.le_refl _
      · rcases mem_S_snoc ht with ht | ⟨_, hk, _⟩
        · exact c2 hw t ht
        · obtain ⟨p, hp, _⟩ := ai.wc hw
          have := getElem?_lt hp
          have hk' : s.winK = s.callers.length := hk
          omega
  · have hS : ∀ k t, TEv.mk (.S k) t ∈ tr ++ obsStep s a → TEv.mk (.S k) t ∈ tr := by
      intro k t ht
      rcases mem_S_snoc ht with ht | ⟨ha, _⟩
      · exact ht
      · exact absurd ha hsc
    cases h
    case shutCall => exact absurd rfl hsc
    case advance d =>
      refine ⟨fun k ph hk hph t ht => ?_, fun hw t ht => c2 hw t (hS _ t ht)⟩
      simp only [okSched, canTick, Bool.and_eq_true, List.all_eq_true] at hok
      have := hok.1.2 ph (List.mem_of_getElem? hk)
      rcases hph with rfl | rfl <;> simp [callerQuiet] at this
    case shutLoad k0 hk0 =>
      refine ⟨fun k ph hk hph t ht => ?_, fun hw t ht => c2 hw t (hS _ t ht)⟩
      by_cases hkk : k0 = k
      · subst hkk; exact c1 k0 _ hk0 (Or.inl rfl) t (hS _ t ht)
      · simp [List.getElem?_set_ne hkk] at hk
        exact c1 k ph hk hph t (hS _ t ht)
    case casWin k0 hk0 hs =>
      refine ⟨fun k ph hk hph t ht => ?_, fun hw t ht => c1 k0 _ hk0 (Or.inr rfl) t (hS _ t ht)⟩
      by_cases hkk : k0 = k
      · subst hkk
        simp [getElem?_lt hk0] at hk
        subst hk
        rcases hph with h | h <;> cases h
      · simp [List.getElem?_set_ne hkk] at hk
        exact c1 k ph hk hph t (hS _ t ht)
    case casLose k0 hk0 hs =>
      refine ⟨fun k ph hk hph t ht => ?_, fun hw t ht => c2 hw t (hS _ t ht)⟩
      by_cases hkk : k0 = k
      · subst hkk
        simp [getElem?_lt hk0] at hk
        subst hk
        rcases hph with h | h <;> cases h
      · simp [List.getElem?_set_ne hkk] at hk
        exact c1 k ph hk hph t (hS _ t ht)
    case finish e hw0 hc =>
      refine ⟨fun k ph hk hph t ht => ?_, fun hw t ht => c2 (by simp [hw0]) t (hS _ t ht)⟩
      simp at hk
      obtain ⟨q, hq, rfl⟩ := hk
      have : winnerRet e q = q := by
        cases q <;> simp [winnerRet] at hph ⊢
      rw [this] at hph
      exact c1 k q hq hph t (hS _ t ht)
    case callerRet k0 e hk0 =>
      refine ⟨fun k ph hk hph t ht => ?_, fun hw t ht => c2 hw t (hS _ t ht)⟩
      by_cases hkk : k0 = k
      · subst hkk
        simp [getElem?_lt hk0] at hk
        subst hk
        rcases hph with h | h <;> cases h
      · simp [List.getElem?_set_ne hkk] at hk
        exact c1 k ph hk hph t (hS _ t ht)
    all_goals
      exact ⟨fun k ph hk hph t ht => c1 k ph hk hph t (hS k t ht),
        fun hw t ht => c2 (by first | exact hw | simp_all) t (hS _ t ht)⟩

/-! ### the clock stands still between `shutFinish` and the return to the winner's caller -/

def RetQ (s : State) : Prop :=
  ∀ e t, s.win = .returned e t → s.now ≤ t ∨ s.callers[s.winK]? = some (.finished e)

theorem fin_set {l : List CallerPh} {k0 k : Nat} {p0 q : CallerPh} {e : Err} (h0 : l[k0]? = some p0) (hp : ∀ e, p0 ≠ .finished e)
    (h : l[k]? = some (.finished e)) : (l.set k0 q)[k]? = some (.finished e) := by
  have : k0 ≠ k := by
    rintro rfl
    rw [h0] at h; cases h; exact hp e rfl
  simp [List.getElem?_set_ne this, h]

theorem step_RetQ {cfg : Cfg} {n : Nat} {s s' : State} {a : Act} (h : Step cfg s a s')
    (hok : okSched s a = true) (ai : AllInv n s) (rq : RetQ s) : RetQ s' := by
  unfold RetQ at *
  cases h
  case advance d =>
    intro e t hw
    right
    have hw' : s.win = .returned e t := hw
    obtain ⟨p, hp, hpok⟩ := ai.wc (by simp [hw'])
    simp only [okSched, canTick, Bool.and_eq_true, List.all_eq_true] at hok
    have hq := hok.1.2 p (List.mem_of_getElem? hp)
    rw [hw'] at hpok
    simp only [winCallerOk] at hpok
    rcases hpok with rfl | rfl
    · simp [callerQuiet] at hq
    · exact hp
  case shutCall =>
    intro e t hw
    rcases rq e t hw with h | h
    · exact Or.inl h
    · exact Or.inr (by simp [List.getElem?_append_left (getElem?_lt h), h])
  case shutLoad k0 hk0 =>
    intro e t hw
    exact (rq e t hw).imp id (fin_set hk0 (by simp))
  case casLose k0 hk0 hs =>
    intro e t hw
    exact (rq e t hw).imp id (fin_set hk0 (by simp))
  case callerRet k0 e0 hk0 =>
    intro e t hw
    exact (rq e t hw).imp id (fin_set hk0 (by simp))
  case finish e0 hw0 hc =>
    intro e t hw
    simp at hw
    obtain ⟨rfl, rfl⟩ := hw
    exact Or.inl (Nat.le_refl _)
  all_goals first
    | exact rq
    | (intro e t hw; simp at hw; done)
    | (intro e t hw; revert hw; simp only []; (repeat' split) <;> simp)

theorem step_ret_stable {cfg : Cfg} {s s' : State} {a : Act} (h : Step cfg s a s') (inv : Inv s) {e : Err} {t : Nat}
    (hw : s.win = .returned e t) : s'.win = .returned e t ∧ s'.winK = s.winK := by
  have hst := inv.winSt (by simp [hw])
  cases h
  case casWin hs => simp [hs, stRunning, stShutdown] at hst
  all_goals first
    | exact ⟨hw, rfl⟩
    | simp_all

/-! ### the winner's invariant -/

structure WinP (cfg : Cfg) (n : Nat) (s : State) (tr : List TEv) : Prop where
  loop : ∀ t0, s.win = .loop t0 →
    ∃ τ, τ ≤ s.now ∧ s.now ≤ s.nextTick ∧ s.nextTick ≤ τ + cfg.tick ∧ BlockedL tr n s.winK τ
  defr : ∀ e, s.win = .deferred e → ∃ τ, τ ≤ s.now ∧ s.now ≤ τ + cfg.tick ∧ BlockedL tr n s.winK τ
  ret : ∀ e t, s.win = .returned e t → ∃ τ, τ ≤ t ∧ t ≤ τ + cfg.tick ∧ BlockedL tr n s.winK τ

theorem winP_frame {cfg : Cfg} {n : Nat} {s s' : State} {tr l : List TEv} (wp : WinP cfg n s tr) (si : SI1 s)
    (hw : s'.win = s.win) (hn : s'.now = s.now) (ht : s'.nextTick = s.nextTick) (hk : s'.winK = s.winK)
    (hl : ∀ e ∈ l, e.t = s.now) : WinP cfg n s' (tr ++ l) := by
  constructor
  · intro t0 h
    rw [hw] at h
    obtain ⟨τ, h1, h2, h3, hb⟩ := wp.loop t0 h
    rw [hn, ht, hk]
    exact ⟨τ, h1, h2, h3, blockedL_mono hb (fun e he => by rw [hl e he]; exact h1)⟩
  · intro e h
    rw [hw] at h
    obtain ⟨τ, h1, h2, hb⟩ := wp.defr e h
    rw [hn, hk]
    exact ⟨τ, h1, h2, blockedL_mono hb (fun e he => by rw [hl e he]; exact h1)⟩
  · intro e t h
    rw [hw] at h
    obtain ⟨τ, h1, h2, hb⟩ := wp.ret e t h
    have := si.retNow e t h
    rw [hk]
    exact ⟨τ, h1, h2, blockedL_mono hb (fun e he => by rw [hl e he]; omega)⟩

theorem liveCount_pos {l : List Conn} (h : 0 < liveCount l) : ∃ (c : Nat) (cn : Conn), l[c]? = some cn ∧ cn.ph ≠ .gone := by
  apply Classical.byContradiction
  intro hne
  have : liveCount l = 0 := by
    unfold liveCount
    rw [List.countP_eq_zero]
    intro cn hm
    obtain ⟨c, hc⟩ := List.mem_iff_getElem?.1 hm
    have : cn.ph = .gone := Classical.byContradiction fun hg => hne ⟨c, cn, hc, hg⟩
    simp [this]
  omega

/-- at a tick that sees `active > 0` some accepted connection has not ended -/
theorem live_blocked {n : Nat} {s : State} {tr : List TEv} (ai : AllInv n s) (pb : PB s tr) (eg : EG s tr)
    (ha : ¬ s.active ≤ 0) (k : Nat) : BlockedL tr n k s.now := by
  have h1 := ai.cc.1
  obtain ⟨c, cn, hc, hg⟩ := liveCount_pos (l := s.conns) (by omega)
  right; right
  refine ⟨c, pb.hA c (getElem?_lt hc), fun i t he => ?_⟩
  rcases eg c cn i t hc he with h | ⟨_, h⟩
  · exact absurd h hg
  · exact h

theorem hook_blocked {n : Nat} {s : State} {tr : List TEv} (ai : AllInv n s) (pb : PB s tr)
    (hd : hooksDone s = false) (k τ : Nat) : BlockedL tr n k τ := by
  unfold hooksDone at hd
  rw [List.all_eq_false] at hd
  obtain ⟨p, hp, hnd⟩ := hd
  obtain ⟨j, hj⟩ := List.mem_iff_getElem?.1 hp
  right; left
  refine ⟨j, by rw [← ai.hk.2]; exact getElem?_lt hj, fun t ht => ?_⟩
  have := pb.hHE j ⟨t, ht⟩
  rw [hj] at this
  cases this
  simp at hnd

theorem step_WinP {cfg : Cfg} {n : Nat} {s s' : State} {a : Act} {tr : List TEv} (h : Step cfg s a s')
    (hok : okSched s a = true) (ai : AllInv n s) (ti : TimeInv cfg s) (pb : PB s tr) (eg : EG s tr) (cs : CS s tr)
    (wp : WinP cfg n s tr) : WinP cfg n s' (tr ++ obsStep s a) := by
  have hfr : ∀ e ∈ obsStep s a, e.t = s.now := fun e he => (mem_obsStep.1 he).2
  cases h
  case advance d =>
    rw [show obsStep s (.advance d) = [] by simp [obsStep, obsAct], List.append_nil]
    simp only [okSched, canTick, Bool.and_eq_true] at hok
    have hca := hok.1.1
    refine ⟨fun t0 hw => ?_, fun e hw => ?_, fun e t hw => wp.ret e t hw⟩
    · have hw' : s.win = .loop t0 := hw
      obtain ⟨τ, h1, h2, h3, hb⟩ := wp.loop t0 hw'
      simp only [canAdvance, hw', Bool.or_eq_true, Bool.and_eq_true, beq_iff_eq, decide_eq_true_eq] at hca
      refine ⟨τ, ?_, ?_, h3, hb⟩
      · show τ ≤ s.now + d; omega
      · show s.now + d ≤ s.nextTick; omega
    · have hw' : s.win = .deferred e := hw
      obtain ⟨τ, h1, h2, hb⟩ := wp.defr e hw'
      simp only [canAdvance, hw', Bool.or_eq_true, Bool.and_eq_true, beq_iff_eq, decide_eq_true_eq,
        Bool.not_eq_true'] at hca
      rcases hca with hd | ⟨hnd, _⟩
      · subst hd; exact ⟨τ, h1, h2, hb⟩
      · exact ⟨s.now + d, Nat.le_refl _, Nat.le_add_right _ _, hook_blocked ai pb hnd _ _⟩
  case tick1 hw hnt =>
    rw [show obsStep s .shutTick1 = [] by simp [obsStep, obsAct], List.append_nil]
    simp [TimeInv, hw] at ti
    by_cases ha : s.active ≤ 0
    · refine ⟨fun t0 hw' => by simp [ha] at hw', fun e hw' => ?_, fun e t hw' => by simp [ha] at hw'⟩
      exact ⟨s.tcas, by show s.tcas ≤ s.now; omega, by show s.now ≤ s.tcas + cfg.tick; omega,
        Or.inl (cs.tcasS (by simp [hw]))⟩
    · refine ⟨fun t0 hw' => ?_, fun e hw' => by simp [ha] at hw', fun e t hw' => by simp [ha] at hw'⟩
      exact ⟨s.now, Nat.le_refl _, by show s.now ≤ s.nextTick + cfg.tick; omega,
        by show s.nextTick + cfg.tick ≤ s.now + cfg.tick; omega, live_blocked ai pb eg ha _⟩
  case tickLoop t0 hw hnt =>
    rw [show obsStep s .shutTickLoop = [] by simp [obsStep, obsAct], List.append_nil]
    obtain ⟨τ, h1, h2, h3, hb⟩ := wp.loop t0 hw
    by_cases ha : s.active ≤ 0
    · refine ⟨fun t0' hw' => by simp [ha] at hw', fun e hw' => ?_, fun e t hw' => by simp [ha] at hw'⟩
      exact ⟨τ, h1, by show s.now ≤ τ + cfg.tick; omega, hb⟩
    · by_cases hm : cfg.maxWait < s.now - t0
      · refine ⟨fun t0' hw' => by simp [ha, hm] at hw', fun e hw' => ?_, fun e t hw' => by simp [ha, hm] at hw'⟩
        exact ⟨s.now, Nat.le_refl _, Nat.le_add_right _ _, live_blocked ai pb eg ha _⟩
      · refine ⟨fun t0' hw' => ?_, fun e hw' => by simp [ha, hm] at hw', fun e t hw' => by simp [ha, hm] at hw'⟩
        exact ⟨s.now, Nat.le_refl _, by show s.now ≤ s.nextTick + cfg.tick; omega,
          by show s.nextTick + cfg.tick ≤ s.now + cfg.tick; omega, live_blocked ai pb eg ha _⟩
  case ctxDone t0 hw hd =>
    rw [show obsStep s .shutCtxDone = [] by simp [obsStep, obsAct], List.append_nil]
    obtain ⟨τ, h1, h2, h3, hb⟩ := wp.loop t0 hw
    refine ⟨fun _ hw' => by simp at hw', fun e hw' => ?_, fun _ _ hw' => by simp at hw'⟩
    exact ⟨τ, h1, by show s.now ≤ τ + cfg.tick; omega, hb⟩
  case finish e hw hc =>
    rw [show obsStep s .shutFinish = [] by simp [obsStep, obsAct], List.append_nil]
    refine ⟨fun _ hw' => by simp at hw', fun _ hw' => by simp at hw', fun e' t' hw' => ?_⟩
    simp at hw'
    obtain ⟨rfl, rfl⟩ := hw'
    obtain ⟨τ, h1, h2, hb⟩ := wp.defr e hw
    exact ⟨τ, h1, h2, hb⟩
  case casWin => exact ⟨fun _ hw' => by simp at hw', fun _ hw' => by simp at hw', fun _ _ hw' => by simp at hw'⟩
  case spawn => exact ⟨fun _ hw' => by simp at hw', fun _ hw' => by simp at hw', fun _ _ hw' => by simp at hw'⟩
  case closeLn => exact ⟨fun _ hw' => by simp at hw', fun _ hw' => by simp at hw', fun _ _ hw' => by simp at hw'⟩
  all_goals exact winP_frame wp ai.si rfl rfl rfl rfl hfr

/-! ### a `nil` return is the winner's -/

def TN (s : State) (tr : List TEv) : Prop :=
  ∀ k tt, TEv.mk (.T k "nil") tt ∈ tr → k = s.winK ∧ ∃ t, s.win = .returned .nil t ∧ tt ≤ t

theorem step_TN {cfg : Cfg} {n : Nat} {s s' : State} {a : Act} {tr : List TEv} (h : Step cfg s a s')
    (ai : AllInv n s) (rq : RetQ s) (tn : TN s tr) : TN s' (tr ++ obsStep s a) := by
  intro k tt hm
  rcases List.mem_append.1 hm with hm | hm
  · obtain ⟨hk, t, hw, hle⟩ := tn k tt hm
    obtain ⟨h1, h2⟩ := step_ret_stable h ai.inv hw
    exact ⟨by rw [h2]; exact hk, t, h1, hle⟩
  · obtain ⟨hev, htm⟩ := mem_obsStep.1 hm
    have htm' : tt = s.now := htm
    obtain ⟨e, rfl, he⟩ := obsAct_T hev
    have : e = .nil := errStr_inj (e' := .nil) he.symm
    subst this
    cases h
    case conn hca _ => simp [connAct] at hca
    case callerRet hk =>
      have hwn : s.win ≠ .none := by
        intro hwn; have := ai.co k _ hk (Or.inl hwn); simp [pendOrErr] at this
      have hkk : k = s.winK := by
        apply Classical.byContradiction; intro hkk
        have := ai.co k _ hk (Or.inr hkk); simp [pendOrErr] at this
      subst hkk
      obtain ⟨p, hp, hpok⟩ := ai.wc hwn
      rw [hk] at hp; cases hp
      obtain ⟨t, ht⟩ := (winCallerOk_ne hwn hpok).2.2 _ rfl
      refine ⟨rfl, t, ht, ?_⟩
      rcases rq _ t ht with h | h
      · omega
      · rw [hk] at h; cases h

/-! ### all invariants together, and the clause -/

def PJ (cfg : Cfg) (n : Nat) (s : State) (tr : List TEv) : Prop :=
  AllInv n s ∧ MI1 s tr ∧ MI2 s tr ∧ TimeInv cfg s ∧ PB s tr ∧ EG s tr ∧ CS s tr ∧ RetQ s ∧ WinP cfg n s tr ∧ TN s tr

theorem step_PJ {cfg : Cfg} {n : Nat} {s s' : State} {a : Act} {tr : List TEv} (hJ : PJ cfg n s tr)
    (hok : okSched s a = true) (hs : step cfg s a = some s') : PJ cfg n s' (tr ++ obsStep s a) := by
  obtain ⟨ai, m1, m2, ti, pb, eg, cs, rq, wp, tn⟩ := hJ
  have hS := step_Step cfg hs
  exact ⟨step_allInv cfg n ai (okSched_okWin _ _ hok) hs, step_MI1 cfg m1 hS, step_MI2 cfg m2 hS,
    step_timeInv cfg ai.inv ti (okSched_actOk _ _ hok) hs, step_PB hS pb, step_EG hS hok ai pb m2 eg,
    step_CS hS hok ai pb cs, step_RetQ hS hok ai rq, step_WinP hS hok ai ti pb eg cs wp, step_TN hS ai rq tn⟩

theorem pj_init (cfg : Cfg) (n : Nat) : PJ cfg n (init n) [] := by
  refine ⟨allInv_init n, mi1_init n, by constructor <;> simp [init], by simp [TimeInv, init], pb_init n, ?_, ?_, ?_, ?_, ?_⟩
  · intro c cn i t hc; simp [init] at hc
  · constructor <;> simp [init]
  · intro e t hw; simp [init] at hw
  · constructor <;> simp [init]
  · intro k tt hm; simp at hm

/-- **prompt, on the observed sequence.**  In the observable projection of every run that respects the
scheduling discipline `okSched`: if the `Shutdown` call that did the work returned `nil` at `tt`, then some hook
or accepted connection (or the call itself) was still unfinished at `tt - tick`; so once all hooks and
connections have ended at `q`, `tt ≤ q + 10 * tick + slack`. -/
theorem obs_prompt {p : Params} {cfg : Cfg} {n : Nat} {acts : List Act} {sF : State} (hp : ParamsOk p cfg n)
    (hr : run cfg (init n) acts = some sF) (hok : allOk okSched cfg (init n) acts = true) :
    prompt p (obsRun cfg (init n) acts).toArray = [] := by
  have hJ := run_traceInv cfg okSched (PJ cfg n) (fun s tr a s' hJ hok hs => step_PJ hJ hok hs) acts
    (pj_init cfg n) hr hok
  simp only [List.nil_append] at hJ
  obtain ⟨ai, m1, m2, ti, pb, eg, cs, rq, wp, tn⟩ := hJ
  apply prompt_nil
  intro w k tw s ts hw hs
  obtain ⟨hk, t, hwin, hle⟩ := tn k tw (List.mem_of_getElem? hw)
  obtain ⟨τ, h1, h2, hb⟩ := wp.ret _ t hwin
  refine ⟨τ, ?_, ?_⟩
  · have := hp.tick; omega
  · rw [hp.nHooks, hk]; exact hb

end Hertz.Shutdown
