import Hertz.Model.Multipart
import Hertz.Spec.Multipart
/-!
Round trip of hertz's multipart writer (`Model/Multipart.lean`) through the independent decoder (`Spec/Multipart.lean`).
-/
namespace Hertz.MultipartRT
open Hertz Hertz.Multipart
open Hertz.Spec.Multipart (splitOnce headerLines params lookup parts decode lower quoted)

/-! ### first occurrence -/

theorem isPrefixOf_self_append (p t : Bytes) : p.isPrefixOf (p ++ t) = true := by
  rw [List.isPrefixOf_iff_prefix]; exact List.prefix_append p t

/-- a pattern whose first byte does not occur in `a` is found right behind `a` -/
theorem splitOnce_first_byte (x : UInt8) (pat' : Bytes) (t : Bytes) : ∀ a : Bytes, x ∉ a →
    splitOnce (x :: pat') (a ++ (x :: pat') ++ t) = some (a, t)
  | [], _ => by
    have h1 : ([] : Bytes) ++ (x :: pat') ++ t = x :: (pat' ++ t) := by simp
    rw [h1, splitOnce]
    have : (x :: pat').isPrefixOf (x :: (pat' ++ t)) = true := by
      have := isPrefixOf_self_append (x :: pat') t
      simpa using this
    simp only [this, if_true]
    simp
  | c :: a, h => by
    have hc : x ≠ c := by intro e; exact h (by simp [e])
    have ha : x ∉ a := by intro e; exact h (by simp [e])
    have h1 : (c :: a) ++ (x :: pat') ++ t = c :: (a ++ (x :: pat') ++ t) := by simp
    rw [h1, splitOnce]
    have : (x :: pat').isPrefixOf (c :: (a ++ (x :: pat') ++ t)) = false := by
      simp [List.isPrefixOf, hc]
    simp only [this, Bool.false_eq_true, if_false]
    rw [splitOnce_first_byte x pat' t a ha]
    rfl

/-- soundness: a successful split is a decomposition -/
theorem splitOnce_sound (D : Bytes) : ∀ (x a r : Bytes), splitOnce D x = some (a, r) → x = a ++ D ++ r
  | [], a, r, h => by
    unfold splitOnce at h
    split at h
    · rename_i he
      simp only [Option.some.injEq, Prod.mk.injEq] at h
      have : D = [] := by simpa using he
      rw [← h.1, ← h.2, this]; rfl
    · cases h
  | c :: x, a, r, h => by
    unfold splitOnce at h
    split at h
    · rename_i hp
      simp only [Option.some.injEq, Prod.mk.injEq] at h
      rw [← h.1, ← h.2]
      rw [List.isPrefixOf_iff_prefix, List.prefix_iff_eq_append] at hp
      simpa using hp.symm
    · cases hs : splitOnce D x with
      | none => rw [hs] at h; cases h
      | some v =>
        obtain ⟨a', r'⟩ := v
        rw [hs] at h
        simp only [Option.map_some, Option.some.injEq, Prod.mk.injEq] at h
        have := splitOnce_sound D x a' r' hs
        rw [← h.1, ← h.2, this]; simp

/-- the first occurrence stays the first occurrence when more text follows -/
theorem splitOnce_append (D : Bytes) (hD : D ≠ []) (t : Bytes) : ∀ (x a r : Bytes), splitOnce D x = some (a, r) →
    splitOnce D (x ++ t) = some (a, r ++ t)
  | [], a, r, h => by
    unfold splitOnce at h
    have : D.isEmpty = false := by cases D <;> simp_all
    simp [this] at h
  | c :: x, a, r, h => by
    have h1 : (c :: x) ++ t = c :: (x ++ t) := rfl
    rw [h1]
    unfold splitOnce at h ⊢
    split at h
    · rename_i hp
      simp only [Option.some.injEq, Prod.mk.injEq] at h
      have hp' := hp
      rw [List.isPrefixOf_iff_prefix] at hp'
      have hpt : D.isPrefixOf (c :: (x ++ t)) = true := by
        rw [List.isPrefixOf_iff_prefix]
        exact hp'.trans (by rw [← h1]; exact List.prefix_append _ _)
      simp only [hpt, if_true, Option.some.injEq, Prod.mk.injEq]
      refine ⟨h.1, ?_⟩
      rw [← h.2, ← h1, List.drop_append_of_le_length hp'.length_le]
    · rename_i hp
      cases hs : splitOnce D x with
      | none => rw [hs] at h; cases h
      | some v =>
        obtain ⟨a', r'⟩ := v
        rw [hs] at h
        simp only [Option.map_some, Option.some.injEq, Prod.mk.injEq] at h
        have hlen : D.length ≤ (c :: x).length := by
          have := splitOnce_sound D x a' r' hs
          rw [this]; simp only [List.length_cons, List.length_append]; omega
        have hpt : D.isPrefixOf (c :: (x ++ t)) = false := by
          cases hq : D.isPrefixOf (c :: (x ++ t)) with
          | false => rfl
          | true =>
            exfalso
            rw [List.isPrefixOf_iff_prefix] at hq
            have : D <+: c :: x :=
              List.prefix_of_prefix_length_le hq (by rw [← h1]; exact List.prefix_append _ _) hlen
            rw [← List.isPrefixOf_iff_prefix] at this
            exact hp this
        simp only [hpt, Bool.false_eq_true, if_false]
        rw [splitOnce_append D hD t x a' r' hs]
        simp only [Option.map_some, Option.some.injEq, Prod.mk.injEq]
        exact ⟨h.1, by rw [h.2]⟩

/-! ### well-formedness of what the application attached -/

/-- no byte that `CreateMultipartHeader` cannot write reversibly (CR / LF become `%0D` / `%0A`; `"` and `\` are escaped
as quoted pairs and read back, so they are allowed — before `/repo` 865e699 they were not) -/
def cleanVal (v : Bytes) : Prop := 13 ∉ v ∧ 10 ∉ v

/-- the delimiter of boundary `b` as it appears behind a part's content -/
def delim (b : Bytes) : Bytes := [13, 10, 45, 45] ++ b

structure Clean (b : Bytes) (p : Part) : Prop where
  name : cleanVal p.name
  file : cleanVal p.fileName
  ctype : 13 ∉ p.ctype ∧ 10 ∉ p.ctype ∧ p.ctype.head? ≠ some 32
  /-- the first delimiter in `content ++ delimiter` is the one appended: the content does not contain (or run into) one -/
  content : splitOnce (delim b) (p.content ++ delim b) = some (p.content, [])

/-- the part as the decoder reports it -/
def intended (p : Part) : Spec.Multipart.Part :=
  { name := p.name, fileName := if blank p.fileName then none else some p.fileName,
    ctype := if p.ctype.isEmpty then none else some p.ctype, content := p.content }

/-! ### the escaped parameter values -/

theorem escapeQ_34 (t : Bytes) : escapeQ (34 :: t) = 92 :: 34 :: escapeQ t := by simp [escapeQ]
theorem escapeQ_92 (t : Bytes) : escapeQ (92 :: t) = 92 :: 92 :: escapeQ t := by simp [escapeQ]
theorem escapeQ_other (c : UInt8) (t : Bytes) (h1 : c ≠ 92) (h2 : c ≠ 34) (h3 : c ≠ 13) (h4 : c ≠ 10) :
    escapeQ (c :: t) = c :: escapeQ t := by simp [escapeQ, h1, h2, h3, h4]
theorem quoted_92 (d : UInt8) (t : Bytes) : quoted (92 :: d :: t) = (quoted t).map (fun (v, r) => (d :: v, r)) := by
  simp [quoted]
theorem quoted_other (c d : UInt8) (t : Bytes) (h1 : c ≠ 92) (h2 : c ≠ 34) :
    quoted (c :: d :: t) = (quoted (d :: t)).map (fun (v, r) => (c :: v, r)) := by
  simp [quoted, h1, h2]
theorem quoted_34 (t : Bytes) : quoted (34 :: t) = some ([], t) := by
  cases t <;> simp [quoted]

/-- the strict quoted-string reader undoes `escapeQuotes` on every value without CR / LF, whatever follows the closing quote -/
theorem quoted_escapeQ : ∀ (v rest : Bytes), cleanVal v → quoted (escapeQ v ++ 34 :: rest) = some (v, rest)
  | [], rest, _ => by simp [escapeQ, quoted_34]
  | c :: t, rest, h => by
    have ht : cleanVal t := ⟨fun m => h.1 (List.mem_cons_of_mem _ m), fun m => h.2 (List.mem_cons_of_mem _ m)⟩
    have ih := quoted_escapeQ t rest ht
    have h13 : c ≠ 13 := fun e => h.1 (by simp [e])
    have h10 : c ≠ 10 := fun e => h.2 (by simp [e])
    by_cases h92 : c = 92
    · subst h92
      rw [escapeQ_92, List.cons_append, List.cons_append, quoted_92, ih]; rfl
    · by_cases h34 : c = 34
      · subst h34
        rw [escapeQ_34, List.cons_append, List.cons_append, quoted_92, ih]; rfl
      · rw [escapeQ_other c t h92 h34 h13 h10, List.cons_append]
        cases he : escapeQ t ++ 34 :: rest with
        | nil => simp at he
        | cons d u =>
          rw [he] at ih
          rw [quoted_other c d u h92 h34, ih]; rfl

theorem notin_escapeQ (x : UInt8) (hx : x = 13 ∨ x = 10 ∨ x = 34 ∧ False) : ∀ v : Bytes, x ∉ escapeQ v
  | [] => by simp [escapeQ]
  | c :: t => by
    have ih := notin_escapeQ x hx t
    simp only [escapeQ, List.mem_append, not_or]
    refine ⟨?_, ih⟩
    rcases hx with rfl | rfl | ⟨_, hf⟩
    · split
      · decide
      · split
        · decide
        · split
          · decide
          · split
            · decide
            · rename_i h13 _; simp; exact fun e => h13 e.symm
    · split
      · decide
      · split
        · decide
        · split
          · decide
          · split
            · decide
            · rename_i h10; simp; exact fun e => h10 e.symm
    · exact absurd hf id

theorem cleanCT_clean (v : Bytes) (h : 13 ∉ v ∧ 10 ∉ v) : cleanCT v = v := by
  unfold cleanCT
  conv => rhs; rw [← List.map_id v]
  apply List.map_congr_left
  intro c hc
  have h1 : c ≠ 13 := fun e => h.1 (e ▸ hc)
  have h2 : c ≠ 10 := fun e => h.2 (e ▸ hc)
  simp [h1, h2]

/-! ### one part head -/

theorem params_disposition (p : Part) (hn : cleanVal p.name) (hf : cleanVal p.fileName) (fuel : Nat) :
    params (fuel + 3) ((disposition p).drop Spec.Multipart.sFormData.length) =
      some ((Spec.Multipart.sName, p.name) ::
        (if blank p.fileName then [] else [(Spec.Multipart.sFileName, p.fileName)])) := by
  have hd : (disposition p).drop Spec.Multipart.sFormData.length =
      59 :: 32 :: ([110, 97, 109, 101] ++ [61, 34] ++ (escapeQ p.name ++ 34 :: (if blank p.fileName then [] else
        59 :: 32 :: ([102, 105, 108, 101, 110, 97, 109, 101] ++ [61, 34] ++ (escapeQ p.fileName ++ 34 :: []))))) := by
    unfold disposition sDisp sFile Spec.Multipart.sFormData
    split <;> simp
  rw [hd, params]
  simp only
  rw [splitOnce_first_byte 61 [34] _ [110, 97, 109, 101] (by decide)]
  simp only [bind, Option.bind]
  rw [quoted_escapeQ p.name _ hn]
  simp only
  split
  · simp [params, Spec.Multipart.sName]
  · rw [params]
    simp only
    rw [splitOnce_first_byte 61 [34] _ [102, 105, 108, 101, 110, 97, 109, 101] (by decide)]
    simp only [bind, Option.bind]
    rw [quoted_escapeQ p.fileName _ hf]
    simp [params, Spec.Multipart.sName, Spec.Multipart.sFileName]

/-- `Content-Disposition` / `Content-Type` without the colon -/
def cdName : Bytes := [67, 111, 110, 116, 101, 110, 116, 45, 68, 105, 115, 112, 111, 115, 105, 116, 105, 111, 110]
def ctName : Bytes := [67, 111, 110, 116, 101, 110, 116, 45, 84, 121, 112, 101]

theorem sCD_eq : sCD = cdName ++ [58] ++ [32] := by decide
theorem sCT_eq : sCT = ctName ++ [58] ++ [32] := by decide

theorem notin_disposition (x : UInt8) (p : Part) (hc : x ∉ sDisp ∧ x ∉ sFile ∧ x ≠ 34)
    (hn : x ∉ escapeQ p.name) (hf : x ∉ escapeQ p.fileName) : x ∉ disposition p := by
  unfold disposition
  split <;> simp [hc.1, hc.2.1, hc.2.2, hn, hf, List.mem_append] <;> exact fun h => hc.2.2 h.symm

theorem dropWhile_sp_disposition (p : Part) : (32 :: disposition p).dropWhile (· == 32) = disposition p := by
  unfold disposition sDisp
  simp [List.dropWhile]

/-- the header fields of one part as the decoder's line reader returns them -/
def hdrs (p : Part) : List (Bytes × Bytes) :=
  (Spec.Multipart.sCD, disposition p) :: (if p.ctype.isEmpty then [] else [(Spec.Multipart.sCT, p.ctype)])

theorem headerLines_end (fuel : Nat) (X : Bytes) : headerLines (fuel + 1) (13 :: 10 :: X) = some ([], X) := by
  rw [headerLines]
  have := splitOnce_first_byte 13 [10] X [] (by simp)
  simp only [List.nil_append, List.cons_append] at this
  simp [this, bind, Option.bind]

theorem headerLines_partHead (b : Bytes) (p : Part) (hc : Clean b p) (fuel : Nat) (X : Bytes) :
    headerLines (fuel + 3) (partHead p ++ X) = some (hdrs p, X) := by
  have h13 : (13 : UInt8) ∉ cdName ++ [58] ++ [32] ++ disposition p := by
    have := notin_disposition 13 p (by decide) (notin_escapeQ 13 (Or.inl rfl) _) (notin_escapeQ 13 (Or.inl rfl) _)
    simp only [List.mem_append, not_or]
    exact ⟨⟨⟨by decide, by decide⟩, by decide⟩, this⟩
  -- first line
  have hw : partHead p ++ X = (cdName ++ [58] ++ [32] ++ disposition p) ++ [13, 10] ++
      ((if p.ctype.isEmpty then [] else sCT ++ p.ctype ++ crlf) ++ crlf ++ X) := by
    unfold partHead crlf; rw [sCD_eq, cleanCT_clean p.ctype ⟨hc.ctype.1, hc.ctype.2.1⟩]; simp
  rw [hw, headerLines, splitOnce_first_byte 13 [10] _ _ h13]
  simp only [bind, Option.bind]
  have hne : (cdName ++ [58] ++ [32] ++ disposition p).isEmpty = false := by simp [cdName]
  simp only [hne, Bool.false_eq_true, if_false]
  have hcol : splitOnce [58] (cdName ++ [58] ++ [32] ++ disposition p) = some (cdName, 32 :: disposition p) := by
    have := splitOnce_first_byte 58 [] (32 :: disposition p) cdName (by decide)
    simpa using this
  rw [hcol]
  simp only
  by_cases hct : p.ctype.isEmpty = true
  · simp only [hct, if_true, List.nil_append, crlf]
    rw [show ([13, 10] : Bytes) ++ X = 13 :: 10 :: X from rfl, headerLines_end (fuel + 1) X]
    simp only [hdrs, hct, if_true, dropWhile_sp_disposition]
    rfl
  · have hct' : p.ctype.isEmpty = false := by simpa using hct
    simp only [hct', Bool.false_eq_true, if_false]
    have h13c : (13 : UInt8) ∉ ctName ++ [58] ++ [32] ++ p.ctype := by
      simp only [List.mem_append, not_or]
      exact ⟨⟨⟨by decide, by decide⟩, by decide⟩, hc.ctype.1⟩
    have hw2 : sCT ++ p.ctype ++ crlf ++ crlf ++ X = (ctName ++ [58] ++ [32] ++ p.ctype) ++ [13, 10] ++ (13 :: 10 :: X) := by
      rw [sCT_eq]; simp [crlf]
    rw [hw2, headerLines, splitOnce_first_byte 13 [10] _ _ h13c]
    simp only [bind, Option.bind]
    have hne2 : (ctName ++ [58] ++ [32] ++ p.ctype).isEmpty = false := by simp [ctName]
    simp only [hne2, Bool.false_eq_true, if_false]
    have hcol2 : splitOnce [58] (ctName ++ [58] ++ [32] ++ p.ctype) = some (ctName, 32 :: p.ctype) := by
      have := splitOnce_first_byte 58 [] (32 :: p.ctype) ctName (by decide)
      simpa using this
    rw [hcol2]
    simp only
    rw [headerLines_end fuel X]
    have hdw : (32 :: p.ctype).dropWhile (· == 32) = p.ctype := by
      cases hcp : p.ctype with
      | nil => rw [hcp] at hct'; simp at hct'
      | cons c t =>
        have : c ≠ 32 := by
          have := hc.ctype.2.2; rw [hcp] at this; simpa using this
        have hb : (c == 32) = false := by simpa using this
        simp [List.dropWhile, hb]
    simp only [hdrs, hct', Bool.false_eq_true, if_false, dropWhile_sp_disposition, hdw]
    rfl

/-! ### all parts -/

/-- what follows the content of a part: the delimiter and the remaining parts, or the closing delimiter -/
def tailWire (b : Bytes) : List Part → Bytes
  | [] => crlf ++ dashes ++ b ++ dashes ++ crlf
  | q :: qs => crlf ++ dashes ++ b ++ crlf ++ partHead q ++ q.content ++ tailWire b qs

theorem partsWire_tail (b : Bytes) : ∀ ps : List Part,
    partsWire b false ps ++ (crlf ++ dashes ++ b ++ dashes ++ crlf) = tailWire b ps
  | [] => by simp [partsWire, tailWire]
  | q :: qs => by
    have := partsWire_tail b qs
    simp only [partsWire, tailWire, Bool.false_eq_true, if_false, List.append_assoc] at this ⊢
    rw [this]

theorem wire_cons (b : Bytes) (p : Part) (ps : List Part) :
    wire b (p :: ps) = dashes ++ b ++ crlf ++ (partHead p ++ p.content ++ tailWire b ps) := by
  have := partsWire_tail b ps
  simp only [wire, partsWire, if_true, List.nil_append, List.append_assoc] at this ⊢
  rw [this]

theorem length_le_tailWire (b : Bytes) : ∀ ps : List Part, ps.length ≤ (tailWire b ps).length
  | [] => by simp
  | q :: qs => by
    have := length_le_tailWire b qs
    simp only [tailWire, crlf, dashes, List.length_append, List.length_cons, List.length_nil]; omega

theorem tailWire_delim (b : Bytes) (ps : List Part) :
    tailWire b ps = delim b ++ (match ps with
      | [] => [45, 45, 13, 10]
      | q :: qs => 13 :: 10 :: (partHead q ++ q.content ++ tailWire b qs)) := by
  cases ps <;> simp [tailWire, delim, crlf, dashes]

theorem hdrs_facts (p : Part) :
    ((hdrs p).length > 2) = False ∧
    (hdrs p).filter (·.1 == Spec.Multipart.sCD) = [(Spec.Multipart.sCD, disposition p)] ∧
    (hdrs p).filter (·.1 == Spec.Multipart.sCT) = (if p.ctype.isEmpty then [] else [(Spec.Multipart.sCT, p.ctype)]) ∧
    (hdrs p).length = 1 + (if p.ctype.isEmpty then 0 else 1) := by
  have h1 : (Spec.Multipart.sCT == Spec.Multipart.sCD) = false := by decide
  have h2 : (Spec.Multipart.sCD == Spec.Multipart.sCT) = false := by decide
  unfold hdrs
  split <;> simp [List.filter, h1, h2]

theorem formData_prefix (p : Part) : Spec.Multipart.sFormData.isPrefixOf (disposition p) = true := by
  have : disposition p = Spec.Multipart.sFormData ++ (disposition p).drop Spec.Multipart.sFormData.length := by
    unfold disposition sDisp Spec.Multipart.sFormData
    simp
  rw [this]; exact isPrefixOf_self_append _ _

theorem lookup_params (p : Part) :
    lookup Spec.Multipart.sName ((Spec.Multipart.sName, p.name) ::
        (if blank p.fileName then [] else [(Spec.Multipart.sFileName, p.fileName)])) = some p.name ∧
    lookup Spec.Multipart.sFileName ((Spec.Multipart.sName, p.name) ::
        (if blank p.fileName then [] else [(Spec.Multipart.sFileName, p.fileName)])) =
      (if blank p.fileName then none else some p.fileName) := by
  have h1 : (Spec.Multipart.sName == Spec.Multipart.sFileName) = false := by decide
  constructor
  · simp [lookup]
  · split <;> simp [lookup, h1]

theorem parts_wire (b : Bytes) : ∀ (ps : List Part) (p : Part) (fuel : Nat), ps.length < fuel → Clean b p →
    (∀ q ∈ ps, Clean b q) →
    parts b fuel (partHead p ++ p.content ++ tailWire b ps) = some (intended p :: ps.map intended) := by
  intro ps
  induction ps with
  | nil =>
    intro p fuel hf hc _
    obtain ⟨f, rfl⟩ : ∃ f, fuel = f + 1 := ⟨fuel - 1, by omega⟩
    rw [parts]
    have hl : ∃ n, (partHead p ++ p.content ++ tailWire b []).length + 1 = n + 3 := by
      refine ⟨(partHead p ++ p.content ++ tailWire b []).length - 2, ?_⟩
      have : 2 ≤ (partHead p ++ p.content ++ tailWire b []).length := by
        simp only [List.length_append, partHead, sCD, List.length_cons]; omega
      omega
    obtain ⟨n, hn⟩ := hl
    rw [hn, List.append_assoc, headerLines_partHead b p hc n]
    obtain ⟨g1, g2, g3, g4⟩ := hdrs_facts p
    simp only [bind, Option.bind, g1, g2, g3, g4, if_false]
    have hdl : ∃ m, (disposition p).length + 1 = m + 3 := by
      refine ⟨(disposition p).length - 2, ?_⟩
      have : 2 ≤ (disposition p).length := by
        unfold disposition sDisp; simp only [List.length_append, List.length_cons]; omega
      omega
    obtain ⟨m, hm⟩ := hdl
    have hsp := splitOnce_append (delim b) (by simp [delim]) [45, 45, 13, 10] _ _ _ hc.content
    simp only [List.nil_append, List.append_assoc] at hsp
    have hrest : p.content ++ tailWire b [] = p.content ++ delim b ++ [45, 45, 13, 10] := by
      rw [tailWire_delim]; simp
    have hdelim : ([13, 10, 45, 45] : Bytes) ++ b = delim b := rfl
    by_cases hct : p.ctype.isEmpty = true <;>
      simp [hct, formData_prefix, hm, params_disposition p hc.name hc.file m, (lookup_params p).1, (lookup_params p).2,
        hdelim, hrest, hsp, intended, List.head?]
  | cons q qs ih =>
    intro p fuel hf hc hall
    obtain ⟨f, rfl⟩ : ∃ f, fuel = f + 1 := ⟨fuel - 1, by omega⟩
    rw [parts]
    have hl : ∃ n, (partHead p ++ p.content ++ tailWire b (q :: qs)).length + 1 = n + 3 := by
      refine ⟨(partHead p ++ p.content ++ tailWire b (q :: qs)).length - 2, ?_⟩
      have : 2 ≤ (partHead p ++ p.content ++ tailWire b (q :: qs)).length := by
        simp only [List.length_append, partHead, sCD, List.length_cons]; omega
      omega
    obtain ⟨n, hn⟩ := hl
    rw [hn, List.append_assoc, headerLines_partHead b p hc n]
    obtain ⟨g1, g2, g3, g4⟩ := hdrs_facts p
    simp only [bind, Option.bind, g1, g2, g3, g4, if_false]
    have hdl : ∃ m, (disposition p).length + 1 = m + 3 := by
      refine ⟨(disposition p).length - 2, ?_⟩
      have : 2 ≤ (disposition p).length := by
        unfold disposition sDisp; simp only [List.length_append, List.length_cons]; omega
      omega
    obtain ⟨m, hm⟩ := hdl
    have hsp := splitOnce_append (delim b) (by simp [delim]) (13 :: 10 :: (partHead q ++ q.content ++ tailWire b qs)) _ _ _ hc.content
    simp only [List.nil_append, List.append_assoc] at hsp
    have hrest : p.content ++ tailWire b (q :: qs) = p.content ++ delim b ++ (13 :: 10 :: (partHead q ++ q.content ++ tailWire b qs)) := by
      rw [tailWire_delim]; simp
    have hdelim : ([13, 10, 45, 45] : Bytes) ++ b = delim b := rfl
    have hih := ih q f (by simpa using hf) (hall q (by simp)) (fun x hx => hall x (by simp [hx]))
    simp only [List.append_assoc] at hih
    by_cases hct : p.ctype.isEmpty = true <;>
      simp [hct, formData_prefix, hm, params_disposition p hc.name hc.file m, (lookup_params p).1, (lookup_params p).2,
        hdelim, hrest, hsp, hih, intended, List.head?]

/-- **round trip**: for every boundary and every list of clean parts, the independent decoder reads the writer's bytes
back to exactly the parts attached -/
theorem decode_wire (b : Bytes) (ps : List Part) (hall : ∀ q ∈ ps, Clean b q) :
    decode b (wire b ps) = some (ps.map intended) := by
  cases ps with
  | nil =>
    unfold decode wire
    simp [partsWire, crlf, dashes]
  | cons p ps =>
    unfold decode
    rw [wire_cons]
    have hne : ((dashes ++ b ++ crlf ++ (partHead p ++ p.content ++ tailWire b ps)) ==
        [13, 10, 45, 45] ++ b ++ [45, 45, 13, 10]) = false := by
      simp [dashes]
    simp only [hne, Bool.false_eq_true, if_false]
    have hs := splitOnce_first_byte 45 (45 :: (b ++ [13, 10])) (partHead p ++ p.content ++ tailWire b ps) [] (by simp)
    have hw : ([45, 45] : Bytes) ++ b ++ [13, 10] = 45 :: 45 :: (b ++ [13, 10]) := by simp
    have hw2 : dashes ++ b ++ crlf ++ (partHead p ++ p.content ++ tailWire b ps) =
        [] ++ (45 :: 45 :: (b ++ [13, 10])) ++ (partHead p ++ p.content ++ tailWire b ps) := by
      simp [dashes, crlf]
    rw [hw, hw2, hs]
    simp only
    refine parts_wire b ps p _ ?_ (hall p (by simp)) (fun q hq => hall q (by simp [hq]))
    simp only [List.length_append, List.length_cons, tailWire]
    have := length_le_tailWire b ps
    omega

end Hertz.MultipartRT
