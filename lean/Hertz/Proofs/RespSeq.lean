import Hertz.Proofs.RespMessage
import Hertz.Model.Http1.RespSeq
import Hertz.Spec.RespSeq
/-!
X04 — lemmas for the sequencing theorems of `Props/C04.lean`: the wire of a list of exchanges
(`H1.RespSeq.wire`) read by the client (`Spec.Resp.decodeSeq`).
-/
namespace Hertz.H1.RespSeq
open Hertz Hertz.Gen.Str Hertz.HW Hertz.H1.Resp Hertz.Spec.Resp

/-! ### the loop: where the wire ends -/

theorem stops_false {e : Exch} (h : stops e = false) : failed e = false ∧ closes e = false ∧ e.hijack = false := by
  simpa [stops, Bool.or_eq_false_iff, and_assoc] using h

theorem wire_cons_go (cap : Nat) (e : Exch) (es : List Exch) (h : stops e = false) :
    wire cap (e :: es) = msg e ++ wire cap es := by
  obtain ⟨h1, h2, h3⟩ := stops_false h
  simp [wire, h1, h2, h3]

theorem wire_cons_stop (cap : Nat) (e : Exch) (es : List Exch) (h : stops e = true) :
    wire cap (e :: es) = wire cap [e] := by
  by_cases h1 : failed e = true
  · simp [wire, h1]
  · have h1' : failed e = false := by simpa using h1
    have h2 : (closes e || e.hijack) = true := by simpa [stops, h1', Bool.or_assoc] using h
    simp [wire, h1', h2]

/-- nothing of what follows an exchange that ends the loop reaches the wire, wherever it stands -/
theorem wire_after_stop (cap : Nat) (pre : List Exch) (e : Exch) (es : List Exch) (h : stops e = true) :
    wire cap (pre ++ e :: es) = wire cap (pre ++ [e]) := by
  induction pre with
  | nil => exact wire_cons_stop cap e es h
  | cons x t ih =>
    cases hx : stops x with
    | true => simp only [List.cons_append]; rw [wire_cons_stop cap x _ hx, wire_cons_stop cap x (t ++ [e]) hx]
    | false => simp only [List.cons_append]; rw [wire_cons_go cap x _ hx, wire_cons_go cap x _ hx, ih]

/-- the messages of exchanges that keep the connection are written one behind the other -/
theorem wire_append_go (cap : Nat) (pre es : List Exch) (h : ∀ x ∈ pre, stops x = false) :
    wire cap (pre ++ es) = (pre.map msg).flatten ++ wire cap es := by
  induction pre with
  | nil => rfl
  | cons x t ih =>
    have hx := h x (by simp)
    simp only [List.cons_append, List.map_cons, List.flatten_cons, List.append_assoc]
    rw [wire_cons_go cap x _ hx, ih (fun y hy => h y (by simp [hy]))]

theorem wire_failed_last (cap : Nat) (e : Exch) (h : failed e = true) : wire cap [e] = partialMsg cap e := by
  simp [wire, h]

/-! ### which exchanges are answered -/

theorem answered_prefix : ∀ xs : List Exch, answered xs <+: xs
  | [] => List.prefix_refl _
  | e :: es => by
    simp only [answered]
    split
    · exact List.nil_prefix
    · split
      · exact (List.prefix_cons_inj e).mpr List.nil_prefix
      · exact (List.prefix_cons_inj e).mpr (answered_prefix es)

theorem answered_go (pre es : List Exch) (hp : ∀ x ∈ pre, stops x = false) :
    answered (pre ++ es) = pre ++ answered es := by
  induction pre with
  | nil => rfl
  | cons x t ih =>
    obtain ⟨h1, h2, h3⟩ := stops_false (hp x (by simp))
    simp only [List.cons_append, answered, h1, h2, h3, Bool.false_eq_true, if_false, Bool.or_false]
    rw [ih (fun y hy => hp y (by simp [hy]))]

/-- all exchanges before the first one that ends the loop, and that one too unless its writer failed -/
theorem answered_upto (pre : List Exch) (e : Exch) (es : List Exch) (hp : ∀ x ∈ pre, stops x = false)
    (hs : stops e = true) : answered (pre ++ e :: es) = if failed e then pre else pre ++ [e] := by
  rw [answered_go pre _ hp]
  by_cases h1 : failed e = true
  · simp [answered, h1]
  · have h1' : failed e = false := by simpa using h1
    have h2 : (closes e || e.hijack) = true := by simpa [stops, h1', Bool.or_assoc] using hs
    simp [answered, h1', h2]

theorem answered_all (xs : List Exch) (h : ∀ x ∈ xs, stops x = false) : answered xs = xs := by
  have := answered_go xs [] h
  simpa [answered] using this

theorem closes_iff (e : Exch) :
    closes e = true ↔ e.srvClose = true ∨ e.reqConn = .close ∨ (e.http11 = false ∧ e.reqConn ≠ .keepAlive) ∨ e.respClose = true := by
  cases e with
  | mk http11 reqConn isHead r p respClose srvClose early hijack =>
    cases http11 <;> cases reqConn <;> cases respClose <;> cases srvClose <;> simp [closes, reqClose]

/-! ### the `Connection` field the client sees -/

/-- either not a `Connection` field, or one whose value (as written: CR/LF neutralised) does not read `close` in
any letter case -/
def ConnFree (kv : Bytes × Bytes) : Prop :=
  lowerAll kv.1 ≠ sConnection ∨ lowerAll (newlineToSpace kv.2) ≠ sClose

/-- the handler's generic fields contain no field that reads `Connection: close` (the setters route the name to
`setSpecialHeader`: the bytes `close` become the flag, other values — `upgrade`, `keep-alive` — are stored and are
fine here; a stored `Close` is the excluded case, see `close_decision_announced_fails_at_close_case`) -/
def NoConn (h : List (Bytes × Bytes)) : Prop := ∀ kv ∈ h, ConnFree kv

/-- hypotheses on one exchange: `HeadOK` header state, Go-`int` sizes, the documented exclusion, no generic field
reading `Connection: close`, and the close flag of the header is what `Response.ConnectionClose()` reports -/
structure Good (e : Exch) : Prop where
  head : HeadOK e.r e.p.status
  sizes : SizesFit e.p
  writer : WriterHasBody e.p e.isHead
  noConn : NoConn e.r.h
  flag : e.r.connClose = e.respClose

theorem nameFree (k v : Bytes) (h : lowerAll k ≠ sConnection) : ConnFree (k, v) := Or.inl h

theorem any_kept_false (fs : List (Bytes × Bytes)) (h : ∀ kv ∈ fs, ConnFree kv) :
    (kept fs).any isConnClose = false := by
  rw [List.any_eq_false]
  intro x hx
  simp only [kept, List.mem_map, List.mem_filter] at hx
  obtain ⟨kv, ⟨hm, _⟩, rfl⟩ := hx
  rcases h kv hm with h1 | h1
  · simp [isConnClose, h1]
  · simp [isConnClose, h1]

def frontFields (r : RespHdr) : List (Bytes × Bytes) :=
  (if r.server.isEmpty then [] else [(strServer, r.server)]) ++
  (match r.date with | some d => [(strDate, d)] | none => []) ++
  (if (r.contentLength != 0 || !r.contentType.isEmpty) && !r.contentType.isEmpty then [(strContentType, r.contentType)] else []) ++
  (if r.contentEncoding.isEmpty then [] else [(strContentEncoding, r.contentEncoding)]) ++
  (if r.clBytes.isEmpty then [] else [(strContentLength, r.clBytes)]) ++
  (r.h.filter (fun kv => r.date.isNone || kv.1 != strDate)) ++
  (if r.trailer.isEmpty then [] else [(strTrailer, trailerNames r.trailer)]) ++
  r.cookies.map (fun c => (strSetCookie, c))

theorem fields_split (r : RespHdr) :
    r.fields = frontFields r ++ (if r.connClose then [(strConnection, strClose)] else []) := rfl

theorem front_connFree (r : RespHdr) (hh : ∀ kv ∈ r.h, ConnFree kv) : ∀ kv ∈ frontFields r, ConnFree kv := by
  intro kv hm
  simp only [frontFields, List.mem_append] at hm
  rcases hm with ((((((hm | hm) | hm) | hm) | hm) | hm) | hm) | hm
  · split at hm
    · simp at hm
    · simp only [List.mem_singleton] at hm; subst hm; exact nameFree _ _ (by decide)
  · split at hm
    · simp only [List.mem_singleton] at hm; subst hm; exact nameFree _ _ (by decide)
    · simp at hm
  · split at hm
    · simp only [List.mem_singleton] at hm; subst hm; exact nameFree _ _ (by decide)
    · simp at hm
  · split at hm
    · simp at hm
    · simp only [List.mem_singleton] at hm; subst hm; exact nameFree _ _ (by decide)
  · split at hm
    · simp at hm
    · simp only [List.mem_singleton] at hm; subst hm; exact nameFree _ _ (by decide)
  · exact hh kv (List.mem_filter.mp hm).1
  · split at hm
    · simp at hm
    · simp only [List.mem_singleton] at hm; subst hm; exact nameFree _ _ (by decide)
  · simp only [List.mem_map] at hm
    obtain ⟨c, _, rfl⟩ := hm
    exact nameFree _ _ (by decide)

/-- the client sees `Connection: close` exactly when the header's close flag is set -/
theorem fields_any_close (r : RespHdr) (hh : ∀ kv ∈ r.h, ConnFree kv) :
    (kept r.fields).any isConnClose = r.connClose := by
  rw [fields_split, kept_append, List.any_append, any_kept_false _ (front_connFree r hh)]
  cases r.connClose
  · simp [kept]
  · simp only [if_true, Bool.false_or]; decide +kernel

theorem withFraming_connClose (r : RespHdr) (f : H1.Resp.Framing) : (withFraming r f).connClose = r.connClose := by
  cases f <;> rfl

theorem withFraming_connFree (r : RespHdr) (f : H1.Resp.Framing) (hh : ∀ kv ∈ r.h, ConnFree kv) :
    ∀ kv ∈ (withFraming r f).h, ConnFree kv := by
  intro kv hm
  cases f with
  | none => exact hh kv hm
  | cl n => exact hh kv (List.mem_filter.mp hm).1
  | chunked =>
    rcases mem_setArgKV _ _ _ _ hm with h1 | h1
    · exact hh kv h1
    · subst h1; exact Or.inl (by decide)

theorem ka_connFree : ConnFree (strConnection, strKeepAlive) := Or.inr (by decide +kernel)

theorem serveHdr_connFree (e : Exch) (hn : NoConn e.r.h) : ∀ kv ∈ (serveHdr e).h, ConnFree kv := by
  intro kv hm
  unfold serveHdr at hm
  split at hm
  · exact hn kv hm
  · split at hm
    · exact hn kv hm
    · split at hm
      · rcases mem_setArgKV _ _ _ _ hm with h1 | h1
        · exact hn kv h1
        · subst h1; exact ka_connFree
      · exact hn kv hm

theorem serveHdr_flag (e : Exch) (he : e.early = false) (hf : e.r.connClose = e.respClose) :
    (serveHdr e).connClose = closes e := by
  unfold serveHdr
  simp only [he, Bool.false_eq_true, if_false]
  cases hc : closes e with
  | true => simp
  | false =>
    have : e.respClose = false := by
      simp only [closes, Bool.or_eq_false_iff] at hc; exact hc.2
    cases e.http11 <;> simp [hf, this]

theorem sCL_ne_conn : lowerAll strConnection ≠ sCL := by rw [sCL_eq]; decide
theorem sTE_ne_conn : lowerAll strConnection ≠ sTE := by rw [sTE_eq]; decide

theorem serveHdr_ok (e : Exch) (h : HeadOK e.r e.p.status) : HeadOK (serveHdr e) e.p.status := by
  obtain ⟨h1, h2, h3, h4, h5⟩ := h
  unfold serveHdr
  split
  · exact ⟨h1, h2, h3, h4, h5⟩
  · split
    · exact ⟨h1, h2, h3, h4, h5⟩
    · split
      · refine ⟨h1, h2, h3, h4, ?_⟩
        intro kv hm
        rcases mem_setArgKV _ _ _ _ hm with hm | hm
        · exact h5 kv hm
        · subst hm; exact ⟨sCL_ne_conn, sTE_ne_conn⟩
      · exact ⟨h1, h2, h3, h4, h5⟩

/-- the message a strict reader must see for the exchange -/
def expMsg (e : Exch) : Msg := expected (serveHdr e) e.p e.isHead

theorem expMsg_fields (e : Exch) :
    (expMsg e).fields = kept (withFraming (serveHdr e) (frame e.p e.isHead).framing).fields := rfl

/-- **close decision, as the client sees it**: the response announces `Connection: close` exactly when
`Serve` closes the connection after it -/
theorem saysClose_expMsg (e : Exch) (g : Good e) (he : e.early = false) : saysClose (expMsg e) = closes e := by
  show (kept (withFraming (serveHdr e) (frame e.p e.isHead).framing).fields).any isConnClose = closes e
  rw [fields_any_close _ (withFraming_connFree _ _ (serveHdr_connFree e g.noConn)), withFraming_connClose,
    serveHdr_flag e he g.flag]

/-- header block sent early by the hijacked writer: the announcement is the flag at that moment -/
theorem saysClose_expMsg_early (e : Exch) (hn : NoConn e.r.h) (he : e.early = true) :
    saysClose (expMsg e) = e.r.connClose := by
  show (kept (withFraming (serveHdr e) (frame e.p e.isHead).framing).fields).any isConnClose = e.r.connClose
  rw [fields_any_close _ (withFraming_connFree _ _ (serveHdr_connFree e hn)), withFraming_connClose]
  simp [serveHdr, he]

theorem msg_decodes (e : Exch) (g : Good e) (hok : failed e = false) (rest : Bytes) :
    decodeOne e.isHead (msg e ++ rest) = some (expMsg e, rest) :=
  message_decodes _ _ _ rest (serveHdr_ok e g.head) g.sizes g.writer hok

theorem bytes_nonempty (r : RespHdr) (t : Bytes) : (r.bytes ++ t).isEmpty = false := by
  simp [RespHdr.bytes, strCRLF]

theorem msg_nonempty (e : Exch) (t : Bytes) : (msg e ++ t).isEmpty = false := by
  unfold msg message
  rw [List.append_assoc]
  exact bytes_nonempty _ _

theorem decodeSeq_nil (hs : List Bool) : decodeSeq hs [] = some ([], []) := by
  cases hs <;> simp [decodeSeq]

/-- **sequencing**: the client reads back, one after the other, exactly the responses of the exchanges
`Serve` answered — each next one starting where the previous one ends — and nothing is left over -/
theorem decodeSeq_wire (cap : Nat) : ∀ xs : List Exch, (∀ e ∈ xs, Good e ∧ e.early = false) → (∀ e ∈ xs, failed e = false) →
    decodeSeq (xs.map (·.isHead)) (wire cap xs) = some ((answered xs).map expMsg, [])
  | [], _, _ => rfl
  | e :: es, hg, hf => by
    obtain ⟨g, he⟩ := hg e (by simp)
    have hfe := hf e (by simp)
    have ih := decodeSeq_wire cap es (fun x hx => hg x (by simp [hx])) (fun x hx => hf x (by simp [hx]))
    cases hc : (closes e || e.hijack) with
    | true =>
      have hw : wire cap (e :: es) = msg e ++ [] := by simp [wire, hfe, hc]
      have ha : answered (e :: es) = [e] := by simp [answered, hfe, hc]
      rw [hw, ha]
      simp only [List.map_cons, decodeSeq, msg_nonempty, Bool.false_eq_true, if_false, msg_decodes e g hfe,
        saysClose_expMsg e g he, decodeSeq_nil, List.map_nil]
      cases closes e <;> simp
    | false =>
      have hc' : closes e = false := by
        simp only [Bool.or_eq_false_iff] at hc; exact hc.1
      have hw : wire cap (e :: es) = msg e ++ wire cap es := by simp [wire, hfe, hc]
      have ha : answered (e :: es) = e :: answered es := by simp [answered, hfe, hc]
      rw [hw, ha]
      simp only [List.map_cons, decodeSeq, msg_nonempty, Bool.false_eq_true, if_false, msg_decodes e g hfe,
        saysClose_expMsg e g he, hc', ih, Option.map_some]

/-! ### a body stream shorter than declared -/

theorem takeStream_le (n : Nat) (reads : List Bytes) : (takeStream n reads).length ≤ n := by
  simp only [takeStream, List.length_take]; omega

/-- what a failed writer means: not HEAD, a status with a body, `Content-Length: n` announced, fewer than `n`
bytes delivered -/
theorem failed_frame (p : Prog) (isHead : Bool) (h : (frame p isHead).failed = true) :
    isHead = false ∧ mustSkipCL p.status = false ∧
      ∃ n, (frame p isHead).framing = .cl n ∧ (frame p isHead).wire.length < n := by
  obtain ⟨st, body, tr⟩ := p
  cases hs : mustSkipCL st with
  | true => cases body <;> simp [frame, hs] at h
  | false =>
    cases isHead with
    | true => cases body <;> simp [frame, hs] at h <;> (split at h <;> simp at h)
    | false =>
      cases body with
      | bytes b => simp [frame] at h
      | writer sc => simp [frame] at h
      | stream d reads =>
        by_cases hd : d ≥ 0
        · have := takeStream_le d.toNat reads
          have h' : (takeStream d.toNat reads).length ≠ d.toNat := by simpa [frame, hs, hd] using h
          exact ⟨rfl, rfl, d.toNat, by simp [frame, hs, hd], by simp only [frame, hs, hd]; simp; omega⟩
        · simp [frame, hs, hd] at h
      | limited l reads =>
        have := takeStream_le l reads
        have h' : (takeStream l reads).length ≠ l := by simpa [frame, hs] using h
        exact ⟨rfl, rfl, l, by simp [frame, hs], by simp only [frame, hs]; simp; omega⟩

theorem flushedBody_le (cap : Nat) (b : Bytes) : (flushedBody cap b).length ≤ b.length := by
  simp only [flushedBody, List.length_take]; omega

/-- the client cannot take what was written of a short stream's response for a complete message -/
theorem partial_undecodable (cap : Nat) (e : Exch) (g : Good e) (hf : failed e = true) :
    decodeOne e.isHead (partialMsg cap e) = none := by
  obtain ⟨h1, h2, n, hfr, hlt⟩ := failed_frame e.p e.isHead hf
  unfold partialMsg
  rw [decode_message _ e.p.status _ e.isHead _ (serveHdr_ok e g.head) (frame_cl_bound e.p e.isHead g.sizes)]
  have hb : noBodyStatus e.p.status = false := by rw [← mustSkipCL_eq]; exact h2
  have hl := flushedBody_le cap (frame e.p e.isHead).wire
  have : (flushedBody cap (frame e.p e.isHead).wire).length < n := by omega
  simp only [h1] at hfr this ⊢
  simp [bodyOf, hb, hfr, toSpec, this]

theorem partial_nonempty (cap : Nat) (e : Exch) : (partialMsg cap e).isEmpty = false :=
  bytes_nonempty _ _

/-- a connection on which a stream ran short does not read back as a sequence of complete responses: the
client gets an error, not a body the handler never produced -/
theorem decodeSeq_short (cap : Nat) (e : Exch) (es : List Exch) (g : Good e) (hf : failed e = true) :
    ∀ pre : List Exch, (∀ x ∈ pre, Good x ∧ x.early = false ∧ stops x = false) →
      decodeSeq ((pre ++ e :: es).map (·.isHead)) (wire cap (pre ++ e :: es)) = none
  | [], _ => by
    have hw : wire cap (e :: es) = partialMsg cap e := by simp [wire, hf]
    simp only [List.nil_append, List.map_cons, hw, decodeSeq, partial_nonempty, Bool.false_eq_true, if_false,
      partial_undecodable cap e g hf]
  | x :: t, hp => by
    obtain ⟨gx, hex, hsx⟩ := hp x (by simp)
    obtain ⟨f1, f2, _⟩ := stops_false hsx
    have ih := decodeSeq_short cap e es g hf t (fun y hy => hp y (by simp [hy]))
    simp only [List.cons_append, List.map_cons]
    rw [wire_cons_go cap x _ hsx]
    simp only [decodeSeq, msg_nonempty, Bool.false_eq_true, if_false, msg_decodes x gx f1,
      saysClose_expMsg x gx hex, f2]
    rw [ih]; rfl

/-! ### HTTP/1.0 -/

theorem mem_setArgKV_self : ∀ (h : List (Bytes × Bytes)) (k v : Bytes), (k, v) ∈ setArgKV h k v
  | [], _, _ => by simp [setArgKV]
  | (k', v') :: t, k, v => by
    simp only [setArgKV]
    split
    · simp
    · simp [mem_setArgKV_self t k v]

theorem mem_setArgKV_other : ∀ (h : List (Bytes × Bytes)) (k v : Bytes) (kv : Bytes × Bytes), kv ∈ h → kv.1 ≠ k →
    kv ∈ setArgKV h k v
  | [], _, _, _, hm, _ => by cases hm
  | (k', v') :: t, k, v, kv, hm, hk => by
    simp only [setArgKV]
    simp only [List.mem_cons] at hm
    split
    · next he =>
      rcases hm with hm | hm
      · subst hm; exact absurd he hk
      · simp [hm]
    · rcases hm with hm | hm
      · simp [hm]
      · simp [mem_setArgKV_other t k v kv hm hk]

theorem ka_mem_withFraming (r : RespHdr) (f : H1.Resp.Framing) (h : (strConnection, strKeepAlive) ∈ r.h) :
    (strConnection, strKeepAlive) ∈ (withFraming r f).h := by
  cases f with
  | none => exact h
  | cl n => exact List.mem_filter.mpr ⟨h, by decide⟩
  | chunked => exact mem_setArgKV_other _ _ _ _ h (by decide)

theorem mem_kept (fs : List (Bytes × Bytes)) (kv : Bytes × Bytes) (h : kv ∈ fs) (hv : validName kv.1 = true) :
    (kv.1, newlineToSpace kv.2) ∈ kept fs := by
  simp only [kept, List.mem_map, List.mem_filter]
  exact ⟨kv, ⟨h, hv⟩, rfl⟩

theorem ka_mem_fields (r : RespHdr) (h : (strConnection, strKeepAlive) ∈ r.h) :
    (strConnection, strKeepAlive) ∈ kept r.fields := by
  have h1 : (strConnection, strKeepAlive) ∈ frontFields r := by
    simp only [frontFields, List.mem_append]
    refine Or.inl (Or.inl (Or.inr (List.mem_filter.mpr ⟨h, ?_⟩)))
    have : ((strConnection, strKeepAlive) : Bytes × Bytes).1 != strDate := by decide
    simp [this]
  have h2 : (strConnection, strKeepAlive) ∈ r.fields := by
    rw [fields_split]; exact List.mem_append_left _ h1
  have := mem_kept r.fields _ h2 (by decide +kernel)
  have e : newlineToSpace strKeepAlive = strKeepAlive := by decide +kernel
  simpa [e] using this

/-- an HTTP/1.0 peer whose connection is kept is told so -/
theorem saysKeepAlive_expMsg (e : Exch) (he : e.early = false) (hc : closes e = false) (hv : e.http11 = false) :
    saysKeepAlive (expMsg e) = true := by
  have h0 : (strConnection, strKeepAlive) ∈ (serveHdr e).h := by
    simp only [serveHdr, he, hc, hv, Bool.false_eq_true, if_false, Bool.not_false, if_true]
    exact mem_setArgKV_self _ _ _
  have := ka_mem_fields _ (ka_mem_withFraming (serveHdr e) (frame e.p e.isHead).framing h0)
  show (kept (withFraming (serveHdr e) (frame e.p e.isHead).framing).fields).any isConnKeepAlive = true
  rw [List.any_eq_true]
  exact ⟨_, this, by decide⟩

/-! ### every header state the setters can produce (`HeadInv`) -/

theorem setArgKV_split : ∀ (a : List (Bytes × Bytes)) (x : Bytes × Bytes) (b : List (Bytes × Bytes)) (k v : Bytes),
    x.1 ≠ k → ∃ a' b', setArgKV (a ++ x :: b) k v = a' ++ x :: b' ∧
      (∀ kv ∈ a', kv ∈ a ∨ kv = (k, v)) ∧ (∀ kv ∈ b', kv ∈ b ∨ kv = (k, v))
  | [], (xk, xv), b, k, v, hx => by
    have hxk : xk ≠ k := hx
    exact ⟨[], setArgKV b k v, by simp [setArgKV, hxk], fun kv h => (by cases h), fun kv h => mem_setArgKV b k v kv h⟩
  | (yk, yv) :: t, x, b, k, v, hx => by
    by_cases hy : yk = k
    · refine ⟨(k, v) :: t, b, by simp [setArgKV, hy], ?_, fun kv h => Or.inl h⟩
      intro kv h
      simp only [List.mem_cons] at h ⊢
      rcases h with h | h
      · exact Or.inr h
      · exact Or.inl (Or.inr h)
    · obtain ⟨a', b', he, ha, hb⟩ := setArgKV_split t x b k v hx
      refine ⟨(yk, yv) :: a', b', by simp [setArgKV, hy, he], ?_, hb⟩
      intro kv h
      simp only [List.mem_cons] at h ⊢
      rcases h with h | h
      · exact Or.inl (Or.inl h)
      · rcases ha kv h with h1 | h1
        · exact Or.inl (Or.inr h1)
        · exact Or.inr h1

theorem declares_congr {r r' : RespHdr} {d : Spec.Resp.Framing} (hc : r'.clBytes = r.clBytes) (hh : r'.h = r.h)
    (hd : Declares r d) : Declares r' d := by
  cases hd with
  | none h1 h2 => exact .none (by rw [hc]; exact h1) (by rw [hh]; exact h2)
  | cl h1 h2 h3 =>
    have := Declares.cl (r := r') (by rw [hc]; exact h1) (by rw [hc]; exact h2) (by rw [hh]; exact h3)
    rw [hc] at this; exact this
  | chunked a b h1 h2 h3 h4 => exact .chunked a b (by rw [hc]; exact h1) (by rw [hh]; exact h2) h3 h4

theorem declares_keepAlive (r : RespHdr) (d : Spec.Resp.Framing) (hd : Declares r d) :
    Declares { r with connClose := false, h := setArgKV r.h strConnection strKeepAlive } d := by
  have hne : ∀ kv : Bytes × Bytes, kv = (strConnection, strKeepAlive) → lowerAll kv.1 ≠ sTE := by
    intro kv e; subst e; exact sTE_ne_conn
  cases hd with
  | none h1 h2 =>
    refine .none h1 ?_
    intro kv hm
    rcases mem_setArgKV _ _ _ _ hm with h | h
    · exact h2 kv h
    · exact hne kv h
  | cl h1 h2 h3 =>
    refine Declares.cl (r := { r with connClose := false, h := setArgKV r.h strConnection strKeepAlive }) h1 h2 ?_
    intro kv hm
    rcases mem_setArgKV _ _ _ _ hm with h | h
    · exact h3 kv h
    · exact hne kv h
  | chunked a b h1 h2 h3 h4 =>
    obtain ⟨a', b', he, ha, hb⟩ := setArgKV_split a (strTransferEncoding, strChunked) b strConnection strKeepAlive (by decide)
    refine .chunked a' b' h1 (by show setArgKV r.h _ _ = _; rw [h2, he]) ?_ ?_
    · intro kv hm
      rcases ha kv hm with h | h
      · exact h3 kv h
      · exact hne kv h
    · intro kv hm
      rcases hb kv hm with h | h
      · exact h4 kv h
      · exact hne kv h

theorem serveHdr_inv (e : Exch) (d : Spec.Resp.Framing) (h : HeadInv e.r e.p.status d) :
    HeadInv (serveHdr e) e.p.status d := by
  obtain ⟨h1, h2, h3, h4, h5⟩ := h
  unfold serveHdr
  split
  · exact ⟨h1, h2, h3, h4, h5⟩
  · split
    · exact ⟨h1, h2, h3, h4, declares_congr (r := e.r) rfl rfl h5⟩
    · split
      · refine ⟨h1, h2, h3, ?_, declares_keepAlive e.r d h5⟩
        intro kv hm
        rcases mem_setArgKV _ _ _ _ hm with hm | hm
        · exact h4 kv hm
        · subst hm; exact sCL_ne_conn
      · exact ⟨h1, h2, h3, h4, h5⟩

/-- `Good` with the wider invariant: `d e` is what the header state of `e` declares by itself -/
structure GoodInv (d : Spec.Resp.Framing) (e : Exch) : Prop where
  head : HeadInv e.r e.p.status d
  sizes : SizesFit e.p
  writer : WriterHasBody e.p e.isHead
  noConn : NoConn e.r.h
  flag : e.r.connClose = e.respClose

theorem Good.inv {e : Exch} (g : Good e) : GoodInv .none e :=
  ⟨g.head.inv, g.sizes, g.writer, g.noConn, g.flag⟩

/-- the message a strict reader must see when the header state declares `d` by itself -/
def expMsgInv (d : Spec.Resp.Framing) (e : Exch) : Msg := expectedInv d (serveHdr e) e.p e.isHead

theorem expMsgInv_fields (d : Spec.Resp.Framing) (e : Exch) : (expMsgInv d e).fields = (expMsg e).fields := rfl

theorem saysClose_expMsgInv (d : Spec.Resp.Framing) (e : Exch) (g : GoodInv d e) (he : e.early = false) :
    saysClose (expMsgInv d e) = closes e := by
  unfold saysClose
  rw [expMsgInv_fields, expMsg_fields,
    fields_any_close _ (withFraming_connFree _ _ (serveHdr_connFree e g.noConn)), withFraming_connClose,
    serveHdr_flag e he g.flag]

theorem msg_decodes_inv (d : Spec.Resp.Framing) (e : Exch) (g : GoodInv d e) (hok : failed e = false) (rest : Bytes) :
    decodeOne e.isHead (msg e ++ rest) = some (expMsgInv d e, rest) :=
  message_decodes_inv _ d _ _ rest (serveHdr_inv e d g.head) g.sizes g.writer hok

/-- **sequencing for every header state the setters can reach** -/
theorem decodeSeq_wire_inv (cap : Nat) (d : Exch → Spec.Resp.Framing) : ∀ xs : List Exch,
    (∀ e ∈ xs, GoodInv (d e) e ∧ e.early = false) → (∀ e ∈ xs, failed e = false) →
    decodeSeq (xs.map (·.isHead)) (wire cap xs) = some ((answered xs).map (fun e => expMsgInv (d e) e), [])
  | [], _, _ => rfl
  | e :: es, hg, hf => by
    obtain ⟨g, he⟩ := hg e (by simp)
    have hfe := hf e (by simp)
    have ih := decodeSeq_wire_inv cap d es (fun x hx => hg x (by simp [hx])) (fun x hx => hf x (by simp [hx]))
    cases hc : (closes e || e.hijack) with
    | true =>
      have hw : wire cap (e :: es) = msg e ++ [] := by simp [wire, hfe, hc]
      have ha : answered (e :: es) = [e] := by simp [answered, hfe, hc]
      rw [hw, ha]
      simp only [List.map_cons, decodeSeq, msg_nonempty, Bool.false_eq_true, if_false, msg_decodes_inv (d e) e g hfe,
        saysClose_expMsgInv (d e) e g he, decodeSeq_nil, List.map_nil]
      cases closes e <;> simp
    | false =>
      have hc' : closes e = false := by
        simp only [Bool.or_eq_false_iff] at hc; exact hc.1
      have hw : wire cap (e :: es) = msg e ++ wire cap es := by simp [wire, hfe, hc]
      have ha : answered (e :: es) = e :: answered es := by simp [answered, hfe, hc]
      rw [hw, ha]
      simp only [List.map_cons, decodeSeq, msg_nonempty, Bool.false_eq_true, if_false, msg_decodes_inv (d e) e g hfe,
        saysClose_expMsgInv (d e) e g he, hc', ih, Option.map_some]

end Hertz.H1.RespSeq
