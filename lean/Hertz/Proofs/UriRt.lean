import Hertz.Model.Uri
import Hertz.Proofs.Path
import Hertz.Proofs.Args
/-!
Lemmas for C17 `uri_roundtrip`: `URI.Parse(nil, ·)` applied to `FullURI()` of a URI assembled through the setters
cuts the text exactly where it was assembled (`parse_fullURI`), for every scheme/host accepted by `wfUri`, every path,
every list of query arguments and every fragment free of control bytes (a control byte in the fragment is finding F15).
-/
namespace Hertz.Uri
open Hertz Hertz.Gen.Str


/-! ### `indexOf` -/

theorem indexOf_notin (c : UInt8) : ∀ a : Bytes, (∀ x ∈ a, x ≠ c) → indexOf c a = none
  | [], _ => rfl
  | x :: t, h => by
    have hx : x ≠ c := h x (by simp)
    simp [indexOf, hx, indexOf_notin c t (fun y hy => h y (by simp [hy]))]

theorem indexOf_append_notin (c : UInt8) (b : Bytes) : ∀ a : Bytes, (∀ x ∈ a, x ≠ c) →
    indexOf c (a ++ b) = (indexOf c b).map (· + a.length)
  | [], _ => by simp
  | x :: t, h => by
    have hx : x ≠ c := h x (by simp)
    simp only [List.cons_append, indexOf, hx, if_false, indexOf_append_notin c b t (fun y hy => h y (by simp [hy]))]
    cases indexOf c b <;> simp [Nat.add_assoc]

theorem indexOf_self (c : UInt8) (b : Bytes) : indexOf c (c :: b) = some 0 := by simp [indexOf]

theorem indexOf_mid (c : UInt8) (a b : Bytes) (h : ∀ x ∈ a, x ≠ c) : indexOf c (a ++ c :: b) = some a.length := by
  rw [indexOf_append_notin c _ a h, indexOf_self]; simp

theorem indexOf_cons_ne (c d : UInt8) (b : Bytes) (h : d ≠ c) : indexOf c (d :: b) = (indexOf c b).map (· + 1) := by
  simp [indexOf, h]

/-! ### scheme scanner -/

def schemeChar (c : UInt8) : Bool := isAlpha c || (48 ≤ c && c ≤ 57) || c == 43 || c == 45 || c == 46

theorem getSchemeAux_pos (rest : Bytes) : ∀ (sch : Bytes) (i : Nat) (acc : Bytes), 0 < i → sch.all schemeChar = true →
    getSchemeAux i acc (sch ++ 58 :: rest) = some (acc ++ sch, rest)
  | [], i, acc, hi, _ => by
    have : i ≠ 0 := by omega
    simp [getSchemeAux, isAlpha, this]
  | c :: t, i, acc, hi, h => by
    simp only [List.all_cons, Bool.and_eq_true] at h
    have ih := getSchemeAux_pos rest t (i + 1) (acc ++ [c]) (by omega) h.2
    have hi0 : i ≠ 0 := by omega
    simp only [List.cons_append, getSchemeAux]
    cases ha : isAlpha c with
    | true => simp [ih]
    | false =>
      have h1 := h.1
      simp only [schemeChar, ha, Bool.false_or] at h1
      simp [h1, hi0, ih]

theorem getScheme_assembled (sch rest : Bytes) (h : sch.all schemeChar = true)
    (hh : (sch.head?.map isAlpha).getD false = true) : getScheme (sch ++ 58 :: rest) = some (sch, rest) := by
  cases sch with
  | nil => simp at hh
  | cons c t =>
    simp only [List.head?_cons, Option.map_some, Option.getD_some] at hh
    simp only [List.all_cons, Bool.and_eq_true] at h
    unfold getScheme
    simp only [List.cons_append, getSchemeAux, hh, if_true]
    have := getSchemeAux_pos rest t 1 [c] (by omega) h.2
    simpa using this


/-- the text after the authority, as `RequestURI` + fragment write it -/
def qText : Option Bytes → Bytes
  | none => []
  | some s => 63 :: s

def tailOf (qp : Bytes) (q : Option Bytes) (hash : Bytes) : Bytes :=
  qp ++ (qText q ++ (if hash.isEmpty then [] else 35 :: hash))

def hostChar (c : UInt8) : Bool := c != 47 && c != 63 && c != 35 && c != 64 && c ≥ 32 && c != 127

/-- what `parse` must make of `tailOf qp q hash` -/
def tailParsed (base : URI) (qp : Bytes) (q : Option Bytes) (hash : Bytes) : URI :=
  { base with pathOriginal := qp, path := normalizePath qp, query := q.getD [], hash := hash }

theorem splitHostURI_assembled (sch host tl : Bytes) (h : sch.all schemeChar = true)
    (hh : (sch.head?.map isAlpha).getD false = true) (hhost : ∀ x ∈ host, x ≠ 47) (htl : tl.head? = some 47) :
    splitHostURI [] (sch ++ strColonSlashSlash ++ host ++ tl) = (sch, host, tl) := by
  unfold splitHostURI
  have e : sch ++ strColonSlashSlash ++ host ++ tl = sch ++ 58 :: (47 :: 47 :: (host ++ tl)) := by
    simp [strColonSlashSlash]
  rw [e, getScheme_assembled sch _ h hh]
  cases tl with
  | nil => simp at htl
  | cons c t =>
    simp only [List.head?_cons, Option.some.injEq] at htl
    subst htl
    simp [strSlashSlash, indexOf_mid 47 host t hhost]


/-- the last part of `parse`: cutting path, query and fragment -/
def parseTail (base : URI) (uri : Bytes) : URI :=
  let q := indexOf 63 uri
  let f := indexOf 35 uri
  let q := match q, f with
    | some qi, some fi => if qi > fi then none else some qi
    | q, _ => q
  match q, f with
  | none, none => { base with pathOriginal := uri, path := normalizePath uri }
  | some qi, none =>
    { base with pathOriginal := uri.take qi, path := normalizePath (uri.take qi), query := uri.drop (qi + 1) }
  | some qi, some fi =>
    { base with pathOriginal := uri.take qi, path := normalizePath (uri.take qi),
                query := (uri.take fi).drop (qi + 1), hash := uri.drop (fi + 1) }
  | none, some fi =>
    { base with pathOriginal := uri.take fi, path := normalizePath (uri.take fi), hash := uri.drop (fi + 1) }

theorem parseTail_tailOf (base : URI) (qp : Bytes) (q : Option Bytes) (hash : Bytes)
    (hbq : base.query = []) (hbh : base.hash = [])
    (h63 : ∀ x ∈ qp, x ≠ 63) (h35 : ∀ x ∈ qp, x ≠ 35) (hq : ∀ s, q = some s → ∀ x ∈ s, x ≠ 35) :
    parseTail base (tailOf qp q hash) = tailParsed base qp q hash := by
  unfold parseTail tailOf tailParsed qText
  cases q with
  | none =>
    cases hash with
    | nil => simp [indexOf_notin 63 qp h63, indexOf_notin 35 qp h35, hbq, hbh]
    | cons c t =>
      simp only [List.isEmpty_cons, Bool.false_eq_true, if_false, List.nil_append]
      rw [indexOf_mid 35 qp _ h35, indexOf_append_notin 63 _ qp h63, indexOf_cons_ne 63 35 _ (by decide)]
      cases indexOf 63 (c :: t) with
      | none => simp [hbq]
      | some k =>
        have : qp.length < k + 1 + qp.length := by omega
        simp [this, hbq]
  | some s =>
    have hs := hq s rfl
    cases hash with
    | nil =>
      simp only [List.isEmpty_nil, if_true, List.append_nil]
      rw [indexOf_mid 63 qp _ h63, indexOf_append_notin 35 _ qp h35, indexOf_cons_ne 35 63 _ (by decide),
        indexOf_notin 35 s hs]
      simp [hbh]
    | cons c t =>
      simp only [List.isEmpty_cons, Bool.false_eq_true, if_false]
      have e63 : indexOf 63 (qp ++ (63 :: s ++ 35 :: c :: t)) = some qp.length := by
        have := indexOf_mid 63 qp (s ++ 35 :: c :: t) h63
        simpa using this
      have e35' : indexOf 35 (63 :: s ++ 35 :: c :: t) = some (s.length + 1) := by
        have := indexOf_mid 35 (63 :: s) (c :: t)
          (by intro x hx; simp at hx; rcases hx with hx | hx; (subst hx; decide); exact hs x hx)
        simpa using this
      have e35 : indexOf 35 (qp ++ (63 :: s ++ 35 :: c :: t)) = some (s.length + 1 + qp.length) := by
        rw [indexOf_append_notin 35 _ qp h35, e35']; rfl
      rw [e63, e35]
      have h1 : ¬ (qp.length > s.length + 1 + qp.length) := by omega
      simp only [h1, if_false]
      have t1 : List.take qp.length (qp ++ (63 :: s ++ 35 :: c :: t)) = qp := by simp
      have t2 : List.drop (qp.length + 1) (List.take (s.length + 1 + qp.length) (qp ++ (63 :: s ++ 35 :: c :: t))) = s := by
        have : qp ++ (63 :: s ++ 35 :: c :: t) = (qp ++ 63 :: s) ++ 35 :: c :: t := by simp
        rw [this, List.take_left' (by simp; omega)]
        have : qp ++ 63 :: s = (qp ++ [63]) ++ s := by simp
        rw [this, List.drop_left' (by simp)]
      have t3 : List.drop (s.length + 1 + qp.length + 1) (qp ++ (63 :: s ++ 35 :: c :: t)) = c :: t := by
        have : qp ++ (63 :: s ++ 35 :: c :: t) = (qp ++ 63 :: s ++ [35]) ++ c :: t := by simp
        rw [this, List.drop_left' (by simp; omega)]
      simp only [t1, t2, t3, Option.getD_some]

theorem parse_eq (host uri : Bytes) : parse host uri =
    if hasCTL uri then {} else
      let shu : Bytes × Bytes × Bytes :=
        if host.isEmpty || containsSub strColonSlashSlash uri then
          let (s, h, u) := splitHostURI host uri
          (s.map toLower, h, u)
        else ([], host, uri)
      let uph : Bytes × Bytes × Bytes :=
        match indexOf 64 shu.2.1 with
        | some n =>
          let auth := shu.2.1.take n
          (match indexOf 58 auth with
           | some m => (auth.take m, auth.drop (m + 1), shu.2.1.drop (n + 1))
           | none => (auth, [], shu.2.1.drop (n + 1)))
        | none => ([], [], shu.2.1)
      parseTail { scheme := shu.1, host := uph.2.2.map toLower, username := uph.1, password := uph.2.1 } shu.2.2 := by
  rfl


theorem tailOf_head (qp : Bytes) (q : Option Bytes) (hash : Bytes) (h : qp.head? = some 47) :
    (tailOf qp q hash).head? = some 47 := by
  cases qp with
  | nil => simp at h
  | cons c t => simpa [tailOf] using h

/-- `Parse(nil, ·)` of an assembled absolute URI cuts it at the places where it was assembled. -/
theorem parse_assembled (sch host qp : Bytes) (q : Option Bytes) (hash : Bytes)
    (hs : sch.all schemeChar = true) (hsh : (sch.head?.map isAlpha).getD false = true)
    (hhost : host.all hostChar = true) (hqp0 : qp.head? = some 47)
    (h63 : ∀ x ∈ qp, x ≠ 63) (h35 : ∀ x ∈ qp, x ≠ 35) (hq : ∀ s, q = some s → ∀ x ∈ s, x ≠ 35)
    (hctl : hasCTL (sch ++ strColonSlashSlash ++ host ++ tailOf qp q hash) = false) :
    parse [] (sch ++ strColonSlashSlash ++ host ++ tailOf qp q hash) =
      tailParsed { scheme := sch.map toLower, host := host.map toLower } qp q hash := by
  have hh : ∀ x ∈ host, hostChar x = true := by simpa [List.all_eq_true] using hhost
  have h47 : ∀ x ∈ host, x ≠ 47 := by
    intro x hx; have := hh x hx; simp [hostChar] at this; exact this.1.1.1.1.1
  have h64 : ∀ x ∈ host, x ≠ 64 := by
    intro x hx; have := hh x hx; simp [hostChar] at this; exact this.1.1.2
  rw [parse_eq, hctl]
  simp only [Bool.false_eq_true, if_false, List.isEmpty_nil, Bool.true_or, if_true]
  rw [splitHostURI_assembled sch host _ hs hsh h47 (tailOf_head qp q hash hqp0)]
  simp only [indexOf_notin 64 host h64]
  exact parseTail_tailOf _ qp q hash rfl rfl h63 h35 hq


/-! ### bytes the serialiser can emit -/

def ctl (c : UInt8) : Bool := c < 32 || c == 127
def uriSafe (c : UInt8) : Bool := c != 63 && c != 35 && !ctl c

set_option maxRecDepth 100000 in
theorem tbl_path_unescaped : allBytes (fun c => pathShouldEscape c || uriSafe c) = true := by
  decide +kernel

set_option maxRecDepth 100000 in
theorem tbl_upperhex_uri : allBytes (fun c => uriSafe (upperhex (c >>> 4)) && uriSafe (upperhex (c &&& 15))) = true := by
  decide +kernel

set_option maxRecDepth 100000 in
theorem tbl_arg_unescaped_uri : allBytes (fun c => argShouldEscape c || c == 32 || uriSafe c) = true := by
  decide +kernel

theorem pathShouldEscape_slash : pathShouldEscape 47 = false := by decide +kernel

theorem pctEnc_uriSafe (c x : UInt8) (hx : x ∈ pctEnc c) : uriSafe x = true := by
  have := allBytes_spec tbl_upperhex_uri c
  simp only [pctEnc, List.mem_cons, List.mem_nil_iff, or_false] at hx
  simp only [Bool.and_eq_true] at this
  rcases hx with hx | hx | hx
  · subst hx; decide
  · subst hx; exact this.1
  · subst hx; exact this.2

theorem quotePathBody_uriSafe : ∀ (p : Bytes), ∀ x ∈ quotePathBody p, uriSafe x = true
  | [], x, hx => by simp [quotePathBody] at hx
  | c :: t, x, hx => by
    simp only [quotePathBody, List.mem_append] at hx
    rcases hx with hx | hx
    · cases he : pathShouldEscape c with
      | true => simp only [he, if_true] at hx; exact pctEnc_uriSafe c x hx
      | false =>
        simp only [he, Bool.false_eq_true, if_false, List.mem_cons, List.mem_nil_iff, or_false] at hx
        subst hx
        have := allBytes_spec tbl_path_unescaped x
        simpa [he] using this
    · exact quotePathBody_uriSafe t x hx

theorem quotePath_slash (p : Bytes) (h : p.head? = some 47) : quotePath p = quotePathBody p ∧ (quotePath p).head? = some 47 := by
  cases p with
  | nil => simp at h
  | cons c t =>
    simp only [List.head?_cons, Option.some.injEq] at h
    subst h
    have : quotePath (47 :: t) = quotePathBody (47 :: t) := by
      unfold quotePath; simp
    rw [this]
    simp [quotePathBody, pathShouldEscape_slash]

theorem slashDecode_quotePath (p : Bytes) (h : p.head? = some 47) : slashDecode (quotePath p) = p := by
  have h2 := (quotePath_slash p h).2
  unfold slashDecode
  cases hq : quotePath p with
  | nil => rw [hq] at h2; simp at h2
  | cons c t =>
    rw [hq] at h2
    simp only [List.head?_cons, Option.some.injEq] at h2
    subst h2
    simp only [if_true, List.nil_append]
    rw [← hq, decodeNoPlus_quotePath]


theorem quoteArg_uriSafe : ∀ (b : Bytes), ∀ x ∈ quoteArg b, uriSafe x = true
  | [], x, hx => by simp [quoteArg] at hx
  | c :: t, x, hx => by
    simp only [quoteArg, List.mem_append] at hx
    rcases hx with hx | hx
    · by_cases h32 : c = 32
      · subst h32; simp at hx; subst hx; decide
      · simp only [h32, if_false] at hx
        cases he : argShouldEscape c with
        | true => simp only [he, if_true] at hx; exact pctEnc_uriSafe c x hx
        | false =>
          simp only [he, Bool.false_eq_true, if_false, List.mem_cons, List.mem_nil_iff, or_false] at hx
          subst hx
          have := allBytes_spec tbl_arg_unescaped_uri x
          simpa [he, h32] using this
    · exact quoteArg_uriSafe t x hx

theorem appendArg_uriSafe (kv : ArgKV) : ∀ x ∈ appendArg kv, uriSafe x = true := by
  intro x hx
  unfold appendArg at hx
  simp only [List.mem_append] at hx
  rcases hx with hx | hx
  · exact quoteArg_uriSafe _ x hx
  · split at hx
    · simp at hx
    · simp only [List.mem_cons] at hx
      rcases hx with hx | hx
      · subst hx; decide
      · exact quoteArg_uriSafe _ x hx

theorem appendArgs_uriSafe : ∀ (l : List ArgKV), ∀ x ∈ appendArgs l, uriSafe x = true
  | [], x, hx => by simp [appendArgs] at hx
  | [kv], x, hx => by simp only [appendArgs] at hx; exact appendArg_uriSafe kv x hx
  | kv :: k2 :: t, x, hx => by
    simp only [appendArgs, List.mem_append, List.mem_cons] at hx
    rcases hx with hx | hx | hx
    · exact appendArg_uriSafe kv x hx
    · subst hx; decide
    · exact appendArgs_uriSafe (k2 :: t) x (by simpa [appendArgs] using hx)


/-! ### `normalizePath` is the identity on its own results -/

theorem not_infix_tail {p : Bytes} {c : UInt8} {t : Bytes} (h : ¬ p <:+: c :: t) : ¬ p <:+: t :=
  fun hi => h (List.infix_cons hi)

theorem collapseSlashes_id : ∀ b : Bytes, ¬ SS <:+: b → collapseSlashes b = b
  | [], _ => rfl
  | [_], _ => rfl
  | c :: d :: t, h => by
    have hne : ¬ (c = 47 ∧ d = 47) := by
      rintro ⟨rfl, rfl⟩
      exact h ⟨[], t, by simp⟩
    simp only [collapseSlashes, hne, if_false]
    rw [collapseSlashes_id (d :: t) (not_infix_tail h)]

theorem cutDotSlash_id : ∀ b : Bytes, ¬ SDS <:+: b → cutDotSlash b = b
  | [], _ => rfl
  | [_], _ => rfl
  | [_, _], _ => rfl
  | c :: d :: e :: t, h => by
    have hne : ¬ (c = 47 ∧ d = 46 ∧ e = 47) := by
      rintro ⟨rfl, rfl, rfl⟩
      exact h ⟨[], t, by simp⟩
    simp only [cutDotSlash, hne, if_false]
    rw [cutDotSlash_id (d :: e :: t) (not_infix_tail h)]

theorem splitDDS_none_of {b : Bytes} (h : ¬ DDS <:+: b) : splitDDS b = none := by
  cases hs : splitDDS b with
  | none => rfl
  | some pr =>
    obtain ⟨p, r⟩ := pr
    obtain ⟨e, hr⟩ := splitDDS_some b p r hs
    cases r with
    | nil => simp at hr
    | cons x r' =>
      simp only [List.head?_cons, Option.some.injEq] at hr
      subst hr
      exact absurd ⟨p, r', by rw [e]; simp⟩ h

theorem loopDDS_id (fuel : Nat) (b : Bytes) (h : ¬ DDS <:+: b) : loopDDS fuel b = b := by
  cases fuel with
  | zero => rfl
  | succ f => simp [loopDDS, stepDDS, splitDDS_none_of h]

theorem cutTrailingDD_id (b : Bytes) (h : ¬ SDD <:+ b) : cutTrailingDD b = b := by
  unfold cutTrailingDD
  split
  · rename_i revBefore hrev
    exfalso; apply h
    refine ⟨revBefore.reverse, ?_⟩
    have : b = (46 :: 46 :: 47 :: revBefore).reverse := by rw [← hrev, List.reverse_reverse]
    rw [this]; simp
  · rfl

/-- re-normalising the quoted form of a normalised path gives it back -/
theorem normalizePath_quotePath_normalizePath (src : Bytes) :
    normalizePath (quotePath (normalizePath src)) = normalizePath src := by
  obtain ⟨h1, h2, h3, h4, h5⟩ := normalizePath_contained src
  generalize normalizePath src = p at *
  unfold normalizePath
  simp only [slashDecode_quotePath p h1, collapseSlashes_id p h2, cutDotSlash_id p h3, loopDDS_id _ p h4,
    cutTrailingDD_id p h5]


/-! ### lower-casing keeps the character classes -/

set_option maxRecDepth 100000 in
theorem tbl_toLower_classes : allBytes (fun c => schemeChar (toLower c) == schemeChar c && isAlpha (toLower c) == isAlpha c &&
    hostChar (toLower c) == hostChar c && toLower (toLower c) == toLower c) = true := by decide +kernel

set_option maxRecDepth 100000 in
theorem tbl_class_noctl : allBytes (fun c => (!schemeChar c || !ctl c) && (!hostChar c || !ctl c) && (!uriSafe c || !ctl c)) = true := by
  decide +kernel

theorem toLower_classes (c : UInt8) : schemeChar (toLower c) = schemeChar c ∧ isAlpha (toLower c) = isAlpha c ∧
    hostChar (toLower c) = hostChar c ∧ toLower (toLower c) = toLower c := by
  have := allBytes_spec tbl_toLower_classes c
  simpa [and_assoc] using this

theorem all_map_toLower_scheme (s : Bytes) : (s.map toLower).all schemeChar = s.all schemeChar := by
  induction s with
  | nil => rfl
  | cons c t ih => simp only [List.map_cons, List.all_cons, ih, (toLower_classes c).1]

theorem all_map_toLower_host (s : Bytes) : (s.map toLower).all hostChar = s.all hostChar := by
  induction s with
  | nil => rfl
  | cons c t ih => simp only [List.map_cons, List.all_cons, ih, (toLower_classes c).2.2.1]

theorem map_toLower_idem (s : Bytes) : (s.map toLower).map toLower = s.map toLower := by
  induction s with
  | nil => rfl
  | cons c t ih => simp only [List.map_cons, ih, (toLower_classes c).2.2.2]

theorem head_map_toLower_alpha (s : Bytes) :
    ((s.map toLower).head?.map isAlpha).getD false = (s.head?.map isAlpha).getD false := by
  cases s with
  | nil => rfl
  | cons c t => simp [(toLower_classes c).2.1]

/-! ### control bytes -/

theorem hasCTL_eq (s : Bytes) : hasCTL s = s.any ctl := rfl

theorem hasCTL_append (a b : Bytes) : hasCTL (a ++ b) = (hasCTL a || hasCTL b) := by
  simp [hasCTL]

theorem hasCTL_of_all (p : UInt8 → Bool) (hp : ∀ c, p c = true → ctl c = false) (s : Bytes)
    (h : ∀ x ∈ s, p x = true) : hasCTL s = false := by
  rw [hasCTL_eq]
  induction s with
  | nil => rfl
  | cons c t ih =>
    simp only [List.any_cons, hp c (h c (by simp)), Bool.false_or]
    exact ih (fun x hx => h x (by simp [hx]))

theorem class_noctl (c : UInt8) : (schemeChar c = true → ctl c = false) ∧ (hostChar c = true → ctl c = false) ∧
    (uriSafe c = true → ctl c = false) := by
  have := allBytes_spec tbl_class_noctl c
  simp only [Bool.and_eq_true, Bool.or_eq_true, Bool.not_eq_true'] at this
  refine ⟨fun h => ?_, fun h => ?_, fun h => ?_⟩
  · rcases this.1.1 with h' | h'; (rw [h] at h'; cases h'); exact h'
  · rcases this.1.2 with h' | h'; (rw [h] at h'; cases h'); exact h'
  · rcases this.2 with h' | h'; (rw [h] at h'; cases h'); exact h'

/-! ### the round trip -/

/-- a URI assembled with `SetScheme`, `SetHost` (both lower-case), `SetPath` (normalises) and `SetHash` -/
def mkURI (scheme host path hash : Bytes) : URI :=
  { scheme := scheme.map toLower, host := host.map toLower, pathOriginal := path, path := normalizePath path, hash := hash }

def wfScheme (s : Bytes) : Bool := s.isEmpty || (s.all schemeChar && (s.head?.map isAlpha).getD false)
def wfHost (h : Bytes) : Bool := !h.isEmpty && h.all hostChar
/-- well-formedness of scheme and host (the driver's `wfUri`) -/
def wfUri (scheme host : Bytes) : Bool := wfScheme scheme && wfHost host

/-- the query part `RequestURI` writes: the encoded argument list if there is one, else the raw query string -/
def queryPart (u : URI) (qa : List ArgKV) : Option Bytes :=
  if !qa.isEmpty then some (appendArgs qa) else if !u.query.isEmpty then some u.query else none

theorem fullURI_eq (u : URI) (qa : List ArgKV) :
    u.fullURI qa = u.schemeOrHTTP ++ strColonSlashSlash ++ u.host ++
      tailOf (quotePath u.pathOrSlash) (queryPart u qa) u.hash := by
  unfold URI.fullURI URI.requestURI tailOf queryPart qText
  cases qa with
  | nil => cases h : u.query.isEmpty <;> simp
  | cons kv t => simp

theorem mkURI_pathOrSlash (scheme host path hash : Bytes) :
    (mkURI scheme host path hash).pathOrSlash = normalizePath path := by
  have h := (normalizePath_contained path).1
  unfold URI.pathOrSlash mkURI
  cases hp : normalizePath path with
  | nil => rw [hp] at h; simp at h
  | cons c t => simp

set_option maxRecDepth 100000 in
theorem schemeOrHTTP_wf (scheme : Bytes) (h : wfScheme scheme = true) :
    let s := if (scheme.map toLower).isEmpty then strHTTP else scheme.map toLower
    s.all schemeChar = true ∧ (s.head?.map isAlpha).getD false = true ∧ s.map toLower = s := by
  cases scheme with
  | nil => simp only [List.map_nil, List.isEmpty_nil, if_true]; decide +kernel
  | cons c t =>
    simp only [wfScheme, List.isEmpty_cons, Bool.false_or, Bool.and_eq_true] at h
    have hne : (List.map toLower (c :: t)).isEmpty = false := rfl
    simp only [hne, Bool.false_eq_true, if_false]
    rw [all_map_toLower_scheme, head_map_toLower_alpha, map_toLower_idem]
    exact ⟨h.1, h.2, rfl⟩

theorem hasCTL_queryText (q : Option Bytes) (h : ∀ s, q = some s → hasCTL s = false) :
    hasCTL (qText q) = false := by
  cases q with
  | none => rfl
  | some s =>
    have : hasCTL (63 :: s) = hasCTL s := by simp [hasCTL]
    simp only [qText, this]
    exact h s rfl

/-- a URI assembled with the setters and, instead of arguments, a raw query string (`SetQueryString`) -/
def mkURIq (scheme host path qs hash : Bytes) : URI := { mkURI scheme host path hash with query := qs }

/-- general form: the query part is any text free of `#` and control bytes -/
theorem parse_fullURI_gen (scheme host path qs hash : Bytes) (qa : List ArgKV)
    (hwf : wfUri scheme host = true) (hh : hasCTL hash = false)
    (hq35 : ∀ s, queryPart (mkURIq scheme host path qs hash) qa = some s → ∀ x ∈ s, x ≠ 35)
    (hqctl : ∀ s, queryPart (mkURIq scheme host path qs hash) qa = some s → hasCTL s = false) :
    parse [] ((mkURIq scheme host path qs hash).fullURI qa) =
      { scheme := (mkURI scheme host path hash).schemeOrHTTP, host := host.map toLower,
        pathOriginal := quotePath (normalizePath path), path := normalizePath path,
        query := (queryPart (mkURIq scheme host path qs hash) qa).getD [], hash := hash } := by
  simp only [wfUri, wfHost, Bool.and_eq_true] at hwf
  obtain ⟨hs1, hs2, hs3⟩ := schemeOrHTTP_wf scheme hwf.1
  have hP := (normalizePath_contained path).1
  obtain ⟨hqe, hq0⟩ := quotePath_slash _ hP
  have hqsafe : ∀ x ∈ quotePath (normalizePath path), uriSafe x = true := by
    rw [hqe]; exact quotePathBody_uriSafe _
  have hpos : (mkURIq scheme host path qs hash).pathOrSlash = normalizePath path :=
    mkURI_pathOrSlash scheme host path hash
  rw [fullURI_eq, hpos]
  generalize queryPart (mkURIq scheme host path qs hash) qa = q at hq35 hqctl
  have hsch : (mkURIq scheme host path qs hash).schemeOrHTTP =
      if (scheme.map toLower).isEmpty then strHTTP else scheme.map toLower := rfl
  have hsch' : (mkURI scheme host path hash).schemeOrHTTP =
      if (scheme.map toLower).isEmpty then strHTTP else scheme.map toLower := rfl
  rw [hsch, hsch']
  generalize (if (scheme.map toLower).isEmpty then strHTTP else scheme.map toLower) = sch at hs1 hs2 hs3
  have hhost : ((mkURIq scheme host path qs hash).host).all hostChar = true := by
    show (host.map toLower).all hostChar = true
    rw [all_map_toLower_host]; exact hwf.2.2
  have e := parse_assembled sch (mkURIq scheme host path qs hash).host (quotePath (normalizePath path))
    q (mkURIq scheme host path qs hash).hash hs1 hs2 hhost hq0
    (fun x hx => by have := hqsafe x hx; simp [uriSafe] at this; exact this.1.1)
    (fun x hx => by have := hqsafe x hx; simp [uriSafe] at this; exact this.1.2)
    hq35
    (by
      rw [hasCTL_append, hasCTL_append, hasCTL_append]
      have c1 := hasCTL_of_all schemeChar (fun c => (class_noctl c).1) sch (by simpa [List.all_eq_true] using hs1)
      have c2 : hasCTL strColonSlashSlash = false := by decide
      have c3 := hasCTL_of_all hostChar (fun c => (class_noctl c).2.1) _ (by simpa [List.all_eq_true] using hhost)
      rw [c1, c2, c3]
      unfold tailOf
      rw [hasCTL_append, hasCTL_append,
        hasCTL_of_all uriSafe (fun c => (class_noctl c).2.2) _ hqsafe]
      rw [hasCTL_queryText q hqctl]
      show (false || false || false || (false || false || hasCTL (if hash.isEmpty then [] else 35 :: hash))) = false
      cases hash with
      | nil => rfl
      | cons c t =>
        simp only [List.isEmpty_cons, Bool.false_eq_true, if_false, Bool.false_or]
        have : hasCTL (35 :: c :: t) = hasCTL (c :: t) := by simp [hasCTL]
        rw [this, hh])
  rw [e]
  unfold tailParsed
  simp only [hs3, normalizePath_quotePath_normalizePath]
  simp [mkURIq, mkURI]; exact fun a _ => (toLower_classes a).2.2.2

theorem mkURIq_nil (scheme host path hash : Bytes) : mkURIq scheme host path [] hash = mkURI scheme host path hash := rfl

/-- `Parse(nil, FullURI())` of a URI assembled through the setters with query arguments `qa` -/
theorem parse_fullURI (scheme host path hash : Bytes) (qa : List ArgKV)
    (hwf : wfUri scheme host = true) (hh : hasCTL hash = false) :
    parse [] ((mkURI scheme host path hash).fullURI qa) =
      { scheme := (mkURI scheme host path hash).schemeOrHTTP, host := host.map toLower,
        pathOriginal := quotePath (normalizePath path), path := normalizePath path,
        query := appendArgs qa, hash := hash } := by
  have hqp : queryPart (mkURIq scheme host path [] hash) qa = if qa.isEmpty then none else some (appendArgs qa) := by
    cases qa <;> simp [queryPart, mkURIq, mkURI]
  have := parse_fullURI_gen scheme host path [] hash qa hwf hh
    (by
      intro s hs x hx
      rw [hqp] at hs
      cases qa with
      | nil => simp at hs
      | cons kv t =>
        simp only [List.isEmpty_cons, Bool.false_eq_true, if_false, Option.some.injEq] at hs
        subst hs
        have := appendArgs_uriSafe _ x hx; simp [uriSafe] at this; exact this.1.2)
    (by
      intro s hs
      rw [hqp] at hs
      cases qa with
      | nil => simp at hs
      | cons kv t =>
        simp only [List.isEmpty_cons, Bool.false_eq_true, if_false, Option.some.injEq] at hs
        subst hs
        exact hasCTL_of_all uriSafe (fun c => (class_noctl c).2.2) _ (appendArgs_uriSafe _))
  rw [mkURIq_nil] at this
  rw [this, ← mkURIq_nil, hqp]
  cases qa with
  | nil => simp [appendArgs]
  | cons kv t => simp

/-- the same with a raw query string (free of `#` and control bytes) and no argument list -/
theorem parse_fullURI_rawQuery (scheme host path qs hash : Bytes)
    (hwf : wfUri scheme host = true) (hh : hasCTL hash = false)
    (hq35 : ∀ x ∈ qs, x ≠ 35) (hqctl : hasCTL qs = false) :
    parse [] ((mkURIq scheme host path qs hash).fullURI []) =
      { scheme := (mkURI scheme host path hash).schemeOrHTTP, host := host.map toLower,
        pathOriginal := quotePath (normalizePath path), path := normalizePath path,
        query := qs, hash := hash } := by
  have hqp : queryPart (mkURIq scheme host path qs hash) [] = if qs.isEmpty then none else some qs := by
    cases qs <;> simp [queryPart, mkURIq, mkURI]
  rw [parse_fullURI_gen scheme host path qs hash [] hwf hh
    (by intro s hs; rw [hqp] at hs; cases qs with
        | nil => simp at hs
        | cons c t => simp at hs; subst hs; exact hq35)
    (by intro s hs; rw [hqp] at hs; cases qs with
        | nil => simp at hs
        | cons c t => simp at hs; subst hs; exact hqctl), hqp]
  cases qs <;> simp

/-! ### component-wise statements, as the driver evaluates them -/

theorem mkURI_schemeOrHTTP_ne (scheme host path hash : Bytes) :
    (mkURI scheme host path hash).schemeOrHTTP.isEmpty = false := by
  unfold URI.schemeOrHTTP
  cases h : (mkURI scheme host path hash).scheme.isEmpty with
  | true => simp; decide
  | false => simpa using h

/-- every component comes back (`v` is the re-parsed URI, `u0` the assembled one) -/
theorem uri_roundtrip_components (scheme host path hash : Bytes) (qa : List ArgKV)
    (hwf : wfUri scheme host = true) (hh : hasCTL hash = false)
    (hqa : ∀ kv ∈ qa, kv.noValue = true → kv.value = []) :
    let u0 := mkURI scheme host path hash
    let v := parse [] (u0.fullURI qa)
    v.schemeOrHTTP = u0.schemeOrHTTP ∧ v.host = u0.host ∧ v.pathOrSlash = u0.pathOrSlash ∧ v.hash = hash ∧
      v.username = [] ∧ v.password = [] ∧ parseArgs v.query = qa.filter (fun kv => !kv.bothEmpty) := by
  intro u0 v
  have e : v = _ := parse_fullURI scheme host path hash qa hwf hh
  have hne := mkURI_schemeOrHTTP_ne scheme host path hash
  have hp := mkURI_pathOrSlash scheme host path hash
  rw [e]
  refine ⟨?_, rfl, ?_, rfl, rfl, rfl, ?_⟩
  · simp only [URI.schemeOrHTTP] at hne ⊢
    simp only [hne, Bool.false_eq_true, if_false]
    rfl
  · show URI.pathOrSlash _ = u0.pathOrSlash
    rw [hp]
    have h := (normalizePath_contained path).1
    unfold URI.pathOrSlash
    cases hn : normalizePath path with
    | nil => rw [hn] at h; simp at h
    | cons c t => simp
  · exact parseArgs_appendArgs qa hqa

/-- formatting the re-parsed URI (with its re-parsed query arguments) gives the same text again -/
theorem uri_fixed_point (scheme host path hash : Bytes) (qa : List ArgKV)
    (hwf : wfUri scheme host = true) (hh : hasCTL hash = false)
    (hqa : ∀ kv ∈ qa, kv.noValue = true → kv.value = []) (hne : ∀ kv ∈ qa, kv.bothEmpty = false) :
    let u0 := mkURI scheme host path hash
    let v := parse [] (u0.fullURI qa)
    v.fullURI (parseArgs v.query) = u0.fullURI qa := by
  intro u0 v
  obtain ⟨h1, h2, h3, h4, _, _, h7⟩ := uri_roundtrip_components scheme host path hash qa hwf hh hqa
  have hf : qa.filter (fun kv => !kv.bothEmpty) = qa := by
    rw [List.filter_eq_self]; intro kv hkv; simp [hne kv hkv]
  have hq : v.query = appendArgs qa := by
    have e : v = _ := parse_fullURI scheme host path hash qa hwf hh
    rw [e]
  change parseArgs v.query = _ at h7
  rw [h7, hf]
  unfold URI.fullURI URI.requestURI
  change v.schemeOrHTTP = u0.schemeOrHTTP at h1
  change v.host = u0.host at h2
  change v.pathOrSlash = u0.pathOrSlash at h3
  change v.hash = hash at h4
  rw [h1, h2, h3, h4, hq]
  cases qa with
  | nil => simp [appendArgs, u0, mkURI]
  | cons kv t => simp [u0, mkURI]

/-! ### the excluded case (finding F15), in general -/

/-- F15 in general: whatever the other components are, a control byte in the fragment makes `Parse(nil, FullURI())`
return the empty URI. -/
theorem parse_fullURI_ctl_fragment (u : URI) (qa : List ArgKV) (h : hasCTL u.hash = true) :
    parse [] (u.fullURI qa) = {} := by
  have hne : u.hash.isEmpty = false := by
    cases hh : u.hash with
    | nil => rw [hh] at h; simp [hasCTL] at h
    | cons c t => rfl
  have hc : hasCTL (u.fullURI qa) = true := by
    unfold URI.fullURI
    rw [hasCTL_append]
    simp only [hne, Bool.false_eq_true, if_false]
    have : hasCTL (35 :: u.hash) = hasCTL u.hash := by simp [hasCTL]
    rw [this, h, Bool.or_true]
  rw [parse_eq, hc]
  rfl

end Hertz.Uri
