import Hertz.Proofs.ReqRoundtrip
import Hertz.Driver.H1Spec
/-!
Round trip of the request reader (C01), generalised to every spelling of a field line that the strict
decoder `Spec/Http.lean` accepts:

  `name ":" raw CRLF ( cont CRLF )*`

where `raw` is any run of field-vchars (so any optional whitespace — SP / HTAB, none, several — before
and after the value), and every `cont` is an obs-fold continuation line: it starts with SP / HTAB, consists
of field-vchars and contains no colon (hertz refuses folded lines with a colon; the strict decoder flags them
`foldedColon` and the comparison says nothing about them).

`hval f` is what the handler is handed for the field, `sval f` what the strict decoder returns; `canon` is the
value canonicalisation (`= Driver.H1Spec.canonVal`, the function the per-case check compares values with) and
`canon (hval f) = canon (sval f)`.
-/
namespace Hertz.H1.RT
open Hertz Hertz.H1 Hertz.Gen.Str Hertz.Spec.Http

/-! ### spelled field lines -/

def isBlank (c : UInt8) : Bool := c == 32 || c == 9

/-- a field as it is spelled on the wire -/
structure FLine where
  name : Bytes
  /-- the text between the colon and the first CRLF (leading / trailing blanks included) -/
  raw : Bytes
  /-- obs-fold continuation lines (without their CRLF) -/
  conts : List Bytes := []
deriving Repr, DecidableEq

def encConts : List Bytes → Bytes
  | [] => []
  | c :: t => c ++ 13 :: 10 :: encConts t

def encFLine (f : FLine) : Bytes := f.name ++ 58 :: (f.raw ++ 13 :: 10 :: encConts f.conts)

def encFLines : List FLine → Bytes
  | [] => []
  | f :: t => encFLine f ++ encFLines t

/-- continuation line: starts with SP / HTAB, field-vchars only, no colon -/
def wfCont (c : Bytes) : Bool :=
  (match c with | x :: _ => isBlank x | [] => false) && c.all isFieldVchar && c.all (· != 58)

/-- the strict decoder's conditions on a field (token name, field-vchars), plus: no colon in a continuation line -/
def wfFLine (f : FLine) : Bool := isToken f.name && f.raw.all isFieldVchar && f.conts.all wfCont

/-- the leading HTABs of a continuation line become SPs -/
def tabsToSp : Bytes → Bytes
  | [] => []
  | c :: t => if c = 9 then 32 :: tabsToSp t else c :: t

def unfoldH : List Bytes → Bytes
  | [] => []
  | c :: t => tabsToSp c ++ unfoldH t

/-- trailing SP / HTAB removed -/
def rOWS (w : Bytes) : Bytes := (w.reverse.dropWhile isOWS).reverse

/-- what the handler is handed as the value (after `/repo` 4c60fb1 and 6637594): the lines joined (CRLF dropped,
leading HTABs of a continuation line turned into SPs, nothing compacted), SP / HTAB trimmed at both ends.  Without
continuation lines this is `trimOWS raw`. -/
def hval (f : FLine) : Bytes := trimOWS (f.raw ++ unfoldH f.conts)

theorem trimOWS_eq (b : Bytes) : trimOWS b = rOWS (b.dropWhile isOWS) := rfl

/-- what the strict decoder returns: OWS-trimmed first line, every continuation line OWS-trimmed and joined by one SP -/
def sval (f : FLine) : Bytes := f.conts.foldl (fun v c => trimOWS (v ++ 32 :: trimOWS c)) (trimOWS f.raw)

def hField (f : FLine) : Bytes × Bytes := (f.name, hval f)
def sField (f : FLine) : Bytes × Bytes := (f.name, sval f)

/-- the next thing in the buffer is not a continuation line -/
def headOk (rest : Bytes) : Prop := ∀ c, rest.head? = some c → c ≠ 32 ∧ c ≠ 9

/-! ### facts about well-formed lines -/

structure ContFacts (c : Bytes) : Prop where
  ne_nil : c ≠ []
  head : ∀ x, c.head? = some x → x = 32 ∨ x = 9
  clean : ∀ x ∈ c, x ≠ 10 ∧ x ≠ 13 ∧ x ≠ 58
  vchar : c.all isFieldVchar = true

theorem wfCont_facts (c : Bytes) (h : wfCont c = true) : ContFacts c := by
  simp only [wfCont, Bool.and_eq_true, List.all_eq_true, bne_iff_ne, ne_eq] at h
  obtain ⟨⟨h1, h2⟩, h3⟩ := h
  refine ⟨?_, ?_, ?_, ?_⟩
  · intro e; subst e; simp at h1
  · intro x hx
    cases c with
    | nil => simp at hx
    | cons y t =>
      simp at hx; subst hx
      simpa [isBlank] using h1
  · intro x hx
    have := vchar_facts x (h2 x hx)
    exact ⟨this.1, this.2.1, h3 x hx⟩
  · simpa [List.all_eq_true] using h2

structure FLineFacts (f : FLine) : Prop where
  tok : isToken f.name = true
  name_ne : f.name ≠ []
  name : ∀ x ∈ f.name, TcharFacts x
  raw : ∀ x ∈ f.raw, x ≠ 10 ∧ x ≠ 13
  rawv : f.raw.all isFieldVchar = true
  conts : ∀ c ∈ f.conts, ContFacts c

theorem wfFLine_facts (f : FLine) (h : wfFLine f = true) : FLineFacts f := by
  simp only [wfFLine, Bool.and_eq_true] at h
  obtain ⟨⟨h1, h2⟩, h3⟩ := h
  obtain ⟨hk0, hkf⟩ := token_facts f.name h1
  refine ⟨h1, hk0, hkf, ?_, h2, ?_⟩
  · intro x hx
    simp only [List.all_eq_true] at h2
    have := vchar_facts x (h2 x hx)
    exact ⟨this.1, this.2.1⟩
  · intro c hc
    simp only [List.all_eq_true] at h3
    exact wfCont_facts c (h3 c hc)

/-! ### S3: the completeness pre-check -/

theorem rawHeaders_conts : ∀ (cs : List Bytes) (rest : Bytes), (∀ c ∈ cs, ContFacts c) →
    rawHeadersAux 0 false (encConts cs ++ rest) = (rawHeadersAux 0 false rest).map (· + (encConts cs).length)
  | [], rest, _ => by simp [encConts]
  | c :: t, rest, h => by
    have hc := h c (by simp)
    have ih := rawHeaders_conts t rest (fun x hx => h x (by simp [hx]))
    have e : encConts (c :: t) ++ rest = (c ++ [13]) ++ 10 :: (encConts t ++ rest) := by simp [encConts]
    have hlen : 0 + (c ++ [13]).length ≥ 2 := by
      have := hc.ne_nil
      cases c with
      | nil => exact absurd rfl this
      | cons _ _ => simp
    rw [e, rawHeadersAux_line _ _ 0 false (by
      intro x hx
      simp only [List.mem_append, List.mem_singleton] at hx
      rcases hx with hx | hx
      · exact (hc.clean x hx).1
      · subst hx; decide) hlen, ih]
    simp only [Option.map_map]
    congr 1
    funext n
    simp [encConts]; omega

theorem rawHeaders_fline (f : FLine) (rest : Bytes) (hf : wfFLine f = true) :
    rawHeadersAux 0 false (encFLine f ++ rest) = (rawHeadersAux 0 false rest).map (· + (encFLine f).length) := by
  have F := wfFLine_facts f hf
  have e : encFLine f ++ rest = (f.name ++ 58 :: (f.raw ++ [13])) ++ 10 :: (encConts f.conts ++ rest) := by
    simp [encFLine]
  have hlen : 0 + (f.name ++ 58 :: (f.raw ++ [13])).length ≥ 2 := by simp; omega
  rw [e, rawHeadersAux_line _ _ 0 false (by
    intro x hx
    simp only [List.mem_append, List.mem_cons, List.mem_singleton] at hx
    rcases hx with hx | hx | hx | hx
    · exact (F.name x hx).ne10
    · subst hx; decide
    · exact (F.raw x hx).1
    · rcases hx with hx | hx
      · subst hx; decide
      · cases hx) hlen, rawHeaders_conts f.conts rest F.conts]
  simp only [Option.map_map]
  congr 1
  funext n
  simp [encFLine]; omega

/-! ### S2: the strict decoder on a spelled field -/

theorem fieldsAux_conts (k : Bytes) (rest : Bytes) (acc : List (Bytes × Bytes)) (fuel : Nat) :
    ∀ (cs : List Bytes) (v : Bytes), (∀ c ∈ cs, ContFacts c) →
    fieldsAux (fuel + cs.length) (encConts cs ++ rest) ((k, v) :: acc) =
      fieldsAux fuel rest ((k, cs.foldl (fun v c => trimOWS (v ++ 32 :: trimOWS c)) v) :: acc)
  | [], v, _ => by simp [encConts]
  | c :: t, v, h => by
    have hc := h c (by simp)
    have ih := fieldsAux_conts k rest acc fuel t (trimOWS (v ++ 32 :: trimOWS c)) (fun x hx => h x (by simp [hx]))
    have e : encConts (c :: t) ++ rest = c ++ 13 :: 10 :: (encConts t ++ rest) := by simp [encConts]
    have hcl : ∀ x ∈ c, x ≠ 13 ∧ x ≠ 10 := fun x hx => ⟨(hc.clean x hx).2.1, (hc.clean x hx).1⟩
    rw [e, show fuel + (c :: t).length = (fuel + t.length) + 1 by simp; omega]
    simp only [fieldsAux, crlfLine_enc _ _ hcl]
    obtain ⟨a, c', rfl⟩ := List.exists_cons_of_ne_nil hc.ne_nil
    have ha := hc.head a rfl
    have hv := hc.vchar
    simp only [List.isEmpty_cons, Bool.false_eq_true, if_false, ha, if_true, hv, Bool.not_true, List.foldl_cons]
    exact ih

theorem fieldsAux_fline (f : FLine) (rest : Bytes) (acc : List (Bytes × Bytes)) (fuel : Nat) (hf : wfFLine f = true) :
    fieldsAux (fuel + (f.conts.length + 1)) (encFLine f ++ rest) acc = fieldsAux fuel rest (sField f :: acc) := by
  have F := wfFLine_facts f hf
  have e : encFLine f ++ rest = (f.name ++ 58 :: f.raw) ++ 13 :: 10 :: (encConts f.conts ++ rest) := by
    simp [encFLine]
  have hcl : ∀ x ∈ f.name ++ 58 :: f.raw, x ≠ 13 ∧ x ≠ 10 := by
    intro x hx
    simp only [List.mem_append, List.mem_cons] at hx
    rcases hx with hx | hx | hx
    · exact ⟨(F.name x hx).ne13, (F.name x hx).ne10⟩
    · subst hx; decide
    · exact ⟨(F.raw x hx).2, (F.raw x hx).1⟩
  have hsplit := splitAt1_enc 58 f.name f.raw (fun x hx => (F.name x hx).ne58)
  rw [e, show fuel + (f.conts.length + 1) = (fuel + f.conts.length) + 1 by omega]
  simp only [fieldsAux, crlfLine_enc _ _ hcl]
  obtain ⟨a, k', hk⟩ := List.exists_cons_of_ne_nil F.name_ne
  have ha := F.name a (by simp [hk])
  rw [hk] at hsplit ⊢
  simp only [List.cons_append, List.isEmpty_cons, Bool.false_eq_true, if_false, ha.ne32, ha.ne9, or_self]
  simp only [← List.cons_append, hsplit]
  rw [← hk]
  simp only [F.tok, F.rawv, Bool.not_true, Bool.or_self, Bool.false_eq_true, if_false]
  rw [fieldsAux_conts f.name rest acc fuel f.conts (trimOWS f.raw) F.conts]
  rfl

/-! ### S4: no folded line with a colon -/

theorem hasFoldedColon_conts (rest : Bytes) (hrest : ∀ fuel, hasFoldedColon fuel rest = false) :
    ∀ (cs : List Bytes), (∀ c ∈ cs, ContFacts c) → ∀ fuel, hasFoldedColon fuel (encConts cs ++ rest) = false
  | [], _, fuel => by simpa [encConts] using hrest fuel
  | c :: t, h, fuel => by
    cases fuel with
    | zero => rfl
    | succ fuel =>
      have hc := h c (by simp)
      have ih := hasFoldedColon_conts rest hrest t (fun x hx => h x (by simp [hx])) fuel
      have e : encConts (c :: t) ++ rest = c ++ 13 :: 10 :: (encConts t ++ rest) := by simp [encConts]
      have hcl : ∀ x ∈ c, x ≠ 13 ∧ x ≠ 10 := fun x hx => ⟨(hc.clean x hx).2.1, (hc.clean x hx).1⟩
      have h58 : c.contains 58 = false := by
        rw [Bool.eq_false_iff]; intro hcon
        simp only [List.contains_iff_mem] at hcon
        exact (hc.clean 58 hcon).2.2 rfl
      rw [e]
      simp only [hasFoldedColon, crlfLine_enc _ _ hcl, ih, h58]
      cases c with
      | nil => exact absurd rfl hc.ne_nil
      | cons _ _ => simp

theorem hasFoldedColon_fline (f : FLine) (rest : Bytes) (hf : wfFLine f = true)
    (hrest : ∀ fuel, hasFoldedColon fuel rest = false) : ∀ fuel, hasFoldedColon fuel (encFLine f ++ rest) = false := by
  intro fuel
  cases fuel with
  | zero => rfl
  | succ fuel =>
    have F := wfFLine_facts f hf
    have e : encFLine f ++ rest = (f.name ++ 58 :: f.raw) ++ 13 :: 10 :: (encConts f.conts ++ rest) := by
      simp [encFLine]
    have hcl : ∀ x ∈ f.name ++ 58 :: f.raw, x ≠ 13 ∧ x ≠ 10 := by
      intro x hx
      simp only [List.mem_append, List.mem_cons] at hx
      rcases hx with hx | hx | hx
      · exact ⟨(F.name x hx).ne13, (F.name x hx).ne10⟩
      · subst hx; decide
      · exact ⟨(F.raw x hx).2, (F.raw x hx).1⟩
    have ih := hasFoldedColon_conts rest hrest f.conts F.conts fuel
    rw [e]
    simp only [hasFoldedColon, crlfLine_enc _ _ hcl, ih]
    obtain ⟨a, k', hk⟩ := List.exists_cons_of_ne_nil F.name_ne
    have ha := F.name a (by simp [hk])
    rw [hk]
    simp [ha.ne32, ha.ne9]

/-! ### the handler's value consists of field-vchars -/

theorem mem_rOWS {x : UInt8} {b : Bytes} (h : x ∈ rOWS b) : x ∈ b := by
  unfold rOWS at h
  rw [List.mem_reverse] at h
  have h1 := (List.dropWhile_sublist isOWS).mem h
  rwa [List.mem_reverse] at h1

theorem tabsToSp_vchar : ∀ c : Bytes, c.all isFieldVchar = true → (tabsToSp c).all isFieldVchar = true
  | [], _ => rfl
  | x :: t, h => by
    simp only [List.all_cons, Bool.and_eq_true] at h
    by_cases hx : x = 9
    · subst hx
      simp only [tabsToSp, if_true, List.all_cons, Bool.and_eq_true]
      exact ⟨by decide, tabsToSp_vchar t h.2⟩
    · simp only [tabsToSp, hx, if_false, List.all_cons, Bool.and_eq_true]
      exact h

theorem unfoldH_vchar : ∀ cs : List Bytes, (∀ c ∈ cs, ContFacts c) → (unfoldH cs).all isFieldVchar = true
  | [], _ => rfl
  | c :: t, h => by
    simp only [unfoldH, List.all_append, Bool.and_eq_true]
    exact ⟨tabsToSp_vchar c (h c (by simp)).vchar, unfoldH_vchar t (fun x hx => h x (by simp [hx]))⟩

theorem hval_vchar (f : FLine) (hf : wfFLine f = true) : (hval f).all isFieldVchar = true := by
  have F := wfFLine_facts f hf
  have hall : (f.raw ++ unfoldH f.conts).all isFieldVchar = true := by
    simp only [List.all_append, Bool.and_eq_true]
    exact ⟨F.rawv, unfoldH_vchar f.conts F.conts⟩
  simp only [List.all_eq_true] at hall ⊢
  intro x hx
  unfold hval at hx
  rw [trimOWS_eq] at hx
  exact hall x ((List.dropWhile_sublist _).mem (mem_rOWS hx))

/-! ### S1: one call of `HeaderScanner.Next` on a spelled field -/

theorem takeWhile_app_stop (p : UInt8 → Bool) : ∀ (l : Bytes) (c : UInt8) (X : Bytes), p c = false →
    (l ++ c :: X).takeWhile p = l.takeWhile p
  | [], c, X, h => by simp [List.takeWhile, h]
  | y :: t, c, X, h => by
    simp only [List.cons_append, List.takeWhile_cons]
    rw [takeWhile_app_stop p t c X h]

theorem drop_takeWhile_app (p : UInt8 → Bool) : ∀ (l X : Bytes),
    (l ++ X).drop (l.takeWhile p).length = l.dropWhile p ++ X
  | [], X => by simp
  | y :: t, X => by
    by_cases hy : p y = true
    · simp [List.takeWhile_cons, List.dropWhile_cons, hy, drop_takeWhile_app p t X]
    · simp [List.takeWhile_cons, List.dropWhile_cons, hy]

theorem takeWhile_len_add (p : UInt8 → Bool) (l : Bytes) : (l.takeWhile p).length + (l.dropWhile p).length = l.length := by
  have := congrArg List.length (List.takeWhile_append_dropWhile (p := p) (l := l))
  rw [List.length_append] at this
  exact this

/-- `13 :: 10 :: encConts cs` ends with CRLF -/
theorem conts_split : ∀ cs : List Bytes, ∃ Q, 13 :: 10 :: encConts cs = Q ++ [13, 10]
  | [] => ⟨[], rfl⟩
  | c :: t => by
    obtain ⟨Q', hQ'⟩ := conts_split t
    refine ⟨13 :: 10 :: (c ++ Q'), ?_⟩
    simp [encConts, hQ']

theorem contAux_inline (k : Nat) (X : Bytes) : ∀ (l : Bytes) (cur : Nat), (∀ x ∈ l, x ≠ 58 ∧ x ≠ 10) →
    contAux k cur true (l ++ 10 :: X) = contAux (k + (cur + l.length) + 1) 0 false X
  | [], cur, _ => by simp [contAux]
  | y :: t, cur, h => by
    have hy := h y (by simp)
    have ih := contAux_inline k X t (cur + 1) (fun x hx => h x (by simp [hx]))
    simp only [List.cons_append, contAux, Bool.not_true, Bool.false_eq_true, if_false, hy.1, hy.2, ih, List.length_cons]
    congr 1; omega

theorem contAux_conts (rest : Bytes) (hr : headOk rest) : ∀ (cs : List Bytes) (k : Nat), (∀ c ∈ cs, ContFacts c) →
    contAux k 0 false (encConts cs ++ rest) = k + (encConts cs).length
  | [], k, _ => by
    cases rest with
    | nil => simp [encConts, contAux]
    | cons c t =>
      have := hr c rfl
      simp [encConts, contAux, this.1, this.2]
  | c :: t, k, h => by
    have hc := h c (by simp)
    obtain ⟨a, c', rfl⟩ := List.exists_cons_of_ne_nil hc.ne_nil
    have ha := hc.head a rfl
    have ih := contAux_conts rest hr t (k + (1 + (c' ++ [13]).length) + 1) (fun x hx => h x (by simp [hx]))
    have e : encConts ((a :: c') :: t) ++ rest = a :: ((c' ++ [13]) ++ 10 :: (encConts t ++ rest)) := by simp [encConts]
    rw [e]
    simp only [contAux, Bool.not_false, if_true, ha]
    rw [contAux_inline k _ (c' ++ [13]) 1 (by
      intro x hx
      simp only [List.mem_append, List.mem_singleton] at hx
      rcases hx with hx | hx
      · have := hc.clean x (by simp [hx]); exact ⟨this.2.2, this.1⟩
      · subst hx; decide), ih]
    simp [encConts]; omega

theorem normValAux_crlf : ∀ (w : Bytes) (ls : Bool), normValAux ls (w ++ [13, 10]) = normValAux ls w
  | [], ls => by simp [normValAux]
  | c :: t, ls => by
    simp only [List.cons_append, normValAux]
    split
    · exact normValAux_crlf t ls
    · split
      · exact normValAux_crlf t true
      · split
        · rw [normValAux_crlf t true]
        · rw [normValAux_crlf t false]

theorem normValAux_clean : ∀ (w : Bytes), (∀ x ∈ w, x ≠ 10 ∧ x ≠ 13) → normValAux false w = w
  | [], _ => rfl
  | c :: t, h => by
    have hc := h c (by simp)
    simp [normValAux, hc.1, hc.2, normValAux_clean t (fun x hx => h x (by simp [hx]))]

theorem normValAux_clean_app : ∀ (w X : Bytes), (∀ x ∈ w, x ≠ 10 ∧ x ≠ 13) →
    normValAux false (w ++ 13 :: 10 :: X) = w ++ normValAux true X
  | [], X, _ => by simp [normValAux]
  | c :: t, X, h => by
    have hc := h c (by simp)
    simp [normValAux, hc.1, hc.2, normValAux_clean_app t X (fun x hx => h x (by simp [hx]))]

theorem normValAux_line : ∀ (c X : Bytes), (∀ x ∈ c, x ≠ 10 ∧ x ≠ 13) →
    normValAux true (c ++ 13 :: 10 :: X) = tabsToSp c ++ normValAux true X
  | [], X, _ => by simp [normValAux, tabsToSp]
  | y :: t, X, h => by
    have hy := h y (by simp)
    by_cases h9 : y = 9
    · subst h9
      simp [normValAux, tabsToSp, normValAux_line t X (fun x hx => h x (by simp [hx]))]
    · simp [normValAux, tabsToSp, h9, hy.1, hy.2, normValAux_clean_app t X (fun x hx => h x (by simp [hx]))]

theorem normValAux_conts : ∀ (cs : List Bytes), (∀ c ∈ cs, ContFacts c) → normValAux true (encConts cs) = unfoldH cs
  | [], _ => by simp [encConts, normValAux, unfoldH]
  | c :: t, h => by
    have hc := h c (by simp)
    simp only [encConts, unfoldH]
    rw [normValAux_line c _ (fun x hx => ⟨(hc.clean x hx).1, (hc.clean x hx).2.1⟩),
      normValAux_conts t (fun x hx => h x (by simp [hx]))]

theorem mem_takeWhile_p (p : UInt8 → Bool) : ∀ (l : Bytes) (x : UInt8), x ∈ l.takeWhile p → p x = true
  | [], _, h => by simp at h
  | c :: t, x, h => by
    by_cases hc : p c = true
    · rw [List.takeWhile_cons_of_pos hc] at h
      simp only [List.mem_cons] at h
      rcases h with h | h
      · subst h; exact hc
      · exact mem_takeWhile_p p t x h
    · rw [List.takeWhile_cons_of_neg hc] at h; simp at h

/-- a list is its right-stripped part followed by bytes that satisfy `p` -/
theorem rstrip_split (p : UInt8 → Bool) (w : Bytes) :
    ∃ s, w = (w.reverse.dropWhile p).reverse ++ s ∧ ∀ x ∈ s, p x = true := by
  refine ⟨(w.reverse.takeWhile p).reverse, ?_, ?_⟩
  · have h2 := List.takeWhile_append_dropWhile (p := p) (l := w.reverse)
    rw [← List.reverse_append, h2, List.reverse_reverse]
  · intro x hx
    rw [List.mem_reverse] at hx
    exact mem_takeWhile_p p _ x hx

theorem head_dropWhile_not (p : UInt8 → Bool) : ∀ (l : Bytes) (c : UInt8), (l.dropWhile p).head? = some c → p c = false
  | [], _, h => by simp at h
  | x :: t, c, h => by
    by_cases hx : p x = true
    · rw [List.dropWhile_cons_of_pos hx] at h
      exact head_dropWhile_not p t c h
    · rw [List.dropWhile_cons_of_neg hx] at h
      simp at h; subst h; simpa using hx

theorem dropWhile_app_all (p : UInt8 → Bool) : ∀ (a b : Bytes), (∀ x ∈ a, p x = true) → (a ++ b).dropWhile p = b.dropWhile p
  | [], _, _ => rfl
  | c :: t, b, h => by
    rw [List.cons_append, List.dropWhile_cons_of_pos (h c (by simp))]
    exact dropWhile_app_all p t b (fun x hx => h x (by simp [hx]))

theorem rOWS_app_blanks (w s : Bytes) (hs : ∀ x ∈ s, isOWS x = true) : rOWS (w ++ s) = rOWS w := by
  unfold rOWS
  rw [List.reverse_append, dropWhile_app_all isOWS _ _ (fun x hx => hs x (List.mem_reverse.mp hx))]

theorem dropWhileOWS_app_blanks : ∀ (w s : Bytes), (∀ x ∈ s, isOWS x = true) →
    ∃ s', (w ++ s).dropWhile isOWS = w.dropWhile isOWS ++ s' ∧ ∀ x ∈ s', isOWS x = true
  | [], s, hs => ⟨s.dropWhile isOWS, by simp, fun x hx => hs x ((List.dropWhile_sublist _).mem hx)⟩
  | c :: t, s, hs => by
    by_cases hc : isOWS c = true
    · obtain ⟨s', h1, h2⟩ := dropWhileOWS_app_blanks t s hs
      exact ⟨s', by rw [List.cons_append, List.dropWhile_cons_of_pos hc, List.dropWhile_cons_of_pos hc]; exact h1, h2⟩
    · exact ⟨s, by rw [List.cons_append, List.dropWhile_cons_of_neg hc, List.dropWhile_cons_of_neg hc]; rfl, hs⟩

theorem normValAux_blanks : ∀ (s : Bytes) (ls : Bool), (∀ x ∈ s, isOWS x = true) → ∀ x ∈ normValAux ls s, isOWS x = true
  | [], _, _ => by simp [normValAux]
  | c :: t, ls, h => by
    have hc := h c (by simp)
    have ht : ∀ x ∈ t, isOWS x = true := fun x hx => h x (by simp [hx])
    have h13 : c ≠ 13 := by intro e; subst e; simp [isOWS] at hc
    have h10 : c ≠ 10 := by intro e; subst e; simp [isOWS] at hc
    intro x hx
    simp only [normValAux, h13, h10, if_false] at hx
    split at hx
    · simp only [List.mem_cons] at hx
      rcases hx with hx | hx
      · subst hx; rfl
      · exact normValAux_blanks t true ht x hx
    · simp only [List.mem_cons] at hx
      rcases hx with hx | hx
      · subst hx; exact hc
      · exact normValAux_blanks t false ht x hx

theorem normValAux_app_blanks (s : Bytes) (hs : ∀ x ∈ s, isOWS x = true) : ∀ (w : Bytes) (ls : Bool),
    ∃ s', normValAux ls (w ++ s) = normValAux ls w ++ s' ∧ ∀ x ∈ s', isOWS x = true
  | [], ls => ⟨normValAux ls s, by simp [normValAux], normValAux_blanks s ls hs⟩
  | c :: t, ls => by
    simp only [List.cons_append, normValAux]
    split
    · exact normValAux_app_blanks s hs t ls
    · split
      · exact normValAux_app_blanks s hs t true
      · split
        · obtain ⟨s', h1, h2⟩ := normValAux_app_blanks s hs t true
          exact ⟨s', by rw [h1]; rfl, h2⟩
        · obtain ⟨s', h1, h2⟩ := normValAux_app_blanks s hs t false
          exact ⟨s', by rw [h1]; rfl, h2⟩

/-- trailing blanks of the region do not matter once the compacted value is trimmed -/
theorem foldedValue_rOWS (w : Bytes) : foldedValue (rOWS w) = trimOWS (normValAux false w) := by
  obtain ⟨s, hs, hall⟩ := rstrip_split isOWS w
  have hs' : w = rOWS w ++ s := hs
  obtain ⟨s1, h1, hall1⟩ := normValAux_app_blanks s hall (rOWS w) false
  obtain ⟨s2, h2, hall2⟩ := dropWhileOWS_app_blanks (normValAux false (rOWS w)) s1 hall1
  show rOWS ((normValAux false (rOWS w)).dropWhile isOWS) = _
  conv => rhs; rw [trimOWS_eq, hs', h1, h2, rOWS_app_blanks _ s2 hall2]

theorem dropWhileOWS_idem (l : Bytes) : (l.dropWhile isOWS).dropWhile isOWS = l.dropWhile isOWS := by
  apply dropWhile_id
  intro c hc
  exact head_dropWhile_not isOWS l c hc

theorem trimOWS_dropWhile_app : ∀ (raw M : Bytes), trimOWS (raw.dropWhile isOWS ++ M) = trimOWS (raw ++ M)
  | [], M => rfl
  | c :: t, M => by
    by_cases hc : isOWS c = true
    · rw [List.dropWhile_cons_of_pos hc, trimOWS_dropWhile_app t M, trimOWS_eq, trimOWS_eq, List.cons_append,
        List.dropWhile_cons_of_pos hc]
    · rw [List.dropWhile_cons_of_neg hc]

theorem trimValue_cr' (y : Bytes) : trimValue (y ++ [13]) = rOWS y := by
  unfold trimValue rOWS
  simp

theorem encConts_nil_of_length (cs : List Bytes) (h : (encConts cs).length = 0) : cs = [] := by
  cases cs with
  | nil => rfl
  | cons c t => simp [encConts] at h

theorem scanNext_fline (dn : Bool) (f : FLine) (rest : Bytes) (hf : wfFLine f = true) (hr : headOk rest) :
    scanNext dn (encFLine f ++ rest) = .kv (normalizeKey dn f.name) (hval f) rest (encFLine f).length := by
  have F := wfFLine_facts f hf
  obtain ⟨a, k', hk⟩ := List.exists_cons_of_ne_nil F.name_ne
  have ha := F.name a (by simp [hk])
  obtain ⟨Q, hQ⟩ := conts_split f.conts
  have hQlen : Q.length = (encConts f.conts).length := by
    have := congrArg List.length hQ
    simp at this; omega
  generalize hraw' : f.raw.dropWhile isOWS = raw'
  generalize hT : encConts f.conts ++ rest = T
  generalize hE : (encConts f.conts).length = E at hQlen
  have hraw'c : ∀ x ∈ raw', x ≠ 10 ∧ x ≠ 13 := by
    intro x hx
    rw [← hraw'] at hx
    exact F.raw x ((List.dropWhile_sublist _).mem hx)
  have eB : encFLine f ++ rest = f.name ++ 58 :: (f.raw ++ 13 :: 10 :: T) := by simp [encFLine, ← hT]
  have hB1 : indexByte 10 (raw' ++ 13 :: 10 :: T) = some (raw'.length + 1) := by
    have := indexByte_skip 10 (raw' ++ [13]) T (by
      intro x hx
      simp only [List.mem_append, List.mem_singleton] at hx
      rcases hx with hx | hx
      · exact (hraw'c x hx).1
      · subst hx; decide)
    simpa using this
  have hB0 : indexByte 10 (f.raw ++ 13 :: 10 :: T) = some (f.raw.length + 1) := by
    have := indexByte_skip 10 (f.raw ++ [13]) T (by
      intro x hx
      simp only [List.mem_append, List.mem_singleton] at hx
      rcases hx with hx | hx
      · exact (F.raw x hx).1
      · subst hx; decide)
    simpa using this
  have hi58 : indexByte 58 (f.name ++ 58 :: (f.raw ++ 13 :: 10 :: T)) = some f.name.length :=
    indexByte_skip 58 f.name _ (fun x hx => (F.name x hx).ne58)
  have hi10 : indexByte 10 (f.name ++ 58 :: (f.raw ++ 13 :: 10 :: T)) = some (f.name.length + (1 + (f.raw.length + 1))) := by
    have e : f.name ++ 58 :: (f.raw ++ 13 :: 10 :: T) = f.name ++ ([58] ++ (f.raw ++ 13 :: 10 :: T)) := by simp
    rw [e]
    apply indexByte_skip' 10 f.name _ _ (fun x hx => (F.name x hx).ne10)
    exact indexByte_skip' 10 [58] _ _ (by decide) hB0
  have htake : List.take f.name.length (f.name ++ 58 :: (f.raw ++ 13 :: 10 :: T)) = f.name := List.take_left' rfl
  have hdrop : List.drop (f.name.length + 1) (f.name ++ 58 :: (f.raw ++ 13 :: 10 :: T)) = f.raw ++ 13 :: 10 :: T := by
    have e : f.name ++ 58 :: (f.raw ++ 13 :: 10 :: T) = (f.name ++ [58]) ++ (f.raw ++ 13 :: 10 :: T) := by simp
    rw [e]; exact List.drop_left' (by simp)
  have htw : List.takeWhile isOWS (f.raw ++ 13 :: 10 :: T) = List.takeWhile isOWS f.raw :=
    takeWhile_app_stop _ f.raw 13 _ (by decide)
  have hdrop2 : List.drop (List.takeWhile isOWS f.raw).length (f.raw ++ 13 :: 10 :: T) = raw' ++ 13 :: 10 :: T := by
    rw [drop_takeWhile_app, hraw']
  have hdropT : List.drop (raw'.length + 1 + 1) (raw' ++ 13 :: 10 :: T) = T := by
    have e : raw' ++ 13 :: 10 :: T = (raw' ++ [13, 10]) ++ T := by simp
    rw [e]; exact List.drop_left' (by simp)
  have hext : contExtra T = E := by
    rw [← hT, ← hE]
    have := contAux_conts rest hr f.conts 0 F.conts
    simpa [contExtra] using this
  have hform : raw' ++ 13 :: 10 :: T = (raw' ++ Q ++ [13]) ++ 10 :: rest := by
    rw [← hT]
    have : 13 :: 10 :: (encConts f.conts ++ rest) = (13 :: 10 :: encConts f.conts) ++ rest := by simp
    rw [this, hQ]; simp
  have htake2 : List.take (raw'.length + 1 + E) (raw' ++ 13 :: 10 :: T) = raw' ++ Q ++ [13] := by
    rw [hform]; exact List.take_left' (by simp; omega)
  have hdrop3 : List.drop (raw'.length + 1 + E + 1) (raw' ++ 13 :: 10 :: T) = rest := by
    rw [hform]
    have e : (raw' ++ Q ++ [13]) ++ 10 :: rest = (raw' ++ Q ++ [13, 10]) ++ rest := by simp
    rw [e]; exact List.drop_left' (by simp; omega)
  have hvalue : (if E > 0 then foldedValue (rOWS (raw' ++ Q)) else rOWS (raw' ++ Q)) = hval f := by
    by_cases hE0 : E > 0
    · simp only [hE0, if_true]
      rw [foldedValue_rOWS]
      have h1 : normValAux false (raw' ++ Q) = raw' ++ unfoldH f.conts := by
        rw [← normValAux_crlf (raw' ++ Q) false]
        have : raw' ++ Q ++ [13, 10] = raw' ++ 13 :: 10 :: encConts f.conts := by
          rw [List.append_assoc, ← hQ]
        rw [this, normValAux_clean_app raw' _ hraw'c, normValAux_conts f.conts F.conts]
      rw [h1, ← hraw', trimOWS_dropWhile_app]
      rfl
    · have hE0' : E = 0 := by omega
      have hc0 : f.conts = [] := encConts_nil_of_length f.conts (by omega)
      have hQ0 : Q = [] := List.length_eq_zero_iff.mp (by omega)
      simp only [hE0, if_false, hQ0, List.append_nil]
      unfold hval
      rw [hc0, ← hraw']
      simp [unfoldH, trimOWS_eq]
  have hlen := takeWhile_len_add isOWS f.raw
  rw [hraw'] at hlen
  rw [eB, hk, List.cons_append, scanNext_cons dn a _ ha.ne13 ha.ne10]
  rw [← List.cons_append, ← hk, hi10, hi58]
  have hlt : ¬ (f.name.length + (1 + (f.raw.length + 1)) < f.name.length) := by omega
  simp only [hlt, if_false, htake, hdrop, htw, hdrop2, hB1, hdropT, hext, htake2, hdrop3, trimValue_cr', hvalue]
  congr 1
  simp [encFLine, ← hE]
  omega

end Hertz.H1.RT
