import Hertz.Proofs.RouteInsert
import Hertz.Proofs.RouteTop
/-!
C06: `router.addRoute` (the model `routerAddRoute`/`addRouteLoop`) on a well-formed method tree:
it panics exactly for invalid paths and for keys that are registered already, and otherwise
returns a well-formed tree that denotes the old routes plus the new one.
-/
namespace Hertz.Route
open Hertz.Spec.Route

/-- the tree of one method: still empty, or well formed with a prefix starting with `/` -/
def RootOK (root : Node) (cap : Nat) : Prop :=
  root = Node.empty ∨ (WF root .skind ∧ root.pfx.head? = some 47 ∧ PnOK root 0 cap)

/-- what the loop of `addRoute` will still append to `pre` -/
def keyTail : Option Bytes → Bytes → Bytes
  | none, [] => []
  | some _, [] => []
  | none, c :: r => if c = 58 then 58 :: keyTail (some []) r else if c = 42 then [42] else c :: keyTail none r
  | some nm, c :: r => if c = 47 then 47 :: keyTail none r else keyTail (some (nm ++ [c])) r

/-- the parameter names the loop will still append to `pnames` -/
def namesTail : Option Bytes → Bytes → List Bytes
  | none, [] => []
  | some nm, [] => [nm]
  | none, c :: r => if c = 58 then namesTail (some []) r else if c = 42 then [r] else namesTail none r
  | some nm, c :: r => if c = 47 then nm :: namesTail none r else namesTail (some (nm ++ [c])) r

theorem keyTail_spec (p : Bytes) :
    keyTail none p = strip (parseGo none p) ∧ ∀ nm, strip (parseGo (some nm) p) = 58 :: keyTail (some nm) p := by
  induction p with
  | nil => simp [keyTail, parseGo, strip]
  | cons c r ih =>
    refine ⟨?_, fun nm => ?_⟩
    · simp only [keyTail, parseGo]
      by_cases h1 : c = 58
      · simp [h1, ih.2]
      · by_cases h2 : c = 42
        · simp [h2, strip]
        · simp [h1, h2, strip, ih.1]
    · simp only [keyTail, parseGo]
      by_cases h1 : c = 47
      · simp [h1, strip, ih.1]
      · simp [h1, ih.2]

theorem namesTail_spec (p : Bytes) : ∀ nm, namesTail nm p = names (parseGo nm p) := by
  induction p with
  | nil => intro nm; cases nm <;> simp [namesTail, parseGo, names]
  | cons c r ih =>
    intro nm
    cases nm with
    | none =>
      simp only [namesTail, parseGo]
      by_cases h1 : c = 58
      · simp [h1, ih]
      · by_cases h2 : c = 42
        · simp [h2, names]
        · simp [h1, h2, names, ih]
    | some nm =>
      simp only [namesTail, parseGo]
      by_cases h1 : c = 47
      · simp [h1, names, ih]
      · simp [h1, ih]

/-- a non-empty method tree in good state -/
def NE (root : Node) (cap : Nat) : Prop :=
  WF root .skind ∧ root.pfx.head? = some 47 ∧ PnOK root 0 cap

/-- outcome of registering key `K` with value `V` on `root` -/
def AddOut (root : Node) (cap : Nat) (K : Bytes) (V : Val) (res : Except Fault Node) : Prop :=
  (K ∈ keys (routes root) ∧ res = .error .conflict) ∨
  (K ∉ keys (routes root) ∧ ∃ root', res = .ok root' ∧ NE root' cap ∧
    ∀ kv, kv ∈ routes root' ↔ (kv ∈ routes root ∨ kv = (K, V)))

theorem keys_congr {R R' : List (Bytes × Val)} (h : ∀ kv, kv ∈ R' ↔ kv ∈ R) (k : Bytes) :
    k ∈ keys R' ↔ k ∈ keys R := by
  simp only [keys, List.mem_map]
  constructor
  · rintro ⟨kv, hm, rfl⟩; exact ⟨kv, (h kv).1 hm, rfl⟩
  · rintro ⟨kv, hm, rfl⟩; exact ⟨kv, (h kv).2 hm, rfl⟩

theorem AddOut_congr {root r : Node} {cap K V res} (h : ∀ kv, kv ∈ routes r ↔ kv ∈ routes root)
    (ho : AddOut r cap K V res) : AddOut root cap K V res := by
  rcases ho with ⟨hk, hr⟩ | ⟨hk, root', hr, hne, hrt⟩
  · exact Or.inl ⟨(keys_congr h K).1 hk, hr⟩
  · refine Or.inr ⟨fun hk' => hk ((keys_congr h K).2 hk'), root', hr, hne, ?_⟩
    intro kv; rw [hrt kv, h kv]

/-- an insert that stores a handler (the last `insert` of `addRoute`) -/
theorem final_insert (n : Node) (s : Bytes) (h : Nat) (t : Kind) (pp : Bytes) (pn : List Bytes) (cap : Nat)
    (hne : NE n cap) (hr : Ready n s t) (hhd : t = .skind → s.head? = some 47)
    (hlen : pn.length = wild s) (hcap : wild s ≤ cap) :
    AddOut n cap s ⟨h, pp, pn⟩ (Route.insert n s (some h) t pp pn) := by
  obtain ⟨hwf, hhead, hp⟩ := hne
  have hhd' : t = .skind → s.head? = n.pfx.head? := fun ht => by rw [hhd ht, hhead]
  rcases insert_spec n s (some h) t pp pn hwf hr hhd' (fun _ => rfl) with ⟨-, hk, hres⟩ | ⟨hk, n', hres, hwf', hrt, -, -⟩
  · exact Or.inl ⟨hk, hres⟩
  · refine Or.inr ⟨fun hk' => hk ⟨rfl, hk'⟩, n', hres, ⟨hwf', ?_, ?_⟩, ?_⟩
    · rw [(insert_head n s (some h) t pp pn n' hwf hr hhd' (fun _ => rfl) hres).2, hhead]
    · exact insert_pnok n s (some h) t pp pn cap n' hwf hr hhd' (fun _ => rfl) hp (fun _ => hlen) hcap hres
    · intro kv; rw [hrt kv]
      constructor
      · rintro (h1 | ⟨x, hx, rfl⟩)
        · exact Or.inl h1
        · cases hx; exact Or.inr rfl
      · rintro (h1 | rfl)
        · exact Or.inl h1
        · exact Or.inr ⟨h, rfl, rfl⟩

/-- an insert without handlers (it only makes `s` a node boundary) -/
theorem none_insert (n : Node) (s : Bytes) (t : Kind) (pp : Bytes) (pn : List Bytes) (cap : Nat)
    (hne : NE n cap) (hr : Ready n s t) (hhd : t = .skind → s.head? = some 47) (ht : t ≠ .akind)
    (hcap : wild s ≤ cap) :
    ∃ n', Route.insert n s none t pp pn = .ok n' ∧ NE n' cap ∧ (∀ kv, kv ∈ routes n' ↔ kv ∈ routes n) ∧
      (∀ b, b ∈ bounds n → b ∈ bounds n') ∧ s ∈ bounds n' := by
  obtain ⟨hwf, hhead, hp⟩ := hne
  have hhd' : t = .skind → s.head? = n.pfx.head? := fun ht => by rw [hhd ht, hhead]
  have hak : t = .akind → (none : Option Nat).isSome = true := fun h => absurd h ht
  rcases insert_spec n s none t pp pn hwf hr hhd' hak with ⟨hk, -, -⟩ | ⟨-, n', hres, hwf', hrt, hb, hs⟩
  · cases hk
  · refine ⟨n', hres, ⟨hwf', ?_, ?_⟩, ?_, hb, hs⟩
    · rw [(insert_head n s none t pp pn n' hwf hr hhd' hak hres).2, hhead]
    · exact insert_pnok n s none t pp pn cap n' hwf hr hhd' hak hp (fun h => by cases h) hcap hres
    · intro kv; rw [hrt kv]; simp

/-- the invariant of the loop of `addRoute` between two iterations -/
def Inv (root : Node) (pre : Bytes) (pnames : List Bytes) : Option Bytes → Prop
  | none => (∃ b lit, pre = b ++ lit ∧ Lit lit ∧ (b = [] ∨ (b ∈ bounds root ∧ (42 : UInt8) ∉ b))) ∧
      (42 : UInt8) ∉ pre ∧ pnames.length = wild pre
  | some _ => (∃ b, pre = b ++ [58] ∧ b ∈ bounds root ∧ (42 : UInt8) ∉ b) ∧ pnames.length + 1 = wild pre

theorem head_append {pre : Bytes} {a : UInt8} (x : Bytes) (h : pre.head? = some a) : (pre ++ x).head? = some a := by
  cases pre with
  | nil => simp at h
  | cons c r => simpa using h

theorem count_cons_le (c a : UInt8) (r : Bytes) : r.count a ≤ (c :: r).count a := by
  rw [List.count_cons]; omega

theorem wild_single_lit (c : UInt8) (h1 : c ≠ 58) (h2 : c ≠ 42) : wild [c] = 0 := by
  apply wild_lit; intro x hx; simp at hx; subst hx; exact ⟨h1, h2⟩

/-- the catch-all case: after `pre` has been made a boundary, store the handlers at `pre ++ "*"` -/
theorem any_insert (r : Node) (pre : Bytes) (pnames : List Bytes) (rest : Bytes) (h : Nat) (ppath : Bytes) (cap : Nat)
    (hne : NE r cap) (hb : pre ∈ bounds r) (h42 : (42 : UInt8) ∉ pre) (hlen : pnames.length = wild pre)
    (hcap : wild pre + 1 ≤ cap) :
    AddOut r cap (pre ++ [42]) ⟨h, ppath, pnames ++ [rest]⟩
      (Route.insert r (pre ++ [42]) (some h) .akind ppath (pnames ++ [rest])) := by
  have hw : wild (pre ++ [42]) = wild pre + 1 := by rw [wild_append]; rfl
  apply final_insert r _ h .akind ppath _ cap hne ⟨pre, hb, h42, rfl⟩ (fun h => by cases h)
  · rw [hw]; simp [hlen]
  · rw [hw]; exact hcap

theorem loop_spec (h : Nat) (ppath : Bytes) (cap : Nat) :
    ∀ (rest : Bytes) (root : Node) (pre : Bytes) (pnames : List Bytes) (nm : Option Bytes),
      NE root cap → pre.head? = some 47 → Inv root pre pnames nm →
      wild pre + (rest.count 58 + rest.count 42) ≤ cap →
      AddOut root cap (pre ++ keyTail nm rest) ⟨h, ppath, pnames ++ namesTail nm rest⟩
        (addRouteLoop rest root pre pnames nm h ppath) := by
  intro rest
  induction rest with
  | nil =>
    intro root pre pnames nm hne hhd hinv hcap
    cases nm with
    | none =>
      obtain ⟨⟨b, lit, he, hl, hb⟩, -, hlen⟩ := hinv
      simp only [keyTail, namesTail, List.append_nil, addRouteLoop]
      have hpre : pre ≠ [] := by intro h0; rw [h0] at hhd; simp at hhd
      exact final_insert root pre h .skind ppath pnames cap hne ⟨hpre, b, lit, he, hl, hb⟩ (fun _ => hhd) hlen
        (by omega)
    | some name =>
      obtain ⟨⟨b, he, hb, h42⟩, hlen⟩ := hinv
      simp only [keyTail, namesTail, List.append_nil, addRouteLoop]
      exact final_insert root pre h .pkind ppath _ cap hne ⟨b, hb, h42, he⟩ (fun h => by cases h)
        (by simp [hlen]) (by omega)
  | cons c rest ih =>
    intro root pre pnames nm hne hhd hinv hcap
    have hc58 := count_cons_le c 58 rest
    have hc42 := count_cons_le c 42 rest
    cases nm with
    | none =>
      obtain ⟨⟨b, lit, he, hl, hb⟩, h42, hlen⟩ := hinv
      have hpre : pre ≠ [] := by intro h0; rw [h0] at hhd; simp at hhd
      have hready : Ready root pre .skind := ⟨hpre, b, lit, he, hl, hb⟩
      by_cases h1 : c = 58
      · subst h1
        obtain ⟨r, hins, hner, hrt, hbd, hpb⟩ := none_insert root pre .skind [] [] cap hne hready (fun _ => hhd)
          (by simp) (by omega)
        have hstep : addRouteLoop (58 :: rest) root pre pnames none h ppath =
            addRouteLoop rest r (pre ++ [58]) pnames (some []) h ppath := by
          simp [addRouteLoop, paramLabel, hins]
        have hkey : pre ++ keyTail none (58 :: rest) = (pre ++ [58]) ++ keyTail (some []) rest := by
          simp [keyTail]
        have hnames : namesTail none (58 :: rest) = namesTail (some []) rest := by simp [namesTail]
        rw [hstep, hkey, hnames]
        have hw : wild (pre ++ [58]) = wild pre + 1 := by rw [wild_append]; rfl
        have hcnt : (58 :: rest).count 58 = rest.count 58 + 1 := by simp
        apply AddOut_congr hrt
        apply ih r (pre ++ [58]) pnames (some []) hner (head_append _ hhd)
        · exact ⟨⟨pre, rfl, hpb, h42⟩, by rw [hw, hlen]⟩
        · rw [hw]; omega
      · by_cases h2 : c = 42
        · subst h2
          obtain ⟨r, hins, hner, hrt, hbd, hpb⟩ := none_insert root pre .skind [] [] cap hne hready (fun _ => hhd)
            (by simp) (by omega)
          have hstep : addRouteLoop (42 :: rest) root pre pnames none h ppath =
              Route.insert r (pre ++ [42]) (some h) .akind ppath (pnames ++ [rest]) := by
            simp [addRouteLoop, paramLabel, anyLabel, hins]
          have hkey : pre ++ keyTail none (42 :: rest) = pre ++ [42] := by simp [keyTail]
          have hnames : namesTail none (42 :: rest) = [rest] := by simp [namesTail]
          rw [hstep, hkey, hnames]
          have hcnt : (42 :: rest).count 42 = rest.count 42 + 1 := by simp
          apply AddOut_congr hrt
          exact any_insert r pre pnames rest h ppath cap hner hpb h42 hlen (by omega)
        · have hstep : addRouteLoop (c :: rest) root pre pnames none h ppath =
              addRouteLoop rest root (pre ++ [c]) pnames none h ppath := by
            simp [addRouteLoop, paramLabel, anyLabel, h1, h2]
          have hkey : pre ++ keyTail none (c :: rest) = (pre ++ [c]) ++ keyTail none rest := by
            simp [keyTail, h1, h2]
          have hnames : namesTail none (c :: rest) = namesTail none rest := by simp [namesTail, h1, h2]
          rw [hstep, hkey, hnames]
          have hw : wild (pre ++ [c]) = wild pre := by rw [wild_append, wild_single_lit c h1 h2]; rfl
          apply ih root (pre ++ [c]) pnames none hne (head_append _ hhd)
          · refine ⟨⟨b, lit ++ [c], by rw [he, List.append_assoc], ?_, hb⟩, ?_, by rw [hw, hlen]⟩
            · rw [Lit_append]; refine ⟨hl, ?_⟩
              intro x hx; simp at hx; subst hx; exact ⟨h1, h2⟩
            · intro hm; rw [List.mem_append] at hm
              rcases hm with hm | hm
              · exact h42 hm
              · simp at hm; exact h2 hm.symm
          · rw [hw]; omega
    | some name =>
      obtain ⟨⟨b, he, hb, h42⟩, hlen⟩ := hinv
      by_cases h1 : c = 47
      · subst h1
        have hwp : wild pre ≤ cap := by omega
        obtain ⟨r, hins, hner, hrt, hbd, hpb⟩ := none_insert root pre .pkind [] (pnames ++ [name]) cap hne
          ⟨b, hb, h42, he⟩ (fun h => by cases h) (by simp) hwp
        have hstep : addRouteLoop (47 :: rest) root pre pnames (some name) h ppath =
            addRouteLoop rest r (pre ++ [47]) (pnames ++ [name]) none h ppath := by
          simp [addRouteLoop, slash, hins]
        have hkey : pre ++ keyTail (some name) (47 :: rest) = (pre ++ [47]) ++ keyTail none rest := by
          simp [keyTail]
        have hnames : pnames ++ namesTail (some name) (47 :: rest) = (pnames ++ [name]) ++ namesTail none rest := by
          simp [namesTail]
        rw [hstep, hkey, hnames]
        have hw : wild (pre ++ [47]) = wild pre := by
          rw [wild_append, wild_single_lit 47 (by decide) (by decide)]; rfl
        have h42p : (42 : UInt8) ∉ pre := by
          rw [he]; intro hm; rw [List.mem_append] at hm
          rcases hm with hm | hm
          · exact h42 hm
          · simp at hm
        apply AddOut_congr hrt
        apply ih r (pre ++ [47]) (pnames ++ [name]) none hner (head_append _ hhd)
        · refine ⟨⟨pre, [47], rfl, ?_, Or.inr ⟨hpb, h42p⟩⟩, ?_, by rw [hw]; simp [hlen]⟩
          · intro x hx; simp at hx; subst hx; decide
          · intro hm; rw [List.mem_append] at hm
            rcases hm with hm | hm
            · exact h42p hm
            · simp at hm
        · rw [hw]; omega
      · have hstep : addRouteLoop (c :: rest) root pre pnames (some name) h ppath =
            addRouteLoop rest root pre pnames (some (name ++ [c])) h ppath := by
          simp [addRouteLoop, slash, h1]
        have hkey : keyTail (some name) (c :: rest) = keyTail (some (name ++ [c])) rest := by
          simp [keyTail, h1]
        have hnames : namesTail (some name) (c :: rest) = namesTail (some (name ++ [c])) rest := by
          simp [namesTail, h1]
        rw [hstep, hkey, hnames]
        exact ih root pre pnames (some (name ++ [c])) hne hhd ⟨⟨b, he, hb, h42⟩, hlen⟩ (by omega)

theorem routes_empty : routes Node.empty = [] := by
  simp [Node.empty, routes_mk, hsPart, routesL, routesO]

/-- first insertion into the empty root, with everything the loop needs afterwards -/
theorem insert_empty_ne (search : Bytes) (h : Option Nat) (pp : Bytes) (pn : List Bytes) (cap : Nat)
    (hl : Lit search) (hhd : search.head? = some 47) (hlen : h.isSome = true → pn.length = 0) :
    ∃ n', Route.insert Node.empty search h .skind pp pn = .ok n' ∧ NE n' cap ∧
      (∀ kv, kv ∈ routes n' ↔ ∃ x, h = some x ∧ kv = (search, Val.mk x pp pn)) ∧ search ∈ bounds n' := by
  cases search with
  | nil => simp at hhd
  | cons c0 r =>
    have hc0 : c0 = 47 := by simpa using hhd
    cases h with
    | none =>
      refine ⟨.mk .skind c0 (c0 :: r) [] [] [] none none none, ?_, ⟨?_, ?_, ?_⟩, ?_, ?_⟩
      · simp [Node.empty, Route.insert, lcpLen_nil]
      · rw [WF_mk]; exact ⟨rfl, rfl, ⟨by simp, hl⟩, trivial, by simp, trivial, trivial⟩
      · simp [Node.pfx, hc0]
      · rw [PnOK_mk]; simp [depthAt, PnOKL, PnOKO]
      · intro kv; simp [routes_mk, hsPart, routesL, routesO]
      · simp [bounds_mk]
    | some x =>
      refine ⟨.mk .skind c0 (c0 :: r) [] pp pn (some x) none none, ?_, ⟨?_, ?_, ?_⟩, ?_, ?_⟩
      · simp [Node.empty, Route.insert, lcpLen_nil]
      · rw [WF_mk]; exact ⟨rfl, rfl, ⟨by simp, hl⟩, trivial, by simp, trivial, trivial⟩
      · simp [Node.pfx, hc0]
      · rw [PnOK_mk]; simp [depthAt, PnOKL, PnOKO, hlen rfl]
      · intro kv; simp [routes_mk, hsPart, routesL, routesO, pref]
      · simp [bounds_mk]

theorem lit_not_any {pre : Bytes} (hl : Lit pre) : (42 : UInt8) ∉ pre := fun hm => (hl _ hm).2 rfl

/-- the loop on the still empty tree: literal text up to the first `insert` -/
theorem loop_empty (h : Nat) (ppath : Bytes) (cap : Nat) :
    ∀ (rest pre : Bytes), Lit pre → pre.head? = some 47 → rest.count 58 + rest.count 42 ≤ cap →
      AddOut Node.empty cap (pre ++ keyTail none rest) ⟨h, ppath, [] ++ namesTail none rest⟩
        (addRouteLoop rest Node.empty pre [] none h ppath) := by
  intro rest
  induction rest with
  | nil =>
    intro pre hl hhd hcap
    simp only [keyTail, namesTail, List.append_nil, addRouteLoop]
    obtain ⟨n', hins, hne, hrt, -⟩ := insert_empty_ne pre (some h) ppath [] cap hl hhd (fun _ => rfl)
    refine Or.inr ⟨by simp [routes_empty, keys], n', hins, hne, ?_⟩
    intro kv; rw [hrt kv, routes_empty]; simp
  | cons c rest ih =>
    intro pre hl hhd hcap
    have hc58 := count_cons_le c 58 rest
    have hc42 := count_cons_le c 42 rest
    have hw0 : wild pre = 0 := wild_lit pre hl
    have hcongr : ∀ r : Node, (∀ kv, kv ∈ routes r ↔ ∃ x, (none : Option Nat) = some x ∧ kv = (pre, Val.mk x [] [])) →
        ∀ kv, kv ∈ routes r ↔ kv ∈ routes Node.empty := by
      intro r hr kv; rw [hr kv, routes_empty]; simp
    by_cases h1 : c = 58
    · subst h1
      obtain ⟨r, hins, hner, hrt, hpb⟩ := insert_empty_ne pre none [] [] cap hl hhd (fun h => by cases h)
      have hstep : addRouteLoop (58 :: rest) Node.empty pre [] none h ppath =
          addRouteLoop rest r (pre ++ [58]) [] (some []) h ppath := by
        simp [addRouteLoop, paramLabel, hins]
      have hkey : pre ++ keyTail none (58 :: rest) = (pre ++ [58]) ++ keyTail (some []) rest := by
        simp [keyTail]
      have hnames : namesTail none (58 :: rest) = namesTail (some []) rest := by simp [namesTail]
      rw [hstep, hkey, hnames]
      have hw : wild (pre ++ [58]) = wild pre + 1 := by rw [wild_append]; rfl
      have hcnt : (58 :: rest).count 58 = rest.count 58 + 1 := by simp
      apply AddOut_congr (hcongr r hrt)
      apply loop_spec h ppath cap rest r (pre ++ [58]) [] (some []) hner (head_append _ hhd)
      · exact ⟨⟨pre, rfl, hpb, lit_not_any hl⟩, by rw [hw, hw0]; rfl⟩
      · rw [hw]; omega
    · by_cases h2 : c = 42
      · subst h2
        obtain ⟨r, hins, hner, hrt, hpb⟩ := insert_empty_ne pre none [] [] cap hl hhd (fun h => by cases h)
        have hstep : addRouteLoop (42 :: rest) Node.empty pre [] none h ppath =
            Route.insert r (pre ++ [42]) (some h) .akind ppath ([] ++ [rest]) := by
          simp [addRouteLoop, paramLabel, anyLabel, hins]
        have hkey : pre ++ keyTail none (42 :: rest) = pre ++ [42] := by simp [keyTail]
        have hnames : namesTail none (42 :: rest) = [rest] := by simp [namesTail]
        rw [hstep, hkey, hnames]
        have hcnt : (42 :: rest).count 42 = rest.count 42 + 1 := by simp
        apply AddOut_congr (hcongr r hrt)
        exact any_insert r pre [] rest h ppath cap hner hpb (lit_not_any hl) (by rw [hw0]; rfl) (by omega)
      · have hstep : addRouteLoop (c :: rest) Node.empty pre [] none h ppath =
            addRouteLoop rest Node.empty (pre ++ [c]) [] none h ppath := by
          simp [addRouteLoop, paramLabel, anyLabel, h1, h2]
        have hkey : pre ++ keyTail none (c :: rest) = (pre ++ [c]) ++ keyTail none rest := by
          simp [keyTail, h1, h2]
        have hnames : namesTail none (c :: rest) = namesTail none rest := by simp [namesTail, h1, h2]
        rw [hstep, hkey, hnames]
        apply ih (pre ++ [c]) _ (head_append _ hhd) (by omega)
        rw [Lit_append]; refine ⟨hl, ?_⟩
        intro x hx; simp at hx; subst hx; exact ⟨h1, h2⟩

theorem checkPathValid_head (path : Bytes) (h : checkPathValid path = true) : ∃ rest, path = 47 :: rest := by
  cases path with
  | nil => simp [checkPathValid] at h
  | cons c r =>
    simp only [checkPathValid, Bool.and_eq_true, beq_iff_eq] at h
    exact ⟨r, by rw [h.1]; rfl⟩

theorem routerAddRoute_spec (root : Node) (path : Bytes) (h : Nat) (cap : Nat)
    (hroot : RootOK root cap) (hcap : path.count 58 + path.count 42 ≤ cap) :
    let K := strip (Spec.Route.parsePattern path)
    let V := Val.mk h path (names (Spec.Route.parsePattern path))
    (checkPathValid path = false ∧ routerAddRoute root path h = .error .invalid) ∨
    (checkPathValid path = true ∧ K ∈ keys (routes root) ∧ routerAddRoute root path h = .error .conflict) ∨
    (checkPathValid path = true ∧ K ∉ keys (routes root) ∧ ∃ root', routerAddRoute root path h = .ok root' ∧
      WF root' .skind ∧ root'.pfx.head? = some 47 ∧ PnOK root' 0 cap ∧
      ∀ kv, kv ∈ routes root' ↔ (kv ∈ routes root ∨ kv = (K, V))) := by
  intro K V
  cases hv : checkPathValid path with
  | false => exact Or.inl ⟨rfl, by simp [routerAddRoute, hv]⟩
  | true =>
    right
    obtain ⟨rest, hp⟩ := checkPathValid_head path hv
    have hrun : routerAddRoute root path h = addRouteLoop rest root [47] [] none h path := by
      simp only [routerAddRoute, hv, if_true]
      conv => lhs; rw [hp]
      simp [addRouteLoop, paramLabel, anyLabel]
      rw [← hp]
    have hK : K = [47] ++ keyTail none rest := by
      show strip (parseGo none path) = _
      rw [← (keyTail_spec path).1, hp]; simp [keyTail]
    have hN : names (Spec.Route.parsePattern path) = [] ++ namesTail none rest := by
      show names (parseGo none path) = _
      rw [← namesTail_spec path none, hp]; simp [namesTail]
    have hcnt : rest.count 58 + rest.count 42 ≤ cap := by
      rw [hp] at hcap; simpa using hcap
    have hlit : Lit [47] := by intro x hx; simp at hx; subst hx; decide
    have hout : AddOut root cap K V (routerAddRoute root path h) := by
      rw [hrun, hK]
      show AddOut root cap _ ⟨h, path, names (Spec.Route.parsePattern path)⟩ _
      rw [hN]
      rcases hroot with rfl | ⟨hwf, hhead, hpn⟩
      · exact loop_empty h path cap rest [47] hlit rfl hcnt
      · apply loop_spec h path cap rest root [47] [] none ⟨hwf, hhead, hpn⟩ rfl
        · exact ⟨⟨[], [47], rfl, hlit, Or.inl rfl⟩, by simp, by rw [wild_lit _ hlit]; rfl⟩
        · rw [wild_lit _ hlit]; omega
    rcases hout with ⟨hk, hr⟩ | ⟨hk, root', hr, ⟨hwf', hhead', hpn'⟩, hrt⟩
    · exact Or.inl ⟨rfl, hk, hr⟩
    · exact Or.inr ⟨rfl, hk, root', hr, hwf', hhead', hpn', hrt⟩

end Hertz.Route
