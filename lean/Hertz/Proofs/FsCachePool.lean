import Hertz.Proofs.FsCache
/-!
Second invariant of the cache model: the identities of the `bigFileReader` objects.  Every reader object is in at most
one place — held by a response (`live`), in the pool of one `fsFile` (`ff.bigFiles`), or in the hand of the request that
is being handled — and at most once.  Core Lean only.
-/
set_option linter.unusedSimpArgs false
set_option linter.unusedVariables false

namespace Hertz.FsCache
open Hertz

def cntLive (rid : Nat) : List Reader → Nat
  | [] => 0
  | r :: t => (if r.rid = rid then 1 else 0) + cntLive rid t

def cntPool (rid : Nat) : List Pooled → Nat
  | [] => 0
  | p :: t => (if p.rid = rid then 1 else 0) + cntPool rid t

def sumPools (rid : Nat) : List Obj → Nat
  | [] => 0
  | o :: t => cntPool rid o.pool + sumPools rid t

/-- number of places the reader object `rid` is in -/
def occ (rid : Nat) (s : State) : Nat := cntLive rid s.live + sumPools rid s.objs

def handOf (hand : Option Nat) (rid : Nat) : Nat := if hand = some rid then 1 else 0

@[simp] theorem handOf_none (rid : Nat) : handOf none rid = 0 := by simp [handOf]

structure P (s : State) (hand : Option Nat) : Prop where
  one : ∀ rid, occ rid s + handOf hand rid ≤ 1
  lt : ∀ rid, 0 < occ rid s + handOf hand rid → rid < s.next
  nd : s.objs.Pairwise (fun a b => a.id ≠ b.id)

theorem P_init : P {} none := ⟨by simp [occ, cntLive, sumPools], by simp [occ, cntLive, sumPools], by simp⟩

theorem cntLive_pos {r : Reader} {l : List Reader} (h : r ∈ l) : 0 < cntLive r.rid l := by
  induction l with
  | nil => cases h
  | cons a t ih =>
    cases List.mem_cons.1 h with
    | inl e => subst e; simp [cntLive]; omega
    | inr m => have := ih m; simp [cntLive]; omega

theorem cntPool_pos {p : Pooled} {l : List Pooled} (h : p ∈ l) : 0 < cntPool p.rid l := by
  induction l with
  | nil => cases h
  | cons a t ih =>
    cases List.mem_cons.1 h with
    | inl e => subst e; simp [cntPool]; omega
    | inr m => have := ih m; simp [cntPool]; omega

theorem sumPools_ge {rid : Nat} {o : Obj} {l : List Obj} (h : o ∈ l) : cntPool rid o.pool ≤ sumPools rid l := by
  induction l with
  | nil => cases h
  | cons a t ih =>
    cases List.mem_cons.1 h with
    | inl e => subst e; simp [sumPools]
    | inr m => have := ih m; simp [sumPools]; omega

/-- **a pooled reader is not live**, and sits in one pool only -/
theorem P_pooled_not_live {s : State} (h : P s none) {o : Obj} (ho : o ∈ s.objs) {p : Pooled} (hp : p ∈ o.pool)
    {r : Reader} (hr : r ∈ s.live) : p.rid ≠ r.rid := by
  intro e
  have a := cntLive_pos hr
  have b := cntPool_pos hp
  have c := sumPools_ge (rid := p.rid) ho
  have d := h.one p.rid
  rw [← e] at a
  simp [occ] at d; omega

/-! ### updates of the `fsFile` list -/

theorem sumPools_map_same (rid : Nat) (g : Obj → Obj) (hp : ∀ o, (g o).pool = o.pool) (l : List Obj) :
    sumPools rid (l.map g) = sumPools rid l := by
  induction l with
  | nil => rfl
  | cons a t ih => simp [sumPools, hp, ih]

theorem pairwise_map_id {l : List Obj} (g : Obj → Obj) (hid : ∀ o, (g o).id = o.id)
    (h : l.Pairwise (fun a b => a.id ≠ b.id)) : (l.map g).Pairwise (fun a b => a.id ≠ b.id) := by
  rw [List.pairwise_map]
  simpa [hid] using h

/-- changes that keep every pool (counts, flags) -/
theorem P_mapSame {s : State} {hand : Option Nat} (g : Obj → Obj) (hid : ∀ o, (g o).id = o.id)
    (hp : ∀ o, (g o).pool = o.pool) (h : P s hand) : P { s with objs := s.objs.map g } hand := by
  have e : ∀ rid, occ rid { s with objs := s.objs.map g } = occ rid s := by
    intro rid; simp [occ, sumPools_map_same rid g hp]
  exact ⟨fun rid => by rw [e]; exact h.one rid, fun rid hh => by rw [e] at hh; exact h.lt rid hh, pairwise_map_id g hid h.nd⟩

theorem modObj_eq_map (id : Nat) (f : Obj → Obj) (s : State) :
    modObj id f s = { s with objs := s.objs.map fun o => if o.id = id then f o else o } := rfl

theorem P_incRc {s : State} {hand : Option Nat} (id : Nat) (h : P s hand) : P (incRc id s) hand := by
  unfold incRc; rw [modObj_eq_map]
  exact P_mapSame _ (fun o => by by_cases e : o.id = id <;> simp [e]) (fun o => by by_cases e : o.id = id <;> simp [e]) h

theorem P_dec {s s' : State} {hand : Option Nat} {id : Nat} (h : P s hand) (hd : decReadersCount id s = .ok s') : P s' hand := by
  unfold decReadersCount at hd
  cases hf : findObj s id with
  | none => simp [hf] at hd
  | some o =>
    simp [hf] at hd
    by_cases hn : o.rc - 1 < 0
    · simp [hn] at hd
    · simp [hn] at hd
      rw [← hd, modObj_eq_map]
      exact P_mapSame _ (fun o => by by_cases e : o.id = id <;> simp [e]) (fun o => by by_cases e : o.id = id <;> simp [e]) h

theorem P_expire {s : State} (h : P s none) : P (expireAll s) none := by
  unfold expireAll
  exact P_mapSame _ (fun _ => rfl) (fun _ => rfl) h

theorem P_disk {s : State} {hand : Option Nat} (d : Disk) (h : P s hand) : P { s with disk := d } hand :=
  ⟨h.one, h.lt, h.nd⟩

/-- a new reader object -/
theorem P_fresh {s : State} (h : P s none) : P { s with next := s.next + 1 } (some s.next) := by
  have z : occ s.next s = 0 := by
    cases hz : occ s.next s with
    | zero => rfl
    | succ n => have := h.lt s.next (by simp [hz]); omega
  refine ⟨?_, ?_, h.nd⟩
  · intro rid
    show occ rid s + handOf (some s.next) rid ≤ 1
    by_cases e : s.next = rid
    · subst e; simp [handOf, z]
    · have := h.one rid; simp [handOf, e] at this ⊢; exact this
  · intro rid hh
    show rid < s.next + 1
    change 0 < occ rid s + handOf (some s.next) rid at hh
    by_cases e : s.next = rid
    · omega
    · have := h.lt rid (by simp [handOf, e] at hh ⊢; exact hh); omega

theorem P_next {s : State} (h : P s none) : P { s with next := s.next + 1 } none :=
  ⟨h.one, fun rid hh => Nat.lt_succ_of_lt (h.lt rid hh), h.nd⟩

/-- the reader in the hand goes to the response -/
theorem P_addLive {s : State} (r : Reader) (h : P s (some r.rid)) : P { s with live := r :: s.live } none := by
  have e : ∀ rid, occ rid { s with live := r :: s.live } + handOf none rid = occ rid s + handOf (some r.rid) rid := by
    intro rid
    by_cases x : r.rid = rid <;> simp [occ, cntLive, handOf, x] <;> omega
  exact ⟨fun rid => by rw [e]; exact h.one rid, fun rid hh => by rw [e] at hh; exact h.lt rid hh, h.nd⟩

/-- the reader in the hand is dropped (a small-file reader goes back to the `sync.Pool`) -/
theorem P_drop {s : State} {x : Nat} (h : P s (some x)) : P s none := by
  refine ⟨fun rid => ?_, fun rid hh => ?_, h.nd⟩
  · have := h.one rid; simp at this ⊢; omega
  · exact h.lt rid (by simp at hh; omega)

theorem cntLive_take {rid : Nat} {l rest : List Reader} {r : Reader} (h : takeReader rid l = some (r, rest)) (x : Nat) :
    cntLive x l = cntLive x rest + (if r.rid = x then 1 else 0) := by
  induction l generalizing rest with
  | nil => simp [takeReader] at h
  | cons a t ih =>
    unfold takeReader at h
    by_cases e : a.rid = rid
    · simp [e] at h
      obtain ⟨rfl, rfl⟩ := h
      simp [cntLive]; omega
    · simp [e] at h
      obtain ⟨y, l', hy, rfl, rfl⟩ := h
      simp [cntLive, ih hy]; omega

theorem P_take {s : State} {rid : Nat} {r : Reader} {rest : List Reader} (h : P s none)
    (ht : takeReader rid s.live = some (r, rest)) : P { s with live := rest } (some r.rid) := by
  have e : ∀ x, occ x { s with live := rest } + handOf (some r.rid) x = occ x s + handOf none x := by
    intro x
    have := cntLive_take ht x
    by_cases y : r.rid = x <;> simp [occ, handOf, y] at this ⊢ <;> omega
  exact ⟨fun x => by rw [e]; exact h.one x, fun x hh => by rw [e] at hh; exact h.lt x hh, h.nd⟩

/-! one `fsFile` changes its pool: the identities are pairwise different, so exactly one term of the sum moves -/

theorem map_mod_noop {id : Nat} (f : Obj → Obj) {l : List Obj} (h : ∀ o ∈ l, o.id ≠ id) :
    l.map (fun o => if o.id = id then f o else o) = l := by
  induction l with
  | nil => rfl
  | cons a t ih =>
    have ha := h a (by simp)
    simp [ha, ih (fun o ho => h o (List.mem_cons_of_mem _ ho))]

theorem sumPools_mod_le (rid id d : Nat) (f : Obj → Obj) {l : List Obj} (nd : l.Pairwise (fun a b => a.id ≠ b.id))
    (hf : ∀ o, cntPool rid (f o).pool ≤ cntPool rid o.pool + d) :
    sumPools rid (l.map fun o => if o.id = id then f o else o) ≤ sumPools rid l + d := by
  induction l with
  | nil => simp [sumPools]
  | cons a t ih =>
    obtain ⟨h1, h2⟩ := List.pairwise_cons.1 nd
    by_cases e : a.id = id
    · have : ∀ o ∈ t, o.id ≠ id := fun o ho x => h1 o ho (by rw [e, x])
      simp only [List.map_cons, e, if_true, sumPools, map_mod_noop f this]
      have := hf a; omega
    · simp only [List.map_cons, e, if_false, sumPools]
      have := ih h2; omega

theorem sumPools_mod_eq (rid id : Nat) (f : Obj → Obj) {l : List Obj} (nd : l.Pairwise (fun a b => a.id ≠ b.id))
    {o₀ : Obj} (h0 : o₀ ∈ l) (hid : o₀.id = id) :
    sumPools rid (l.map fun o => if o.id = id then f o else o) + cntPool rid o₀.pool = sumPools rid l + cntPool rid (f o₀).pool := by
  induction l with
  | nil => cases h0
  | cons a t ih =>
    obtain ⟨h1, h2⟩ := List.pairwise_cons.1 nd
    cases List.mem_cons.1 h0 with
    | inl e =>
      subst e
      have : ∀ o ∈ t, o.id ≠ id := fun o ho x => h1 o ho (by rw [hid, x])
      simp only [List.map_cons, hid, if_true, sumPools, map_mod_noop f this]
      omega
    | inr m =>
      have e : a.id ≠ id := fun x => h1 o₀ m (by rw [x, hid])
      simp only [List.map_cons, e, if_false, sumPools]
      have := ih h2 m; omega

/-- `bigFileReader`: the last pooled reader is taken out -/
theorem P_pop {s : State} {id : Nat} {o : Obj} {p : Pooled} {rest : List Pooled} (h : P s none)
    (ho : o ∈ s.objs) (hid : o.id = id) (hp : o.pool = p :: rest) :
    P (modObj id (fun o => { o with pool := rest }) s) (some p.rid) := by
  rw [modObj_eq_map]
  have e : ∀ x, occ x { s with objs := s.objs.map fun o => if o.id = id then { o with pool := rest } else o } + handOf (some p.rid) x
      = occ x s + handOf none x := by
    intro x
    have := sumPools_mod_eq x id (fun o => { o with pool := rest }) h.nd ho hid
    rw [hp] at this
    by_cases y : p.rid = x <;> simp [occ, handOf, cntPool, y] at this ⊢ <;> omega
  exact ⟨fun x => by rw [e]; exact h.one x, fun x hh => by rw [e] at hh; exact h.lt x hh,
    pairwise_map_id _ (fun o => by by_cases e : o.id = id <;> simp [e]) h.nd⟩

/-- `bigFileReader.Close`: the reader in the hand goes into the pool of its file -/
theorem P_push {s : State} {id x : Nat} (src : Src) (h : P s (some x)) :
    P (modObj id (fun o => { o with pool := { rid := x, src := src } :: o.pool }) s) none := by
  rw [modObj_eq_map]
  have e : ∀ y, occ y { s with objs := s.objs.map fun o => if o.id = id then { o with pool := { rid := x, src := src } :: o.pool } else o }
      + handOf none y ≤ occ y s + handOf (some x) y := by
    intro y
    have := sumPools_mod_le y id (if x = y then 1 else 0) (fun o => { o with pool := { rid := x, src := src } :: o.pool }) h.nd
      (by intro o; simp [cntPool]; omega)
    by_cases z : x = y <;> simp [occ, handOf, z] at this ⊢ <;> omega
  exact ⟨fun y => Nat.le_trans (e y) (h.one y), fun y hh => h.lt y (Nat.lt_of_lt_of_le hh (e y)),
    pairwise_map_id _ (fun o => by by_cases e : o.id = id <;> simp [e]) h.nd⟩

theorem tickObj_pool_le (rid : Nat) (o : Obj) : cntPool rid (tickObj o).pool ≤ cntPool rid o.pool := by
  unfold tickObj Obj.release
  repeat' split
  all_goals simp [cntPool]

theorem sumPools_map_le (rid : Nat) (g : Obj → Obj) (hg : ∀ o, cntPool rid (g o).pool ≤ cntPool rid o.pool) (l : List Obj) :
    sumPools rid (l.map g) ≤ sumPools rid l := by
  induction l with
  | nil => simp [sumPools]
  | cons a t ih => simp only [List.map_cons, sumPools]; have := hg a; omega

theorem P_tick {s : State} (h : P s none) : P (tick s) none := by
  unfold tick
  have e : ∀ x, occ x { s with objs := s.objs.map tickObj } ≤ occ x s := by
    intro x
    have := sumPools_map_le x tickObj (tickObj_pool_le x) s.objs
    simp [occ]; omega
  refine ⟨fun x => ?_, fun x hh => ?_, pairwise_map_id _ tickObj_id h.nd⟩
  · have := h.one x; have := e x; simp at *; omega
  · exact h.lt x (by have := e x; simp at *; omega)

theorem P_newObj {s : State} (h : P s none) (hl : ∀ o ∈ s.objs, o.id < s.next) (o : Obj) (hid : o.id = s.next) (hp : o.pool = []) :
    P { s with objs := o :: s.objs, next := s.next + 1 } none := by
  have e : ∀ x, occ x { s with objs := o :: s.objs, next := s.next + 1 } = occ x s := by
    intro x; simp [occ, sumPools, hp, cntPool]
  refine ⟨fun x => by rw [e]; exact h.one x, fun x hh => ?_, ?_⟩
  · rw [e] at hh; exact Nat.lt_succ_of_lt (h.lt x hh)
  · refine List.pairwise_cons.2 ⟨fun b hb => ?_, h.nd⟩
    have := hl b hb; omega

/-! ### the Go functions -/

theorem map_ok {α β : Type} {x : Except Fault α} {f : α → β} {b : β} (h : x.map f = .ok b) : ∃ a, x = .ok a ∧ f a = b := by
  cases x with
  | error e => cases h
  | ok a => exact ⟨a, rfl, by cases h; rfl⟩

theorem P_closeReader {s s' : State} {r : Reader} (h : P s (some r.rid)) (hc : closeReader r s = .ok s') : P s' none := by
  unfold closeReader at hc
  by_cases hb : r.big = true
  · simp only [hb, if_true] at hc
    exact P_dec (P_push r.src h) hc
  · simp only [hb, if_false] at hc
    exact P_dec (P_drop h) hc

theorem P_finish {s s' : State} {r : Reader} {a : Ans} (head : Bool) (status : Nat) (cr : Option (Nat × Nat × Nat))
    (h : P s (some r.rid)) (hf : finish head s status r cr = .ok (s', a)) : P s' none := by
  unfold finish at hf
  cases head with
  | true =>
    simp only [if_true] at hf
    obtain ⟨s1, e, e2⟩ := map_ok hf
    cases e2
    exact P_closeReader h e
  | false =>
    simp at hf
    rw [← hf.1]
    exact P_addLive r h

theorem P_withReader {s s' : State} {r : Reader} {a : Ans} (accept head : Bool) (range : Bytes) (o : Obj)
    (h : P s (some r.rid)) (hw : withReader accept head range o r s = .ok (s', a)) : P s' none := by
  unfold withReader at hw
  by_cases hc : (accept && !range.isEmpty) = true
  · simp only [hc, if_true] at hw
    rcases FS.parseByteRange_no_panic range o.c.len with ⟨⟨x, y⟩, hp⟩ | hp
    · rw [hp] at hw
      exact P_finish (r := { r with lo := x.toNat, cl := (y - x + 1).toNat }) head 206 _ h hw
    · rw [hp] at hw
      obtain ⟨s1, e, e2⟩ := map_ok hw
      cases e2
      exact P_closeReader h e
  · simp only [hc, if_false] at hw
    exact P_finish head 200 none h hw

theorem P_serve {s s' : State} {id : Nat} {a : Ans} (accept head : Bool) (ims : Option Nat) (range : Bytes)
    (h : P s none) (hs : serve accept head ims range id s = .ok (s', a)) : P s' none := by
  unfold serve at hs
  cases hfo : findObj s id with
  | none => simp [hfo] at hs
  | some o =>
    simp only [hfo] at hs
    obtain ⟨ho, hid⟩ := findObj_some hfo
    by_cases hn : notModified ims o = true
    · simp only [hn, if_true] at hs
      obtain ⟨s1, e, e2⟩ := map_ok hs
      cases e2
      exact P_dec h e
    · simp only [hn, if_false] at hs
      by_cases hb : o.isBig = true
      · simp only [hb, if_true] at hs
        cases hpool : o.pool with
        | cons p rest =>
          simp only [hpool] at hs
          exact P_withReader (r := { rid := p.rid, fid := id, big := true, src := p.src, lo := 0, cl := o.c.len })
            accept head range o (P_pop h ho hid hpool) hs
        | nil =>
          simp only [hpool] at hs
          cases hre : reopen s.disk o with
          | none =>
            simp only [hre] at hs
            obtain ⟨s1, e, e2⟩ := map_ok hs
            cases e2
            exact P_dec h e
          | some src =>
            simp only [hre] at hs
            exact P_withReader (r := { rid := s.next, fid := id, big := true, src := src, lo := 0, cl := o.c.len })
              accept head range o (P_fresh h) hs
      · simp only [hb, if_false] at hs
        exact P_withReader (r := { rid := s.next, fid := id, big := false, src := .content o.c, lo := 0, cl := o.c.len })
          accept head range o (P_fresh h) hs

theorem P_handleRequest {s s' : State} {a : Ans} (accept : Bool) (key : Nat) (head : Bool) (ims : Option Nat) (range : Bytes)
    (h : P s none) (hl : ∀ o ∈ s.objs, o.id < s.next)
    (hr : handleRequest accept key head ims range s = .ok (s', a)) : P s' none := by
  unfold handleRequest at hr
  cases hlk : lookup s key with
  | some o =>
    simp only [hlk] at hr
    exact P_serve accept head ims range (P_incRc o.id h) hr
  | none =>
    simp only [hlk] at hr
    cases hop : openPath s.disk key with
    | notFound => simp only [hop] at hr; cases hr; exact h
    | forbidden => simp only [hop] at hr; cases hr; exact h
    | ok vi c mt =>
      simp only [hop] at hr
      exact P_serve accept head ims range (P_incRc _ (P_newObj h hl _ rfl rfl)) hr

theorem P_closeOp {s s' : State} {a : Ans} (rid : Nat) (h : P s none) (hc : closeOp rid s = .ok (s', a)) : P s' none := by
  unfold closeOp at hc
  cases ht : takeReader rid s.live with
  | none => simp only [ht] at hc; cases hc; exact h
  | some p =>
    obtain ⟨r, rest⟩ := p
    simp only [ht] at hc
    obtain ⟨s1, e, e2⟩ := map_ok hc
    cases e2
    exact P_closeReader (P_take h ht) e

theorem P_step {s s' : State} {a : Ans} (accept : Bool) (op : Op) (h : P s none) (hl : ∀ o ∈ s.objs, o.id < s.next)
    (hs : step accept s op = .ok (s', a)) : P s' none := by
  cases op with
  | req key head ims range => exact P_handleRequest accept key head ims range h hl hs
  | close rid => exact P_closeOp rid h hs
  | setNode key n => simp [step] at hs; rw [← hs.1]; exact P_disk _ h
  | expire => simp [step] at hs; rw [← hs.1]; exact P_expire h
  | tick => simp [step] at hs; rw [← hs.1]; exact P_tick h

theorem GP_run (accept : Bool) (ops : List Op) :
    ∀ {s : State}, G s none → P s none → ∃ s', run accept s ops = .ok s' ∧ G s' none ∧ P s' none := by
  induction ops with
  | nil => intro s g p; exact ⟨s, rfl, g, p⟩
  | cons op ops ih =>
    intro s g p
    obtain ⟨s1, a, e, g1⟩ := G_step accept op g
    have p1 := P_step accept op p g.lt e
    obtain ⟨s2, e2, g2, p2⟩ := ih g1 p1
    exact ⟨s2, by simp [run, e, e2], g2, p2⟩

end Hertz.FsCache
