import Hertz.Model.Http1.StreamX
import Hertz.Proofs.StreamChunked
/-!
Lemmas about the extended streaming loop (`Model/Http1/StreamX.lean`): idle style and read
time-outs in the middle of the stream.
-/
namespace Hertz.H1.Stream
open Hertz Hertz.H1 Hertz.Gen.Str

/-! ### without time-outs the segment-aware readers are the plain ones -/

theorem parseChunkSizeX_nil (e : End) (v : Bytes) :
    parseChunkSizeX e v [] =
      match parseChunkSize e v with
      | .error x => .error x
      | .ok (n, r) => .ok (n, r, []) := by
  unfold parseChunkSizeX parseChunkSize
  simp only [viewEnd]
  cases h : readHexInt e v with
  | error x => cases x <;> rfl
  | ok p =>
    obtain ⟨n, r⟩ := p
    cases r with
    | nil => simp only []; cases chunkSizeTail e [] <;> rfl
    | cons c t => simp only []; cases chunkSizeTail e (c :: t) <;> rfl

theorem consumeChunkedX_nil (cfg : Cfg) (e : End) (names : List Bytes) (c : Consume) :
    ∀ (fuel : Nat) (st : ChunkSt) (acc : Bytes),
      consumeChunkedX cfg e names c fuel st [] acc =
        ((consumeChunked cfg e names c fuel st acc).1, (consumeChunked cfg e names c fuel st acc).2, [])
  | 0, st, acc => rfl
  | fuel + 1, st, acc => by
    unfold consumeChunkedX consumeChunked
    by_cases h1 : acc.length ≥ c.stopAfter
    · simp only [h1, if_true]
    · simp only [h1, if_false]
      by_cases h2 : st.chunkEOF = true
      · simp only [h2, if_true]
      · simp only [h2, Bool.false_eq_true, if_false]
        by_cases h3 : st.chunkLeft = 0
        · simp only [h3, if_true, parseChunkSizeX_nil]
          cases hp : parseChunkSize e st.s with
          | error x => simp only []
          | ok p =>
            obtain ⟨n, r⟩ := p
            cases n with
            | zero =>
              simp only [viewEnd]
              cases ht : readTrailerReq cfg e names r with
              | error x => simp only []
              | ok q =>
                obtain ⟨o, r'⟩ := q
                cases o <;> simp only [if_true]
            | succ n =>
              simp only [Bool.false_eq_true, if_false]
              split
              · rfl
              · split
                · split
                  · exact consumeChunkedX_nil cfg e names c fuel _ _
                  · rfl
                · exact consumeChunkedX_nil cfg e names c fuel _ _
        · simp only [h3, if_false, Bool.false_eq_true]
          split
          · rfl
          · split
            · split
              · exact consumeChunkedX_nil cfg e names c fuel _ _
              · rfl
            · exact consumeChunkedX_nil cfg e names c fuel _ _

theorem skipTrX_eq : ∀ (f : Nat) (s : Bytes), skipTrX f s = drainChunked.skipTr f s
  | 0, _ => rfl
  | f + 1, s => by
    unfold skipTrX drainChunked.skipTr
    cases Hertz.H1.indexByte 10 s with
    | none => rfl
    | some i =>
      simp only []
      split
      · rfl
      · split
        · rfl
        · split
          · exact skipTrX_eq f _
          · rfl

theorem drainChunkedX_nil (cfg : Cfg) (e : End) : ∀ (fuel : Nat) (st : ChunkSt),
    drainChunkedX e fuel st [] = (drainChunked cfg e fuel st).map (fun r => (r, []))
  | 0, _ => rfl
  | fuel + 1, st => by
    unfold drainChunkedX drainChunked
    by_cases h1 : st.chunkEOF = true
    · simp only [h1, if_true, Option.map_some]
    · simp only [h1, Bool.false_eq_true, if_false]
      by_cases h2 : st.chunkLeft > 0
      · simp only [h2, if_true]
        split
        · rfl
        · split
          · rfl
          · exact drainChunkedX_nil cfg e fuel _
      · simp only [h2, if_false, parseChunkSizeX_nil]
        cases hp : parseChunkSize e st.s with
        | error x => rfl
        | ok p =>
          obtain ⟨n, r⟩ := p
          cases n with
          | zero =>
            simp only [skipTrX_eq]
            cases drainChunked.skipTr (r.length + 1) r <;> rfl
          | succ n =>
            simp only []
            split
            · rfl
            · split
              · rfl
              · exact drainChunkedX_nil cfg e fuel _

theorem streamBodyX_nil (cfg : Cfg) (e : End) (hd : ReqHead) (v : Bytes) (c : Consume) :
    streamBodyX cfg e hd v [] c =
      match streamBody cfg e hd v c with
      | .error x => .error x
      | .ok (r, a) => .ok (r, a, []) := by
  by_cases h1 : hd.cl = -1
  · rw [streamBody_chunked cfg e hd v c h1]
    simp only [streamBodyX, h1, if_true, consumeChunkedX_nil, List.map_nil, List.sum_nil, Nat.add_zero,
      drainChunkedX_nil cfg, chunkedAfter]
    split
    · rfl
    · cases drainChunked cfg e (v.length + 2) _ <;> rfl
  · simp only [streamBodyX, h1, if_false, viewEnd]
    cases streamBody cfg e hd v c with
    | error x => rfl
    | ok p => obtain ⟨r, a⟩ := p; rfl

/-- in-loop idle wait, no time-out: the extended loop is the plain loop -/
theorem streamLoopX_single (cfg : Cfg) (e : End) (c : Consume) : ∀ (fuel : Nat) (first : Bool) (s : Bytes),
    streamLoopX cfg false e c fuel first [s] = streamLoop cfg e c fuel first s
  | 0, _, _ => rfl
  | fuel + 1, first, s => by
    unfold streamLoopX streamLoop
    simp only [viewEnd, streamBodyX_nil]
    split
    · rfl
    · cases parseReqHead cfg.disableNorm s with
      | error x => cases x <;> rfl
      | ok p =>
        obtain ⟨hd, n⟩ := p
        simp only []
        cases streamBody cfg e hd (s.drop n) c with
        | error x => rfl
        | ok q =>
          obtain ⟨r, a⟩ := q
          simp only [nextState, Bool.false_eq_true, if_false]
          cases a with
          | resync rest => simp only [streamLoopX_single cfg e c fuel false rest]
          | closed => rfl
          | either rest => simp only [streamLoopX_single cfg e c fuel false rest]

theorem serveStreamX_plain (cfg : Cfg) (e : End) (c : Consume) (s : Bytes) :
    serveStreamX cfg false e c [] s = serveStream cfg e c s := by
  simp only [serveStreamX, splitAt, serveStream, List.length_cons, List.length_nil, Nat.zero_add]
  exact streamLoopX_single cfg e c _ true s

/-! ### a failed body read closes the connection, in every idle style and with time-outs -/

theorem streamBodyX_err_closed (cfg : Cfg) (e : End) (hd : ReqHead) (v : Bytes) (more : List Bytes) (c : Consume)
    (r : ReqOut) (a : After) (m : List Bytes)
    (h : streamBodyX cfg e hd v more c = .ok (r, a, m)) (herr : r.got.err = true) : a = .closed := by
  by_cases h1 : hd.cl = -1
  · simp only [streamBodyX, h1, if_true] at h
    split at h
    · simp only [Except.ok.injEq, Prod.mk.injEq] at h
      exact h.2.1.symm
    · rename_i hne
      split at h
      · simp only [Except.ok.injEq, Prod.mk.injEq] at h
        exact h.2.1.symm
      · simp only [Except.ok.injEq, Prod.mk.injEq] at h
        rw [← h.1] at herr
        simp only at herr
        exact absurd herr hne
  · simp only [streamBodyX, h1, if_false] at h
    cases hb : streamBody cfg (viewEnd e more) hd v c with
    | error x => rw [hb] at h; cases h
    | ok p =>
      obtain ⟨r', a'⟩ := p
      rw [hb] at h
      simp only [Except.ok.injEq, Prod.mk.injEq] at h
      rw [← h.1] at herr
      rw [← h.2.1]
      exact streamBody_err_closed cfg _ hd v c r' a' hb herr

theorem streamLoopX_errEnds (cfg : Cfg) (poll : Bool) (e : End) (c : Consume) : ∀ (fuel : Nat) (first : Bool) (segs : List Bytes),
    errEnds (streamLoopX cfg poll e c fuel first segs) = true
  | 0, _, _ => rfl
  | _ + 1, _, [] => rfl
  | fuel + 1, first, v :: more => by
    unfold streamLoopX
    split
    · rfl
    · split
      · rfl
      · split <;> (dsimp only; cases viewEnd e more <;> rfl)
      · rename_i hd n _
        have hpre : ∀ t : List SEv, errEnds ((if mayContinue hd = true then [SEv.continue100] else []) ++ t) = errEnds t := by
          intro t; split <;> simp [errEnds]
        dsimp only
        split
        · rename_i x _
          simp only [hpre]
          cases errStatus x with
          | some st => rfl
          | none => by_cases hc : mayContinue hd = true <;> simp [hc, errEnds]
        · rename_i r after more' hsb
          simp only [List.append_assoc, hpre]
          by_cases herr : r.got.err = true
          · have := streamBodyX_err_closed cfg e hd _ more c r after more' hsb herr
            subst this
            have hnil : (if (cfg.disableKeepalive || r.head.connClose) = true then ([] : List SEv) else []) = [] := by
              split <;> rfl
            simp only [List.cons_append, List.nil_append, errEnds, herr, if_true, hnil]
          · simp only [List.cons_append, List.nil_append, errEnds, herr, Bool.false_eq_true, if_false]
            split
            · rfl
            · split
              · split
                · rfl
                · exact streamLoopX_errEnds cfg poll e c fuel _ _
              · rfl
              · simp only [errEnds]
                split
                · rfl
                · exact streamLoopX_errEnds cfg poll e c fuel _ _

/-- how the connection goes on after a kept-alive request -/
def contX (cfg : Cfg) (poll : Bool) (e : End) (c : Consume) (fuel : Nat) (rest : Bytes) (more : List Bytes) : List SEv :=
  match nextState poll rest more with
  | none => []
  | some (f, segs) => streamLoopX cfg poll e c fuel f segs

theorem streamLoopX_after (cfg : Cfg) (poll : Bool) (e : End) (c : Consume) (fuel : Nat) (first : Bool) (v : Bytes)
    (more : List Bytes) (hd : ReqHead) (n : Nat) (r : ReqOut) (a : After) (more' : List Bytes)
    (hgo : (!first && decide (v.length < 4)) = false) (hp : parseReqHead cfg.disableNorm v = .ok (hd, n))
    (hb : streamBodyX cfg e hd (v.drop n) more c = .ok (r, a, more'))
    (hk : (cfg.disableKeepalive || r.head.connClose) = false) :
    streamLoopX cfg poll e c (fuel + 1) first (v :: more) =
      (if mayContinue hd then [SEv.continue100] else []) ++ [.req r, .resp 200 false] ++
        match a with
        | .resync rest => contX cfg poll e c fuel rest more'
        | .closed => []
        | .either rest => .maybeClosed :: contX cfg poll e c fuel rest more' := by
  simp only [streamLoopX, hgo, hp, hb, hk, Bool.false_eq_true, if_false, contX]
  cases a <;> rfl

/-! ### the time-out `ReadHexInt` swallows -/

theorem hex_not_blank_cr (d : UInt8) (h : hex2int d ≠ 16) : d ≠ 32 ∧ d ≠ 13 := by
  constructor
  · intro h32; subst h32; exact h (by decide +kernel)
  · intro h13; subst h13; exact h (by decide +kernel)

/-- the number ran to the end of the segment and the next segment goes on with a hex digit (the
size line was cut inside the number): refused -/
theorem parseChunkSizeX_cut_refused (e : End) (v : Bytes) (d : UInt8) (t : Bytes) (ms : List Bytes) (n : Nat)
    (hv : readHexInt .stall v = .ok (n, [])) (hd : hex2int d ≠ 16) :
    parseChunkSizeX e v ((d :: t) :: ms) = .error .bad := by
  obtain ⟨h32, h13⟩ := hex_not_blank_cr d hd
  have hve : viewEnd e ((d :: t) :: ms) = .stall := rfl
  simp only [parseChunkSizeX, hve, hv, chunkSizeTail, h32, h13, if_false]

set_option maxRecDepth 100000 in
theorem readHexIntAux_append (e1 e2 : End) (d : UInt8) (t : Bytes) (hd : hex2int d = 16) :
    ∀ (v : Bytes) (n i m : Nat), readHexIntAux e1 n i v = .ok (m, []) →
      readHexIntAux e2 n i (v ++ d :: t) = .ok (m, d :: t)
  | [], n, i, m, h => by
    simp only [readHexIntAux] at h
    by_cases hi : i > 0
    · simp only [hi, if_true, Except.ok.injEq, Prod.mk.injEq, and_true] at h
      have hi0 : ¬ i = 0 := by omega
      simp only [List.nil_append, readHexIntAux, hd, if_true, hi0, if_false, h]
    · simp only [hi, if_false] at h; cases h
  | c :: v, n, i, m, h => by
    simp only [readHexIntAux] at h
    simp only [List.cons_append, readHexIntAux]
    by_cases hk : hex2int c = 16
    · simp only [hk, if_true] at h
      split at h
      · cases h
      · simp only [Except.ok.injEq, Prod.mk.injEq] at h; cases h.2
    · simp only [hk, if_false] at h ⊢
      by_cases hm : i ≥ Gen.maxHexIntChars.toNat
      · simp only [hm, if_true] at h; cases h
      · simp only [hm, if_false] at h ⊢
        exact readHexIntAux_append e1 e2 d t hd v _ _ m h

/-- the number ran to the end of the segment and was complete (the next segment goes on with a byte
that is no hex digit): the swallowed time-out is invisible, the size line is read as if the two
segments had arrived together -/
theorem parseChunkSizeX_whole_invisible (e : End) (v : Bytes) (d : UInt8) (t : Bytes) (ms : List Bytes) (n : Nat)
    (hv : readHexInt .stall v = .ok (n, [])) (hd : hex2int d = 16) :
    parseChunkSizeX e v ((d :: t) :: ms) =
      match parseChunkSize (viewEnd e ms) (v ++ d :: t) with
      | .error x => .error x
      | .ok (k, r) => .ok (k, r, ms) := by
  have ha : readHexInt (viewEnd e ms) (v ++ d :: t) = .ok (n, d :: t) :=
    readHexIntAux_append .stall (viewEnd e ms) d t hd v 0 0 n hv
  have hve : viewEnd e ((d :: t) :: ms) = .stall := rfl
  simp only [parseChunkSizeX, hve, hv, parseChunkSize, ha]
  cases chunkSizeTail (viewEnd e ms) (d :: t) <;> rfl

end Hertz.H1.Stream
