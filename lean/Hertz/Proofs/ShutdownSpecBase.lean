import Hertz.Proofs.Shutdown
import Hertz.Spec.Shutdown

namespace Hertz.ShutdownSpec

/-- the event at position `j` of the list satisfies `p` -/
def holdsAt (l : List TEv) (p : Ev → Bool) (j : Nat) : Prop := ∃ e, l[j]? = some e ∧ p e.ev = true

theorem evAt_list (l : List TEv) (i : Nat) : evAt l.toArray i = l[i]? := by simp [evAt]

theorem matchP_iff (l : List TEv) (p : Ev → Bool) (j : Nat) :
    (match evAt l.toArray j with | some e => p e.ev | none => false) = true ↔ holdsAt l p j := by
  rw [evAt_list]
  unfold holdsAt
  cases l[j]? <;> simp

theorem holdsAt_lt {l : List TEv} {p : Ev → Bool} {j : Nat} (h : holdsAt l p j) : j < l.length := by
  obtain ⟨e, he, _⟩ := h
  rcases Nat.lt_or_ge j l.length with h | h
  · exact h
  · simp [List.getElem?_eq_none h] at he

theorem existsFrom_iff (l : List TEv) (i : Nat) (p : Ev → Bool) :
    existsFrom l.toArray i p = true ↔ ∃ j, i < j ∧ holdsAt l p j := by
  unfold existsFrom
  simp only [List.any_eq_true, List.mem_range, Bool.and_eq_true, decide_eq_true_eq]
  constructor
  · rintro ⟨j, _, h1, h2⟩; exact ⟨j, h1, (matchP_iff l p j).1 h2⟩
  · rintro ⟨j, h1, h2⟩; exact ⟨j, by simpa using holdsAt_lt h2, h1, (matchP_iff l p j).2 h2⟩

theorem existsBefore_iff (l : List TEv) (i : Nat) (p : Ev → Bool) :
    existsBefore l.toArray i p = true ↔ ∃ j, j < i ∧ holdsAt l p j := by
  unfold existsBefore
  simp only [List.any_eq_true, List.mem_range, Bool.and_eq_true, decide_eq_true_eq]
  constructor
  · rintro ⟨j, _, h1, h2⟩; exact ⟨j, h1, (matchP_iff l p j).1 h2⟩
  · rintro ⟨j, h1, h2⟩; exact ⟨j, by simpa using holdsAt_lt h2, h1, (matchP_iff l p j).2 h2⟩

theorem idxOf?_some {l : List TEv} {p : Ev → Bool} {f : Nat} (h : idxOf? l.toArray p = some f) :
    holdsAt l p f ∧ ∀ j, j < f → ¬ holdsAt l p j := by
  unfold idxOf? at h
  rw [List.find?_range_eq_some] at h
  obtain ⟨h1, _, h3⟩ := h
  refine ⟨(matchP_iff l p f).1 h1, fun j hj hh => ?_⟩
  have h4 := h3 j hj
  have h5 : (match evAt l.toArray j with | some e => p e.ev | none => false) = true := (matchP_iff l p j).2 hh
  have h6 : (!(match evAt l.toArray j with | some e => p e.ev | none => false)) = true := h4
  rw [h5] at h6
  simp at h6

theorem idxOf?_none {l : List TEv} {p : Ev → Bool} (h : idxOf? l.toArray p = none) (j : Nat) : ¬ holdsAt l p j := by
  unfold idxOf? at h
  rw [List.find?_eq_none] at h
  intro hh
  exact h j (by simpa using holdsAt_lt hh) ((matchP_iff l p j).2 hh)

theorem lastIdxOf?_some {l : List TEv} {p : Ev → Bool} {f : Nat} (h : lastIdxOf? l.toArray p = some f) :
    holdsAt l p f := by
  unfold lastIdxOf? at h
  have := List.find?_some h
  exact (matchP_iff l p f).1 this


deriving instance ReflBEq, LawfulBEq for Ev

theorem holdsAt_congr {l : List TEv} {p q : Ev → Bool} (h : ∀ e, p e = q e) {j : Nat} : holdsAt l p j ↔ holdsAt l q j := by
  unfold holdsAt; simp [h]

theorem holdsAt_eq {l : List TEv} {x : Ev} {j : Nat} : holdsAt l (· == x) j ↔ ∃ t, l[j]? = some ⟨x, t⟩ := by
  unfold holdsAt
  constructor
  · rintro ⟨⟨ev, t⟩, he, hp⟩
    simp at hp; subst hp; exact ⟨t, he⟩
  · rintro ⟨t, he⟩; exact ⟨_, he, by simp⟩

theorem isTnil_iff (e : Ev) : isTnil e = true ↔ ∃ k, e = .T k "nil" := by
  cases e <;> simp [isTnil]
  rename_i k err
  constructor
  · intro h
    split at h <;> simp_all
  · rintro rfl; rfl

theorem holdsAt_isTnil {l : List TEv} {j : Nat} : holdsAt l isTnil j ↔ ∃ k t, l[j]? = some (TEv.mk (.T k "nil") t) := by
  unfold holdsAt
  constructor
  · rintro ⟨⟨ev, t⟩, he, hp⟩
    obtain ⟨k, rfl⟩ := (isTnil_iff _).1 hp
    exact ⟨k, t, he⟩
  · rintro ⟨k, t, he⟩; exact ⟨_, he, rfl⟩

/-! ### each clause of the spec, as a statement about positions of the event list -/

theorem inflightComplete_nil (l : List TEv)
    (hQ : ∀ (i c k : Nat) rc t, l[i]? = some (TEv.mk (.Q c k rc) t) → ∃ (j : Nat) (cl : Bool) (t' : Nat), i < j ∧ l[j]? = some (TEv.mk (.R c k cl true) t'))
    (hR : ∀ (i c k : Nat) cl t, l[i]? ≠ some (TEv.mk (.R c k cl false) t)) : inflightComplete l.toArray = [] := by
  unfold inflightComplete
  simp only
  rw [List.filterMap_eq_nil_iff]
  intro i _
  split
  · rename_i c k rc t heq
    rw [evAt_list] at heq
    split
    · split
      · rfl
      · rename_i hne
        exfalso; apply hne
        rw [existsFrom_iff]
        obtain ⟨j, cl, t', hj, he⟩ := hQ i c k rc t heq
        refine ⟨j, hj, _, he, ?_⟩
        cases cl <;> simp
    · rfl
  · rename_i c k cl t heq
    rw [evAt_list] at heq
    exact absurd heq (hR i c k cl t)
  · rfl

theorem retFlipAt_isT {l : List TEv} {i : Nat} (h : retFlipAt l.toArray i = true) : holdsAt l isT i := by
  unfold retFlipAt at h
  rw [evAt_list] at h
  split at h
  · rename_i k err t heq; exact ⟨_, heq, rfl⟩
  · simp at h

theorem flipAt_isFlipWitness {l : List TEv} {i : Nat} (h : flipAt l.toArray i = true) : holdsAt l isFlipWitness i := by
  unfold flipAt at h
  rw [Bool.or_eq_true] at h
  rcases h with h | h
  · rw [evAt_list] at h
    split at h
    · rename_i j t heq; exact ⟨_, heq, rfl⟩
    · simp at h
  · obtain ⟨e, he, hp⟩ := retFlipAt_isT h
    refine ⟨e, he, ?_⟩
    cases hev : e.ev <;> simp [hev, isT] at hp
    rfl

theorem closeAfterShutdown_nil (l : List TEv)
    (h : ∀ (f i j c k : Nat) b t t', f < i → i < j → flipAt l.toArray f = true → l[i]? = some (TEv.mk (.X c k b) t) →
      l[j]? = some (TEv.mk (.R c k false true) t') → False) : closeAfterShutdown l.toArray = [] := by
  unfold closeAfterShutdown
  simp only
  split
  · rfl
  · rename_i f hf
    have hf' := List.find?_some hf
    split
    · rfl
    · rw [List.filterMap_eq_nil_iff]
      intro i _
      split
      · rename_i c k b t heq
        rw [evAt_list] at heq
        split
        · rename_i hc
          simp only [Bool.and_eq_true, decide_eq_true_eq] at hc
          obtain ⟨hfi, hex⟩ := hc
          rw [existsFrom_iff] at hex
          obtain ⟨j, hij, hj⟩ := hex
          obtain ⟨t', hj⟩ := holdsAt_eq.1 hj
          exact (h f i j c k b t t' hfi hij hf' heq hj).elim
        · rfl
      · rfl

theorem lt_firstIdx {l : List TEv} {p : Ev → Bool} {i : Nat} (h : i < (idxOf? l.toArray p).getD l.toArray.size) :
    ∀ j, j < i → ¬ holdsAt l p j := by
  intro j hj hh
  cases hidx : idxOf? l.toArray p with
  | none => exact idxOf?_none hidx j hh
  | some f =>
    rw [hidx] at h
    simp at h
    exact (idxOf?_some hidx).2 j (by omega) hh

theorem noSpuriousClose_nil (l : List TEv)
    (h : ∀ (i c k : Nat) co t, l[i]? = some (TEv.mk (.R c k true co) t) → (∀ j, j < i → ¬ holdsAt l isS j) →
      ∃ (j t' : Nat), j < i ∧ (l[j]? = some (TEv.mk (.Q c k true) t') ∨ l[j]? = some (TEv.mk (.X c k true) t'))) :
    noSpuriousClose l.toArray = [] := by
  unfold noSpuriousClose
  simp only
  rw [List.filterMap_eq_nil_iff]
  intro i hi
  split
  · rename_i c k co t heq
    rw [evAt_list] at heq
    split
    · rename_i hc
      exfalso
      simp only [Bool.and_eq_true, decide_eq_true_eq, Bool.not_eq_true', Bool.or_eq_false_iff] at hc
      obtain ⟨hlt, hnq, hnx⟩ := hc
      have hnoS : ∀ j, j < i → ¬ holdsAt l isS j := fun j hj hh =>
        lt_firstIdx hlt j hj ((holdsAt_congr (fun e => by cases e <;> rfl)).1 hh)
      obtain ⟨j, t', hj, hor⟩ := h i c k co t heq hnoS
      rcases hor with hq | hx
      · have : existsBefore l.toArray i (fun e => e == .Q c k true) = true := by
          rw [existsBefore_iff]; exact ⟨j, hj, holdsAt_eq.2 ⟨t', hq⟩⟩
        simp [this] at hnq
      · have : existsBefore l.toArray i (fun e => e == .X c k true) = true := by
          rw [existsBefore_iff]; exact ⟨j, hj, holdsAt_eq.2 ⟨t', hx⟩⟩
        simp [this] at hnx
    · rfl
  · rfl

theorem idxOf?_of_first {l : List TEv} {p : Ev → Bool} {r : Nat} (hr : holdsAt l p r) (hmin : ∀ j, j < r → ¬ holdsAt l p j) :
    idxOf? l.toArray p = some r := by
  unfold idxOf?
  rw [List.find?_range_eq_some]
  refine ⟨(matchP_iff l p r).2 hr, by simpa using holdsAt_lt hr, fun j hj => ?_⟩
  cases hm : (match evAt l.toArray j with | some e => p e.ev | none => false) with
  | false => exact (Bool.not_eq_true' _).mpr hm
  | true => exact absurd ((matchP_iff l p j).1 hm) (hmin j hj)

theorem existsBefore_getD_false {l : List TEv} {p q : Ev → Bool}
    (h : existsBefore l.toArray ((idxOf? l.toArray p).getD l.toArray.size) q = false) {r : Nat}
    (hr : holdsAt l p r) (hmin : ∀ j, j < r → ¬ holdsAt l p j) : ∀ j, j < r → ¬ holdsAt l q j := by
  intro j hj hh
  rw [idxOf?_of_first hr hmin] at h
  have : existsBefore l.toArray r q = true := (existsBefore_iff l r q).2 ⟨j, hj, hh⟩
  simp [this] at h

theorem noAcceptAfter_nil (l : List TEv)
    (hA : ∀ (w i c : Nat) t, w < i → holdsAt l isTnil w → l[i]? = some (TEv.mk (.A c) t) → False)
    (hD : ∀ (w s i d : Nat) t t', holdsAt l isTnil w → w < s → s < i → l[s]? = some (TEv.mk (.Ds d) t') →
      l[i]? = some (TEv.mk (.De d true) t) → False) : noAcceptAfter l.toArray = [] := by
  unfold noAcceptAfter
  simp only
  split
  · rfl
  · rename_i w hw
    have hw' := (idxOf?_some hw).1
    split
    · rfl
    · rw [List.filterMap_eq_nil_iff]
      intro i _
      split
      · rename_i c t heq
        rw [evAt_list] at heq
        split
        · rename_i hwi; exact (hA w i c t hwi hw' heq).elim
        · rfl
      · rename_i d t heq
        rw [evAt_list] at heq
        split
        · rename_i s hs
          split
          · rename_i hc
            exfalso
            simp only [Bool.and_eq_true, decide_eq_true_eq] at hc
            obtain ⟨hex, hm⟩ := hc
            rw [existsBefore_iff] at hex
            obtain ⟨j, hji, hj⟩ := hex
            obtain ⟨hs1, hs2⟩ := idxOf?_some hs
            obtain ⟨t', hs1⟩ := holdsAt_eq.1 hs1
            have hsj : s ≤ j := by
              rcases Nat.lt_or_ge j s with h | h
              · exact absurd hj (hs2 j h)
              · exact h
            exact hD w s i d t t' hw' hm (by omega) hs1 heq
          · rfl
        · simp
      · rfl

theorem bounded_nil (p : Params) (l : List TEv)
    (h : ∀ (i k ts : Nat), l[i]? = some (TEv.mk (.S k) ts) →
      (∃ (j : Nat) (err : String) (tt : Nat), i < j ∧ l[j]? = some (TEv.mk (.T k err) tt)) ∧
      (∀ (j : Nat) (err : String) (tt : Nat), i < j → l[j]? = some (TEv.mk (.T k err) tt) →
        err ≠ "hang" ∧ tt - ts ≤ p.exitWait + p.tick + p.slack)) : bounded p l.toArray = [] := by
  unfold bounded
  rw [List.filterMap_eq_nil_iff]
  intro i _
  split
  · rename_i k ts heq
    rw [evAt_list] at heq
    obtain ⟨⟨j0, err0, tt0, hij0, hj0⟩, hall⟩ := h i k ts heq
    split
    · rename_i hnone
      exfalso
      rw [List.find?_eq_none] at hnone
      have hlt : j0 < l.length := by
        rcases Nat.lt_or_ge j0 l.length with h | h
        · exact h
        · simp [List.getElem?_eq_none h] at hj0
      apply hnone j0 (by simpa using hlt)
      simp [evAt_list, hj0, hij0]
    · rename_i j hsome
      have hpj := List.find?_some hsome
      simp only [Bool.and_eq_true, decide_eq_true_eq] at hpj
      obtain ⟨hij, hm⟩ := hpj
      split
      · rename_i k' err tt heq2
        rw [heq2] at hm
        simp only [beq_iff_eq] at hm
        subst hm
        rw [evAt_list] at heq2
        obtain ⟨h1, h2⟩ := hall j err tt hij heq2
        simp [h1]
        omega
      · rfl
  · rfl

theorem errOf_some {l : List TEv} {k : Nat} {err : String} (h : errOf l.toArray k = some err) :
    ∃ (r t : Nat), l[r]? = some (TEv.mk (.T k err) t) ∧ (∀ (j : Nat) e t', j < r → l[j]? ≠ some (TEv.mk (.T k e) t')) := by
  unfold errOf at h
  rw [List.findSome?_eq_some_iff] at h
  obtain ⟨l1, a, l2, rfl, ha, hl1⟩ := h
  obtain ⟨ev, t⟩ := a
  cases ev <;> simp at ha
  rename_i k' err'
  obtain ⟨rfl, rfl⟩ := ha
  refine ⟨l1.length, t, by simp, ?_⟩
  intro j e t' hj hh
  rw [List.getElem?_append_left hj] at hh
  have := hl1 _ (List.mem_of_getElem? hh)
  simp at this

theorem timeAt_list {l : List TEv} {i : Nat} {e : TEv} (h : l[i]? = some e) : timeAt l.toArray i = e.t := by
  simp [timeAt, evAt_list, h]

theorem anyRange_iff (n : Nat) (f : Nat → Bool) : (List.range n).any f = true ↔ ∃ j, j < n ∧ f j = true := by
  simp [List.any_eq_true]

theorem errorsReported_nil (p : Params) (l : List TEv)
    (h : ∀ (i k ts : Nat), l[i]? = some (TEv.mk (.S k) ts) → ∀ (r : Nat) (err : String) (tr' : Nat),
      l[r]? = some (TEv.mk (.T k err) tr') → (∀ (j : Nat) e t, j < r → l[j]? ≠ some (TEv.mk (.T k e) t)) →
      ((¬ (∃ j, j < r ∧ holdsAt l (· == .L) j) ∨ (∃ j, j < i ∧ retFlipAt l.toArray j = true)) → err = "notrunning") ∧
      ((∃ j, j < i ∧ holdsAt l (· == .L) j) → (¬ ∃ j, j < i ∧ retFlipAt l.toArray j = true) →
         (¬ ∃ (j k' t : Nat), j < r ∧ k' ≠ k ∧ l[j]? = some (TEv.mk (.S k') t)) →
         err = "nil" ∨ (err = "timeout" ∧ p.maxWait < tr' - ts))) :
    errorsReported p l.toArray = [] := by
  unfold errorsReported
  rw [List.filterMap_eq_nil_iff]
  intro i _
  split
  · rename_i k ts heq
    rw [evAt_list] at heq
    simp only
    split
    · rfl
    · rename_i err herr
      obtain ⟨r, t, hr, hmin⟩ := errOf_some herr
      obtain ⟨h1, h2⟩ := h i k ts heq r err t hr hmin
      have hidx : ∀ q : Ev → Bool, (∀ e, q e = true ↔ ∃ err, e = .T k err) → idxOf? l.toArray q = some r := by
        intro q hq
        apply idxOf?_of_first ⟨_, hr, (hq _).2 ⟨_, rfl⟩⟩
        rintro j hj ⟨⟨ev, t'⟩, he, hp⟩
        obtain ⟨e', rfl⟩ := (hq _).1 hp
        exact hmin j _ t' hj he
      split
      · rename_i hc
        exfalso
        rw [hidx _ (fun e => ?hq)] at hc
        case hq => cases e <;> simp
        simp only [Option.getD_some, Bool.and_eq_true, Bool.or_eq_true, Bool.not_eq_true', bne_iff_ne, ne_eq] at hc
        obtain ⟨hc1, hc2⟩ := hc
        apply hc2
        apply h1
        rcases hc1 with hc1 | hc1
        · left
          rw [← existsBefore_iff]
          simp [hc1]
        · right
          exact (anyRange_iff _ _).1 hc1
      · split
        · rename_i hc
          exfalso
          rw [hidx _ (fun e => ?hq)] at hc
          case hq => cases e <;> simp
          simp only [Option.getD_some, timeAt_list hr, Bool.and_eq_true, Bool.not_eq_true', bne_iff_ne, ne_eq] at hc
          obtain ⟨⟨⟨⟨hc1, hc2⟩, hc3⟩, hc4⟩, hc5⟩ := hc
          have := h2 ((existsBefore_iff _ _ _).1 hc1)
            (by intro hh; rw [(anyRange_iff _ _).2 hh] at hc2; simp at hc2)
            (by
              rintro ⟨j, k', t', hj, hk, he⟩
              rw [Bool.eq_false_iff] at hc3
              exact hc3 ((existsBefore_iff _ _ _).2 ⟨j, hj, _, he, by simpa using hk⟩))
          rcases this with h | ⟨h, h'⟩
          · exact hc4 h
          · subst h
            simp at hc5
            omega
        · rfl
  · rfl

theorem hooksRun_nil (p : Params) (l : List TEv)
    (hA : ∀ w, holdsAt l isTnil w → ∀ j, j < p.nHooks → ∃ i, holdsAt l (· == .HS j) i)
    (hB : ∀ (w k tw s ts : Nat), l[w]? = some (TEv.mk (.T k "nil") tw) → l[s]? = some (TEv.mk (.S k) ts) →
      tw - ts + 2000 < p.exitWait →
      (∀ j, j < p.nHooks → ∃ i, i < w ∧ holdsAt l (· == .HE j) i) ∧
      (∀ (i c q : Nat) rc t, i < w → l[i]? = some (TEv.mk (.Q c q rc) t) →
        ∃ (i' : Nat) (b : Bool) (t' : Nat), i' < w ∧ l[i']? = some (TEv.mk (.X c q b) t'))) :
    hooksRun p l.toArray = [] := by
  unfold hooksRun
  simp only
  split
  · rfl
  · rename_i w hw
    have hw' := lastIdxOf?_some hw
    split
    · rfl
    · have hmiss : (List.range p.nHooks).filter (fun j => !existsBefore l.toArray l.toArray.size (· == .HS j)) = [] := by
        rw [List.filter_eq_nil_iff]
        intro j hj
        obtain ⟨i, hi⟩ := hA w hw' j (by simpa using hj)
        have : existsBefore l.toArray l.toArray.size (· == .HS j) = true :=
          (existsBefore_iff _ _ _).2 ⟨i, by simpa using holdsAt_lt hi, hi⟩
        simpa using this
      rw [hmiss]
      obtain ⟨k, tw, hwk⟩ := holdsAt_isTnil.1 hw'
      split
      · rfl
      · rename_i s hs
        unfold winnerCall at hs
        rw [evAt_list, hwk] at hs
        simp only at hs
        obtain ⟨ts, hsk⟩ := holdsAt_eq.1 (idxOf?_some hs).1
        rw [timeAt_list hwk, timeAt_list hsk]
        simp only [List.map_nil, List.nil_append]
        split
        · rfl
        · rename_i hearly
          have hearly : tw - ts + 2000 < p.exitWait := by simpa using hearly
          obtain ⟨hb, hc⟩ := hB w k tw s ts hwk hsk hearly
          have e1 : (List.range p.nHooks).filterMap (fun j =>
              if existsBefore l.toArray w (· == .HE j) then none
              else some s!"hooks_waited: Shutdown returned before the deadline while hook {j} was still running") = [] := by
            rw [List.filterMap_eq_nil_iff]
            intro j hj
            obtain ⟨i, hi, hh⟩ := hb j (by simpa using hj)
            have : existsBefore l.toArray w (· == .HE j) = true := (existsBefore_iff _ _ _).2 ⟨i, hi, hh⟩
            simp [this]
          rw [e1]
          simp only [List.nil_append]
          rw [List.filterMap_eq_nil_iff]
          intro i hi
          split
          · rename_i c q rc t heq
            rw [evAt_list] at heq
            obtain ⟨i', b, t', hi', hx⟩ := hc i c q rc t (by simpa using hi) heq
            have : existsBefore l.toArray w (fun e => e == .X c q true || e == .X c q false) = true := by
              rw [existsBefore_iff]
              refine ⟨i', hi', _, hx, ?_⟩
              cases b <;> simp
            simp [this]
          · rfl

end Hertz.ShutdownSpec

/-! ## the observable projection of a run of the interleaving model -/
namespace Hertz.Shutdown
open Hertz.ShutdownSpec (Ev TEv)

def errStr : Err → String
  | .nil => "nil"
  | .notRunning => "notrunning"
  | .timeout => "timeout"

/-- what the test harness records when the model takes step `a` in state `s` (the inverse of
`Hertz.Driver.C18.obsActs`); every other step is unobservable -/
def obsAct (s : State) : Act → Option Ev
  | .listen => some .L
  | .dialStart => some (.Ds s.dials.length)
  | .dialEnd i ok => some (.De i ok)
  | .accept => some (.A s.conns.length)
  | .reqArrive c rc => (s.conns[c]?).map fun cn => .Q c cn.started rc
  | .handlerRet c b => (s.conns[c]?).map fun cn => .X c (cn.started - 1) b
  | .clientRead c cl => (s.conns[c]?).map fun cn => .R c cn.acked cl true
  | .badReq c => some (.B c)
  | .peerClose c => some (.C c)
  | .clientEof c => some (.E c)
  | .shutCall => some (.S s.callers.length)
  | .callerRet k e => some (.T k (errStr e))
  | .hookStart j => some (.HS j)
  | .hookEnd j => some (.HE j)
  | _ => none

def obsStep (s : State) (a : Act) : List TEv :=
  match obsAct s a with
  | some e => [⟨e, s.now⟩]
  | none => []

/-- the observed event sequence of a run (time stamp = model clock at the step) -/
def obsRun (cfg : Cfg) : State → List Act → List TEv
  | _, [] => []
  | s, a :: t =>
    match step cfg s a with
    | none => []
    | some s' => obsStep s a ++ obsRun cfg s' t

/-- every step taken by the run satisfies the scheduling / environment discipline `ok` -/
def allOk (ok : State → Act → Bool) (cfg : Cfg) : State → List Act → Bool
  | _, [] => true
  | s, a :: t => ok s a && match step cfg s a with
    | none => true
    | some s' => allOk ok cfg s' t

/-- the connection-local steps: index and the function applied to the connection record -/
def connAct (s : State) : Act → Option (Nat × (Conn → Option Conn))
  | .reqArrive c rc => some (c, cReqArrive rc)
  | .handlerRet c b => some (c, cHandlerRet b (decide (stShutdown ≤ s.status)))
  | .exitCheck c => some (c, cExitCheck (isRunning s))
  | .writeResp c => some (c, cWriteResp)
  | .connDrop c => some (c, cConnDrop)
  | .badReq c => some (c, cBadReq)
  | .peerClose c => some (c, cPeerClose)
  | .clientRead c cl => some (c, cClientRead cl)
  | .clientEof c => some (c, cClientEof)
  | .npCloseIdle c => some (c, cNpClose)
  | _ => none

/-- `step` as a relation with the successor state spelled out, one constructor per branch -/
inductive Step (cfg : Cfg) (s : State) : Act → State → Prop
  | advance (d : Nat) : Step cfg s (.advance d) { s with now := s.now + d }
  | initOk : s.runPh = .fresh → s.status = 0 → Step cfg s .init { s with status := stInitialized, runPh := .inited }
  | initFail : s.runPh = .fresh → s.status ≠ 0 → Step cfg s .init { s with runPh := .exited }
  | markOk : s.runPh = .inited → s.status = stInitialized → Step cfg s .markRunning { s with status := stRunning, runPh := .marked }
  | markFail : s.runPh = .inited → s.status ≠ stInitialized → Step cfg s .markRunning { s with runPh := .exited }
  | listen : s.runPh = .marked → Step cfg s .listen { s with lnSet := true, lnOpen := true, runPh := .serving }
  | accept : s.runPh = .serving → s.lnOpen = true →
      Step cfg s .accept { s with conns := s.conns ++ [{}], active := s.active + 1,
                                  lateAccepts := s.lateAccepts + (if postClose s.win then 1 else 0) }
  | acceptFail : s.runPh = .serving → s.lnOpen = false → Step cfg s .acceptFail { s with runPh := .acceptFailed }
  | runReturn : s.runPh = .acceptFailed → Step cfg s .runReturn { s with status := stClosed, runPh := .exited }
  | conn (a : Act) (c : Nat) (f : Conn → Option Conn) (cn cn' : Conn) : connAct s a = some (c, f) →
      s.conns[c]? = some cn → f cn = some cn' → (∀ c', a = .npCloseIdle c' → cfg.netpoll = true ∧ postClose s.win = true) →
      Step cfg s a { s with conns := s.conns.set c cn' }
  | connGone (c : Nat) (cn cn' : Conn) : s.conns[c]? = some cn → cGone cn = some cn' →
      Step cfg s (.connGone c) { s with conns := s.conns.set c cn', active := s.active - 1 }
  | dialStart : Step cfg s .dialStart { s with dials := s.dials ++ [none] }
  | dialProbe (i : Nat) : s.dials[i]? = some none → Step cfg s (.dialProbe i) { s with dials := s.dials.set i (some s.lnOpen) }
  | dialEnd (i : Nat) (ok : Bool) : s.dials[i]? = some (some ok) → Step cfg s (.dialEnd i ok) s
  | shutCall : Step cfg s .shutCall { s with callers := s.callers ++ [.called] }
  | shutLoad (k : Nat) : s.callers[k]? = some .called →
      Step cfg s (.shutLoad k) { s with callers := s.callers.set k (if s.status = stRunning then .loaded else .returned .notRunning) }
  | casWin (k : Nat) : s.callers[k]? = some .loaded → s.status = stRunning →
      Step cfg s (.shutCas k) { s with status := stShutdown, callers := s.callers.set k .winner, win := .pre, winK := k, tcas := s.now }
  | casLose (k : Nat) : s.callers[k]? = some .loaded → s.status ≠ stRunning →
      Step cfg s (.shutCas k) { s with callers := s.callers.set k (.returned .notRunning) }
  | spawn : s.win = .pre →
      Step cfg s .shutSpawn { s with dl := s.now + cfg.exitWait, hooks := s.hooks.map spawnHook, win := .closeLn }
  | closeLn : s.win = .closeLn →
      Step cfg s .shutCloseLn { s with lnOpen := if s.lnSet then false else s.lnOpen, lnSkipped := !s.lnSet,
                                       nextTick := s.now + cfg.tick, win := .wait1 }
  | tick1 : s.win = .wait1 → s.nextTick ≤ s.now →
      Step cfg s .shutTick1 { s with nextTick := s.nextTick + cfg.tick,
                                     win := if s.active ≤ 0 then .deferred .nil else .loop s.now }
  | tickLoop (t0 : Nat) : s.win = .loop t0 → s.nextTick ≤ s.now →
      Step cfg s .shutTickLoop { s with nextTick := s.nextTick + cfg.tick,
                                        win := if s.active ≤ 0 then .deferred .nil
                                               else if cfg.maxWait < s.now - t0 then .deferred .timeout else .loop t0 }
  | ctxDone (t0 : Nat) : s.win = .loop t0 → s.dl ≤ s.now → Step cfg s .shutCtxDone { s with win := .deferred .nil }
  | finish (e : Err) : s.win = .deferred e → (s.dl ≤ s.now ∨ hooksDone s = true) →
      Step cfg s .shutFinish { s with win := .returned e s.now, callers := s.callers.map (winnerRet e) }
  | callerRet (k : Nat) (e : Err) : s.callers[k]? = some (.returned e) →
      Step cfg s (.callerRet k e) { s with callers := s.callers.set k (.finished e) }
  | hookStart (j : Nat) : s.hooks[j]? = some .spawned → Step cfg s (.hookStart j) { s with hooks := s.hooks.set j .running }
  | hookEnd (j : Nat) : s.hooks[j]? = some .running → Step cfg s (.hookEnd j) { s with hooks := s.hooks.set j .done }

set_option maxHeartbeats 1000000 in
theorem step_Step (cfg : Cfg) {s s' : State} {a : Act} (h : step cfg s a = some s') : Step cfg s a s' := by
  cases a <;> simp only [step] at h
  case advance d => simp at h; subst h; exact .advance d
  case init =>
    split at h <;> try (simp at h; done)
    split at h <;> (simp at h; subst h)
    · exact .initOk ‹_› ‹_›
    · exact .initFail ‹_› ‹_›
  case markRunning =>
    split at h <;> try (simp at h; done)
    split at h <;> (simp at h; subst h)
    · exact .markOk ‹_› ‹_›
    · exact .markFail ‹_› ‹_›
  case listen => split at h <;> simp at h; subst h; exact .listen ‹_›
  case accept => split at h <;> simp at h; subst h; rename_i hr; exact .accept hr.1 hr.2
  case acceptFail => split at h <;> simp at h; subst h; rename_i hr; exact .acceptFail hr.1 hr.2
  case runReturn => split at h <;> simp at h; subst h; exact .runReturn ‹_›
  case reqArrive c rc => obtain ⟨cn, cn', hc, hf, rfl⟩ := updConn_some h; exact .conn _ c _ cn cn' rfl hc hf (by simp)
  case handlerRet c b => obtain ⟨cn, cn', hc, hf, rfl⟩ := updConn_some h; exact .conn _ c _ cn cn' rfl hc hf (by simp)
  case exitCheck c => obtain ⟨cn, cn', hc, hf, rfl⟩ := updConn_some h; exact .conn _ c _ cn cn' rfl hc hf (by simp)
  case writeResp c => obtain ⟨cn, cn', hc, hf, rfl⟩ := updConn_some h; exact .conn _ c _ cn cn' rfl hc hf (by simp)
  case connDrop c => obtain ⟨cn, cn', hc, hf, rfl⟩ := updConn_some h; exact .conn _ c _ cn cn' rfl hc hf (by simp)
  case badReq c => obtain ⟨cn, cn', hc, hf, rfl⟩ := updConn_some h; exact .conn _ c _ cn cn' rfl hc hf (by simp)
  case peerClose c => obtain ⟨cn, cn', hc, hf, rfl⟩ := updConn_some h; exact .conn _ c _ cn cn' rfl hc hf (by simp)
  case clientRead c cl => obtain ⟨cn, cn', hc, hf, rfl⟩ := updConn_some h; exact .conn _ c _ cn cn' rfl hc hf (by simp)
  case clientEof c => obtain ⟨cn, cn', hc, hf, rfl⟩ := updConn_some h; exact .conn _ c _ cn cn' rfl hc hf (by simp)
  case npCloseIdle c =>
    split at h <;> try (simp at h; done)
    rename_i hg
    obtain ⟨cn, cn', hc, hf, rfl⟩ := updConn_some h
    exact .conn _ c _ cn cn' rfl hc hf (by intro c' _; exact hg)
  case connGone c =>
    simp only [Option.map_eq_some_iff] at h
    obtain ⟨s1, h1, rfl⟩ := h
    obtain ⟨cn, cn', hc, hf, rfl⟩ := updConn_some h1
    exact .connGone c cn cn' hc hf
  case dialStart => simp at h; subst h; exact .dialStart
  case dialProbe i => split at h <;> simp at h; subst h; exact .dialProbe i ‹_›
  case dialEnd i ok =>
    split at h <;> try (simp at h; done)
    split at h <;> simp at h
    subst h; rename_i r hd hr; subst hr; exact .dialEnd i r hd
  case shutCall => simp at h; subst h; exact .shutCall
  case shutLoad k =>
    obtain ⟨p, p', hk, hf, rfl⟩ := updCaller_some h
    split at hf <;> simp at hf
    subst hf
    exact .shutLoad k hk
  case shutCas k =>
    split at h <;> try (simp at h; done)
    split at h <;> (simp at h; subst h)
    · exact .casWin k ‹_› ‹_›
    · exact .casLose k ‹_› ‹_›
  case shutSpawn => split at h <;> simp at h; subst h; exact .spawn ‹_›
  case shutCloseLn =>
    split at h
    · injection h with h; subst h; exact .closeLn ‹_›
    · simp at h
  case shutTick1 =>
    split at h <;> try (simp at h; done)
    split at h <;> simp at h
    subst h; exact .tick1 ‹_› ‹_›
  case shutTickLoop =>
    split at h <;> try (simp at h; done)
    split at h <;> simp at h
    subst h; exact .tickLoop _ ‹_› ‹_›
  case shutCtxDone =>
    split at h <;> try (simp at h; done)
    split at h <;> simp at h
    subst h; exact .ctxDone _ ‹_› ‹_›
  case shutFinish =>
    split at h <;> try (simp at h; done)
    split at h <;> simp at h
    subst h; exact .finish _ ‹_› ‹_›
  case callerRet k e =>
    obtain ⟨p, p', hk, hf, rfl⟩ := updCaller_some h
    split at hf <;> try (simp at hf; done)
    split at hf <;> simp at hf
    subst hf; rename_i e' he; subst he
    exact .callerRet k e' hk
  case hookStart j =>
    obtain ⟨p, p', hk, hf, rfl⟩ := updHook_some h
    split at hf <;> simp at hf
    subst hf; exact .hookStart j hk
  case hookEnd j =>
    obtain ⟨p, p', hk, hf, rfl⟩ := updHook_some h
    split at hf <;> simp at hf
    subst hf; exact .hookEnd j hk

/-! ### runs: concatenation, splitting at an observed event -/

theorem run_append (cfg : Cfg) : ∀ (a1 a2 : List Act) (s : State),
    run cfg s (a1 ++ a2) = (run cfg s a1).bind fun s1 => run cfg s1 a2
  | [], a2, s => by simp [run]
  | a :: t, a2, s => by
    simp only [List.cons_append, run]
    cases step cfg s a with
    | none => simp
    | some s' => simpa using run_append cfg t a2 s'

theorem obsRun_append (cfg : Cfg) : ∀ (a1 a2 : List Act) {s s1 : State}, run cfg s a1 = some s1 →
    obsRun cfg s (a1 ++ a2) = obsRun cfg s a1 ++ obsRun cfg s1 a2
  | [], a2, s, s1, h => by simp [run] at h; subst h; simp [obsRun]
  | a :: t, a2, s, s1, h => by
    simp only [List.cons_append, obsRun, run] at h ⊢
    cases hs : step cfg s a with
    | none => simp [hs] at h
    | some s' =>
      simp only [hs] at h ⊢
      rw [obsRun_append cfg t a2 h, List.append_assoc]

theorem allOk_append (ok : State → Act → Bool) (cfg : Cfg) : ∀ (a1 a2 : List Act) {s s1 : State}, run cfg s a1 = some s1 →
    allOk ok cfg s (a1 ++ a2) = (allOk ok cfg s a1 && allOk ok cfg s1 a2)
  | [], a2, s, s1, h => by simp [run] at h; subst h; simp [allOk]
  | a :: t, a2, s, s1, h => by
    simp only [List.cons_append, allOk, run] at h ⊢
    cases hs : step cfg s a with
    | none => simp [hs] at h
    | some s' =>
      simp only [hs] at h ⊢
      rw [allOk_append ok cfg t a2 h, Bool.and_assoc]

/-- the run, cut at the step that produced the observed event number `i` -/
structure SplitAt (cfg : Cfg) (ok : State → Act → Bool) (s sF : State) (acts : List Act) (i : Nat) (e : TEv)
    (acts1 : List Act) (a : Act) (acts2 : List Act) (s1 s1' : State) : Prop where
  eq : acts = acts1 ++ a :: acts2
  run1 : run cfg s acts1 = some s1
  ok1 : allOk ok cfg s acts1 = true
  oka : ok s1 a = true
  st : step cfg s1 a = some s1'
  run2 : run cfg s1' acts2 = some sF
  ok2 : allOk ok cfg s1' acts2 = true
  ev : obsAct s1 a = some e.ev
  tm : e.t = s1.now
  len : (obsRun cfg s acts1).length = i
  tr : obsRun cfg s acts = obsRun cfg s acts1 ++ e :: obsRun cfg s1' acts2

theorem obsStep_length_le (s : State) (a : Act) : (obsStep s a).length ≤ 1 := by
  unfold obsStep; split <;> simp

theorem obsRun_split (cfg : Cfg) (ok : State → Act → Bool) : ∀ (acts : List Act) {s sF : State} {i : Nat} {e : TEv},
    run cfg s acts = some sF → allOk ok cfg s acts = true → (obsRun cfg s acts)[i]? = some e →
    ∃ acts1 a acts2 s1 s1', SplitAt cfg ok s sF acts i e acts1 a acts2 s1 s1'
  | [], s, sF, i, e, _, _, h => by simp [obsRun] at h
  | a :: t, s, sF, i, e, hr, hok, h => by
    simp only [run] at hr
    simp only [allOk, Bool.and_eq_true] at hok
    cases hs : step cfg s a with
    | none => simp [hs] at hr
    | some s' =>
      simp only [hs] at hr hok
      have htr : obsRun cfg s (a :: t) = obsStep s a ++ obsRun cfg s' t := by simp [obsRun, hs]
      rw [htr] at h
      by_cases hi : i < (obsStep s a).length
      · -- the event is the one of this step
        rw [List.getElem?_append_left hi] at h
        unfold obsStep at h hi
        cases ho : obsAct s a with
        | none => simp [ho] at hi
        | some ev =>
          simp only [ho] at h hi
          have hi0 : i = 0 := by simpa using hi
          subst hi0
          simp at h
          subst h
          refine ⟨[], a, t, s, s', ⟨rfl, rfl, rfl, hok.1, hs, hr, hok.2, ho, rfl, rfl, ?_⟩⟩
          simp [obsRun, hs, obsStep, ho]
      · have hi' : (obsStep s a).length ≤ i := Nat.le_of_not_lt hi
        rw [List.getElem?_append_right hi'] at h
        obtain ⟨acts1, a', acts2, s1, s1', sp⟩ := obsRun_split cfg ok t hr hok.2 h
        refine ⟨a :: acts1, a', acts2, s1, s1', ⟨by simp [sp.eq], by simp [run, hs, sp.run1], ?_, sp.oka, sp.st, sp.run2, sp.ok2,
          sp.ev, sp.tm, ?_, ?_⟩⟩
        · simp [allOk, hs, hok.1, sp.ok1]
        · simp only [obsRun, hs, List.length_append, sp.len]; omega
        · rw [htr, sp.tr]; simp [obsRun, hs]

/-- lifting a step-invariant over `(state, events so far)` to runs -/
theorem run_traceInv (cfg : Cfg) (ok : State → Act → Bool) (J : State → List TEv → Prop)
    (hstep : ∀ s tr a s', J s tr → ok s a = true → step cfg s a = some s' → J s' (tr ++ obsStep s a)) :
    ∀ (acts : List Act) {s sF : State} {tr : List TEv}, J s tr → run cfg s acts = some sF → allOk ok cfg s acts = true →
      J sF (tr ++ obsRun cfg s acts)
  | [], s, sF, tr, hJ, hr, _ => by simp [run] at hr; subst hr; simpa [obsRun] using hJ
  | a :: t, s, sF, tr, hJ, hr, hok => by
    simp only [run] at hr
    simp only [allOk, Bool.and_eq_true] at hok
    cases hs : step cfg s a with
    | none => simp [hs] at hr
    | some s' =>
      simp only [hs] at hr hok
      have := run_traceInv cfg ok J hstep t (hstep s tr a s' hJ hok.1 hs) hr hok.2
      simpa [obsRun, hs, List.append_assoc] using this

end Hertz.Shutdown
