import Hertz.Proofs.RouteAdd
/-!
C06, engine level: every list of routes that `Engine.addRoutes` accepts yields an engine whose
method trees are well formed and denote exactly the registered routes, and `Engine.serve` runs the
handler the priority rule of `Spec.Route` selects.
-/
namespace Hertz.Route
open Hertz.Spec.Route

def toSpec (rs : List (Bytes × Bytes × Nat)) : List Spec.Route.Route := rs.map (fun r => ⟨r.1, r.2.1, r.2.2⟩)

/-- `EngineOK` with the capacity as a parameter -/
def EngineOKc (e : Engine) (cap : Nat) (rs : List Spec.Route.Route) : Prop :=
  (e.trees.map (·.method)).Nodup ∧
  (∀ t ∈ e.trees, WF t.root .skind ∧ t.root.pfx.head? = some 47 ∧ PnOK t.root 0 cap ∧ Denotes t.root rs t.method) ∧
  (∀ r ∈ rs, ∃ t ∈ e.trees, t.method = r.method)

/-- every method tree is OK for capacity `e.maxParams`, holds exactly the routes of its method, tree
methods are pairwise distinct, and every registered route's method has a tree -/
def EngineOK (e : Engine) (rs : List Spec.Route.Route) : Prop :=
  (e.trees.map (·.method)).Nodup ∧
  (∀ t ∈ e.trees, WF t.root .skind ∧ t.root.pfx.head? = some 47 ∧ PnOK t.root 0 e.maxParams ∧ Denotes t.root rs t.method) ∧
  (∀ r ∈ rs, ∃ t ∈ e.trees, t.method = r.method)

theorem EngineOK_iff (e : Engine) (rs : List Spec.Route.Route) : EngineOK e rs ↔ EngineOKc e e.maxParams rs := Iff.rfl

/-- two routes do not share method and key -/
def Distinct (r r' : Spec.Route.Route) : Prop := ¬ (r.method = r'.method ∧ keyOf r = keyOf r')

/-! ## `treesGet`, `treesSet` -/

theorem treesGet_some : ∀ (ts : List Router) (m : Bytes) (t : Router), treesGet ts m = some t → t ∈ ts ∧ t.method = m
  | [], _, _, h => by simp [treesGet] at h
  | t0 :: r, m, t, h => by
    simp only [treesGet] at h
    split at h
    · cases h; exact ⟨by simp, by assumption⟩
    · have := treesGet_some r m t h
      exact ⟨List.mem_cons_of_mem _ this.1, this.2⟩

theorem treesGet_none : ∀ (ts : List Router) (m : Bytes), treesGet ts m = none → ∀ t ∈ ts, t.method ≠ m
  | [], _, _ => by simp
  | t0 :: r, m, h => by
    simp only [treesGet] at h
    split at h
    · cases h
    · intro t ht
      rcases List.mem_cons.1 ht with rfl | ht
      · assumption
      · exact treesGet_none r m h t ht

theorem treesGet_of_mem : ∀ (ts : List Router) (m : Bytes), m ∈ ts.map (·.method) → ∃ t, treesGet ts m = some t
  | [], _, h => by simp at h
  | t0 :: r, m, h => by
    simp only [treesGet]
    by_cases h0 : t0.method = m
    · simp [h0]
    · simp only [h0, if_false]
      apply treesGet_of_mem r m
      simp only [List.map_cons, List.mem_cons] at h
      rcases h with h | h
      · exact absurd h.symm h0
      · exact h

theorem treesSet_methods : ∀ (ts : List Router) (m : Bytes) (n : Node),
    (treesSet ts m n).map (·.method) = ts.map (·.method)
  | [], _, _ => rfl
  | t0 :: r, m, n => by
    simp only [treesSet]
    split
    · simp
    · simp [treesSet_methods r m n]

theorem treesSet_mem : ∀ (ts : List Router) (m : Bytes) (n : Node), (ts.map (·.method)).Nodup →
    ∀ t', t' ∈ treesSet ts m n → (t' ∈ ts ∧ t'.method ≠ m) ∨ (t'.method = m ∧ t'.root = n)
  | [], _, _, _, t', h => by simp [treesSet] at h
  | t0 :: r, m, n, hnd, t', h => by
    simp only [List.map_cons, List.nodup_cons] at hnd
    simp only [treesSet] at h
    split at h
    · rename_i h0
      rcases List.mem_cons.1 h with rfl | h
      · exact Or.inr ⟨h0, rfl⟩
      · left
        refine ⟨List.mem_cons_of_mem _ h, ?_⟩
        intro hm
        apply hnd.1
        rw [h0, ← hm]
        exact List.mem_map.2 ⟨t', h, rfl⟩
    · rename_i h0
      rcases List.mem_cons.1 h with rfl | h
      · exact Or.inl ⟨by simp, h0⟩
      · rcases treesSet_mem r m n hnd.2 t' h with ⟨h1, h2⟩ | h1
        · exact Or.inl ⟨List.mem_cons_of_mem _ h1, h2⟩
        · exact Or.inr h1

/-! ## one registration -/

theorem addRoute_ok_inv (e : Engine) (m p : Bytes) (h : Nat) (e' : Engine) (hadd : e.addRoute m p h = .ok e') :
    ∃ trees0 root root',
      ((∃ t, treesGet e.trees m = some t ∧ trees0 = e.trees ∧ root = t.root) ∨
       (treesGet e.trees m = none ∧ trees0 = e.trees ++ [⟨m, Node.empty⟩] ∧ root = Node.empty)) ∧
      routerAddRoute root p h = .ok root' ∧
      e' = ⟨treesSet trees0 m root', max e.maxParams (countParams p)⟩ := by
  unfold Engine.addRoute at hadd
  cases p with
  | nil => simp at hadd
  | cons c r =>
    simp only at hadd
    split at hadd
    · cases hadd
    · split at hadd
      · cases hadd
      · cases hg : treesGet e.trees m with
        | none =>
          rw [hg] at hadd
          simp only at hadd
          cases hr : routerAddRoute Node.empty (c :: r) h with
          | error f => rw [hr] at hadd; cases hadd
          | ok root' =>
            rw [hr] at hadd
            simp only [Except.ok.injEq] at hadd
            exact ⟨_, _, root', Or.inr ⟨rfl, rfl, rfl⟩, hr, hadd.symm⟩
        | some t =>
          rw [hg] at hadd
          simp only at hadd
          cases hr : routerAddRoute t.root (c :: r) h with
          | error f => rw [hr] at hadd; cases hadd
          | ok root' =>
            rw [hr] at hadd
            simp only [Except.ok.injEq] at hadd
            exact ⟨_, _, root', Or.inl ⟨t, rfl, rfl, rfl⟩, hr, hadd.symm⟩

theorem denotes_other (root : Node) (rs : List Spec.Route.Route) (m : Bytes) (r0 : Spec.Route.Route)
    (hd : Denotes root rs m) (hm : r0.method ≠ m) : Denotes root (rs ++ [r0]) m := by
  intro kv; rw [hd kv]
  constructor
  · rintro ⟨r, hr, h1, h2⟩; exact ⟨r, List.mem_append_left _ hr, h1, h2⟩
  · rintro ⟨r, hr, h1, h2⟩
    rcases List.mem_append.1 hr with hr | hr
    · exact ⟨r, hr, h1, h2⟩
    · simp at hr; subst hr; exact absurd h1 hm

/-- one successful `Engine.addRoute`: the invariant is kept for every capacity that covers the
old one and the wildcards of the new path, and the new route's key was free -/
theorem addRoute_step (e : Engine) (cap : Nat) (rs : List Spec.Route.Route) (m p : Bytes) (h : Nat) (e' : Engine)
    (hok : EngineOKc e cap rs) (hadd : e.addRoute m p h = .ok e') (cap' : Nat) (hcc : cap ≤ cap')
    (hcp : p.count 58 + p.count 42 ≤ cap') :
    EngineOKc e' cap' (rs ++ [⟨m, p, h⟩]) ∧ (∀ r ∈ rs, Distinct r ⟨m, p, h⟩) ∧
      e'.maxParams = max e.maxParams (countParams p) := by
  obtain ⟨hnd, htrees, hcover⟩ := hok
  obtain ⟨trees0, root, root', hcase, hrun, he'⟩ := addRoute_ok_inv e m p h e' hadd
  -- the common facts about `trees0` and `root`
  have hfacts : (trees0.map (·.method)).Nodup ∧ m ∈ trees0.map (·.method) ∧
      (∀ t ∈ trees0, t.method ≠ m → t ∈ e.trees) ∧ (∀ t ∈ e.trees, t ∈ trees0) ∧
      RootOK root cap' ∧ Denotes root rs m := by
    rcases hcase with ⟨t, hg, rfl, rfl⟩ | ⟨hg, rfl, rfl⟩
    · obtain ⟨htm, hmm⟩ := treesGet_some _ _ _ hg
      obtain ⟨h1, h2, h3, h4⟩ := htrees t htm
      refine ⟨hnd, List.mem_map.2 ⟨t, htm, hmm⟩, fun t ht _ => ht, fun t ht => ht,
        Or.inr ⟨h1, h2, pnok_mono _ _ _ _ h3 hcc⟩, hmm ▸ h4⟩
    · have hno := treesGet_none _ _ hg
      refine ⟨?_, by simp, ?_, fun t ht => List.mem_append_left _ ht, Or.inl rfl, ?_⟩
      · rw [List.map_append, List.nodup_append]
        refine ⟨hnd, by simp, ?_⟩
        intro a ha b hb
        simp at hb; subst hb
        obtain ⟨t, ht, rfl⟩ := List.mem_map.1 ha
        exact hno t ht
      · intro t ht hne
        rcases List.mem_append.1 ht with ht | ht
        · exact ht
        · simp at ht; subst ht; exact absurd rfl hne
      · intro kv; rw [routes_empty]
        constructor
        · intro hk; cases hk
        · rintro ⟨r, hr, hrm, -⟩
          obtain ⟨t, ht, htm⟩ := hcover r hr
          exact absurd (htm.trans hrm) (hno t ht)
  obtain ⟨hnd0, hm0, hsub, hsup, hroot, hden⟩ := hfacts
  rcases routerAddRoute_spec root p h cap' hroot hcp with ⟨-, hr⟩ | ⟨-, -, hr⟩ | ⟨-, hK, root'', hr, hwf', hhead', hpn', hrt⟩
  · rw [hr] at hrun; cases hrun
  · rw [hr] at hrun; cases hrun
  rw [hr] at hrun
  cases hrun
  subst he'
  refine ⟨⟨?_, ?_, ?_⟩, ?_, rfl⟩
  · show ((treesSet trees0 m root').map (·.method)).Nodup
    rw [treesSet_methods]; exact hnd0
  · intro t' ht'
    rcases treesSet_mem trees0 m root' hnd0 t' ht' with ⟨h1, h2⟩ | ⟨h1, h2⟩
    · obtain ⟨a1, a2, a3, a4⟩ := htrees t' (hsub t' h1 h2)
      exact ⟨a1, a2, pnok_mono _ _ _ _ a3 hcc, denotes_other _ _ _ _ a4 (fun hx => h2 hx.symm)⟩
    · rw [h2, h1]
      refine ⟨hwf', hhead', hpn', ?_⟩
      intro kv; rw [hrt kv, hden kv]
      constructor
      · rintro (⟨r, hr, hrm, hkv⟩ | hkv)
        · exact ⟨r, List.mem_append_left _ hr, hrm, hkv⟩
        · exact ⟨⟨m, p, h⟩, by simp, rfl, hkv⟩
      · rintro ⟨r, hr, hrm, hkv⟩
        rcases List.mem_append.1 hr with hr | hr
        · exact Or.inl ⟨r, hr, hrm, hkv⟩
        · simp at hr; subst hr; exact Or.inr hkv
  · intro r hr
    have hin : r.method ∈ (treesSet trees0 m root').map (·.method) := by
      rw [treesSet_methods]
      rcases List.mem_append.1 hr with hr | hr
      · obtain ⟨t, ht, htm⟩ := hcover r hr
        exact List.mem_map.2 ⟨t, hsup t ht, htm⟩
      · simp at hr; subst hr; exact hm0
    obtain ⟨t, ht, htm⟩ := List.mem_map.1 hin
    exact ⟨t, ht, htm⟩
  · intro r hr ⟨hrm, hk⟩
    apply hK
    have : (keyOf r, valOf r) ∈ routes root := (hden _).2 ⟨r, hr, hrm, rfl⟩
    have hk' : keyOf r = strip (parsePattern p) := hk
    rw [← hk']
    exact List.mem_map.2 ⟨_, this, rfl⟩

/-! ## lists of registrations -/

theorem count_wild_le (p : Bytes) : p.count 58 + p.count 42 ≤ p.length := by
  induction p with
  | nil => simp
  | cons c r ih =>
    simp only [List.count_cons, List.length_cons]
    by_cases h1 : c = 58
    · subst h1; simp; omega
    · by_cases h2 : c = 42
      · subst h2; simp; omega
      · simp [h1, h2]; omega

theorem countParams_eq (p : Bytes) (h : p.length < 65536) : countParams p = p.count 58 + p.count 42 := by
  have := count_wild_le p
  simp only [countParams, paramLabel, anyLabel]
  omega

theorem toSpec_cons (m p : Bytes) (h : Nat) (r : List (Bytes × Bytes × Nat)) :
    toSpec ((m, p, h) :: r) = ⟨m, p, h⟩ :: toSpec r := rfl

theorem addRoutes_ok_gen (rs : List (Bytes × Bytes × Nat)) : ∀ (e0 e : Engine) (rs0 : List Spec.Route.Route),
    EngineOK e0 rs0 → (∀ r ∈ rs, r.2.1.length < 65536) → Engine.addRoutes e0 rs = .ok e →
    EngineOK e (rs0 ++ toSpec rs) := by
  induction rs with
  | nil =>
    intro e0 e rs0 hok _ h
    simp only [Engine.addRoutes, Except.ok.injEq] at h
    subst h; simpa [toSpec] using hok
  | cons x r ih =>
    intro e0 e rs0 hok hlen h
    obtain ⟨m, p, hd⟩ := x
    simp only [Engine.addRoutes] at h
    cases hadd : e0.addRoute m p hd with
    | error f => rw [hadd] at h; cases h
    | ok e1 =>
      rw [hadd] at h
      simp only at h
      have hl : p.length < 65536 := hlen (m, p, hd) (by simp)
      have hmp := (addRoute_step e0 e0.maxParams rs0 m p hd e1 hok hadd (max e0.maxParams (countParams p))
        (Nat.le_max_left _ _) (by rw [countParams_eq p hl]; exact Nat.le_max_right _ _))
      have hok1 : EngineOK e1 (rs0 ++ [⟨m, p, hd⟩]) := by
        rw [EngineOK_iff, hmp.2.2]; exact hmp.1
      have := ih e1 e (rs0 ++ [⟨m, p, hd⟩]) hok1 (fun r' hr' => hlen r' (List.mem_cons_of_mem _ hr')) h
      rw [toSpec_cons]
      simpa [List.append_assoc] using this

theorem engineOK_empty : EngineOK {} [] := by
  refine ⟨by simp, ?_, ?_⟩
  · intro t ht; simp at ht
  · intro r hr; simp at hr

theorem addRoutes_ok (rs : List (Bytes × Bytes × Nat)) (e : Engine)
    (hlen : ∀ r ∈ rs, r.2.1.length < 65536) (h : Engine.addRoutes {} rs = .ok e) : EngineOK e (toSpec rs) := by
  simpa using addRoutes_ok_gen rs {} e [] engineOK_empty hlen h

/-- MAIN: for every accepted list of routes, every method and path: the engine runs the handler of
the route the priority rule selects, with that route's pattern as full path and the matched
substrings as parameters; if no pattern matches no route handler runs; it never panics. -/
theorem serve_selected (rs : List (Bytes × Bytes × Nat)) (e : Engine) (hlen : ∀ r ∈ rs, r.2.1.length < 65536)
    (h : Engine.addRoutes {} rs = .ok e) (m p : Bytes) :
    (∃ r ps, Spec.Route.Selected (toSpec rs) m p r ps ∧ e.serve m p = .handler ⟨r.handler, r.pattern, ps⟩) ∨
    (Spec.Route.NoMatch (toSpec rs) m p ∧ e.serve m p = .noRoute) := by
  obtain ⟨-, htrees, hcover⟩ := addRoutes_ok rs e hlen h
  cases hg : treesGet e.trees m with
  | none =>
    right
    refine ⟨?_, by simp [Engine.serve, hg]⟩
    intro r hr
    by_cases hm : r.method = m
    · obtain ⟨t, ht, htm⟩ := hcover r hr
      exact absurd (htm.trans hm) (treesGet_none _ _ hg t ht)
    · simp [Route.matches, hm]
  | some t =>
    obtain ⟨htm, hmm⟩ := treesGet_some _ _ _ hg
    obtain ⟨h1, -, h3, h4⟩ := htrees t htm
    rw [hmm] at h4
    rcases find_selected t.root e.maxParams (toSpec rs) m p h1 h3 h4 with ⟨r, ps, hsel, hf⟩ | ⟨hno, hf⟩
    · exact Or.inl ⟨r, ps, hsel, by simp [Engine.serve, hg, hf]⟩
    · exact Or.inr ⟨hno, by simp [Engine.serve, hg, hf]⟩

theorem addRoutes_distinct_gen (rs : List (Bytes × Bytes × Nat)) : ∀ (e0 e : Engine) (rs0 : List Spec.Route.Route) (cap : Nat),
    EngineOKc e0 cap rs0 → rs0.Pairwise Distinct → Engine.addRoutes e0 rs = .ok e →
    (rs0 ++ toSpec rs).Pairwise Distinct := by
  induction rs with
  | nil => intro e0 e rs0 cap _ hp _; simpa [toSpec] using hp
  | cons x r ih =>
    intro e0 e rs0 cap hok hp h
    obtain ⟨m, p, hd⟩ := x
    simp only [Engine.addRoutes] at h
    cases hadd : e0.addRoute m p hd with
    | error f => rw [hadd] at h; cases h
    | ok e1 =>
      rw [hadd] at h
      simp only at h
      have hmp := addRoute_step e0 cap rs0 m p hd e1 hok hadd (cap + (p.count 58 + p.count 42))
        (by omega) (by omega)
      have hp1 : (rs0 ++ [(⟨m, p, hd⟩ : Spec.Route.Route)]).Pairwise Distinct := by
        rw [List.pairwise_append]
        refine ⟨hp, by simp, ?_⟩
        intro a ha b hb
        simp at hb; subst hb
        exact hmp.2.1 a ha
      have := ih e1 e (rs0 ++ [(⟨m, p, hd⟩ : Spec.Route.Route)]) _ hmp.1 hp1 h
      rw [toSpec_cons]
      simpa [List.append_assoc] using this

/-- accepted route lists have pairwise distinct (method, key) -/
theorem addRoutes_distinct (rs : List (Bytes × Bytes × Nat)) (e : Engine) (h : Engine.addRoutes {} rs = .ok e) :
    (toSpec rs).Pairwise (fun r r' => ¬ (r.method = r'.method ∧ keyOf r = keyOf r')) := by
  have := addRoutes_distinct_gen rs {} e [] 0 engineOK_empty List.Pairwise.nil h
  rw [List.nil_append] at this
  exact this

end Hertz.Route
