import Hertz.Proofs.RouteFind
import Hertz.Proofs.RouteBridge
/-!
C06: from the tree-level statement (`visit_spec`: the search returns the best key among the routes
the tree denotes) to the pattern-level specification `Spec.Route.Selected`.
-/
namespace Hertz.Route
open Hertz.Spec.Route

/-- key and stored value of a registered route -/
def keyOf (r : Route) : Bytes := strip (parsePattern r.pattern)
def valOf (r : Route) : Val := ⟨r.handler, r.pattern, names (parsePattern r.pattern)⟩

/-- the tree rooted at `root` holds exactly the routes of `rs` registered for `method` -/
def Denotes (root : Node) (rs : List Route) (method : Bytes) : Prop :=
  ∀ kv, kv ∈ routes root ↔ ∃ r ∈ rs, r.method = method ∧ kv = (keyOf r, valOf r)

theorem find_spec (root : Node) (cap : Nat) (hwf : WF root .skind) (hp : PnOK root 0 cap) (path : Bytes) :
    SpecRes (routes root) path [] (find root path cap) :=
  (visit_spec root .skind 0 cap hwf hp path []).1 rfl rfl

theorem find_empty (path : Bytes) (cap : Nat) : find Node.empty path cap = .miss := by
  cases path <;> simp [find, Node.empty, visit, visitChild, visitParam, visitAny, Res.orElse]

/-- on a well-formed tree that holds the routes `rs` of `method`, `find` returns the route selected
by the priority rule with the parameters that route's pattern binds, or misses when no pattern of
`rs` (for this method) matches -/
theorem find_selected (root : Node) (cap : Nat) (rs : List Route) (method path : Bytes)
    (hwf : WF root .skind) (hp : PnOK root 0 cap) (hd : Denotes root rs method) :
    (∃ r ps, Selected rs method path r ps ∧
        find root path cap = .hit ⟨r.handler, r.pattern, ps⟩) ∨
    (NoMatch rs method path ∧ find root path cap = .miss) := by
  have hmatch : ∀ r : Route, r.method = method → r.matches method path = matchToks (parsePattern r.pattern) path := by
    intro r hr; simp [Route.matches, hr]
  rcases find_spec root cap hwf hp path with ⟨k, v, vals, ⟨hm, hk, hb⟩, hr⟩ | ⟨hn, hr⟩
  · obtain ⟨r, hrin, hrm, hkv⟩ := (hd (k, v)).1 hm
    have hk' : k = keyOf r := congrArg Prod.fst hkv
    have hv' : v = valOf r := congrArg Prod.snd hkv
    subst hk' hv'
    simp only [keyOf, matchS_strip _ _ (parse_litOK _)] at hk
    cases hmt : matchToks (parsePattern r.pattern) path with
    | none => rw [hmt] at hk; simp at hk
    | some ps =>
      rw [hmt] at hk
      simp only [Option.map_some, Option.some.injEq] at hk
      refine Or.inl ⟨r, ps, ⟨hrin, by rw [hmatch r hrm, hmt], ?_⟩, ?_⟩
      · intro r' hr' hs'
        by_cases hm' : r'.method = method
        · rw [hmatch r' hm'] at hs'
          have hin' : (keyOf r', valOf r') ∈ routes root := (hd _).2 ⟨r', hr', hm', rfl⟩
          have := hb (keyOf r', valOf r') hin' (by
            simp only [keyOf, matchS_strip _ _ (parse_litOK _)]
            cases hx : matchToks (parsePattern r'.pattern) path with
            | none => rw [hx] at hs'; simp at hs'
            | some _ => simp)
          simpa [keyOf, preferS_strip_parse] using this
        · simp [Route.matches, hm'] at hs'
      · rw [hr]
        simp only [valOf, List.nil_append, ← hk, matchToks_zip _ _ _ hmt]
  · refine Or.inr ⟨?_, hr⟩
    intro r hrin
    by_cases hm' : r.method = method
    · rw [hmatch r hm']
      have hin' : (keyOf r, valOf r) ∈ routes root := (hd _).2 ⟨r, hrin, hm', rfl⟩
      have := hn _ hin'
      simp only [keyOf, matchS_strip _ _ (parse_litOK _)] at this
      cases hx : matchToks (parsePattern r.pattern) path with
      | none => rfl
      | some _ => rw [hx] at this; simp at this
    · simp [Route.matches, hm']

end Hertz.Route
