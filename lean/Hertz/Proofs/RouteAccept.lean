import Hertz.Proofs.RouteEngine
/-!
C06, acceptance: `Engine.addRoutes` accepts a list of registrations exactly when every registration
is valid on its own (`ValidReg`: non-empty method, `checkPathValid` path) and no two registrations
share method and key (the pattern with the parameter names removed).  Both conditions are properties
of the *multiset* of registrations, so acceptance does not depend on the order of registration.

The only refusals of the model are therefore
* `.assert` (empty path, path not starting with `/`, empty method),
* `.invalid` (`checkPathValid`),
* `.conflict` (the key already carries handlers in the tree of that method; this includes the
  wildcard "conflicts" `/:a` vs `/:b` and `/*a` vs `/*b`, whose keys `/:` resp. `/*` coincide),
and never a run-time panic.  WHICH registration is refused and with which class depends on the order
(the first offending one in registration order); WHETHER one is refused does not.
-/
namespace Hertz.Route
open Hertz.Spec.Route

/-- a registration that `Engine.addRoute` accepts on an engine without conflicting route -/
def ValidReg (r : Bytes × Bytes × Nat) : Prop := r.1 ≠ [] ∧ checkPathValid r.2.1 = true

instance (r : Bytes × Bytes × Nat) : Decidable (ValidReg r) := by unfold ValidReg; infer_instance

theorem distinct_symm {r r' : Spec.Route.Route} (h : Distinct r r') : Distinct r' r :=
  fun hh => h ⟨hh.1.symm, hh.2.symm⟩

/-! ## one registration: necessity and progress -/

/-- a registration that succeeds is valid -/
theorem addRoute_ok_valid (e : Engine) (m p : Bytes) (h : Nat) (e' : Engine) (hadd : e.addRoute m p h = .ok e') :
    ValidReg (m, p, h) := by
  constructor
  · show m ≠ []
    intro hm
    subst hm
    unfold Engine.addRoute at hadd
    cases p with
    | nil => simp at hadd
    | cons c r =>
      simp only at hadd
      split at hadd
      · cases hadd
      · simp at hadd
  · obtain ⟨_, root, root', _, hrun, _⟩ := addRoute_ok_inv e m p h e' hadd
    show checkPathValid p = true
    unfold routerAddRoute at hrun
    cases hv : checkPathValid p with
    | true => rfl
    | false => rw [hv] at hrun; simp at hrun

/-- **Progress of one registration.**  On an engine that satisfies the invariant, a valid
registration whose (method, key) is not registered yet succeeds: `Engine.addRoute` does not fail
with `.assert`, `.invalid`, `.conflict` or a run-time panic. -/
theorem addRoute_progress (e : Engine) (cap : Nat) (rs : List Spec.Route.Route) (m p : Bytes) (h : Nat)
    (hok : EngineOKc e cap rs) (hv : ValidReg (m, p, h)) (hd : ∀ r ∈ rs, Distinct r ⟨m, p, h⟩) :
    ∃ e', e.addRoute m p h = .ok e' := by
  obtain ⟨hnd, htrees, hcover⟩ := hok
  obtain ⟨hm, hp⟩ := hv
  change m ≠ [] at hm
  change checkPathValid p = true at hp
  obtain ⟨r, rfl⟩ := checkPathValid_head p hp
  have hme : m.isEmpty = false := by cases m with | nil => exact absurd rfl hm | cons _ _ => rfl
  -- the root the registration works on, and the fact that its key is free there
  have hroot : ∀ root : Node, RootOK root (cap + ((47 :: r).count 58 + (47 :: r).count 42)) →
      Denotes root rs m → ∃ root', routerAddRoute root (47 :: r) h = .ok root' := by
    intro root hro hden
    rcases routerAddRoute_spec root (47 :: r) h _ hro (Nat.le_add_left _ _) with
      ⟨hc, -⟩ | ⟨-, hK, -⟩ | ⟨-, -, root', hr, -⟩
    · rw [hp] at hc; cases hc
    · exfalso
      obtain ⟨kv, hkv, hk⟩ := List.mem_map.1 hK
      obtain ⟨r0, hr0, hr0m, hkv0⟩ := (hden kv).1 hkv
      apply hd r0 hr0
      refine ⟨hr0m, ?_⟩
      have : kv.1 = keyOf r0 := congrArg Prod.fst hkv0
      show keyOf r0 = strip (parsePattern (47 :: r))
      rw [← this]; exact hk
    · exact ⟨root', hr⟩
  unfold Engine.addRoute
  simp only [slash, bne_self_eq_false, Bool.false_eq_true, if_false, hme]
  cases hg : treesGet e.trees m with
  | some t =>
    obtain ⟨htm, hmm⟩ := treesGet_some _ _ _ hg
    obtain ⟨h1, h2, h3, h4⟩ := htrees t htm
    obtain ⟨root', hr⟩ := hroot t.root (Or.inr ⟨h1, h2, pnok_mono _ _ _ _ h3 (Nat.le_add_right _ _)⟩) (hmm ▸ h4)
    simp only [hr]
    exact ⟨_, rfl⟩
  | none =>
    have hno := treesGet_none _ _ hg
    have hden : Denotes Node.empty rs m := by
      intro kv; rw [routes_empty]
      constructor
      · intro hk; cases hk
      · rintro ⟨r0, hr0, hrm, -⟩
        obtain ⟨t, ht, htm⟩ := hcover r0 hr0
        exact absurd (htm.trans hrm) (hno t ht)
    obtain ⟨root', hr⟩ := hroot Node.empty (Or.inl rfl) hden
    simp only [hr]
    exact ⟨_, rfl⟩

/-! ## lists of registrations -/

/-- every registration of an accepted list is valid -/
theorem addRoutes_valid (rs : List (Bytes × Bytes × Nat)) : ∀ (e0 e : Engine),
    Engine.addRoutes e0 rs = .ok e → ∀ r ∈ rs, ValidReg r := by
  induction rs with
  | nil => intro _ _ _ r hr; cases hr
  | cons x rest ih =>
    intro e0 e h r hr
    obtain ⟨m, p, hd⟩ := x
    simp only [Engine.addRoutes] at h
    cases hadd : e0.addRoute m p hd with
    | error f => rw [hadd] at h; cases h
    | ok e1 =>
      rw [hadd] at h
      simp only at h
      rcases List.mem_cons.1 hr with rfl | hr
      · exact addRoute_ok_valid e0 m p hd e1 hadd
      · exact ih e1 e h r hr

/-- the converse fold: from an engine satisfying the invariant for `rs0`, a list of valid
registrations that are pairwise distinct, and distinct from `rs0`, is accepted -/
theorem addRoutes_progress_gen (rs : List (Bytes × Bytes × Nat)) : ∀ (e0 : Engine) (rs0 : List Spec.Route.Route) (cap : Nat),
    EngineOKc e0 cap rs0 → (∀ r ∈ rs, ValidReg r) → (rs0 ++ toSpec rs).Pairwise Distinct →
    ∃ e, Engine.addRoutes e0 rs = .ok e := by
  induction rs with
  | nil => intro e0 _ _ _ _ _; exact ⟨e0, rfl⟩
  | cons x rest ih =>
    intro e0 rs0 cap hok hv hp
    obtain ⟨m, p, hd⟩ := x
    rw [toSpec_cons] at hp
    have hdist : ∀ r ∈ rs0, Distinct r ⟨m, p, hd⟩ := by
      intro r hr
      rw [List.pairwise_append] at hp
      exact hp.2.2 r hr _ (by simp)
    obtain ⟨e1, hadd⟩ := addRoute_progress e0 cap rs0 m p hd hok (hv _ (by simp)) hdist
    have hstep := addRoute_step e0 cap rs0 m p hd e1 hok hadd (cap + (p.count 58 + p.count 42))
      (by omega) (by omega)
    have hp1 : ((rs0 ++ [(⟨m, p, hd⟩ : Spec.Route.Route)]) ++ toSpec rest).Pairwise Distinct := by
      simpa [List.append_assoc] using hp
    obtain ⟨e, he⟩ := ih e1 _ _ hstep.1 (fun r hr => hv r (List.mem_cons_of_mem _ hr)) hp1
    exact ⟨e, by simp only [Engine.addRoutes, hadd, he]⟩

/-- **Acceptance, characterised.**  A list of registrations is accepted by a fresh engine iff every
registration is valid on its own and no two share method and key. -/
theorem addRoutes_accepts_iff (rs : List (Bytes × Bytes × Nat)) :
    (∃ e, Engine.addRoutes {} rs = .ok e) ↔ ((∀ r ∈ rs, ValidReg r) ∧ (toSpec rs).Pairwise Distinct) := by
  constructor
  · rintro ⟨e, h⟩
    exact ⟨addRoutes_valid rs {} e h, addRoutes_distinct rs e h⟩
  · rintro ⟨hv, hp⟩
    exact addRoutes_progress_gen rs {} [] 0 engineOK_empty hv (by simpa using hp)

/-! ## refusal: which registration, which class -/

/-- `Engine.addRoute` past its assertions is `routerAddRoute` on a root that is empty or well
formed and denotes the routes of the method registered so far -/
theorem addRoute_eq (e : Engine) (cap : Nat) (rs : List Spec.Route.Route) (m : Bytes) (c : UInt8) (r : Bytes) (h : Nat)
    (hok : EngineOKc e cap rs) (hc : (c != slash) = false) (hm : m.isEmpty = false) (cap' : Nat) (hcc : cap ≤ cap') :
    ∃ root trees0, RootOK root cap' ∧ Denotes root rs m ∧
      e.addRoute m (c :: r) h = (match routerAddRoute root (c :: r) h with
        | .error f => .error f
        | .ok root' => .ok ⟨treesSet trees0 m root', max e.maxParams (countParams (c :: r))⟩) := by
  obtain ⟨hnd, htrees, hcover⟩ := hok
  unfold Engine.addRoute
  simp only [hc, hm, Bool.false_eq_true, if_false]
  cases hg : treesGet e.trees m with
  | some t =>
    obtain ⟨htm, hmm⟩ := treesGet_some _ _ _ hg
    obtain ⟨h1, h2, h3, h4⟩ := htrees t htm
    exact ⟨t.root, e.trees, Or.inr ⟨h1, h2, pnok_mono _ _ _ _ h3 hcc⟩, hmm ▸ h4, rfl⟩
  | none =>
    have hno := treesGet_none _ _ hg
    refine ⟨Node.empty, e.trees ++ [⟨m, Node.empty⟩], Or.inl rfl, ?_, rfl⟩
    intro kv; rw [routes_empty]
    constructor
    · intro hk; cases hk
    · rintro ⟨r0, hr0, hrm, -⟩
      obtain ⟨t, ht, htm⟩ := hcover r0 hr0
      exact absurd (htm.trans hrm) (hno t ht)

/-- **Refusal of one registration, classified.**  On an engine satisfying the invariant, a refused
registration is either not valid on its own (class `.assert` or `.invalid`), or valid and in
conflict (class `.conflict`) with an earlier route of the same method and the same key. -/
theorem addRoute_error_class (e : Engine) (cap : Nat) (rs : List Spec.Route.Route) (m p : Bytes) (h : Nat) (f : Fault)
    (hok : EngineOKc e cap rs) (hadd : e.addRoute m p h = .error f) :
    (¬ ValidReg (m, p, h) ∧ (f = .assert ∨ f = .invalid)) ∨
    (ValidReg (m, p, h) ∧ f = .conflict ∧ ∃ r' ∈ rs, ¬ Distinct r' ⟨m, p, h⟩) := by
  cases p with
  | nil =>
    left
    refine ⟨fun hv => ?_, Or.inl ?_⟩
    · have := hv.2; simp [checkPathValid] at this
    · simp [Engine.addRoute] at hadd; exact hadd.symm
  | cons c r =>
    cases hc : (c != slash) with
    | true =>
      left
      refine ⟨fun hv => ?_, Or.inl ?_⟩
      · have h2 : checkPathValid (c :: r) = true := hv.2
        simp only [checkPathValid, Bool.and_eq_true, beq_iff_eq] at h2
        simp [h2.1] at hc
      · simp [Engine.addRoute, hc] at hadd; exact hadd.symm
    | false =>
      cases hm : m.isEmpty with
      | true =>
        left
        refine ⟨fun hv => ?_, Or.inl ?_⟩
        · have h1 : m ≠ [] := hv.1
          cases m with
          | nil => exact h1 rfl
          | cons _ _ => simp at hm
        · simp [Engine.addRoute, hc, hm] at hadd; exact hadd.symm
      | false =>
        have hmne : m ≠ [] := by intro hh; subst hh; simp at hm
        obtain ⟨root, trees0, hro, hden, heq⟩ := addRoute_eq e cap rs m c r h hok hc hm
          (cap + ((c :: r).count 58 + (c :: r).count 42)) (Nat.le_add_right _ _)
        rw [heq] at hadd
        rcases routerAddRoute_spec root (c :: r) h _ hro (Nat.le_add_left _ _) with
          ⟨hv, hr⟩ | ⟨hv, hK, hr⟩ | ⟨-, -, root', hr, -⟩
        · rw [hr] at hadd
          simp only [Except.error.injEq] at hadd
          left
          refine ⟨fun hv' => ?_, Or.inr hadd.symm⟩
          have h2 : checkPathValid (c :: r) = true := hv'.2
          rw [hv] at h2; cases h2
        · rw [hr] at hadd
          simp only [Except.error.injEq] at hadd
          right
          refine ⟨⟨hmne, hv⟩, hadd.symm, ?_⟩
          obtain ⟨kv, hkv, hk⟩ := List.mem_map.1 hK
          obtain ⟨r0, hr0, hr0m, hkv0⟩ := (hden kv).1 hkv
          refine ⟨r0, hr0, fun hd => hd ⟨hr0m, ?_⟩⟩
          have : kv.1 = keyOf r0 := congrArg Prod.fst hkv0
          show keyOf r0 = strip (parsePattern (c :: r))
          rw [← this]; exact hk
        · rw [hr] at hadd; cases hadd

/-- **Refusal of a list, classified.**  When a list is refused with fault `f`, it splits as
`pre ++ r :: post` where `pre` is accepted and `r` is the first registration that is not valid on
its own (`f` is `.assert` or `.invalid`) or that shares method and key with a registration of `pre`
(`f = .conflict`).  In particular `f` is never a run-time panic. -/
theorem addRoutes_error_class_gen (rs : List (Bytes × Bytes × Nat)) : ∀ (e0 : Engine) (rs0 : List Spec.Route.Route) (cap : Nat) (f : Fault),
    EngineOKc e0 cap rs0 → Engine.addRoutes e0 rs = .error f →
    ∃ pre r post, rs = pre ++ r :: post ∧ (∃ e1, Engine.addRoutes e0 pre = .ok e1) ∧
      ((¬ ValidReg r ∧ (f = .assert ∨ f = .invalid)) ∨
       (ValidReg r ∧ f = .conflict ∧ ∃ r' ∈ rs0 ++ toSpec pre, ¬ Distinct r' ⟨r.1, r.2.1, r.2.2⟩)) := by
  induction rs with
  | nil => intro e0 _ _ f _ h; cases h
  | cons x rest ih =>
    intro e0 rs0 cap f hok h
    obtain ⟨m, p, hd⟩ := x
    simp only [Engine.addRoutes] at h
    cases hadd : e0.addRoute m p hd with
    | error f' =>
      rw [hadd] at h
      simp only [Except.error.injEq] at h
      subst h
      refine ⟨[], (m, p, hd), rest, rfl, ⟨e0, rfl⟩, ?_⟩
      simpa [toSpec] using addRoute_error_class e0 cap rs0 m p hd f' hok hadd
    | ok e1 =>
      rw [hadd] at h
      simp only at h
      have hstep := addRoute_step e0 cap rs0 m p hd e1 hok hadd (cap + (p.count 58 + p.count 42))
        (by omega) (by omega)
      obtain ⟨pre, r, post, hrs, ⟨e2, he2⟩, hcls⟩ := ih e1 _ _ f hstep.1 h
      refine ⟨(m, p, hd) :: pre, r, post, by rw [hrs]; rfl, ⟨e2, by simp only [Engine.addRoutes, hadd, he2]⟩, ?_⟩
      rw [toSpec_cons]
      simpa [List.append_assoc] using hcls

theorem addRoutes_error_class (rs : List (Bytes × Bytes × Nat)) (f : Fault) (h : Engine.addRoutes {} rs = .error f) :
    ∃ pre r post, rs = pre ++ r :: post ∧ (∃ e1, Engine.addRoutes {} pre = .ok e1) ∧
      ((¬ ValidReg r ∧ (f = .assert ∨ f = .invalid)) ∨
       (ValidReg r ∧ f = .conflict ∧ ∃ r' ∈ toSpec pre, ¬ Distinct r' ⟨r.1, r.2.1, r.2.2⟩)) := by
  simpa using addRoutes_error_class_gen rs {} [] 0 f engineOK_empty h

/-- registration never raises a run-time panic (slice bounds / index), whatever the routes -/
theorem addRoutes_no_runtime_panic (rs : List (Bytes × Bytes × Nat)) (s : Site) :
    Engine.addRoutes {} rs ≠ .error (.panic s) := by
  intro h
  obtain ⟨_, _, _, _, _, hcls⟩ := addRoutes_error_class rs _ h
  rcases hcls with ⟨-, hf | hf⟩ | ⟨-, hf, -⟩ <;> cases hf

/-! ## order independence of acceptance -/

theorem toSpec_perm {rs rs' : List (Bytes × Bytes × Nat)} (h : rs.Perm rs') : (toSpec rs).Perm (toSpec rs') :=
  List.Perm.map _ h

/-- acceptance is invariant under permutation of the registrations -/
theorem addRoutes_accepts_perm (rs rs' : List (Bytes × Bytes × Nat)) (h : rs.Perm rs') :
    (∃ e, Engine.addRoutes {} rs = .ok e) ↔ (∃ e', Engine.addRoutes {} rs' = .ok e') := by
  rw [addRoutes_accepts_iff, addRoutes_accepts_iff]
  have hmem : (∀ r ∈ rs, ValidReg r) ↔ (∀ r ∈ rs', ValidReg r) :=
    ⟨fun hh r hr => hh r (h.mem_iff.2 hr), fun hh r hr => hh r (h.mem_iff.1 hr)⟩
  rw [hmem, (toSpec_perm h).pairwise_iff (fun hxy => distinct_symm hxy)]

/-- acceptance is a function of the set of registrations (lists without repetition) -/
theorem addRoutes_accepts_set (rs rs' : List (Bytes × Bytes × Nat)) (hperm : ∀ x, x ∈ rs ↔ x ∈ rs')
    (hnd : rs.Nodup) (hnd' : rs'.Nodup) :
    (∃ e, Engine.addRoutes {} rs = .ok e) ↔ (∃ e', Engine.addRoutes {} rs' = .ok e') :=
  addRoutes_accepts_perm rs rs' ((List.perm_ext_iff_of_nodup hnd hnd').2 hperm)

/-- what a client can observe of a registration list: `none` if registration is refused (the Go
program panics while the routes are set up), else the outcome of the request `(m, p)` -/
def observe (rs : List (Bytes × Bytes × Nat)) (m p : Bytes) : Option Served :=
  match Engine.addRoutes {} rs with
  | .ok e => some (e.serve m p)
  | .error _ => none

end Hertz.Route
