import Hertz.Proofs.PathSpec
import Hertz.Model.FsPath
import Hertz.Gen.FsPath
/-!
Lemmas for the file-system side of C07 (`Hertz.Model.FsPath`): the paths the two stock rewriters hand to the
file handler keep the five byte-level containment facts of `normalizePath`, and the model of the kernel's path
resolution cannot leave the directory it starts in when no component is `..`.
-/
namespace Hertz.FsPath
open Hertz Hertz.Spec Hertz.Uri

/-- the five byte-level facts (`normalizePath_contained`) as one predicate -/
def Good (q : Bytes) : Prop :=
  q.head? = some 47 ∧ ¬ SS <:+: q ∧ ¬ SDS <:+: q ∧ ¬ DDS <:+: q ∧ ¬ SDD <:+ q

theorem good_normalize (x : Bytes) : Good (normalizePath x) := normalizePath_contained x

theorem good_slash : Good [47] := by
  refine ⟨rfl, ?_, ?_, ?_, ?_⟩ <;> decide

theorem good_contained {q : Bytes} (h : Good q) : contained q = true :=
  contained_of_substrings q h.1 h.2.1 h.2.2.1 h.2.2.2.1 h.2.2.2.2

theorem good_suffix {q r : Bytes} (h : Good q) (hs : r <:+ q) (hh : r.head? = some 47) : Good r :=
  ⟨hh, fun c => h.2.1 (c.trans hs.isInfix), fun c => h.2.2.1 (c.trans hs.isInfix),
   fun c => h.2.2.2.1 (c.trans hs.isInfix), fun c => h.2.2.2.2 (c.trans hs)⟩

/-! ### stripLeadingSlashes -/

theorem dropWhile_suffix {α} (q : α → Bool) (l : List α) : l.dropWhile q <:+ l :=
  List.dropWhile_suffix q

theorem dropWhile_ne_slash_head (t : Bytes) (h : (t.dropWhile (· != 47)).isEmpty = false) :
    (t.dropWhile (· != 47)).head? = some 47 := by
  induction t with
  | nil => simp at h
  | cons c t ih =>
    simp only [List.dropWhile_cons] at h ⊢
    by_cases hc : c = 47
    · subst hc; simp
    · have : (c != 47) = true := by simpa using hc
      simp only [this, if_true] at h ⊢
      exact ih h

theorem stripLeading_spec : ∀ (n : Nat) (q r : Bytes), stripLeadingSlashes n q = some r →
    q.head? = some 47 → r = [] ∨ (r <:+ q ∧ r.head? = some 47)
  | 0, q, r, h, hq => by
    simp only [stripLeadingSlashes, Option.some.injEq] at h
    subst h; exact Or.inr ⟨List.suffix_refl _, hq⟩
  | k + 1, [], r, h, _ => by
    simp only [stripLeadingSlashes, Option.some.injEq] at h
    exact Or.inl h.symm
  | k + 1, c :: t, r, h, _ => by
    simp only [stripLeadingSlashes] at h
    split at h
    · simp at h
    · split at h
      · simp only [Option.some.injEq] at h; exact Or.inl h.symm
      · rename_i hne
        have hne' : (t.dropWhile (· != 47)).isEmpty = false := by simpa using hne
        have hh := dropWhile_ne_slash_head t hne'
        rcases stripLeading_spec k _ r h hh with h0 | ⟨hs, hr⟩
        · exact Or.inl h0
        · refine Or.inr ⟨hs.trans ((dropWhile_suffix _ t).trans (List.suffix_cons c t)), hr⟩

/-- the slash stripper never panics on a path that starts with a slash -/
theorem stripLeading_total : ∀ (n : Nat) (q : Bytes), q.head? = some 47 → ∃ r, stripLeadingSlashes n q = some r
  | 0, q, _ => ⟨q, rfl⟩
  | k + 1, [], h => by simp at h
  | k + 1, c :: t, h => by
    simp only [List.head?_cons, Option.some.injEq] at h
    subst h
    simp only [stripLeadingSlashes]
    by_cases he : (t.dropWhile (· != 47)).isEmpty = true
    · simp [he]
    · have he' : (t.dropWhile (· != 47)).isEmpty = false := by simpa using he
      simp only [ne_eq, not_true_eq_false, if_false, he', Bool.false_eq_true]
      exact stripLeading_total k _ (dropWhile_ne_slash_head t he')

theorem stripLeading_good {n : Nat} {q r : Bytes} (hq : Good q) (h : stripLeadingSlashes n q = some r) :
    r = [] ∨ Good r := by
  rcases stripLeading_spec n q r h hq.1 with h0 | ⟨hs, hr⟩
  · exact Or.inl h0
  · exact Or.inr (good_suffix hq hs hr)

/-! ### stripTrailingSlashes -/

theorem mem_takeWhile_sat {α} (p : α → Bool) : ∀ (l : List α) (x : α), x ∈ l.takeWhile p → p x = true
  | [], _, h => by simp at h
  | a :: l, x, h => by
    simp only [List.takeWhile_cons] at h
    split at h
    · rename_i ha
      rcases List.mem_cons.mp h with e | h'
      · subst e; exact ha
      · exact mem_takeWhile_sat p l x h'
    · simp at h

theorem stripTrailing_decomp (q : Bytes) : ∃ s, q = stripTrailingSlashes q ++ s ∧ ∀ c ∈ s, c = 47 := by
  refine ⟨(q.reverse.takeWhile (· == 47)).reverse, ?_, ?_⟩
  · unfold stripTrailingSlashes
    rw [← List.reverse_append, List.takeWhile_append_dropWhile, List.reverse_reverse]
  · intro c hc
    have := mem_takeWhile_sat _ _ _ (List.mem_reverse.mp hc)
    simpa using this

theorem stripTrailing_good {q : Bytes} (hq : Good q) :
    stripTrailingSlashes q = [] ∨ Good (stripTrailingSlashes q) := by
  obtain ⟨s, hs, hall⟩ := stripTrailing_decomp q
  generalize stripTrailingSlashes q = r at hs ⊢
  by_cases hr : r = []
  · exact Or.inl hr
  · right
    have hpre : r <+: q := ⟨s, hs.symm⟩
    refine ⟨(head_of_prefix hpre hr).trans hq.1, fun c => hq.2.1 (c.trans hpre.isInfix),
      fun c => hq.2.2.1 (c.trans hpre.isInfix), fun c => hq.2.2.2.1 (c.trans hpre.isInfix), ?_⟩
    rintro ⟨x, hx⟩
    cases s with
    | nil => exact hq.2.2.2.2 ⟨x, by rw [hs, ← hx]; simp⟩
    | cons c s' =>
      have hc : c = 47 := hall c (by simp)
      subst hc
      exact hq.2.2.2.1 ⟨x, s', by rw [hs, ← hx]; simp⟩

/-! ### the kernel's path resolution stays below its starting directory when no component is `..` -/

theorem splitSlash_eq : ∀ b : Bytes, FsPath.splitSlash b = Spec.splitSlash b
  | [] => rfl
  | c :: t => by
    simp only [FsPath.splitSlash, Spec.splitSlash, splitSlash_eq t]
    by_cases h : c = 47
    · simp [h]
    · simp only [h, if_false]; cases Spec.splitSlash t <;> rfl

/-- a served result lies in (or is) the directory `R` below the base -/
def Found.inside (R : Bytes) : Found → Prop
  | .file l => l.head? = some R
  | .dir l => l.head? = some R
  | .missing => True

theorem walk_inside (t : Tree) (R : Bytes) : ∀ (segs : List Bytes) (cur : List Bytes), cur.head? = some R →
    (∀ s ∈ segs, s ≠ [46, 46]) → Found.inside R (walk t cur segs)
  | [], cur, hc, _ => by
    simp only [walk]
    split
    · exact hc
    · split
      · exact hc
      · trivial
  | c :: rest, cur, hc, hs => by
    have hrest : ∀ s ∈ rest, s ≠ [46, 46] := fun s h => hs s (List.mem_cons_of_mem _ h)
    have hcn : c ≠ [46, 46] := hs c (by simp)
    simp only [walk]
    split
    · trivial
    · split
      · exact walk_inside t R rest cur hc hrest
      · split
        · rename_i h; simp at h; exact absurd h hcn
        · refine walk_inside t R rest (cur ++ [c]) ?_ hrest
          cases cur with
          | nil => simp at hc
          | cons a b => simpa using hc

/-! ### request side: the parsed URI and the stock rewriters -/

theorem parse_path (h t : Bytes) : (parse h t).path = [] ∨ ∃ x, (parse h t).path = normalizePath x := by
  unfold parse
  split
  · left; rfl
  · right
    simp only
    split <;> exact ⟨_, rfl⟩

theorem normalize_ne_nil (x : Bytes) : (normalizePath x).isEmpty = false := by
  have h := (good_normalize x).1
  cases hx : normalizePath x with
  | nil => rw [hx] at h; simp at h
  | cons a b => rfl

theorem pathOrSlash_good_of {u : URI} (h : u.path = [] ∨ ∃ x, u.path = normalizePath x) : Good u.pathOrSlash := by
  unfold URI.pathOrSlash
  rcases h with e | ⟨x, e⟩
  · rw [e]; exact good_slash
  · rw [e, normalize_ne_nil]; exact good_normalize x

/-- `ctx.Path()` of every request (Host header, request target) has the five containment facts -/
theorem parse_good (h t : Bytes) : Good (parse h t).pathOrSlash := pathOrSlash_good_of (parse_path h t)

/-- the rewriters that ship with hertz (`nil`, `NewPathSlashesStripper`, `NewVHostPathRewriter`) -/
inductive Stock : Rewriter → Prop
  | none : Stock .none
  | stripper (n : Nat) : Stock (.stripper n)
  | vhost (n : Nat) : Stock (.vhost n)

theorem setPathBytes_pathOrSlash (u : URI) (x : Bytes) : (setPathBytes u x).pathOrSlash = normalizePath x := by
  simp [setPathBytes, URI.pathOrSlash, normalize_ne_nil]

theorem rewrite_good {rw : Rewriter} {u u' : URI} {p : Bytes} (hs : Stock rw) (hu : Good u.pathOrSlash)
    (h : rewrite rw u = some (p, u')) : (p = [] ∨ Good p) ∧ Good u'.pathOrSlash := by
  cases hs with
  | none =>
    simp only [rewrite, Option.some.injEq, Prod.mk.injEq] at h
    obtain ⟨rfl, rfl⟩ := h
    exact ⟨Or.inr hu, hu⟩
  | stripper n =>
    simp only [rewrite, Option.map_eq_some_iff, Prod.mk.injEq] at h
    obtain ⟨r, hr, rfl, rfl⟩ := h
    exact ⟨stripLeading_good hu hr, hu⟩
  | vhost n =>
    simp only [rewrite, Option.map_eq_some_iff, Prod.mk.injEq] at h
    obtain ⟨r, _, rfl, rfl⟩ := h
    rw [setPathBytes_pathOrSlash]
    exact ⟨Or.inr (good_normalize _), good_normalize _⟩

/-- the stock rewriters never panic on a parsed request -/
theorem rewrite_total {rw : Rewriter} {u : URI} (hs : Stock rw) (hu : Good u.pathOrSlash) :
    ∃ r, rewrite rw u = some r := by
  cases hs with
  | none => exact ⟨_, rfl⟩
  | stripper n =>
    obtain ⟨r, hr⟩ := stripLeading_total n _ hu.1
    simp only [rewrite, hr, Option.map_some]
    exact ⟨_, rfl⟩
  | vhost n =>
    obtain ⟨r, hr⟩ := stripLeading_total n _ hu.1
    simp only [rewrite, hr, Option.map_some]
    exact ⟨_, rfl⟩

theorem stripTrailing_nil : stripTrailingSlashes [] = [] := rfl

theorem decision_good {rw : Rewriter} {u u' : URI} {p : Bytes} (hs : Stock rw) (hu : Good u.pathOrSlash)
    (h : decision rw u = some (.openPath p, u')) : (p = [] ∨ Good p) ∧ Good u'.pathOrSlash := by
  unfold decision at h
  cases hr : rewrite rw u with
  | none => rw [hr] at h; simp at h
  | some pr =>
    obtain ⟨p0, u0⟩ := pr
    obtain ⟨hp0, hu0⟩ := rewrite_good hs hu hr
    rw [hr] at h
    simp only [Option.map_some, Option.some.injEq] at h
    split at h
    · simp at h
    · split at h
      · simp at h
      · simp only [Prod.mk.injEq, Decision.openPath.injEq] at h
        obtain ⟨rfl, rfl⟩ := h
        refine ⟨?_, hu0⟩
        rcases hp0 with e | g
        · left; rw [e]; rfl
        · exact stripTrailing_good g

theorem servable_of {p : Bytes} (h : p = [] ∨ Good p) : servable p = true := by
  rcases h with e | g
  · simp [servable, e]
  · simp [servable, good_contained g]

/-! ### from a servable path to the file that is opened -/

theorem splitSlash_noslash : ∀ R : Bytes, 47 ∉ R → Spec.splitSlash R = [R]
  | [], _ => rfl
  | c :: t, h => by
    have hc : c ≠ 47 := fun e => h (by simp [e])
    have ht : 47 ∉ t := fun e => h (List.mem_cons_of_mem _ e)
    simp [Spec.splitSlash, hc, splitSlash_noslash t ht]

theorem splitSlash_append : ∀ a b : Bytes, Spec.splitSlash (a ++ 47 :: b) = Spec.splitSlash a ++ Spec.splitSlash b
  | [], b => by simp [Spec.splitSlash]
  | c :: a, b => by
    by_cases hc : c = 47
    · simp [Spec.splitSlash, hc, splitSlash_append a b]
    · simp only [List.cons_append, Spec.splitSlash, hc, if_false, splitSlash_append a b]
      cases hsa : Spec.splitSlash a with
      | nil => exact absurd hsa (splitSlash_ne_nil a)
      | cons s r => simp

theorem segsContained_noDD : ∀ segs : List Bytes, segsContained segs = true → ∀ s ∈ segs, s ≠ dotdot
  | [], _, s, hs => by simp at hs
  | [last], h, s, hs => by
    simp only [segsContained, bne_iff_ne, ne_eq] at h
    simp only [List.mem_singleton] at hs
    subst hs; exact h
  | a :: b :: rest, h, s, hs => by
    simp only [segsContained, Bool.and_eq_true, bne_iff_ne, ne_eq] at h
    rcases List.mem_cons.mp hs with e | hs'
    · subst e; exact h.1.1.1
    · exact segsContained_noDD (b :: rest) h.2 s hs'

/-- the string handed to `os.Open` splits into the root's name followed by components none of which is `..` -/
def Safe (R x : Bytes) : Prop := ∃ rest, Spec.splitSlash x = R :: rest ∧ ∀ s ∈ rest, s ≠ dotdot

theorem safe_of_servable {R p : Bytes} (hR : 47 ∉ R) (hp : servable p = true) : Safe R (R ++ p) := by
  cases p with
  | nil => exact ⟨[], by simp [splitSlash_noslash R hR], by simp⟩
  | cons c body =>
    simp only [servable, List.isEmpty_cons, Bool.false_or, contained, segsOf] at hp
    split at hp
    · rename_i segs hsegs
      split at hsegs
      · rename_i b hb
        simp only [List.cons.injEq] at hb
        obtain ⟨rfl, rfl⟩ := hb
        simp only [Option.some.injEq] at hsegs
        subst hsegs
        exact ⟨Spec.splitSlash body, by rw [splitSlash_append, splitSlash_noslash R hR]; rfl,
               segsContained_noDD _ hp⟩
      · simp at hsegs
    · simp at hp

theorem safe_append {R x name : Bytes} (h : Safe R x) (hn : ∀ s ∈ Spec.splitSlash name, s ≠ dotdot) :
    Safe R (x ++ 47 :: name) := by
  obtain ⟨rest, e, hr⟩ := h
  refine ⟨rest ++ Spec.splitSlash name, by rw [splitSlash_append, e]; rfl, ?_⟩
  intro s hs
  rcases List.mem_append.mp hs with h1 | h2
  · exact hr s h1
  · exact hn s h2

/-- a directory name: non-empty, no slash, not `.` or `..` -/
def PlainName (R : Bytes) : Prop := 47 ∉ R ∧ R ≠ [] ∧ R ≠ [46] ∧ R ≠ [46, 46]

theorem osOpen_inside (t : Tree) {R x : Bytes} (hR : PlainName R) (h : Safe R x) : Found.inside R (osOpen t x) := by
  obtain ⟨rest, e, hr⟩ := h
  unfold osOpen
  rw [splitSlash_eq, e]
  have h1 : R.isEmpty = false := by
    cases R with
    | nil => exact absurd rfl hR.2.1
    | cons a b => rfl
  have h2 : (R == [46]) = false := by simpa using hR.2.2.1
  have h3 : (R == [46, 46]) = false := by simpa using hR.2.2.2
  simp only [walk, Tree.isDir, List.isEmpty_nil, Bool.true_or, Bool.not_true, Bool.false_eq_true, if_false, h1, h2, h3,
    Bool.or_self, List.nil_append]
  exact walk_inside t R rest [R] rfl hr

def Served.inside (R : Bytes) : Served → Prop
  | .file l => l.head? = some R
  | .listing l => l.head? = some R
  | .status _ => True

theorem openIndex_inside (t : Tree) (cfg : FsCfg) (hR : PlainName cfg.root) {x : Bytes} (hx : Safe cfg.root x) :
    ∀ names : List Bytes, (∀ n ∈ names, ∀ s ∈ Spec.splitSlash n, s ≠ dotdot) →
      Served.inside cfg.root (openIndex t cfg x names)
  | [], _ => by
    simp only [openIndex]
    split
    · have := osOpen_inside t hR hx
      split
      · rename_i d hd; rw [hd] at this; exact this
      · trivial
    · trivial
  | name :: rest, hn => by
    simp only [openIndex]
    have := osOpen_inside t hR (safe_append hx (hn name (by simp)))
    split
    · rename_i f hf; rw [hf] at this; exact this
    · trivial
    · exact openIndex_inside t cfg hR hx rest (fun n h => hn n (List.mem_cons_of_mem _ h))

theorem openServe_inside_safe (t : Tree) (cfg : FsCfg) (hR : PlainName cfg.root)
    (hn : ∀ n ∈ cfg.indexNames, ∀ s ∈ Spec.splitSlash n, s ≠ dotdot) {p : Bytes} (hx : Safe cfg.root (cfg.root ++ p)) :
    Served.inside cfg.root (openServe t cfg p) := by
  simp only [openServe]
  have := osOpen_inside t hR hx
  split
  · rename_i f hf; rw [hf] at this; exact this
  · exact openIndex_inside t cfg hR hx _ hn
  · trivial

theorem openServe_inside (t : Tree) (cfg : FsCfg) (hR : PlainName cfg.root)
    (hn : ∀ n ∈ cfg.indexNames, ∀ s ∈ Spec.splitSlash n, s ≠ dotdot) {p : Bytes} (hp : servable p = true) :
    Served.inside cfg.root (openServe t cfg p) :=
  openServe_inside_safe t cfg hR hn (safe_of_servable (R := cfg.root) hR.1 hp)

/-! ### the handler's own guard (any rewriter result) -/

theorem containsSub_of_infix (pat : Bytes) : ∀ l : Bytes, pat <:+: l → containsSub pat l = true
  | [], h => by
    have : pat = [] := List.infix_nil.mp h
    simp [containsSub, this]
  | c :: t, h => by
    simp only [containsSub, Bool.or_eq_true]
    rcases List.infix_cons_iff.mp h with h1 | h2
    · exact Or.inl (List.isPrefixOf_iff_prefix.mpr h1)
    · exact Or.inr (containsSub_of_infix pat t h2)

/-- a `..` segment shows in the bytes as `/../` or as a trailing `/..` -/
theorem render_dotdot : ∀ segs : List Bytes, dotdot ∈ segs → DDS <:+: render segs ∨ SDD <:+ render segs
  | [], h => by simp at h
  | s :: r, h => by
    rw [render_cons]
    rcases List.mem_cons.mp h with e | hr
    · subst e
      cases r with
      | nil => right; exact ⟨[], by simp [render, dotdot]⟩
      | cons s2 r2 =>
        left
        rw [render_cons]
        exact ⟨[], s2 ++ render r2, by simp [dotdot]⟩
    · rcases render_dotdot r hr with ⟨a, b, e⟩ | ⟨a, e⟩
      · left; exact ⟨47 :: s ++ a, b, by rw [← e]; simp⟩
      · right; exact ⟨47 :: s ++ a, by rw [← e]; simp⟩

theorem safe_of_unrefused {R p : Bytes} (hR : 47 ∉ R) (h : refused p = false) : Safe R (R ++ p) := by
  simp only [refused, Bool.or_eq_false_iff, Bool.and_eq_false_iff, Bool.not_eq_false', bne_eq_false_iff_eq] at h
  obtain ⟨⟨h1, h2⟩, h3⟩ := h
  cases p with
  | nil => exact ⟨[], by simp [splitSlash_noslash R hR], by simp⟩
  | cons c body =>
    have hc : c = 47 := by
      rcases h3 with h3 | h3
      · simp at h3
      · simpa using h3
    subst hc
    refine ⟨Spec.splitSlash body, by rw [splitSlash_append, splitSlash_noslash R hR]; rfl, ?_⟩
    intro s hs e
    subst e
    have hr := render_dotdot _ hs
    rw [render_splitSlash] at hr
    rcases hr with hi | hsuf
    · have := containsSub_of_infix _ _ hi
      have h1' : containsSub DDS (47 :: body) = false := h1
      rw [h1'] at this; exact absurd this (by simp)
    · have := List.isSuffixOf_iff_suffix.mpr hsuf
      rw [h2] at this; exact absurd this (by simp)

/-! ### the tie to the source text -/

/-- The Go functions mirrored by `Hertz.Model.FsPath` still have the statement skeletons the model was written
against (regenerated from the working tree on every run): the vhost rewriter pushes `/` + host + stripped path
through `URI.SetPathBytes` and returns `ctx.Path()`; the stripper returns `stripLeadingSlashes(ctx.Path(), n)`;
`handleRequest` strips trailing slashes, then tests for NUL, then (only with a rewriter) for `/../`, a trailing `/..` and a missing leading slash. -/
theorem model_matches_gen :
    strInvalidHost = Gen.FsPath.strInvalidHost ∧
    Gen.FsPath.vhostRewriter = [
      "path := stripLeadingSlashes(ctx.Path(), slashesCount)",
      "host := ctx.Host()",
      "if n := bytes.IndexByte(host, '/'); n >= 0", "host = nil",
      "if len(host) == 0", "host = strInvalidHost",
      "b := bytebufferpool.Get()",
      "b.B = append(b.B, '/')", "b.B = append(b.B, host...)", "b.B = append(b.B, path...)",
      "ctx.URI().SetPathBytes(b.B)",
      "bytebufferpool.Put(b)",
      "return ctx.Path()"] ∧
    Gen.FsPath.slashesStripper = ["return stripLeadingSlashes(ctx.Path(), slashesCount)"] ∧
    Gen.FsPath.stripLeadingSlashes = [
      "for ; stripSlashes > 0 && len(path) > 0; ",
      "if path[0] != '/'", "panic(\"BUG: path must start with slash\")",
      "n := bytes.IndexByte(path[1:], '/')",
      "if n < 0", "path = path[:0]",
      "path = path[n+1:]", "stripSlashes--",
      "return path"] ∧
    Gen.FsPath.stripTrailingSlashes = [
      "for ; len(path) > 0 && path[len(path)-1] == '/'; ", "path = path[:len(path)-1]", "return path"] ∧
    Gen.FsPath.handleRequestHead = [
      "var path []byte",
      "if h.pathRewrite != nil", "path = h.pathRewrite(ctx)", "else", "path = ctx.Path()",
      "path = stripTrailingSlashes(path)",
      "if n := bytes.IndexByte(path, 0); n >= 0",
      "ctx.AbortWithMsg(\"Are you a hacker?\", consts.StatusBadRequest)", "return",
      "if h.pathRewrite != nil",
      "if n := bytes.Index(path, bytestr.StrSlashDotDotSlash); n >= 0",
      "ctx.AbortWithMsg(\"Internal Server Error\", consts.StatusInternalServerError)", "return",
      "if bytes.HasSuffix(path, bytestr.StrSlashDotDotSlash[:3]) || (len(path) > 0 && path[0] != '/')",
      "ctx.AbortWithMsg(\"Internal Server Error\", consts.StatusInternalServerError)", "return"] ∧
    Gen.FsPath.setPathBytes = [
      "u.pathOriginal = append(u.pathOriginal[:0], path...)",
      "u.path = normalizePath(u.path, u.pathOriginal)"] := by
  refine ⟨by decide, by decide, by decide, by decide, by decide, by decide, by decide⟩

end Hertz.FsPath
