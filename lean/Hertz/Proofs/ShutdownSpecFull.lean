import Hertz.Proofs.ShutdownSpecSched
/-!
The remaining clauses of the trace specification `Hertz.ShutdownSpec` for the observable projection of
every run of the interleaving model: `noSpuriousClose`, `hooksRun`, the `errShutdownTimeout` part of
`errorsReported`; and the assembly of all clauses (`bounded` and `prompt` are in
`ShutdownSpecBounded` / `ShutdownSpecPrompt`).
-/
namespace Hertz.Shutdown
open Hertz.ShutdownSpec

/-! ### time stamps of the winning call (no scheduling discipline needed) -/

/-- clock facts about the caller that won the CAS, for every schedule -/
structure TI2 (cfg : Cfg) (s : State) : Prop where
  casNow : s.win ≠ .none → s.tcas ≤ s.now
  dlGe : s.win ≠ .none → s.win ≠ .pre → s.tcas + cfg.exitWait ≤ s.dl
  loopT0 : ∀ t0, s.win = .loop t0 → s.tcas ≤ t0
  defTo : s.win = .deferred .timeout → s.tcas + cfg.maxWait < s.now
  retTo : ∀ t, s.win = .returned .timeout t → s.tcas + cfg.maxWait < t

theorem ti2_init (cfg : Cfg) (n : Nat) : TI2 cfg (init n) := by
  constructor <;> simp [init]

theorem step_TI2 (cfg : Cfg) {s s' : State} {a : Act} (ti : TI2 cfg s) (h : Step cfg s a s') : TI2 cfg s' := by
  obtain ⟨h1, h2, h3, h4, h5⟩ := ti
  cases h
  case advance d =>
    exact ⟨fun hw => Nat.le_trans (h1 hw) (Nat.le_add_right _ _), h2, h3, fun hw => Nat.lt_of_lt_of_le (h4 hw) (Nat.le_add_right _ _), h5⟩
  case casWin => constructor <;> simp
  case spawn hw =>
    have := h1 (by simp [hw])
    constructor <;> simp <;> omega
  case closeLn hw =>
    have := h1 (by simp [hw]); have := h2 (by simp [hw]) (by simp [hw])
    constructor <;> simp <;> omega
  case tick1 hw ht =>
    have := h1 (by simp [hw]); have := h2 (by simp [hw]) (by simp [hw])
    constructor
    · intro _; assumption
    · intro _ _; assumption
    · intro t0; split <;> simp; intro h; omega
    · split <;> simp
    · intro t; split <;> simp
  case tickLoop t0 hw ht =>
    have := h1 (by simp [hw]); have := h2 (by simp [hw]) (by simp [hw]); have := h3 t0 hw
    constructor
    · intro _; assumption
    · intro _ _; assumption
    · intro t0'; (repeat' split) <;> simp; intro h; omega
    · (repeat' split) <;> simp; omega
    · intro t; (repeat' split) <;> simp
  case ctxDone t0 hw hd =>
    have := h1 (by simp [hw]); have := h2 (by simp [hw]) (by simp [hw])
    constructor <;> simp <;> assumption
  case finish e hw hc =>
    have := h1 (by simp [hw]); have := h2 (by simp [hw]) (by simp [hw])
    constructor
    · intro _; assumption
    · intro _ _; assumption
    · simp
    · simp
    · intro t ht
      simp at ht
      obtain ⟨rfl, rfl⟩ := ht
      exact h4 hw
  all_goals exact ⟨h1, h2, h3, h4, h5⟩

/-- the `S` event of the winning caller is not later than its CAS -/
def WS (s : State) (tr : List TEv) : Prop := s.win ≠ .none → ∀ t, TEv.mk (.S s.winK) t ∈ tr → t ≤ s.tcas

theorem step_WS (cfg : Cfg) {s s' : State} {a : Act} {tr : List TEv} (wc : WinCaller s) (mi : MI1 s tr) (ws : WS s tr)
    (h : Step cfg s a s') : WS s' (tr ++ obsStep s a) := by
  unfold WS at *
  cases h
  case casWin k hk hs =>
    intro _ t ht
    simp [obsStep, obsAct] at ht
    exact mi.mTime _ ht
  case shutCall =>
    intro hw t ht
    simp [obsStep, obsAct] at ht
    rcases ht with ht | ⟨hk, _⟩
    · exact ws hw t ht
    · obtain ⟨p, hp, _⟩ := wc hw
      have := getElem?_lt hp
      omega
  case conn c f cn cn' hc hf hca _ =>
    intro hw t ht
    have : TEv.mk (.S s.winK) t ∈ tr := by
      cases connStep_of hca hf <;> simpa [obsStep, obsAct, hc] using ht
    exact ws hw t this
  all_goals first
    | (intro hw t ht; simp [obsStep, obsAct] at ht; exact ws (by simp_all) t ht)
    | (intro hw t ht; simp [obsStep, obsAct] at ht; exact ws (by intro h; simp [h] at *) t ht)

/-! ### handler exits on the trace -/

def inH : ConnPh → Nat
  | .handling _ => 1
  | _ => 0

/-- every request whose handler has returned has its `X` event -/
def MX (s : State) (tr : List TEv) : Prop :=
  ∀ c cn, s.conns[c]? = some cn → ∀ k, k + inH cn.ph < cn.started → ∃ b, Has tr (.X c k b)

theorem step_MX (cfg : Cfg) {s s' : State} {a : Act} {tr : List TEv} (mx : MX s tr) (h : Step cfg s a s') :
    MX s' (tr ++ obsStep s a) := by
  unfold MX at *
  have mono : ∀ c cn, s.conns[c]? = some cn → ∀ k, k + inH cn.ph < cn.started → ∃ b, Has (tr ++ obsStep s a) (.X c k b) := by
    intro c cn hc k hk
    obtain ⟨b, hb⟩ := mx c cn hc k hk
    exact ⟨b, hb.mono _⟩
  cases h
  case accept =>
    intro c0 x hx k hk
    rcases Nat.lt_or_ge c0 s.conns.length with hlt | hge
    · simp [List.getElem?_append_left hlt] at hx
      exact mono c0 x hx k hk
    · rcases Nat.eq_or_lt_of_le hge with heq | hgt
      · subst heq; simp at hx; subst hx; simp at hk
      · simp [List.getElem?_eq_none (show (s.conns ++ [({} : Conn)]).length ≤ c0 by simp; omega)] at hx
  case conn c f cn cn' hc hf hca _ =>
    intro c0 x hx k hk
    rcases set_cases hx with ⟨hne, hx⟩ | ⟨rfl, rfl⟩
    · exact mono c0 x hx k hk
    · cases connStep_of hca hf with
      | reqArrive _ rc _ hph =>
        simp [inH] at hk
        exact mono c cn hc k (by simp [hph, inH]; omega)
      | handlerRet _ b _ rc hph =>
        simp [inH] at hk
        by_cases hlast : k + 1 < cn.started
        · exact mono c cn hc k (by simp [hph, inH]; omega)
        · exact ⟨b, by simp [obsStep, obsAct, hc]; right; omega⟩
      | exitCheck _ _ cl g hph => exact mono c cn hc k (by simpa [hph, inH] using hk)
      | writeResp _ _ cl g hph =>
        refine mono c cn hc k ?_
        cases cl <;> simpa [hph, inH] using hk
      | connDrop _ _ hph _ => exact mono c cn hc k (by simpa [hph, inH] using hk)
      | badReq _ _ hph => exact mono c cn hc k (by simpa [hph, inH] using hk)
      | peerClose _ _ => exact mono c cn hc k (by simpa [inH] using hk)
      | clientRead _ _ _ r hr _ => exact mono c cn hc k (by simpa [inH] using hk)
      | clientEof _ _ _ _ => exact mono c cn hc k hk
      | npClose _ _ hph _ => exact mono c cn hc k (by simpa [hph, inH] using hk)
  case connGone c cn cn' hc hf =>
    unfold cGone at hf; split at hf <;> simp at hf; subst hf
    rename_i hph
    intro c0 x hx k hk
    rcases set_cases hx with ⟨hne, hx⟩ | ⟨rfl, rfl⟩
    · exact mono c0 x hx k hk
    · exact mono c cn hc k (by simpa [hph, inH] using hk)
  all_goals exact mono

/-! ### no forced close before any `Shutdown` call -/

/-- while nobody has called `Shutdown`, a close flag comes from the request or from the handler -/
def NSc (c : Nat) (cn : Conn) (tr : List TEv) : Prop :=
  (∀ k r, cn.resps[k]? = some r → r.close = true → Has tr (.Q c k true) ∨ Has tr (.X c k true)) ∧
  (cn.ph = .handling true → Has tr (.Q c (cn.started - 1) true)) ∧
  (∀ g, cn.ph = .returned true g ∨ cn.ph = .checked true g →
    Has tr (.Q c (cn.started - 1) true) ∨ Has tr (.X c (cn.started - 1) true))

def NS (s : State) (tr : List TEv) : Prop := s.callers = [] → ∀ c cn, s.conns[c]? = some cn → NSc c cn tr

theorem NSc.mono {c : Nat} {cn : Conn} {tr : List TEv} (l : List TEv) (h : NSc c cn tr) : NSc c cn (tr ++ l) := by
  obtain ⟨h1, h2, h3⟩ := h
  exact ⟨fun k r hk hr => (h1 k r hk hr).imp (Has.mono l) (Has.mono l), fun hp => (h2 hp).mono l,
    fun g hp => (h3 g hp).imp (Has.mono l) (Has.mono l)⟩

theorem nocaller_running {s : State} (si : SI1 s) (wc : WinCaller s) (hcl : s.callers = []) {c : Nat} {cn : Conn}
    (hc : s.conns[c]? = some cn) : isRunning s = true := by
  have hwn : s.win = .none := by
    apply Classical.byContradiction
    intro hne
    obtain ⟨p, hp, _⟩ := wc hne
    simp [hcl] at hp
  have hne : s.conns ≠ [] := by intro h; simp [h] at hc
  have hln := si.connsLn hne
  have := si.winNone hwn
  have hst := (this.2.2.1 (this.2.2.2 hln)).1
  simp [isRunning, hst, hln]

theorem step_NS (cfg : Cfg) {s s' : State} {a : Act} {tr : List TEv} (inv : Inv s) (si : SI1 s) (wc : WinCaller s)
    (ns : NS s tr) (h : Step cfg s a s') : NS s' (tr ++ obsStep s a) := by
  unfold NS at *
  have mono : s.callers = [] → ∀ c cn, s.conns[c]? = some cn → NSc c cn (tr ++ obsStep s a) :=
    fun h c cn hc => (ns h c cn hc).mono _
  cases h
  case shutCall => intro h; simp at h
  case accept =>
    intro hcl c0 x hx
    rcases Nat.lt_or_ge c0 s.conns.length with hlt | hge
    · simp [List.getElem?_append_left hlt] at hx
      exact mono hcl c0 x hx
    · rcases Nat.eq_or_lt_of_le hge with heq | hgt
      · subst heq; simp at hx; subst hx
        refine ⟨by simp, by simp, by simp⟩
      · simp [List.getElem?_eq_none (show (s.conns ++ [({} : Conn)]).length ≤ c0 by simp; omega)] at hx
  case conn c f cn cn' hc hf hca _ =>
    intro hcl c0 x hx
    rcases set_cases hx with ⟨hne, hx⟩ | ⟨rfl, rfl⟩
    · exact mono hcl c0 x hx
    · obtain ⟨m1, m2, m3⟩ := mono hcl c cn hc
      have hcount := (inv.conns cn (List.mem_of_getElem? hc)).count
      cases connStep_of hca hf with
      | reqArrive _ rc _ hph =>
        refine ⟨m1, ?_, by simp⟩
        intro hp
        simp at hp
        subst hp
        simp [obsStep, obsAct, hc]
      | handlerRet _ b _ rc hph =>
        refine ⟨m1, by simp, ?_⟩
        intro g hp
        simp at hp
        have hp := hp.1
        cases rc
        · simp at hp; subst hp
          right; simp [obsStep, obsAct, hc]
        · exact Or.inl (m2 hph)
      | exitCheck _ _ cl g hph =>
        have hrun := nocaller_running si wc hcl hc
        refine ⟨m1, by simp, ?_⟩
        intro g' hp
        simp [hrun] at hp
        obtain ⟨rfl, rfl⟩ := hp
        exact m3 g (Or.inl hph)
      | writeResp _ _ cl g hph =>
        refine ⟨?_, by cases cl <;> simp, by cases cl <;> simp⟩
        intro k r hk hr
        simp only at hk
        rcases Nat.lt_or_ge k cn.resps.length with hlt | hge
        · rw [List.getElem?_append_left hlt] at hk
          exact m1 k r hk hr
        · rcases Nat.eq_or_lt_of_le hge with heq | hgt
          · subst heq
            simp at hk
            subst hk
            simp at hr
            subst hr
            have : cn.started - 1 = cn.resps.length := by simp [hph, inflight] at hcount; omega
            rw [← this]
            exact m3 g (Or.inr hph)
          · rw [List.getElem?_eq_none (by simp; omega)] at hk
            simp at hk
      | connDrop _ _ hph _ => exact ⟨m1, by simp, by simp⟩
      | badReq _ _ hph => exact ⟨m1, by simp, by simp⟩
      | peerClose _ _ => exact ⟨m1, m2, m3⟩
      | clientRead _ _ _ r hr _ => exact ⟨m1, m2, m3⟩
      | clientEof _ _ _ _ => exact ⟨m1, m2, m3⟩
      | npClose _ _ hph _ => exact ⟨m1, by simp, by simp⟩
  case connGone c cn cn' hc hf =>
    unfold cGone at hf; split at hf <;> simp at hf; subst hf
    intro hcl c0 x hx
    rcases set_cases hx with ⟨hne, hx⟩ | ⟨rfl, rfl⟩
    · exact mono hcl c0 x hx
    · obtain ⟨m1, m2, m3⟩ := mono hcl c cn hc
      exact ⟨m1, by simp, by simp⟩
  all_goals first
    | exact mono
    | (intro hcl; exact mono (by simpa using hcl))

/-! ### all invariants along a run -/

structure FullInv (cfg : Cfg) (n : Nat) (s : State) (tr : List TEv) : Prop where
  ai : AllInv n s
  m1 : MI1 s tr
  m2 : MI2 s tr
  ti : TI2 cfg s
  ws : WS s tr
  mx : MX s tr
  ns : NS s tr

theorem fullInv_init (cfg : Cfg) (n : Nat) : FullInv cfg n (init n) [] :=
  ⟨allInv_init n, mi1_init n, by constructor <;> simp [init], ti2_init cfg n, by intro h; simp [init] at h,
    by intro c cn hc; simp [init] at hc, by intro _ c cn hc; simp [init] at hc⟩

theorem step_fullInv (cfg : Cfg) (n : Nat) {s s' : State} {a : Act} {tr : List TEv} (fi : FullInv cfg n s tr)
    (hok : okWin s a = true) (h : step cfg s a = some s') : FullInv cfg n s' (tr ++ obsStep s a) :=
  have hS := step_Step cfg h
  ⟨step_allInv cfg n fi.ai hok h, step_MI1 cfg fi.m1 hS, step_MI2 cfg fi.m2 hS, step_TI2 cfg fi.ti hS,
    step_WS cfg fi.ai.wc fi.m1 fi.ws hS, step_MX cfg fi.mx hS, step_NS cfg fi.ai.inv fi.ai.si fi.ai.wc fi.ns hS⟩

section clauses
variable {cfg : Cfg} {n : Nat} {ok : State → Act → Bool} {acts : List Act} {sF : State}

theorem run_fullInv (hle : ∀ s a, ok s a = true → okWin s a = true)
    (hr : run cfg (init n) acts = some sF) (hok : allOk ok cfg (init n) acts = true) :
    FullInv cfg n sF (obsRun cfg (init n) acts) := by
  have := run_traceInv cfg ok (FullInv cfg n) (fun s tr a s' hJ ho hs => step_fullInv cfg n hJ (hle _ _ ho) hs) acts
    (fullInv_init cfg n) hr hok
  simpa using this

/-- **noSpuriousClose, on the observed sequence.**  A response read before any `Shutdown` call carries
`Connection: close` only if its request asked for it (`Q c k true`) or its handler did (`X c k true`). -/
theorem obs_noSpuriousClose (hle : ∀ s a, ok s a = true → okWin s a = true)
    (hr : run cfg (init n) acts = some sF) (hok : allOk ok cfg (init n) acts = true) :
    noSpuriousClose (obsRun cfg (init n) acts).toArray = [] := by
  apply noSpuriousClose_nil
  intro i c k co t hi hnoS
  obtain ⟨acts1, a, acts2, s1, s1', sp⟩ := obsRun_split cfg ok acts hr hok hi
  obtain ⟨rfl, _, cn1, hc1, hk⟩ := obsAct_R sp.ev
  have fi := run_fullInv hle sp.run1 sp.ok1
  have hcl : s1.callers = [] := by
    cases hcs : s1.callers with
    | nil => rfl
    | cons x xs =>
      exfalso
      obtain ⟨j, t', hj, he⟩ := sp.has_before (fi.m1.mS 0 (by simp [hcs]))
      exact hnoS j hj ⟨_, he, rfl⟩
  have hst := sp.st
  simp only [step] at hst
  obtain ⟨cn0, cn', hc0, hf0, _⟩ := updConn_some hst
  rw [hc1] at hc0; cases hc0
  unfold cClientRead at hf0
  split at hf0 <;> simp at hf0
  rename_i r hr3
  rw [← hk] at hr3
  rcases (fi.ns hcl c cn1 hc1).1 k r hr3 hf0.1 with h | h
  · obtain ⟨j, t', hj, he⟩ := sp.has_before h
    exact ⟨j, t', hj, Or.inl he⟩
  · obtain ⟨j, t', hj, he⟩ := sp.has_before h
    exact ⟨j, t', hj, Or.inr he⟩

/-- `errShutdownTimeout` is only reported by a call that has lasted longer than the transport's cap -/
theorem obs_timeout_late (hle : ∀ s a, ok s a = true → okWin s a = true)
    (hr : run cfg (init n) acts = some sF) (hok : allOk ok cfg (init n) acts = true) {p : Params} (hp : ParamsOk p cfg n)
    (i k ts r tt : Nat) (hi : (obsRun cfg (init n) acts)[i]? = some (TEv.mk (.S k) ts))
    (hrr : (obsRun cfg (init n) acts)[r]? = some (TEv.mk (.T k "timeout") tt)) : p.maxWait < tt - ts := by
  obtain ⟨_, acts1, acts2, s1, s1', e, sp, he, hret, hS⟩ := split_ST hr hok hi hrr
  have he : e = .timeout := errStr_inj (e' := .timeout) he.symm
  subst he
  have fi := run_fullInv hle sp.run1 sp.ok1
  obtain ⟨hwn, rfl, t, hw⟩ := ret_winner fi.ai hret (by simp)
  have h1 := fi.ti.retTo t hw
  have h2 := fi.ai.si.retNow _ t hw
  have h3 := fi.ws hwn ts hS
  have h4 : tt = s1.now := sp.tm
  have := hp.maxWait
  omega

/-- every registered hook has been started by the end of the run (no hook goroutine is left unscheduled) -/
def HooksStarted (s : State) : Prop := ∀ h ∈ s.hooks, h ≠ .spawned

/-- **hooksRun, on the observed sequence.**  If some `Shutdown` call returned `nil`: every registered hook
has started (for a run in which no hook goroutine is left unscheduled); and if the call returned more
than 2 ms before `ExitWaitTimeout` had elapsed, every hook had ended and every handler that had been
entered had returned before the call returned. -/
theorem obs_hooksRun (hle : ∀ s a, ok s a = true → okWin s a = true)
    (hr : run cfg (init n) acts = some sF) (hok : allOk ok cfg (init n) acts = true) {p : Params} (hp : ParamsOk p cfg n)
    (hst : HooksStarted sF) : hooksRun p (obsRun cfg (init n) acts).toArray = [] := by
  have fiF := run_fullInv hle hr hok
  apply hooksRun_nil
  · intro w hw j hj
    obtain ⟨k, tw, hw⟩ := holdsAt_isTnil.1 hw
    obtain ⟨acts1, a, acts2, s1, s1', sp⟩ := obsRun_split cfg ok acts hr hok hw
    have ai1 := run_allInv cfg n ok hle acts1 (allInv_init n) sp.run1 sp.ok1
    have hp1 := tnil_postClose ai1 sp.st sp.ev
    have ai1' := step_allInv cfg n ai1 (hle _ _ sp.oka) sp.st
    have hp1' := step_postClose cfg ai1.inv hp1 (step_Step cfg sp.st)
    have hpF := run_with_allInv cfg n ok hle (fun s => postClose s.win = true)
      (fun s a s' ai hp _ hS => step_postClose cfg ai.inv hp hS) acts2 ai1' hp1' sp.run2 sp.ok2
    have hlen := fiF.ai.hk.2
    rw [hp.nHooks, ← hlen] at hj
    obtain ⟨ph, hph⟩ : ∃ ph, sF.hooks[j]? = some ph := ⟨_, List.getElem?_eq_getElem hj⟩
    have hmem := List.mem_of_getElem? hph
    have h1 := fiF.ai.inv.spawned (by intro h; simp [h, postClose] at hpF) (by intro h; simp [h, postClose] at hpF) ph hmem
    have h2 := hst ph hmem
    have : Has (obsRun cfg (init n) acts) (.HS j) := by
      apply fiF.m1.mHS
      cases ph <;> simp_all
    obtain ⟨i, _, hi⟩ := has_idx this
    exact ⟨i, hi⟩
  · intro w k tw s ts hwk hsk hearly
    obtain ⟨hsw, acts1, acts2, s1, s1', e, sp, he, hret, hS⟩ := split_ST hr hok hsk hwk
    have he : e = .nil := errStr_inj (e' := .nil) he.symm
    subst he
    have fi := run_fullInv hle sp.run1 sp.ok1
    obtain ⟨hwn, rfl, t, hw⟩ := ret_winner fi.ai hret (by simp)
    have hnp : s1.win ≠ .pre := by simp [hw]
    have h1 := fi.ti.dlGe hwn hnp
    have h2 := fi.ai.si.retNow _ t hw
    have h3 := fi.ws hwn ts hS
    have h4 : tw = s1.now := sp.tm
    have h5 := hp.exitWait
    have htdl : t < s1.dl := by omega
    constructor
    · intro j hj
      have hdone := fi.ai.inv.retHooks _ t hw htdl
      rw [hp.nHooks, ← fi.ai.hk.2] at hj
      obtain ⟨ph, hph⟩ : ∃ ph, s1.hooks[j]? = some ph := ⟨_, List.getElem?_eq_getElem hj⟩
      have := hooksDone_get hdone hph
      subst this
      obtain ⟨i, t', hi, hev⟩ := sp.has_before (fi.m1.mHE j hph)
      exact ⟨i, hi, holdsAt_eq.2 ⟨t', hev⟩⟩
    · intro i c q rc t' hi hq
      have hgone : allGone s1 := by
        rcases (fi.ai.gd fi.ai.ns).2 t hw with h | h
        · omega
        · exact h
      rw [sp.before hi] at hq
      obtain ⟨cn, hcn, hlt⟩ := fi.m2.mQ c q rc (has_of_getElem? hq)
      have hph := hgone cn (List.mem_of_getElem? hcn)
      obtain ⟨b, hb⟩ := fi.mx c cn hcn q (by simpa [hph, inH] using hlt)
      obtain ⟨i', t'', hi', hev⟩ := sp.has_before hb
      exact ⟨i', b, t'', hi', hev⟩

/-! ### an early return has waited for every connection -/

theorem connsWaited_nil (p : Params) (l : List TEv)
    (h : ∀ (w k tw s ts i c q : Nat) (rc : Bool) (t : Nat), l[w]? = some (TEv.mk (.T k "nil") tw) → l[s]? = some (TEv.mk (.S k) ts) →
      tw - ts + 2000 < p.exitWait → w < i → l[i]? = some (TEv.mk (.Q c q rc) t) → False) :
    connsWaited p l.toArray = [] := by
  unfold connsWaited
  split
  · rfl
  · rename_i w hw
    have hw' := lastIdxOf?_some hw
    obtain ⟨k, tw, hwk⟩ := holdsAt_isTnil.1 hw'
    split
    · rfl
    · rename_i s hs
      unfold winnerCall at hs
      rw [evAt_list, hwk] at hs
      simp only at hs
      obtain ⟨ts, hsk⟩ := holdsAt_eq.1 (idxOf?_some hs).1
      rw [timeAt_list hwk, timeAt_list hsk]
      simp only
      split
      · rfl
      · rename_i hearly
        have hearly : tw - ts + 2000 < p.exitWait := by simpa using hearly
        rw [List.filterMap_eq_nil_iff]
        intro i _
        split
        · rename_i c q rc t heq
          rw [evAt_list] at heq
          split
          · rename_i hwi
            exact (h w k tw s ts i c q rc t hwk hsk hearly hwi heq).elim
          · rfl
        · rfl

theorem step_allGone (cfg : Cfg) {s s' : State} {a : Act} (ai : AllInv n s) (hg : allGone s ∧ postClose s.win = true)
    (h : Step cfg s a s') : allGone s' ∧ postClose s'.win = true := by
  refine ⟨?_, step_postClose cfg ai.inv hg.2 h⟩
  obtain ⟨hg, hp⟩ := hg
  unfold allGone at *
  cases h
  case accept hr ho =>
    have := (ai.inv.closed hp ai.ns).1
    simp [ho] at this
  case conn c f cn cn' hc hf hca _ =>
    exact allGone_set hg ((connStep_gone_iff (connStep_of hca hf)).2 (hg cn (List.mem_of_getElem? hc)))
  case connGone c cn cn' hc hf =>
    unfold cGone at hf; split at hf <;> simp at hf; subst hf
    exact allGone_set hg rfl
  all_goals exact hg

/-- **connsWaited, on the observed sequence.**  After a `Shutdown` call that returned `nil` more than 2 ms
before `ExitWaitTimeout` had elapsed, no request enters a handler: every connection was gone when the
call returned, and none is accepted afterwards. -/
theorem obs_connsWaited (hle : ∀ s a, ok s a = true → okWin s a = true)
    (hr : run cfg (init n) acts = some sF) (hok : allOk ok cfg (init n) acts = true) {p : Params} (hp : ParamsOk p cfg n) :
    connsWaited p (obsRun cfg (init n) acts).toArray = [] := by
  apply connsWaited_nil
  intro w k tw s ts i c q rc tq hwk hsk hearly hwi hq
  obtain ⟨hsw, acts1, acts2, s1, s1', e, sp, he, hret, hS⟩ := split_ST hr hok hsk hwk
  have he : e = .nil := errStr_inj (e' := .nil) he.symm
  subst he
  have fi := run_fullInv hle sp.run1 sp.ok1
  obtain ⟨hwn, rfl, t, hw⟩ := ret_winner fi.ai hret (by simp)
  have hnp : s1.win ≠ .pre := by simp [hw]
  have h1 := fi.ti.dlGe hwn hnp
  have h2 := fi.ai.si.retNow _ t hw
  have h3 := fi.ws hwn ts hS
  have h4 : tw = s1.now := sp.tm
  have h5 := hp.exitWait
  have hgone : allGone s1 := by
    rcases (fi.ai.gd fi.ai.ns).2 t hw with h | h
    · omega
    · exact h
  have hpc : postClose s1.win = true := by simp [hw, postClose]
  have ai1' := step_allInv cfg n fi.ai (hle _ _ sp.oka) sp.st
  have hg1' := step_allGone cfg fi.ai ⟨hgone, hpc⟩ (step_Step cfg sp.st)
  rw [sp.after hwi] at hq
  obtain ⟨acts3, a3, acts4, s3, s3', sp3⟩ := obsRun_split cfg ok acts2 sp.run2 sp.ok2 hq
  have hg3 := run_with_allInv cfg n ok hle (fun s => allGone s ∧ postClose s.win = true)
    (fun s a s' ai hp _ hS => step_allGone cfg ai hp hS) acts3 ai1' hg1' sp3.run1 sp3.ok1
  obtain ⟨rfl, cn3, hc3, _⟩ := obsAct_Q sp3.ev
  have hph := hg3.1 cn3 (List.mem_of_getElem? hc3)
  have hst := sp3.st
  simp only [step] at hst
  obtain ⟨cn0, cn', hc0, hf0, _⟩ := updConn_some hst
  rw [hc3] at hc0; cases hc0
  simp [cReqArrive, hph] at hf0

end clauses

/-- `okListen` (no `Shutdown` call before the listener exists) is a special case of `okWin`: along a run that
respects it, no CAS is even attempted before the listener exists -/
theorem allOk_okListen_okWin (cfg : Cfg) : ∀ (acts : List Act) {s sF : State}, Inv s → SI1 s → CallGuard s →
    run cfg s acts = some sF → allOk okListen cfg s acts = true → allOk okWin cfg s acts = true
  | [], _, _, _, _, _, _, _ => rfl
  | a :: t, s, sF, inv, si, cg, hr, hok => by
    simp only [run] at hr
    simp only [allOk, Bool.and_eq_true] at hok ⊢
    cases hs : step cfg s a with
    | none => simp [hs] at hr
    | some s' =>
      simp only [hs] at hr hok ⊢
      refine ⟨?_, allOk_okListen_okWin cfg t (step_inv cfg inv hs) (step_SI1 cfg inv si (step_Step cfg hs))
        (step_callGuard cfg inv si.lnStatus cg hok.1 (step_Step cfg hs)) hr hok.2⟩
      cases a <;> try rfl
      rename_i k
      have hne : s.callers ≠ [] := by
        intro h
        simp [step, h] at hs
      simp [okWin, cg.1 hne]

theorem callGuard_init (n : Nat) : CallGuard (init n) := by
  constructor <;> simp [init]

theorem si1_init (n : Nat) : SI1 (init n) := (allInv_init n).si

end Hertz.Shutdown
