import Hertz.Model.Http1.Serve
/-!
Size bounds of the request reader model: a parsed chunk size fits a Go `int`, and no request whose body
exceeds `MaxRequestBodySize` is ever handed to a handler (buffered bodies).
-/
namespace Hertz.H1
open Hertz

set_option maxRecDepth 100000 in
theorem tbl_hex2int_le : allBytes (fun c => decide ((hex2int c).toNat ≤ 16)) = true := by decide +kernel

theorem hex2int_le (c : UInt8) : (hex2int c).toNat ≤ 16 := by
  have := allBytes_spec tbl_hex2int_le c
  simpa using this

theorem readHexIntAux_bound (e : End) (s : Bytes) : ∀ (n i : Nat) (r : Nat) (rest : Bytes),
    i ≤ Gen.maxHexIntChars.toNat → n < 16 ^ i →
    readHexIntAux e n i s = .ok (r, rest) → r < 16 ^ Gen.maxHexIntChars.toNat := by
  induction s with
  | nil =>
    intro n i r rest hi hn h
    simp only [readHexIntAux] at h
    split at h
    · cases h
      exact Nat.lt_of_lt_of_le hn (Nat.pow_le_pow_right (by decide) hi)
    · cases h
  | cons c t ih =>
    intro n i r rest hi hn h
    simp only [readHexIntAux] at h
    split at h
    · split at h
      · cases h
      · cases h
        exact Nat.lt_of_lt_of_le hn (Nat.pow_le_pow_right (by decide) hi)
    · split at h
      · cases h
      · rename_i hk hge
        have hlt : i < Gen.maxHexIntChars.toNat := Nat.lt_of_not_ge hge
        refine ih (n * 16 + (hex2int c).toNat) (i + 1) r rest hlt ?_ h
        have hk16 : (hex2int c).toNat < 16 := by
          have h1 := hex2int_le c
          have h2 : (hex2int c).toNat ≠ 16 := by
            intro h3
            apply hk
            exact UInt8.toNat_inj.mp (by simpa using h3)
          omega
        rw [Nat.pow_succ]
        omega

theorem parseChunkSize_bound (e : End) (s : Bytes) (n : Nat) (rest : Bytes)
    (h : parseChunkSize e s = .ok (n, rest)) : n < 16 ^ Gen.maxHexIntChars.toNat := by
  unfold parseChunkSize at h
  split at h
  · cases h
  · cases h
  · rename_i m r hr
    split at h
    · cases h
    · cases h
      exact readHexIntAux_bound e s 0 0 _ _ (Nat.zero_le _) (by decide) hr

/-- the body accumulated by the chunked reader never exceeds the limit -/
theorem readBodyChunked_le (e : End) (maxBody : Nat) (hm : maxBody > 0) :
    ∀ (fuel : Nat) (dst s body rest : Bytes), dst.length ≤ maxBody →
      readBodyChunked e maxBody fuel dst s = .ok (body, rest) → body.length ≤ maxBody := by
  intro fuel
  induction fuel with
  | zero => intro dst s body rest _ h; simp [readBodyChunked] at h
  | succ fuel ih =>
    intro dst s body rest hd h
    simp only [readBodyChunked, bind, Except.bind] at h
    split at h
    · cases h
    · rename_i v hv
      obtain ⟨size, r1⟩ := v
      simp only at h
      split at h
      · cases h; exact hd
      · split at h
        · cases h
        · rename_i hz hlim
          split at h
          · cases h
          · rename_i v2 hv2
            obtain ⟨chunk, r2⟩ := v2
            simp only at h
            split at h
            · cases h
            · refine ih _ _ _ _ ?_ h
              simp only [List.length_append, List.length_take]
              have : ¬ (maxBody > 0 ∧ dst.length + size > maxBody) := hlim
              omega

theorem takeN_len (e : End) (n : Nat) (s b rest : Bytes) (h : takeN e n s = .ok (b, rest)) : b.length = n := by
  unfold takeN at h
  split at h
  · cases h; simp only [List.length_take]; omega
  · cases h

theorem continueReadBody_le (cfg : Cfg) (e : End) (hd hd' : ReqHead) (s body rest : Bytes) (tr : List (Bytes × Bytes))
    (hm : cfg.maxBody > 0) (h : continueReadBody cfg e hd s = .ok hd' body tr rest) : body.length ≤ cfg.maxBody := by
  unfold continueReadBody at h
  simp only at h
  split at h
  · split at h
    · cases h
    · rename_i hlim
      split at h
      · cases h
      · split at h
        · rename_i b r hb
          cases h
          have := takeN_len e _ _ _ _ hb
          have : ¬ (cfg.maxBody > 0 ∧ hd.cl.toNat > cfg.maxBody) := hlim
          omega
        · cases h
  · split at h
    · cases h; simp
    · split at h
      · split at h
        · cases h
        · rename_i b r hb
          have hle := readBodyChunked_le e cfg.maxBody hm _ _ _ _ _ (by simp) hb
          split at h
          · cases h
          · cases h; exact hle
          · cases h; exact hle
      · cases h; simp

/-- every request handed to the handler has a body within the configured limit -/
theorem serveLoop_body_le (cfg : Cfg) (e : End) (hm : cfg.maxBody > 0) :
    ∀ (fuel : Nat) (first : Bool) (s : Bytes) (sn : Seen), Ev.req sn ∈ serveLoop cfg e fuel first s →
      sn.body.length ≤ cfg.maxBody := by
  intro fuel
  induction fuel with
  | zero => intro first s sn h; simp [serveLoop] at h
  | succ fuel ih =>
    intro first s sn h
    simp only [serveLoop] at h
    split at h
    · simp at h
    · split at h
      · simp at h
      · split at h <;> split at h <;> simp at h
      · rename_i hd n hp
        split at h
        · simp only [List.mem_append, List.mem_singleton] at h
          rcases h with h | h
          · split at h <;> simp at h
          · cases h
        · simp only [List.mem_append] at h
          rcases h with h | h
          · split at h <;> simp at h
          · split at h
            · simp at h
            · split at h <;> simp at h
        · rename_i hd' body tr rest hb
          simp only [List.mem_append, List.mem_cons, List.mem_singleton] at h
          rcases h with (h | h) | h
          · split at h <;> simp at h
          · rcases h with h | h
            · cases h
              exact continueReadBody_le cfg e _ _ _ _ _ _ hm hb
            · rcases h with h | h
              · cases h
              · simp at h
          · split at h
            · simp at h
            · exact ih _ _ _ h

theorem serve_body_le (cfg : Cfg) (e : End) (hm : cfg.maxBody > 0) (s : Bytes) (sn : Seen)
    (h : Ev.req sn ∈ serve cfg e s) : sn.body.length ≤ cfg.maxBody :=
  serveLoop_body_le cfg e hm _ _ _ _ h

end Hertz.H1
