import Hertz.Proofs.ShutdownSpecSched
/-!
`shutdown_bounded` on the observed sequence: in the observable projection of every run of the
interleaving model that respects the scheduling discipline `okSched` (the clock advances only while
every goroutine that could move on its own is blocked) and in which every `Shutdown` call has returned
to its caller, each `S k` is followed by a `T k err`, no `err` is `"hang"`, and the call lasted at most
`exitWait + tick (+ slack)`.
-/
namespace Hertz.Shutdown
open Hertz.ShutdownSpec

/-- the state / event-sequence invariant behind the time bound -/
structure BI (cfg : Cfg) (s : State) (tr : List TEv) : Prop where
  /-- a call that has been observed has a caller record -/
  b0 : ∀ k t, TEv.mk (.S k) t ∈ tr → k < s.callers.length
  /-- a caller that is about to take a non-blocking step (and is not the CAS winner) was called "now" -/
  b1 : ∀ k p t, s.callers[k]? = some p → callerQuiet p = false → (s.win = .none ∨ k ≠ s.winK) →
      TEv.mk (.S k) t ∈ tr → s.now ≤ t
  /-- the winner's call was made at the time of its CAS -/
  b2 : s.win ≠ .none → ∀ t, TEv.mk (.S s.winK) t ∈ tr → s.tcas ≤ t
  /-- the winner hands the result to its caller without delay -/
  b3 : ∀ e t, s.win = .returned e t → s.callers[s.winK]? = some (.returned e) → s.now ≤ t
  /-- the bound, for the calls that have returned -/
  b4 : ∀ k err tt ts, TEv.mk (.T k err) tt ∈ tr → TEv.mk (.S k) ts ∈ tr → tt ≤ ts + cfg.exitWait + cfg.tick
  /-- a caller that has returned has been observed returning -/
  b5 : ∀ k e, s.callers[k]? = some (.finished e) → Has tr (.T k (errStr e))

theorem bi_init (cfg : Cfg) (n : Nat) : BI cfg (init n) [] := by
  constructor <;> simp [init]

/-- steps that leave callers, clock and the ghosts alone, keep `win` (or move it between phases of the
running winner), and are not observed as `S` / `T` -/
theorem BI.frame {cfg : Cfg} {s s' : State} {tr l : List TEv} (h : BI cfg s tr)
    (hc : s'.callers = s.callers) (hn : s'.now = s.now) (hk : s'.winK = s.winK) (ht : s'.tcas = s.tcas)
    (hw : s'.win = s.win ∨ (s.win ≠ .none ∧ s'.win ≠ .none ∧ ∀ e t, s'.win ≠ .returned e t))
    (hS : ∀ k t, TEv.mk (.S k) t ∉ l) (hT : ∀ k err t, TEv.mk (.T k err) t ∉ l) : BI cfg s' (tr ++ l) := by
  have mS : ∀ {k t}, TEv.mk (.S k) t ∈ tr ++ l → TEv.mk (.S k) t ∈ tr := by
    intro k t hm
    rcases List.mem_append.1 hm with hm | hm
    · exact hm
    · exact absurd hm (hS k t)
  have mT : ∀ {k err t}, TEv.mk (.T k err) t ∈ tr ++ l → TEv.mk (.T k err) t ∈ tr := by
    intro k err t hm
    rcases List.mem_append.1 hm with hm | hm
    · exact hm
    · exact absurd hm (hT k err t)
  refine ⟨?_, ?_, ?_, ?_, ?_, ?_⟩
  · intro k t hm; rw [hc]; exact h.b0 k t (mS hm)
  · intro k p t hp hq hwk hm
    rw [hc] at hp; rw [hn]
    refine h.b1 k p t hp hq ?_ (mS hm)
    rcases hw with hw | ⟨_, h2, _⟩
    · rw [hw, hk] at hwk; exact hwk
    · rcases hwk with hwk | hwk
      · exact absurd hwk h2
      · right; rw [hk] at hwk; exact hwk
  · intro hne t hm
    rw [hk] at hm; rw [ht]
    refine h.b2 ?_ t (mS hm)
    rcases hw with hw | ⟨h1, _, _⟩
    · rw [hw] at hne; exact hne
    · exact h1
  · intro e t hwe hp
    rcases hw with hw | ⟨_, _, h3⟩
    · rw [hw] at hwe; rw [hc, hk] at hp; rw [hn]; exact h.b3 e t hwe hp
    · exact absurd hwe (h3 e t)
  · intro k err tt ts h1 h2; exact h.b4 k err tt ts (mT h1) (mS h2)
  · intro k e hp; rw [hc] at hp; exact (h.b5 k e hp).mono _

/-- a caller that is `called` / `loaded` moves on (load, lost CAS) -/
theorem BI.setActive {cfg : Cfg} {s : State} {tr : List TEv} (bi : BI cfg s tr) (wc : WinCaller s) {k0 : Nat} {p0 q : CallerPh}
    (h0 : s.callers[k0]? = some p0) (hp0 : p0 = .called ∨ p0 = .loaded) (hq : ∀ e, q ≠ .finished e) :
    BI cfg { s with callers := s.callers.set k0 q } tr := by
  have hnq0 : callerQuiet p0 = false := by rcases hp0 with rfl | rfl <;> rfl
  refine ⟨?_, ?_, bi.b2, ?_, bi.b4, ?_⟩
  · intro k t hm
    have := bi.b0 k t hm
    simpa using this
  · intro k p t hp hnq hwk hm
    by_cases hkk : k0 = k
    · subst hkk; exact bi.b1 k0 p0 t h0 hnq0 hwk hm
    · have hp' : s.callers[k]? = some p := by simpa [List.getElem?_set_ne hkk] using hp
      exact bi.b1 k p t hp' hnq hwk hm
  · intro e t hwe hp
    have hne : s.win ≠ .none := by intro h; rw [h] at hwe; cases hwe
    by_cases hkk : k0 = s.winK
    · exfalso
      obtain ⟨p, hp', hok⟩ := wc hne
      rw [← hkk, h0] at hp'; cases hp'
      have := winCallerOk_ne hne hok
      rcases hp0 with rfl | rfl
      · exact this.1 rfl
      · exact this.2.1 rfl
    · have hp' : s.callers[s.winK]? = some (.returned e) := by simpa [List.getElem?_set_ne hkk] using hp
      exact bi.b3 e t hwe hp'
  · intro k e hp
    by_cases hkk : k0 = k
    · subst hkk
      have : q = .finished e := by simpa [List.getElem?_set, getElem?_lt h0] using hp
      exact absurd this (hq e)
    · have hp' : s.callers[k]? = some (.finished e) := by simpa [List.getElem?_set_ne hkk] using hp
      exact bi.b5 k e hp'

theorem winnerRet_finished {e e' : Err} {q : CallerPh} (h : winnerRet e q = .finished e') : q = .finished e' := by
  cases q <;> simp_all [winnerRet]

theorem winnerRet_pend {e : Err} {q : CallerPh} (h : pendOrErr q) : winnerRet e q = q := by
  cases q <;> simp_all [winnerRet, pendOrErr]

set_option maxHeartbeats 1000000 in
theorem step_BI (cfg : Cfg) (n : Nat) {s s' : State} {a : Act} {tr : List TEv} (ai : AllInv n s) (mi : MI1 s tr)
    (ti : TimeInv cfg s) (bi : BI cfg s tr) (hok : okSched s a = true) (h : Step cfg s a s') :
    BI cfg s' (tr ++ obsStep s a) := by
  cases h
  case advance d =>
    have hq : ∀ (k : Nat) (p : CallerPh), s.callers[k]? = some p → callerQuiet p = true := by
      simp only [okSched, canTick, Bool.and_eq_true, List.all_eq_true] at hok
      intro k p hp; exact hok.1.2 p (List.mem_of_getElem? hp)
    rw [show obsStep s (.advance d) = [] by simp [obsStep, obsAct], List.append_nil]
    refine ⟨bi.b0, ?_, bi.b2, ?_, bi.b4, bi.b5⟩
    · intro k p t hp hnq
      have := hq k p hp
      rw [this] at hnq; cases hnq
    · intro e t _ hp
      have := hq s.winK (.returned e) hp
      simp [callerQuiet] at this
  case shutCall =>
    rw [show obsStep s .shutCall = [TEv.mk (.S s.callers.length) s.now] by simp [obsStep, obsAct]]
    refine ⟨?_, ?_, ?_, ?_, ?_, ?_⟩
    · intro k t hm
      simp only [List.mem_append, List.mem_singleton] at hm
      show k < (s.callers ++ [CallerPh.called]).length
      rw [List.length_append, List.length_singleton]
      rcases hm with hm | hm
      · have := bi.b0 k t hm; omega
      · simp at hm; omega
    · intro k p t hp hnq hwk hm
      simp only [List.mem_append, List.mem_singleton] at hm
      show s.now ≤ t
      rcases hm with hm | hm
      · have hlt := bi.b0 k t hm
        have hp' : s.callers[k]? = some p := by simpa [List.getElem?_append_left hlt] using hp
        exact bi.b1 k p t hp' hnq hwk hm
      · simp at hm; omega
    · intro hne t hm
      simp only [List.mem_append, List.mem_singleton] at hm
      rcases hm with hm | hm
      · exact bi.b2 hne t hm
      · obtain ⟨p, hp, _⟩ := ai.wc hne
        have := getElem?_lt hp
        simp at hm; omega
    · intro e t hwe hp
      have hwe' : s.win = .returned e t := hwe
      have hne : s.win ≠ .none := by rw [hwe']; simp
      obtain ⟨p, hp', _⟩ := ai.wc hne
      have hlt := getElem?_lt hp'
      have hp2 : s.callers[s.winK]? = some (.returned e) := by simpa [List.getElem?_append_left hlt] using hp
      exact bi.b3 e t hwe' hp2
    · intro k err tt ts h1 h2
      simp only [List.mem_append, List.mem_singleton] at h1 h2
      rcases h1 with h1 | h1
      · rcases h2 with h2 | h2
        · exact bi.b4 k err tt ts h1 h2
        · simp at h2
          obtain ⟨e, he⟩ := mi.mT k err ⟨tt, h1⟩
          have := getElem?_lt he; omega
      · simp at h1
    · intro k e hp
      have hp1 : (s.callers ++ [CallerPh.called])[k]? = some (.finished e) := hp
      rw [List.getElem?_append] at hp1
      split at hp1
      · exact (bi.b5 k e hp1).mono _
      · rcases hm : k - s.callers.length with _ | m <;> simp [hm] at hp1
  case shutLoad k0 hk0 =>
    rw [show obsStep s (.shutLoad k0) = [] by simp [obsStep, obsAct], List.append_nil]
    exact bi.setActive ai.wc hk0 (Or.inl rfl) (by intro e; split <;> simp)
  case casLose k0 hk0 hs =>
    rw [show obsStep s (.shutCas k0) = [] by simp [obsStep, obsAct], List.append_nil]
    exact bi.setActive ai.wc hk0 (Or.inr rfl) (by simp)
  case casWin k0 hk0 hs =>
    rw [show obsStep s (.shutCas k0) = [] by simp [obsStep, obsAct], List.append_nil]
    have hwn : s.win = .none := by
      apply Classical.byContradiction
      intro hne
      have := ai.inv.winSt hne
      simp [hs, stRunning, stShutdown] at this
    refine ⟨?_, ?_, ?_, ?_, bi.b4, ?_⟩
    · intro k t hm
      have := bi.b0 k t hm
      simpa using this
    · intro k p t hp hnq hwk hm
      have hkk : k0 ≠ k := by
        rcases hwk with hwk | hwk
        · cases hwk
        · exact fun h => hwk h.symm
      have hp' : s.callers[k]? = some p := by simpa [List.getElem?_set_ne hkk] using hp
      exact bi.b1 k p t hp' hnq (Or.inl hwn) hm
    · intro _ t hm
      exact bi.b1 k0 .loaded t hk0 rfl (Or.inl hwn) hm
    · intro e t hwe; cases hwe
    · intro k e hp
      by_cases hkk : k0 = k
      · subst hkk
        simp [getElem?_lt hk0] at hp
      · have hp' : s.callers[k]? = some (.finished e) := by simpa [List.getElem?_set_ne hkk] using hp
        exact bi.b5 k e hp'
  case finish e0 hwin hc =>
    rw [show obsStep s .shutFinish = [] by simp [obsStep, obsAct], List.append_nil]
    have hne : s.win ≠ .none := by rw [hwin]; simp
    refine ⟨?_, ?_, fun _ => bi.b2 hne, ?_, bi.b4, ?_⟩
    · intro k t hm
      have := bi.b0 k t hm
      simpa using this
    · intro k p t hp hnq hwk hm
      have hkk : k ≠ s.winK := by
        rcases hwk with hwk | hwk
        · cases hwk
        · exact hwk
      have hp1 : (s.callers.map (winnerRet e0))[k]? = some p := hp
      rw [List.getElem?_map, Option.map_eq_some_iff] at hp1
      obtain ⟨q, hq, hqp⟩ := hp1
      have := winnerRet_pend (e := e0) (ai.co k q hq (Or.inr hkk))
      rw [this] at hqp; subst hqp
      exact bi.b1 k q t hq hnq (Or.inr hkk) hm
    · intro e t hwe _
      have : WinPh.returned e0 s.now = WinPh.returned e t := hwe
      injection this with _ h2
      show s.now ≤ t
      omega
    · intro k e hp
      have hp1 : (s.callers.map (winnerRet e0))[k]? = some (.finished e) := hp
      rw [List.getElem?_map, Option.map_eq_some_iff] at hp1
      obtain ⟨q, hq, hqp⟩ := hp1
      have := winnerRet_finished hqp; subst this
      exact bi.b5 k e hq
  case callerRet k0 e0 hk0 =>
    rw [show obsStep s (.callerRet k0 e0) = [TEv.mk (.T k0 (errStr e0)) s.now] by simp [obsStep, obsAct]]
    have mS : ∀ {k t}, TEv.mk (.S k) t ∈ tr ++ [TEv.mk (.T k0 (errStr e0)) s.now] → TEv.mk (.S k) t ∈ tr := by
      intro k t hm
      simp only [List.mem_append, List.mem_singleton] at hm
      rcases hm with hm | hm
      · exact hm
      · simp at hm
    refine ⟨?_, ?_, ?_, ?_, ?_, ?_⟩
    · intro k t hm
      have := bi.b0 k t (mS hm)
      simpa using this
    · intro k p t hp hnq hwk hm
      by_cases hkk : k0 = k
      · subst hkk
        have : CallerPh.finished e0 = p := by simpa [List.getElem?_set, getElem?_lt hk0] using hp
        subst this
        simp [callerQuiet] at hnq
      · have hp' : s.callers[k]? = some p := by simpa [List.getElem?_set_ne hkk] using hp
        exact bi.b1 k p t hp' hnq hwk (mS hm)
    · intro hne t hm
      exact bi.b2 hne t (mS hm)
    · intro e t hwe hp
      by_cases hkk : k0 = s.winK
      · exfalso
        have hp1 : (s.callers.set k0 (.finished e0))[s.winK]? = some (.returned e) := hp
        rw [← hkk] at hp1
        simp [getElem?_lt hk0] at hp1
      · have hp' : s.callers[s.winK]? = some (.returned e) := by simpa [List.getElem?_set_ne hkk] using hp
        exact bi.b3 e t hwe hp'
    · intro k err tt ts h1 h2
      have h2' := mS h2
      simp only [List.mem_append, List.mem_singleton] at h1
      rcases h1 with h1 | h1
      · exact bi.b4 k err tt ts h1 h2'
      · simp at h1
        obtain ⟨⟨rfl, _⟩, rfl⟩ := h1
        by_cases hwk : s.win = .none ∨ k ≠ s.winK
        · have := bi.b1 k (.returned e0) ts hk0 rfl hwk h2'
          omega
        · have hne : s.win ≠ .none := fun h => hwk (Or.inl h)
          have hkk : k = s.winK := Classical.byContradiction fun h => hwk (Or.inr h)
          obtain ⟨p, hp, hokp⟩ := ai.wc hne
          rw [← hkk, hk0] at hp; cases hp
          obtain ⟨t, ht⟩ := (winCallerOk_ne hne hokp).2.2 e0 rfl
          have h3 := bi.b3 e0 t ht (by rw [← hkk]; exact hk0)
          have h2b := bi.b2 hne ts (by rw [← hkk]; exact h2')
          have hti : t ≤ s.tcas + cfg.exitWait + cfg.tick := by
            have := ti
            unfold TimeInv at this
            rw [ht] at this
            exact this
          omega
    · intro k e hp
      by_cases hkk : k0 = k
      · subst hkk
        have : e0 = e := by simpa [List.getElem?_set, getElem?_lt hk0] using hp
        subst this
        simp
      · have hp' : s.callers[k]? = some (.finished e) := by simpa [List.getElem?_set_ne hkk] using hp
        exact (bi.b5 k e hp').mono _
  case conn c f cn cn' hc hf hca _ =>
    cases connStep_of hca hf <;>
      exact bi.frame rfl rfl rfl rfl (Or.inl rfl) (by simp [obsStep, obsAct, hc]) (by simp [obsStep, obsAct, hc])
  case spawn hw =>
    exact bi.frame rfl rfl rfl rfl (Or.inr ⟨by rw [hw]; simp, by simp, by simp⟩) (by simp [obsStep, obsAct]) (by simp [obsStep, obsAct])
  case closeLn hw =>
    exact bi.frame rfl rfl rfl rfl (Or.inr ⟨by rw [hw]; simp, by simp, by simp⟩) (by simp [obsStep, obsAct]) (by simp [obsStep, obsAct])
  case tick1 hw _ =>
    exact bi.frame rfl rfl rfl rfl (Or.inr ⟨by rw [hw]; simp, by simp only []; split <;> simp, by intro e t; simp only []; split <;> simp⟩)
      (by simp [obsStep, obsAct]) (by simp [obsStep, obsAct])
  case tickLoop t0 hw _ =>
    exact bi.frame rfl rfl rfl rfl
      (Or.inr ⟨by rw [hw]; simp, by simp only []; (repeat' split) <;> simp, by intro e t; simp only []; (repeat' split) <;> simp⟩)
      (by simp [obsStep, obsAct]) (by simp [obsStep, obsAct])
  case ctxDone t0 hw _ =>
    exact bi.frame rfl rfl rfl rfl (Or.inr ⟨by rw [hw]; simp, by simp, by simp⟩) (by simp [obsStep, obsAct]) (by simp [obsStep, obsAct])
  all_goals exact bi.frame rfl rfl rfl rfl (Or.inl rfl) (by simp [obsStep, obsAct]) (by simp [obsStep, obsAct])

/-- everything the time bound needs, as one invariant over `(state, events so far)` -/
def BJ (cfg : Cfg) (n : Nat) (s : State) (tr : List TEv) : Prop :=
  AllInv n s ∧ MI1 s tr ∧ TimeInv cfg s ∧ BI cfg s tr

theorem run_BJ (cfg : Cfg) (n : Nat) {acts : List Act} {sF : State} (hr : run cfg (init n) acts = some sF)
    (hok : allOk okSched cfg (init n) acts = true) : BJ cfg n sF (obsRun cfg (init n) acts) := by
  have := run_traceInv cfg okSched (BJ cfg n)
    (fun s tr a s' hJ hk hs =>
      ⟨step_allInv cfg n hJ.1 (okSched_okWin _ _ hk) hs, step_MI1 cfg hJ.2.1 (step_Step cfg hs),
        step_timeInv cfg hJ.1.inv hJ.2.2.1 (okSched_actOk _ _ hk) hs,
        step_BI cfg n hJ.1 hJ.2.1 hJ.2.2.1 hJ.2.2.2 hk (step_Step cfg hs)⟩)
    acts (s := init n) (tr := []) ⟨allInv_init n, mi1_init n, by simp [TimeInv, init], bi_init cfg n⟩ hr hok
  simpa using this

theorem errStr_ne_hang (e : Err) : errStr e ≠ "hang" := by
  cases e <;> decide

/-- **shutdown_bounded, on the observed sequence.**  In the observable projection of every run that
respects `okSched` and ends with every `Shutdown` call returned: every `S k` is followed by a `T k`,
no caller hangs, and every call lasts at most `exitWait + tick + slack`. -/
theorem obs_bounded {p : Params} {cfg : Cfg} {n : Nat} {acts : List Act} {sF : State} (hp : ParamsOk p cfg n)
    (hr : run cfg (init n) acts = some sF) (hok : allOk okSched cfg (init n) acts = true) (hfin : CallersDone sF) :
    bounded p (obsRun cfg (init n) acts).toArray = [] := by
  apply bounded_nil
  intro i k ts hi
  obtain ⟨_, _, _, bi⟩ := run_BJ cfg n hr hok
  have hiS := List.mem_of_getElem? hi
  -- the step that produced `S k`
  obtain ⟨acts1, a, acts2, s1, s1', sp⟩ := obsRun_split cfg okSched acts hr hok hi
  obtain ⟨rfl, hk⟩ := obsAct_S sp.ev
  have mi1 := run_MI1 cfg n sp.run1
  have hafter : ∀ (j : Nat) (err : String) (tt : Nat), (obsRun cfg (init n) acts)[j]? = some (TEv.mk (.T k err) tt) → i < j := by
    intro j err tt hj
    rcases Nat.lt_trichotomy j i with h | h | h
    · rw [sp.before h] at hj
      obtain ⟨e, he⟩ := mi1.mT k err (has_of_getElem? hj)
      have := getElem?_lt he
      omega
    · subst h; rw [hi] at hj; cases hj
    · exact h
  constructor
  · have hlt := bi.b0 k ts hiS
    have hmem : sF.callers[k] ∈ sF.callers := List.getElem_mem hlt
    obtain ⟨e, he⟩ := hfin _ hmem
    have hk' : sF.callers[k]? = some (.finished e) := by rw [List.getElem?_eq_getElem hlt, he]
    obtain ⟨tt, htt⟩ := bi.b5 k e hk'
    obtain ⟨j, hj⟩ := List.mem_iff_getElem?.1 htt
    exact ⟨j, errStr e, tt, hafter j _ tt hj, hj⟩
  · intro j err tt hij hj
    constructor
    · obtain ⟨acts3, a3, acts4, s3, s3', sp3⟩ := obsRun_split cfg okSched acts hr hok hj
      obtain ⟨e, _, rfl⟩ := obsAct_T sp3.ev
      exact errStr_ne_hang e
    · have := bi.b4 k err tt ts (List.mem_of_getElem? hj) hiS
      have h1 := hp.exitWait
      have h2 := hp.tick
      omega

/-! ### non-vacuity: a run with clock advances that satisfies all hypotheses of `obs_bounded` -/

def demoCfg : Cfg := { exitWait := 50 }

def demoActs : List Act :=
  [.advance 3, .init, .markRunning, .listen, .advance 4, .shutCall, .shutLoad 0, .shutCas 0, .shutSpawn, .shutCloseLn,
   .advance 10, .shutTick1, .hookStart 0, .advance 5, .hookEnd 0, .shutFinish, .callerRet 0 .nil,
   .advance 7, .shutCall, .shutLoad 1, .callerRet 1 .notRunning, .advance 2]

example : allOk okSched demoCfg (init 1) demoActs = true := by decide

theorem demo_callers : (run demoCfg (init 1) demoActs).map (·.callers) = some [.finished .nil, .finished .notRunning] := by
  decide

/-- what is observed: the first call lasts 15 clock units (tick + hook), the second returns at once -/
example : (obsRun demoCfg (init 1) demoActs).map (fun e => (e.ev, e.t)) =
    [(.L, 3), (.S 0, 7), (.HS 0, 17), (.HE 0, 22), (.T 0 "nil", 22), (.S 1, 29), (.T 1 "notrunning", 29)] := by decide

/-- `obs_bounded` applies to the demo run (all hypotheses are satisfiable together) -/
example : bounded { exitWait := 50, tick := 10, slack := 0, nHooks := 1, maxWait := 30000 }
    (obsRun demoCfg (init 1) demoActs).toArray = [] := by
  have hc := demo_callers
  cases hr : run demoCfg (init 1) demoActs with
  | none => rw [hr] at hc; simp at hc
  | some sF =>
    rw [hr] at hc
    have hcs : sF.callers = [.finished .nil, .finished .notRunning] := by simpa using hc
    refine obs_bounded (cfg := demoCfg) (n := 1) (sF := sF) ⟨rfl, by decide, rfl, by decide⟩ hr (by decide) ?_
    intro p hp
    rw [hcs] at hp
    simp at hp
    rcases hp with rfl | rfl
    · exact ⟨_, rfl⟩
    · exact ⟨_, rfl⟩

end Hertz.Shutdown
