import Hertz.Model.HttpDate
/-!
Proofs about `Model/HttpDate.lean`: the day-number / civil-date bijection, the shape of the formatted date and the round trip
`parseRFC1123 (formatHTTPDate t) = t` for every `t` whose year has four digits.
-/
namespace Hertz.HttpDate
open Hertz

/-! ### calendar arithmetic -/

theorem splitDoe (doe n100 r2 n4 r3 n1 doy : Int) (h0 : 0 ≤ doe) (h1 : doe ≤ 146096)
    (hn100 : n100 = min (doe / 36524) 3) (hr2 : r2 = doe - n100 * 36524) (hn4 : n4 = r2 / 1461)
    (hr3 : r3 = r2 % 1461) (hn1 : n1 = min (r3 / 365) 3) (hdoy : doy = r3 - n1 * 365) :
    0 ≤ n100 ∧ n100 ≤ 3 ∧ 0 ≤ n4 ∧ n4 ≤ 24 ∧ 0 ≤ n1 ∧ n1 ≤ 3 ∧ 0 ≤ doy ∧ doy ≤ 365 ∧
    doe = 36524 * n100 + 1461 * n4 + 365 * n1 + doy ∧
    (doy = 365 → n1 = 3 ∧ (n4 ≤ 23 ∨ n100 = 3)) := by
  omega

theorem yoeDiv (n100 n4 n1 yoe : Int) (a : 0 ≤ n100) (b : n100 ≤ 3) (c : 0 ≤ n4) (d : n4 ≤ 24) (e : 0 ≤ n1) (f : n1 ≤ 3)
    (hy : yoe = 100 * n100 + 4 * n4 + n1) : yoe / 4 = 25 * n100 + n4 ∧ yoe / 100 = n100 ∧ 0 ≤ yoe ∧ yoe ≤ 399 := by
  omega

theorem monthPart (doy mp d : Int) (h0 : 0 ≤ doy) (h1 : doy ≤ 365) (hmp : mp = (5 * doy + 2) / 153)
    (hd : d = doy - (153 * mp + 2) / 5 + 1) : 0 ≤ mp ∧ mp ≤ 11 ∧ 1 ≤ d ∧ d ≤ 31 := by
  omega

/-- the decomposition `civilFromDays` computes, with every intermediate quantity named -/
structure Decomp (z : Int) where
  era : Int
  doe : Int
  n100 : Int
  n4 : Int
  n1 : Int
  doy : Int
  mp : Int
  hz : z + 719468 = era * 146097 + doe
  hdoe : doe = 36524 * n100 + 1461 * n4 + 365 * n1 + doy
  b100 : 0 ≤ n100 ∧ n100 ≤ 3
  b4 : 0 ≤ n4 ∧ n4 ≤ 24
  b1 : 0 ≤ n1 ∧ n1 ≤ 3
  bdoy : 0 ≤ doy ∧ doy ≤ 365
  leapEnd : doy = 365 → n1 = 3 ∧ (n4 ≤ 23 ∨ n100 = 3)
  hmp : mp = (5 * doy + 2) / 153
  bmp : 0 ≤ mp ∧ mp ≤ 11
  civil : civilFromDays z =
    (100 * n100 + 4 * n4 + n1 + era * 400 + (if (if mp < 10 then mp + 3 else mp - 9) ≤ 2 then 1 else 0),
     (if mp < 10 then mp + 3 else mp - 9), doy - (153 * mp + 2) / 5 + 1)

def decomp (z : Int) : Decomp z := by
  have h0 : 0 ≤ (z + 719468) % 146097 := Int.emod_nonneg _ (by decide)
  have h1 : (z + 719468) % 146097 ≤ 146096 := by
    have := Int.emod_lt_of_pos (z + 719468) (show (0 : Int) < 146097 by decide)
    omega
  have s := splitDoe ((z + 719468) % 146097) _ _ _ _ _ _ h0 h1 rfl rfl rfl rfl rfl rfl
  obtain ⟨a1, a2, a3, a4, a5, a6, a7, a8, a9, a10⟩ := s
  have m := monthPart _ _ _ a7 a8 rfl rfl
  exact {
    era := (z + 719468) / 146097, doe := (z + 719468) % 146097,
    n100 := _, n4 := _, n1 := _, doy := _, mp := _,
    hz := by have := Int.mul_ediv_add_emod (z + 719468) 146097; omega
    hdoe := a9, b100 := ⟨a1, a2⟩, b4 := ⟨a3, a4⟩, b1 := ⟨a5, a6⟩, bdoy := ⟨a7, a8⟩, leapEnd := a10,
    hmp := rfl, bmp := ⟨m.1, m.2.1⟩, civil := rfl }

/-- day number → civil date → day number is the identity, for every day number. -/
theorem days_civil_days (z : Int) :
    daysFromCivil (civilFromDays z).1 (civilFromDays z).2.1 (civilFromDays z).2.2 = z := by
  have D := decomp z
  rw [D.civil]
  obtain ⟨era, doe, n100, n4, n1, doy, mp, hz, hdoe, b100, b4, b1, bdoy, _, hmp, bmp, _⟩ := D
  simp only [daysFromCivil]
  have y := yoeDiv n100 n4 n1 _ b100.1 b100.2 b4.1 b4.2 b1.1 b1.2 rfl
  by_cases hlt : mp < 10
  · simp only [hlt, if_true]
    have h2 : ¬ (mp + 3 ≤ 2) := by omega
    have h3 : mp + 3 > 2 := by omega
    simp only [h2, h3, if_false, if_true]
    have e1 : (100 * n100 + 4 * n4 + n1 + era * 400 + 0) / 400 = era := by omega
    have e2 : (100 * n100 + 4 * n4 + n1 + era * 400 + 0) % 400 = 100 * n100 + 4 * n4 + n1 := by omega
    rw [e1, e2, y.1, y.2.1]
    omega
  · simp only [hlt, if_false]
    have h2 : mp - 9 ≤ 2 := by omega
    have h3 : ¬ (mp - 9 > 2) := by omega
    simp only [h2, h3, if_false, if_true]
    have e1 : (100 * n100 + 4 * n4 + n1 + era * 400 + 1 - 1) / 400 = era := by omega
    have e2 : (100 * n100 + 4 * n4 + n1 + era * 400 + 1 - 1) % 400 = 100 * n100 + 4 * n4 + n1 := by omega
    rw [e1, e2, y.1, y.2.1]
    omega

theorem isLeap_iff (y : Int) : isLeap y = true ↔ (y % 4 = 0 ∧ (y % 100 ≠ 0 ∨ y % 400 = 0)) := by
  simp [isLeap]

/-- `civilFromDays` yields a date of the calendar: month 1..12, day 1..`daysIn`. -/
theorem civil_valid (z : Int) :
    1 ≤ (civilFromDays z).2.1 ∧ (civilFromDays z).2.1 ≤ 12 ∧ 1 ≤ (civilFromDays z).2.2 ∧
      (civilFromDays z).2.2 ≤ daysIn (civilFromDays z).2.1 (civilFromDays z).1 := by
  have D := decomp z
  rw [D.civil]
  obtain ⟨era, doe, n100, n4, n1, doy, mp, hz, hdoe, b100, b4, b1, bdoy, leapEnd, hmp, bmp, _⟩ := D
  have hm : mp = 0 ∨ mp = 1 ∨ mp = 2 ∨ mp = 3 ∨ mp = 4 ∨ mp = 5 ∨ mp = 6 ∨ mp = 7 ∨ mp = 8 ∨ mp = 9 ∨ mp = 10 ∨ mp = 11 := by
    omega
  rcases hm with h | h | h | h | h | h | h | h | h | h | h | h
  case inr.inr.inr.inr.inr.inr.inr.inr.inr.inr.inr =>
    -- February: 29 days exactly when the March-based year ends with its 366th day
    subst h
    simp only [daysIn]
    have hm2 : ((if (11 : Int) < 10 then (11 : Int) + 3 else 11 - 9)) = 2 := by decide
    rw [hm2]
    simp only [if_true, show ((2 : Int) ≤ 2) = True from by simp]
    refine ⟨by decide, by decide, by omega, ?_⟩
    by_cases hl : isLeap (100 * n100 + 4 * n4 + n1 + era * 400 + 1) = true
    · rw [if_pos hl]; omega
    · rw [if_neg hl]
      rw [isLeap_iff] at hl
      by_cases h365 : doy = 365
      · exfalso
        apply hl
        have := leapEnd h365
        omega
      · omega
  all_goals
    subst h
    simp only [daysIn]
    refine ⟨by decide, by decide, by omega, ?_⟩
    simp
    omega

theorem joinSplit (a b c doy doe : Int) (ha : 0 ≤ a ∧ a ≤ 3) (hb : 0 ≤ b ∧ b ≤ 24) (hc : 0 ≤ c ∧ c ≤ 3)
    (hd : 0 ≤ doy ∧ doy ≤ 365) (hl : doy = 365 → c = 3 ∧ (b ≤ 23 ∨ a = 3))
    (hdoe : doe = 36524 * a + 1461 * b + 365 * c + doy) :
    min (doe / 36524) 3 = a ∧ (doe - a * 36524) / 1461 = b ∧ min ((doe - a * 36524) % 1461 / 365) 3 = c ∧
      (doe - a * 36524) % 1461 - c * 365 = doy ∧ 0 ≤ doe ∧ doe ≤ 146096 := by
  have h1 : min (doe / 36524) 3 = a := by omega
  have h2 : doe - a * 36524 = 1461 * b + (365 * c + doy) := by omega
  have h3 : 0 ≤ 365 * c + doy ∧ 365 * c + doy < 1461 := by omega
  have h4 : (doe - a * 36524) / 1461 = b := by rw [h2]; omega
  have h5 : (doe - a * 36524) % 1461 = 365 * c + doy := by rw [h2]; omega
  refine ⟨h1, h4, ?_, ?_, by omega, by omega⟩
  · rw [h5]; omega
  · rw [h5]; omega

/-- civil date → day number → civil date is the identity on the dates of the calendar. -/
theorem civil_days_civil (y m d : Int) (hm1 : 1 ≤ m) (hm2 : m ≤ 12) (hd1 : 1 ≤ d) (hd2 : d ≤ daysIn m y) :
    civilFromDays (daysFromCivil y m d) = (y, m, d) := by
  -- the March-based year and its position in the era
  generalize hy' : (if m ≤ 2 then y - 1 else y) = y' at *
  have hyoe0 : 0 ≤ y' % 400 := Int.emod_nonneg _ (by decide)
  have hyoe1 : y' % 400 < 400 := Int.emod_lt_of_pos _ (by decide)
  have hy400 := Int.mul_ediv_add_emod y' 400
  generalize hera : y' / 400 = era at *
  generalize hyoe : y' % 400 = yoe at *
  -- yoe = 100 a + 4 b + c
  have ha0 : 0 ≤ yoe / 100 := by omega
  have hb0 : 0 ≤ yoe % 100 / 4 := by omega
  generalize haa : yoe / 100 = a at *
  generalize hbb : yoe % 100 / 4 = b at *
  generalize hcc : yoe % 4 = c at *
  have hyabc : yoe = 100 * a + 4 * b + c := by omega
  have hq4 : yoe / 4 = 25 * a + b := by omega
  have hleap : isLeap y = true ↔ (y % 4 = 0 ∧ (y % 100 ≠ 0 ∨ y % 400 = 0)) := isLeap_iff y
  have hmm : m = 1 ∨ m = 2 ∨ m = 3 ∨ m = 4 ∨ m = 5 ∨ m = 6 ∨ m = 7 ∨ m = 8 ∨ m = 9 ∨ m = 10 ∨ m = 11 ∨ m = 12 := by
    omega
  -- Day bound per month, and for the 29th of February the leap-year facts in terms of a, b, c
  have key : ∀ (mp doy : Int), mp = (if m > 2 then m - 3 else m + 9) → doy = (153 * mp + 2) / 5 + d - 1 →
      0 ≤ doy ∧ doy ≤ 365 ∧ (doy = 365 → c = 3 ∧ (b ≤ 23 ∨ a = 3)) ∧ (5 * doy + 2) / 153 = mp ∧
        doy - (153 * mp + 2) / 5 + 1 = d ∧ (if mp < 10 then mp + 3 else mp - 9) = m := by
    intro mp doy hmp hdoy
    rcases hmm with h | h | h | h | h | h | h | h | h | h | h | h
    case inr.inl =>
      subst h
      simp only [daysIn, if_true] at hd2
      simp at hmp hy'
      subst hmp
      by_cases hl : isLeap y = true
      · rw [if_pos hl] at hd2
        rw [hleap] at hl
        refine ⟨by omega, by omega, ?_, by omega, by omega, by simp⟩
        intro h365
        omega
      · rw [if_neg hl] at hd2
        refine ⟨by omega, by omega, ?_, by omega, by omega, by simp⟩
        intro h365
        omega
    all_goals
      subst h
      simp [daysIn] at hd2
      simp at hmp
      subst hmp
      refine ⟨by omega, by omega, ?_, by omega, by omega, by simp⟩
      intro h365
      omega
  simp only [daysFromCivil]
  rw [hy', hera, hyoe]
  generalize hmp : (if m > 2 then m - 3 else m + 9) = mp
  generalize hdoy : (153 * mp + 2) / 5 + d - 1 = doy
  obtain ⟨k1, k2, k3, k4, k5, k6⟩ := key mp doy hmp.symm hdoy.symm
  have J := joinSplit a b c doy (yoe * 365 + yoe / 4 - yoe / 100 + doy) ⟨by omega, by omega⟩ ⟨by omega, by omega⟩
    ⟨by omega, by omega⟩ ⟨k1, k2⟩ k3 (by omega)
  obtain ⟨j1, j2, j3, j4, j5, j6⟩ := J
  generalize hdoe : yoe * 365 + yoe / 4 - yoe / 100 + doy = doe at *
  simp only [civilFromDays]
  have e0 : era * 146097 + doe - 719468 + 719468 = era * 146097 + doe := by omega
  have e1 : (era * 146097 + doe) / 146097 = era := by omega
  have e2 : (era * 146097 + doe) % 146097 = doe := by omega
  rw [e0, e1, e2, j1, j2, j3, j4, k4, k5, k6]
  refine Prod.ext ?_ rfl
  show 100 * a + 4 * b + c + era * 400 + (if m ≤ 2 then 1 else 0) = y
  by_cases h2 : m ≤ 2
  · simp only [h2, if_true] at hy' ⊢; omega
  · simp only [h2, if_false] at hy' ⊢; omega

/-! ### digits, names, the round trip -/

theorem dig_lt (d : Nat) (h : d < 10) : isDig (dig d) = true ∧ dv (dig d) = d ∧ (dig d == 32) = false := by
  match d, h with
  | 0, _ | 1, _ | 2, _ | 3, _ | 4, _ | 5, _ | 6, _ | 7, _ | 8, _ | 9, _ => decide
  | _ + 10, h => omega

theorem dig_mod (x : Nat) : isDig (dig (x % 10)) = true ∧ dv (dig (x % 10)) = x % 10 ∧ (dig (x % 10) == 32) = false :=
  dig_lt _ (Nat.mod_lt _ (by decide))

theorem getnum2_dig (a b : Nat) (r : Bytes) :
    getnum2 (dig (a % 10) :: dig (b % 10) :: r) = some (a % 10 * 10 + b % 10, r) := by
  simp [getnum2, (dig_mod a).1, (dig_mod b).1, (dig_mod a).2.1, (dig_mod b).2.1]

theorem getnum12_dig (a b : Nat) (r : Bytes) :
    getnum12 (dig (a % 10) :: dig (b % 10) :: r) = some (a % 10 * 10 + b % 10, r) := by
  simp [getnum12, (dig_mod a).1, (dig_mod b).1, (dig_mod a).2.1, (dig_mod b).2.1]

theorem getYear4_dig (a b c d : Nat) (r : Bytes) :
    getYear4 (dig (a % 10) :: dig (b % 10) :: dig (c % 10) :: dig (d % 10) :: r) =
      some (a % 10 * 1000 + b % 10 * 100 + c % 10 * 10 + d % 10, r) := by
  simp [getYear4, (dig_mod a).1, (dig_mod b).1, (dig_mod c).1, (dig_mod d).1, (dig_mod a).2.1, (dig_mod b).2.1,
    (dig_mod c).2.1, (dig_mod d).2.1]

theorem skipSp_dig (x : Nat) (r : Bytes) : skipSp (32 :: dig (x % 10) :: r) = some (dig (x % 10) :: r) := by
  simp [skipSp, (dig_mod x).2.2]

/-- every weekday name is found at its own index and does not start with a blank -/
theorem dayTab_ok : ∀ i, i < 7 →
    (match dayTab[i]? with
     | some (a, b, c) => lookup3 dayTab a b c == some i && a != 32
     | none => false) = true := by decide

theorem monthTab_ok : ∀ i, i < 12 →
    (match monthTab[i]? with
     | some (a, b, c) => lookup3 monthTab a b c == some i && a != 32
     | none => false) = true := by decide

theorem name3_day (i : Nat) (h : i < 7) : ∃ a b c, name3 dayTab i = [a, b, c] ∧ lookup3 dayTab a b c = some i := by
  have := dayTab_ok i h
  unfold name3
  cases hh : dayTab[i]? with
  | none => rw [hh] at this; simp at this
  | some e =>
    obtain ⟨a, b, c⟩ := e
    rw [hh] at this
    simp at this
    exact ⟨a, b, c, rfl, this.1⟩

theorem name3_month (i : Nat) (h : i < 12) :
    ∃ a b c, name3 monthTab i = [a, b, c] ∧ lookup3 monthTab a b c = some i ∧ a ≠ 32 := by
  have := monthTab_ok i h
  unfold name3
  cases hh : monthTab[i]? with
  | none => rw [hh] at this; simp at this
  | some e =>
    obtain ⟨a, b, c⟩ := e
    rw [hh] at this
    simp at this
    exact ⟨a, b, c, rfl, this.1, this.2⟩

/-- the year of a day number inside `[0000-01-01, 9999-12-31]` has four digits -/
theorem civil_year_range (z : Int) (h1 : -719528 ≤ z) (h2 : z ≤ 2932896) :
    0 ≤ (civilFromDays z).1 ∧ (civilFromDays z).1 ≤ 9999 := by
  have D := decomp z
  rw [D.civil]
  obtain ⟨era, doe, n100, n4, n1, doy, mp, hz, hdoe, b100, b4, b1, bdoy, leapEnd, hmp, bmp, _⟩ := D
  show 0 ≤ 100 * n100 + 4 * n4 + n1 + era * 400 + (if (if mp < 10 then mp + 3 else mp - 9) ≤ 2 then 1 else 0) ∧
    100 * n100 + 4 * n4 + n1 + era * 400 + (if (if mp < 10 then mp + 3 else mp - 9) ≤ 2 then 1 else 0) ≤ 9999
  have hera : -1 ≤ era ∧ era ≤ 24 := by omega
  by_cases hlt : mp < 10
  · have h2' : ¬ (mp + 3 ≤ 2) := by omega
    simp only [hlt, if_true, h2', if_false]
    have hd : doy ≤ 305 := by omega
    have he : 0 ≤ era := by omega
    have hu : era = 24 → 100 * n100 + 4 * n4 + n1 ≤ 399 := by omega
    omega
  · have h2' : mp - 9 ≤ 2 := by omega
    simp only [hlt, if_false, h2', if_true]
    have hd : 306 ≤ doy := by omega
    have hu : era = 24 → 100 * n100 + 4 * n4 + n1 ≤ 398 := by
      intro he
      have : doe ≤ 146036 := by omega
      omega
    have hl : era = -1 → 100 * n100 + 4 * n4 + n1 = 399 := by
      intro he
      have : 146037 ≤ doe := by omega
      omega
    omega

theorem yearBytes_range (y : Int) (h0 : 0 ≤ y) (h1 : y ≤ 9999) : yearBytes y = pad4 y.toNat := by
  unfold yearBytes
  have h2 : ¬ y < 0 := by omega
  have h3 : y.natAbs < 10000 := by omega
  have h4 : y.natAbs = y.toNat := by omega
  rw [h4] at h3 ⊢
  simp only [h2, h3, if_false, if_true, List.nil_append]

theorem skipSp_ne (c : UInt8) (r : Bytes) (h : c ≠ 32) : skipSp (32 :: c :: r) = some (c :: r) := by
  simp [skipSp, h]

theorem tail_gmt : fracPart [32, 71, 77, 84] = (0, [32, 71, 77, 84]) ∧ skipSp [32, 71, 77, 84] = some [71, 77, 84] ∧
    parseZone [71, 77, 84] = some ([71, 77, 84], 0, []) := by decide

/-- `ParseInLocation(RFC1123, AppendHTTPDate(t), UTC)` gives `t` back (zone `GMT`, offset 0), for every `t` whose year has
four digits. -/
theorem parse_format (t : Int) (h1 : minSec ≤ t) (h2 : t < maxSec) :
    parseRFC1123 (formatHTTPDate t) = some { sec := t, nsec := 0, zone := [71, 77, 84], zoneOff := 0 } := by
  unfold minSec at h1
  unfold maxSec at h2
  have hz1 : -719528 ≤ t / 86400 := by omega
  have hz2 : t / 86400 ≤ 2932896 := by omega
  have hs0 : 0 ≤ t % 86400 := Int.emod_nonneg _ (by decide)
  have hs1 : t % 86400 < 86400 := Int.emod_lt_of_pos _ (by decide)
  have hyr := civil_year_range _ hz1 hz2
  have hv := civil_valid (t / 86400)
  have hdcd := days_civil_days (t / 86400)
  have hwd : weekday (t / 86400) < 7 := by unfold weekday; omega
  unfold parseRFC1123 formatHTTPDate
  simp only []
  generalize hc : civilFromDays (t / 86400) = c at *
  obtain ⟨y, m, d⟩ := c
  simp only [] at hyr hv hdcd ⊢
  obtain ⟨wa, wb, wc, hw, hwl⟩ := name3_day _ hwd
  have hm1 : m.toNat - 1 < 12 := by omega
  obtain ⟨ma, mb, mc, hmn, hml, hm32⟩ := name3_month _ hm1
  have hdle : d ≤ 31 := by
    have := hv.2.2.2
    unfold daysIn at this
    split at this
    · split at this <;> omega
    · split at this <;> omega
  generalize hs : (t % 86400).toNat = s at *
  have hsl : s < 86400 := by omega
  rw [hw, hmn, yearBytes_range y hyr.1 hyr.2]
  simp only [pad2, pad4, List.cons_append, List.nil_append, parseLayout, hwl, skipLit, if_true, Option.bind_some,
    skipSp_dig, getnum2_dig, Bool.false_eq_true, if_false, skipSp_ne _ _ hm32, hml, getYear4_dig, getnum12_dig,
    tail_gmt.1, tail_gmt.2.1, tail_gmt.2.2, List.isEmpty_nil, Bool.not_true]
  have e1 : ((y.toNat / 1000 % 10 * 1000 + y.toNat / 100 % 10 * 100 + y.toNat / 10 % 10 * 10 + y.toNat % 10 : Nat) : Int) = y := by
    omega
  have e2 : ((m.toNat - 1 + 1 : Nat) : Int) = m := by omega
  have e3 : d.toNat / 10 % 10 * 10 + d.toNat % 10 = d.toNat := by omega
  have e3' : ((d.toNat : Nat) : Int) = d := by omega
  have e4 : s / 3600 / 10 % 10 * 10 + s / 3600 % 10 = s / 3600 := by omega
  have e5 : s % 3600 / 60 / 10 % 10 * 10 + s % 3600 / 60 % 10 = s % 3600 / 60 := by omega
  have e6 : s % 60 / 10 % 10 * 10 + s % 60 % 10 = s % 60 := by omega
  rw [e1, e2, e3, e3', e4, e5, e6, hdcd]
  have c1 : ¬ (s / 3600 ≥ 24 ∨ s % 3600 / 60 ≥ 60 ∨ s % 60 ≥ 60) := by omega
  have c2 : ¬ (d.toNat < 1 ∨ d > daysIn m y) := by omega
  rw [if_neg c1, if_neg c2]
  have e7 : t / 86400 * 86400 + ((s / 3600 : Nat) : Int) * 3600 + ((s % 3600 / 60 : Nat) : Int) * 60 + ((s % 60 : Nat) : Int) = t := by
    omega
  rw [e7]

/-- `parseHTTPDate (formatHTTPDate t) = t` for every `t` in `[0000-01-01T00:00:00Z, 9999-12-31T23:59:59Z]`. -/
theorem parseHTTPDate_format (t : Int) (h1 : minSec ≤ t) (h2 : t < maxSec) : parseHTTPDate (formatHTTPDate t) = some t := by
  unfold parseHTTPDate
  rw [parse_format t h1 h2]
  rfl

/-- the second attempt of `Cookie.ParseBytes` is never needed for a date hertz wrote -/
theorem parseCookieDate_format (t : Int) (h1 : minSec ≤ t) (h2 : t < maxSec) :
    parseCookieDate (formatHTTPDate t) = some { sec := t, nsec := 0, zone := [71, 77, 84], zoneOff := 0 } := by
  unfold parseCookieDate
  have := parse_format t h1 h2
  unfold parseRFC1123 at this
  rw [this]

theorem name3_mem (tab : List (UInt8 × UInt8 × UInt8)) (i : Nat) (h : i < tab.length) :
    ∃ a b c, name3 tab i = [a, b, c] ∧ (a, b, c) ∈ tab := by
  unfold name3
  rw [List.getElem?_eq_getElem h]
  have hm : tab[i] ∈ tab := List.getElem_mem h
  generalize tab[i] = e at hm
  obtain ⟨a, b, c⟩ := e
  exact ⟨a, b, c, rfl, hm⟩

/-- Shape of the text: 29 bytes `Www, DD Mmm YYYY HH:MM:SS GMT` with names from the two tables and decimal digits. -/
theorem format_shape (t : Int) (h1 : minSec ≤ t) (h2 : t < maxSec) :
    ∃ wa wb wc d1 d2 ma mb mc y1 y2 y3 y4 h1 h2 m1 m2 s1 s2,
      formatHTTPDate t = [wa, wb, wc, 44, 32, d1, d2, 32, ma, mb, mc, 32, y1, y2, y3, y4, 32, h1, h2, 58, m1, m2, 58,
        s1, s2, 32, 71, 77, 84] ∧
      (wa, wb, wc) ∈ dayTab ∧ (ma, mb, mc) ∈ monthTab ∧
      (isDig d1 && isDig d2 && isDig y1 && isDig y2 && isDig y3 && isDig y4 && isDig h1 && isDig h2 && isDig m1 &&
        isDig m2 && isDig s1 && isDig s2) = true := by
  unfold minSec at h1
  unfold maxSec at h2
  have hz1 : -719528 ≤ t / 86400 := by omega
  have hz2 : t / 86400 ≤ 2932896 := by omega
  have hyr := civil_year_range _ hz1 hz2
  have hv := civil_valid (t / 86400)
  have hwd : weekday (t / 86400) < 7 := by unfold weekday; omega
  unfold formatHTTPDate
  simp only []
  generalize hc : civilFromDays (t / 86400) = c at *
  obtain ⟨y, m, d⟩ := c
  simp only [] at hyr hv ⊢
  have hm1 : m.toNat - 1 < 12 := by omega
  rw [yearBytes_range y hyr.1 hyr.2]
  obtain ⟨wa, wb, wc, hw, hwm⟩ := name3_mem dayTab _ (show weekday (t / 86400) < dayTab.length from hwd)
  obtain ⟨ma, mb, mc, hmn, hmm⟩ := name3_mem monthTab _ (show m.toNat - 1 < monthTab.length from hm1)
  rw [hw, hmn]
  refine ⟨wa, wb, wc, _, _, ma, mb, mc, _, _, _, _, _, _, _, _, _, _, rfl, hwm, hmm, ?_⟩
  simp only [(dig_mod _).1, Bool.and_self]

theorem format_length (t : Int) (h1 : minSec ≤ t) (h2 : t < maxSec) : (formatHTTPDate t).length = 29 := by
  obtain ⟨_, _, _, _, _, _, _, _, _, _, _, _, _, _, _, _, _, _, h, _⟩ := format_shape t h1 h2
  rw [h]
  rfl

end Hertz.HttpDate
