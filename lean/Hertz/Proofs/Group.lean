import Hertz.Model.Chain
/-!
Lemmas for the chain-assembly half of C12: `combineHandlers`, `Use`, `Group`, `handle`,
`rebuild404Handlers`, `rebuild405Handlers`.
-/
namespace Hertz.Chain

theorem combine_ok {a b c : List H} (h : combineHandlers a b = .ok c) :
    c = a ++ b ∧ (c.length : Int) < abortIndex := by
  unfold combineHandlers at h
  split at h
  · cases h
  · rename_i hlt
    injection h with h
    subst h
    exact ⟨rfl, by simp only [List.length_append]; omega⟩

/-! ### one registration call, field by field -/

theorem apply_use {e e' : Engine} {g : Nat} {m : List H} (h : e.apply (.use g m) = .ok e') :
    ∃ gh, e.groups[g]? = some gh ∧ e'.groups = e.groups.set g (gh ++ m) ∧ e'.routes = e.routes ∧
      e'.noRoute = e.noRoute ∧ e'.noMethod = e.noMethod ∧
      ((g = 0 ∧ combineHandlers (gh ++ m) e.noRoute = .ok e'.allNoRoute ∧
          combineHandlers (gh ++ m) e.noMethod = .ok e'.allNoMethod) ∨
       (g ≠ 0 ∧ e'.allNoRoute = e.allNoRoute ∧ e'.allNoMethod = e.allNoMethod)) := by
  simp only [Engine.apply] at h
  split at h
  · cases h
  · rename_i gh hg
    refine ⟨gh, hg, ?_⟩
    split at h
    · rename_i hg0
      split at h
      · cases h
      · rename_i a ha
        split at h
        · cases h
        · rename_i b hb
          injection h with h
          subst h
          exact ⟨rfl, rfl, rfl, rfl, Or.inl ⟨hg0, ha, hb⟩⟩
    · rename_i hg0
      injection h with h
      subst h
      exact ⟨rfl, rfl, rfl, rfl, Or.inr ⟨hg0, rfl, rfl⟩⟩

theorem apply_rawUse {e e' : Engine} {m : List H} (h : e.apply (.rawUse m) = .ok e') :
    ∃ gh, e.groups[0]? = some gh ∧ e' = { e with groups := e.groups.set 0 (gh ++ m) } := by
  simp only [Engine.apply] at h
  split at h
  · cases h
  · rename_i gh hg
    injection h with h
    exact ⟨gh, hg, h.symm⟩

theorem apply_group {e e' : Engine} {p : Nat} {m : List H} (h : e.apply (.group p m) = .ok e') :
    ∃ gh, e.groups[p]? = some gh ∧ ((gh ++ m).length : Int) < abortIndex ∧
      e' = { e with groups := e.groups ++ [gh ++ m] } := by
  simp only [Engine.apply] at h
  split at h
  · cases h
  · rename_i gh hg
    split at h
    · cases h
    · rename_i c hc
      obtain ⟨rfl, hlen⟩ := combine_ok hc
      injection h with h
      exact ⟨gh, hg, hlen, h.symm⟩

theorem apply_handle {e e' : Engine} {g me k : Nat} {hs : List H} (h : e.apply (.handle g me k hs) = .ok e') :
    ∃ gh, e.groups[g]? = some gh ∧ ((gh ++ hs).length : Int) < abortIndex ∧ gh ++ hs ≠ [] ∧
      e' = { e with routes := e.routes ++ [⟨me, g, k, gh ++ hs⟩] } := by
  simp only [Engine.apply] at h
  split at h
  · cases h
  · rename_i gh hg
    split at h
    · cases h
    · rename_i c hc
      obtain ⟨rfl, hlen⟩ := combine_ok hc
      split at h
      · cases h
      · rename_i hne
        split at h
        · cases h
        · injection h with h
          exact ⟨gh, hg, hlen, by simpa using hne, h.symm⟩

theorem apply_noRoute {e e' : Engine} {hs : List H} (h : e.apply (.noRoute hs) = .ok e') :
    ((e.groups.headD [] ++ hs).length : Int) < abortIndex ∧
      e' = { e with noRoute := hs, allNoRoute := e.groups.headD [] ++ hs } := by
  simp only [Engine.apply] at h
  split at h
  · cases h
  · rename_i c hc
    obtain ⟨rfl, hlen⟩ := combine_ok hc
    injection h with h
    exact ⟨hlen, h.symm⟩

theorem apply_noMethod {e e' : Engine} {hs : List H} (h : e.apply (.noMethod hs) = .ok e') :
    ((e.groups.headD [] ++ hs).length : Int) < abortIndex ∧
      e' = { e with noMethod := hs, allNoMethod := e.groups.headD [] ++ hs } := by
  simp only [Engine.apply] at h
  split at h
  · cases h
  · rename_i c hc
    obtain ⟨rfl, hlen⟩ := combine_ok hc
    injection h with h
    exact ⟨hlen, h.symm⟩

/-! ### every chain the engine can select is shorter than `AbortIndex` -/

def Short (e : Engine) : Prop :=
  (∀ r ∈ e.routes, (r.chain.length : Int) < abortIndex ∧ r.chain ≠ []) ∧
  (e.allNoRoute.length : Int) < abortIndex ∧ (e.allNoMethod.length : Int) < abortIndex

theorem short_new : Short Engine.new := by
  exact ⟨fun r hr => (by cases hr), (by decide), (by decide)⟩

theorem apply_short {e e' : Engine} {op : Op} (hs : Short e) (h : e.apply op = .ok e') : Short e' := by
  obtain ⟨h1, h2, h3⟩ := hs
  cases op with
  | use g m =>
    obtain ⟨gh, _, _, hr, _, _, hor⟩ := apply_use h
    refine ⟨by rw [hr]; exact h1, ?_, ?_⟩
    · rcases hor with ⟨_, ha, _⟩ | ⟨_, ha, _⟩
      · exact (combine_ok ha).2
      · rw [ha]; exact h2
    · rcases hor with ⟨_, _, hb⟩ | ⟨_, _, hb⟩
      · exact (combine_ok hb).2
      · rw [hb]; exact h3
  | rawUse m =>
    obtain ⟨gh, _, rfl⟩ := apply_rawUse h
    exact ⟨h1, h2, h3⟩
  | group p m =>
    obtain ⟨gh, _, _, rfl⟩ := apply_group h
    exact ⟨h1, h2, h3⟩
  | handle g me k hs' =>
    obtain ⟨gh, _, hlen, hne, rfl⟩ := apply_handle h
    refine ⟨?_, h2, h3⟩
    intro r hr
    simp only [List.mem_append, List.mem_singleton] at hr
    rcases hr with hr | rfl
    · exact h1 r hr
    · exact ⟨hlen, hne⟩
  | noRoute hs' =>
    obtain ⟨hlen, rfl⟩ := apply_noRoute h
    exact ⟨h1, hlen, h3⟩
  | noMethod hs' =>
    obtain ⟨hlen, rfl⟩ := apply_noMethod h
    exact ⟨h1, h2, hlen⟩

theorem applyAll_cons_ok {e e' : Engine} {pos : Nat} {op : Op} {t : List Op}
    (h : e.applyAll pos (op :: t) = .ok e') : ∃ e1, e.apply op = .ok e1 ∧ e1.applyAll (pos + 1) t = .ok e' := by
  simp only [Engine.applyAll] at h
  split at h
  · cases h
  · rename_i e1 h1
    exact ⟨e1, h1, h⟩

theorem applyAll_short : ∀ (ops : List Op) (e e' : Engine) (pos : Nat), Short e →
    e.applyAll pos ops = .ok e' → Short e'
  | [], e, e', _, hs, h => by
    simp only [Engine.applyAll] at h; injection h with h; subst h; exact hs
  | op :: t, e, e', pos, hs, h => by
    obtain ⟨e1, h1, h2⟩ := applyAll_cons_ok h
    exact applyAll_short t e1 e' (pos + 1) (apply_short hs h1) h2

/-! ### groups carry their lineage, outermost first -/

def flat (l : Lineage) : List H := l.flatMap (·.2)

theorem flat_appendLast (m : List H) : ∀ (l : Lineage), l ≠ [] → flat (appendLast m l) = flat l ++ m
  | [], h => absurd rfl h
  | [(a, x)], _ => by simp [appendLast, flat]
  | x :: y :: t, _ => by
    have ih := flat_appendLast m (y :: t) (by simp)
    simp only [appendLast, flat, List.flatMap_cons] at ih ⊢
    rw [ih]; simp

theorem appendLast_ne_nil (m : List H) : ∀ (l : Lineage), l ≠ [] → appendLast m l ≠ []
  | [], h => absurd rfl h
  | [(a, x)], _ => by simp [appendLast]
  | x :: y :: t, _ => by simp [appendLast]

def Rel (e : Engine) (ls : List Lineage) : Prop := e.groups = ls.map flat ∧ ∀ l ∈ ls, l ≠ []

theorem rel_new : Rel Engine.new shadowInit := by
  refine ⟨by simp [Engine.new, shadowInit, flat], ?_⟩
  intro l hl
  simp only [shadowInit, List.mem_singleton] at hl
  subst hl; simp

theorem rel_get {e : Engine} {ls : List Lineage} (hr : Rel e ls) {g : Nat} {gh : List H}
    (h : e.groups[g]? = some gh) : ∃ l, ls[g]? = some l ∧ flat l = gh ∧ l ≠ [] := by
  rw [hr.1, List.getElem?_map] at h
  cases hl : ls[g]? with
  | none => rw [hl] at h; cases h
  | some l =>
    rw [hl] at h
    simp only [Option.map_some, Option.some.injEq] at h
    exact ⟨l, rfl, h, hr.2 l (List.mem_of_getElem? hl)⟩

theorem rel_set {e : Engine} {ls : List Lineage} (hr : Rel e ls) {g : Nat} {gh m : List H} {l : Lineage}
    (hl : ls[g]? = some l) (hfl : flat l = gh) (hne : l ≠ []) :
    e.groups.set g (gh ++ m) = (ls.set g (appendLast m l)).map flat ∧
      ∀ l' ∈ ls.set g (appendLast m l), l' ≠ [] := by
  refine ⟨?_, ?_⟩
  · rw [hr.1, List.map_set, flat_appendLast m l hne, hfl]
  · intro l' hl'
    rcases List.mem_or_eq_of_mem_set hl' with h | h
    · exact hr.2 l' h
    · rw [h]; exact appendLast_ne_nil m l hne

theorem apply_rel {e e' : Engine} {ls : List Lineage} {op : Op} (hr : Rel e ls) (h : e.apply op = .ok e') :
    Rel e' (op.shadow ls) := by
  cases op with
  | use g m =>
    obtain ⟨gh, hg, hgr, _⟩ := apply_use h
    obtain ⟨l, hl, hfl, hne⟩ := rel_get hr hg
    have := rel_set (m := m) hr hl hfl hne
    simp only [Op.shadow, hl]
    exact ⟨by rw [hgr]; exact this.1, this.2⟩
  | rawUse m =>
    obtain ⟨gh, hg, rfl⟩ := apply_rawUse h
    obtain ⟨l, hl, hfl, hne⟩ := rel_get hr hg
    have := rel_set (m := m) hr hl hfl hne
    simp only [Op.shadow, hl]
    exact ⟨this.1, this.2⟩
  | group p m =>
    obtain ⟨gh, hg, _, rfl⟩ := apply_group h
    obtain ⟨l, hl, hfl, hne⟩ := rel_get hr hg
    simp only [Op.shadow, hl]
    refine ⟨?_, ?_⟩
    · simp only [List.map_append, List.map_cons, List.map_nil]
      rw [← hr.1]
      simp [flat, List.flatMap_append, ← hfl]
    · intro l' hl'
      simp only [List.mem_append, List.mem_singleton] at hl'
      rcases hl' with h' | rfl
      · exact hr.2 l' h'
      · simp
  | handle g me k hs' =>
    obtain ⟨gh, _, _, _, rfl⟩ := apply_handle h
    exact hr
  | noRoute hs' =>
    obtain ⟨_, rfl⟩ := apply_noRoute h
    exact hr
  | noMethod hs' =>
    obtain ⟨_, rfl⟩ := apply_noMethod h
    exact hr

/-- where a route of the final engine came from -/
def FromHandle (ops : List Op) (ls : List Lineage) (r : Route) : Prop :=
  ∃ pre hs post, ops = pre ++ Op.handle r.grp r.method r.num hs :: post ∧
    r.chain = snapshotMws (pre.foldl Op.shadow ls) r.grp ++ hs

theorem applyAll_routes : ∀ (ops : List Op) (e e' : Engine) (ls : List Lineage) (pos : Nat), Rel e ls →
    e.applyAll pos ops = .ok e' →
    Rel e' (ops.foldl Op.shadow ls) ∧ ∀ r ∈ e'.routes, r ∈ e.routes ∨ FromHandle ops ls r
  | [], e, e', ls, _, hr, h => by
    simp only [Engine.applyAll] at h; injection h with h; subst h
    exact ⟨hr, fun r hr' => Or.inl hr'⟩
  | op :: t, e, e', ls, pos, hr, h => by
    obtain ⟨e1, h1, h2⟩ := applyAll_cons_ok h
    have hr1 := apply_rel hr h1
    obtain ⟨hrel, hroutes⟩ := applyAll_routes t e1 e' (op.shadow ls) (pos + 1) hr1 h2
    refine ⟨hrel, ?_⟩
    intro r hrm
    rcases hroutes r hrm with hin | ⟨pre, hs, post, ht, hc⟩
    · -- r was already there after `op`
      cases op with
      | handle g me k hs' =>
        obtain ⟨gh, hg, _, _, rfl⟩ := apply_handle h1
        simp only [List.mem_append, List.mem_singleton] at hin
        rcases hin with hin | rfl
        · exact Or.inl hin
        · right
          obtain ⟨l, hl, hfl, _⟩ := rel_get hr hg
          refine ⟨[], hs', t, rfl, ?_⟩
          simp [snapshotMws, hl, ← hfl, flat]
      | use g m =>
        obtain ⟨_, _, _, hrr, _⟩ := apply_use h1
        rw [hrr] at hin; exact Or.inl hin
      | rawUse m => obtain ⟨_, _, rfl⟩ := apply_rawUse h1; exact Or.inl hin
      | group p m => obtain ⟨_, _, _, rfl⟩ := apply_group h1; exact Or.inl hin
      | noRoute hs' => obtain ⟨_, rfl⟩ := apply_noRoute h1; exact Or.inl hin
      | noMethod hs' => obtain ⟨_, rfl⟩ := apply_noMethod h1; exact Or.inl hin
    · right
      exact ⟨op :: pre, hs, post, by rw [ht]; rfl, by simpa using hc⟩

/-! ### 404 / 405 chains start with the engine middleware -/

def rootPart : Op → List H
  | .use 0 m => m
  | .rawUse m => m
  | _ => []

def NF (e : Engine) : Prop :=
  e.groups ≠ [] ∧ e.allNoRoute = e.groups.headD [] ++ e.noRoute ∧ e.allNoMethod = e.groups.headD [] ++ e.noMethod

theorem headD_set_succ (l : List (List H)) (g : Nat) (x : List H) (hg : g ≠ 0) :
    (l.set g x).headD [] = l.headD [] := by
  cases l with
  | nil => rfl
  | cons a t =>
    cases g with
    | zero => exact absurd rfl hg
    | succ n => rfl

theorem headD_set_zero (l : List (List H)) (x : List H) (h : l ≠ []) : (l.set 0 x).headD [] = x := by
  cases l with
  | nil => exact absurd rfl h
  | cons a t => rfl

theorem headD_of_get (l : List (List H)) (x : List H) (h : l[0]? = some x) : l.headD [] = x := by
  cases l with
  | nil => cases h
  | cons a t => simpa using h

theorem apply_nf {e e' : Engine} {op : Op} (hn : NF e) (hraw : op.isRaw = false) (h : e.apply op = .ok e') :
    NF e' ∧ e'.groups.headD [] = e.groups.headD [] ++ rootPart op := by
  obtain ⟨hne, h404, h405⟩ := hn
  cases op with
  | use g m =>
    obtain ⟨gh, hg, hgr, _, hnr, hnm, hor⟩ := apply_use h
    have hne' : e'.groups ≠ [] := by
      rw [hgr]; intro hc; exact hne (by simpa using hc)
    rcases hor with ⟨rfl, ha, hb⟩ | ⟨hg0, ha, hb⟩
    · have hh : e'.groups.headD [] = gh ++ m := by rw [hgr]; exact headD_set_zero _ _ hne
      have hgh : e.groups.headD [] = gh := headD_of_get _ _ hg
      refine ⟨⟨hne', ?_, ?_⟩, by rw [hh, hgh]; rfl⟩
      · rw [(combine_ok ha).1, hh, hnr]
      · rw [(combine_ok hb).1, hh, hnm]
    · have hh : e'.groups.headD [] = e.groups.headD [] := by rw [hgr]; exact headD_set_succ _ _ _ hg0
      refine ⟨⟨hne', by rw [ha, hh, hnr]; exact h404, by rw [hb, hh, hnm]; exact h405⟩, ?_⟩
      rw [hh]
      cases g with
      | zero => exact absurd rfl hg0
      | succ n => simp [rootPart]
  | rawUse m => cases hraw
  | group p m =>
    obtain ⟨gh, _, _, rfl⟩ := apply_group h
    have hh : (e.groups ++ [gh ++ m]).headD [] = e.groups.headD [] := by
      cases hgs : e.groups with
      | nil => exact absurd hgs hne
      | cons a t => rfl
    refine ⟨⟨by simp, ?_, ?_⟩, ?_⟩
    · show e.allNoRoute = (e.groups ++ [gh ++ m]).headD [] ++ e.noRoute
      rw [hh]; exact h404
    · show e.allNoMethod = (e.groups ++ [gh ++ m]).headD [] ++ e.noMethod
      rw [hh]; exact h405
    · show (e.groups ++ [gh ++ m]).headD [] = e.groups.headD [] ++ rootPart (Op.group p m)
      rw [hh]; simp [rootPart]
  | handle g me k hs' =>
    obtain ⟨gh, _, _, _, rfl⟩ := apply_handle h
    exact ⟨⟨hne, h404, h405⟩, by simp [rootPart]⟩
  | noRoute hs' =>
    obtain ⟨_, rfl⟩ := apply_noRoute h
    exact ⟨⟨hne, rfl, h405⟩, by simp [rootPart]⟩
  | noMethod hs' =>
    obtain ⟨_, rfl⟩ := apply_noMethod h
    exact ⟨⟨hne, h404, rfl⟩, by simp [rootPart]⟩

theorem applyAll_nf : ∀ (ops : List Op) (e e' : Engine) (pos : Nat), NF e → (∀ op ∈ ops, op.isRaw = false) →
    e.applyAll pos ops = .ok e' → NF e' ∧ e'.groups.headD [] = e.groups.headD [] ++ ops.flatMap rootPart
  | [], e, e', _, hn, _, h => by
    simp only [Engine.applyAll] at h; injection h with h; subst h
    exact ⟨hn, by simp⟩
  | op :: t, e, e', pos, hn, hraw, h => by
    obtain ⟨e1, h1, h2⟩ := applyAll_cons_ok h
    obtain ⟨hn1, hh1⟩ := apply_nf hn (hraw op (List.mem_cons_self ..)) h1
    obtain ⟨hn', hh'⟩ := applyAll_nf t e1 e' (pos + 1) hn1 (fun o ho => hraw o (List.mem_cons_of_mem _ ho)) h2
    exact ⟨hn', by rw [hh', hh1]; simp⟩

theorem rootPart_eq_engineMws (ops : List Op) (hraw : ∀ op ∈ ops, op.isRaw = false) :
    ops.flatMap rootPart = engineMws ops := by
  induction ops with
  | nil => rfl
  | cons op t ih =>
    have h1 := hraw op (List.mem_cons_self ..)
    have h2 := ih (fun o ho => hraw o (List.mem_cons_of_mem _ ho))
    simp only [engineMws, List.flatMap_cons] at h2 ⊢
    rw [h2]
    congr 1
    cases op with
    | rawUse m => cases h1
    | use g m => cases g <;> rfl
    | _ => rfl

/-! ### statements about a whole registration history -/

theorem nf_new : NF Engine.new := ⟨by simp [Engine.new], rfl, rfl⟩

theorem select_mem_short {e : Engine} (hs : Short e) (me g k : Nat) :
    ((e.select me g k false).1.length : Int) < abortIndex := by
  simp only [Engine.select, Bool.false_eq_true, if_false]
  split
  · rename_i r hr
    exact (hs.1 r (List.mem_of_find?_eq_some hr)).1
  · split
    · exact hs.2.2
    · exact hs.2.1

theorem history_short (ops : List Op) (e : Engine) (h : Engine.new.applyAll 0 ops = .ok e) : Short e :=
  applyAll_short ops _ _ _ short_new h

theorem history_routes (ops : List Op) (e : Engine) (h : Engine.new.applyAll 0 ops = .ok e) :
    ∀ r ∈ e.routes, FromHandle ops shadowInit r := by
  intro r hr
  rcases (applyAll_routes ops _ _ _ _ rel_new h).2 r hr with h' | h'
  · cases h'
  · exact h'

theorem history_groups (ops : List Op) (e : Engine) (h : Engine.new.applyAll 0 ops = .ok e) :
    e.groups = (shadowOf ops).map flat :=
  (applyAll_routes ops _ _ _ _ rel_new h).1.1

theorem history_notfound (ops : List Op) (e : Engine) (hraw : ∀ op ∈ ops, op.isRaw = false)
    (h : Engine.new.applyAll 0 ops = .ok e) :
    e.allNoRoute = engineMws ops ++ e.noRoute ∧ e.allNoMethod = engineMws ops ++ e.noMethod ∧
      e.groups.headD [] = engineMws ops := by
  obtain ⟨⟨_, h404, h405⟩, hh⟩ := applyAll_nf ops _ _ _ nf_new hraw h
  have hroot : e.groups.headD [] = engineMws ops := by
    rw [hh, rootPart_eq_engineMws ops hraw]; simp [Engine.new]
  exact ⟨by rw [h404, hroot], by rw [h405, hroot], hroot⟩

end Hertz.Chain
