import Hertz.Proofs.BindRefine
import Hertz.Model.BindNested
/-!
Lemmas for the nested part of C15 (Model/BindNested.lean, the nested section of Spec/Bind.lean).
-/
namespace Hertz.Bind
open Hertz Hertz.H1 Hertz.Spec.Bind

/-! ## index paths -/

/-- every leaf path below the fields `i, i+1, …` of the struct at `pidx` continues `pidx` with an index `≥ i` -/
theorem leafPaths_shape : ∀ (t : Forest) (pidx : Path) (i : Nat) (p : Path), p ∈ leafPaths pidx i t →
    ∃ j rest, p = pidx ++ j :: rest ∧ i ≤ j := by
  intro t
  induction t with
  | nil => intro pidx i p h; simp [leafPaths] at h
  | leaf f rest ih =>
    intro pidx i p h
    simp only [leafPaths, List.mem_cons] at h
    rcases h with h | h
    · exact ⟨i, [], h, Nat.le_refl i⟩
    · obtain ⟨j, r, e, hj⟩ := ih pidx (i + 1) p h
      exact ⟨j, r, e, by omega⟩
  | strct hdr anon kids rest ihk ihr =>
    intro pidx i p h
    simp only [leafPaths, List.mem_append] at h
    rcases h with h | h
    · obtain ⟨j, r, e, _⟩ := ihk (pidx ++ [i]) 0 p h
      exact ⟨i, j :: r, by simp [e], Nat.le_refl i⟩
    · obtain ⟨j, r, e, hj⟩ := ihr pidx (i + 1) p h
      exact ⟨j, r, e, by omega⟩

/-- **two different leaves never get the same index path** -/
theorem leafPaths_nodup : ∀ (t : Forest) (pidx : Path) (i : Nat), (leafPaths pidx i t).Nodup := by
  intro t
  induction t with
  | nil => intro pidx i; simp [leafPaths]
  | leaf f rest ih =>
    intro pidx i
    simp only [leafPaths, List.nodup_cons]
    refine ⟨?_, ih pidx (i + 1)⟩
    intro h
    obtain ⟨j, r, e, hj⟩ := leafPaths_shape rest pidx (i + 1) _ h
    have := List.append_cancel_left e
    simp at this
    omega
  | strct hdr anon kids rest ihk ihr =>
    intro pidx i
    simp only [leafPaths]
    rw [List.nodup_append]
    refine ⟨ihk _ 0, ihr pidx (i + 1), ?_⟩
    intro a ha b hb hab
    obtain ⟨j, r, e, _⟩ := leafPaths_shape kids (pidx ++ [i]) 0 a ha
    obtain ⟨j', r', e', hj'⟩ := leafPaths_shape rest pidx (i + 1) b hb
    rw [e, e', List.append_assoc] at hab
    have := List.append_cancel_left hab
    simp at this
    omega

/-- the leaf decoders built by `getFieldDecoder` address exactly the leaves, in field order -/
theorem compileN_paths : ∀ (t : Forest) (pidx : Path) (pj : List Bytes) (i : Nat),
    ((compileN pidx pj i t).filter (fun d => !d.isStruct)).map (fun d => d.parentIdx ++ [d.index]) = leafPaths pidx i t := by
  intro t
  induction t with
  | nil => intro pidx pj i; simp [compileN, leafPaths]
  | leaf f rest ih => intro pidx pj i; simp [compileN, leafPaths, ih]
  | strct hdr anon kids rest ihk ihr => intro pidx pj i; simp [compileN, leafPaths, ihk, ihr, List.filter_append]

/-! ## the state of the body -/

theorem seen_afterBody (q : NReq) : q.afterBody.seen = q.seen := by
  cases q with
  | mk r deep st => cases st <;> rfl

theorem seen_st (q : NReq) (s : BodySt) (h : s ≠ .drained) (h' : q.st ≠ .drained) : ({ q with st := s } : NReq).seen = q.seen := by
  cases q with
  | mk r deep st => cases st <;> cases s <;> simp_all [NReq.seen]

theorem bindN_twice (t : Forest) (q : NReq) : (bindN t (bindN t q).2).1 = (bindN t q).1 := by
  unfold bindN
  simp only
  split
  · rw [seen_afterBody]
  · rfl

/-! ## the generic tag loops are the loops of the flat model -/

theorem jsonBranchG_eq (r : Req) (ti : TagInfo) (err : Option ErrKind) :
    jsonBranchG (checkRequireJSON r) (keyExist r) ti err = jsonBranch r ti err := rfl

theorem baseLoopG_eq (r : Req) : ∀ (tis : List TagInfo) (st : LoopSt),
    baseLoopG r (checkRequireJSON r) (keyExist r) tis st = baseLoop r tis st
  | [], st => rfl
  | ti :: rest, st => by
    unfold baseLoopG baseLoop
    simp only [jsonBranchG_eq, baseLoopG_eq r rest]

theorem sliceLoopG_eq (r : Req) : ∀ (tis : List TagInfo) (st : SLoopSt),
    sliceLoopG r (checkRequireJSON r) (keyExist r) tis st = sliceLoop r tis st
  | [], st => rfl
  | ti :: rest, st => by
    unfold sliceLoopG sliceLoop
    simp only [jsonBranchG_eq, sliceLoopG_eq r rest]

/-- the loops depend on the request only through the getters, and on the JSON predicates only at json tags -/
theorem baseLoopG_congr (r r' : Req) (chk ke chk' ke' : TagInfo → Bool)
    (hg : ∀ s k, getter r s k = getter r' s k) : ∀ (tis : List TagInfo) (st : LoopSt),
    (∀ ti ∈ tis, ti.key = .json → chk ti = chk' ti ∧ ke ti = ke' ti) →
    baseLoopG r chk ke tis st = baseLoopG r' chk' ke' tis st
  | [], st, _ => rfl
  | ti :: rest, st, h => by
    have hr : ∀ t ∈ rest, t.key = .json → chk t = chk' t ∧ ke t = ke' t := fun t ht => h t (List.mem_cons_of_mem _ ht)
    unfold baseLoopG
    by_cases hj : ti.key = .json
    · obtain ⟨h1, h2⟩ := h ti (List.mem_cons_self ..) hj
      simp only [hj, or_true, if_true, jsonBranchG, h1, h2]
      exact baseLoopG_congr r r' chk ke chk' ke' hg rest _ hr
    · simp only [hj, or_false, if_false, hg]
      split
      · exact baseLoopG_congr r r' chk ke chk' ke' hg rest _ hr
      · split
        · rfl
        · exact baseLoopG_congr r r' chk ke chk' ke' hg rest _ hr

theorem sliceLoopG_congr (r r' : Req) (chk ke chk' ke' : TagInfo → Bool)
    (hg : ∀ s k, sliceGetter r s k = sliceGetter r' s k) : ∀ (tis : List TagInfo) (st : SLoopSt),
    (∀ ti ∈ tis, ti.key = .json → chk ti = chk' ti ∧ ke ti = ke' ti) →
    sliceLoopG r chk ke tis st = sliceLoopG r' chk' ke' tis st
  | [], st, _ => rfl
  | ti :: rest, st, h => by
    have hr : ∀ t ∈ rest, t.key = .json → chk t = chk' t ∧ ke t = ke' t := fun t ht => h t (List.mem_cons_of_mem _ ht)
    unfold sliceLoopG
    by_cases hj : ti.key = .json
    · obtain ⟨h1, h2⟩ := h ti (List.mem_cons_self ..) hj
      simp only [hj, or_true, if_true, jsonBranchG, h1, h2]
      exact sliceLoopG_congr r r' chk ke chk' ke' hg rest _ hr
    · simp only [hj, or_false, if_false, hg]
      split
      · exact sliceLoopG_congr r r' chk ke chk' ke' hg rest _ hr
      · split
        · rfl
        · exact sliceLoopG_congr r r' chk ke chk' ke' hg rest _ hr

/-! ## a nested leaf is a top-level field of the focused request -/

theorem getter_focus (q : NReq) (P : List Bytes) (s : Src) (k : Bytes) : getter q.r s k = getter (focus q P) s k := by
  cases s <;> rfl

theorem sliceGetter_focus (q : NReq) (P : List Bytes) (s : Src) (k : Bytes) :
    sliceGetter q.r s k = sliceGetter (focus q P) s k := by
  cases s <;> rfl

theorem ctFold_focus (q : NReq) (P : List Bytes) : ctFold (focus q P) = ctFold q.r := rfl

theorem bodyMembers_focus (q : NReq) (P : List Bytes) : bodyMembers (focus q P) = exactMembers q P := by
  unfold bodyMembers focus exactMembers
  cases h : q.r.body <;> simp

theorem hasBody_focus (q : NReq) (P : List Bytes) : hasBody (focus q P) = hasBody q.r := by
  unfold hasBody focus
  cases h : q.r.body <;> simp <;> rfl

theorem keyExistAt_eq (q : NReq) (P : List Bytes) (ti : TagInfo) : keyExistAt q P ti = keyExist (focus q P) ti := by
  unfold keyExistAt keyExist nodeExists bodyHasKey
  rw [ctFold_focus, bodyMembers_focus]

theorem checkRequireJSONAt_eq (q : NReq) (P : List Bytes) (ti : TagInfo)
    (hw : (ti.required && ctFold q.r && !nodeExists q P ti.jsonName && superiorAbsent q P) = false) :
    checkRequireJSONAt q P ti = checkRequireJSON (focus q P) ti := by
  unfold checkRequireJSONAt checkRequireJSON bodyHasKey
  rw [ctFold_focus, bodyMembers_focus]
  unfold nodeExists at hw ⊢
  cases h1 : ti.required <;> cases h2 : ctFold q.r <;> cases h3 : (exactMembers q P).any (fun m => m.1 == ti.jsonName) <;>
    simp_all

theorem waived_tag {q : NReq} {P : List Bytes} {f : Field} (hw : clsWaived q P f = false) :
    ∀ ti ∈ fieldTagInfos f, ti.key = .json →
      checkRequireJSONAt q P ti = checkRequireJSON (focus q P) ti ∧ keyExistAt q P ti = keyExist (focus q P) ti := by
  intro ti hti hk
  unfold clsWaived at hw
  rw [List.any_eq_false] at hw
  have := hw ti hti
  refine ⟨checkRequireJSONAt_eq q P ti ?_, keyExistAt_eq q P ti⟩
  simpa [hk] using this

/-- **a leaf decoder of a nested type runs as the decoder of a top-level field on the focused request** -/
theorem leaf_run_focus (q : NReq) (P : List Bytes) (f : Field) (pre : FieldVal) (pidx : Path) (i : Nat)
    (hw : clsWaived q P f = false) :
    ({ parentIdx := pidx, index := i, jparent := P, dec := compileField f } : NDec).run q pre =
      (compileField f).run (focus q P) pre := by
  have hc := waived_tag hw
  unfold NDec.run FieldDec.run
  simp only [Bool.false_eq_true, if_false, compileField]
  by_cases hs : f.ty.slice = true
  · simp only [hs, if_true]
    unfold decodeSliceG decodeSlice
    rw [sliceLoopG_congr q.r (focus q P) _ _ (checkRequireJSON (focus q P)) (keyExist (focus q P))
      (sliceGetter_focus q P) _ _ hc, sliceLoopG_eq]
    rfl
  · have hs' : f.ty.slice = false := by simpa using hs
    simp only [hs', Bool.false_eq_true, if_false]
    unfold decodeBaseG decodeBase
    rw [baseLoopG_congr q.r (focus q P) _ _ (checkRequireJSON (focus q P)) (keyExist (focus q P))
      (getter_focus q P) _ _ hc, baseLoopG_eq]
    rfl

/-! ## struct-typed fields without `required` and without a default -/

/-- the struct-typed field carries no `required` option and no default, and is not a slice -/
def HdrPlain (hdr : Field) : Prop :=
  (∀ t ∈ fieldTagInfos hdr, t.required = false) ∧ hdr.dflt.getD [] = [] ∧ hdr.ty.slice = false

instance (hdr : Field) : Decidable (HdrPlain hdr) := by unfold HdrPlain; infer_instance

theorem baseLoopG_idle (r : Req) (chk ke : TagInfo → Bool) (hchk : ∀ t, t.required = false → chk t = true) :
    ∀ (tis : List TagInfo) (st : LoopSt), (∀ t ∈ tis, t.required = false ∧ t.dflt = []) →
    tis.find? (hitB r) = none → st.err = none → st.exist = false → st.text = [] → st.dflt = [] →
    (baseLoopG r chk ke tis st).err = none ∧ (baseLoopG r chk ke tis st).exist = false ∧
      (baseLoopG r chk ke tis st).text = [] ∧ (baseLoopG r chk ke tis st).dflt = []
  | [], st, _, _, h1, h2, h3, h4 => ⟨h1, h2, h3, h4⟩
  | ti :: rest, st, h, hf, h1, h2, h3, h4 => by
    have hr : ∀ t ∈ rest, t.required = false ∧ t.dflt = [] := fun t ht => h t (List.mem_cons_of_mem _ ht)
    obtain ⟨hq, hd⟩ := h ti (List.mem_cons_self ..)
    rw [List.find?_cons] at hf
    cases hh : hitB r ti
    · rw [hh] at hf
      simp only at hf
      unfold baseLoopG
      by_cases hj : ti.key = .json
      · simp only [hj, or_true, if_true, jsonBranchG, hchk ti hq, hq, hd, h1]
        apply baseLoopG_idle r chk ke hchk rest _ hr hf
        · simp
        · exact h2
        · exact h3
        · simp
      · by_cases hs : ti.skip = true
        · simp only [hs, hj, true_or, if_true, if_false]
          exact baseLoopG_idle r chk ke hchk rest st hr hf h1 h2 h3 h4
        · have hg : (getter r ti.key ti.value).2 = false := by
            simp only [hitB, textPresent] at hh
            cases hs' : ti.skip
            · cases hk : (ti.key != .json)
              · simp at hk; exact absurd hk hj
              · simpa [hs', hk] using hh
            · exact absurd hs' hs
          simp only [hs, hj, or_false, if_false, hg, Bool.false_eq_true, hq, h1]
          apply baseLoopG_idle r chk ke hchk rest _ hr hf rfl rfl
          · exact getter_absent r ti.key ti.value hg
          · exact hd
    · rw [hh] at hf
      simp at hf

theorem struct_run_spec (q : NReq) (P : List Bytes) (hdr : Field) (pidx : Path) (i : Nat) (pre : FieldVal)
    (hp : HdrPlain hdr) :
    ({ parentIdx := pidx, index := i, jparent := P, dec := compileField hdr, isStruct := true } : NDec).run q pre =
      specStruct hdr (focus q P) := by
  obtain ⟨hreq, hd, hsl⟩ := hp
  have hdf : ∀ t ∈ fieldTagInfos hdr, t.dflt = [] := fun t ht => by rw [fieldTagInfos_dflt hdr t ht, hd]
  have hany : anyRequired hdr = false := by
    rw [anyRequired_eq, List.any_eq_false]
    intro t ht
    simp [hreq t ht]
  unfold NDec.run
  simp only [if_true, compileField]
  unfold decodeStructG specStruct
  rw [firstText_eq]
  cases hf : (fieldTagInfos hdr).find? (hitB (focus q P)) with
  | some ti =>
    have hw : ∀ t ∈ fieldTagInfos hdr, t.key = .json →
        checkRequireJSONAt q P t = checkRequireJSON (focus q P) t ∧ keyExistAt q P t = keyExist (focus q P) t := by
      intro t ht _
      exact ⟨checkRequireJSONAt_eq q P t (by simp [hreq t ht]), keyExistAt_eq q P t⟩
    rw [baseLoopG_congr q.r (focus q P) _ _ (checkRequireJSON (focus q P)) (keyExist (focus q P))
      (getter_focus q P) _ _ hw, baseLoopG_eq, baseLoop_find_some _ _ _ _ hf]
    simp
  | none =>
    have hf' : (fieldTagInfos hdr).find? (hitB q.r) = none := by
      rw [List.find?_eq_none] at hf ⊢
      intro t ht
      have := hf t ht
      simpa [hitB, textPresent, getter_focus q P] using this
    obtain ⟨e1, e2, e3, e4⟩ := baseLoopG_idle q.r (checkRequireJSONAt q P) (keyExistAt q P)
      (fun t ht => by simp [checkRequireJSONAt, ht]) (fieldTagInfos hdr) {} (fun t ht => ⟨hreq t ht, hdf t ht⟩) hf'
      rfl rfl rfl rfl
    simp only [e1, e2, e3, e4, dfltOf, hd, hany]
    cases named hdr .json with
    | none => simp
    | some x => cases x with
      | mk n b => simp


/-! ## the pre-bind of a nested document, leaf by leaf -/

theorem ciPathEq_refl : ∀ P : List Bytes, ciPathEq P P = true
  | [] => rfl
  | a :: t => by simp [ciPathEq, ciEq_refl a, ciPathEq_refl t]

theorem nestedClass_empty {q : NReq} {f : Field} {b : Bool} {P : List Bytes} {D : Option (List Bytes)}
    (h : nestedClass q (f, b, P, D) = "") :
    clsWaived q P f = false ∧ clsPathExtra q P D = false ∧ fieldClass f (focus q P) = "" := by
  unfold nestedClass at h
  simp only at h
  cases h1 : clsWaived q P f
  · cases h2 : clsPathExtra q P D
    · simp only [h1, h2, Bool.false_eq_true, if_false] at h
      exact ⟨rfl, rfl, h⟩
    · simp only [h1, h2, Bool.false_eq_true, if_false, if_true] at h
      split at h <;> (try split at h) <;> simp at h
  · simp [h1] at h

theorem pathExtra_D {q : NReq} {P : List Bytes} {D : Option (List Bytes)} (h : clsPathExtra q P D = false) : D = some P := by
  unfold clsPathExtra at h
  simp only [Bool.or_eq_false_iff] at h
  simpa using h.1

theorem members_eq {q : NReq} {P : List Bytes} (hj : isJSONReq q = true) (hx : clsPathExtra q P (some P) = false) :
    membersUnder q P = exactMembers q P := by
  unfold clsPathExtra at hx
  simp only [Bool.or_eq_false_iff, hj, Bool.true_and, List.any_eq_false] at hx
  unfold membersUnder exactMembers
  cases hb : q.r.body with
  | none => rfl
  | notJson => rfl
  | json top =>
    simp only
    split
    · rfl
    · congr 1
      apply List.filter_congr
      intro e he
      have := hx.2 e he
      by_cases hp : e.parents = P
      · simp [hp, ciPathEq_refl]
      · have hne : (e.parents != P) = true := by simpa using hp
        have hbe : (e.parents == P) = false := by simpa using hp
        rw [hne] at this
        simp only [Bool.and_true] at this
        simpa [hbe] using this

theorem preLeaf_eq_preFieldS (s : Bool) (q : NReq) (P : List Bytes) (f : Field) (top : List (Bytes × JVal))
    (hj : isJSONReq q = true) (hb : q.r.body = .json top) (hx : clsPathExtra q P (some P) = false) :
    preLeaf s q (some P) f = preFieldS s (focus q P) f := by
  unfold preLeaf preFieldS
  rw [hasBody_focus, ctFold_focus]
  have hj' : (hasBody q.r && ctFold q.r) = true := hj
  simp only [hj', if_true, preBindField, bodyMembers_focus, members_eq hj hx]
  unfold focus
  simp [hb]

/-- the decoders keep the parent's JSON name exactly for the structs whose fields the unmarshaller promotes (1242bf1) -/
theorem keepsParentJSON_eq_promoted (hdr : Field) (anon : Bool) : keepsParentJSON hdr anon = promoted hdr anon := by
  unfold keepsParentJSON promoted structJSONName
  cases ht : hdr.tags.lookup .json with
  | none => cases anon <;> simp
  | some content =>
    by_cases hd : content = dash
    · subst hd
      have : (headComma dash).1 ≠ [] := by decide
      cases anon <;> simp [this]
    · by_cases hh : (headComma content).1 = []
      · cases anon <;> simp [hd, hh]
      · cases anon <;> simp [hd, hh]

/-- the path of the JSON object in which the fields of the struct-typed field `hdr` are looked up: the enclosing object
itself for an embedded struct whose fields the unmarshaller promotes (`/repo` 1242bf1), else the object under its name -/
def kidP (P : List Bytes) (hdr : Field) (anon : Bool) : List Bytes := if promoted hdr anon then P else P ++ [specName hdr]

/-- every field well-formed (`FieldWF`); struct-typed fields without `required` and without a default.  Embedded structs
whose fields the unmarshaller promotes are INCLUDED since `/repo` 1242bf1 (the first version of the refinement theorem had
to exclude them: class `embedded-json-path`) -/
def ForestWF : Forest → Prop
  | .nil => True
  | .leaf f rest => FieldWF f ∧ ForestWF rest
  | .strct hdr _ kids rest => FieldWF hdr ∧ HdrPlain hdr ∧ ForestWF kids ∧ ForestWF rest

theorem mem_ctx_leaf_self {f : Field} {rest : Forest} {P : List Bytes} {D : Option (List Bytes)} :
    (f, false, P, D) ∈ fieldCtx P D (.leaf f rest) := by simp [fieldCtx]

theorem mem_ctx_leaf_rest {f : Field} {rest : Forest} {P : List Bytes} {D : Option (List Bytes)}
    {x : Field × Bool × List Bytes × Option (List Bytes)} (h : x ∈ fieldCtx P D rest) : x ∈ fieldCtx P D (.leaf f rest) := by
  simp [fieldCtx, h]

theorem mem_ctx_strct_self {hdr : Field} {anon : Bool} {kids rest : Forest} {P : List Bytes} {D : Option (List Bytes)} :
    (hdr, true, P, D) ∈ fieldCtx P D (.strct hdr anon kids rest) := by simp [fieldCtx]

theorem mem_ctx_strct_kids {hdr : Field} {anon : Bool} {kids rest : Forest} {P : List Bytes} {D : Option (List Bytes)}
    {x : Field × Bool × List Bytes × Option (List Bytes)}
    (h : x ∈ fieldCtx (kidP P hdr anon) (stepD D hdr anon) kids) :
    x ∈ fieldCtx P D (.strct hdr anon kids rest) := by
  unfold kidP at h
  simp [fieldCtx, h]

theorem mem_ctx_strct_rest {hdr : Field} {anon : Bool} {kids rest : Forest} {P : List Bytes} {D : Option (List Bytes)}
    {x : Field × Bool × List Bytes × Option (List Bytes)} (h : x ∈ fieldCtx P D rest) :
    x ∈ fieldCtx P D (.strct hdr anon kids rest) := by
  simp [fieldCtx, h]

/-- what the pre-bind handed to the leaves (`pres`, in field order) is, leaf by leaf, the pre-bind of a top-level field
on the focused request -/
def PresOK (q : NReq) : List Bytes → Forest → List FieldVal → Prop
  | _, .nil, pres => pres = []
  | P, .leaf f rest, pres => ∃ v vs, pres = v :: vs ∧ preFieldS false (focus q P) f = .ok v ∧ PresOK q P rest vs
  | P, .strct hdr anon kids rest, pres => ∃ a b, pres = a ++ b ∧ PresOK q (kidP P hdr anon) kids a ∧ PresOK q P rest b

theorem presOK_of_preLeaves (q : NReq) (s : Bool) (top : List (Bytes × JVal)) (hj : isJSONReq q = true) (hb : q.r.body = .json top) :
    ∀ (t : Forest) (P : List Bytes) (D : Option (List Bytes)) (pres : List FieldVal), ForestWF t →
    (∀ x ∈ fieldCtx P D t, nestedClass q x = "") → preLeaves s q D t = pres.map .ok → PresOK q P t pres := by
  intro t
  induction t with
  | nil =>
    intro P D pres _ _ h
    simp only [preLeaves] at h
    simpa [PresOK] using h.symm
  | leaf f rest ih =>
    intro P D pres hwf hc h
    simp only [preLeaves] at h
    have h' := h.symm
    rw [List.map_eq_cons_iff] at h'
    obtain ⟨v, vs, rfl, hv, hvs⟩ := h'
    obtain ⟨_, hx, hcl⟩ := nestedClass_empty (hc (f, false, P, D) mem_ctx_leaf_self)
    have hD := pathExtra_D hx
    subst hD
    refine ⟨v, vs, rfl, ?_, ih P _ vs hwf.2 (fun x hx => hc x (mem_ctx_leaf_rest hx)) hvs.symm⟩
    rw [preLeaf_eq_preFieldS s q P f top hj hb hx] at hv
    cases s
    · exact hv.symm
    · rw [← preFieldS_sonic _ _ (class_empty hcl).1]; exact hv.symm
  | strct hdr anon kids rest ihk ihr =>
    intro P D pres hwf hc h
    obtain ⟨_, _, hwfk, hwfr⟩ := hwf
    simp only [preLeaves] at h
    have h' := h.symm
    rw [List.map_eq_append_iff] at h'
    obtain ⟨a, b, rfl, ha, hb'⟩ := h'
    exact ⟨a, b, rfl, ihk _ _ a hwfk (fun x hx => hc x (mem_ctx_strct_kids hx)) ha.symm,
      ihr P D b hwfr (fun x hx => hc x (mem_ctx_strct_rest hx)) hb'.symm⟩

theorem presOK_unset (q : NReq) (hj : isJSONReq q = false) : ∀ (t : Forest) (P : List Bytes),
    PresOK q P t ((leaves t).map (fun _ => .unset)) := by
  intro t
  induction t with
  | nil => intro P; simp [PresOK, leaves]
  | leaf f rest ih =>
    intro P
    refine ⟨.unset, (leaves rest).map (fun _ => .unset), by simp [leaves], ?_, ih P⟩
    unfold preFieldS
    rw [hasBody_focus, ctFold_focus]
    have hj' : (hasBody q.r && ctFold q.r) = false := hj
    simp [hj']
  | strct hdr anon kids rest ihk ihr =>
    intro P
    exact ⟨_, _, by simp [leaves], ihk _, ihr P⟩

theorem presOK_length (q : NReq) : ∀ (t : Forest) (P : List Bytes) (pres : List FieldVal) (pidx : Path) (i : Nat),
    PresOK q P t pres → pres.length = (leafPaths pidx i t).length := by
  intro t
  induction t with
  | nil => intro P pres pidx i h; simp [PresOK] at h; simp [h, leafPaths]
  | leaf f rest ih =>
    intro P pres pidx i h
    obtain ⟨v, vs, rfl, _, h'⟩ := h
    simp [leafPaths, ih P vs pidx (i + 1) h']
  | strct hdr anon kids rest ihk ihr =>
    intro P pres pidx i h
    obtain ⟨a, b, rfl, ha, hb⟩ := h
    simp [leafPaths, ihk _ a (pidx ++ [i]) 0 ha, ihr P b pidx (i + 1) hb]

/-- the unmarshaller's verdict does not depend on the JSON decoder outside the class `sonic-uint32-wrap` -/
theorem preLeaves_sonic (q : NReq) (top : List (Bytes × JVal)) (hj : isJSONReq q = true) (hb : q.r.body = .json top) :
    ∀ (t : Forest) (P : List Bytes) (D : Option (List Bytes)), ForestWF t →
    (∀ x ∈ fieldCtx P D t, nestedClass q x = "") → preLeaves true q D t = preLeaves false q D t := by
  intro t
  induction t with
  | nil => intro P D _ _; rfl
  | leaf f rest ih =>
    intro P D hwf hc
    simp only [preLeaves]
    obtain ⟨_, hx, hcl⟩ := nestedClass_empty (hc (f, false, P, D) mem_ctx_leaf_self)
    have hD := pathExtra_D hx
    subst hD
    rw [ih P _ hwf.2 (fun x hx => hc x (mem_ctx_leaf_rest hx)), preLeaf_eq_preFieldS true q P f top hj hb hx,
      preLeaf_eq_preFieldS false q P f top hj hb hx, preFieldS_sonic _ _ (class_empty hcl).1]
  | strct hdr anon kids rest ihk ihr =>
    intro P D hwf hc
    obtain ⟨_, _, hwfk, hwfr⟩ := hwf
    simp only [preLeaves]
    rw [ihk (kidP P hdr anon) _ hwfk (fun x hx => hc x (mem_ctx_strct_kids hx)), ihr P D hwfr (fun x hx => hc x (mem_ctx_strct_rest hx))]

theorem preBindN_sonic (q : NReq) (t : Forest) (hwf : ForestWF t) (hc : ∀ x ∈ fieldCtx [] (some []) t, nestedClass q x = "") :
    preBindN true q t = preBindN false q t := by
  unfold preBindN
  by_cases hj : isJSONReq q = true
  · simp only [hj, if_true]
    cases hb : q.r.body with
    | none => rfl
    | notJson => rfl
    | json top => simp only [preLeaves_sonic q top hj hb t [] (some []) hwf hc]
  · simp only [hj, Bool.false_eq_true, if_false]


/-! ## the JSON name a struct-typed field hands to its fields -/

theorem newParentName_eq (hdr : Field) : newParentName hdr = specName hdr := by
  unfold newParentName specName
  rw [named_eq]
  have e : lookupOrder = [.path, .form, .query, .cookie, .header, .json] := by decide
  unfold lookupFieldTags tagOf
  rw [e]
  cases hj : hdr.tags.lookup .json with
  | none =>
    generalize hL : List.filterMap (fun s => Option.map (mkTagInfo hdr s) (List.lookup s hdr.tags))
      [Src.path, Src.form, Src.query, Src.cookie, Src.header, Src.json] = L
    have hall : ∀ t ∈ L, t.jsonName = hdr.name := by
      intro t ht
      rw [← hL, List.mem_filterMap] at ht
      obtain ⟨s, hs, hst⟩ := ht
      cases hc : hdr.tags.lookup s with
      | none => simp [hc] at hst
      | some c =>
        simp only [hc, Option.map_some, Option.some.injEq] at hst
        subst hst
        have hsj : s ≠ .json := by
          intro h; subst h; rw [hj] at hc; cases hc
        simp [mkTagInfo, hsj]
    have hr : (match (if hdr.tags.isEmpty = true then
            some ({ key := Src.json, value := hdr.name, jsonName := hdr.name, dflt := hdr.dflt.getD [] } : TagInfo)
          else Option.map (mkTagInfo hdr Src.json) none).bind
        (fun t => if t.skip = true then none else some (t.value, t.required)) with
      | some (n, _) => n
      | none => hdr.name) = hdr.name := by
      cases he : hdr.tags.isEmpty <;> simp
    refine Eq.trans ?_ hr.symm
    cases hg : L.getLast? with
    | none => rfl
    | some t => exact hall t (List.mem_of_getLast? hg)
  | some c =>
    have hne : hdr.tags.isEmpty = false := by
      cases ht : hdr.tags with
      | nil => rw [ht] at hj; simp at hj
      | cons a b => rfl
    have : (List.filterMap (fun s => Option.map (mkTagInfo hdr s) (List.lookup s hdr.tags))
        [Src.path, Src.form, Src.query, Src.cookie, Src.header, Src.json]).getLast? = some (mkTagInfo hdr .json c) := by
      have : [Src.path, Src.form, Src.query, Src.cookie, Src.header, Src.json] =
          [Src.path, Src.form, Src.query, Src.cookie, Src.header] ++ [Src.json] := rfl
      rw [this, List.filterMap_append]
      simp [hj]
    rw [this]
    simp only [hne, Bool.false_eq_true, if_false, Option.map_some, Option.bind_some]
    cases hs : (mkTagInfo hdr .json c).skip
    · simp only [Bool.false_eq_true, if_false]
      simp only [mkTagInfo] at hs ⊢
      simp [hs]
    · simp only [if_true]
      simp only [mkTagInfo] at hs ⊢
      simp [hs]

/-! ## the store -/

theorem lookup_mid : ∀ (done r : Store) (p : Path) (v : FieldVal), p ∉ done.map (·.1) →
    (done ++ (p, v) :: r).lookup p = some v
  | [], r, p, v, _ => by simp
  | (k, w) :: d, r, p, v, h => by
    simp only [List.map_cons, List.mem_cons, not_or] at h
    have hk : (p == k) = false := by simpa using h.1
    simp only [List.cons_append, List.lookup, hk]
    exact lookup_mid d r p v h.2

theorem set_notin : ∀ (s : Store) (p : Path) (v : FieldVal), p ∉ s.map (·.1) → Store.set s p v = s
  | [], _, _, _ => rfl
  | (k, w) :: d, p, v, h => by
    simp only [List.map_cons, List.mem_cons, not_or] at h
    have hk : ¬ k = p := fun e => h.1 e.symm
    simp only [Store.set, List.map_cons, hk, if_false]
    have := set_notin d p v h.2
    simp only [Store.set] at this
    rw [this]

theorem set_mid (done r : Store) (p : Path) (v v' : FieldVal) (h1 : p ∉ done.map (·.1)) (h2 : p ∉ r.map (·.1)) :
    Store.set (done ++ (p, v) :: r) p v' = done ++ (p, v') :: r := by
  have a := set_notin done p v' h1
  have b := set_notin r p v' h2
  simp only [Store.set] at a b ⊢
  simp [List.map_append, a, b]

/-! ## running the decoders of a forest -/

/-- `run` ends as the specification outcome `o` says; when all decoders succeed the segment `lp` of the store holds
the values `vs` and the run continues with `k` -/
def Sim (o : NOutcome) (lp : List Path) (run : NOutcome) (k : Store → NOutcome) : Prop :=
  match o with
  | .err e => run = .err e
  | .unk => run = .unk
  | .fault => False
  | .ok vs => ∃ seg' : Store, seg'.map (·.1) = lp ∧ seg'.map (·.2) = vs ∧ run = k seg'

theorem runN_cons_leaf (q : NReq) (d : NDec) (ds : List NDec) (s : Store) (pre : FieldVal) (h : d.isStruct = false)
    (hl : s.lookup (d.parentIdx ++ [d.index]) = some pre) :
    runN q (d :: ds) s = (match d.run q pre with
      | .err e => .err e
      | .unk => .unk
      | .ok v => runN q ds (s.set (d.parentIdx ++ [d.index]) v)) := by
  rw [runN]
  simp only [h, Bool.false_eq_true, if_false, hl]
  rfl

theorem runN_cons_struct (q : NReq) (d : NDec) (ds : List NDec) (s : Store) (h : d.isStruct = true) :
    runN q (d :: ds) s = (match d.run q .unset with
      | .err e => .err e
      | .unk => .unk
      | .ok _ => runN q ds s) := by
  rw [runN]
  simp only [h, if_true]
  rfl

theorem runN_forest (q : NReq) : ∀ (t : Forest) (pidx : Path) (P : List Bytes) (D : Option (List Bytes)) (i : Nat)
    (done seg tail : Store) (more : List NDec),
    ForestWF t → (∀ x ∈ fieldCtx P D t, nestedClass q x = "") →
    seg.map (·.1) = leafPaths pidx i t → PresOK q P t (seg.map (·.2)) →
    ((done ++ seg ++ tail).map (·.1)).Nodup →
    Sim (specForest q P t) (leafPaths pidx i t) (runN q (compileN pidx P i t ++ more) (done ++ seg ++ tail))
      (fun seg' => runN q more (done ++ seg' ++ tail)) := by
  intro t
  induction t with
  | nil =>
    intro pidx P D i done seg tail more _ _ hk _ _
    simp only [leafPaths, List.map_eq_nil_iff] at hk
    subst hk
    simp only [specForest, Sim, leafPaths, compileN, List.nil_append]
    exact ⟨[], rfl, rfl, rfl⟩
  | leaf f rest ih =>
    intro pidx P D i done seg tail more hwf hc hk hp hnd
    obtain ⟨hwf1, hwf2⟩ := hwf
    cases seg with
    | nil => simp [leafPaths] at hk
    | cons hd seg2 =>
      obtain ⟨p0, v0⟩ := hd
      simp only [leafPaths, List.map_cons, List.cons.injEq] at hk
      obtain ⟨hp0, hk2⟩ := hk
      subst hp0
      obtain ⟨v, vs, hvv, hpre, hrest⟩ := hp
      simp only [List.map_cons, List.cons.injEq] at hvv
      obtain ⟨hv, hvs⟩ := hvv
      subst hv
      subst hvs
      obtain ⟨hw, _, hcl⟩ := nestedClass_empty (hc (f, false, P, D) mem_ctx_leaf_self)
      -- keys
      have hnd' : ((done.map (·.1)) ++ (pidx ++ [i]) :: ((seg2 ++ tail).map (·.1))).Nodup := by
        simpa [List.map_append] using hnd
      have hnotin1 : (pidx ++ [i]) ∉ done.map (·.1) := by
        intro h
        have := (List.nodup_append.1 hnd').2.2 _ h _ (List.mem_cons_self ..)
        exact this rfl
      have hnotin2 : (pidx ++ [i]) ∉ (seg2 ++ tail).map (·.1) := by
        have := (List.nodup_append.1 hnd').2.1
        exact (List.nodup_cons.1 this).1
      have hstore : done ++ (pidx ++ [i], v0) :: seg2 ++ tail = done ++ (pidx ++ [i], v0) :: (seg2 ++ tail) := by simp
      have hrun := leaf_run_focus q P f v0 pidx i hw
      rw [field_refines f (focus q P) v0 hwf1 hcl hpre] at hrun
      simp only [compileN, List.cons_append, specForest]
      rw [hstore, runN_cons_leaf q _ _ _ v0 rfl (lookup_mid done (seg2 ++ tail) (pidx ++ [i]) v0 hnotin1), hrun]
      cases ho : specField f (focus q P) with
      | err e => simp [consOut, Sim]
      | unk => simp [consOut, Sim]
      | ok v' =>
        simp only
        rw [set_mid done (seg2 ++ tail) (pidx ++ [i]) v0 v' hnotin1 hnotin2]
        have hnd2 : (((done ++ [(pidx ++ [i], v')]) ++ seg2 ++ tail).map (·.1)).Nodup := by
          simpa [List.map_append] using hnd
        have hih := ih pidx P D (i + 1) (done ++ [(pidx ++ [i], v')]) seg2 tail more hwf2
          (fun x hx => hc x (mem_ctx_leaf_rest hx)) hk2 hrest hnd2
        have hst2 : done ++ [(pidx ++ [i], v')] ++ seg2 ++ tail = done ++ (pidx ++ [i], v') :: (seg2 ++ tail) := by simp
        rw [hst2] at hih
        cases ho2 : specForest q P rest with
        | err e => rw [ho2] at hih; simpa [consOut, Sim] using hih
        | unk => rw [ho2] at hih; simpa [consOut, Sim] using hih
        | fault => rw [ho2] at hih; simp [Sim] at hih
        | ok ws =>
          rw [ho2] at hih
          simp only [Sim] at hih
          obtain ⟨seg', h1, h2, h3⟩ := hih
          simp only [consOut, Sim]
          refine ⟨(pidx ++ [i], v') :: seg', by simp [leafPaths, h1], by simp [h2], ?_⟩
          rw [h3]
          simp
  | strct hdr anon kids rest ihk ihr =>
    intro pidx P D i done seg tail more hwf hc hk hp hnd
    obtain ⟨hwf1, hplain, hwfk, hwfr⟩ := hwf
    simp only [leafPaths] at hk
    rw [List.map_eq_append_iff] at hk
    obtain ⟨sk, sr, rfl, hkk, hkr⟩ := hk
    obtain ⟨a, b, hab, hpa, hpb⟩ := hp
    have hlen : (sk.map (·.2)).length = a.length := by
      rw [presOK_length q kids _ a (pidx ++ [i]) 0 hpa, ← hkk]; simp
    rw [List.map_append] at hab
    obtain ⟨ha, hb⟩ := List.append_inj hab hlen
    subst ha
    subst hb
    have hrun := struct_run_spec q P hdr pidx i .unset hplain
    have hcomp : compileN pidx P i (.strct hdr anon kids rest) ++ more =
        { parentIdx := pidx, index := i, jparent := P, dec := compileField hdr, isStruct := true } ::
          (compileN (pidx ++ [i]) (kidP P hdr anon) 0 kids ++ (compileN pidx P (i + 1) rest ++ more)) := by
      simp [compileN, keepsParentJSON_eq_promoted, newParentName_eq, kidP]
    rw [hcomp]
    simp only [specForest]
    rw [show (if promoted hdr anon = true then P else P ++ [specName hdr]) = kidP P hdr anon from rfl]
    rw [runN_cons_struct q _ _ _ rfl, hrun]
    cases ho : specStruct hdr (focus q P) with
    | err e => simp [Sim]
    | unk => simp [Sim]
    | ok u =>
      simp only
      have hnd1 : ((done ++ sk ++ (sr ++ tail)).map (·.1)).Nodup := by simpa [List.append_assoc] using hnd
      have hik := ihk (pidx ++ [i]) (kidP P hdr anon) (stepD D hdr anon) 0 done sk (sr ++ tail)
        (compileN pidx P (i + 1) rest ++ more) hwfk (fun x hx => hc x (mem_ctx_strct_kids hx)) hkk hpa hnd1
      have hst : done ++ (sk ++ sr) ++ tail = done ++ sk ++ (sr ++ tail) := by simp
      rw [hst]
      cases hok : specForest q (kidP P hdr anon) kids with
      | err e => rw [hok] at hik; simpa [appendOut, Sim] using hik
      | unk => rw [hok] at hik; simpa [appendOut, Sim] using hik
      | fault => rw [hok] at hik; simp [Sim] at hik
      | ok va =>
        rw [hok] at hik
        simp only [Sim] at hik
        obtain ⟨segk, hk1, hk2, hk3⟩ := hik
        rw [hk3]
        have hnd2 : ((done ++ segk ++ sr ++ tail).map (·.1)).Nodup := by
          have : (done ++ segk ++ sr ++ tail).map (·.1) = (done ++ (sk ++ sr) ++ tail).map (·.1) := by
            simp [List.map_append, hk1, hkk]
          rw [this]; exact hnd
        have hir := ihr pidx P D (i + 1) (done ++ segk) sr tail more hwfr
          (fun x hx => hc x (mem_ctx_strct_rest hx)) hkr hpb hnd2
        have hst2 : done ++ segk ++ (sr ++ tail) = done ++ segk ++ sr ++ tail := by simp
        rw [hst2]
        cases hor : specForest q P rest with
        | err e => rw [hor] at hir; simpa [appendOut, Sim] using hir
        | unk => rw [hor] at hir; simpa [appendOut, Sim] using hir
        | fault => rw [hor] at hir; simp [Sim] at hir
        | ok vb =>
          rw [hor] at hir
          simp only [Sim] at hir
          obtain ⟨segr, hr1, hr2, hr3⟩ := hir
          simp only [appendOut, Sim]
          refine ⟨segk ++ segr, by simp [leafPaths, hk1, hr1], by simp [hk2, hr2], ?_⟩
          rw [hr3]
          simp

/-- every field of the tree is outside the known-finding classes -/
def NoClass (q : NReq) (t : Forest) : Prop := ∀ x ∈ fieldCtx [] (some []) t, nestedClass q x = ""

theorem bindNWith_refines (t : Forest) (q : NReq) (hwf : ForestWF t) (hc : NoClass q t) :
    bindNWith (compileN [] [] 0 t) t q =
      (match preBindN false q t with
        | .err => .err .body
        | .unk => .unk
        | .ok _ => specForest q [] t) := by
  unfold bindNWith
  rw [preBindN_sonic q t hwf hc]
  cases hpb : preBindN false q t with
  | err => rfl
  | unk => rfl
  | ok pres =>
    simp only
    have hpres : PresOK q [] t pres := by
      unfold preBindN at hpb
      by_cases hj : isJSONReq q = true
      · simp only [hj, if_true] at hpb
        cases hb : q.r.body with
        | none => simp [hb] at hpb
        | notJson => simp [hb] at hpb
        | json top =>
          simp only [hb] at hpb
          cases hl : collect (preLeaves false q (some []) t) with
          | err => simp [hl] at hpb; split at hpb <;> simp at hpb
          | unk => simp [hl] at hpb; split at hpb <;> simp at hpb
          | ok vs =>
            have hvs : vs = pres := by
              simp only [hl] at hpb
              split at hpb
              · cases hpb
              · split at hpb <;> simp_all
            subst hvs
            apply presOK_of_preLeaves q false top hj hb t [] (some []) vs hwf hc
            -- collect = ok vs → list = vs.map ok
            have hcol : ∀ (l : List (Conv FieldVal)) (vs : List FieldVal), collect l = .ok vs → l = vs.map .ok := by
              intro l
              induction l with
              | nil => intro vs h; simp only [collect] at h; cases h; rfl
              | cons c l ih =>
                intro vs h
                unfold collect at h
                cases hc : c with
                | err => simp [hc] at h
                | unk => cases ht : collect l <;> simp [hc, ht] at h
                | ok v =>
                  cases ht : collect l with
                  | err => simp [hc, ht] at h
                  | unk => simp [hc, ht] at h
                  | ok w =>
                    simp only [hc, ht] at h
                    cases h
                    simp [ih w ht]
            exact hcol _ _ hl
      · have hj' : isJSONReq q = false := by simpa using hj
        simp only [hj', Bool.false_eq_true, if_false] at hpb
        cases hpb
        exact presOK_unset q hj' t []
    have hlen := presOK_length q t [] pres [] 0 hpres
    have hseg1 : ((leafPaths [] 0 t).zip pres).map (·.1) = leafPaths [] 0 t := by
      rw [List.map_fst_zip]; omega
    have hseg2 : ((leafPaths [] 0 t).zip pres).map (·.2) = pres := by
      rw [List.map_snd_zip]; omega
    have h := runN_forest q t [] [] (some []) 0 [] ((leafPaths [] 0 t).zip pres) [] [] hwf hc hseg1
      (by rw [hseg2]; exact hpres) (by simpa [hseg1] using leafPaths_nodup t [] 0)
    simp only [List.append_nil, List.nil_append] at h
    cases ho : specForest q [] t with
    | err e => rw [ho] at h; exact h
    | unk => rw [ho] at h; exact h
    | fault => rw [ho] at h; exact h.elim
    | ok vs =>
      rw [ho] at h
      obtain ⟨seg', _, h2, h3⟩ := h
      rw [h3]
      simp [runN, h2]


instance decForestWF : (t : Forest) → Decidable (ForestWF t)
  | .nil => isTrue trivial
  | .leaf f rest => by
    unfold ForestWF
    exact @instDecidableAnd _ _ _ (decForestWF rest)
  | .strct hdr _ kids rest => by
    unfold ForestWF
    exact @instDecidableAnd _ _ _ (@instDecidableAnd _ _ _ (@instDecidableAnd _ _ (decForestWF kids) (decForestWF rest)))

/-- the class predicates, as booleans (decidable on concrete trees and requests) -/
def NoClassB (q : NReq) (t : Forest) : Prop :=
  ∀ x ∈ fieldCtx [] (some []) t,
    clsWaived q x.2.2.1 x.1 = false ∧ clsPathExtra q x.2.2.1 x.2.2.2 = false ∧
    clsSonicU32 x.1 (focus q x.2.2.1) = false ∧ clsDashOnly x.1 = false ∧ clsJsonDash x.1 = false ∧
    clsPrebindExtra x.1 (focus q x.2.2.1) = false

instance (q : NReq) (t : Forest) : Decidable (NoClassB q t) := by unfold NoClassB; infer_instance

theorem noClass_of {q : NReq} {t : Forest} (h : NoClassB q t) : NoClass q t := by
  intro x hx
  obtain ⟨h1, h2, h3, h4, h5, h6⟩ := h x hx
  unfold nestedClass
  simp only [h1, h2, Bool.false_eq_true, if_false]
  exact class_empty_of h3 h4 h5 h6

/-- **Bind of a nested type against the specification**, with the state of the body -/
theorem bindN_refines (t : Forest) (q : NReq) (hwf : ForestWF t) (hc : NoClass q.seen t) :
    (bindN t q).1 = specBindN t q := by
  unfold bindN specBindN
  simp only
  rw [bindNWith_refines t q.seen hwf hc]
  cases preBindN false q.seen t <;> rfl

theorem bindN_delivery (t : Forest) (q : NReq) (s s' : BodySt) (h : s ≠ .drained) (h' : s' ≠ .drained) :
    (bindN t { q with st := s }).1 = (bindN t { q with st := s' }).1 := by
  unfold bindN
  simp only
  have : ({ q with st := s } : NReq).seen = ({ q with st := s' } : NReq).seen := by
    cases s <;> cases s' <;> simp_all [NReq.seen]
  rw [this]

/-! ## the decoders `getFieldDecoder` builds never address a path that is not a leaf (no `reflect` panic), for ALL requests -/

theorem collect_ok_map : ∀ (l : List (Conv FieldVal)) (vs : List FieldVal), collect l = .ok vs → l = vs.map .ok := by
  intro l
  induction l with
  | nil => intro vs h; simp only [collect] at h; cases h; rfl
  | cons c l ih =>
    intro vs h
    unfold collect at h
    cases hc : c with
    | err => simp [hc] at h
    | unk => cases ht : collect l <;> simp [hc, ht] at h
    | ok v =>
      cases ht : collect l with
      | err => simp [hc, ht] at h
      | unk => simp [hc, ht] at h
      | ok w =>
        simp only [hc, ht] at h
        cases h
        simp [ih w ht]

theorem preLeaves_length (s : Bool) (q : NReq) : ∀ (t : Forest) (D : Option (List Bytes)) (pidx : Path) (i : Nat),
    (preLeaves s q D t).length = (leafPaths pidx i t).length := by
  intro t
  induction t with
  | nil => intro D pidx i; rfl
  | leaf f rest ih => intro D pidx i; simp [preLeaves, leafPaths, ih D pidx (i + 1)]
  | strct hdr anon kids rest ihk ihr =>
    intro D pidx i
    simp [preLeaves, leafPaths, ihk (stepD D hdr anon) (pidx ++ [i]) 0, ihr D pidx (i + 1)]

theorem leaves_length : ∀ (t : Forest) (pidx : Path) (i : Nat), (leaves t).length = (leafPaths pidx i t).length := by
  intro t
  induction t with
  | nil => intro pidx i; rfl
  | leaf f rest ih => intro pidx i; simp [leaves, leafPaths, ih pidx (i + 1)]
  | strct hdr anon kids rest ihk ihr => intro pidx i; simp [leaves, leafPaths, ihk (pidx ++ [i]) 0, ihr pidx (i + 1)]

theorem preBindN_length (s : Bool) (q : NReq) (t : Forest) (pres : List FieldVal) (h : preBindN s q t = .ok pres) :
    pres.length = (leafPaths [] 0 t).length := by
  unfold preBindN at h
  by_cases hj : isJSONReq q = true
  · simp only [hj, if_true] at h
    cases hb : q.r.body with
    | none => simp [hb] at h
    | notJson => simp [hb] at h
    | json top =>
      simp only [hb] at h
      cases hl : collect (preLeaves s q (some []) t) with
      | err => simp [hl] at h; split at h <;> simp at h
      | unk => simp [hl] at h; split at h <;> simp at h
      | ok vs =>
        have hvs : vs = pres := by
          simp only [hl] at h
          split at h
          · cases h
          · split at h <;> simp_all
        subst hvs
        have := collect_ok_map _ _ hl
        rw [← preLeaves_length s q t (some []) [] 0, this]
        simp
  · have hj' : isJSONReq q = false := by simpa using hj
    simp only [hj', Bool.false_eq_true, if_false] at h
    cases h
    simp [leaves_length t [] 0]

theorem lookup_of_mem_keys : ∀ (s : Store) (p : Path), p ∈ s.map (·.1) → ∃ v, s.lookup p = some v
  | [], p, h => by simp at h
  | (k, w) :: d, p, h => by
    by_cases hk : p = k
    · exact ⟨w, by simp [List.lookup, hk]⟩
    · simp only [List.map_cons, List.mem_cons, hk, false_or] at h
      obtain ⟨v, hv⟩ := lookup_of_mem_keys d p h
      have hk' : (p == k) = false := by simpa using hk
      exact ⟨v, by simp [List.lookup, hk', hv]⟩

theorem set_keys (s : Store) (p : Path) (v : FieldVal) : (Store.set s p v).map (·.1) = s.map (·.1) := by
  unfold Store.set
  rw [List.map_map]
  apply List.map_congr_left
  intro e _
  simp only [Function.comp]
  split <;> rfl

theorem runN_no_fault (q : NReq) (K : List Path) : ∀ (decs : List NDec),
    (∀ d ∈ decs, d.isStruct = false → d.parentIdx ++ [d.index] ∈ K) →
    ∀ s : Store, s.map (·.1) = K → runN q decs s ≠ .fault
  | [], _, s, _ => by simp [runN]
  | d :: ds, hK, s, hs => by
    have hK' : ∀ d' ∈ ds, d'.isStruct = false → d'.parentIdx ++ [d'.index] ∈ K :=
      fun d' hd' => hK d' (List.mem_cons_of_mem _ hd')
    cases hst : d.isStruct
    · obtain ⟨pre, hpre⟩ := lookup_of_mem_keys s (d.parentIdx ++ [d.index]) (by rw [hs]; exact hK d (List.mem_cons_self ..) hst)
      rw [runN_cons_leaf q d ds s pre hst hpre]
      cases d.run q pre with
      | err e => simp
      | unk => simp
      | ok v => exact runN_no_fault q K ds hK' _ (by rw [set_keys, hs])
    · rw [runN_cons_struct q d ds s hst]
      cases d.run q .unset with
      | err e => simp
      | unk => simp
      | ok v => exact runN_no_fault q K ds hK' s hs

/-- **No panic while addressing fields**: for every type and every request (no exclusions), `Bind` never reaches a
`fault` — every leaf decoder finds the leaf its `parentIndex ++ [index]` names. -/
theorem bindN_no_fault (t : Forest) (q : NReq) : (bindN t q).1 ≠ .fault := by
  unfold bindN bindNWith
  simp only
  cases hp : preBindN true q.seen t with
  | err => simp
  | unk => simp
  | ok pres =>
    simp only
    apply runN_no_fault q.seen (leafPaths [] 0 t)
    · intro d hd hst
      rw [← compileN_paths t [] [] 0]
      exact List.mem_map.2 ⟨d, List.mem_filter.2 ⟨hd, by simp [hst]⟩, rfl⟩
    · rw [List.map_fst_zip]
      have := preBindN_length true q.seen t pres hp
      omega

end Hertz.Bind
