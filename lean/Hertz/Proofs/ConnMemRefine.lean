import Hertz.Proofs.ConnMemRel
/-!
Groundwork for the refinement "erasing the heap of the memory-level reader gives the list-level reader of
`Model/Conn.lean`" (`mem_refines_list_model`, open — see TODO-OPEN in `Props/C13.lean`): the length invariant of blocks,
the allocator facts it needs, and "a frame-respecting step leaves the view of every chain node unchanged".  Not imported
by `Props/C13.lean`.
-/
namespace Hertz.ConnMem
open Hertz Hertz.Conn

theorem slice_length (cells : Bytes) (lo hi : Nat) : (slice cells lo hi).length = min (hi - lo) (cells.length - lo) := by
  simp [slice]

/-- block lengths: a block is as long as the capacity recorded for it, wherever it is -/
def LInv (m : Mem) (s : MReader) : Prop :=
  (∀ nd ∈ s.nodes, nd.base = 0 ∧ (m.heap.get nd.blk).length = nd.cap ∧ nd.malloc ≤ nd.cap) ∧
  (∀ c ∈ s.caches, (m.heap.get c.2.1).length = c.2.2) ∧
  (∀ e ∈ m.free, (m.heap.get e.1).length = e.2)

theorem fillLoop_le_room (w : Wire) (need room : Nat) : (fillLoop w need room).1.length ≤ room := by
  fun_induction fillLoop w need room <;> simp_all [prependBytes] <;> omega

/-- a node of the chain is viewed the same after a step that respects the frame -/
theorem view_of_frame {m m' : Mem} {s s' : MReader} {L : List Nat} (hF : Frame m s L m' s') (nd : MNode) (hnd : nd ∈ s.nodes) :
    nd.view m'.heap = nd.view m.heap := by
  simp only [MNode.view]
  congr 1
  apply slice_congr
  intro k _ h2
  exact (hF.1 nd.blk k (Or.inl ⟨nd.core, List.mem_map_of_mem hnd, rfl, h2⟩)).2

theorem pickFree_mem (l : List (Nat × Nat)) (cap ch b : Nat) (rest : List (Nat × Nat))
    (h : pickFree l cap ch = some (b, rest)) : (b, cap) ∈ l ∧ ∀ e ∈ rest, e ∈ l := by
  induction l generalizing ch rest with
  | nil => simp [pickFree] at h
  | cons e t ih =>
    obtain ⟨b0, c0⟩ := e
    unfold pickFree at h
    by_cases hc : c0 = cap
    · simp only [hc, if_true] at h
      cases ch with
      | zero =>
        simp at h; obtain ⟨rfl, rfl⟩ := h
        exact ⟨by simp [hc], fun e he => List.mem_cons_of_mem _ he⟩
      | succ ch =>
        cases hp : pickFree t cap ch with
        | none => simp [hp] at h
        | some r =>
          obtain ⟨b1, r1⟩ := r
          simp [hp] at h; obtain ⟨rfl, rfl⟩ := h
          have := ih ch r1 hp
          refine ⟨List.mem_cons_of_mem _ this.1, fun e he => ?_⟩
          rcases List.mem_cons.1 he with he | he
          · rw [he, hc]; exact List.mem_cons_self
          · exact List.mem_cons_of_mem _ (this.2 e he)
    · simp only [hc, if_false] at h
      cases hp : pickFree t cap ch with
      | none => simp [hp] at h
      | some r =>
        obtain ⟨b1, r1⟩ := r
        simp [hp] at h; obtain ⟨rfl, rfl⟩ := h
        have := ih ch r1 hp
        refine ⟨List.mem_cons_of_mem _ this.1, fun e he => ?_⟩
        rcases List.mem_cons.1 he with he | he
        · rw [he]; exact List.mem_cons_self
        · exact List.mem_cons_of_mem _ (this.2 e he)

/-- the block the allocator returns is as long as the capacity of its class; the free list only shrinks; other blocks
keep their cells -/
theorem alloc_len (m : Mem) (size ch : Nat) (hfree : ∀ e ∈ m.free, (m.heap.get e.1).length = e.2) :
    ((m.alloc size ch).2.heap.get (m.alloc size ch).1).length = capOf size ∧
    (∀ e ∈ (m.alloc size ch).2.free, e ∈ m.free) := by
  unfold Mem.alloc
  split
  · rename_i h
    simp [Mem.fresh, Heap.get_set, capOf, h]
  · split
    · rename_i b rest hp
      have := pickFree_mem m.free (capOf size) ch b rest hp
      exact ⟨hfree _ this.1, this.2⟩
    · simp [Mem.fresh, Heap.get_set]

theorem view_data_length (h : Heap) (nd : MNode) (hb : nd.base = 0) (hl : (h.get nd.blk).length = nd.cap) (hm : nd.malloc ≤ nd.cap) :
    (nd.view h).data.length = nd.malloc := by
  simp [MNode.view, slice_length, hb, hl]; omega

theorem slice_splice_self' (cells : Bytes) (pos : Nat) (bs : Bytes) (h : pos + bs.length ≤ cells.length) :
    slice (splice cells pos bs) pos (pos + bs.length) = bs := by
  unfold slice splice
  have h1 : bs.take (cells.length - pos) = bs := List.take_of_length_le (by omega)
  rw [h1, List.append_assoc, List.drop_append_of_le_length (by simp; omega)]
  have : (List.take pos cells).length = pos := by simp; omega
  rw [List.drop_eq_nil_of_le (by omega), List.nil_append]
  simp

/-- `WriteBinary(b)` with `0 < len(b) < block4k` COPIES: the destination `d` is a slice of the output chain (so it is what
`Flush` sends, `covered_sent`) and right after the call it holds the contents `b` had AT CALL TIME.  (`d` lies in a block of
the writer, which the caller does not own: later rewriting of `b` cannot reach it.)  The three length hypotheses hold in
every reachable state (a block is as long as the capacity recorded for it); they are not proved as an invariant here. -/
theorem mwWriteBinary_small_copy (c : MConn) (hG : Good c) (r : Ref) (ch n : Nat) (m1 : Mem) (wr1 : MWriter)
    (hr : r.blk ∈ c.caller) (hpos : 0 < r.len) (hs : r.len < block4k) (hv : r.hi ≤ (c.mem.heap.get r.blk).length)
    (hfit : c.wr.w.base + c.wr.w.cap ≤ (c.mem.heap.get c.wr.w.blk).length) (hoff : c.wr.w.off ≤ c.wr.w.malloc)
    (hfree : ∀ e ∈ c.mem.free, (c.mem.heap.get e.1).length = e.2)
    (h : mwWriteBinary c.mem c.wr r ch = .ok (n, m1, wr1)) :
    ∃ d, Covered wr1 d ∧ d.len = r.len ∧ d.blk ∈ wr1.own ++ c.caller ∧ m1.heap.read d = c.mem.heap.read r := by
  have hrl : (c.mem.heap.read r).length = r.len := by
    simp only [Heap.read, slice_length, Ref.len] at hpos ⊢; omega
  unfold mwWriteBinary at h
  simp only [hs, if_true] at h
  cases hres : mwReserve c.mem c.wr r.len ch with
  | error e => simp [hres, bind, Except.bind] at h
  | ok v =>
    obtain ⟨dst, m2, s2⟩ := v
    have hgood := mwReserve_good c hG r.len ch dst m2 s2 hres
    simp only [hres, bind, Except.bind] at h
    -- what `Malloc` did
    have key : ∃ d, dst = some d ∧ d.hi = d.lo + r.len ∧ d.hi ≤ (m2.heap.get d.blk).length ∧ m2.heap.read r = c.mem.heap.read r := by
      have hres' := hres
      unfold mwReserve at hres'
      have hn : ¬ r.len = 0 := by omega
      simp only [hn, if_false] at hres'
      by_cases hl : c.wr.len > r.len
      · simp only [hl, if_true] at hres'
        split at hres'
        · cases hres'
        · rename_i hcap
          simp only [pure, Except.pure] at hres'; cases hres'
          exact ⟨_, rfl, rfl, by simp only; omega, rfl⟩
      · simp only [hl, if_false, pure, Except.pure] at hres'; cases hres'
        refine ⟨_, rfl, by simp, ?_, ?_⟩
        · have := (alloc_len c.mem (if r.len < defaultMallocSize then defaultMallocSize else r.len) ch hfree).1
          have hge := capOf_ge (if r.len < defaultMallocSize then defaultMallocSize else r.len)
          have hdm : (if r.len < defaultMallocSize then defaultMallocSize else r.len) = 4096 :=
            if_pos (by unfold defaultMallocSize; unfold block4k at hs; exact hs)
          have hb : block4k = 4096 := rfl
          simp only at this ⊢
          rw [this]
          rw [hdm] at hge ⊢
          omega
        · have ha := alloc_ok c.mem (if r.len < defaultMallocSize then defaultMallocSize else r.len) ch
            (c.r.blocks ++ (c.wr.own ++ c.caller)) hG.1.1 hG.1.2
          have hne : r.blk ≠ (c.mem.alloc (if r.len < defaultMallocSize then defaultMallocSize else r.len) ch).1 := by
            intro he
            have := ha.1 r.blk
            have c1 := List.count_pos_iff.2 hr
            simp only [List.count_append, he] at this c1; simp at this; omega
          simp only [Heap.read, ha.2.2.2 r.blk hne]
    obtain ⟨d, rfl, hd1, hd2, hd3⟩ := key
    have hcov := mwReserve_covered c.mem c.wr r.len ch d m2 s2 hoff hres
    simp only [pure, Except.pure] at h; cases h
    refine ⟨d, hcov.1, hcov.2, hgood.2.2 d rfl, ?_⟩
    have hl2 : (m2.heap.read r).length = r.len := by rw [hd3]; exact hrl
    show slice ((m2.heap.write d.blk d.lo (m2.heap.read r)).get d.blk) d.lo d.hi = c.mem.heap.read r
    rw [Heap.get_write_eq, hd1, ← hl2, slice_splice_self' _ _ _ (by rw [hl2]; omega), hd3]

/-! ## `off ≤ malloc` for the tail node of the output chain, in every reachable state -/

theorem mflushLoop_woff (m : Mem) (pre : List MNode) (w : MNode) (len : Nat) (sc : WScript) (h : w.off ≤ w.malloc) :
    (mflushLoop m pre w len sc).2.2.2.2.1.off ≤ (mflushLoop m pre w len sc).2.2.2.2.1.malloc := by
  induction pre generalizing m sc with
  | nil =>
    unfold mflushLoop
    cases hs : wscriptNext sc with
    | mk f sc' =>
      cases f with
      | true => exact h
      | false =>
        simp only [Bool.false_eq_true, if_false]
        split
        · simp [MNode.reset]
        · simp only; omega
  | cons hd pre ih =>
    unfold mflushLoop
    cases hs : wscriptNext sc with
    | mk f sc' =>
      cases f with
      | true => exact h
      | false =>
        simp only [Bool.false_eq_true, if_false]
        exact ih (hd.release m) sc'

theorem cstep_woff (c : MConn) (wire : Wire) (sc : WScript) (st : CStep) (h : c.wr.w.off ≤ c.wr.w.malloc)
    (o : COut) (c' : MConn) (w' : Wire) (sc' : WScript) (hs : cstep c wire sc st = .ok (o, c', w', sc')) :
    c'.wr.w.off ≤ c'.wr.w.malloc := by
  cases st with
  | rd op ch1 ch2 =>
    simp only [cstep] at hs
    cases hm : mstep c.mem c.r wire ch1 ch2 op with
    | error f => simp [hm, bind, Except.bind] at hs
    | ok r => simp only [hm, bind, Except.bind, pure, Except.pure] at hs; cases hs; exact h
  | reserve n ch =>
    simp only [cstep] at hs
    cases hm : mwReserve c.mem c.wr n ch with
    | error f => simp [hm, bind, Except.bind] at hs
    | ok r =>
      obtain ⟨ref, m1, wr1⟩ := r
      simp only [hm, bind, Except.bind, pure, Except.pure] at hs; cases hs
      unfold mwReserve at hm
      split at hm
      · simp only [pure, Except.pure] at hm; cases hm; exact h
      · split at hm
        · split at hm
          · cases hm
          · simp only [pure, Except.pure] at hm; cases hm; simp only; omega
        · simp only [pure, Except.pure] at hm; cases hm; simp
  | writeBinary r ch =>
    simp only [cstep] at hs
    cases hm : mwWriteBinary c.mem c.wr r ch with
    | error f => simp [hm, bind, Except.bind] at hs
    | ok v =>
      obtain ⟨n, m1, wr1⟩ := v
      simp only [hm, bind, Except.bind, pure, Except.pure] at hs; cases hs
      unfold mwWriteBinary at hm
      split at hm
      · cases hr : mwReserve c.mem c.wr r.len ch with
        | error f => simp [hr, bind, Except.bind] at hm
        | ok v2 =>
          obtain ⟨dst, m2, s2⟩ := v2
          have hw : s2.w.off ≤ s2.w.malloc := by
            unfold mwReserve at hr
            split at hr
            · simp only [pure, Except.pure] at hr; cases hr; exact h
            · split at hr
              · split at hr
                · cases hr
                · simp only [pure, Except.pure] at hr; cases hr; simp only; omega
              · simp only [pure, Except.pure] at hr; cases hr; simp
          simp only [hr, bind, Except.bind] at hm
          cases dst <;> (simp only [pure, Except.pure] at hm; cases hm; exact hw)
      · simp only [pure, Except.pure] at hm; cases hm; simp
  | flush =>
    simp only [cstep, pure, Except.pure] at hs; cases hs
    simp only [mwFlush]
    split
    · split
      · exact h
      · exact mflushLoop_woff _ _ _ _ _ h
    · exact mflushLoop_woff _ _ _ _ _ h
  | newBuf bs => simp only [cstep, pure, Except.pure] at hs; cases hs; exact h
  | callerWrite blk pos bs =>
    simp only [cstep] at hs
    split at hs
    · simp only [pure, Except.pure] at hs; cases hs; exact h
    · cases hs
  | fillRef r bs =>
    simp only [cstep] at hs
    split at hs
    · simp only [pure, Except.pure] at hs; cases hs; exact h
    · cases hs
  | scribble pat => simp only [cstep, pure, Except.pure] at hs; cases hs; exact h

theorem crun_woff (c : MConn) (wire : Wire) (sc : WScript) (steps : List CStep) (h : c.wr.w.off ≤ c.wr.w.malloc)
    (outs : List COut) (c' : MConn) (w' : Wire) (sc' : WScript) (hr : crun c wire sc steps = .ok (outs, c', w', sc')) :
    c'.wr.w.off ≤ c'.wr.w.malloc := by
  induction steps generalizing c wire sc outs with
  | nil => simp only [crun, pure, Except.pure] at hr; cases hr; exact h
  | cons st rest ih =>
    simp only [crun] at hr
    cases hs : cstep c wire sc st with
    | error f => simp [hs, bind, Except.bind] at hr
    | ok r =>
      obtain ⟨o, c1, w1, sc1⟩ := r
      have h1 := cstep_woff c wire sc st h o c1 w1 sc1 hs
      simp only [hs, bind, Except.bind] at hr
      cases hr2 : crun c1 w1 sc1 rest with
      | error f => simp [hr2] at hr
      | ok r2 =>
        obtain ⟨os, c2, w2, sc2⟩ := r2
        simp only [hr2, pure, Except.pure] at hr; cases hr
        exact ih c1 w1 sc1 h1 os hr2

end Hertz.ConnMem
