import Hertz.Model.TagexprTree
import Hertz.Spec.Tagexpr
/-!
Lemmas about the tree algebra of `internal/tagexpr/expr.go` (C20).
-/
namespace Hertz.Tagexpr

theorem Op.prio_lt_operand (op : Op) : op.prio < operandPrio := by
  cases op <;> decide

theorem Op.prio_pos (op : Op) : 0 < op.prio := by
  cases op <;> decide

namespace Tree
variable {α : Type}

/-- local heap condition on left children: no node binds tighter than its left child -/
def LeftOK : Tree α → Prop
  | node op l r => op.prio ≤ l.prio ∧ LeftOK l ∧ LeftOK r
  | _ => True

/-- every operator in a right subtree binds strictly tighter than the node above it -/
def RightAll : Tree α → Prop
  | node op l r => allOps (fun o => op.prio < o.prio) r ∧ RightAll l ∧ RightAll r
  | _ => True

theorem allOps_iff_inorder (p : Op → Prop) : ∀ t : Tree α, allOps p t ↔ ∀ o, Sum.inr o ∈ inorder t → p o
  | nil => by simp [allOps, inorder]
  | leaf _ => by simp [allOps, inorder]
  | node op l r => by
    simp only [allOps, inorder, List.mem_append, List.mem_cons, Sum.inr.injEq,
      allOps_iff_inorder p l, allOps_iff_inorder p r]
    constructor
    · rintro ⟨h0, h1, h2⟩ o (h | rfl | h)
      · exact h1 o h
      · exact h0
      · exact h2 o h
    · intro h
      exact ⟨h op (.inr (.inl rfl)), fun o ho => h o (.inl ho), fun o ho => h o (.inr (.inr ho))⟩

theorem allOps_of_inorder_eq {p : Op → Prop} {t t' : Tree α} (h : inorder t' = inorder t) :
    allOps p t → allOps p t' := by
  rw [allOps_iff_inorder, allOps_iff_inorder, h]; exact id

theorem allOps_mono {p q : Op → Prop} (hpq : ∀ o, p o → q o) : ∀ {t : Tree α}, allOps p t → allOps q t
  | nil, _ => trivial
  | leaf _, _ => trivial
  | node _ _ _, h => ⟨hpq _ h.1, allOps_mono hpq h.2.1, allOps_mono hpq h.2.2⟩

/-- every right operand is present -/
def RNN : Tree α → Prop
  | node _ l r => r.isNil = false ∧ RNN l ∧ RNN r
  | _ => True

/-- every right operand is present, except possibly the very last one (trailing operator) -/
def RSpine : Tree α → Prop
  | node _ l r => RNN l ∧ RSpine r
  | _ => True

theorem RNN.rspine : ∀ {t : Tree α}, RNN t → RSpine t
  | nil, _ => trivial
  | leaf _, _ => trivial
  | node _ _ r, h => ⟨h.2.1, RNN.rspine (t := r) h.2.2⟩

theorem prio_lt_of_lt_op {t : Tree α} {op : Op} (h : t.prio < op.prio) :
    ∃ lo ll lr, t = node lo ll lr := by
  cases t with
  | nil => exact absurd h (by have := op.prio_lt_operand; simp [prio] at *; omega)
  | leaf a => exact absurd h (by have := op.prio_lt_operand; simp [prio] at *; omega)
  | node lo ll lr => exact ⟨lo, ll, lr, rfl⟩

/-- What one pass does. -/
structure PassOK (t t' : Tree α) (c : Bool) : Prop where
  inorder_eq : inorder t' = inorder t
  flat_eq : flat t' = flat t
  size_eq : size t' = size t
  nil_eq : t'.isNil = t.isNil
  mu_le : mu t' ≤ mu t
  mu_lt : c = true → mu t' < mu t
  fix : c = false → t' = t ∧ LeftOK t
  right : RightAll t → RightAll t'
  rnn : RNN t → RNN t'
  rspine : RSpine t → RSpine t'

theorem subSort_node_ok {op : Op} {l r t' : Tree α} {c : Bool}
    (h : subSort (node op l r) = .ok (t', c)) :
    ∃ l' cl r' cr, subSort l = .ok (l', cl) ∧ subSort r = .ok (r', cr) ∧
      ((l'.prio < op.prio ∧ rotate op l' r' = .ok t' ∧ c = true) ∨
       (¬ l'.prio < op.prio ∧ t' = node op l' r' ∧ c = (cl || cr))) := by
  unfold subSort at h
  cases hl : subSort l with
  | error e => simp [hl] at h
  | ok pl =>
    obtain ⟨l', cl⟩ := pl
    cases hr : subSort r with
    | error e => simp [hl, hr] at h
    | ok pr =>
      obtain ⟨r', cr⟩ := pr
      simp only [hl, hr] at h
      refine ⟨l', cl, r', cr, rfl, rfl, ?_⟩
      by_cases hp : l'.prio < op.prio
      · simp only [hp, if_true] at h
        cases hrot : rotate op l' r' with
        | error e => simp [hrot] at h
        | ok t =>
          simp only [hrot, Except.ok.injEq, Prod.mk.injEq] at h
          exact .inl ⟨hp, by rw [h.1], h.2.symm⟩
      · simp only [hp, if_false, Except.ok.injEq, Prod.mk.injEq] at h
        exact .inr ⟨hp, h.1.symm, h.2.symm⟩

theorem rotate_ok {op : Op} {l r t : Tree α} (hp : l.prio < op.prio) (h : rotate op l r = .ok t) :
    ∃ lo ll lr, l = node lo ll lr ∧ lr.isNil = false ∧ t = node lo ll (node op lr r) := by
  obtain ⟨lo, ll, lr, rfl⟩ := prio_lt_of_lt_op hp
  unfold rotate at h
  cases hn : lr.isNil with
  | true => simp [hn] at h
  | false =>
    simp only [hn, Bool.false_eq_true, if_false, Except.ok.injEq] at h
    exact ⟨lo, ll, lr, rfl, hn, h.symm⟩

theorem subSort_pass : ∀ (t t' : Tree α) (c : Bool), subSort t = .ok (t', c) → PassOK t t' c
  | nil, t', c, h => by
    simp only [subSort, Except.ok.injEq, Prod.mk.injEq] at h
    obtain ⟨rfl, rfl⟩ := h
    exact ⟨rfl, rfl, rfl, rfl, Nat.le_refl _, by simp, fun _ => ⟨rfl, trivial⟩, id, id, id⟩
  | leaf a, t', c, h => by
    simp only [subSort, Except.ok.injEq, Prod.mk.injEq] at h
    obtain ⟨rfl, rfl⟩ := h
    exact ⟨rfl, rfl, rfl, rfl, Nat.le_refl _, by simp, fun _ => ⟨rfl, trivial⟩, id, id, id⟩
  | node op l r, t', c, h => by
    obtain ⟨l', cl, r', cr, hl, hr, hcase⟩ := subSort_node_ok h
    have pl := subSort_pass l l' cl hl
    have pr := subSort_pass r r' cr hr
    have hsr := pr.size_eq
    have hmr := pr.mu_le
    rcases hcase with ⟨hp, hrot, rfl⟩ | ⟨hp, rfl, rfl⟩
    · obtain ⟨lo, ll, lr, rfl, hnn, rfl⟩ := rotate_ok hp hrot
      have hsz := pl.size_eq
      have hmu := pl.mu_le
      have hin := pl.inorder_eq
      have hfl := pl.flat_eq
      simp only [size, mu, inorder, flat] at hsz hmu hin hfl
      refine ⟨?_, ?_, ?_, rfl, ?_, ?_, ?_, ?_, ?_, ?_⟩
      · simp only [inorder, ← hin, pr.inorder_eq, List.append_assoc, List.cons_append]
      · simp only [flat, ← hfl, pr.flat_eq, List.append_assoc, List.cons_append]
      · simp only [size]; omega
      · simp only [mu]; omega
      · intro _; simp only [mu]; omega
      · intro hc; cases hc
      · intro hR
        have hRl := pl.right hR.2.1
        have hRr := pr.right hR.2.2
        have h1 : allOps (fun o => op.prio < o.prio) r' := allOps_of_inorder_eq pr.inorder_eq hR.1
        have hlo : lo.prio < op.prio := hp
        exact ⟨⟨hlo, hRl.1, allOps_mono (fun o ho => Nat.lt_trans hlo ho) h1⟩, hRl.2.1, h1, hRl.2.2, hRr⟩
      · intro hN
        have hNl := pl.rnn hN.2.1
        have hNr := pr.rnn hN.2.2
        exact ⟨rfl, hNl.2.1, ⟨by rw [pr.nil_eq]; exact hN.1, hNl.2.2, hNr⟩⟩
      · intro hS
        have hNl := pl.rnn hS.1
        exact ⟨hNl.2.1, hNl.2.2, pr.rspine hS.2⟩
    · have hsz := pl.size_eq
      have hmu := pl.mu_le
      refine ⟨?_, ?_, ?_, rfl, ?_, ?_, ?_, ?_, ?_, ?_⟩
      · simp only [inorder, pl.inorder_eq, pr.inorder_eq]
      · simp only [flat, pl.flat_eq, pr.flat_eq]
      · simp only [size]; omega
      · simp only [mu]; omega
      · intro hc
        simp only [mu]
        rcases Bool.or_eq_true _ _ |>.mp hc with h1 | h1
        · have := pl.mu_lt h1; omega
        · have := pr.mu_lt h1; omega
      · intro hc
        have hcl : cl = false := by cases cl <;> simp_all
        have hcr : cr = false := by cases cr <;> simp_all
        obtain ⟨e1, f1⟩ := pl.fix hcl
        obtain ⟨e2, f2⟩ := pr.fix hcr
        subst e1; subst e2
        exact ⟨rfl, Nat.le_of_not_lt hp, f1, f2⟩
      · intro hR
        exact ⟨allOps_of_inorder_eq pr.inorder_eq hR.1, pl.right hR.2.1, pr.right hR.2.2⟩
      · intro hN
        exact ⟨by rw [pr.nil_eq]; exact hN.1, pl.rnn hN.2.1, pr.rnn hN.2.2⟩
      · intro hS
        exact ⟨pl.rnn hS.1, pr.rspine hS.2⟩

/-- A pass never panics when every right operand is present, except possibly the last one. -/
theorem subSort_total : ∀ (t : Tree α), RSpine t → ∃ r, subSort t = .ok r
  | nil, _ => ⟨_, rfl⟩
  | leaf _, _ => ⟨_, rfl⟩
  | node op l r, h => by
    obtain ⟨⟨l', cl⟩, hl⟩ := subSort_total l h.1.rspine
    obtain ⟨⟨r', cr⟩, hr⟩ := subSort_total r h.2
    have pl := subSort_pass l l' cl hl
    unfold subSort
    simp only [hl, hr]
    by_cases hp : l'.prio < op.prio
    · simp only [hp, if_true]
      obtain ⟨lo, ll, lr, rfl⟩ := prio_lt_of_lt_op hp
      have hN := pl.rnn h.1
      have : lr.isNil = false := hN.1
      simp [rotate, this]
    · simp [hp]

/-- The outcome of the `for subSortPriority(...) {}` loop. -/
structure SortOK (t t' : Tree α) : Prop where
  inorder_eq : inorder t' = inorder t
  flat_eq : flat t' = flat t
  left : LeftOK t'
  right : RightAll t → RightAll t'

theorem sortLoop_ok : ∀ (n : Nat) (t : Tree α), mu t < n → RSpine t →
    ∃ t', sortLoop n t = .ok (some t') ∧ SortOK t t'
  | 0, _, h, _ => absurd h (Nat.not_lt_zero _)
  | n + 1, t, h, hS => by
    obtain ⟨⟨t1, c⟩, h1⟩ := subSort_total t hS
    have p := subSort_pass t t1 c h1
    unfold sortLoop
    simp only [h1]
    cases c with
    | false =>
      obtain ⟨e, f⟩ := p.fix rfl
      subst e
      exact ⟨t1, by simp, ⟨rfl, rfl, f, id⟩⟩
    | true =>
      have hlt := p.mu_lt rfl
      obtain ⟨t', h2, q⟩ := sortLoop_ok n t1 (by omega) (p.rspine hS)
      refine ⟨t', by simpa using h2, ⟨?_, ?_, q.left, fun hR => q.right (p.right hR)⟩⟩
      · rw [q.inorder_eq, p.inorder_eq]
      · rw [q.flat_eq, p.flat_eq]

/-- Termination for *every* tree: the fuel `mu t + 1` is never exhausted. -/
theorem sortLoop_fuel : ∀ (n : Nat) (t : Tree α), mu t < n → sortLoop n t ≠ .ok none
  | 0, _, h => absurd h (Nat.not_lt_zero _)
  | n + 1, t, h => by
    unfold sortLoop
    cases h1 : subSort t with
    | error e => simp
    | ok r =>
      obtain ⟨t1, c⟩ := r
      have p := subSort_pass t t1 c h1
      cases c with
      | false => simp
      | true =>
        have hlt := p.mu_lt rfl
        simpa using sortLoop_fuel n t1 (by omega)

/-- Whatever the input tree, a result of the loop has the input's tokens and no node binding
tighter than its left child. -/
theorem sortLoop_sound : ∀ (n : Nat) (t t' : Tree α), sortLoop n t = .ok (some t') → SortOK t t'
  | 0, _, _, h => by simp [sortLoop] at h
  | n + 1, t, t', h => by
    unfold sortLoop at h
    cases h1 : subSort t with
    | error e => simp [h1] at h
    | ok r =>
      obtain ⟨t1, c⟩ := r
      have p := subSort_pass t t1 c h1
      simp only [h1] at h
      cases c with
      | false =>
        simp only [Bool.false_eq_true, if_false, Except.ok.injEq, Option.some.injEq] at h
        subst h
        obtain ⟨e, f⟩ := p.fix rfl
        subst e
        exact ⟨rfl, rfl, f, id⟩
      | true =>
        simp only [if_true] at h
        have q := sortLoop_sound n t1 t' h
        exact ⟨by rw [q.inorder_eq, p.inorder_eq], by rw [q.flat_eq, p.flat_eq], q.left,
          fun hR => q.right (p.right hR)⟩

theorem sortPriority_ok (t : Tree α) (hS : RSpine t) :
    ∃ t', sortPriority t = .ok (some t') ∧ SortOK t t' :=
  sortLoop_ok _ t (Nat.lt_succ_self _) hS

/-! ### chains -/

theorem chainAux_rnn : ∀ (rest : List (Op × α)) (acc : Tree α), RNN acc → RNN (chainAux acc rest)
  | [], _, h => h
  | (o, x) :: t, acc, h => chainAux_rnn t (node o acc (leaf x)) ⟨rfl, h, trivial⟩

theorem chainAux_right : ∀ (rest : List (Op × α)) (acc : Tree α), RightAll acc → RightAll (chainAux acc rest)
  | [], _, h => h
  | (o, x) :: t, acc, h => chainAux_right t (node o acc (leaf x)) ⟨trivial, h, trivial⟩

theorem chainAux_flat : ∀ (rest : List (Op × α)) (acc : Tree α),
    flat (chainAux acc rest) = ((flat acc).1, (flat acc).2 ++ rest.map (fun ox => (ox.1, some ox.2)))
  | [], acc => by simp [chainAux]
  | (o, x) :: t, acc => by
    rw [chainAux, chainAux_flat t]
    simp [flat]

theorem chain_flat (a : α) (rest : List (Op × α)) :
    flat (chain a rest) = (some a, rest.map (fun ox => (ox.1, some ox.2))) := by
  simp [chain, chainAux_flat, flat]

/-! ### a tree that satisfies the heap conditions is what the precedence parser builds -/

theorem flat_ops {p : Op → Prop} : ∀ {t : Tree α}, allOps p t → ∀ ox ∈ (flat t).2, p ox.1
  | nil, _ => by simp [flat]
  | leaf _, _ => by simp [flat]
  | node op l r, h => by
    intro ox hox
    simp only [flat, List.mem_append, List.mem_cons] at hox
    rcases hox with h1 | rfl | h1
    · exact flat_ops h.2.1 ox h1
    · exact h.1
    · exact flat_ops h.2.2 ox h1

theorem foldl_attach_right (p : Op) (l : Tree α) :
    ∀ (rs : List (Op × Option α)) (t : Tree α), (∀ ox ∈ rs, p.prio < ox.1.prio) →
      rs.foldl (fun t ox => attach t ox.1 ox.2) (node p l t)
        = node p l (rs.foldl (fun t ox => attach t ox.1 ox.2) t)
  | [], _, _ => rfl
  | (o, x) :: rs, t, h => by
    have ho : p.prio < o.prio := h (o, x) (by simp)
    simp only [List.foldl_cons]
    rw [show attach (node p l t) o x = node p l (attach t o x) by simp [attach, ho]]
    exact foldl_attach_right p l rs _ (fun ox hox => h ox (by simp [hox]))

theorem attach_of_le {t : Tree α} {o : Op} (x : Option α) (h : o.prio ≤ t.prio) :
    attach t o x = node o t (ofOperand x) := by
  cases t with
  | nil => rfl
  | leaf a => rfl
  | node p l r =>
    have : ¬ p.prio < o.prio := Nat.not_lt.mpr h
    simp [attach, this]

theorem specParse_flat : ∀ (t : Tree α), LeftOK t → RightAll t → specParse (flat t).1 (flat t).2 = t
  | nil, _, _ => rfl
  | leaf _, _, _ => rfl
  | node op l r, hL, hR => by
    have il := specParse_flat l hL.2.1 hR.2.1
    have ir := specParse_flat r hL.2.2 hR.2.2
    unfold specParse at il ir ⊢
    simp only [flat, List.foldl_append, List.foldl_cons]
    rw [il, attach_of_le _ hL.1, foldl_attach_right op l _ _ (flat_ops hR.1), ir]

/-! ### the precedence parser builds a precedence tree over the given tokens -/

theorem flat_ofOperand (x : Option α) : flat (ofOperand x : Tree α) = (x, []) := by
  cases x <;> rfl

theorem attach_flat (o : Op) (x : Option α) : ∀ t : Tree α,
    flat (attach t o x) = ((flat t).1, (flat t).2 ++ [(o, x)])
  | nil => by simp [attach, flat, flat_ofOperand]
  | leaf _ => by simp [attach, flat, flat_ofOperand]
  | node p l r => by
    unfold attach
    by_cases h : p.prio < o.prio
    · simp only [h, if_true, flat, attach_flat o x r, List.append_assoc, List.cons_append]
    · simp only [h, if_false, flat, flat_ofOperand]

theorem foldl_attach_flat : ∀ (ts : List (Op × Option α)) (t : Tree α),
    flat (ts.foldl (fun t ox => attach t ox.1 ox.2) t) = ((flat t).1, (flat t).2 ++ ts)
  | [], t => by simp
  | (o, x) :: ts, t => by
    simp only [List.foldl_cons]
    rw [foldl_attach_flat ts, attach_flat]
    simp

theorem specParse_tokens (a : Option α) (ts : List (Op × Option α)) :
    flat (specParse a ts) = (a, ts) := by
  unfold specParse
  rw [foldl_attach_flat, flat_ofOperand]
  simp

theorem allOps_ofOperand (p : Op → Prop) (x : Option α) : allOps p (ofOperand x : Tree α) := by
  cases x <;> trivial

theorem isPrec_ofOperand (x : Option α) : IsPrecTree (ofOperand x : Tree α) := by
  cases x <;> trivial

theorem allOps_attach {p : Op → Prop} {o : Op} (x : Option α) (ho : p o) :
    ∀ {t : Tree α}, allOps p t → allOps p (attach t o x)
  | nil, _ => ⟨ho, trivial, allOps_ofOperand p x⟩
  | leaf _, _ => ⟨ho, trivial, allOps_ofOperand p x⟩
  | node q l r, h => by
    unfold attach
    by_cases hq : q.prio < o.prio
    · simp only [hq, if_true]
      exact ⟨h.1, h.2.1, allOps_attach x ho h.2.2⟩
    · simp only [hq, if_false]
      exact ⟨ho, h, allOps_ofOperand p x⟩

theorem attach_prec (o : Op) (x : Option α) : ∀ {t : Tree α}, IsPrecTree t → IsPrecTree (attach t o x)
  | nil, _ => ⟨trivial, allOps_ofOperand _ x, trivial, isPrec_ofOperand x⟩
  | leaf _, _ => ⟨trivial, allOps_ofOperand _ x, trivial, isPrec_ofOperand x⟩
  | node q l r, h => by
    unfold attach
    by_cases hq : q.prio < o.prio
    · simp only [hq, if_true]
      exact ⟨h.1, allOps_attach x hq h.2.1, h.2.2.1, attach_prec o x h.2.2.2⟩
    · simp only [hq, if_false]
      have hle : o.prio ≤ q.prio := Nat.le_of_not_lt hq
      refine ⟨⟨hle, ?_, ?_⟩, allOps_ofOperand _ x, h, isPrec_ofOperand x⟩
      · exact allOps_mono (fun _ ho => Nat.le_trans hle ho) h.1
      · exact allOps_mono (fun _ ho => Nat.le_trans hle (Nat.le_of_lt ho)) h.2.1

theorem foldl_attach_prec : ∀ (ts : List (Op × Option α)) (t : Tree α), IsPrecTree t →
    IsPrecTree (ts.foldl (fun t ox => attach t ox.1 ox.2) t)
  | [], _, h => h
  | (o, x) :: ts, _, h => foldl_attach_prec ts _ (attach_prec o x h)

theorem specParse_prec (a : Option α) (ts : List (Op × Option α)) : IsPrecTree (specParse a ts) :=
  foldl_attach_prec ts _ (isPrec_ofOperand a)

/-! ### local heap conditions ⇔ the declarative `IsPrecTree` -/

theorem prio_of_allOps {k : Nat} (hk : k ≤ operandPrio) : ∀ {t : Tree α}, allOps (fun o => k ≤ o.prio) t → k ≤ t.prio
  | nil, _ => hk
  | leaf _, _ => hk
  | node _ _ _, h => h.1

theorem IsPrecTree.leftOK : ∀ {t : Tree α}, IsPrecTree t → LeftOK t
  | nil, _ => trivial
  | leaf _, _ => trivial
  | node op _ _, h => ⟨prio_of_allOps (Nat.le_of_lt op.prio_lt_operand) h.1, h.2.2.1.leftOK, h.2.2.2.leftOK⟩

theorem IsPrecTree.rightAll : ∀ {t : Tree α}, IsPrecTree t → RightAll t
  | nil, _ => trivial
  | leaf _, _ => trivial
  | node _ _ _, h => ⟨h.2.1, h.2.2.1.rightAll, h.2.2.2.rightAll⟩

theorem heap_all : ∀ {t : Tree α} {k : Nat}, LeftOK t → RightAll t → k ≤ t.prio → allOps (fun o => k ≤ o.prio) t
  | nil, _, _, _, _ => trivial
  | leaf _, _, _, _, _ => trivial
  | node p _ _, _, hL, hR, hk =>
    ⟨hk, heap_all hL.2.1 hR.2.1 (Nat.le_trans hk hL.1),
      allOps_mono (fun _ ho => Nat.le_trans hk (Nat.le_of_lt ho)) hR.1⟩

theorem isPrec_of_heap : ∀ {t : Tree α}, LeftOK t → RightAll t → IsPrecTree t
  | nil, _, _ => trivial
  | leaf _, _, _ => trivial
  | node _ _ _, hL, hR =>
    ⟨heap_all hL.2.1 hR.2.1 hL.1, hR.1, isPrec_of_heap hL.2.1 hR.2.1, isPrec_of_heap hL.2.2 hR.2.2⟩

/-- A precedence tree is determined by its token sequence. -/
theorem prec_unique {t₁ t₂ : Tree α} (h₁ : IsPrecTree t₁) (h₂ : IsPrecTree t₂) (h : flat t₁ = flat t₂) :
    t₁ = t₂ := by
  rw [← specParse_flat t₁ h₁.leftOK h₁.rightAll, ← specParse_flat t₂ h₂.leftOK h₂.rightAll, h]

/-! ### main results -/

def toks (rest : List (Op × α)) : List (Op × Option α) := rest.map (fun ox => (ox.1, some ox.2))

theorem chain_rspine (a : α) (rest : List (Op × α)) : RSpine (chain a rest) :=
  (chainAux_rnn rest (leaf a) trivial).rspine

theorem sort_chain (a : α) (rest : List (Op × α)) :
    sortPriority (chain a rest) = .ok (some (specParse (some a) (toks rest))) := by
  obtain ⟨t', h, q⟩ := sortPriority_ok (chain a rest) (chain_rspine a rest)
  have hR := q.right (chainAux_right rest (leaf a) trivial)
  have hf := q.flat_eq
  rw [chain_flat] at hf
  have := specParse_flat t' q.left hR
  rw [hf] at this
  rw [h, ← this]; rfl

/-- the same with a trailing operator (`1 + 2 *`), whose right operand stays nil -/
theorem sort_chain_trailing (a : α) (rest : List (Op × α)) (o : Op) :
    sortPriority (node o (chain a rest) nil) = .ok (some (specParse (some a) (toks rest ++ [(o, none)]))) := by
  obtain ⟨t', h, q⟩ := sortPriority_ok (node o (chain a rest) nil) ⟨chainAux_rnn rest (leaf a) trivial, trivial⟩
  have hR := q.right ⟨trivial, chainAux_right rest (leaf a) trivial, trivial⟩
  have hf := q.flat_eq
  simp only [flat, chain_flat] at hf
  have := specParse_flat t' q.left hR
  rw [hf] at this
  rw [h, ← this]; rfl

/-- folding a tree with any operator semantics -/
def fold {β : Type} (sem : Op → β → β → β) (leafV : α → β) (nilV : β) : Tree α → β
  | nil => nilV
  | leaf a => leafV a
  | node op l r => sem op (fold sem leafV nilV l) (fold sem leafV nilV r)

end Tree
end Hertz.Tagexpr
